#!/usr/bin/python3
"""Single entry point: run.py setup | pin | check <ID> --tier quick|thorough | replay <file>."""
import argparse
import importlib
import json
import os
import sys
import time
from pathlib import Path

sys.path.insert(0, str(Path(__file__).resolve().parent))
sys.dont_write_bytecode = True

from harness import common, gen  # noqa: E402


def cmd_setup(_args):
	start = time.time()
	for shim in (['sha3.py'], ['-m', 'nacl.bindings']):
		status, out = common.run([sys.executable] + shim, 300, cwd=common.SHIMS)
		if status != 0:
			print(f'INTERNAL: shim self-test {shim} failed\n{out}')
			return 2
	gen.regenerate()
	# build everything that builds (-k: a work-in-progress file of an unclaimed property must not block the claimed ones) ...
	ok, out = common.coq_make(timeout=3000, keep_going=True)
	# ... and require the theorem files of every claimed check
	manifest = json.loads((common.VERIF / 'MANIFEST.json').read_text(encoding='utf8'))
	missing = [c['property_id'] for c in manifest['checks'] if not (common.COQ / 'Props' / f'{c["property_id"]}.vo').exists()]
	if missing:
		print(out[-4000:])
		print(f'INTERNAL: coq build failed for claimed checks {missing}')
		return 2
	status, out = common.run(
		['grep', '-rnE', r'Admitted|admit\b|^\s*(Axiom|Parameter|Conjecture)\b|Unset Guard|bypass_check|Admit Obligations|type-in-type',
			'--include=*.v', 'Base', 'Cats', 'Sym', 'Lint', 'Props'], 60, cwd=common.COQ)
	if out.strip():
		print(out)
		print('INTERNAL: forbidden construct in the Coq development')
		return 2
	ocaml = common.VERIF / 'ocaml' / 'build.sh'
	if ocaml.exists():
		status, out = common.run(['sh', str(ocaml)], 1200, cwd=common.VERIF / 'ocaml')
		if status != 0:
			print(out[-4000:])
			print('INTERNAL: ocaml build failed')
			return 2
	print(f'setup ok in {time.time() - start:.0f}s')
	return 0


def cmd_pin(_args):
	only = set(_args.modules) if _args.modules else None
	gen.pin_modules(gen.all_modules(), only)
	print('pinned', sum(len(m.all_anchors()) for m in gen.all_modules() if not only or m.name in only), 'anchors')
	return 0


# checks whose implementation side must run under the baseline interpreter (/venv/bin/python, 3.12): the generated codecs depend on
# enum.Flag's strict boundary, which Debian's 3.11.2 does not implement (Flag(invalid bits) silently drops them there)
BASELINE_INTERPRETER = '/venv/bin/python'
BASELINE_CHECKS = {'C01', 'C02', 'C12', 'C15'}


# generated modules (harness/gens) a check's model is instantiated from; the checks not listed here add their unrecognised anchors themselves
SHAPE_MODULES = {
	'C01': ['ArrayOps'], 'C02': ['ArrayOps'], 'C12': ['ArrayOps'], 'C15': ['ArrayOps'], 'C13': ['IdsOps'], 'C03': ['OutlineOps'],
	'C04': ['SyntaxOps', 'GrammarTerminals'], 'C11': ['SyntaxOps', 'GrammarTerminals'], 'C05': ['ExpandOps'], 'C08': ['AddressOps'],
}


def cmd_check(args):
	tier = args.tier or os.environ.get('VERIF_TIER') or 'quick'
	if args.id in BASELINE_CHECKS and os.path.realpath(sys.executable) != os.path.realpath(BASELINE_INTERPRETER) \
		and os.path.exists(BASELINE_INTERPRETER) and not os.environ.get('VERIF_NO_REEXEC'):
		os.execv(BASELINE_INTERPRETER, [BASELINE_INTERPRETER, os.path.abspath(__file__), 'check', args.id, '--tier', tier])
	seed = int(os.environ.get('VERIF_SEED', '20240930'))
	common.setup_impl_path()
	common.prepare_work()
	module = importlib.import_module(f'harness.checks.{args.id.lower()}')
	check = common.Check(args.id, tier, seed)
	check.trusted += common.COMMON_TRUSTED
	check.extra['interpreter'] = sys.version.split()[0] + ' ' + sys.executable
	try:
		unrecognised, shapes = gen.regenerate()
		check.shape_report = shapes.report
		module.run(check, unrecognised)
		# an anchor whose skeleton is no longer the pinned one is a broken tie for every check that regenerates from it
		for shape_module in SHAPE_MODULES.get(args.id, []):
			for key in unrecognised.get(shape_module, []):
				if not any(key in item for item in check.broken):
					check.broken.append(f'shape:{key}')
	except Exception as ex:  # pylint: disable=broad-except
		import traceback
		traceback.print_exc()
		print(f'INTERNAL: {type(ex).__name__}: {ex}')
		return 2
	return check.finish()


def cmd_replay(args):
	data = json.loads(Path(args.path).read_text(encoding='utf8'))
	common.setup_impl_path()
	module = importlib.import_module(f'harness.checks.{data["property"].lower()}')
	if data.get('kind') == 'tie-broken':
		print(json.dumps(data, indent=1))
		return 1
	return module.replay(data)


def main():
	parser = argparse.ArgumentParser()
	sub = parser.add_subparsers(dest='cmd', required=True)
	sub.add_parser('setup')
	pin = sub.add_parser('pin')
	pin.add_argument('modules', nargs='*')
	check = sub.add_parser('check')
	check.add_argument('id')
	check.add_argument('--tier', choices=['quick', 'thorough'])
	replay = sub.add_parser('replay')
	replay.add_argument('path')
	args = parser.parse_args()
	return {'setup': cmd_setup, 'pin': cmd_pin, 'check': cmd_check, 'replay': cmd_replay}[args.cmd](args)


if __name__ == '__main__':
	sys.exit(main())
