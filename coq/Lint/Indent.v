(* linters/cpp/HeaderParser.py: the `fixes` list built by parse_file (parse_include / process_preprocessor /
   process_continuation), fix_tabs, fix_indents, report_indents.  Model file: definitions only.
   A file is the list of its lines without the terminating LF (LF line ends, no CR).  fix_indents is modelled as the line
   rewriting it performs; opening, replacing and removing files is the I/O wrapper exercised by the correspondence check. *)
From Symv Require Export Lint.IncludeOrder.
Open Scope Z_scope.

(* str.isspace() == re `\s` on str patterns (Py_UNICODE_ISSPACE) *)
Definition is_space (c : Z) : bool :=
  ((9 <=? c) && (c <=? 13)) || ((28 <=? c) && (c <=? 32)) || (c =? 133) || (c =? 160) || (c =? 5760)
  || ((8192 <=? c) && (c <=? 8202)) || (c =? 8232) || (c =? 8233) || (c =? 8239) || (c =? 8287) || (c =? 12288).

(* re `\w`: exact for ASCII; a code point above 127 is taken to be a word character unless it is white space
   (exact for letters and digits, not for symbols and punctuation; only parse_ok depends on it) *)
Definition is_word (c : Z) : bool :=
  ((48 <=? c) && (c <=? 57)) || ((65 <=? c) && (c <=? 90)) || (c =? 95) || ((97 <=? c) && (c <=? 122))
  || ((128 <=? c) && negb (is_space c)).

Fixpoint drop_while (f : Z -> bool) (s : str) : str :=
  match s with [] => [] | c :: r => if f c then drop_while f r else s end.
Fixpoint take_while (f : Z -> bool) (s : str) : str :=
  match s with [] => [] | c :: r => if f c then c :: take_while f r else [] end.

Definition lstrip (s : str) : str := drop_while is_space s.
Definition rstrip (s : str) : str := rev (drop_while is_space (rev s)).
Definition strip (s : str) : str := rstrip (lstrip s).          (* str.strip() *)

Definition starts_space (s : str) : bool := match s with c :: _ => is_space c | [] => false end.   (* re.match(r'\s+', s) *)
Definition ends_space (s : str) : bool := starts_space (rev s).

(* ---- the two patterns ---- *)
Definition kw_include : str := [105; 110; 99; 108; 117; 100; 101].
Definition is_blank (c : Z) : bool := (c =? 32) || (c =? 9).
Definition not_close (c : Z) : bool := negb ((c =? 34) || (c =? 62)).

(* PATTERN_INCLUDE.match(line): white space, #, white space, include, blanks or tabs, then group 1 = an opening double quote
   or <, the longest run of characters that are neither double quote nor >, one closing double quote or >; group 2 = the
   rest of the line.  Some (group 1, group 2) *)
Definition parse_include_line (line : str) : option (str * str) :=
  match lstrip line with
  | 35 :: r1 =>
    let r2 := lstrip r1 in
    if starts_with kw_include r2 then
      match drop_while is_blank (skipn 7 r2) with
      | o :: r4 =>
        if (o =? 34) || (o =? 60) then
          match drop_while not_close r4 with
          | cl :: r6 => Some (o :: take_while not_close r4 ++ [cl], take_while (fun c => negb (c =? 10)) r6)
          | [] => None
          end
        else None
      | [] => None
      end
    else None
  | _ => None
  end.

Definition is_include_line (line : str) : bool := match parse_include_line line with Some _ => true | None => false end.

(* PATTERN_PREPROCESSOR.match(line): white space, #, white space, then the longest run of word characters as group 1 *)
Definition is_preproc_line (line : str) : bool := match lstrip line with 35 :: _ => true | _ => false end.
Definition pp_word (line : str) : str := match lstrip line with 35 :: r => take_while is_word (lstrip r) | _ => [] end.

Definition known_words : list str :=
  [pp_word_0; pp_word_1; pp_word_2; pp_word_3; pp_word_4; pp_word_5; pp_word_6; pp_word_7; pp_word_8; pp_word_9; pp_word_10].

(* ---- the fixes list ---- *)
Inductive fixkind := PPLINE | CONTINUATION.
Record fixrec := { fkind : fixkind; flineno : Z; fline : str }.

(* line[-k] (k >= 1), 0 when there is no such character *)
Definition char_from_end (k : Z) (line : str) : Z := nth (Z.to_nat (k - 1)) (rev line) 0.

(* process_continuation: `return line and '\\' == line[-1]` *)
Definition continues (line : str) : bool :=
  match line with [] => false | _ => cmp cont_op cont_chr (char_from_end cont_back line) end.

(* process_preprocessor: `'\\' == line[-1]` (the line contains '#', so it is not empty) *)
Definition pp_continues (line : str) : bool := cmp pp_cont_op pp_cont_chr (char_from_end pp_cont_back line).
Definition pp_recorded (line : str) : bool := str_cmp pp_pragma_op line pp_pragma_once.     (* `line != '#pragma once'` *)

Fixpoint parse_from (lineno : Z) (multiline : bool) (lines : list str) : list fixrec :=
  match lines with
  | [] => []
  | line :: rest =>
    let next := lineno + pf_lineno_inc in
    if multiline then {| fkind := CONTINUATION; flineno := lineno; fline := line |} :: parse_from next (continues line) rest
    else if is_include_line line then {| fkind := PPLINE; flineno := lineno; fline := line |} :: parse_from next false rest
    else if is_preproc_line line then
      (if pp_recorded line then [{| fkind := PPLINE; flineno := lineno; fline := line |}] else [])
      ++ parse_from next (pp_continues line) rest
    else parse_from next false rest
  end.

Definition parse_fixes (lines : list str) : list fixrec := parse_from pf_first_lineno false lines.

(* Preproc.__init__ raises RuntimeError for a directive it does not know *)
Fixpoint parse_ok_from (multiline : bool) (lines : list str) : bool :=
  match lines with
  | [] => true
  | line :: rest =>
    if multiline then parse_ok_from (continues line) rest
    else if is_include_line line then parse_ok_from false rest
    else if is_preproc_line line then existsb (str_eqb (pp_word line)) known_words && parse_ok_from (pp_continues line) rest
    else parse_ok_from false rest
  end.

Definition parse_file (lines : list str) : result (list fixrec) :=
  if parse_ok_from false lines then Ok (parse_fixes lines) else Crash "RuntimeError".

(* ---- fix_tabs / fix_indents ---- *)
Definition leading_tabs (line : str) : Z := len (take_while (Z.eqb 9) line).       (* re.match(r'^\t+', line) *)

Fixpoint remove_tabs (n : nat) (line : str) : str :=                               (* re.sub(r'\t', '', line, n), n >= 1 *)
  match n, line with
  | O, _ => line
  | _, [] => []
  | S k, c :: r => if c =? 9 then remove_tabs k r else c :: remove_tabs n r
  end.

Definition fix_tabs (line : str) (count : Z) : str :=
  if cmp ft_zero_op count ft_zero then line
  else if cmp ft_neg_op count ft_neg_bound then remove_tabs (Z.to_nat (- count)) line
  else repeat ft_tab (Z.to_nat count) ++ line.

Definition retab (line : str) : str := fix_tabs line (ev2 fi_delta_op fi_target_tabs (leading_tabs line)).

Fixpoint fix_from (fixes : list fixrec) (lineno : Z) (first_continuation : bool) (lines : list str) : list str :=
  match lines with
  | [] => []
  | line :: rest =>
    let next := lineno + fi_lineno_inc in
    match fixes with
    | f :: fs =>
      if cmp fi_lineno_op lineno (flineno f) then
        match fkind f with
        | PPLINE => strip line :: fix_from fs next fi_fc_after_pp rest
        | CONTINUATION =>
          if first_continuation then retab line :: fix_from fs next fi_fc_after_cont rest
          else line :: fix_from fs next first_continuation rest
        end
      else line :: fix_from fixes next first_continuation rest
    | [] => line :: fix_from [] next first_continuation rest
    end
  end.

Definition fix_indents (fixes : list fixrec) (lines : list str) : list str := fix_from fixes fi_first_lineno fi_fc_init lines.

(* what `--fix-indents` does to a file's lines *)
Definition fix_file (lines : list str) : list str := fix_indents (parse_fixes lines) lines.

(* ---- report_indents ---- *)
Inductive indent_complaint := NotColumn0 | FirstContinuationIndent.

Fixpoint report_from (first_continuation : bool) (fixes : list fixrec) : list (Z * indent_complaint) :=
  match fixes with
  | [] => []
  | f :: fs =>
    match fkind f with
    | PPLINE =>
      if starts_space (fline f) then (flineno f, NotColumn0) :: report_from ri_fc_after_pp fs
      else report_from first_continuation fs
    | CONTINUATION =>
      if first_continuation then
        (if cmp ri_tabs_op ri_target_tabs (leading_tabs (fline f)) then [(flineno f, FirstContinuationIndent)] else [])
        ++ report_from ri_fc_after_cont fs
      else report_from first_continuation fs
    end
  end.

Definition report_indents (fixes : list fixrec) : list (Z * indent_complaint) := report_from ri_fc_init fixes.
Definition report_file (lines : list str) : list (Z * indent_complaint) := report_indents (parse_fixes lines).

(* premise of fix_idempotent: no recorded preprocessor line ends in white space (the linter's own white-space rule forbids
   trailing blanks; strip() would otherwise turn `#define A \<blank>` into a continued line) *)
Definition no_trailing_blank_pp (lines : list str) : bool :=
  forallb (fun f => match fkind f with PPLINE => negb (ends_space (fline f)) | CONTINUATION => true end) (parse_fixes lines).

(* ---- rendering for the correspondence check ---- *)
From Symv Require Import Lint.Propose.

Definition render_kind (k : fixkind) : string := match k with PPLINE => "P" | CONTINUATION => "C" end.
Fixpoint render_fixes (l : list fixrec) : string :=
  match l with [] => EmptyString | f :: r => (render_kind (fkind f) ++ Z_to_string (flineno f) ++ "," ++ render_fixes r)%string end.
Fixpoint render_report (l : list (Z * indent_complaint)) : string :=
  match l with
  | [] => EmptyString
  | (n, k) :: r => (match k with NotColumn0 => "A" | FirstContinuationIndent => "B" end ++ Z_to_string n ++ "," ++ render_report r)%string
  end.

(* lines whose text the fixer changes: "lineno:hex." *)
Fixpoint render_changes (n : Z) (before after : list str) : string :=
  match before, after with
  | b :: bs, a :: az => ((if str_eqb a b then EmptyString else Z_to_string n ++ ":" ++ hex_str a ++ ".") ++ render_changes (n + 1) bs az)%string
  | _, _ => EmptyString
  end.

Definition render_indent (lines : list str) : string :=
  match parse_file lines with
  | Ok fixes =>
    let fixed := fix_indents fixes lines in
    (render_fixes fixes ++ "|" ++ render_report (report_indents fixes) ++ "|" ++ render_changes 1 lines fixed ++ "|"
     ++ render_report (report_file fixed) ++ "|" ++ bool_to_string (all2 str_eqb (fix_file fixed) fixed))%string
  | Reject => "reject"
  | Crash k => ("crash:" ++ k)%string
  end.

Definition render_include (line : str) : string :=
  match parse_include_line line with
  | Some (inc, rest) => (hex_str inc ++ "|" ++ hex_str rest)%string
  | None => "none"
  end.

(* file text (LF terminated lines) -> lines *)
Definition lines_of (text : str) : list str := removelast (split_chr 10 text).
