(* Model of linters/cpp/DepsChecker.py: define expansion (expand_define / process_defines), the closure built by
   process_rules, and match.  Definitions only (proofs: Lint/DepsProofs.v).  The configuration (rule lines, defines, and
   the regex reading of every name) is regenerated from linters/cpp/deps.config into Gen/LintDeps.v.

   Sets are lists (iteration order of a Python set is hash-dependent; every result below is used as a set).
   A dict is an association list in insertion order. *)
From Symv Require Import Lint.Regex.
Open Scope list_scope.

Definition name := string.
Definition rule := (name * name)%type.
Definition defines := list (name * list name).

(* self.defines[key] = set(deps): the last definition of a key wins *)
Fixpoint lookup_def (d : defines) (n : name) : option (list name) :=
  match d with
  | [] => None
  | (k, v) :: r => match lookup_def r n with Some x => Some x | None => if String.eqb k n then Some v else None end
  end.

Fixpoint concat_opt {A} (l : list (option (list A))) : option (list A) :=
  match l with
  | [] => Some []
  | None :: _ => None
  | Some x :: r => match concat_opt r with Some y => Some (x ++ y) | None => None end
  end.

(* expand_define(expanded, src, dest, level): fuel = levels still allowed; None = RuntimeError('define nesting level too deep') *)
Fixpoint expand (fuel : nat) (d : defines) (src dest : name) : option (list rule) :=
  match fuel with
  | O => None
  | S f => match lookup_def d src with
           | Some deps => concat_opt (map (fun s => expand f d s dest) deps)
           | None => match lookup_def d dest with
                     | Some deps => concat_opt (map (fun t => expand f d src t) deps)
                     | None => Some [(src, dest)]
                     end
           end
  end.

Definition process_defines (fuel : nat) (d : defines) (lines : list rule) : option (list rule) :=
  concat_opt (map (fun r => expand fuel d (fst r) (snd r)) lines).

(* ---- process_rules ---- *)
Definition dict := list (name * list name).

Fixpoint dict_get (t : dict) (n : name) : option (list name) :=
  match t with [] => None | (k, v) :: r => if String.eqb k n then Some v else dict_get r n end.
Definition has_key (t : dict) (n : name) : bool := match dict_get t n with Some _ => true | None => false end.

(* set.add / set union on duplicate-free lists *)
Definition mem (v : name) (l : list name) : bool := existsb (String.eqb v) l.
Fixpoint set_union (old vs : list name) : list name :=
  match vs with [] => old | v :: r => set_union (if mem v old then old else old ++ [v]) r end.

(* transitive_rules[rule.src].add(rule.dest): keys in order of first occurrence *)
Fixpoint dict_add (t : dict) (k v : name) : dict :=
  match t with
  | [] => [(k, [v])]
  | (k', vs) :: r => if String.eqb k' k then (k', set_union vs [v]) :: r else (k', vs) :: dict_add r k v
  end.
Definition build_transitive (rules : list rule) : dict := fold_left (fun t r => dict_add t (fst r) (snd r)) rules [].

Fixpoint dict_extend (t : dict) (k : name) (vs : list name) : dict :=
  match t with
  | [] => [(k, set_union [] vs)]
  | (k', old) :: r => if String.eqb k' k then (k', set_union old vs) :: r else (k', old) :: dict_extend r k vs
  end.

(* add_rules(rules, name, deps): for every dep, the closure already stored for dep, then dep itself *)
Definition add_rules (rules : dict) (n : name) (deps : list name) : dict :=
  fold_left (fun acc dep => dict_extend acc n (match dict_get acc dep with Some sub => sub ++ [dep] | None => [dep] end)) deps rules.

(* first entry (dict order) all of whose deps are not keys of the dict itself: (entry, dict without it) *)
Fixpoint pick_self_contained (all t : dict) : option ((name * list name) * dict) :=
  match t with
  | [] => None
  | (k, deps) :: r =>
      if forallb (fun dep => negb (has_key all dep)) deps then Some ((k, deps), r)
      else match pick_self_contained all r with
           | Some (e, rest) => Some (e, (k, deps) :: rest)
           | None => None
           end
  end.

(* None = RuntimeError('loop in rules detected') *)
Fixpoint closure_loop (fuel : nat) (transitive rules : dict) : option dict :=
  match transitive with
  | [] => Some rules
  | _ => match fuel with
         | O => None
         | S f => match pick_self_contained transitive transitive with
                  | None => None
                  | Some ((n, deps), rest) => closure_loop f rest (add_rules rules n deps)
                  end
         end
  end.

Definition process_rules (expanded : list rule) : option dict :=
  let t := build_transitive expanded in closure_loop (List.length t) t [].

Definition flatten (t : dict) : list rule := flat_map (fun e => map (fun v => (fst e, v)) (snd e)) t.

(* create_rules: expansion, closure, one compiled (src, dest) pair per closure element *)
Definition create_rules (fuel : nat) (d : defines) (lines : list rule) : option (list rule) :=
  match process_defines fuel d lines with
  | None => None
  | Some expanded => match process_rules expanded with None => None | Some t => Some (flatten t) end
  end.

(* ---- match(path, src_include_dir, dest_include_dir, full_include) ---- *)
Definition slash : Z := 47%Z.
Definition catapult_word : list Z := [99; 97; 116; 97; 112; 117; 108; 116]%Z.
Fixpoint zlist_eqb (a b : list Z) : bool :=
  match a, b with [], [] => true | x :: a', y :: b' => (x =? y)%Z && zlist_eqb a' b' | _, _ => false end.

(* "hack: local includes": a single directory that is not `catapult` is taken relative to the including directory *)
Definition fixed_dest (src dest : list Z) : list Z :=
  if negb (existsb (fun c => (c =? slash)%Z) dest) && negb (zlist_eqb dest catapult_word) then src ++ [slash] ++ dest else dest.

Definition name_regex (table : list (name * regex)) (n : name) : regex :=
  match filter (fun e => String.eqb (fst e) n) table with e :: _ => snd e | [] => Empty end.

(* re.compile('^{}$'.format(name)).match(text): the whole text (directories contain no line feed) *)
Definition deps_allowed (table : list (name * regex)) (compiled : list rule) (src dest : list Z) : bool :=
  existsb (fun r => matches (name_regex table (fst r)) src && matches (name_regex table (snd r)) (fixed_dest src dest)) compiled.
