(* More proofs about Lint/Deps.v: process_rules computes EXACTLY the paths of length >= 1 of the graph of expanded rules
   (completeness added to the soundness of Lint/DepsProofs.v), answers None ("loop in rules detected") whenever the graph
   has a cycle, and answers Some on every acyclic graph (the fuel, one unit per key, never runs out). *)
From Coq Require Import Lia.
From Symv Require Import Lint.Regex Lint.Deps Lint.DepsProofs.
Open Scope list_scope.

Definition keys (t : dict) : list name := map fst t.

Lemma eqb_refl_s k : String.eqb k k = true.
Proof. apply String.eqb_refl. Qed.

Lemma eqb_neq_s a b : a <> b -> String.eqb a b = false.
Proof. intro H. apply String.eqb_neq. exact H. Qed.

Lemma has_key_iff t n : has_key t n = true <-> In n (keys t).
Proof.
  unfold has_key. induction t as [| [k v] r IH]; simpl.
  - split; [discriminate | intros []].
  - destruct (String.eqb k n) eqn:E.
    + apply String.eqb_eq in E. subst. split; auto.
    + apply String.eqb_neq in E. rewrite IH. split; [auto | intros [H | H]; [contradiction | exact H]].
Qed.

Lemma has_key_entry t n vs : In (n, vs) t -> has_key t n = true.
Proof. intro H. apply has_key_iff. unfold keys. apply in_map_iff. exists (n, vs). auto. Qed.

Lemma has_key_false_sub t t' n : (forall e, In e t' -> In e t) -> has_key t n = false -> has_key t' n = false.
Proof.
  intros Hs H. destruct (has_key t' n) eqn:E; [| reflexivity]. apply has_key_iff in E. unfold keys in E.
  apply in_map_iff in E. destruct E as ([k vs] & E & Hin). cbn [fst] in E. subst k. rewrite (has_key_entry t n vs (Hs _ Hin)) in H. discriminate.
Qed.

Lemma mem_in v l : mem v l = true -> In v l.
Proof. unfold mem. intro H. apply existsb_exists in H. destruct H as (x & Hx & E). apply String.eqb_eq in E. subst. exact Hx. Qed.

Lemma set_union_incl vs : forall old x, In x old \/ In x vs -> In x (set_union old vs).
Proof.
  induction vs as [| v vs IH]; intros old x H; simpl.
  - destruct H as [H | []]. exact H.
  - apply IH. destruct H as [H | [<- | H]].
    + left. destruct (mem v old); [exact H | apply in_or_app; left; exact H].
    + left. destruct (mem v old) eqn:E; [apply mem_in; exact E | apply in_or_app; right; left; reflexivity].
    + right. exact H.
Qed.

(* ---- build_transitive: one entry per source, holding exactly its direct successors ---- *)
Definition has (t : dict) (a b : name) : Prop := exists vs, In (a, vs) t /\ In b vs.

Lemma dict_add_has t k v : has (dict_add t k v) k v.
Proof.
  induction t as [| [k' vs] r IH]; cbn [dict_add].
  - exists [v]. simpl. auto.
  - destruct (String.eqb k' k) eqn:E.
    + apply String.eqb_eq in E. subst. exists (set_union vs [v]). split; [left; reflexivity |].
      apply set_union_incl. right. left. reflexivity.
    + destruct IH as (vs' & H1 & H2). exists vs'. split; [right; exact H1 | exact H2].
Qed.

Lemma dict_add_keeps t k v a b : has t a b -> has (dict_add t k v) a b.
Proof.
  induction t as [| [k' vs] r IH]; intros (vs0 & H1 & H2); [destruct H1 |]. cbn [dict_add].
  destruct (String.eqb k' k) eqn:E.
  - destruct H1 as [H1 | H1].
    + inversion H1; subst. exists (set_union vs0 [v]). split; [left; reflexivity | apply set_union_incl; left; exact H2].
    + exists vs0. split; [right; exact H1 | exact H2].
  - destruct H1 as [H1 | H1].
    + exists vs0. split; [left; exact H1 | exact H2].
    + destruct (IH (ex_intro _ vs0 (conj H1 H2))) as (vs' & G1 & G2). exists vs'. split; [right; exact G1 | exact G2].
Qed.

Lemma dict_add_keys t k v : keys (dict_add t k v) = if has_key t k then keys t else keys t ++ [k].
Proof.
  unfold has_key. induction t as [| [k' vs] r IH]; cbn [dict_add dict_get keys map]; [reflexivity |].
  destruct (String.eqb k' k) eqn:E; cbn [keys map fst]; [reflexivity |].
  fold (keys (dict_add r k v)). rewrite IH. fold (keys r). destruct (dict_get r k); reflexivity.
Qed.

Lemma nodup_snoc {A} (l : list A) k : NoDup l -> ~ In k l -> NoDup (l ++ [k]).
Proof.
  induction 1 as [| x l Hx Hl IH]; intro Hk; simpl.
  - constructor; [intros [] | constructor].
  - constructor.
    + intro H. apply in_app_or in H. destruct H as [H | [H | []]]; [contradiction | subst; apply Hk; left; reflexivity].
    + apply IH. intro H. apply Hk. right. exact H.
Qed.

Lemma dict_add_nodup t k v : NoDup (keys t) -> NoDup (keys (dict_add t k v)).
Proof.
  intro H. rewrite dict_add_keys. destruct (has_key t k) eqn:E; [exact H |].
  apply nodup_snoc; [exact H |]. intro Hin. apply has_key_iff in Hin. congruence.
Qed.

Lemma build_transitive_has ex a b : In (a, b) ex -> has (build_transitive ex) a b.
Proof.
  unfold build_transitive.
  assert (G : forall l t, has t a b \/ In (a, b) l -> has (fold_left (fun t r => dict_add t (fst r) (snd r)) l t) a b).
  { induction l as [| [x y] l IH]; intros t H; simpl.
    - destruct H as [H | []]. exact H.
    - apply IH. destruct H as [H | [H | H]].
      + left. apply dict_add_keeps. exact H.
      + inversion H; subst. left. apply dict_add_has.
      + right. exact H. }
  intro H. apply G. right. exact H.
Qed.

Lemma build_transitive_nodup ex : NoDup (keys (build_transitive ex)).
Proof.
  unfold build_transitive.
  assert (G : forall l t, NoDup (keys t) -> NoDup (keys (fold_left (fun t r => dict_add t (fst r) (snd r)) l t))).
  { induction l as [| r l IH]; intros t H; simpl; [exact H | apply IH; apply dict_add_nodup; exact H]. }
  apply G. constructor.
Qed.

Lemma nodup_keys_unique t k vs vs' : NoDup (keys t) -> In (k, vs) t -> In (k, vs') t -> vs = vs'.
Proof.
  induction t as [| [k0 v0] r IH]; intros Hn H1 H2; [destruct H1 |].
  cbn [keys map fst] in Hn. inversion Hn as [| x l Hx Hl]; subst.
  assert (X : forall w, In (k0, w) r -> False).
  { intros w Hw. apply Hx. fold (keys r). unfold keys. apply in_map_iff. exists (k0, w). auto. }
  destruct H1 as [H1 | H1], H2 as [H2 | H2].
  - congruence.
  - inversion H1; subst. exfalso. eapply X; eauto.
  - inversion H2; subst. exfalso. eapply X; eauto.
  - apply IH; assumption.
Qed.

(* ---- pick_self_contained: the entry is cut out of the list ---- *)
Lemma pick_spec all : forall t e rest, pick_self_contained all t = Some (e, rest) ->
  exists l1 l2, t = l1 ++ e :: l2 /\ rest = l1 ++ l2 /\ forallb (fun dep => negb (has_key all dep)) (snd e) = true.
Proof.
  induction t as [| [k deps] r IH]; simpl; intros e rest H; [discriminate |].
  destruct (forallb (fun dep => negb (has_key all dep)) deps) eqn:F.
  - inversion H; subst. exists [], rest. auto.
  - destruct (pick_self_contained all r) as [[e' rest'] |] eqn:E; [| discriminate]. inversion H; subst.
    destruct (IH e rest' eq_refl) as (l1 & l2 & -> & -> & G). exists ((k, deps) :: l1), l2. auto.
Qed.

Lemma pick_none all : forall t, pick_self_contained all t = None ->
  forall k deps, In (k, deps) t -> exists dep, In dep deps /\ has_key all dep = true.
Proof.
  induction t as [| [k0 deps0] r IH]; simpl; intros H k deps Hin; [destruct Hin |].
  destruct (forallb (fun dep => negb (has_key all dep)) deps0) eqn:F; [discriminate |].
  destruct (pick_self_contained all r) as [[e' rest'] |] eqn:E; [discriminate |].
  destruct Hin as [Hin | Hin]; [| exact (IH eq_refl k deps Hin)]. inversion Hin; subst.
  assert (X : existsb (fun dep => has_key all dep) deps = true).
  { clear - F. induction deps as [| d deps IHd]; simpl in *; [discriminate |].
    destruct (has_key all d); simpl in *; [reflexivity | apply IHd; exact F]. }
  apply existsb_exists in X. exact X.
Qed.

(* ---- dict_extend / add_rules through dict_get ---- *)
Lemma dict_extend_get_other t k vs k' : k' <> k -> dict_get (dict_extend t k vs) k' = dict_get t k'.
Proof.
  intro H. induction t as [| [k0 old] r IH]; cbn [dict_extend dict_get].
  - rewrite (eqb_neq_s k k') by congruence. reflexivity.
  - destruct (String.eqb k0 k) eqn:E; cbn [dict_get].
    + apply String.eqb_eq in E. subst k0. rewrite (eqb_neq_s k k') by congruence. reflexivity.
    + rewrite IH. reflexivity.
Qed.

Lemma dict_extend_get_self t k vs :
  exists vs', dict_get (dict_extend t k vs) k = Some vs' /\ incl vs vs' /\ (forall old, dict_get t k = Some old -> incl old vs').
Proof.
  induction t as [| [k0 old] r IH]; cbn [dict_extend dict_get].
  - rewrite eqb_refl_s. exists (set_union [] vs). split; [reflexivity |]. split; [| discriminate].
    intros x Hx. apply set_union_incl. right. exact Hx.
  - destruct (String.eqb k0 k) eqn:E; cbn [dict_get]; rewrite E.
    + exists (set_union old vs). split; [reflexivity |]. split.
      * intros x Hx. apply set_union_incl. right. exact Hx.
      * intros old' H. inversion H; subst. intros x Hx. apply set_union_incl. left. exact Hx.
    + exact IH.
Qed.

Lemma add_rules_cons rules n dep deps :
  add_rules rules n (dep :: deps)
  = add_rules (dict_extend rules n (match dict_get rules dep with Some sub => sub ++ [dep] | None => [dep] end)) n deps.
Proof. reflexivity. Qed.

Lemma add_rules_get_other rules n deps k : k <> n -> dict_get (add_rules rules n deps) k = dict_get rules k.
Proof.
  intro H. revert rules. induction deps as [| dep deps IH]; intro rules; [reflexivity |].
  rewrite add_rules_cons, IH. apply dict_extend_get_other. exact H.
Qed.

Lemma add_rules_get_mono n deps : forall rules old, dict_get rules n = Some old ->
  exists vs, dict_get (add_rules rules n deps) n = Some vs /\ incl old vs.
Proof.
  induction deps as [| dep deps IH]; intros rules old H.
  - exists old. split; [exact H | apply incl_refl].
  - rewrite add_rules_cons.
    destruct (dict_extend_get_self rules n (match dict_get rules dep with Some sub => sub ++ [dep] | None => [dep] end))
      as (vs1 & G1 & _ & G3).
    destruct (IH _ vs1 G1) as (vs & F1 & F2). exists vs. split; [exact F1 |].
    eapply incl_tran; [apply (G3 old H) | exact F2].
Qed.

Lemma add_rules_get_self n deps : forall rules, (forall dep, In dep deps -> dep <> n) ->
  forall dep, In dep deps ->
  exists vs, dict_get (add_rules rules n deps) n = Some vs /\ In dep vs /\ (forall sub, dict_get rules dep = Some sub -> incl sub vs).
Proof.
  induction deps as [| d deps IH]; intros rules Hn dep Hin; [destruct Hin |].
  rewrite add_rules_cons.
  set (X := match dict_get rules d with Some sub => sub ++ [d] | None => [d] end).
  destruct (dict_extend_get_self rules n X) as (vs1 & G1 & G2 & _).
  destruct Hin as [-> | Hin].
  - destruct (add_rules_get_mono n deps _ vs1 G1) as (vs & F1 & F2). exists vs. split; [exact F1 |]. split.
    + apply F2, G2. unfold X. destruct (dict_get rules dep); [apply in_or_app; right |]; left; reflexivity.
    + intros sub Hs. unfold X in G2. rewrite Hs in G2. intros x Hx. apply F2, G2. apply in_or_app. left. exact Hx.
  - destruct (IH (dict_extend rules n X) (fun y Hy => Hn y (or_intror Hy)) dep Hin) as (vs & F1 & F2 & F3).
    exists vs. split; [exact F1 |]. split; [exact F2 |]. intros sub Hs. apply F3.
    rewrite dict_extend_get_other; [exact Hs | apply Hn; right; exact Hin].
Qed.

(* ---- the loop invariant ---- *)
Lemma reach_src ex a b : reach ex a b -> exists c, In (a, c) ex.
Proof. intro H. destruct H; eauto. Qed.

Record inv (ex : list rule) (tr rules : dict) : Prop := mkinv {
  inv_nodup : NoDup (keys tr);
  inv_sound : forall k vs v, In (k, vs) tr -> In v vs -> In (k, v) ex;
  inv_complete : forall k vs b, In (k, vs) tr -> In (k, b) ex -> In b vs;
  inv_cover : forall a b, In (a, b) ex -> has_key tr a = true \/ exists vs, dict_get rules a = Some vs;
  inv_done : forall k vs v, dict_get rules k = Some vs -> reach ex k v -> In v vs /\ has_key tr v = false }.

Lemma inv_init ex : inv ex (build_transitive ex) [].
Proof.
  split.
  - apply build_transitive_nodup.
  - exact (build_transitive_sat ex).
  - intros k vs b Hk He. destruct (build_transitive_has ex k b He) as (vs' & H1 & H2).
    rewrite (nodup_keys_unique _ k vs vs' (build_transitive_nodup ex) Hk H1). exact H2.
  - intros a b He. left. destruct (build_transitive_has ex a b He) as (vs' & H1 & _). eapply has_key_entry; eauto.
  - intros k vs v H. discriminate H.
Qed.

Lemma inv_step ex tr rules n deps rest :
  inv ex tr rules -> pick_self_contained tr tr = Some ((n, deps), rest) ->
  inv ex rest (add_rules rules n deps) /\ ~ reach ex n n /\ (forall a, has_key tr a = true -> a = n \/ has_key rest a = true).
Proof.
  intros [Hnd Hso Hco Hcv Hdn] Hp.
  destruct (pick_spec tr tr _ _ Hp) as (l1 & l2 & Et & Er & Hsc). cbn [snd] in Hsc.
  assert (Hin : In (n, deps) tr) by (rewrite Et; apply in_or_app; right; left; reflexivity).
  assert (Hsub : forall e, In e rest -> In e tr).
  { intros e He. rewrite Er in He. rewrite Et. apply in_app_or in He. apply in_or_app. destruct He; [left | right; right]; assumption. }
  assert (Hkn : has_key tr n = true) by (eapply has_key_entry; eauto).
  assert (Hdep : forall dep, In dep deps -> has_key tr dep = false).
  { intros dep Hd. rewrite forallb_forall in Hsc. specialize (Hsc dep Hd). apply negb_true_iff in Hsc. exact Hsc. }
  assert (Hne : forall dep, In dep deps -> dep <> n) by (intros dep Hd E; subst; rewrite (Hdep n Hd) in Hkn; discriminate).
  (* everything reachable from n: not a remaining key, and either a direct successor or in the closure of one *)
  assert (F1 : forall v, reach ex n v ->
            has_key tr v = false /\ (In v deps \/ exists dep sub, In dep deps /\ dict_get rules dep = Some sub /\ In v sub)).
  { intros v Hr. inversion Hr as [a b He | a b c He Hr']; subst.
    - assert (Hv : In v deps) by (eapply Hco; eauto). split; [apply Hdep; exact Hv | left; exact Hv].
    - assert (Hb : In b deps) by (eapply Hco; eauto).
      destruct (reach_src ex b v Hr') as (c & Hc).
      destruct (Hcv b c Hc) as [K | (sub & Hs)]; [rewrite (Hdep b Hb) in K; discriminate |].
      destruct (Hdn b sub v Hs Hr') as [I1 I2]. split; [exact I2 |]. right. exists b, sub. auto. }
  assert (Hnn : ~ reach ex n n).
  { intro Hr. destruct (F1 n Hr) as [K _]. rewrite K in Hkn. discriminate. }
  assert (Hrest_n : has_key rest n = false).
  { destruct (has_key rest n) eqn:E; [| reflexivity]. exfalso. apply has_key_iff in E.
    rewrite Et in Hnd. unfold keys in Hnd. rewrite map_app in Hnd. cbn [map fst] in Hnd. apply NoDup_remove_2 in Hnd.
    apply Hnd. rewrite <- map_app, <- Er. exact E. }
  assert (Hkeys : forall a, has_key tr a = true -> a = n \/ has_key rest a = true).
  { intros a Ha. apply has_key_iff in Ha. unfold keys in Ha. apply in_map_iff in Ha. destruct Ha as ([k vs] & <- & Hk). cbn [fst].
    rewrite Et in Hk. apply in_app_or in Hk. destruct Hk as [Hk | [Hk | Hk]].
    - right. apply (has_key_entry rest k vs). rewrite Er. apply in_or_app. left. exact Hk.
    - inversion Hk; subst. left. reflexivity.
    - right. apply (has_key_entry rest k vs). rewrite Er. apply in_or_app. right. exact Hk. }
  split; [| split; [exact Hnn | exact Hkeys]].
  split.
  - rewrite Et in Hnd. unfold keys in *. rewrite map_app in Hnd. cbn [map] in Hnd. apply NoDup_remove_1 in Hnd.
    rewrite Er, map_app. exact Hnd.
  - intros k vs v Hk Hv. eapply Hso; eauto.
  - intros k vs b Hk He. eapply Hco; eauto.
  - intros a b He. destruct (String.eqb a n) eqn:E.
    + apply String.eqb_eq in E. subst a. right.
      assert (Hb : In b deps) by (eapply Hco; eauto).
      destruct (add_rules_get_self n deps rules Hne b Hb) as (vs & G & _). eauto.
    + apply String.eqb_neq in E. destruct (Hcv a b He) as [K | (vs & Hs)].
      * left. destruct (Hkeys a K) as [-> | K']; [congruence | exact K'].
      * right. exists vs. rewrite add_rules_get_other by exact E. exact Hs.
  - intros k vs v Hg Hr. destruct (String.eqb k n) eqn:E.
    + apply String.eqb_eq in E. subst k. destruct (F1 v Hr) as [K1 K2]. split; [| eapply has_key_false_sub; eauto].
      destruct K2 as [Hv | (dep & sub & Hd & Hs & Hv)].
      * destruct (add_rules_get_self n deps rules Hne v Hv) as (vs' & G & Iv & _). rewrite Hg in G. inversion G; subst. exact Iv.
      * destruct (add_rules_get_self n deps rules Hne dep Hd) as (vs' & G & _ & Is). rewrite Hg in G. inversion G; subst.
        apply (Is sub Hs). exact Hv.
    + apply String.eqb_neq in E. rewrite add_rules_get_other in Hg by exact E.
      destruct (Hdn k vs v Hg Hr) as [I1 I2]. split; [exact I1 | eapply has_key_false_sub; eauto].
Qed.

Lemma closure_loop_complete ex fuel : forall tr rules result,
  inv ex tr rules -> closure_loop fuel tr rules = Some result ->
  (forall a b, reach ex a b -> exists vs, dict_get result a = Some vs /\ In b vs)
  /\ (forall a, has_key tr a = true -> ~ reach ex a a).
Proof.
  induction fuel as [| f IH]; intros tr rules result Hi H.
  - destruct tr; simpl in H; [| discriminate]. inversion H; subst. split; [| intros a Ha; discriminate Ha].
    intros a b Hr. destruct (reach_src ex a b Hr) as (c & Hc).
    destruct (inv_cover _ _ _ Hi a c Hc) as [K | (vs & Hs)]; [discriminate K |].
    exists vs. split; [exact Hs |]. exact (proj1 (inv_done _ _ _ Hi a vs b Hs Hr)).
  - destruct tr as [| e0 t0].
    + simpl in H. inversion H; subst. split; [| intros a Ha; discriminate Ha].
      intros a b Hr. destruct (reach_src ex a b Hr) as (c & Hc).
      destruct (inv_cover _ _ _ Hi a c Hc) as [K | (vs & Hs)]; [discriminate K |].
      exists vs. split; [exact Hs |]. exact (proj1 (inv_done _ _ _ Hi a vs b Hs Hr)).
    + cbn [closure_loop] in H.
      destruct (pick_self_contained (e0 :: t0) (e0 :: t0)) as [[[n deps] rest] |] eqn:E; [| discriminate].
      destruct (inv_step ex _ rules n deps rest Hi E) as (Hi' & Hnn & Hkeys).
      destruct (IH rest _ result Hi' H) as [C1 C2]. split; [exact C1 |].
      intros a Ha. destruct (Hkeys a Ha) as [-> | K]; [exact Hnn | apply C2; exact K].
Qed.

(* completeness: every path of length >= 1 is a compiled pair *)
Theorem process_rules_complete ex t a b : process_rules ex = Some t -> reach ex a b -> In (a, b) (flatten t).
Proof.
  unfold process_rules. intros H Hr.
  destruct (closure_loop_complete ex _ _ [] t (inv_init ex) H) as [C _].
  destruct (C a b Hr) as (vs & G & Hv). apply flatten_in. exists vs. split; [apply dict_get_in; exact G | exact Hv].
Qed.

Theorem process_rules_exact ex t a b : process_rules ex = Some t -> (In (a, b) (flatten t) <-> reach ex a b).
Proof. intro H. split; [apply process_rules_sound; exact H | apply process_rules_complete; exact H]. Qed.

(* a cycle in the expanded rules is always answered by the loop error *)
Theorem process_rules_cycle ex a : reach ex a a -> process_rules ex = None.
Proof.
  intro Hr. destruct (process_rules ex) as [t |] eqn:H; [| reflexivity]. exfalso. unfold process_rules in H.
  destruct (closure_loop_complete ex _ _ [] t (inv_init ex) H) as [_ C].
  destruct (reach_src ex a a Hr) as (c & Hc). destruct (build_transitive_has ex a c Hc) as (vs & H1 & _).
  exact (C a (has_key_entry _ a vs H1) Hr).
Qed.

(* ---- the loop error is raised ONLY for a cycle: fuel (one unit per key) never runs out, and when no entry is
   self-contained every remaining key has a remaining successor, so a walk of |keys| steps repeats a key ---- *)
Fixpoint chain (ex : list rule) (a : name) (l : list name) : Prop :=
  match l with [] => True | b :: l' => In (a, b) ex /\ chain ex b l' end.

Lemma chain_reach ex : forall l a b, chain ex a (l ++ [b]) -> reach ex a b.
Proof.
  induction l as [| c l IH]; intros a b H; cbn [app chain] in H.
  - apply reach_edge. exact (proj1 H).
  - destruct H as [H1 H2]. eapply reach_step; [exact H1 | apply IH; exact H2].
Qed.

Lemma chain_prefix ex : forall l1 l2 a, chain ex a (l1 ++ l2) -> chain ex a l1.
Proof.
  induction l1 as [| c l1 IH]; intros l2 a H; [exact I |]. cbn [app chain] in *. destruct H as [H1 H2]. split; [exact H1 | eapply IH; exact H2].
Qed.

Lemma chain_suffix ex : forall l1 a x l2, chain ex a (l1 ++ x :: l2) -> chain ex x l2.
Proof.
  induction l1 as [| c l1 IH]; intros a x l2 H; cbn [app chain] in H; destruct H as [H1 H2]; [exact H2 | eapply IH; exact H2].
Qed.

Lemma dup_split (l : list name) : ~ NoDup l -> exists x l1 l2 l3, l = l1 ++ x :: l2 ++ x :: l3.
Proof.
  induction l as [| a l IH]; intro H; [exfalso; apply H; constructor |].
  destruct (in_dec string_dec a l) as [Hin | Hnin].
  - destruct (in_split a l Hin) as (l2 & l3 & ->). exists a, [], l2, l3. reflexivity.
  - assert (Hl : ~ NoDup l) by (intro Hl; apply H; constructor; assumption).
    destruct (IH Hl) as (x & l1 & l2 & l3 & ->). exists x, (a :: l1), l2, l3. reflexivity.
Qed.

Lemma long_chain ex (K : list name) :
  (forall k, In k K -> exists k', In k' K /\ In (k, k') ex) ->
  forall n k, In k K -> exists l, List.length l = n /\ chain ex k l /\ incl l K.
Proof.
  intros Hs. induction n as [| n IH]; intros k Hk.
  - exists []. repeat split. intros x [].
  - destruct (Hs k Hk) as (k' & Hk' & He). destruct (IH k' Hk') as (l & Hl & Hc & Hi).
    exists (k' :: l). split; [simpl; lia |]. split; [split; assumption |].
    intros x [<- | Hx]; [exact Hk' | apply Hi; exact Hx].
Qed.

Lemma cycle_of_successors ex (K : list name) k0 :
  In k0 K -> (forall k, In k K -> exists k', In k' K /\ In (k, k') ex) -> exists a, reach ex a a.
Proof.
  intros H0 Hs. destruct (long_chain ex K Hs (List.length K) k0 H0) as (l & Hl & Hc & Hi).
  assert (Hd : ~ NoDup (k0 :: l)).
  { intro Hn. assert (L : (List.length (k0 :: l) <= List.length K)%nat).
    { apply NoDup_incl_length; [exact Hn |]. intros x [<- | Hx]; [exact H0 | apply Hi; exact Hx]. }
    simpl in L. lia. }
  destruct (dup_split _ Hd) as (x & l1 & l2 & l3 & E). exists x.
  assert (C : chain ex x (l2 ++ x :: l3)).
  { destruct l1 as [| y l1]; cbn [app] in E; inversion E; subst.
    - exact Hc.
    - eapply chain_suffix. exact Hc. }
  apply (chain_reach ex l2). apply (chain_prefix ex (l2 ++ [x]) l3). rewrite <- app_assoc. exact C.
Qed.

Lemma closure_loop_none ex fuel : forall tr rules,
  inv ex tr rules -> (List.length tr <= fuel)%nat -> closure_loop fuel tr rules = None -> exists a, reach ex a a.
Proof.
  induction fuel as [| f IH]; intros tr rules Hi Hl H.
  - destruct tr; [discriminate H | simpl in Hl; lia].
  - destruct tr as [| [k0 d0] t0]; [discriminate H |]. cbn [closure_loop] in H.
    destruct (pick_self_contained ((k0, d0) :: t0) ((k0, d0) :: t0)) as [[[n deps] rest] |] eqn:E.
    + destruct (inv_step ex _ rules n deps rest Hi E) as (Hi' & _ & _).
      destruct (pick_spec _ _ _ _ E) as (l1 & l2 & Et & Er & _).
      apply (IH rest _ Hi'); [| exact H].
      assert (L : List.length ((k0, d0) :: t0) = List.length (l1 ++ (n, deps) :: l2)) by (rewrite Et; reflexivity).
      rewrite Er. rewrite app_length in *. simpl in *. lia.
    + apply (cycle_of_successors ex (keys ((k0, d0) :: t0)) k0); [left; reflexivity |].
      intros k Hk. unfold keys in Hk. apply in_map_iff in Hk. destruct Hk as ([k' vs] & Ek & Hin). cbn [fst] in Ek. subst k'.
      destruct (pick_none _ _ E k vs Hin) as (dep & Hd & Hkd).
      exists dep. split; [apply has_key_iff; exact Hkd | exact (inv_sound _ _ _ Hi k vs dep Hin Hd)].
Qed.

Theorem process_rules_none_iff ex : process_rules ex = None <-> exists a, reach ex a a.
Proof.
  split.
  - unfold process_rules. intro H. exact (closure_loop_none ex _ _ [] (inv_init ex) (le_n _) H).
  - intros (a & Hr). exact (process_rules_cycle ex a Hr).
Qed.

Corollary process_rules_acyclic ex : (forall a, ~ reach ex a a) -> exists t, process_rules ex = Some t.
Proof.
  intro H. destruct (process_rules ex) as [t |] eqn:E; [eauto |].
  apply process_rules_none_iff in E. destruct E as (a & Hr). destruct (H a Hr).
Qed.

(* an include is allowed exactly when a path of declared rules connects two names whose regex readings match the two directories *)
Theorem deps_allowed_iff table fuel d lines compiled ex src dest :
  create_rules fuel d lines = Some compiled -> process_defines fuel d lines = Some ex ->
  (deps_allowed table compiled src dest = true
   <-> exists a b, reach ex a b /\ matches (name_regex table a) src = true /\ matches (name_regex table b) (fixed_dest src dest) = true).
Proof.
  intros Hc He. split.
  - intro Ha. destruct (deps_allowed_justified table fuel d lines compiled src dest Hc Ha) as (ex' & a & b & E & R & M1 & M2).
    assert (ex' = ex) by congruence. subst. eauto.
  - intros (a & b & R & M1 & M2). unfold create_rules in Hc. rewrite He in Hc.
    destruct (process_rules ex) as [t |] eqn:Ep; [| discriminate]. inversion Hc; subst.
    unfold deps_allowed. apply existsb_exists. exists (a, b). split; [eapply process_rules_complete; eauto |].
    cbn [fst snd]. rewrite M1, M2. reflexivity.
Qed.
