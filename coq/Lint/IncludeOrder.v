(* linters/cpp/checkProjectStructure.py: SortableInclude.__lt__ / compare_paths and the check_* helpers.
   Model file: definitions only.  Include strings are lists of code points.  Constants, operators and returned booleans come
   from Gen/IncludeOrderOps.v, tables from Gen/IncludeOrderTables.v; both are rewritten from /repo on every run. *)
From Symv Require Export Base.PyOps Gen.IncludeOrderOps Gen.IncludeOrderTables.
Open Scope Z_scope.

Definition str := list Z.

(* ---- Python sequence comparison: first differing element decides, otherwise the shorter sequence is smaller ---- *)
Section ListCompare.
  Context {A : Type} (c : A -> A -> comparison).
  Fixpoint list_compare (a b : list A) : comparison :=
    match a, b with
    | [], [] => Datatypes.Eq
    | [], _ :: _ => Datatypes.Lt
    | _ :: _, [] => Datatypes.Gt
    | x :: a', y :: b' => match c x y with Datatypes.Eq => list_compare a' b' | r => r end
    end.
End ListCompare.

Definition str_compare : str -> str -> comparison := list_compare Z.compare.        (* str vs str, by code point *)
Definition path_compare : list str -> list str -> comparison := list_compare str_compare.   (* list of str vs list of str *)

Definition cmp_of (o : pyop) (c : comparison) : bool :=
  match o, c with
  | Lt, Datatypes.Lt | Le, Datatypes.Lt | Le, Datatypes.Eq | Gt, Datatypes.Gt | Ge, Datatypes.Gt | Ge, Datatypes.Eq
  | Eq, Datatypes.Eq | Ne, Datatypes.Lt | Ne, Datatypes.Gt => true
  | _, _ => false
  end.

Definition str_cmp (o : pyop) (a b : str) : bool := cmp_of o (str_compare a b).
Definition path_cmp (o : pyop) (a b : list str) : bool := cmp_of o (path_compare a b).
Definition str_eqb (a b : str) : bool := str_cmp Eq a b.

Fixpoint starts_with (p s : str) : bool :=
  match p, s with
  | [], _ => true
  | _ :: _, [] => false
  | x :: p', y :: s' => (x =? y) && starts_with p' s'
  end.
Definition ends_with (suffix s : str) : bool := starts_with (rev suffix) (rev s).

(* str.split(sep) for a one-character separator: always at least one part *)
Fixpoint split_chr (sep : Z) (s : str) : list str :=
  match s with
  | [] => [[]]
  | c :: r => if c =? sep then [] :: split_chr sep r
              else match split_chr sep r with p :: ps => (c :: p) :: ps | [] => [[c]] end
  end.

(* sep.join(parts) *)
Fixpoint join_chr (sep : Z) (parts : list str) : str :=
  match parts with
  | [] => []
  | [p] => p
  | p :: ps => p ++ sep :: join_chr sep ps
  end.

Fixpoint lookup (k : str) (t : list (str * Z)) : option Z :=
  match t with
  | [] => None
  | (k', v) :: r => if str_eqb k k' then Some v else lookup k r
  end.

Definition len {A} (l : list A) : Z := Z.of_nat (length l).

(* ---- the helpers ---- *)

Definition is_external_include (inc : str) : bool := starts_with ext_prefix_1 inc || starts_with ext_prefix_2 inc.

(* `if p_a and not p_b: return r1` / `if not p_a and p_b: return r2` / `return None` *)
Definition check_tri (r1 r2 pa pb : bool) : option bool :=
  if pa && negb pb then Some r1 else if negb pa && pb then Some r2 else None.

Definition check_external_include (a b : str) : option bool :=
  check_tri ext_ret_first ext_ret_second (is_external_include a) (is_external_include b).

Definition is_cpp_include (inc : str) : bool := existsb (fun p => starts_with p inc) cpp_prefixes.

Definition check_cpp_include (a b : str) : option bool :=
  check_tri cpp_ret_first cpp_ret_second (is_cpp_include a) (is_cpp_include b).

(* the constants of one operand's half of check_local_include (the source spells both halves out) *)
Record local_consts := {
  lc_default : Z; lc_symbol : str; lc_len_op : pyop; lc_len_bound : Z; lc_add2_op : pyop;
  lc_tests : str; lc_tests_op : pyop; lc_tests_bonus : Z }.
Definition local_a : local_consts := {|
  lc_default := local_default_a; lc_symbol := local_symbol_a; lc_len_op := local_len_op_a; lc_len_bound := local_len_bound_a;
  lc_add2_op := local_add2_op_a; lc_tests := local_tests_a; lc_tests_op := local_tests_op_a; lc_tests_bonus := local_tests_bonus_a |}.
Definition local_b : local_consts := {|
  lc_default := local_default_b; lc_symbol := local_symbol_b; lc_len_op := local_len_op_b; lc_len_bound := local_len_bound_b;
  lc_add2_op := local_add2_op_b; lc_tests := local_tests_b; lc_tests_op := local_tests_op_b; lc_tests_bonus := local_tests_bonus_b |}.

Definition local_val (k : local_consts) (path : list str) : Z :=
  let part := hd [] path in
  let v := match lookup part priorities_1lvl with Some v => v | None => lc_default k end in
  let v := if str_eqb part (lc_symbol k) && cmp (lc_len_op k) (len path) (lc_len_bound k)
           then match lookup (nth 1 path []) priorities_2lvl with Some d => ev2 (lc_add2_op k) v d | None => v end
           else v in
  if existsb (fun p => str_eqb (lc_tests k) p) path then ev2 (lc_tests_op k) v (lc_tests_bonus k) else v.

Definition check_local_include (pa pb : list str) : option bool :=
  let va := local_val local_a pa in
  let vb := local_val local_b pb in
  if cmp local_same_op va vb then None else Some (cmp local_lt_op va vb).

Definition depth_rule (o1 : pyop) (c1 : Z) (o2 : pyop) (c2 : Z) (r : bool) (la lb : Z) (otherwise : option bool) : option bool :=
  if cmp o1 la c1 && cmp o2 lb c2 then Some r else otherwise.

Definition check_include_depth (la lb : Z) : option bool :=
  depth_rule depth_op_1a depth_c_1a depth_op_1b depth_c_1b depth_ret_1 la lb
  (depth_rule depth_op_2a depth_c_2a depth_op_2b depth_c_2b depth_ret_2 la lb
  (depth_rule depth_op_3a depth_c_3a depth_op_3b depth_c_3b depth_ret_3 la lb
  (depth_rule depth_op_4a depth_c_4a depth_op_4b depth_c_4b depth_ret_4 la lb None))).

(* ---- SortableInclude ---- *)

Definition compare_paths (a b : str) : bool :=
  match check_external_include a b with
  | Some r => r
  | None =>
    match check_cpp_include a b with
    | Some r => r
    | None =>
      let pa := split_chr path_sep_a a in
      let pb := split_chr path_sep_b b in
      let by_path := path_cmp path_lt_op pa pb in
      if hd 0 a =? chr_local then
        match check_local_include pa pb with
        | Some r => r
        | None => match check_include_depth (len pa) (len pb) with Some r => r | None => by_path end
        end
      else by_path
    end
  end.

Definition c_header (suffix : str) (inc : str) : bool := ends_with suffix inc && negb (is_cpp_include inc).

(* __lt__ on non-empty include strings (include[0] exists) *)
Definition lt_b (a b : str) : bool :=
  let ca := hd 0 a in
  let cb := hd 0 b in
  if cmp lt_first_op_1 ca cb then lt_ret_1
  else if cmp lt_first_op_2 ca cb then lt_ret_2
  else if ca =? chr_system then
    let sc := c_header suffix_h_a a in
    let oc := c_header suffix_h_b b in
    if sc && negb oc then lt_ret_3
    else if (sc && oc) || negb (sc || oc) then compare_paths a b
    else lt_ret_4
  else compare_paths a b.

(* with Python's failure on an empty include string (`self.include[0]`) made explicit *)
Definition lt (a b : str) : result bool :=
  match a, b with
  | [], _ | _, [] => Crash "IndexError"
  | _, _ => Ok (lt_b a b)
  end.

Definition inc_eq (a b : str) : bool := str_cmp inc_eq_op a b.      (* SortableInclude.__eq__ *)

(* ---- specification side (fixed text; only table VALUES are taken from the regenerated files) ---- *)

Definition b2z (b : bool) : Z := if b then 1 else 0.

Definition priority (path : list str) : Z :=
  let p0 := hd [] path in
  let base := match lookup p0 priorities_1lvl with Some v => v | None => local_default_a end in
  let second := if str_eqb p0 local_symbol_a && (1 <? len path)
                then match lookup (nth 1 path []) priorities_2lvl with Some d => d | None => 0 end else 0 in
  let tests := if existsb (fun p => str_eqb local_tests_a p) path then local_tests_bonus_a else 0 in
  base + second + tests.

(* one path element on top, three or more in the middle, exactly two at the bottom *)
Definition depth_class (n : Z) : Z := if n =? 1 then 0 else if n =? 2 then 2 else 1.

(* the sort key: (first character, C-header flag, not external, not C++ library, priority value, depth class, path segments),
   written as a list whose first six entries are one-element lists so that one lexicographic comparison orders the tuple *)
Definition key (a : str) : list str :=
  let f := hd 0 a in
  let path := split_chr 47 a in
  [ [f];
    [if f =? 60 then b2z (c_header suffix_h_a a) else 0];
    [b2z (negb (is_external_include a))];
    [b2z (negb (is_cpp_include a))];
    [if f =? 34 then priority path else 0];
    [if f =? 34 then depth_class (len path) else 0] ] ++ path.

Definition lex_lt (k1 k2 : list str) : bool :=
  match path_compare k1 k2 with Datatypes.Lt => true | _ => false end.

(* ---- rendering for the correspondence check ---- *)
Definition render_lt (a b : str) : string :=
  match lt a b with Ok true => "T" | Ok false => "F" | Reject => "reject" | Crash k => ("crash:" ++ k)%string end.
