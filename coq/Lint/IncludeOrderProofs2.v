(* Further consequences of Lint/IncludeOrderProofs.v: trichotomy of the include comparator, injectivity of its key, and the
   derived "not less" relation being the reflexive total order. *)
From Coq Require Import Lia ZifyBool.
From Symv Require Import Lint.IncludeOrder Lint.IncludeOrderProofs.
Open Scope Z_scope.

(* exactly one of a < b, a = b, b < a *)
Lemma lt_trichotomy : forall a b,
  (lt_b a b = true /\ lt_b b a = false /\ a <> b)
  \/ (a = b /\ lt_b a b = false /\ lt_b b a = false)
  \/ (lt_b b a = true /\ lt_b a b = false /\ a <> b).
Proof.
  intros a b. destruct (list_eq_dec Z.eq_dec a b) as [->|Hne].
  - right; left. repeat split; apply lt_irreflexive.
  - destruct (lt_total a b Hne) as [H|H].
    + left. repeat split; [exact H | exact (lt_asymmetric _ _ H) | exact Hne].
    + right; right. repeat split; [exact H | exact (lt_asymmetric _ _ H) | exact Hne].
Qed.

(* "b is not before a" is a total preorder whose symmetric part is equality: antisymmetric, transitive, total *)
Definition le_b (a b : str) : bool := negb (lt_b b a).

Lemma le_antisym : forall a b, le_b a b = true -> le_b b a = true -> a = b.
Proof.
  unfold le_b. intros a b H1 H2. apply Bool.negb_true_iff in H1, H2. now apply incomparable_eq.
Qed.

Lemma le_total : forall a b, le_b a b = true \/ le_b b a = true.
Proof.
  unfold le_b. intros a b. destruct (lt_trichotomy a b) as [(H1 & H2 & _)|[(_ & H1 & H2)|(H1 & H2 & _)]]; rewrite ?H1, ?H2; cbn; auto.
Qed.

Lemma le_trans : forall a b c, le_b a b = true -> le_b b c = true -> le_b a c = true.
Proof.
  unfold le_b. intros a b c H1 H2. apply Bool.negb_true_iff in H1, H2. apply Bool.negb_true_iff.
  destruct (lt_b c a) eqn:Hca; [|reflexivity].
  (* c < a; b is not below a and c is not below b *)
  destruct (lt_trichotomy a b) as [(Hab & _ & _)|[(-> & _ & _)|(Hba & _ & _)]]; [|congruence|congruence].
  pose proof (lt_transitive _ _ _ Hca Hab). congruence.
Qed.

(* the key determines the include string: two includes with the same key are the same include *)
Lemma key_injective : forall a b, key a = key b -> a = b.
Proof. exact key_inj. Qed.
