(* Proofs about Lint/Propose.v: the proposal is the unique sorted arrangement (own header first), so it does not depend on the
   order in which the includes were written, is a fixed point, and raises no includesOrder complaint. *)
From Coq Require Import Lia ZifyBool Permutation Sorted.
From Symv Require Import Lint.IncludeOrder Lint.IncludeOrderProofs Lint.Propose.
Open Scope Z_scope.

(* per-run obligations on the regenerated operators *)
Lemma own_eq_op_now : own_eq_op = Eq. Proof. reflexivity. Qed.
Lemma own_ne_op_now : own_ne_op = Ne. Proof. reflexivity. Qed.
Lemma first_ne_op_now : first_ne_op = Ne. Proof. reflexivity. Qed.
Lemma order_ne_op_now : order_ne_op = Ne. Proof. reflexivity. Qed.
Lemma rel_sep_now : rel_sep = 47. Proof. reflexivity. Qed.

Definition le (x y : str) : Prop := lt_b y x = false.

Lemma le_trans : forall x y z, le x y -> le y z -> le x z.
Proof.
  unfold le. intros x y z Hxy Hyz. destruct (lt_b z x) eqn:E; [|reflexivity]. exfalso.
  destruct (list_eq_dec Z.eq_dec y x) as [->|Hne]; [congruence|].
  destruct (lt_total y x Hne) as [H|H]; [congruence|].
  pose proof (lt_transitive _ _ _ E H). congruence.
Qed.

Lemma le_antisym : forall x y, le x y -> le y x -> x = y.
Proof. unfold le. intros. apply incomparable_eq; assumption. Qed.

Lemma le_refl : forall x, le x x.
Proof. intros; apply lt_irreflexive. Qed.

(* ---- insertion sort ---- *)

Lemma perm_Forall : forall (P : str -> Prop) l l', Permutation l l' -> Forall P l -> Forall P l'.
Proof.
  intros P l l' Hp Hf. rewrite Forall_forall in *. intros x Hx. apply Hf. eapply Permutation_in; [symmetry; exact Hp|exact Hx].
Qed.

Lemma insert_perm : forall x l, Permutation (insert_sorted x l) (x :: l).
Proof.
  induction l as [|y r IH]; cbn [insert_sorted]; [reflexivity|].
  destruct (lt_b y x); [|reflexivity]. rewrite IH. apply perm_swap.
Qed.

Lemma sort_perm : forall l, Permutation (sort_includes l) l.
Proof.
  induction l as [|x l IH]; [reflexivity|]. unfold sort_includes in *. cbn [fold_right]. rewrite insert_perm. apply perm_skip, IH.
Qed.

Lemma insert_sorted_sorted : forall x l, StronglySorted le l -> StronglySorted le (insert_sorted x l).
Proof.
  induction l as [|y r IH]; intros Hs; cbn [insert_sorted].
  - constructor; constructor.
  - inversion Hs as [|? ? Hr Hall]; subst. destruct (lt_b y x) eqn:E.
    + constructor; [apply IH; assumption|].
      apply (perm_Forall _ (x :: r)); [symmetry; apply insert_perm|].
      constructor; [|assumption]. unfold le. apply lt_asymmetric; assumption.
    + constructor; [assumption|]. constructor; [exact E|].
      eapply Forall_impl; [|exact Hall]. intros z Hz. eapply le_trans; [exact E|exact Hz].
Qed.

Lemma sort_sorted : forall l, StronglySorted le (sort_includes l).
Proof.
  induction l as [|x l IH]; [constructor|]. unfold sort_includes in *. cbn [fold_right]. apply insert_sorted_sorted, IH.
Qed.

Lemma sorted_perm_unique : forall l1 l2, StronglySorted le l1 -> StronglySorted le l2 -> Permutation l1 l2 -> l1 = l2.
Proof.
  induction l1 as [|x l1 IH]; intros l2 H1 H2 Hp.
  - apply Permutation_nil in Hp. subst; reflexivity.
  - destruct l2 as [|y l2]; [symmetry in Hp; apply Permutation_nil in Hp; discriminate|].
    inversion H1 as [|? ? Hs1 Ha1]; inversion H2 as [|? ? Hs2 Ha2]; subst.
    assert (x = y) as ->.
    { destruct (list_eq_dec Z.eq_dec x y) as [|Hne]; [assumption|].
      assert (Hx : In x (y :: l2)) by (eapply Permutation_in; [exact Hp|left; reflexivity]).
      assert (Hy : In y (x :: l1)) by (eapply Permutation_in; [symmetry; exact Hp|left; reflexivity]).
      destruct Hx as [Hx|Hx]; [congruence|]. destruct Hy as [Hy|Hy]; [congruence|].
      rewrite Forall_forall in Ha1, Ha2. apply le_antisym; [apply Ha1; assumption|apply Ha2; assumption]. }
    f_equal. apply IH; try assumption. eapply Permutation_cons_inv; exact Hp.
Qed.

Theorem sort_permutation_invariant : forall l l', Permutation l l' -> sort_includes l = sort_includes l'.
Proof.
  intros l l' Hp. apply sorted_perm_unique; try apply sort_sorted.
  rewrite sort_perm, Hp. symmetry; apply sort_perm.
Qed.

Lemma sort_of_sorted : forall l, StronglySorted le l -> sort_includes l = l.
Proof. intros l Hs. apply sorted_perm_unique; [apply sort_sorted|assumption|apply sort_perm]. Qed.

(* ---- fix_relative ---- *)

Lemma pat_match_in : forall p s c, pat_match p s = true -> In (PChr c) p -> In c s.
Proof.
  induction p as [|e p IH]; intros s c Hm Hin; [contradiction|].
  destruct s as [|d s]; cbn [pat_match] in Hm; [discriminate|].
  apply andb_true_iff in Hm as [He Hm]. destruct Hin as [->|Hin].
  - cbn [pat_elem_match] in He. left. lia.
  - right. eapply IH; eauto.
Qed.

Lemma sub_all_no_sep : forall p s c, In (PChr c) p -> ~ In c s -> sub_all p s = s.
Proof.
  intros p s c Hp. unfold sub_all. destruct p as [|e p']; [reflexivity|]. set (p := e :: p') in *.
  induction s as [|d s IH]; intros Hs; [reflexivity|]. cbn [sub_all_aux].
  destruct (pat_match p (d :: s)) eqn:E.
  - exfalso. apply Hs. eapply pat_match_in; eauto.
  - f_equal. apply IH. intros H. apply Hs. right. assumption.
Qed.

Definition has_sep (own : list pat) : Prop := In (PChr rel_sep) own.

Lemma existsb_eqb_in : forall c s, existsb (Z.eqb c) s = true <-> In c s.
Proof.
  intros. rewrite existsb_exists. split.
  - intros [x [Hin He]]. apply Z.eqb_eq in He. subst. assumption.
  - intros H. exists c. split; [assumption|apply Z.eqb_refl].
Qed.

Lemma fix_relative_idem : forall own inc, has_sep own -> fix_relative own (fix_relative own inc) = fix_relative own inc.
Proof.
  intros own inc Hs. unfold fix_relative at 2. destruct (existsb (Z.eqb rel_sep) (sub_all own inc)) eqn:E.
  - unfold fix_relative. rewrite E. reflexivity.
  - assert (Hn : ~ In rel_sep (sub_all own inc)). { intros H. apply existsb_eqb_in in H. congruence. }
    unfold fix_relative. rewrite (sub_all_no_sep own _ rel_sep Hs Hn), E. reflexivity.
Qed.

(* own paths always end in '/', so the premise has_sep holds for every path the linter builds *)
Lemma own_pattern_app : forall a b pa pb, own_pattern a = Some pa -> own_pattern b = Some pb -> own_pattern (a ++ b) = Some (pa ++ pb).
Proof.
  induction a as [|c a IH]; intros b pa pb Ha Hb; cbn [own_pattern app] in *.
  - injection Ha as <-. assumption.
  - destruct (own_pattern a) as [p|] eqn:E; [|discriminate]. rewrite (IH b p pb eq_refl Hb).
    destruct (c =? 46); [injection Ha as <-; reflexivity|].
    destruct (existsb (Z.eqb c) regex_special); [discriminate|]. injection Ha as <-. reflexivity.
Qed.

Lemma own_pattern_app_inv : forall a b p, own_pattern (a ++ b) = Some p -> exists pa pb, own_pattern a = Some pa /\ own_pattern b = Some pb /\ p = pa ++ pb.
Proof.
  induction a as [|c a IH]; intros b p H; cbn [own_pattern app] in *.
  - exists [], p. auto.
  - destruct (own_pattern (a ++ b)) as [q|] eqn:E; [|discriminate].
    destruct (IH b q E) as [pa [pb [Ha [Hb ->]]]]. rewrite Ha.
    destruct (c =? 46); [injection H as <-; eexists _, _; repeat split; eauto|].
    destruct (existsb (Z.eqb c) regex_special); [discriminate|]. injection H as <-. eexists _, _; repeat split; eauto.
Qed.

Theorem own_path_has_sep : forall full_path own, own_pattern (own_path_of full_path) = Some own -> has_sep own.
Proof.
  intros full_path own H. unfold own_path_of in H. apply own_pattern_app_inv in H as [pa [pb [_ [Hb ->]]]].
  vm_compute in Hb. injection Hb as <-. unfold has_sep. rewrite rel_sep_now. apply in_or_app. right. left. reflexivity.
Qed.

(* ---- own header first ---- *)

Lemma remove_first_perm : forall h l x r, remove_first_match h l = Some (x, r) -> Permutation (x :: r) l.
Proof.
  induction l as [|y l IH]; intros x r H; cbn [remove_first_match] in H; [discriminate|].
  destruct (str_cmp own_eq_op h y).
  - injection H as <- <-. reflexivity.
  - destruct (remove_first_match h l) as [[z r']|] eqn:E; [|discriminate]. injection H as <- <-.
    rewrite perm_swap. apply perm_skip. apply IH. reflexivity.
Qed.

Lemma move_own_perm : forall h s, Permutation (move_own h s) s.
Proof.
  intros h s. unfold move_own. destruct s as [|s0 s']; [reflexivity|].
  destruct (str_cmp own_ne_op h s0); [|reflexivity].
  destruct (remove_first_match h (s0 :: s')) as [[x r]|] eqn:E; [|reflexivity]. eapply remove_first_perm; eauto.
Qed.

Lemma remove_first_found : forall h l x r, remove_first_match h l = Some (x, r) -> x = h.
Proof.
  induction l as [|y l IH]; intros x r H; cbn [remove_first_match] in H; [discriminate|].
  rewrite own_eq_op_now in H. fold (str_eqb h y) in H. destruct (str_eqb h y) eqn:E.
  - injection H as <- <-. symmetry. apply str_eqb_eq. assumption.
  - destruct (remove_first_match h l) as [[z r']|] eqn:E2; [|discriminate]. injection H as <- <-. eapply IH; eauto.
Qed.

Lemma remove_first_some : forall h l, In h l -> exists r, remove_first_match h l = Some (h, r).
Proof.
  induction l as [|y l IH]; intros Hin; [contradiction|]. cbn [remove_first_match]. rewrite own_eq_op_now. fold (str_eqb h y).
  destruct (str_eqb h y) eqn:E.
  - apply str_eqb_eq in E. subst. eexists; reflexivity.
  - destruct Hin as [->|Hin]; [rewrite str_eqb_refl in E; discriminate|]. destruct (IH Hin) as [r ->]. eexists; reflexivity.
Qed.

Lemma str_ne_spec : forall a b, str_cmp Ne a b = negb (str_eqb a b).
Proof. intros. unfold str_eqb, str_cmp. destruct (str_compare a b); reflexivity. Qed.

(* after the move the list starts with the own header whenever the header occurs at all *)
Lemma move_own_head : forall h s, In h s -> hd [] (move_own h s) = h.
Proof.
  intros h s Hin. unfold move_own. destruct s as [|s0 s']; [contradiction|].
  rewrite own_ne_op_now, str_ne_spec. destruct (str_eqb h s0) eqn:E; cbn [negb].
  - apply str_eqb_eq in E. subst. reflexivity.
  - destruct (remove_first_some h (s0 :: s') Hin) as [r ->]. reflexivity.
Qed.

(* ---- the property theorems ---- *)

Theorem proposal_independent_of_input_order : forall own cpp l l', Permutation l l' -> propose own cpp l = propose own cpp l'.
Proof.
  intros own cpp l l' Hp. unfold propose.
  rewrite (sort_permutation_invariant (map (fix_relative own) l) (map (fix_relative own) l')) by (apply Permutation_map; assumption).
  reflexivity.
Qed.

Lemma map_fix_relative_fixed : forall own l, has_sep own -> Forall (fun x => fix_relative own x = x) (map (fix_relative own) l).
Proof.
  intros own l Hs. induction l as [|x l IH]; cbn [map]; constructor; [apply fix_relative_idem; assumption|assumption].
Qed.

Lemma map_id_on : forall (f : str -> str) l, Forall (fun x => f x = x) l -> map f l = l.
Proof. induction 1; cbn [map]; congruence. Qed.

Lemma propose_fixed_elems : forall own cpp l, has_sep own -> Forall (fun x => fix_relative own x = x) (propose own cpp l).
Proof.
  intros own cpp l Hs. pose proof (map_fix_relative_fixed own l Hs) as Hf.
  assert (Hsorted : Forall (fun x => fix_relative own x = x) (sort_includes (map (fix_relative own) l))).
  { eapply perm_Forall; [symmetry; apply sort_perm|exact Hf]. }
  unfold propose. destruct cpp as [oh|]; [|exact Hsorted].
  eapply perm_Forall; [symmetry; apply move_own_perm|exact Hsorted].
Qed.

Lemma sort_propose : forall own cpp l, has_sep own ->
  sort_includes (map (fix_relative own) (propose own cpp l)) = sort_includes (map (fix_relative own) l).
Proof.
  intros own cpp l Hs. rewrite (map_id_on _ _ (propose_fixed_elems own cpp l Hs)).
  unfold propose. destruct cpp as [oh|].
  - rewrite (sort_permutation_invariant _ _ (move_own_perm _ _)). apply sort_of_sorted, sort_sorted.
  - apply sort_of_sorted, sort_sorted.
Qed.

Theorem propose_idempotent : forall own cpp l, has_sep own -> propose own cpp (propose own cpp l) = propose own cpp l.
Proof.
  intros own cpp l Hs. unfold propose at 1. rewrite (sort_propose own cpp l Hs). reflexivity.
Qed.

Lemma all2_refl : forall l, all2 inc_eq l l = true.
Proof.
  induction l as [|x l IH]; [reflexivity|]. cbn [all2]. rewrite IH, andb_true_r. apply inc_eq_spec. reflexivity.
Qed.

Theorem propose_no_complaint : forall own cpp l, has_sep own -> complaint own cpp (propose own cpp l) = false.
Proof.
  intros own cpp l Hs. unfold complaint. rewrite (propose_idempotent own cpp l Hs), order_ne_op_now. cbn [lists_cmp].
  rewrite all2_refl. reflexivity.
Qed.

(* complaint = false exactly when the written order IS the proposal (so "no complaint" is not vacuous) *)
Lemma all2_eq : forall a b, all2 inc_eq a b = true <-> a = b.
Proof.
  induction a as [|x a IH]; destruct b as [|y b]; cbn [all2]; try (split; [discriminate|discriminate]); [split; reflexivity|].
  rewrite andb_true_iff, inc_eq_spec, IH. split; [intros [-> ->]; reflexivity|intros H; injection H; auto].
Qed.

Theorem complaint_iff_differs : forall own cpp l, complaint own cpp l = false <-> l = propose own cpp l.
Proof.
  intros. unfold complaint. rewrite order_ne_op_now. cbn [lists_cmp]. rewrite negb_false_iff. apply all2_eq.
Qed.

(* when the own header is among the includes, the proposal also silences the firstInclude complaint *)
Theorem propose_own_header_first : forall own h l, has_sep own -> In h (map (fix_relative own) l) ->
  first_complaint own (Some (OwnIs h)) (propose own (Some (OwnIs h)) l) = false.
Proof.
  intros own h l Hs Hin. unfold first_complaint. rewrite (sort_propose own (Some (OwnIs h)) l Hs). cbn [own_of].
  unfold propose. cbn [own_of]. rewrite move_own_head.
  - rewrite first_ne_op_now, str_ne_spec, str_eqb_refl. reflexivity.
  - eapply Permutation_in; [symmetry; apply sort_perm|exact Hin].
Qed.

Theorem check_includes_total : forall own cpp l, (cpp = None \/ l <> []) ->
  check_includes own cpp l = Ok {| ir_proposal := propose own cpp l; ir_order := complaint own cpp l; ir_first := first_complaint own cpp l |}.
Proof.
  intros own cpp l H. unfold check_includes. destruct cpp as [oh|]; [|reflexivity].
  destruct l; [|reflexivity]. destruct H as [H|H]; [discriminate|contradiction].
Qed.

(* the proposal is a rearrangement of the (made-relative) includes: nothing is added or dropped *)
Theorem propose_is_permutation : forall own cpp l, Permutation (propose own cpp l) (map (fix_relative own) l).
Proof.
  intros. unfold propose. destruct cpp as [oh|].
  - rewrite move_own_perm. apply sort_perm.
  - apply sort_perm.
Qed.
