(* Proofs about Lint/Indent.v: the fixer touches only lines with a recorded fix, leaves a file that draws no indent complaint, and
   is idempotent on files whose recorded preprocessor lines carry no trailing white space. *)
From Coq Require Import Lia ZifyBool.
From Symv Require Import Lint.IncludeOrder Lint.IncludeOrderProofs Lint.Indent.
Open Scope Z_scope.

(* ---- per-run obligations on the regenerated operators / structural constants ---- *)
Lemma pf_first_lineno_now : pf_first_lineno = fi_first_lineno. Proof. reflexivity. Qed.
Lemma pf_lineno_inc_now : pf_lineno_inc = 1. Proof. reflexivity. Qed.
Lemma fi_lineno_inc_now : fi_lineno_inc = 1. Proof. reflexivity. Qed.
Lemma fi_lineno_op_now : fi_lineno_op = Eq. Proof. reflexivity. Qed.
Lemma fi_fc_after_pp_now : fi_fc_after_pp = true. Proof. reflexivity. Qed.
Lemma fi_fc_after_cont_now : fi_fc_after_cont = false. Proof. reflexivity. Qed.
Lemma fi_target_tabs_now : fi_target_tabs = 1. Proof. reflexivity. Qed.
Lemma fi_delta_op_now : fi_delta_op = Sub. Proof. reflexivity. Qed.
Lemma ft_zero_op_now : ft_zero_op = Eq. Proof. reflexivity. Qed.
Lemma ft_zero_now : ft_zero = 0. Proof. reflexivity. Qed.
Lemma ft_neg_op_now : ft_neg_op = Lt. Proof. reflexivity. Qed.
Lemma ft_neg_bound_now : ft_neg_bound = 0. Proof. reflexivity. Qed.
Lemma ft_tab_now : ft_tab = 9. Proof. reflexivity. Qed.
Lemma cont_now : (cont_chr =? 92) && (cont_back =? 1) = true. Proof. reflexivity. Qed.
Lemma cont_op_now : cont_op = Eq. Proof. reflexivity. Qed.
Lemma pp_cont_now : (pp_cont_chr =? 92) && (pp_cont_back =? 1) = true. Proof. reflexivity. Qed.
Lemma pp_cont_op_now : pp_cont_op = Eq. Proof. reflexivity. Qed.
Lemma pp_pragma_op_now : pp_pragma_op = Ne. Proof. reflexivity. Qed.
Lemma ri_fc_init_now : ri_fc_init = false. Proof. reflexivity. Qed.

(* the line ends in a backslash *)
Definition ends_bs (line : str) : bool := match rev line with c :: _ => c =? 92 | [] => false end.

(* facts about the one exempted line (`#pragma once`), whatever its regenerated text is *)
Lemma pragma_once_no_bs : ends_bs pp_pragma_once = false. Proof. reflexivity. Qed.

Lemma cont_chr_eq : cont_chr = 92 /\ cont_back = 1.
Proof. pose proof cont_now as H. apply andb_true_iff in H. lia. Qed.
Lemma pp_cont_chr_eq : pp_cont_chr = 92 /\ pp_cont_back = 1.
Proof. pose proof pp_cont_now as H. apply andb_true_iff in H. lia. Qed.

Lemma char_from_end_1 : forall line, char_from_end 1 line = hd 0 (rev line).
Proof. intros. unfold char_from_end. change (Z.to_nat (1 - 1)) with 0%nat. destruct (rev line); reflexivity. Qed.

Lemma continues_spec : forall line, continues line = ends_bs line.
Proof.
  intros. unfold continues, ends_bs. destruct cont_chr_eq as [-> ->]. rewrite cont_op_now, char_from_end_1. cbn [cmp].
  destruct line as [|c r]; [reflexivity|]. destruct (rev (c :: r)) as [|d t] eqn:E.
  - apply (f_equal (@length Z)) in E. rewrite rev_length in E. discriminate.
  - cbn [hd]. apply Z.eqb_sym.
Qed.

Lemma pp_continues_spec : forall line, pp_continues line = ends_bs line.
Proof.
  intros. unfold pp_continues, ends_bs. destruct pp_cont_chr_eq as [-> ->]. rewrite pp_cont_op_now, char_from_end_1. cbn [cmp].
  destruct (rev line) as [|d t]; [reflexivity|]. cbn [hd]. apply Z.eqb_sym.
Qed.

Lemma pp_recorded_false : forall line, pp_recorded line = false -> line = pp_pragma_once.
Proof.
  intros line H. unfold pp_recorded in H. rewrite pp_pragma_op_now in H. apply sc_eq.
  unfold str_cmp in H. destruct (str_compare line pp_pragma_once); cbn in H; congruence.
Qed.

(* ---- the equations of the three folds with the constants filled in ---- *)

Lemma parse_from_eq : forall n ml line rest,
  parse_from n ml (line :: rest) =
  if ml then {| fkind := CONTINUATION; flineno := n; fline := line |} :: parse_from (n + 1) (ends_bs line) rest
  else if is_include_line line then {| fkind := PPLINE; flineno := n; fline := line |} :: parse_from (n + 1) false rest
  else if is_preproc_line line then
    (if pp_recorded line then [{| fkind := PPLINE; flineno := n; fline := line |}] else []) ++ parse_from (n + 1) (ends_bs line) rest
  else parse_from (n + 1) false rest.
Proof. intros. cbn [parse_from]. rewrite pf_lineno_inc_now, continues_spec, pp_continues_spec. reflexivity. Qed.

Lemma fix_from_eq : forall fixes n fc line rest,
  fix_from fixes n fc (line :: rest) =
  match fixes with
  | f :: fs =>
    if n =? flineno f then
      match fkind f with
      | PPLINE => strip line :: fix_from fs (n + 1) true rest
      | CONTINUATION => if fc then retab line :: fix_from fs (n + 1) false rest else line :: fix_from fs (n + 1) fc rest
      end
    else line :: fix_from fixes (n + 1) fc rest
  | [] => line :: fix_from [] (n + 1) fc rest
  end.
Proof.
  intros. cbn [fix_from]. rewrite fi_lineno_inc_now, fi_lineno_op_now, fi_fc_after_pp_now, fi_fc_after_cont_now. reflexivity.
Qed.

(* ------------------------------------------------------------------------------------------------------------------ *)
(* fix_touches_only_fixes *)

Lemma fix_from_nth : forall lines fixes n fc k,
  (forall f, In f fixes -> flineno f <> n + Z.of_nat k) ->
  nth_error (fix_from fixes n fc lines) k = nth_error lines k.
Proof.
  induction lines as [|line rest IH]; intros fixes n fc k H; [destruct k; reflexivity|].
  rewrite fix_from_eq. destruct k as [|k].
  - destruct fixes as [|f fs]; [reflexivity|].
    destruct (Z.eqb_spec n (flineno f)) as [E|E]; [|reflexivity].
    exfalso. apply (H f (or_introl eq_refl)). cbn. lia.
  - assert (Hfs : forall fs', (forall f, In f fs' -> In f fixes) -> forall fc', nth_error (fix_from fs' (n + 1) fc' rest) k = nth_error rest k).
    { intros fs' Hsub fc'. apply IH. intros f Hf. specialize (H f (Hsub f Hf)). lia. }
    destruct fixes as [|f fs]; cbn [nth_error].
    + apply Hfs. auto.
    + destruct (n =? flineno f).
      * destruct (fkind f); [|destruct fc]; cbn [nth_error]; apply Hfs; intros g Hg; right; assumption.
      * cbn [nth_error]. apply Hfs. auto.
Qed.

Theorem fix_touches_only_fixes : forall fixes lines k,
  (forall f, In f fixes -> flineno f <> fi_first_lineno + Z.of_nat k) ->
  nth_error (fix_indents fixes lines) k = nth_error lines k.
Proof. intros. unfold fix_indents. apply fix_from_nth. assumption. Qed.

Lemma fix_from_length : forall lines fixes n fc, length (fix_from fixes n fc lines) = length lines.
Proof.
  induction lines as [|line rest IH]; intros; [reflexivity|]. rewrite fix_from_eq.
  destruct fixes as [|f fs]; [cbn [length]; rewrite IH; reflexivity|].
  destruct (n =? flineno f); [destruct (fkind f); [|destruct fc]|]; cbn [length]; rewrite IH; reflexivity.
Qed.

Theorem fix_keeps_line_count : forall fixes lines, length (fix_indents fixes lines) = length lines.
Proof. intros. apply fix_from_length. Qed.

(* ------------------------------------------------------------------------------------------------------------------ *)
(* parse followed by fix, as one pass *)

Fixpoint fused (ml fc : bool) (lines : list str) : list str :=
  match lines with
  | [] => []
  | line :: rest =>
    if ml then (if fc then retab line else line) :: fused (ends_bs line) false rest
    else if is_include_line line then strip line :: fused false true rest
    else if is_preproc_line line then
      if pp_recorded line then strip line :: fused (ends_bs line) true rest
      else line :: fused (ends_bs line) fc rest
    else line :: fused false fc rest
  end.

Lemma parse_lineno_ge : forall lines n ml, Forall (fun f => n <= flineno f) (parse_from n ml lines).
Proof.
  induction lines as [|line rest IH]; intros; [constructor|]. rewrite parse_from_eq.
  assert (Hn : forall ml', Forall (fun f => n <= flineno f) (parse_from (n + 1) ml' rest)).
  { intros. eapply Forall_impl; [|apply IH]. cbn. intros. lia. }
  destruct ml; [constructor; [cbn; lia|apply Hn]|].
  destruct (is_include_line line); [constructor; [cbn; lia|apply Hn]|].
  destruct (is_preproc_line line); [|apply Hn].
  destruct (pp_recorded line); cbn [app]; [constructor; [cbn; lia|apply Hn]|apply Hn].
Qed.

Lemma fix_from_skip : forall fixes n fc line rest,
  Forall (fun f => n + 1 <= flineno f) fixes -> fix_from fixes n fc (line :: rest) = line :: fix_from fixes (n + 1) fc rest.
Proof.
  intros fixes n fc line rest H. rewrite fix_from_eq. destruct fixes as [|f fs]; [reflexivity|].
  inversion H; subst. destruct (Z.eqb_spec n (flineno f)); [lia|reflexivity].
Qed.

Lemma fix_parse_fused : forall lines n ml fc, fix_from (parse_from n ml lines) n fc lines = fused ml fc lines.
Proof.
  induction lines as [|line rest IH]; intros; [reflexivity|]. rewrite parse_from_eq. cbn [fused].
  destruct ml.
  - rewrite fix_from_eq. cbn [flineno fkind]. rewrite Z.eqb_refl. destruct fc; rewrite IH; reflexivity.
  - destruct (is_include_line line).
    + rewrite fix_from_eq. cbn [flineno fkind]. rewrite Z.eqb_refl, IH. reflexivity.
    + destruct (is_preproc_line line).
      * destruct (pp_recorded line); cbn [app].
        -- rewrite fix_from_eq. cbn [flineno fkind]. rewrite Z.eqb_refl, IH. reflexivity.
        -- rewrite fix_from_skip by apply parse_lineno_ge. rewrite IH. reflexivity.
      * rewrite fix_from_skip by apply parse_lineno_ge. rewrite IH. reflexivity.
Qed.

Lemma fix_file_fused : forall lines, fix_file lines = fused false fi_fc_init lines.
Proof. intros. unfold fix_file, fix_indents, parse_fixes. rewrite pf_first_lineno_now. apply fix_parse_fused. Qed.

(* ------------------------------------------------------------------------------------------------------------------ *)
(* strings: drop_while / strip / retab *)

Lemma drop_while_split : forall f (s : str), exists pre, s = pre ++ drop_while f s /\ Forall (fun c => f c = true) pre.
Proof.
  induction s as [|c r [pre [E F]]]; [exists []; split; [reflexivity|constructor]|].
  cbn [drop_while]. destruct (f c) eqn:Ec.
  - exists (c :: pre). split; [cbn; congruence|constructor; assumption].
  - exists []. split; [reflexivity|constructor].
Qed.

Lemma drop_while_idem : forall f (s : str), drop_while f (drop_while f s) = drop_while f s.
Proof.
  induction s as [|c r IH]; [reflexivity|]. cbn [drop_while]. destruct (f c) eqn:E; [assumption|]. cbn [drop_while]. rewrite E. reflexivity.
Qed.

Lemma drop_while_head : forall f c (r : str), f c = false -> drop_while f (c :: r) = c :: r.
Proof. intros. cbn [drop_while]. rewrite H. reflexivity. Qed.

Lemma lstrip_idem : forall s, lstrip (lstrip s) = lstrip s.
Proof. intros; apply drop_while_idem. Qed.

Lemma rev_head_of_suffix : forall (pre s : str) c t, rev (pre ++ s) = c :: t -> s <> [] -> exists t', rev s = c :: t'.
Proof.
  intros pre s c t H Hs. rewrite rev_app_distr in H. destruct (rev s) as [|d t'] eqn:E.
  - apply (f_equal (@length Z)) in E. rewrite rev_length in E. destruct s; [contradiction|discriminate].
  - cbn [app] in H. injection H as -> _. eexists; reflexivity.
Qed.

(* a line that does not end in white space is not touched on the right by strip() *)
Lemma strip_no_trailing : forall s, ends_space s = false -> strip s = lstrip s.
Proof.
  intros s H. unfold strip, rstrip. destruct (drop_while_split is_space s) as [pre [E _]]. fold (lstrip s) in E.
  destruct (lstrip s) as [|c r] eqn:El; [reflexivity|].
  unfold ends_space in H. destruct (rev s) as [|d t] eqn:Er.
  - apply (f_equal (@length Z)) in Er. rewrite rev_length, E, app_length in Er. cbn in Er. lia.
  - rewrite E in Er. destruct (rev_head_of_suffix pre (c :: r) d t Er ltac:(discriminate)) as [t' Ht].
    rewrite Ht. cbn [starts_space] in H. rewrite drop_while_head by assumption. rewrite <- Ht. apply rev_involutive.
Qed.

Lemma is_space_hash : is_space 35 = false. Proof. reflexivity. Qed.
Lemma is_space_bs : is_space 92 = false. Proof. reflexivity. Qed.

Lemma is_preproc_hash : forall line, is_preproc_line line = true -> exists r, lstrip line = 35 :: r.
Proof.
  intros line H. unfold is_preproc_line in H. destruct (lstrip line) as [|c r]; [discriminate|].
  destruct (Z.eqb_spec c 35) as [->|Hne]; [eexists; reflexivity|].
  destruct c; try discriminate. repeat (destruct p; try discriminate). contradiction.
Qed.

Lemma is_include_is_preproc : forall line, is_include_line line = true -> is_preproc_line line = true.
Proof.
  intros line H. unfold is_include_line, parse_include_line in H. unfold is_preproc_line.
  destruct (lstrip line) as [|c r]; [discriminate|].
  destruct c; try discriminate. repeat (destruct p; try discriminate). reflexivity.
Qed.

Lemma drop_while_app_last : forall f (l : str) x, f x = false -> drop_while f (l ++ [x]) = drop_while f l ++ [x].
Proof.
  induction l as [|c r IH]; intros x Hx; cbn [app drop_while]; [rewrite Hx; reflexivity|].
  destruct (f c); [apply IH; assumption|reflexivity].
Qed.

Lemma strip_hash : forall line r, lstrip line = 35 :: r -> exists r', strip line = 35 :: r'.
Proof.
  intros line r H. unfold strip, rstrip. rewrite H. cbn [rev]. rewrite drop_while_app_last by apply is_space_hash.
  rewrite rev_app_distr. cbn [rev app]. eexists; reflexivity.
Qed.

Lemma preproc_strip : forall line, is_preproc_line line = true ->
  starts_space (strip line) = false /\ is_preproc_line (strip line) = true /\ lstrip (strip line) = strip line.
Proof.
  intros line H. destruct (is_preproc_hash line H) as [r Hr]. destruct (strip_hash line r Hr) as [r' Hs].
  rewrite Hs. unfold is_preproc_line, lstrip. rewrite drop_while_head by apply is_space_hash. repeat split; reflexivity.
Qed.

Lemma is_include_lstrip : forall line, is_include_line (lstrip line) = is_include_line line.
Proof. intros. unfold is_include_line, parse_include_line. rewrite lstrip_idem. reflexivity. Qed.

Lemma is_preproc_lstrip : forall line, is_preproc_line (lstrip line) = is_preproc_line line.
Proof. intros. unfold is_preproc_line. rewrite lstrip_idem. reflexivity. Qed.

Lemma ends_bs_no_trailing : forall line, ends_bs line = true -> ends_space line = false.
Proof.
  intros line H. unfold ends_bs in H. unfold ends_space. destruct (rev line) as [|c t]; [reflexivity|].
  cbn [starts_space]. apply Z.eqb_eq in H. subst. reflexivity.
Qed.

Lemma ends_bs_suffix : forall (pre s : str), s <> [] -> ends_bs (pre ++ s) = ends_bs s.
Proof.
  intros pre s Hs. unfold ends_bs. rewrite rev_app_distr. destruct (rev s) as [|d t] eqn:E; [|reflexivity].
  apply (f_equal (@length Z)) in E. rewrite rev_length in E. destruct s; [contradiction|discriminate].
Qed.

Lemma ends_bs_lstrip : forall line, lstrip line <> [] -> ends_bs (lstrip line) = ends_bs line.
Proof.
  intros line H. destruct (drop_while_split is_space line) as [pre [E _]]. fold (lstrip line) in E.
  rewrite E at 2. symmetry. apply ends_bs_suffix. assumption.
Qed.

Lemma ends_bs_strip : forall line, ends_bs line = true -> ends_bs (strip line) = true.
Proof.
  intros line H. rewrite (strip_no_trailing line (ends_bs_no_trailing line H)).
  destruct (lstrip line) as [|c r] eqn:E.
  - exfalso. destruct (drop_while_split is_space line) as [pre [Ep Fp]]. fold (lstrip line) in Ep. rewrite E, app_nil_r in Ep. subst pre.
    unfold ends_bs in H. destruct (rev line) as [|d t] eqn:Er; [discriminate|]. apply Z.eqb_eq in H. subst d.
    assert (Hin : In 92 line). { apply in_rev. rewrite Er. left. reflexivity. }
    rewrite Forall_forall in Fp. specialize (Fp 92 Hin). discriminate.
  - rewrite <- E. rewrite ends_bs_lstrip; [assumption|rewrite E; discriminate].
Qed.

(* retab: exactly one leading tab *)
Lemma take_while_tabs : forall s, take_while (Z.eqb 9) s = repeat 9 (length (take_while (Z.eqb 9) s)).
Proof.
  induction s as [|c r IH]; [reflexivity|]. cbn [take_while]. destruct (Z.eqb_spec 9 c) as [<-|]; [|reflexivity].
  cbn [length repeat]. f_equal. assumption.
Qed.

Lemma take_drop_while : forall f (s : str), take_while f s ++ drop_while f s = s.
Proof. induction s as [|c r IH]; [reflexivity|]. cbn [take_while drop_while]. destruct (f c); [cbn; congruence|reflexivity]. Qed.

Lemma remove_tabs_repeat : forall k x, remove_tabs k (repeat 9 k ++ x) = x.
Proof. induction k as [|k IH]; intros; [destruct x; reflexivity|]. cbn [repeat app remove_tabs]. rewrite Z.eqb_refl. apply IH. Qed.

Lemma repeat_shift : forall k (r : str), repeat 9 (S k) ++ r = repeat 9 k ++ 9 :: r.
Proof. induction k as [|k IH]; intros; [reflexivity|]. cbn [repeat app] in *. f_equal. apply IH. Qed.

Lemma retab_spec : forall line, retab line = 9 :: drop_while (Z.eqb 9) line.
Proof.
  intros. unfold retab, fix_tabs, leading_tabs, len.
  rewrite fi_delta_op_now, fi_target_tabs_now, ft_zero_op_now, ft_zero_now, ft_neg_op_now, ft_neg_bound_now, ft_tab_now. cbn [ev2 cmp].
  pose proof (take_drop_while (Z.eqb 9) line) as Hsplit. rewrite take_while_tabs in Hsplit.
  set (k := length (take_while (Z.eqb 9) line)) in *. set (r := drop_while (Z.eqb 9) line) in *.
  destruct k as [|[|k]].
  - cbn in Hsplit. rewrite <- Hsplit. reflexivity.
  - cbn in Hsplit. rewrite <- Hsplit. reflexivity.
  - assert (1 - Z.of_nat (S (S k)) =? 0 = false) as -> by lia.
    assert (1 - Z.of_nat (S (S k)) <? 0 = true) as -> by lia.
    replace (Z.to_nat (- (1 - Z.of_nat (S (S k))))) with (S k) by lia.
    rewrite <- Hsplit at 1. rewrite repeat_shift. apply remove_tabs_repeat.
Qed.

Lemma retab_idem : forall line, retab (retab line) = retab line.
Proof. intros. rewrite !retab_spec. cbn [drop_while]. rewrite Z.eqb_refl, drop_while_idem. reflexivity. Qed.

Lemma ends_bs_retab : forall line, ends_bs (retab line) = ends_bs line.
Proof.
  intros. rewrite retab_spec. destruct (drop_while_split (Z.eqb 9) line) as [pre [E F]].
  destruct (drop_while (Z.eqb 9) line) as [|c r] eqn:Ed.
  - rewrite app_nil_r in E. subst pre. unfold ends_bs. cbn [rev app].
    destruct (rev line) as [|d t] eqn:Er; [reflexivity|].
    assert (Hin : In d line). { apply in_rev. rewrite Er. left; reflexivity. }
    rewrite Forall_forall in F. specialize (F d Hin). apply Z.eqb_eq in F. subst d. reflexivity.
  - rewrite E. rewrite (ends_bs_suffix pre (c :: r)) by discriminate.
    change (9 :: c :: r) with ([9] ++ c :: r). apply ends_bs_suffix. discriminate.
Qed.

(* ------------------------------------------------------------------------------------------------------------------ *)
(* fix_then_no_indent_complaint *)

Definition pp_unindented (f : fixrec) : Prop :=
  match fkind f with PPLINE => starts_space (fline f) = false | CONTINUATION => True end.

Lemma report_nil : forall fixes, Forall pp_unindented fixes -> report_from false fixes = [].
Proof.
  induction 1 as [|f fs Hf _ IH]; [reflexivity|]. cbn [report_from]. unfold pp_unindented in Hf.
  destruct (fkind f); [rewrite Hf|]; assumption.
Qed.

Lemma parse_fused_unindented : forall lines n mlo mln fc, (mlo = true -> mln = true) ->
  Forall pp_unindented (parse_from n mln (fused mlo fc lines)).
Proof.
  induction lines as [|line rest IH]; intros n mlo mln fc Himp; [constructor|]. cbn [fused].
  destruct mlo.
  - rewrite (Himp eq_refl), parse_from_eq. constructor; [exact I|]. apply IH.
    intros H. destruct fc; [rewrite ends_bs_retab|]; assumption.
  - (* what the fixer emits for this line: o, and the next parser state of the original file: mlo' *)
    assert (Hgen : forall o mlo' fc',
      (mln = true -> mlo' = true -> ends_bs o = true) ->
      (is_include_line o = true -> starts_space o = false /\ mlo' = false) ->
      (is_include_line o = false -> is_preproc_line o = true -> (pp_recorded o = true -> starts_space o = false) /\ (mlo' = true -> ends_bs o = true)) ->
      (is_include_line o = false -> is_preproc_line o = false -> mlo' = false) ->
      Forall pp_unindented (parse_from n mln (o :: fused mlo' fc' rest))).
    { intros o mlo' fc' H1 H2 H3 H4. rewrite parse_from_eq. destruct mln.
      - constructor; [exact I|]. apply IH. intros Hm. apply H1; [reflexivity|assumption].
      - destruct (is_include_line o) eqn:Ei.
        + destruct (H2 eq_refl) as [Hs Hm]. constructor; [exact Hs|]. apply IH. congruence.
        + destruct (is_preproc_line o) eqn:Ep.
          * destruct (H3 eq_refl eq_refl) as [Hs Hm].
            destruct (pp_recorded o); cbn [app]; [constructor; [apply Hs; reflexivity|]|]; apply IH; assumption.
          * apply IH. intros Hm. rewrite (H4 eq_refl eq_refl) in Hm. discriminate. }
    destruct (is_include_line line) eqn:Ei.
    + pose proof (preproc_strip line (is_include_is_preproc line Ei)) as [Hs [Hp _]].
      apply Hgen; intros; try discriminate; repeat split; auto; congruence.
    + destruct (is_preproc_line line) eqn:Ep.
      * destruct (pp_recorded line) eqn:Er.
        -- pose proof (preproc_strip line Ep) as [Hs [Hp _]].
           apply Hgen; intros; repeat split; auto; try congruence.
           ++ apply ends_bs_strip; assumption.
           ++ (* the stripped line became an include line: then the original did not end in a backslash *)
              destruct (ends_bs line) eqn:Eb; [|reflexivity].
              rewrite (strip_no_trailing line (ends_bs_no_trailing line Eb)), is_include_lstrip in H. congruence.
           ++ intros; apply ends_bs_strip; assumption.
        -- apply Hgen; intros; repeat split; auto; try congruence.
      * apply Hgen; intros; repeat split; auto; try congruence.
Qed.

Theorem fix_then_no_indent_complaint : forall lines, report_file (fix_file lines) = [].
Proof.
  intros. unfold report_file, report_indents, parse_fixes. rewrite ri_fc_init_now, fix_file_fused.
  apply report_nil. apply parse_fused_unindented. discriminate.
Qed.

(* ------------------------------------------------------------------------------------------------------------------ *)
(* fix_idempotent *)

Definition fix_ok (f : fixrec) : bool := match fkind f with PPLINE => negb (ends_space (fline f)) | CONTINUATION => true end.

Lemma fused_fc_irrelevant : forall lines fc fc', fused false fc lines = fused false fc' lines.
Proof.
  induction lines as [|line rest IH]; intros; [reflexivity|]. cbn [fused].
  destruct (is_include_line line); [reflexivity|].
  destruct (is_preproc_line line).
  - destruct (pp_recorded line) eqn:Er; [reflexivity|].
    rewrite (pp_recorded_false line Er), pragma_once_no_bs. f_equal. apply IH.
  - f_equal. apply IH.
Qed.

Lemma strip_fixed : forall line, ends_space line = false -> strip (strip line) = strip line.
Proof.
  intros line H. rewrite (strip_no_trailing line H). unfold strip at 1. rewrite lstrip_idem. fold (strip line).
  apply strip_no_trailing. assumption.
Qed.

Lemma fused_idem : forall lines n ml fc, forallb fix_ok (parse_from n ml lines) = true ->
  fused ml fc (fused ml fc lines) = fused ml fc lines.
Proof.
  induction lines as [|line rest IH]; intros n ml fc H; [reflexivity|]. rewrite parse_from_eq in H. cbn [fused].
  destruct ml.
  - cbn [forallb] in H. apply andb_true_iff in H as [_ H]. cbn [fused].
    destruct fc.
    + rewrite retab_idem, ends_bs_retab. f_equal. eapply IH; eauto.
    + f_equal. eapply IH; eauto.
  - destruct (is_include_line line) eqn:Ei.
    + cbn [forallb] in H. apply andb_true_iff in H as [Hok H]. cbn [fix_ok fkind fline] in Hok. apply negb_true_iff in Hok.
      assert (Hs : strip line = lstrip line) by (apply strip_no_trailing; assumption).
      assert (Hi : is_include_line (strip line) = true) by (rewrite Hs, is_include_lstrip; assumption).
      cbn [fused]. rewrite Hi, (strip_fixed line Hok). f_equal. eapply IH; eauto.
    + destruct (is_preproc_line line) eqn:Ep.
      * destruct (pp_recorded line) eqn:Er.
        -- cbn [app forallb] in H. apply andb_true_iff in H as [Hok H]. cbn [fix_ok fkind fline] in Hok. apply negb_true_iff in Hok.
           assert (Hs : strip line = lstrip line) by (apply strip_no_trailing; assumption).
           assert (Hi : is_include_line (strip line) = false) by (rewrite Hs, is_include_lstrip; assumption).
           assert (Hp : is_preproc_line (strip line) = true) by (rewrite Hs, is_preproc_lstrip; assumption).
           assert (Hne : lstrip line <> []). { destruct (is_preproc_hash line Ep) as [r ->]. discriminate. }
           assert (Hb : ends_bs (strip line) = ends_bs line) by (rewrite Hs; apply ends_bs_lstrip; assumption).
           cbn [fused]. rewrite Hi, Hp, Hb.
           destruct (pp_recorded (strip line)) eqn:Er2.
           ++ rewrite (strip_fixed line Hok). f_equal. eapply IH; eauto.
           ++ f_equal.
              assert (Hb2 : ends_bs line = false).
              { rewrite <- Hb, (pp_recorded_false _ Er2). apply pragma_once_no_bs. }
              rewrite Hb2 in *. rewrite (fused_fc_irrelevant _ fc true). eapply IH; eauto.
        -- cbn [app] in H. cbn [fused]. rewrite Ei, Ep, Er. f_equal. eapply IH; eauto.
      * cbn [fused]. rewrite Ei, Ep. f_equal. eapply IH; eauto.
Qed.

Theorem fix_idempotent : forall lines, no_trailing_blank_pp lines = true -> fix_file (fix_file lines) = fix_file lines.
Proof.
  intros lines H. rewrite !fix_file_fused. unfold no_trailing_blank_pp, parse_fixes in H. eapply fused_idem. exact H.
Qed.
