(* Proofs about Lint/Regex.v: the derivative matcher decides the inductive matching relation M; search/match introduction
   lemmas; dependence on the context only through the class of the two neighbouring code points. *)
From Coq Require Import Lia.
From Symv Require Import Lint.Regex.
Open Scope Z_scope.

(* M r pr w post: r matches the word w when the text before w is (rev pr) and the text after w is post *)
Inductive M : regex -> list Z -> list Z -> list Z -> Prop :=
| MEps pr post : M Eps pr [] post
| MChr neg items c pr post : cset_mem neg items c = true -> M (Chr neg items) pr [c] post
| MAnc a pr post : anchor_ok a (hd_error pr) (hd_error post) = true -> M (Anc a) pr [] post
| MCat r s pr w1 w2 post : M r pr w1 (w2 ++ post) -> M s (rev w1 ++ pr) w2 post -> M (Cat r s) pr (w1 ++ w2) post
| MAltL r s pr w post : M r pr w post -> M (Alt r s) pr w post
| MAltR r s pr w post : M s pr w post -> M (Alt r s) pr w post
| MStar0 r pr post : M (Star r) pr [] post
| MStarS r pr w1 w2 post : w1 <> [] -> M r pr w1 (w2 ++ post) -> M (Star r) (rev w1 ++ pr) w2 post -> M (Star r) pr (w1 ++ w2) post.

(* the context-free reading used in statements about witnesses: r matches w as a whole line *)
Definition Matches (r : regex) (w : list Z) : Prop := M r [] w [].

Lemma M_Empty pr w post : ~ M Empty pr w post.
Proof. intro H; inversion H. Qed.

Lemma M_Eps_inv pr w post : M Eps pr w post -> w = [].
Proof. intro H; inversion H; reflexivity. Qed.

Lemma M_Cat_iff r s pr w post :
  M (Cat r s) pr w post <-> exists w1 w2, w = w1 ++ w2 /\ M r pr w1 (w2 ++ post) /\ M s (rev w1 ++ pr) w2 post.
Proof.
  split.
  - intro H; inversion H; subst. eauto.
  - intros (w1 & w2 & -> & H1 & H2). constructor; assumption.
Qed.

Lemma M_Alt_iff r s pr w post : M (Alt r s) pr w post <-> M r pr w post \/ M s pr w post.
Proof.
  split.
  - intro H; inversion H; subst; auto.
  - intros [H | H]; [apply MAltL | apply MAltR]; assumption.
Qed.

Lemma cat_M r s pr w post : M (cat r s) pr w post <-> M (Cat r s) pr w post.
Proof.
  rewrite M_Cat_iff.
  destruct r; simpl.
  - split; [intro H; inversion H | intros (w1 & w2 & _ & H & _); inversion H].
  - split.
    + intro H. exists [], w. simpl. repeat split; auto. constructor.
    + intros (w1 & w2 & -> & H1 & H2). apply M_Eps_inv in H1. subst. simpl in *. exact H2.
  - destruct s; try (rewrite M_Cat_iff; reflexivity).
    split; [intro H; inversion H | intros (w1 & w2 & _ & _ & H); inversion H].
  - destruct s; try (rewrite M_Cat_iff; reflexivity).
    split; [intro H; inversion H | intros (w1 & w2 & _ & _ & H); inversion H].
  - destruct s; try (rewrite M_Cat_iff; reflexivity).
    split; [intro H; inversion H | intros (w1 & w2 & _ & _ & H); inversion H].
  - destruct s; try (rewrite M_Cat_iff; reflexivity).
    split; [intro H; inversion H | intros (w1 & w2 & _ & _ & H); inversion H].
  - destruct s; try (rewrite M_Cat_iff; reflexivity).
    split; [intro H; inversion H | intros (w1 & w2 & _ & _ & H); inversion H].
Qed.

Lemma alt_M r s pr w post : M (alt r s) pr w post <-> M r pr w post \/ M s pr w post.
Proof.
  destruct r; simpl;
    try (split; [intro H; right; exact H | intros [H | H]; [inversion H | exact H]]);
    (destruct s; try (apply M_Alt_iff);
     (split; [intro H; left; exact H | intros [H | H]; [exact H | inversion H]])).
Qed.

Lemma nullable_spec r : forall pr post, nullable (hd_error pr) (hd_error post) r = true <-> M r pr [] post.
Proof.
  induction r; intros pr post; simpl.
  - split; [discriminate | intro H; inversion H].
  - split; [constructor | reflexivity].
  - split; [discriminate | intro H; inversion H].
  - rewrite andb_true_iff, IHr1, IHr2, M_Cat_iff. split.
    + intros [H1 H2]. exists [], []. simpl. auto.
    + intros (w1 & w2 & E & H1 & H2). symmetry in E. apply app_eq_nil in E. destruct E; subst. simpl in *. auto.
  - rewrite orb_true_iff, IHr1, IHr2, M_Alt_iff. reflexivity.
  - split; [constructor | reflexivity].
  - split; [intro H; constructor; exact H | intro H; inversion H; assumption].
Qed.

Lemma rev_cons_app (c : Z) w pr : rev (c :: w) ++ pr = rev w ++ c :: pr.
Proof. simpl. rewrite <- app_assoc. reflexivity. Qed.

Lemma deriv_sound r : forall pr c w post, M (deriv (hd_error pr) c r) (c :: pr) w post -> M r pr (c :: w) post.
Proof.
  induction r; intros pr c w post H; simpl in H.
  - inversion H.
  - inversion H.
  - destruct (cset_mem neg items c) eqn:E; [| inversion H]. apply M_Eps_inv in H. subst. constructor. exact E.
  - apply alt_M in H. destruct H as [H | H].
    + apply cat_M in H. apply M_Cat_iff in H. destruct H as (w1 & w2 & -> & H1 & H2).
      apply IHr1 in H1. change (c :: w1 ++ w2) with ((c :: w1) ++ w2). constructor; [exact H1 |].
      rewrite rev_cons_app. exact H2.
    + destruct (nullable (hd_error pr) (Some c) r1) eqn:E; [| inversion H].
      apply IHr2 in H. change (c :: w) with ([] ++ c :: w). constructor.
      * apply nullable_spec. simpl. exact E.
      * simpl. exact H.
  - apply alt_M in H. destruct H as [H | H]; [apply MAltL; apply IHr1 | apply MAltR; apply IHr2]; exact H.
  - apply cat_M in H. apply M_Cat_iff in H. destruct H as (w1 & w2 & -> & H1 & H2).
    apply IHr in H1. change (c :: w1 ++ w2) with ((c :: w1) ++ w2). apply MStarS; [discriminate | exact H1 |].
    rewrite rev_cons_app. exact H2.
  - inversion H.
Qed.

Lemma deriv_complete r pr w0 post : M r pr w0 post -> forall c w, w0 = c :: w -> M (deriv (hd_error pr) c r) (c :: pr) w post.
Proof.
  induction 1; intros c0 w0 E; simpl.
  - discriminate.
  - inversion E; subst. rewrite H. constructor.
  - discriminate.
  - apply alt_M. destruct w1 as [| c1 w1'].
    + simpl in E. subst w2. right.
      assert (N : nullable (hd_error pr) (Some c0) r = true).
      { apply (nullable_spec r pr ((c0 :: w0) ++ post)) in H. exact H. }
      rewrite N. simpl in IHM2. apply IHM2. reflexivity.
    + simpl in E. inversion E; subst. left. apply cat_M. constructor.
      * apply IHM1. reflexivity.
      * rewrite <- rev_cons_app. exact H0.
  - apply alt_M. left. apply IHM. exact E.
  - apply alt_M. right. apply IHM. exact E.
  - discriminate.
  - destruct w1 as [| c1 w1']; [congruence |]. simpl in E. inversion E; subst.
    apply cat_M. constructor.
    + apply IHM1. reflexivity.
    + rewrite <- rev_cons_app. exact H1.
Qed.

Lemma deriv_spec r pr c w post : M (deriv (hd_error pr) c r) (c :: pr) w post <-> M r pr (c :: w) post.
Proof. split; [apply deriv_sound | intro H; eapply deriv_complete; eauto]. Qed.

(* derivative correctness: the matcher decides M *)
Theorem run_spec w : forall r pr post, run (hd_error pr) r w (hd_error post) = true <-> M r pr w post.
Proof.
  induction w as [| c w IH]; intros r pr post; simpl.
  - apply nullable_spec.
  - rewrite <- deriv_spec. apply (IH (deriv (hd_error pr) c r) (c :: pr) post).
Qed.

Corollary matches_spec r w : matches r w = true <-> Matches r w.
Proof. unfold matches, Matches. apply (run_spec w r [] []). Qed.

Lemma prefix_match_spec s : forall r pr,
  prefix_match (hd_error pr) r s = true <-> exists w post, s = w ++ post /\ M r pr w post.
Proof.
  induction s as [| c s IH]; intros r pr.
  - assert (G : nullable (hd_error pr) None r = true <-> exists w post, [] = w ++ post /\ M r pr w post).
    { rewrite (nullable_spec r pr []). split.
      - intro H. exists [], []. auto.
      - intros (w & post & E & H). symmetry in E. apply app_eq_nil in E. destruct E; subst. exact H. }
    destruct r; simpl; first [exact G | split; [discriminate | intros (w & post & _ & H); inversion H]].
  - assert (G : nullable (hd_error pr) (Some c) r || prefix_match (Some c) (deriv (hd_error pr) c r) s = true
                <-> exists w post, c :: s = w ++ post /\ M r pr w post).
    { rewrite orb_true_iff. rewrite (IH (deriv (hd_error pr) c r) (c :: pr)). split.
      - intros [H | (w & post & -> & H)].
        + exists [], (c :: s). split; [reflexivity |]. apply (nullable_spec r pr (c :: s)). exact H.
        + exists (c :: w), post. split; [reflexivity |]. apply deriv_spec. exact H.
      - intros (w & post & E & H). destruct w as [| c' w].
        + simpl in E. subst post. left. apply (nullable_spec r pr (c :: s)). exact H.
        + simpl in E. inversion E; subst. right. exists w, post. split; [reflexivity |]. apply deriv_spec. exact H. }
    destruct r; simpl; first [exact G | split; [discriminate | intros (w & post & _ & H); inversion H]].
Qed.

Lemma search_from_spec s : forall r pr,
  search_from (hd_error pr) r s = true <-> exists pre w post, s = pre ++ w ++ post /\ M r (rev pre ++ pr) w post.
Proof.
  induction s as [| c s IH]; intros r pr; cbn [search_from]; rewrite orb_true_iff, prefix_match_spec.
  - split.
    + intros [(w & post & E & H) | H]; [| discriminate]. exists [], w, post. auto.
    + intros (pre & w & post & E & H). left. destruct pre; [| discriminate]. simpl in *. eauto.
  - rewrite (IH r (c :: pr)). split.
    + intros [(w & post & E & H) | (pre & w & post & -> & H)].
      * exists [], w, post. auto.
      * exists (c :: pre), w, post. split; [reflexivity |]. rewrite rev_cons_app. exact H.
    + intros (pre & w & post & E & H). destruct pre as [| c' pre].
      * left. simpl in *. eauto.
      * simpl in E. inversion E; subst. right. exists pre, w, post. split; [reflexivity |].
        rewrite <- rev_cons_app. exact H.
Qed.

(* re.search: some substring matches in its context *)
Theorem search_spec r s : search r s = true <-> exists pre w post, s = pre ++ w ++ post /\ M r (rev pre) w post.
Proof.
  unfold search. rewrite (search_from_spec s r []). split; intros (pre & w & post & E & H); exists pre, w, post.
  - rewrite app_nil_r in H. auto.
  - rewrite app_nil_r. auto.
Qed.

Theorem match_prefix_spec r s : match_prefix r s = true <-> exists w post, s = w ++ post /\ M r [] w post.
Proof. unfold match_prefix. apply (prefix_match_spec s r []). Qed.

(* ---- the context matters only through the classes of the two neighbours ---- *)
Lemma cls_word p p' : cls p = cls p' -> is_word_opt p = is_word_opt p'.
Proof.
  destruct p as [a |], p' as [b |]; simpl; try reflexivity.
  - destruct (is_word a), (is_word b); congruence.
  - destruct (is_word a); congruence.
  - destruct (is_word b); congruence.
Qed.
Lemma cls_none p p' : cls p = cls p' -> is_none p = is_none p'.
Proof.
  destruct p as [a |], p' as [b |]; simpl; try reflexivity.
  - destruct (is_word a); congruence.
  - destruct (is_word b); congruence.
Qed.

Lemma anchor_cls a p p' n n' : cls p = cls p' -> cls n = cls n' -> anchor_ok a p n = anchor_ok a p' n'.
Proof.
  intros Hp Hn. destruct a; simpl.
  - apply cls_none; assumption.
  - apply cls_none; assumption.
  - rewrite (cls_word _ _ Hp), (cls_word _ _ Hn). reflexivity.
Qed.

Lemma nullable_cls r p p' n n' : cls p = cls p' -> cls n = cls n' -> nullable p n r = nullable p' n' r.
Proof.
  intros Hp Hn. induction r; simpl; try reflexivity.
  - rewrite IHr1, IHr2; reflexivity.
  - rewrite IHr1, IHr2; reflexivity.
  - apply anchor_cls; assumption.
Qed.

Lemma deriv_cls r p p' c : cls p = cls p' -> deriv p c r = deriv p' c r.
Proof.
  intro Hp. induction r; simpl; try reflexivity.
  - rewrite IHr1, IHr2, (nullable_cls r1 p p' (Some c) (Some c) Hp eq_refl). reflexivity.
  - rewrite IHr1, IHr2. reflexivity.
  - rewrite IHr. reflexivity.
Qed.

Lemma run_cls w : forall r p p' e e', cls p = cls p' -> cls e = cls e' -> run p r w e = run p' r w e'.
Proof.
  induction w as [| c w IH]; intros r p p' e e' Hp He; simpl.
  - apply nullable_cls; assumption.
  - rewrite (deriv_cls r p p' c Hp). apply IH; [reflexivity | assumption].
Qed.

Lemma cls_rep k : cls (rep k) = k.
Proof. destruct k; reflexivity. Qed.

(* generic introduction lemmas ------------------------------------------------------------------------------------- *)

(* the lemma named in the design: a word matched as a whole line by an assertion-free... in fact by any pattern whose
   witness is admissible for the classes of its two neighbours, is found by search wherever it is embedded *)
Theorem search_intro_cls r w pre post :
  admissible r w (cls (last_opt pre)) (cls (hd_error post)) = true -> search r (pre ++ w ++ post) = true.
Proof.
  unfold admissible, last_opt. intro H. apply search_spec. exists pre, w, post. split; [reflexivity |].
  apply run_spec. rewrite <- H. apply run_cls; rewrite cls_rep; reflexivity.
Qed.

Theorem match_prefix_intro_cls r w post :
  admissible r w KNone (cls (hd_error post)) = true -> match_prefix r (w ++ post) = true.
Proof.
  unfold admissible. intro H. apply match_prefix_spec. exists w, post. split; [reflexivity |].
  apply run_spec. simpl. rewrite <- H. apply run_cls; [reflexivity | rewrite cls_rep; reflexivity].
Qed.

(* assertion-free patterns: the context is irrelevant *)
Fixpoint anchor_free (r : regex) : bool :=
  match r with
  | Anc _ => false
  | Cat r s | Alt r s => anchor_free r && anchor_free s
  | Star r => anchor_free r
  | _ => true
  end.

Lemma nullable_free r p p' n n' : anchor_free r = true -> nullable p n r = nullable p' n' r.
Proof.
  induction r; simpl; intro F; try reflexivity; try discriminate.
  - apply andb_true_iff in F. destruct F. rewrite (IHr1 H), (IHr2 H0). reflexivity.
  - apply andb_true_iff in F. destruct F. rewrite (IHr1 H), (IHr2 H0). reflexivity.
Qed.

Lemma cat_free r s : anchor_free r = true -> anchor_free s = true -> anchor_free (cat r s) = true.
Proof. intros; destruct r; simpl in *; try assumption; try reflexivity; destruct s; simpl in *; try reflexivity; try discriminate; rewrite ?H, ?H0; auto. Qed.
Lemma alt_free r s : anchor_free r = true -> anchor_free s = true -> anchor_free (alt r s) = true.
Proof. intros; destruct r; simpl in *; try assumption; try reflexivity; destruct s; simpl in *; try reflexivity; try discriminate; rewrite ?H, ?H0; auto. Qed.

Lemma deriv_free r p p' c : anchor_free r = true -> deriv p c r = deriv p' c r /\ anchor_free (deriv p c r) = true.
Proof.
  induction r; simpl; intro F; try (split; reflexivity); try discriminate.
  - split; [reflexivity | destruct (cset_mem neg items c); reflexivity].
  - apply andb_true_iff in F. destruct F as [F1 F2]. destruct (IHr1 F1) as [E1 G1], (IHr2 F2) as [E2 G2].
    rewrite E1, E2, (nullable_free r1 p p' (Some c) (Some c) F1). split; [reflexivity |].
    apply alt_free.
    + apply cat_free; [rewrite <- E1; exact G1 | exact F2].
    + destruct (nullable p' (Some c) r1); [rewrite <- E2; exact G2 | reflexivity].
  - apply andb_true_iff in F. destruct F as [F1 F2]. destruct (IHr1 F1) as [E1 G1], (IHr2 F2) as [E2 G2].
    rewrite E1, E2. split; [reflexivity |]. apply alt_free; [rewrite <- E1 | rewrite <- E2]; assumption.
  - destruct (IHr F) as [E G]. rewrite E. split; [reflexivity |]. apply cat_free; [rewrite <- E; exact G | exact F].
Qed.

Lemma run_free w : forall r p p' e e', anchor_free r = true -> run p r w e = run p' r w e'.
Proof.
  induction w as [| c w IH]; intros r p p' e e' F; simpl.
  - apply nullable_free; assumption.
  - destruct (deriv_free r p p' c F) as [E G]. rewrite E. apply IH. rewrite <- E. exact G.
Qed.

(* search_intro as stated in DESIGN 3.5: Matches r w -> search r (pre ++ w ++ post) = true (assertion-free r) *)
Theorem search_intro r w pre post : anchor_free r = true -> Matches r w -> search r (pre ++ w ++ post) = true.
Proof.
  intros F H. apply search_intro_cls. unfold admissible. apply matches_spec in H. unfold matches in H.
  rewrite <- H. apply run_free. exact F.
Qed.

(* with assertions: the embedding must present neighbours of the classes the witness was validated for *)
Theorem search_intro_anchored r w pre post kp ke :
  admissible r w kp ke = true -> cls (last_opt pre) = kp -> cls (hd_error post) = ke -> search r (pre ++ w ++ post) = true.
Proof. intros H <- <-. apply search_intro_cls. exact H. Qed.

Lemma search_false_no_match r s : search r s = false -> forall pre w post, s = pre ++ w ++ post -> ~ M r (rev pre) w post.
Proof.
  intros H pre w post E HM. assert (T : search r s = true) by (apply search_spec; eauto). congruence.
Qed.
