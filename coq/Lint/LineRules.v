(* Model of the line validators of linters/cpp/validation.py and of the blank-line bookkeeping of HeaderParser.parse_file.
   Definitions only (proofs: Lint/LineRulesProofs.v).  Patterns, limits, operators and marker strings come from
   Gen/LintPatterns.v, regenerated from /repo on every run; the control structure modelled here is the pinned skeleton of
   WhitespaceLineValidator, LineLengthValidator, TemplateSpaceValidator, CatchWithoutClosingTryBrace, TypoChecker,
   PragmaOnceValidator, RegionValidator, strip_comments_and_strings and HeaderParser.parse_file.

   A line is the list of code points of one input line without its terminating "\n" (HeaderParser reads bytes, splits at
   "\n", decodes utf8 and strips "\n"; "\r" stays in the line).  A file is the list of its lines in order. *)
From Symv Require Import Lint.Regex Base.PyOps Gen.LintPatterns.
Open Scope Z_scope.

Definition line := list Z.
Record finding := mkf { f_rule : string; f_line : Z; f_kind : string }.

(* ---- small string functions ---- *)
Fixpoint starts_with (pfx s : list Z) : bool :=
  match pfx, s with
  | [], _ => true
  | a :: p', b :: s' => (a =? b) && starts_with p' s'
  | _ :: _, [] => false
  end.

Fixpoint list_eqb (a b : list Z) : bool :=
  match a, b with
  | [], [] => true
  | x :: a', y :: b' => (x =? y) && list_eqb a' b'
  | _, _ => false
  end.

Definition is_nil (l : list Z) : bool := match l with [] => true | _ => false end.

(* first occurrence of needle: (text before it, text after it) *)
Fixpoint find_sub (needle s : list Z) : option (list Z * list Z) :=
  if starts_with needle s then Some ([], skipn (length needle) s)
  else match s with
       | [] => None
       | c :: s' => match find_sub needle s' with Some (b, a) => Some (c :: b, a) | None => None end
       end.
Definition contains (needle s : list Z) : bool := match find_sub needle s with Some _ => true | None => false end.

(* text before the last occurrence of needle *)
Fixpoint find_last_sub (needle s : list Z) : option (list Z) :=
  match s with
  | [] => if starts_with needle [] then Some [] else None
  | c :: s' => match find_last_sub needle s' with
               | Some b => Some (c :: b)
               | None => if starts_with needle s then Some [] else None
               end
  end.

Definition expand_tabs (tab : Z) (e : list Z) (l : line) : line := flat_map (fun c => if c =? tab then e else [c]) l.

(* ---- strip_comments_and_strings (pinned: //.* -> "", then /\*(.+?)\*/, "(.+?)", '(.+?)' -> "dummy") ---- *)
Definition dummy : list Z := [100; 117; 109; 109; 121].
Definition cut_line_comment (s : line) : line := match find_sub [47; 47] s with Some (b, _) => b | None => s end.

(* re.sub(op (.+?) cl, 'dummy'): leftmost opener, at least one code point, nearest closer; if the leftmost opener has no
   closer no later opener has one either *)
Fixpoint sub_delim (fuel : nat) (op cl : list Z) (s : line) : line :=
  match fuel with
  | O => s
  | S f => match find_sub op s with
           | None => s
           | Some (before, rest) =>
               match rest with
               | [] => s
               | _ :: rest' => match find_sub cl rest' with
                               | None => s
                               | Some (_, after) => before ++ dummy ++ sub_delim f op cl after
                               end
               end
           end
  end.

Definition strip_cs (s : line) : line :=
  let t := cut_line_comment s in
  let t := sub_delim (length t) [47; 42] [42; 47] t in
  let t := sub_delim (length t) [34] [34] t in
  sub_delim (length t) [39] [39] t.

(* ---- WhitespaceLineValidator ---- *)
Definition W : string := "whitespaceLines".

(* suffix of s starting at the leftmost position where r matches *)
Fixpoint first_match (p : option Z) (r : regex) (s : list Z) : option (list Z) :=
  if prefix_match p r s then Some s
  else match s with [] => None | c :: s' => first_match (Some c) r s' end.

(* length of every word of r when that length is unique *)
Fixpoint fixed_len (r : regex) : option nat :=
  match r with
  | Empty | Star _ => None
  | Eps | Anc _ => Some O
  | Chr _ _ => Some 1%nat
  | Cat a b => match fixed_len a, fixed_len b with Some x, Some y => Some (x + y)%nat | _, _ => None end
  | Alt a b => match fixed_len a, fixed_len b with
               | Some x, Some y => if Nat.eqb x y then Some x else None
               | _, _ => None
               end
  end.

(* got_comma = pattern_comma.search(temp); got_comma and got_comma.group(0) not in [',)']
   None: the regenerated comma pattern is not of fixed length, group(0) is not modelled *)
Definition comma_hit (t : line) : option bool :=
  match first_match None (p_re ws_comma) t with
  | None => Some false
  | Some suffix => match fixed_len (p_re ws_comma) with
                   | Some k => Some (negb (list_eqb (firstn k suffix) comma_exempt))
                   | None => None
                   end
  end.

Definition flag (b : bool) (f : finding) : list finding := if b then [f] else [].

Definition ws_line (n : Z) (l : line) : list finding :=
  flag (search (p_re ws_whitespaces) l) (mkf W n "Whitespace at line ending")
  ++ flag (match_prefix (p_re ws_spaces_start) l) (mkf W n "Spaces at beginning of a line")
  ++ flag (match_prefix (p_re ws_tabs_start) l) (mkf W n "Tabs in empty line")
  ++ flag (search (p_re ws_space_operator) l) (mkf W n "Space after operator")
  ++ flag (search (p_re ws_tab_inside) l) (mkf W n "Tab present inside the text")
  ++ (if search (p_re ws_spaces_middle) l || search (p_re ws_comma) l
      then let t := strip_cs l in
           flag (search (p_re ws_spaces_middle) t) (mkf W n "Spaces in the middle")
           ++ match comma_hit t with
              | Some b => flag b (mkf W n "Comma should be followed by a space")
              | None => [mkf W n "UNMODELLED comma pattern"]
              end
      else []).

Definition cr_count (ls : list line) : Z := Z.of_nat (length (filter (fun l => search (p_re ws_carriage_return) l) ls)).
Definition ws_final (ls : list line) : list finding :=
  flag (cmp cr_op cr_threshold (cr_count ls)) (mkf W 0 "Carriage returns present in file").

(* ---- LineLengthValidator, TemplateSpaceValidator, CatchWithoutClosingTryBrace, TypoChecker ---- *)
Definition expanded_length (l : line) : Z := Z.of_nat (length (expand_tabs length_tab length_tab_expansion l)).
Definition length_line (n : Z) (l : line) : list finding :=
  flag (cmp line_length_op (expanded_length l) line_length_limit) (mkf "tooLongLines" n "").
Definition template_line (n : Z) (l : line) : list finding :=
  flag (search (p_re template_pat) l) (mkf "templateFollowedBySpace" n "Template followed by space").
Definition catch_line (n : Z) (l : line) : list finding :=
  flag (search (p_re catch_pat) l)
       (mkf "catchAndClosingTryBraceOnSeparateLines" n "catch and closing try brace must be on same line").
Definition typo_line (n : Z) (l : line) : list finding :=
  flat_map (fun p => flag (search (p_re p) l) (mkf "nameTypo" n (p_id p))) typo_table.

Definition per_line (n : Z) (l : line) : list finding :=
  ws_line n l ++ length_line n l ++ template_line n l ++ catch_line n l ++ typo_line n l.

Fixpoint lines_from (n : Z) (ls : list line) : list finding :=
  match ls with [] => [] | l :: r => per_line n l ++ lines_from (n + 1) r end.

(* ---- HeaderParser.parse_file: consecutive blank lines, blank line before the last line ----
   The error text is pprev + prev + temp; pprev is still None at line 2, so a report there is a TypeError (crash). *)
Definition is_blank (l : line) : bool := match_prefix (p_re empty_line_pat) l.
Definition crash_finding (n : Z) : finding := mkf "crash" n "TypeError".

Fixpoint consec (prev_blank : bool) (n : Z) (ls : list line) : list finding :=
  match ls with
  | [] => []
  | l :: r => let b := is_blank l in
              flag (b && prev_blank) (if n =? 2 then crash_finding n else mkf "consecutiveEmpty" n "") ++ consec b (n + 1) r
  end.

Definition second_last (ls : list line) : option line := match rev ls with _ :: p :: _ => Some p | _ => None end.
(* `if prev and not prev.strip()`: prev (tabs expanded) is non-empty and consists of whitespace only *)
Definition near_end (ls : list line) : list finding :=
  match second_last ls with
  | Some p => let p' := expand_tabs hp_tab hp_tab_expansion p in
              flag (negb (is_nil p') && forallb is_space p')
                   (if (length ls =? 2)%nat then crash_finding (Z.of_nat (length ls) + 1)
                    else mkf "emptyNearEnd" (Z.of_nat (length ls) + 1) "")
  | None => []
  end.

(* ---- PragmaOnceValidator ---- *)
Definition P : string := "pragmaErrors".
Record pstate := mkps { got_pragma : option bool; got_license : bool; empty_no : Z; report_empty : option bool; inside : Z }.

Definition pragma_init (hdr : bool) : pstate :=
  mkps (if hdr then None else Some true) false 0 (if hdr then None else Some false) 0.

Definition pragma_step (st : pstate) (n : Z) (l : line) : pstate :=
  let st1 := if starts_with lic_open l then mkps (got_pragma st) true (empty_no st) (report_empty st) 1 else st in
  if inside st1 =? 1 then
    (if contains lic_close l then mkps (got_pragma st1) (got_license st1) (empty_no st1) (report_empty st1) 2 else st1)
  else if inside st1 =? 2 then mkps (got_pragma st1) (got_license st1) (empty_no st1) (report_empty st1) 3
  else
    let re1 := if starts_with pp_include l
               then match report_empty st1 with None => Some (cmp empty_after_op empty_after_bound (empty_no st1)) | x => x end
               else report_empty st1 in
    let re2 := if starts_with pp_hash l && (match got_pragma st1 with None => false | Some _ => true end)
               then match re1 with None => Some false | x => x end else re1 in
    let en := match got_pragma st1 with Some true => if is_nil l then n else empty_no st1 | _ => empty_no st1 end in
    let gp := match got_pragma st1 with None => Some (list_eqb l pragma_once) | x => x end in
    mkps gp (got_license st1) en re2 (inside st1).

Fixpoint pragma_run (st : pstate) (n : Z) (ls : list line) : pstate :=
  match ls with [] => st | l :: r => pragma_run (pragma_step st n l) (n + 1) r end.

Definition pragma_final (st : pstate) : list finding :=
  flag (negb (got_license st)) (mkf P 0 "Missing license info")
  ++ flag (match got_pragma st with Some true => false | _ => true end) (mkf P 0 "Missing `#pragma once`")
  ++ flag (match report_empty st with Some true => true | _ => false end) (mkf P (empty_no st) "Empty line after `#pragma once`").

Definition pragma_check (hdr : bool) (ls : list line) : list finding := pragma_final (pragma_run (pragma_init hdr) 1 ls).

(* ---- RegionValidator (pattern "//" group(anything) "region", pinned: leftmost "//", greedy up to the last "region") ---- *)
Definition R : string := "regionValidator".
Definition region_word : list Z := [114; 101; 103; 105; 111; 110].
Definition region_prefix (l : line) : option (list Z) :=
  match find_sub [47; 47] l with
  | None => None
  | Some (_, rest) => find_last_sub region_word rest
  end.

Inductive region_kind := ROpen | REnd | RInvalid.
Definition region_kind_of (l : line) : option region_kind :=
  match region_prefix l with
  | None => None
  | Some pfx => if list_eqb pfx region_open_prefix then Some ROpen
                else if list_eqb pfx region_end_prefix then Some REnd else Some RInvalid
  end.

Record rstate := mkrs {
  r_counter : Z; r_prev : Z (* previous_region_line_number *); r_first : Z (* first_before_nested_line_number, 0 = unset *);
  r_errors : list finding (* deferred *); r_now : list finding (* reported immediately *) }.

Definition region_step (st : rstate) (n : Z) (l : line) : rstate :=
  match region_kind_of l with
  | None => st
  | Some ROpen =>
      let nested := cmp region_nested_op (r_counter st) region_nested_bound in
      let first := if nested then (if r_first st =? 0 then r_prev st else r_first st) else r_first st in
      let errs := if nested then r_errors st ++ [mkf R n "nested region"] else r_errors st in
      mkrs (r_counter st + 1) n first errs (r_now st)
  | Some REnd =>
      let errs := if cmp region_orphan_op (r_counter st) region_orphan_bound
                  then r_errors st ++ [mkf R n "endregion without corresponding region"] else r_errors st in
      mkrs (r_counter st - 1) (r_prev st) (r_first st) errs (r_now st)
  | Some RInvalid => mkrs (r_counter st) (r_prev st) (r_first st) (r_errors st) (r_now st ++ [mkf R n "invalid region"])
  end.

Fixpoint region_run (st : rstate) (n : Z) (ls : list line) : rstate :=
  match ls with [] => st | l :: r => region_run (region_step st n l) (n + 1) r end.

Definition region_final (st : rstate) : list finding :=
  r_now st ++
  (if cmp region_final_op (r_counter st) region_final_bound
   then [mkf R (if r_first st =? 0 then r_prev st else r_first st) "non-closed region (probable location)"]
   else r_errors st).

Definition region_check (ls : list line) : list finding := region_final (region_run (mkrs 0 0 0 [] []) 1 ls).

(* ---- one file, all modelled validators ---- *)
Definition lint_file (hdr : bool) (ls : list line) : list finding :=
  lines_from 1 ls ++ ws_final ls ++ pragma_check hdr ls ++ region_check ls ++ consec false 1 ls ++ near_end ls.

(* ---- exit status: ConReporter.suite adds len(errors) per suite, main() ends with os.sys.exit(total_failures); the
   process status the shell sees ($? in lint_cpp.sh, then `& 0xFF` once more) is the low byte ---- *)
Definition total_failures (suites : list Z) : Z := fold_left (fun acc k => ev2 total_acc_op acc k) suites total_initial.
Definition exit_status (total : Z) : Z := total mod 256.

(* ---- catalogue edits ---- *)
Definition insert_at {A} (k : nat) (w l : list A) : list A := firstn k l ++ w ++ skipn k l.
Definition delete_at {A} (k len : nat) (l : list A) : list A := firstn k l ++ skipn (k + len) l.
(* insert word w at column k of line i (0-based) / remove len code points there *)
Definition seed_word (i k : nat) (w : line) (f : list line) : list line := update_nth i (insert_at k w) f.
Definition unseed_word (i k : nat) (w : line) (f : list line) : list line := update_nth i (delete_at k (length w)) f.
(* insert a whole line before line i / delete line i *)
Definition seed_line (i : nat) (l : line) (f : list line) : list line := insert_at i [l] f.
Definition unseed_line (i : nat) (f : list line) : list line := delete_at i 1 f.
