(* Proofs about Lint/LineRules.v.  Lemmas that mention a regenerated constant or operator (Gen/LintPatterns.v) are proved by
   unfolding it: a property-breaking change of that constant in /repo breaks the proof here. *)
From Coq Require Import Lia ZifyBool.
From Symv Require Import Lint.Regex Lint.RegexProofs Base.PyOps Gen.LintPatterns Lint.LineRules.
Open Scope Z_scope.

Lemma In_flag b f g : In g (flag b f) <-> b = true /\ g = f.
Proof.
  unfold flag. destruct b; simpl; split.
  - intros [H | []]; auto.
  - intros [_ ->]; auto.
  - intros [].
  - intros [H _]; discriminate.
Qed.

Lemma flag_true f : In f (flag true f).
Proof. simpl; auto. Qed.

(* ---- line numbers ---- *)
Lemma lines_from_app n l1 l2 : lines_from n (l1 ++ l2) = lines_from n l1 ++ lines_from (n + Z.of_nat (length l1)) l2.
Proof.
  revert n. induction l1 as [| x l1 IH]; intro n.
  - simpl. replace (n + 0) with n by lia. reflexivity.
  - cbn [app lines_from length]. rewrite IH, <- app_assoc.
    replace (n + 1 + Z.of_nat (length l1)) with (n + Z.of_nat (S (length l1))) by lia. reflexivity.
Qed.

Lemma lines_from_at f n l1 x l2 :
  In f (per_line (n + Z.of_nat (length l1)) x) -> In f (lines_from n (l1 ++ x :: l2)).
Proof. intro H. rewrite lines_from_app. simpl. apply in_or_app. right. apply in_or_app. left. exact H. Qed.

Lemma lint_file_lines hdr ls f : In f (lines_from 1 ls) -> In f (lint_file hdr ls).
Proof. intro H. unfold lint_file. apply in_or_app. left. exact H. Qed.
Lemma lint_file_ws_final hdr ls f : In f (ws_final ls) -> In f (lint_file hdr ls).
Proof. intro H. unfold lint_file. apply in_or_app. right. apply in_or_app. left. exact H. Qed.
Lemma lint_file_pragma hdr ls f : In f (pragma_check hdr ls) -> In f (lint_file hdr ls).
Proof. intro H. unfold lint_file. do 2 (apply in_or_app; right). apply in_or_app. left. exact H. Qed.
Lemma lint_file_region hdr ls f : In f (region_check ls) -> In f (lint_file hdr ls).
Proof. intro H. unfold lint_file. do 3 (apply in_or_app; right). apply in_or_app. left. exact H. Qed.
Lemma lint_file_consec hdr ls f : In f (consec false 1 ls) -> In f (lint_file hdr ls).
Proof. intro H. unfold lint_file. do 4 (apply in_or_app; right). apply in_or_app. left. exact H. Qed.
Lemma lint_file_near_end hdr ls f : In f (near_end ls) -> In f (lint_file hdr ls).
Proof. intro H. unfold lint_file. do 5 (apply in_or_app; right). exact H. Qed.

(* a finding of line x at position |l1| + 1 of the file *)
Lemma lint_file_at hdr f l1 x l2 :
  In f (per_line (Z.of_nat (length l1) + 1) x) -> In f (lint_file hdr (l1 ++ x :: l2)).
Proof. intro H. apply lint_file_lines. apply lines_from_at. replace (1 + Z.of_nat (length l1)) with (Z.of_nat (length l1) + 1) by lia. exact H. Qed.

Lemma per_line_ws n l f : In f (ws_line n l) -> In f (per_line n l).
Proof. intro H. unfold per_line. apply in_or_app. left. exact H. Qed.
Lemma per_line_length n l f : In f (length_line n l) -> In f (per_line n l).
Proof. intro H. unfold per_line. apply in_or_app. right. apply in_or_app. left. exact H. Qed.
Lemma per_line_template n l f : In f (template_line n l) -> In f (per_line n l).
Proof. intro H. unfold per_line. do 2 (apply in_or_app; right). apply in_or_app. left. exact H. Qed.
Lemma per_line_catch n l f : In f (catch_line n l) -> In f (per_line n l).
Proof. intro H. unfold per_line. do 3 (apply in_or_app; right). apply in_or_app. left. exact H. Qed.
Lemma per_line_typo n l f : In f (typo_line n l) -> In f (per_line n l).
Proof. intro H. unfold per_line. do 4 (apply in_or_app; right). exact H. Qed.

(* ---- stateless validators ---- *)
Lemma typo_reports n l p : In p typo_table -> search (p_re p) l = true -> In (mkf "nameTypo" n (p_id p)) (typo_line n l).
Proof. intros Hp Hs. unfold typo_line. apply in_flat_map. exists p. split; [exact Hp |]. rewrite Hs. apply flag_true. Qed.

Lemma template_reports n l : search (p_re template_pat) l = true -> In (mkf "templateFollowedBySpace" n "Template followed by space") (template_line n l).
Proof. intro H. unfold template_line. rewrite H. apply flag_true. Qed.

Lemma catch_reports n l :
  search (p_re catch_pat) l = true ->
  In (mkf "catchAndClosingTryBraceOnSeparateLines" n "catch and closing try brace must be on same line") (catch_line n l).
Proof. intro H. unfold catch_line. rewrite H. apply flag_true. Qed.

Lemma ws_trailing_reports n l : search (p_re ws_whitespaces) l = true -> In (mkf W n "Whitespace at line ending") (ws_line n l).
Proof. intro H. unfold ws_line. rewrite H. apply in_or_app. left. apply flag_true. Qed.
Lemma ws_spaces_start_reports n l : match_prefix (p_re ws_spaces_start) l = true -> In (mkf W n "Spaces at beginning of a line") (ws_line n l).
Proof. intro H. unfold ws_line. rewrite H. apply in_or_app. right. apply in_or_app. left. apply flag_true. Qed.
Lemma ws_tabs_start_reports n l : match_prefix (p_re ws_tabs_start) l = true -> In (mkf W n "Tabs in empty line") (ws_line n l).
Proof. intro H. unfold ws_line. rewrite H. do 2 (apply in_or_app; right). apply in_or_app. left. apply flag_true. Qed.
Lemma ws_space_operator_reports n l : search (p_re ws_space_operator) l = true -> In (mkf W n "Space after operator") (ws_line n l).
Proof. intro H. unfold ws_line. rewrite H. do 3 (apply in_or_app; right). apply in_or_app. left. apply flag_true. Qed.
Lemma ws_tab_inside_reports n l : search (p_re ws_tab_inside) l = true -> In (mkf W n "Tab present inside the text") (ws_line n l).
Proof. intro H. unfold ws_line. rewrite H. do 4 (apply in_or_app; right). apply in_or_app. left. apply flag_true. Qed.

(* strip_comments_and_strings is the identity on lines without "/", double and single quotes *)
Definition no_strip_chars (l : line) : bool := forallb (fun c => negb ((c =? 47) || (c =? 34) || (c =? 39))) l.

Lemma find_sub_absent a rest s : (forall x, In x s -> x <> a) -> find_sub (a :: rest) s = None.
Proof.
  induction s as [| c s IH]; intro H; simpl.
  - reflexivity.
  - assert (E : (a =? c) = false) by (apply Z.eqb_neq; intro E; apply (H c); simpl; auto).
    rewrite E. simpl. rewrite IH; [reflexivity |]. intros x Hx. apply H. simpl. auto.
Qed.

Lemma sub_delim_absent fuel op cl s : find_sub op s = None -> sub_delim fuel op cl s = s.
Proof. intro H. destruct fuel; simpl; [reflexivity | rewrite H; reflexivity]. Qed.

Lemma strip_cs_id l : no_strip_chars l = true -> strip_cs l = l.
Proof.
  intro H. unfold no_strip_chars in H. rewrite forallb_forall in H.
  assert (A : forall a, a = 47 \/ a = 34 \/ a = 39 -> forall x, In x l -> x <> a).
  { intros a Ha x Hx E. specialize (H x Hx). subst x. destruct Ha as [-> | [-> | ->]]; discriminate. }
  unfold strip_cs, cut_line_comment.
  rewrite (find_sub_absent 47 [47] l) by (apply A; auto).
  rewrite (sub_delim_absent _ [47; 42] [42; 47] l) by (apply find_sub_absent; apply A; auto).
  rewrite (sub_delim_absent _ [34] [34] l) by (apply find_sub_absent; apply A; auto).
  rewrite (sub_delim_absent _ [39] [39] l) by (apply find_sub_absent; apply A; auto).
  reflexivity.
Qed.

Lemma ws_spaces_middle_reports n l :
  no_strip_chars l = true -> search (p_re ws_spaces_middle) l = true -> In (mkf W n "Spaces in the middle") (ws_line n l).
Proof.
  intros Hn H. unfold ws_line. rewrite H, (strip_cs_id l Hn), H. cbn [orb].
  do 5 (apply in_or_app; right). apply in_or_app. left. apply flag_true.
Qed.

(* no match of r starts inside pre (rest follows pre) *)
Fixpoint no_start (p : option Z) (r : regex) (pre rest : list Z) : bool :=
  match pre with
  | [] => true
  | c :: pre' => negb (prefix_match p r (pre ++ rest)) && no_start (Some c) r pre' rest
  end.

Definition last_or (p : option Z) (l : list Z) : option Z := match last_opt l with Some c => Some c | None => p end.

Lemma last_or_cons p c l : last_or p (c :: l) = last_or (Some c) l.
Proof.
  unfold last_or, last_opt. simpl. destruct (rev l) as [| x r] eqn:E; simpl; reflexivity.
Qed.

Lemma last_or_None pre : last_or None pre = hd_error (rev pre).
Proof. unfold last_or, last_opt. destruct (hd_error (rev pre)); reflexivity. Qed.

Lemma first_match_skip pre : forall p r rest,
  no_start p r pre rest = true -> first_match p r (pre ++ rest) = first_match (last_or p pre) r rest.
Proof.
  induction pre as [| c pre IH]; intros p r rest H.
  - reflexivity.
  - cbn [no_start] in H. apply andb_true_iff in H. destruct H as [H1 H2]. apply negb_true_iff in H1.
    change ((c :: pre) ++ rest) with (c :: pre ++ rest) in *. cbn [first_match]. rewrite H1.
    rewrite (IH (Some c) r rest H2). rewrite last_or_cons. reflexivity.
Qed.

Lemma firstn_app_exact {A} (w post : list A) : firstn (length w) (w ++ post) = w.
Proof. induction w; simpl; [destruct post; reflexivity | f_equal; assumption]. Qed.

Lemma ws_comma_reports n pre w post k :
  no_strip_chars (pre ++ w ++ post) = true ->
  no_start None (p_re ws_comma) pre (w ++ post) = true ->
  prefix_match (last_or None pre) (p_re ws_comma) (w ++ post) = true ->
  fixed_len (p_re ws_comma) = Some k -> length w = k -> list_eqb w comma_exempt = false ->
  In (mkf W n "Comma should be followed by a space") (ws_line n (pre ++ w ++ post)).
Proof.
  intros Hn Hs Hp Hk Hl He.
  assert (F : first_match None (p_re ws_comma) (pre ++ w ++ post) = Some (w ++ post)).
  { rewrite (first_match_skip pre None _ _ Hs). destruct (w ++ post) eqn:E; cbn [first_match]; rewrite Hp; reflexivity. }
  assert (S : search (p_re ws_comma) (pre ++ w ++ post) = true).
  { apply search_spec. pose proof Hp as Hp2. rewrite last_or_None in Hp2.
    apply (prefix_match_spec (w ++ post) (p_re ws_comma) (rev pre)) in Hp2.
    destruct Hp2 as (w' & post' & E & HM). exists pre, w', post'. rewrite <- E. auto. }
  unfold ws_line. rewrite S, orb_true_r, (strip_cs_id _ Hn). unfold comma_hit. rewrite F, Hk, <- Hl, firstn_app_exact, He.
  do 5 (apply in_or_app; right). apply in_or_app. right. apply flag_true.
Qed.

(* ---- carriage returns ---- *)
Lemma cr_reports ls l : In l ls -> search (p_re ws_carriage_return) l = true -> In (mkf W 0 "Carriage returns present in file") (ws_final ls).
Proof.
  intros Hin Hs. unfold ws_final.
  assert (C : 1 <= cr_count ls).
  { unfold cr_count. assert (In l (filter (fun l => search (p_re ws_carriage_return) l) ls)) by (apply filter_In; auto).
    destruct (filter _ ls); [contradiction | simpl; lia]. }
  assert (E : cmp cr_op cr_threshold (cr_count ls) = true) by (unfold cr_op, cr_threshold; simpl; lia).
  rewrite E. apply flag_true.
Qed.

(* ---- line length ---- *)
Lemma expand_tabs_length tab e l : (1 <= length e)%nat -> (length l <= length (expand_tabs tab e l))%nat.
Proof.
  intro He. induction l as [| c l IH]; simpl; [lia |]. rewrite app_length. destruct (c =? tab); simpl; lia.
Qed.

Lemma length_reports n l : line_length_limit <= Z.of_nat (length l) -> In (mkf "tooLongLines" n "") (length_line n l).
Proof.
  intro H. unfold length_line.
  assert (E : cmp line_length_op (expanded_length l) line_length_limit = true).
  { unfold expanded_length. pose proof (expand_tabs_length length_tab length_tab_expansion l) as X.
    assert (1 <= length length_tab_expansion)%nat by (unfold length_tab_expansion; simpl; lia).
    specialize (X H0). unfold line_length_op. simpl. lia. }
  rewrite E. apply flag_true.
Qed.

(* ---- consecutive blank lines ---- *)
Definition blank_after (pb : bool) (l : list line) : bool := match rev l with [] => pb | x :: _ => is_blank x end.

Lemma consec_app l1 : forall pb n rest,
  consec pb n (l1 ++ rest) = consec pb n l1 ++ consec (blank_after pb l1) (n + Z.of_nat (length l1)) rest.
Proof.
  induction l1 as [| x l1 IH]; intros pb n rest.
  - simpl. f_equal. lia.
  - cbn [app consec length]. rewrite IH, <- app_assoc. f_equal.
    replace (blank_after (is_blank x) l1) with (blank_after pb (x :: l1))
      by (unfold blank_after; simpl; destruct (rev l1) eqn:E; simpl; reflexivity).
    replace (n + 1 + Z.of_nat (length l1)) with (n + Z.of_nat (S (length l1))) by lia. reflexivity.
Qed.

Lemma consec_reports l1 a b l2 :
  is_blank a = true -> is_blank b = true -> (1 <= length l1)%nat ->
  In (mkf "consecutiveEmpty" (Z.of_nat (length l1) + 2) "") (consec false 1 (l1 ++ a :: b :: l2)).
Proof.
  intros Ha Hb Hl. rewrite consec_app. apply in_or_app. right. cbn [consec]. rewrite Ha, Hb. cbn [andb].
  apply in_or_app. right. apply in_or_app. left.
  replace (1 + Z.of_nat (length l1) + 1 =? 2) with false by lia.
  replace (1 + Z.of_nat (length l1) + 1) with (Z.of_nat (length l1) + 2) by lia. apply flag_true.
Qed.

(* ---- blank line before the last line ---- *)
Lemma second_last_app l1 p last : second_last (l1 ++ [p; last]) = Some p.
Proof. unfold second_last. rewrite rev_app_distr. reflexivity. Qed.

Lemma expand_tabs_space l : forallb is_space l = true -> forallb is_space (expand_tabs hp_tab hp_tab_expansion l) = true.
Proof.
  induction l as [| c l IH]; simpl; intro H; [reflexivity |]. apply andb_true_iff in H. destruct H as [Hc Hl].
  rewrite forallb_app, (IH Hl), andb_true_r. destruct (c =? hp_tab); [reflexivity | simpl; rewrite Hc; reflexivity].
Qed.

Lemma expand_tabs_nonnil l : l <> [] -> is_nil (expand_tabs hp_tab hp_tab_expansion l) = false.
Proof. destruct l as [| c l]; [congruence |]. intros _. simpl. destruct (c =? hp_tab); reflexivity. Qed.

Lemma near_end_reports l1 p last :
  p <> [] -> forallb is_space p = true -> (1 <= length l1)%nat ->
  In (mkf "emptyNearEnd" (Z.of_nat (length l1) + 3) "") (near_end (l1 ++ [p; last])).
Proof.
  intros Hp Hs Hl. unfold near_end. rewrite second_last_app. cbv zeta. rewrite (expand_tabs_nonnil p Hp), (expand_tabs_space p Hs).
  cbn [negb andb]. rewrite app_length. simpl length.
  replace ((length l1 + 2 =? 2)%nat) with false by (symmetry; apply Nat.eqb_neq; lia).
  replace (Z.of_nat (length l1 + 2) + 1) with (Z.of_nat (length l1) + 3) by lia. apply flag_true.
Qed.

(* the rule as coded never fires for a line that is empty *)
Lemma near_end_misses_empty_line l1 last : near_end (l1 ++ [[]; last]) = [].
Proof. unfold near_end. rewrite second_last_app. reflexivity. Qed.

(* ---- pragma once / licence ---- *)
Lemma pragma_license_stays st n ls :
  (forall l, In l ls -> starts_with lic_open l = false) -> got_license (pragma_run st n ls) = got_license st.
Proof.
  revert st n. induction ls as [| l ls IH]; intros st n H; simpl; [reflexivity |].
  rewrite IH by (intros x Hx; apply H; simpl; auto).
  unfold pragma_step. rewrite (H l) by (simpl; auto).
  destruct (inside st =? 1); [destruct (contains lic_close l); reflexivity |].
  destruct (inside st =? 2); reflexivity.
Qed.

Lemma missing_license_reports hdr ls :
  (forall l, In l ls -> starts_with lic_open l = false) -> In (mkf P 0 "Missing license info") (pragma_check hdr ls).
Proof.
  intro H. unfold pragma_check, pragma_final. rewrite (pragma_license_stays _ _ _ H).
  apply in_or_app. left. destruct hdr; apply flag_true.
Qed.

Lemma pragma_not_true st n ls :
  got_pragma st <> Some true -> (forall l, In l ls -> list_eqb l pragma_once = false) -> got_pragma (pragma_run st n ls) <> Some true.
Proof.
  revert st n. induction ls as [| l ls IH]; intros st n Hs H; simpl; [exact Hs |].
  apply IH; [| intros x Hx; apply H; simpl; auto].
  unfold pragma_step.
  destruct (starts_with lic_open l); cbn [inside got_pragma].
  - cbn. destruct (contains lic_close l); exact Hs.
  - destruct (inside st =? 1); [destruct (contains lic_close l); exact Hs |].
    destruct (inside st =? 2); [exact Hs |]. cbn [got_pragma].
    destruct (got_pragma st) as [[|] |]; try congruence. rewrite (H l) by (simpl; auto). congruence.
Qed.

Lemma missing_pragma_reports ls :
  (forall l, In l ls -> list_eqb l pragma_once = false) -> In (mkf P 0 "Missing `#pragma once`") (pragma_check true ls).
Proof.
  intro H. unfold pragma_check, pragma_final.
  pose proof (pragma_not_true (pragma_init true) 1 ls) as X. simpl in X. specialize (X ltac:(congruence) H).
  apply in_or_app. right. apply in_or_app. left.
  destruct (got_pragma (pragma_run (pragma_init true) 1 ls)) as [[|] |]; try congruence; apply flag_true.
Qed.

(* the third Pragmas message: an empty line between `#pragma once` and the first #include *)
Lemma starts_with_trans a b c : starts_with a b = true -> starts_with b c = true -> starts_with a c = true.
Proof.
  revert b c. induction a as [| x a IH]; intros b c H1 H2; [reflexivity |].
  destruct b as [| y b]; [discriminate |]. destruct c as [| z c]; [discriminate |]. simpl in *.
  apply andb_true_iff in H1. apply andb_true_iff in H2. destruct H1 as [E1 R1], H2 as [E2 R2].
  apply andb_true_iff. split; [lia | eapply IH; eauto].
Qed.

Lemma list_eqb_eq a : forall b, list_eqb a b = true -> a = b.
Proof.
  induction a as [| x a IH]; intros [| y b] H; simpl in H; try discriminate; [reflexivity |].
  apply andb_true_iff in H. destruct H as [E R]. f_equal; [lia | apply IH; exact R].
Qed.

Lemma pragma_run_app l1 : forall st n rest, pragma_run st n (l1 ++ rest) = pragma_run (pragma_run st n l1) (n + Z.of_nat (length l1)) rest.
Proof.
  induction l1 as [| x l1 IH]; intros st n rest; simpl.
  - f_equal. lia.
  - rewrite IH. f_equal. lia.
Qed.

(* the part of check() after the comment handling *)
Definition pragma_body (st : pstate) (n : Z) (l : line) : pstate :=
  let re1 := if starts_with pp_include l
             then match report_empty st with None => Some (cmp empty_after_op empty_after_bound (empty_no st)) | x => x end
             else report_empty st in
  let re2 := if starts_with pp_hash l && (match got_pragma st with None => false | Some _ => true end)
             then match re1 with None => Some false | x => x end else re1 in
  let en := match got_pragma st with Some true => if is_nil l then n else empty_no st | _ => empty_no st end in
  let gp := match got_pragma st with None => Some (list_eqb l pragma_once) | x => x end in
  mkps gp (got_license st) en re2 (inside st).

Lemma pragma_step_body st n l :
  starts_with lic_open l = false -> inside st <> 1 -> inside st <> 2 -> pragma_step st n l = pragma_body st n l.
Proof.
  intros H H1 H2. unfold pragma_step. rewrite H.
  replace (inside st =? 1) with false by lia. replace (inside st =? 2) with false by lia. reflexivity.
Qed.

Lemma include_not_licence l : starts_with pp_include l = true -> starts_with lic_open l = false /\ is_nil l = false.
Proof.
  destruct l as [| c l]; [discriminate |]. unfold pp_include, lic_open. cbn [starts_with is_nil]. intro H.
  apply andb_true_iff in H. destruct H as [E _]. split; [| reflexivity].
  destruct (47 =? c) eqn:X; [lia | reflexivity].
Qed.

(* once the verdict is settled it stays; the recorded line number is that of the last empty line seen, so it only grows *)
Lemma pragma_step_keeps st n l :
  report_empty st = Some true ->
  report_empty (pragma_step st n l) = Some true /\ (empty_no (pragma_step st n l) = empty_no st \/ empty_no (pragma_step st n l) = n).
Proof.
  intro H. unfold pragma_step.
  set (st1 := if starts_with lic_open l then mkps (got_pragma st) true (empty_no st) (report_empty st) 1 else st).
  assert (J : report_empty st1 = Some true /\ empty_no st1 = empty_no st).
  { unfold st1. destruct (starts_with lic_open l); simpl; auto. }
  destruct J as [J1 J2].
  destruct (inside st1 =? 1); [destruct (contains lic_close l); cbn [report_empty empty_no]; auto |].
  destruct (inside st1 =? 2); [cbn [report_empty empty_no]; auto |].
  cbn [report_empty empty_no]. rewrite J1, J2. split.
  - destruct (starts_with pp_include l), (starts_with pp_hash l && match got_pragma st1 with None => false | Some _ => true end); reflexivity.
  - destruct (got_pragma st1) as [[|] |]; auto. destruct (is_nil l); auto.
Qed.

Lemma pragma_run_keeps ls : forall st n m,
  report_empty st = Some true -> m <= empty_no st -> m <= n ->
  report_empty (pragma_run st n ls) = Some true /\ m <= empty_no (pragma_run st n ls).
Proof.
  induction ls as [| l ls IH]; intros st n m H He Hn; simpl; [auto |].
  destruct (pragma_step_keeps st n l H) as [K1 K2]. apply IH; [exact K1 | destruct K2 as [-> | ->]; lia | lia].
Qed.

Lemma pragma_empty_line_reports l1 inc l2 :
  got_pragma (pragma_run (pragma_init true) 1 l1) = None -> report_empty (pragma_run (pragma_init true) 1 l1) = None ->
  inside (pragma_run (pragma_init true) 1 l1) <> 1 -> inside (pragma_run (pragma_init true) 1 l1) <> 2 ->
  starts_with pp_include inc = true ->
  exists n, Z.of_nat (length l1) + 2 <= n
            /\ In (mkf P n "Empty line after `#pragma once`") (pragma_check true (l1 ++ pragma_once :: [] :: inc :: l2)).
Proof.
  intros Hg Hr H1 H2 Hi. unfold pragma_check. rewrite pragma_run_app.
  destruct (pragma_run (pragma_init true) 1 l1) as [gp gl en re ins]. cbn [got_pragma report_empty inside] in *. subst gp re.
  set (n0 := 1 + Z.of_nat (length l1)).
  destruct (include_not_licence inc Hi) as [Li Ni].
  cbn [pragma_run].
  rewrite (pragma_step_body _ n0 pragma_once) by (try reflexivity; assumption).
  assert (S1 : pragma_body (mkps None gl en None ins) n0 pragma_once = mkps (Some true) gl en None ins) by reflexivity.
  rewrite S1.
  rewrite (pragma_step_body _ (n0 + 1) []) by (try reflexivity; assumption).
  assert (S2 : pragma_body (mkps (Some true) gl en None ins) (n0 + 1) [] = mkps (Some true) gl (n0 + 1) None ins) by reflexivity.
  rewrite S2.
  rewrite (pragma_step_body _ (n0 + 1 + 1) inc) by assumption.
  assert (S3 : report_empty (pragma_body (mkps (Some true) gl (n0 + 1) None ins) (n0 + 1 + 1) inc) = Some true
               /\ empty_no (pragma_body (mkps (Some true) gl (n0 + 1) None ins) (n0 + 1 + 1) inc) = n0 + 1).
  { unfold pragma_body. cbn [report_empty got_pragma empty_no]. rewrite Hi, Ni.
    assert (C : cmp empty_after_op empty_after_bound (n0 + 1) = true) by (unfold empty_after_op, empty_after_bound, n0; cbn [cmp]; lia).
    rewrite C. split; [destruct (starts_with pp_hash inc && true); reflexivity | reflexivity]. }
  destruct S3 as [S3a S3b].
  destruct (pragma_run_keeps l2 _ (n0 + 1 + 1 + 1) (n0 + 1) S3a ltac:(lia) ltac:(lia)) as [K1 K2].
  exists (empty_no (pragma_run (pragma_body (mkps (Some true) gl (n0 + 1) None ins) (n0 + 1 + 1) inc) (n0 + 1 + 1 + 1) l2)).
  split; [subst n0; lia |].
  unfold pragma_final. rewrite K1. do 2 (apply in_or_app; right). apply flag_true.
Qed.

(* ---- region pairing ---- *)
Definition is_kind (k : region_kind) (l : line) : bool :=
  match region_kind_of l, k with
  | Some ROpen, ROpen | Some REnd, REnd | Some RInvalid, RInvalid => true
  | _, _ => false
  end.
Definition count_kind (k : region_kind) (ls : list line) : Z := Z.of_nat (length (filter (is_kind k) ls)).

Lemma region_counter ls : forall st n,
  r_counter (region_run st n ls) = r_counter st + count_kind ROpen ls - count_kind REnd ls.
Proof.
  induction ls as [| l ls IH]; intros st n; simpl.
  - unfold count_kind. simpl. lia.
  - rewrite IH. unfold region_step, count_kind, is_kind. simpl filter.
    destruct (region_kind_of l) as [[| |] |]; simpl length; cbn [r_counter]; lia.
Qed.

Lemma region_unclosed_reports ls :
  count_kind REnd ls < count_kind ROpen ls ->
  exists n, In (mkf R n "non-closed region (probable location)") (region_check ls).
Proof.
  intro H. unfold region_check, region_final.
  set (st := region_run (mkrs 0 0 0 [] []) 1 ls).
  assert (C : 0 < r_counter st) by (unfold st; rewrite region_counter; simpl; lia).
  assert (E : cmp region_final_op (r_counter st) region_final_bound = true) by (unfold region_final_op, region_final_bound; simpl; lia).
  rewrite E. eexists. apply in_or_app. right. left. reflexivity.
Qed.

Lemma region_now_mono ls : forall st n f, In f (r_now st) -> In f (r_now (region_run st n ls)).
Proof.
  induction ls as [| l ls IH]; intros st n f H; simpl; [exact H |].
  apply IH. unfold region_step. destruct (region_kind_of l) as [[| |] |]; cbn [r_now]; try exact H.
  apply in_or_app. left. exact H.
Qed.

Lemma region_run_app l1 : forall st n rest, region_run st n (l1 ++ rest) = region_run (region_run st n l1) (n + Z.of_nat (length l1)) rest.
Proof.
  induction l1 as [| x l1 IH]; intros st n rest; simpl.
  - f_equal. lia.
  - rewrite IH. f_equal. lia.
Qed.

Lemma region_invalid_reports l1 x l2 :
  region_kind_of x = Some RInvalid -> In (mkf R (Z.of_nat (length l1) + 1) "invalid region") (region_check (l1 ++ x :: l2)).
Proof.
  intro H. unfold region_check, region_final. apply in_or_app. left.
  rewrite region_run_app. cbn [region_run]. apply region_now_mono. unfold region_step. rewrite H. cbn [r_now].
  apply in_or_app. right. replace (1 + Z.of_nat (length l1)) with (Z.of_nat (length l1) + 1) by lia. left. reflexivity.
Qed.

(* deleting one line: counts *)
Lemma count_kind_app k l1 l2 : count_kind k (l1 ++ l2) = count_kind k l1 + count_kind k l2.
Proof. unfold count_kind. rewrite filter_app, app_length. lia. Qed.

Lemma count_kind_delete k l1 x l2 : is_kind k x = true -> count_kind k (l1 ++ l2) = count_kind k (l1 ++ x :: l2) - 1.
Proof.
  intro H. rewrite !count_kind_app. unfold count_kind at 4. simpl filter. rewrite H. simpl length. unfold count_kind. lia.
Qed.

Lemma count_kind_delete_other k l1 x l2 : is_kind k x = false -> count_kind k (l1 ++ l2) = count_kind k (l1 ++ x :: l2).
Proof.
  intro H. rewrite !count_kind_app. unfold count_kind at 4. simpl filter. rewrite H. reflexivity.
Qed.

(* ---- catalogue edits are undone by their inverses ---- *)
Lemma delete_insert {A} (k : nat) (w l : list A) : (k <= length l)%nat -> delete_at k (length w) (insert_at k w l) = l.
Proof.
  intro H. unfold delete_at, insert_at.
  assert (L : length (firstn k l) = k) by (apply firstn_length_le; exact H).
  rewrite firstn_app, L, Nat.sub_diag, firstn_O, app_nil_r, firstn_firstn, Nat.min_id.
  rewrite skipn_app, L.
  replace (skipn (k + length w) (firstn k l)) with (@nil A) by (symmetry; apply skipn_all2; lia).
  replace (k + length w - k)%nat with (length w) by lia.
  rewrite skipn_app, skipn_all, Nat.sub_diag. simpl. apply firstn_skipn.
Qed.

Lemma update_nth_twice {A} (g h : A -> A) i : forall (f : list A), update_nth i g (update_nth i h f) = update_nth i (fun x => g (h x)) f.
Proof. induction i as [| i IH]; intros [| x f]; simpl; try reflexivity. f_equal. apply IH. Qed.

Lemma update_nth_id {A} (g : A -> A) i : forall (f : list A) x, nth_error f i = Some x -> g x = x -> update_nth i g f = f.
Proof.
  induction i as [| i IH]; intros [| y f] x H E; simpl in *; try discriminate.
  - inversion H; subst. rewrite E. reflexivity.
  - f_equal. eapply IH; eauto.
Qed.

Lemma unseed_seed_word i k w f l : nth_error f i = Some l -> (k <= length l)%nat -> unseed_word i k w (seed_word i k w f) = f.
Proof.
  intros H Hk. unfold unseed_word, seed_word. rewrite update_nth_twice.
  apply (update_nth_id _ i f l H). apply delete_insert. exact Hk.
Qed.

Lemma unseed_seed_line i (l : line) f : (i <= length f)%nat -> unseed_line i (seed_line i l f) = f.
Proof. intro H. unfold unseed_line, seed_line. apply (delete_insert i [l] f H). Qed.

(* the seeded line really is line i + 1 with the word inserted *)
Lemma seed_word_shape i k w f l :
  nth_error f i = Some l -> seed_word i k w f = firstn i f ++ (firstn k l ++ w ++ skipn k l) :: skipn (S i) f.
Proof.
  revert f. induction i as [| i IH]; intros [| x f] H; simpl in *; try discriminate.
  - inversion H; subst. reflexivity.
  - unfold seed_word in *. simpl. f_equal. apply IH. exact H.
Qed.

(* ---- exit status ---- *)
Lemma total_failures_sum ks : total_failures ks = fold_left Z.add ks 0.
Proof. unfold total_failures, total_initial, total_acc_op. reflexivity. Qed.

Lemma fold_add_ge ks : forall acc, (forall k, In k ks -> 0 <= k) -> acc <= fold_left Z.add ks acc.
Proof.
  induction ks as [| k ks IH]; intros acc H; simpl; [lia |].
  assert (0 <= k) by (apply H; simpl; auto).
  specialize (IH (acc + k) (fun x Hx => H x (or_intror Hx))). lia.
Qed.

Lemma fold_add_in ks : forall acc k, (forall x, In x ks -> 0 <= x) -> In k ks -> acc + k <= fold_left Z.add ks acc.
Proof.
  induction ks as [| x ks IH]; intros acc k H Hin; simpl; [contradiction |].
  destruct Hin as [-> | Hin].
  - apply fold_add_ge. intros y Hy. apply H. simpl. auto.
  - assert (0 <= x) by (apply H; simpl; auto).
    specialize (IH (acc + x) k (fun y Hy => H y (or_intror Hy)) Hin). lia.
Qed.

Lemma exit_nonzero_lt256 t : 1 <= t < 256 -> exit_status t <> 0.
Proof. intro H. unfold exit_status. rewrite Z.mod_small by lia. lia. Qed.

(* ---- pattern-table entries: witness admissible between the neighbour classes listed in the entry ---- *)
Definition in_ctx (p : pat) (pre post : list Z) : bool :=
  existsb (fun k => cclass_eqb (fst k) (cls (last_opt pre)) && cclass_eqb (snd k) (cls (hd_error post))) (p_ctx p).

Lemma cclass_eqb_eq a b : cclass_eqb a b = true -> a = b.
Proof. destruct a, b; simpl; congruence. Qed.

Lemma pat_admissible p pre post :
  pat_ok p = true -> in_ctx p pre post = true ->
  admissible (p_re p) (p_wit p) (cls (last_opt pre)) (cls (hd_error post)) = true.
Proof.
  unfold pat_ok, in_ctx. intros Hok Hin. apply andb_true_iff in Hok. destruct Hok as [_ Hall].
  rewrite forallb_forall in Hall. apply existsb_exists in Hin. destruct Hin as (k & Hk & E).
  apply andb_true_iff in E. destruct E as [E1 E2]. apply cclass_eqb_eq in E1. apply cclass_eqb_eq in E2.
  rewrite <- E1, <- E2. apply Hall. exact Hk.
Qed.

Lemma pat_search p pre post : pat_ok p = true -> in_ctx p pre post = true -> search (p_re p) (pre ++ p_wit p ++ post) = true.
Proof. intros Hok Hin. apply search_intro_cls. apply pat_admissible; assumption. Qed.

Lemma pat_match_prefix p post : pat_ok p = true -> in_ctx p [] post = true -> match_prefix (p_re p) (p_wit p ++ post) = true.
Proof. intros Hok Hin. apply match_prefix_intro_cls. apply (pat_admissible p [] post Hok Hin). Qed.

Lemma pat_prefix_match p pre post :
  pat_ok p = true -> in_ctx p pre post = true -> prefix_match (hd_error (rev pre)) (p_re p) (p_wit p ++ post) = true.
Proof.
  intros Hok Hin. apply prefix_match_spec. exists (p_wit p), post. split; [reflexivity |]. apply run_spec.
  pose proof (pat_admissible p pre post Hok Hin) as A. unfold admissible, last_opt in A. rewrite <- A.
  apply run_cls; rewrite cls_rep; reflexivity.
Qed.

(* ---- a finding of the seeded line is a finding of the seeded file, at line i + 1 ---- *)
Lemma nth_error_firstn_length {A} (f : list A) i x : nth_error f i = Some x -> length (firstn i f) = i.
Proof.
  intro H. apply firstn_length_le. assert (i < length f)%nat by (apply nth_error_Some; congruence). lia.
Qed.

Lemma lint_file_at_eq hdr f l1 x l2 n :
  n = Z.of_nat (length l1) + 1 -> In f (per_line n x) -> In f (lint_file hdr (l1 ++ x :: l2)).
Proof. intros ->. apply lint_file_at. Qed.

Lemma seeded_word_at hdr f i k w l g :
  nth_error f i = Some l ->
  In g (per_line (Z.of_nat i + 1) (firstn k l ++ w ++ skipn k l)) -> In g (lint_file hdr (seed_word i k w f)).
Proof.
  intros H Hg. rewrite (seed_word_shape i k w f l H).
  apply (lint_file_at_eq hdr g (firstn i f) (firstn k l ++ w ++ skipn k l) (skipn (S i) f) (Z.of_nat i + 1)); [| exact Hg].
  f_equal. f_equal. symmetry. exact (nth_error_firstn_length f i l H).
Qed.

Lemma seed_line_shape i (x : line) f : seed_line i x f = firstn i f ++ x :: skipn i f.
Proof. reflexivity. Qed.

Lemma seeded_line_at hdr f i x g :
  (i <= length f)%nat -> In g (per_line (Z.of_nat i + 1) x) -> In g (lint_file hdr (seed_line i x f)).
Proof.
  intros H Hg. rewrite seed_line_shape.
  apply (lint_file_at_eq hdr g (firstn i f) x (skipn i f) (Z.of_nat i + 1)); [| exact Hg].
  f_equal. f_equal. symmetry. exact (firstn_length_le f H).
Qed.

Lemma is_kind_end_not_open x : is_kind REnd x = true -> is_kind ROpen x = false.
Proof. unfold is_kind. destruct (region_kind_of x) as [[| |] |]; congruence. Qed.

Lemma region_delete_end_reports l1 x l2 :
  is_kind REnd x = true -> count_kind ROpen (l1 ++ x :: l2) = count_kind REnd (l1 ++ x :: l2) ->
  exists n, In (mkf R n "non-closed region (probable location)") (region_check (l1 ++ l2)).
Proof.
  intros Hx Hb. apply region_unclosed_reports.
  rewrite (count_kind_delete REnd l1 x l2 Hx), (count_kind_delete_other ROpen l1 x l2 (is_kind_end_not_open x Hx)). lia.
Qed.

Lemma delete_at_shape {A} i (l1 : list A) x l2 : i = length l1 -> delete_at i 1 (l1 ++ x :: l2) = l1 ++ l2.
Proof.
  intros ->. unfold delete_at. rewrite firstn_app, Nat.sub_diag, firstn_all, firstn_O, app_nil_r.
  rewrite skipn_app. replace (skipn (length l1 + 1) l1) with (@nil A) by (symmetry; apply skipn_all2; lia).
  replace (length l1 + 1 - length l1)%nat with 1%nat by lia. reflexivity.
Qed.

Lemma seed_after_pragma (l1 : list line) inc l2 :
  seed_line (S (length l1)) [] (l1 ++ pragma_once :: inc :: l2) = l1 ++ pragma_once :: [] :: inc :: l2.
Proof.
  unfold seed_line, insert_at.
  replace (l1 ++ pragma_once :: inc :: l2) with ((l1 ++ [pragma_once]) ++ inc :: l2) by (rewrite <- app_assoc; reflexivity).
  assert (L : length (l1 ++ [pragma_once]) = S (length l1)) by (rewrite app_length; simpl; lia).
  rewrite <- L, firstn_app, firstn_all, Nat.sub_diag, firstn_O, app_nil_r.
  rewrite skipn_app, skipn_all, Nat.sub_diag. simpl. rewrite <- app_assoc. reflexivity.
Qed.
