(* More proofs about Lint/LineRules.v: what strip_comments_and_strings (strip_cs) does on a line whose text left of a
   position is "closed" (all quotes paired into non-empty literals without quotes inside, every "/" followed by something
   other than "/" and "*"), hence the two whitespace rules that look at the stripped line ("Spaces in the middle",
   "Comma should be followed by a space") for EVERY such line; and what it does on the shapes outside that class
   (an empty string literal, "//" inside a literal). *)
From Coq Require Import Lia ZifyBool.
From Symv Require Import Lint.Regex Lint.RegexProofs Base.PyOps Gen.LintPatterns Lint.LineRules Lint.LineRulesProofs.
Open Scope Z_scope.

(* ---- find_sub ---- *)
Lemma starts_with_split n : forall s, starts_with n s = true -> s = n ++ skipn (length n) s.
Proof.
  induction n as [| a n IH]; intros [| b s] H; simpl in *; try reflexivity; try discriminate.
  apply andb_true_iff in H. destruct H as [E H]. apply Z.eqb_eq in E. subst. f_equal. apply IH. exact H.
Qed.

Lemma find_sub_some needle : forall s b a, find_sub needle s = Some (b, a) -> s = b ++ needle ++ a.
Proof.
  induction s as [| c s IH]; intros b a H; cbn [find_sub] in H.
  - destruct (starts_with needle []) eqn:E; [| discriminate]. inversion H; subst. simpl. apply starts_with_split. exact E.
  - destruct (starts_with needle (c :: s)) eqn:E.
    + inversion H; subst. simpl. apply starts_with_split. exact E.
    + destruct (find_sub needle s) as [[b' a'] |] eqn:F; [| discriminate]. inversion H; subst.
      simpl. f_equal. apply IH. reflexivity.
Qed.

Lemma find_sub_len needle s b a : find_sub needle s = Some (b, a) -> (length a <= length s)%nat.
Proof. intro H. apply find_sub_some in H. subst s. rewrite !app_length. lia. Qed.

(* the fuel of sub_delim is irrelevant once it is at least the length of the text *)
Lemma sub_delim_fuel op cl : forall f1 f2 s, (length s <= f1)%nat -> (length s <= f2)%nat -> sub_delim f1 op cl s = sub_delim f2 op cl s.
Proof.
  induction f1 as [| f1 IH]; intros f2 s H1 H2.
  - destruct s; [| simpl in H1; lia]. destruct f2; cbn [sub_delim]; [reflexivity |].
    destruct (find_sub op []) as [[b r] |] eqn:F; [| reflexivity].
    pose proof (find_sub_len _ _ _ _ F) as L. destruct r; [reflexivity | simpl in L; lia].
  - destruct f2 as [| f2].
    + destruct s; [| simpl in H2; lia]. cbn [sub_delim].
      destruct (find_sub op []) as [[b r] |] eqn:F; [| reflexivity].
      pose proof (find_sub_len _ _ _ _ F) as L. destruct r; [reflexivity | simpl in L; lia].
    + cbn [sub_delim]. destruct (find_sub op s) as [[b r] |] eqn:F; [| reflexivity].
      destruct r as [| c r']; [reflexivity |].
      destruct (find_sub cl r') as [[x after] |] eqn:G; [| reflexivity].
      pose proof (find_sub_len _ _ _ _ F) as L1. pose proof (find_sub_len _ _ _ _ G) as L2. simpl in L1.
      rewrite (IH f2 after) by lia. reflexivity.
Qed.

(* a prefix in which the needle cannot start: the search moves past it *)
Definition shifts (needle a : list Z) : Prop :=
  forall rest, find_sub needle (a ++ rest) = match find_sub needle rest with Some (b, r) => Some (a ++ b, r) | None => None end.

Lemma shifts_nil needle : shifts needle [].
Proof. intro rest. simpl. destruct (find_sub needle rest) as [[b r] |]; reflexivity. Qed.

Lemma shifts_cons needle c a :
  (forall rest, starts_with needle (c :: a ++ rest) = false) -> shifts needle a -> shifts needle (c :: a).
Proof.
  intros H Ha rest. change ((c :: a) ++ rest) with (c :: a ++ rest). cbn [find_sub]. rewrite H, (Ha rest).
  destruct (find_sub needle rest) as [[b r] |]; reflexivity.
Qed.

Lemma shifts_app needle a b : shifts needle a -> shifts needle b -> shifts needle (a ++ b).
Proof.
  intros Ha Hb rest. rewrite <- app_assoc, (Ha (b ++ rest)), (Hb rest).
  destruct (find_sub needle rest) as [[x r] |]; [rewrite app_assoc |]; reflexivity.
Qed.

Lemma shifts_absent n0 t a : (forall x, In x a -> x <> n0) -> shifts (n0 :: t) a.
Proof.
  induction a as [| c a IH]; intro H; [apply shifts_nil |]. apply shifts_cons.
  - intro rest. cbn [starts_with]. replace (n0 =? c) with false; [reflexivity |].
    symmetry. apply Z.eqb_neq. intro E. apply (H c); simpl; auto.
  - apply IH. intros x Hx. apply H. simpl. auto.
Qed.

(* every "/" is followed, inside the text, by something other than "/" and "*" *)
Fixpoint slash_ok (a : list Z) : bool :=
  match a with
  | [] => true
  | c :: a' => (if c =? 47 then match a' with [] => false | d :: _ => negb (d =? 47) && negb (d =? 42) end else true) && slash_ok a'
  end.

Lemma shifts_slash d a : d = 47 \/ d = 42 -> slash_ok a = true -> shifts [47; d] a.
Proof.
  intro Hd. induction a as [| c a IH]; intro H; [apply shifts_nil |].
  cbn [slash_ok] in H. apply andb_true_iff in H. destruct H as [H1 H2]. apply shifts_cons; [| apply IH; exact H2].
  intro rest. cbn [starts_with]. destruct (c =? 47) eqn:E.
  - destruct a as [| d0 a']; [discriminate |]. cbn [app starts_with]. lia.
  - lia.
Qed.

Lemma slash_ok_app a b : slash_ok a = true -> (forall x, In x b -> x <> 47) -> slash_ok (a ++ b) = true.
Proof.
  intros Ha Hb. induction a as [| c a IH].
  - simpl. induction b as [| x b IHb]; [reflexivity |]. cbn [slash_ok].
    assert (x <> 47) by (apply Hb; simpl; auto). replace (x =? 47) with false by lia.
    rewrite IHb; [reflexivity | intros y Hy; apply Hb; simpl; auto].
  - cbn [slash_ok app] in *. apply andb_true_iff in Ha. destruct Ha as [H1 H2]. rewrite (IH H2), andb_true_r.
    destruct (c =? 47); [| reflexivity]. destruct a as [| d a']; [discriminate | exact H1].
Qed.

Lemma sub_delim_shift op cl a : shifts op a -> forall f rest, sub_delim f op cl (a ++ rest) = a ++ sub_delim f op cl rest.
Proof.
  intros Ha [| f] rest; cbn [sub_delim]; [reflexivity |]. rewrite (Ha rest).
  destruct (find_sub op rest) as [[b r] |]; [| reflexivity]. destruct r as [| c r']; [reflexivity |].
  destruct (find_sub cl r') as [[x after] |]; [| reflexivity]. rewrite <- app_assoc. reflexivity.
Qed.

(* ---- the four stages of strip_cs ---- *)
Definition st_line (s : line) : line := cut_line_comment s.
Definition st_block (s : line) : line := sub_delim (length s) [47; 42] [42; 47] s.
Definition st_quote (q : Z) (s : line) : line := sub_delim (length s) [q] [q] s.

Lemma strip_cs_stages s : strip_cs s = st_quote 39 (st_quote 34 (st_block (st_line s))).
Proof. reflexivity. Qed.

Lemma st_line_shift a rest : shifts [47; 47] a -> st_line (a ++ rest) = a ++ st_line rest.
Proof.
  intro H. unfold st_line, cut_line_comment. rewrite (H rest). destruct (find_sub [47; 47] rest) as [[b r] |]; reflexivity.
Qed.

Lemma st_block_shift a rest : shifts [47; 42] a -> st_block (a ++ rest) = a ++ st_block rest.
Proof.
  intro H. unfold st_block. rewrite (sub_delim_shift _ _ a H). f_equal.
  apply sub_delim_fuel; rewrite ?app_length; lia.
Qed.

Lemma st_quote_shift q a rest : shifts [q] a -> st_quote q (a ++ rest) = a ++ st_quote q rest.
Proof.
  intro H. unfold st_quote. rewrite (sub_delim_shift _ _ a H). f_equal.
  apply sub_delim_fuel; rewrite ?app_length; lia.
Qed.

(* ---- closed texts: plain code points and non-empty quoted literals without quotes inside ---- *)
Inductive seg := Plain (c : Z) | Quoted (q : Z) (body : list Z).
Definition is_quote (c : Z) : bool := (c =? 34) || (c =? 39).
Definition no_quotes (l : list Z) : bool := forallb (fun c => negb (is_quote c)) l.
(* inside a literal: no double quote; no single quote either unless the literal is a string literal (the stripper replaces
   string literals before it looks for character literals, so "it's" is read the way C++ reads it) *)
Definition body_ok (q : Z) (body : list Z) : bool := forallb (fun c => negb (c =? 34) && ((q =? 34) || negb (c =? 39))) body.
Definition seg_ok (s : seg) : bool :=
  match s with Plain c => negb (is_quote c) | Quoted q body => is_quote q && negb (is_nil body) && body_ok q body end.
(* what the stage that replaces the literals delimited by q needs *)
Definition lacks (q : Z) (l : list Z) : bool := forallb (fun c => negb (c =? q)) l.
Definition okq (q : Z) (s : seg) : bool :=
  match s with
  | Plain c => negb (c =? q)
  | Quoted q' body => lacks q body && (if q' =? q then negb (is_nil body) else true)
  end.
Definition render_seg (s : seg) : list Z := match s with Plain c => [c] | Quoted q body => q :: body ++ [q] end.
Definition render (segs : list seg) : list Z := flat_map render_seg segs.
Definition repl_seg (q : Z) (s : seg) : list seg :=
  match s with Quoted q' body => if q' =? q then map Plain dummy else [s] | Plain _ => [s] end.
Definition repl (q : Z) (segs : list seg) : list seg := flat_map (repl_seg q) segs.

Lemma render_app a b : render (a ++ b) = render a ++ render b.
Proof. unfold render. apply flat_map_app. Qed.
Lemma repl_app q a b : repl q (a ++ b) = repl q a ++ repl q b.
Proof. unfold repl. apply flat_map_app. Qed.
Lemma render_plain w : render (map Plain w) = w.
Proof. induction w as [| c w IH]; simpl; [reflexivity | f_equal; exact IH]. Qed.
Lemma repl_plain q w : repl q (map Plain w) = map Plain w.
Proof. induction w as [| c w IH]; simpl; [reflexivity | f_equal; exact IH]. Qed.
Lemma seg_ok_plain w : no_quotes w = true -> forallb seg_ok (map Plain w) = true.
Proof.
  induction w as [| c w IH]; simpl; intro H; [reflexivity |]. apply andb_true_iff in H. destruct H as [H1 H2].
  rewrite H1, (IH H2). reflexivity.
Qed.

Lemma lacks_neq q body : lacks q body = true -> forall x, In x body -> x <> q.
Proof.
  intros Hb x Hx E. subst x. unfold lacks in Hb. rewrite forallb_forall in Hb. specialize (Hb q Hx).
  rewrite Z.eqb_refl in Hb. discriminate.
Qed.

Lemma no_quotes_lacks q body : is_quote q = true -> no_quotes body = true -> lacks q body = true.
Proof.
  unfold no_quotes, lacks, is_quote. intros Hq Hb. rewrite forallb_forall in *. intros x Hx. specialize (Hb x Hx). lia.
Qed.

Lemma find_sub_here q X : find_sub [q] (q :: X) = Some ([], X).
Proof. cbn [find_sub starts_with]. rewrite Z.eqb_refl. reflexivity. Qed.

(* one literal opened at the start of the text: its body (at least one code point, the first one whatever it is, no
   closing quote among the others) is replaced *)
Lemma sub_delim_literal q c0 body X f :
  (forall x, In x body -> x <> q) -> sub_delim (S f) [q] [q] (q :: c0 :: body ++ q :: X) = dummy ++ sub_delim f [q] [q] X.
Proof.
  intro Hb. cbn [sub_delim]. rewrite find_sub_here.
  rewrite (shifts_absent q [] body Hb (q :: X)), find_sub_here. reflexivity.
Qed.

Lemma st_quote_render q : forall segs rest,
  forallb (okq q) segs = true -> st_quote q (render segs ++ rest) = render (repl q segs) ++ st_quote q rest.
Proof.
  induction segs as [| s segs IH]; intros rest H; [reflexivity |].
  cbn [forallb] in H. apply andb_true_iff in H. destruct H as [H1 H2].
  change (render (s :: segs)) with (render_seg s ++ render segs).
  change (repl q (s :: segs)) with (repl_seg q s ++ repl q segs).
  rewrite render_app, <- !app_assoc.
  destruct s as [c | q' body]; cbn [render_seg repl_seg okq] in *.
  - rewrite (st_quote_shift q [c]).
    + rewrite (IH rest H2). reflexivity.
    + apply shifts_absent. intros x [<- | []]. lia.
  - apply andb_true_iff in H1. destruct H1 as [Hb Hne].
    destruct (q' =? q) eqn:E.
    + apply Z.eqb_eq in E. subst q'. destruct body as [| c0 body]; [discriminate |].
      cbn [lacks forallb] in Hb. apply andb_true_iff in Hb. destruct Hb as [_ Hb].
      unfold st_quote at 1. cbn [app length]. rewrite <- app_assoc. cbn [app].
      rewrite (sub_delim_literal q c0 body (render segs ++ rest)) by (apply lacks_neq; assumption).
      rewrite render_plain. f_equal.
      rewrite <- (IH rest H2). unfold st_quote. apply sub_delim_fuel; repeat (rewrite app_length || cbn [length]); lia.
    + cbn [render flat_map]. rewrite app_nil_r.
      rewrite (st_quote_shift q (q' :: body ++ [q'])).
      * rewrite (IH rest H2). reflexivity.
      * apply shifts_absent. intros x Hx Ex. subst x. cbn [In] in Hx. destruct Hx as [Hx | Hx]; [lia |].
        apply in_app_or in Hx. destruct Hx as [Hx | [Hx | []]]; [| lia].
        exact (lacks_neq q body Hb q Hx eq_refl).
Qed.

Lemma seg_ok_okq34 segs : forallb seg_ok segs = true -> forallb (okq 34) segs = true.
Proof.
  induction segs as [| s segs IH]; cbn [forallb]; intro H; [reflexivity |]. apply andb_true_iff in H. destruct H as [H1 H2].
  rewrite (IH H2), andb_true_r. destruct s as [c | q body]; cbn [seg_ok okq] in *.
  - unfold is_quote in H1. lia.
  - apply andb_true_iff in H1. destruct H1 as [H1 Hb]. apply andb_true_iff in H1. destruct H1 as [Hq Hne].
    apply andb_true_iff. split; [| destruct (q =? 34); [exact Hne | reflexivity]].
    unfold lacks, body_ok in *. rewrite forallb_forall in *. intros x Hx. specialize (Hb x Hx). lia.
Qed.

Lemma seg_ok_okq39 segs : forallb seg_ok segs = true -> forallb (okq 39) (repl 34 segs) = true.
Proof.
  induction segs as [| s segs IH]; cbn [forallb]; intro H; [reflexivity |]. apply andb_true_iff in H. destruct H as [H1 H2].
  change (repl 34 (s :: segs)) with (repl_seg 34 s ++ repl 34 segs). rewrite forallb_app, (IH H2), andb_true_r.
  destruct s as [c | q body]; cbn [seg_ok repl_seg] in *.
  - cbn [forallb okq]. unfold is_quote in H1. lia.
  - apply andb_true_iff in H1. destruct H1 as [H1 Hb]. apply andb_true_iff in H1. destruct H1 as [Hq Hne].
    destruct (q =? 34) eqn:E; [reflexivity |]. cbn [forallb okq]. rewrite andb_true_r.
    assert (Q : q = 39) by (unfold is_quote in Hq; lia). subst q. cbn [Z.eqb Pos.eqb]. rewrite Hne, andb_true_r.
    unfold lacks, body_ok in *. rewrite forallb_forall in *. intros x Hx. specialize (Hb x Hx). lia.
Qed.

Lemma okq_plain q w : lacks q w = true -> forallb (okq q) (map Plain w) = true.
Proof.
  induction w as [| c w IH]; simpl; intro H; [reflexivity |]. apply andb_true_iff in H. destruct H as [H1 H2].
  rewrite H1, (IH H2). reflexivity.
Qed.

(* ---- block comments ---- *)
(* every "/" of a is followed, inside a, by something other than d *)
Fixpoint follow_ok (d : Z) (a : list Z) : bool :=
  match a with
  | [] => true
  | c :: a' => (if c =? 47 then match a' with [] => false | e :: _ => negb (e =? d) end else true) && follow_ok d a'
  end.

Lemma shifts_follow d a : follow_ok d a = true -> shifts [47; d] a.
Proof.
  induction a as [| c a IH]; intro H; [apply shifts_nil |].
  cbn [follow_ok] in H. apply andb_true_iff in H. destruct H as [H1 H2]. apply shifts_cons; [| apply IH; exact H2].
  intro rest. cbn [starts_with]. destruct (c =? 47) eqn:E.
  - destruct a as [| d0 a']; [discriminate |]. cbn [app starts_with]. lia.
  - lia.
Qed.

Lemma follow_ok_app d a b : follow_ok d a = true -> (forall x, In x b -> x <> 47) -> follow_ok d (a ++ b) = true.
Proof.
  intros Ha Hb. induction a as [| c a IH].
  - simpl. induction b as [| x b IHb]; [reflexivity |]. cbn [follow_ok].
    assert (x <> 47) by (apply Hb; simpl; auto). replace (x =? 47) with false by lia.
    rewrite IHb; [reflexivity | intros y Hy; apply Hb; simpl; auto].
  - cbn [follow_ok app] in *. apply andb_true_iff in Ha. destruct Ha as [H1 H2]. rewrite (IH H2), andb_true_r.
    destruct (c =? 47); [| reflexivity]. destruct a as [| e a']; [discriminate | exact H1].
Qed.

Lemma starts_with_app_long n : forall u Y, (length n <= length u)%nat -> starts_with n (u ++ Y) = starts_with n u.
Proof.
  induction n as [| a n IH]; intros [| b u] Y H; simpl in *; try reflexivity; try lia.
  rewrite IH by lia. reflexivity.
Qed.

Lemma starts_with_self n X : starts_with n (n ++ X) = true.
Proof. induction n as [| a n IH]; simpl; [reflexivity | rewrite Z.eqb_refl, IH; reflexivity]. Qed.

Lemma skipn_self {A} (n X : list A) : skipn (length n) (n ++ X) = X.
Proof. induction n; simpl; auto. Qed.

(* the first occurrence stays the first one when the text after it is exchanged *)
Lemma find_sub_retarget n X : forall t b a, find_sub n t = Some (b, a) -> find_sub n (b ++ n ++ X) = Some (b, X).
Proof.
  assert (Here : find_sub n (n ++ X) = Some ([], X)).
  { destruct (n ++ X) as [| c u] eqn:E; cbn [find_sub]; rewrite <- E, starts_with_self, skipn_self; reflexivity. }
  induction t as [| c t IH]; intros b a H; cbn [find_sub] in H.
  - destruct (starts_with n []); [| discriminate]. inversion H; subst. exact Here.
  - destruct (starts_with n (c :: t)) eqn:S.
    + inversion H; subst. exact Here.
    + destruct (find_sub n t) as [[b' a'] |] eqn:F; [| discriminate]. inversion H; subst.
      pose proof (find_sub_some n t b' a F) as Et.
      change ((c :: b') ++ n ++ X) with (c :: b' ++ n ++ X). cbn [find_sub].
      assert (S' : starts_with n (c :: b' ++ n ++ X) = false).
      { rewrite Et in S. rewrite app_assoc in S. change (c :: (b' ++ n) ++ a) with ((c :: b' ++ n) ++ a) in S.
        rewrite starts_with_app_long in S by (cbn [length]; rewrite app_length; lia).
        rewrite app_assoc. change (c :: (b' ++ n) ++ X) with ((c :: b' ++ n) ++ X).
        rewrite starts_with_app_long by (cbn [length]; rewrite app_length; lia). exact S. }
      rewrite S', (IH b' a eq_refl). reflexivity.
Qed.

Inductive item := ICh (c : Z) | ISlash (c : Z) | Blk (c0 : Z) (body : list Z).
Definition item_okP (it : item) : Prop :=
  match it with
  | ICh c => c <> 47
  | ISlash c => c <> 47 /\ c <> 42
  | Blk _ b => forall X, find_sub [42; 47] (b ++ 42 :: 47 :: X) = Some (b, X)
  end.
Definition render_item (it : item) : list Z :=
  match it with ICh c => [c] | ISlash c => [47; c] | Blk c0 b => 47 :: 42 :: c0 :: b ++ [42; 47] end.
Definition out_item (it : item) : list Z := match it with ICh c => [c] | ISlash c => [47; c] | Blk _ _ => dummy end.
Definition render2 (items : list item) : list Z := flat_map render_item items.
Definition out2 (items : list item) : list Z := flat_map out_item items.

Lemma render2_app a b : render2 (a ++ b) = render2 a ++ render2 b.
Proof. unfold render2. apply flat_map_app. Qed.
Lemma out2_app a b : out2 (a ++ b) = out2 a ++ out2 b.
Proof. unfold out2. apply flat_map_app. Qed.
Lemma render2_ch w : render2 (map ICh w) = w.
Proof. induction w as [| c w IH]; simpl; [reflexivity | f_equal; exact IH]. Qed.
Lemma out2_ch w : out2 (map ICh w) = w.
Proof. induction w as [| c w IH]; simpl; [reflexivity | f_equal; exact IH]. Qed.
Lemma item_ok_ch w : (forall x, In x w -> x <> 47) -> Forall item_okP (map ICh w).
Proof.
  induction w as [| c w IH]; intro H; simpl; constructor; [apply H; simpl; auto | apply IH; intros x Hx; apply H; simpl; auto].
Qed.

Lemma sub_delim_block c0 b X f :
  (forall Y, find_sub [42; 47] (b ++ 42 :: 47 :: Y) = Some (b, Y)) ->
  sub_delim (S f) [47; 42] [42; 47] (47 :: 42 :: c0 :: b ++ 42 :: 47 :: X) = dummy ++ sub_delim f [47; 42] [42; 47] X.
Proof.
  intro H. cbn [sub_delim].
  change (find_sub [47; 42] (47 :: 42 :: c0 :: b ++ 42 :: 47 :: X)) with (Some (@nil Z, c0 :: b ++ 42 :: 47 :: X)).
  cbv beta iota. rewrite (H X). reflexivity.
Qed.

Lemma st_block_items items : Forall item_okP items -> forall rest, st_block (render2 items ++ rest) = out2 items ++ st_block rest.
Proof.
  induction 1 as [| it items Hit _ IH]; intro rest; [reflexivity |].
  change (render2 (it :: items)) with (render_item it ++ render2 items).
  change (out2 (it :: items)) with (out_item it ++ out2 items). rewrite <- !app_assoc.
  destruct it as [c | c | c0 b]; cbn [render_item out_item item_okP] in *.
  - rewrite (st_block_shift [c]); [rewrite IH; reflexivity |]. apply shifts_absent. intros x [<- | []]. exact Hit.
  - rewrite (st_block_shift [47; c]); [rewrite IH; reflexivity |]. destruct Hit as [H1 H2].
    apply shifts_cons; [| apply shifts_absent; intros x [<- | []]; exact H1].
    intro rest'. cbn [app starts_with]. lia.
  - unfold st_block at 1. cbn [app length]. rewrite <- app_assoc. cbn [app].
    rewrite (sub_delim_block c0 b (render2 items ++ rest) _ Hit). f_equal.
    rewrite <- IH. unfold st_block. apply sub_delim_fuel; repeat (rewrite app_length || cbn [length]); lia.
Qed.

(* a decision procedure for the block structure: the text with every block comment replaced, None if some "/" is not
   followed by anything, "//" occurs, or a comment is not closed *)
Fixpoint block_scan (fuel : nat) (s : list Z) : option (list Z) :=
  match fuel with
  | O => match s with [] => Some [] | _ => None end
  | S f =>
    match s with
    | [] => Some []
    | c :: s1 =>
      if c =? 47 then
        match s1 with
        | [] => None
        | d :: s2 =>
          if d =? 42 then
            match s2 with
            | [] => None
            | c0 :: t => match find_sub [42; 47] t with
                         | None => None
                         | Some (b, after) => match block_scan f after with Some o => Some (dummy ++ o) | None => None end
                         end
            end
          else if d =? 47 then None
          else match block_scan f s2 with Some o => Some (47 :: d :: o) | None => None end
        end
      else match block_scan f s1 with Some o => Some (c :: o) | None => None end
    end
  end.

Lemma block_scan_items f : forall s out, block_scan f s = Some out ->
  exists items, s = render2 items /\ Forall item_okP items /\ out = out2 items.
Proof.
  induction f as [| f IH]; intros s out H; cbn [block_scan] in H.
  - destruct s; [| discriminate]. inversion H; subst. exists []. repeat split. constructor.
  - destruct s as [| c s1]; [inversion H; subst; exists []; repeat split; constructor |].
    destruct (c =? 47) eqn:Ec.
    + apply Z.eqb_eq in Ec. subst c. destruct s1 as [| d s2]; [discriminate |]. destruct (d =? 42) eqn:Ed.
      * apply Z.eqb_eq in Ed. subst d. destruct s2 as [| c0 t]; [discriminate |].
        destruct (find_sub [42; 47] t) as [[b after] |] eqn:F; [| discriminate].
        destruct (block_scan f after) as [o |] eqn:B; [| discriminate]. inversion H; subst.
        destruct (IH after o B) as (items & -> & Hok & ->).
        exists (Blk c0 b :: items). split; [| split].
        -- rewrite (find_sub_some _ _ _ _ F). change (render2 (Blk c0 b :: items)) with ((47 :: 42 :: c0 :: b ++ [42; 47]) ++ render2 items).
           cbn [app]. rewrite <- app_assoc. reflexivity.
        -- constructor; [| exact Hok]. intro X. exact (find_sub_retarget [42; 47] X t b _ F).
        -- reflexivity.
      * destruct (d =? 47) eqn:Ed2; [discriminate |].
        destruct (block_scan f s2) as [o |] eqn:B; [| discriminate]. inversion H; subst.
        destruct (IH s2 o B) as (items & -> & Hok & ->).
        exists (ISlash d :: items). repeat split. constructor; [cbn; lia | exact Hok].
    + destruct (block_scan f s1) as [o |] eqn:B; [| discriminate]. inversion H; subst.
      destruct (IH s1 o B) as (items & -> & Hok & ->).
      exists (ICh c :: items). repeat split. constructor; [cbn; lia | exact Hok].
Qed.

(* closed text: the class of prefixes for which the theorems below hold *)
Definition closed (s : list Z) : Prop :=
  exists items segs, s = render2 items /\ Forall item_okP items /\ follow_ok 47 s = true
                     /\ out2 items = render segs /\ forallb seg_ok segs = true.

Lemma strip_cs_render items segs rest :
  Forall item_okP items -> follow_ok 47 (render2 items) = true -> out2 items = render segs -> forallb seg_ok segs = true ->
  strip_cs (render2 items ++ rest) = render (repl 39 (repl 34 segs)) ++ strip_cs rest.
Proof.
  intros Hit Hf Hout Hok. rewrite !strip_cs_stages.
  rewrite (st_line_shift _ _ (shifts_follow 47 _ Hf)).
  rewrite (st_block_items items Hit), Hout.
  rewrite (st_quote_render 34 segs _ (seg_ok_okq34 segs Hok)).
  rewrite (st_quote_render 39 (repl 34 segs) _ (seg_ok_okq39 segs Hok)).
  reflexivity.
Qed.

(* strip_cs distributes over the end of a closed text *)
Theorem strip_cs_closed_app pre rest : closed pre -> strip_cs (pre ++ rest) = strip_cs pre ++ strip_cs rest.
Proof.
  intros (items & segs & -> & Hit & Hf & Hout & Hok).
  rewrite (strip_cs_render items segs rest Hit Hf Hout Hok).
  pose proof (strip_cs_render items segs [] Hit Hf Hout Hok) as E. rewrite app_nil_r in E. rewrite E.
  change (strip_cs []) with (@nil Z). rewrite app_nil_r. reflexivity.
Qed.

Lemma no_strip_no_quotes w : no_strip_chars w = true -> no_quotes w = true /\ (forall x, In x w -> x <> 47).
Proof.
  unfold no_strip_chars, no_quotes. intro H. rewrite forallb_forall in H. split.
  - apply forallb_forall. intros x Hx. specialize (H x Hx). unfold is_quote. lia.
  - intros x Hx. specialize (H x Hx). lia.
Qed.

Lemma closed_nil : closed [].
Proof. exists [], []. repeat split; try reflexivity. constructor. Qed.

Lemma closed_app_plain pre w : closed pre -> no_strip_chars w = true -> closed (pre ++ w).
Proof.
  intros (items & segs & -> & Hit & Hf & Hout & Hok) Hw. destruct (no_strip_no_quotes w Hw) as [Hq H47].
  exists (items ++ map ICh w), (segs ++ map Plain w).
  rewrite render2_app, render2_ch, out2_app, out2_ch, render_app, render_plain, forallb_app, Hok, (seg_ok_plain w Hq), Hout.
  repeat split.
  - apply Forall_app. split; [exact Hit | apply item_ok_ch; exact H47].
  - apply follow_ok_app; assumption.
Qed.

(* a word without "/", double and single quotes directly after a closed text survives stripping, whatever follows *)
Theorem strip_cs_at pre w post :
  closed pre -> no_strip_chars w = true -> strip_cs (pre ++ w ++ post) = strip_cs pre ++ w ++ strip_cs post.
Proof.
  intros Hp Hw. rewrite app_assoc, (strip_cs_closed_app (pre ++ w) post (closed_app_plain pre w Hp Hw)).
  rewrite (strip_cs_closed_app pre w Hp), (strip_cs_id w Hw), <- app_assoc. reflexivity.
Qed.

(* ---- a decision procedure for closed ---- *)
(* None: outside a literal; Some (q, ne): inside a literal opened by q, ne = its body is not empty so far *)
Fixpoint quotes_closed (st : option (Z * bool)) (s : list Z) : bool :=
  match s with
  | [] => match st with None => true | Some _ => false end
  | c :: s' => match st with
               | None => if is_quote c then quotes_closed (Some (c, false)) s' else quotes_closed None s'
               | Some (q, ne) => if c =? q then ne && quotes_closed None s'
                                 else if c =? 34 then false else quotes_closed (Some (q, true)) s'
               end
  end.
Definition closed_prefix (s : list Z) : bool :=
  follow_ok 47 s && match block_scan (length s) s with Some out => quotes_closed None out | None => false end.

Lemma quotes_closed_segs s : forall st, quotes_closed st s = true ->
  match st with
  | None => exists segs, s = render segs /\ forallb seg_ok segs = true
  | Some (q, ne) => is_quote q = true ->
      exists body segs, s = body ++ q :: render segs /\ body_ok q body = true /\ (ne = false -> body <> []) /\ forallb seg_ok segs = true
  end.
Proof.
  induction s as [| c s IH]; intros st H.
  - destruct st as [[q ne] |]; [discriminate |]. exists []. split; reflexivity.
  - destruct st as [[q ne] |]; cbn [quotes_closed] in H.
    + intro Hq. destruct (c =? q) eqn:E.
      * apply Z.eqb_eq in E. subst c. apply andb_true_iff in H. destruct H as [Hne H].
        destruct (IH None H) as (segs & -> & Hok). exists [], segs. repeat split; auto. intro; subst; discriminate.
      * destruct (c =? 34) eqn:Qc; [discriminate |].
        destruct (IH (Some (q, true)) H Hq) as (body & segs & -> & Hb & _ & Hok).
        exists (c :: body), segs. repeat split; auto.
        -- cbn [body_ok forallb]. fold (body_ok q body). rewrite Hb, andb_true_r. unfold is_quote in Hq. lia.
        -- intros _. discriminate.
    + destruct (is_quote c) eqn:Qc.
      * destruct (IH (Some (c, false)) H Qc) as (body & segs & -> & Hb & Hne & Hok).
        exists (Quoted c body :: segs). split.
        -- change (render (Quoted c body :: segs)) with ((c :: body ++ [c]) ++ render segs).
           cbn [app]. rewrite <- app_assoc. reflexivity.
        -- cbn [forallb seg_ok]. rewrite Qc, Hb, Hok. destruct body; [exfalso; apply Hne; reflexivity | reflexivity].
      * destruct (IH None H) as (segs & -> & Hok). exists (Plain c :: segs). split; [reflexivity |].
        cbn [forallb seg_ok]. rewrite Qc, Hok. reflexivity.
Qed.

Theorem closed_prefix_closed s : closed_prefix s = true -> closed s.
Proof.
  unfold closed_prefix. intro H. apply andb_true_iff in H. destruct H as [H1 H2].
  destruct (block_scan (length s) s) as [out |] eqn:B; [| discriminate].
  destruct (block_scan_items _ s out B) as (items & E & Hit & ->).
  destruct (quotes_closed_segs _ None H2) as (segs & E2 & Hok). exists items, segs. auto.
Qed.

Lemma block_scan_plain f : forall l, (length l <= f)%nat -> (forall x, In x l -> x <> 47) -> block_scan f l = Some l.
Proof.
  induction f as [| f IH]; intros l Hl H; destruct l as [| c l]; try reflexivity; [simpl in Hl; lia |].
  cbn [block_scan]. assert (c <> 47) by (apply H; simpl; auto). replace (c =? 47) with false by lia.
  rewrite IH; [reflexivity | simpl in Hl; lia | intros x Hx; apply H; simpl; auto].
Qed.

Lemma no_strip_closed_prefix l : no_strip_chars l = true -> closed_prefix l = true.
Proof.
  intro H. unfold closed_prefix. destruct (no_strip_no_quotes l H) as [Hq H47]. apply andb_true_iff. split.
  - apply (follow_ok_app 47 [] l eq_refl H47).
  - rewrite (block_scan_plain _ l (le_n _) H47).
    clear H H47. induction l as [| c l IH]; [reflexivity |]. cbn [no_quotes forallb] in Hq. apply andb_true_iff in Hq.
    destruct Hq as [Hc Hl]. cbn [quotes_closed]. apply negb_true_iff in Hc. rewrite Hc. apply IH. exact Hl.
Qed.

(* ---- "Spaces in the middle" ---- *)
Theorem ws_spaces_middle_reports_closed_word n pre w post :
  anchor_free (p_re ws_spaces_middle) = true -> matches (p_re ws_spaces_middle) w = true ->
  no_strip_chars w = true -> closed_prefix pre = true ->
  In (mkf W n "Spaces in the middle") (ws_line n (pre ++ w ++ post)).
Proof.
  intros Hf Hm Hw Hp. apply matches_spec in Hm.
  pose proof (search_intro _ _ pre post Hf Hm) as S1.
  pose proof (search_intro _ _ (strip_cs pre) (strip_cs post) Hf Hm) as S2.
  unfold ws_line. rewrite S1. cbn [orb]. cbv zeta.
  rewrite (strip_cs_at pre _ post (closed_prefix_closed pre Hp) Hw), S2.
  do 5 (apply in_or_app; right). apply in_or_app. left. apply flag_true.
Qed.

Theorem ws_spaces_middle_reports_closed n pre post :
  anchor_free (p_re ws_spaces_middle) = true -> matches (p_re ws_spaces_middle) (p_wit ws_spaces_middle) = true ->
  no_strip_chars (p_wit ws_spaces_middle) = true ->
  closed_prefix pre = true ->
  In (mkf W n "Spaces in the middle") (ws_line n (pre ++ p_wit ws_spaces_middle ++ post)).
Proof. apply ws_spaces_middle_reports_closed_word. Qed.

(* ---- "Comma should be followed by a space" ---- *)
Definition comma_re : regex := Cat (Ch 44) (Chr true [CRange 32 32]).

Lemma prefix_match_comma p s :
  prefix_match p comma_re s = match s with a :: b :: _ => (a =? 44) && negb (b =? 32) | _ => false end.
Proof.
  unfold comma_re, Ch. destruct s as [| a s]; [reflexivity |].
  cbn [prefix_match nullable deriv andb orb].
  assert (E1 : cset_mem false [CRange 44 44] a = (a =? 44)) by (unfold cset_mem, item_mem; cbn [existsb]; rewrite xorb_false_l; lia).
  rewrite E1. destruct (a =? 44); cbn [cat alt andb].
  - destruct s as [| b s]; [reflexivity |]. cbn [prefix_match nullable deriv orb].
    assert (E2 : cset_mem true [CRange 32 32] b = negb (b =? 32)) by (unfold cset_mem, item_mem; cbn [existsb]; rewrite xorb_true_l; lia).
    rewrite E2. destruct (b =? 32); cbn [negb]; destruct s; reflexivity.
  - destruct s as [| b s]; reflexivity.
Qed.

Lemma contains_cons needle c s : contains needle (c :: s) = false -> starts_with needle (c :: s) = false /\ contains needle s = false.
Proof.
  unfold contains. cbn [find_sub]. destruct (starts_with needle (c :: s)); [discriminate |].
  destruct (find_sub needle s) as [[b a] |]; [discriminate | auto].
Qed.

(* the leftmost comma candidate of  t ++ ",c" ++ post  is not ",)" when t has no ",)" and c is neither a blank nor ")" *)
Lemma first_match_comma t : forall p c post,
  contains [44; 41] t = false -> c <> 32 -> c <> 41 ->
  exists suf, first_match p comma_re (t ++ 44 :: c :: post) = Some suf /\ list_eqb (firstn 2 suf) [44; 41] = false.
Proof.
  induction t as [| a t IH]; intros p c post Hc H32 H41.
  - exists (44 :: c :: post). cbn [app first_match]. rewrite prefix_match_comma. split.
    + replace ((44 =? 44) && negb (c =? 32)) with true by lia. reflexivity.
    + cbn [firstn list_eqb]. lia.
  - destruct (contains_cons _ _ _ Hc) as [Hs Hc']. cbn [app first_match]. rewrite prefix_match_comma.
    destruct (t ++ 44 :: c :: post) as [| b u] eqn:Eu; [destruct t; discriminate |].
    destruct ((a =? 44) && negb (b =? 32)) eqn:Ea.
    + exists (a :: b :: u). split; [reflexivity |]. cbn [firstn list_eqb].
      destruct t as [| b' t'].
      * cbn [app] in Eu. inversion Eu; subst. lia.
      * cbn [app] in Eu. inversion Eu; subst. cbn [starts_with] in Hs. lia.
    + rewrite <- Eu. apply IH; assumption.
Qed.

Theorem ws_comma_reports_closed n pre c post :
  p_re ws_comma = comma_re -> comma_exempt = [44; 41] ->
  closed_prefix pre = true -> no_strip_chars [44; c] = true -> c <> 32 -> c <> 41 ->
  contains [44; 41] (strip_cs pre) = false ->
  In (mkf W n "Comma should be followed by a space") (ws_line n (pre ++ [44; c] ++ post)).
Proof.
  intros Hre Hex Hp Hw H32 H41 Hc.
  assert (S1 : search (p_re ws_comma) (pre ++ [44; c] ++ post) = true).
  { rewrite Hre. apply search_spec. exists pre, [44; c], post. split; [reflexivity |].
    unfold comma_re, Ch. change [44; c] with ([44] ++ [c]). constructor; constructor.
    - unfold cset_mem, item_mem. cbn [existsb]. rewrite xorb_false_l. lia.
    - unfold cset_mem, item_mem. cbn [existsb]. rewrite xorb_true_l. lia. }
  unfold ws_line. rewrite S1, orb_true_r. cbv zeta.
  rewrite (strip_cs_at pre _ post (closed_prefix_closed pre Hp) Hw).
  unfold comma_hit. rewrite Hre, Hex.
  destruct (first_match_comma (strip_cs pre) None c (strip_cs post) Hc H32 H41) as (suf & F & E).
  cbn [app]. rewrite F. change (fixed_len comma_re) with (Some 2%nat). cbv iota beta. rewrite E. cbn [negb].
  do 5 (apply in_or_app; right). apply in_or_app. right. apply flag_true.
Qed.

(* ---- outside the class: an empty string literal swallows the text up to the next double quote ---- *)
Lemma st_quote_empty_literal mid X :
  lacks 34 mid = true -> st_quote 34 (34 :: 34 :: mid ++ 34 :: X) = dummy ++ st_quote 34 X.
Proof.
  intro Hm. unfold st_quote at 1. cbn [length].
  rewrite (sub_delim_literal 34 34 mid X) by (apply lacks_neq; exact Hm).
  f_equal. apply sub_delim_fuel; repeat (rewrite app_length || cbn [length]); lia.
Qed.

Theorem strip_cs_empty_literal pre mid post :
  closed pre -> no_strip_chars mid = true ->
  strip_cs (pre ++ [34; 34] ++ mid ++ [34] ++ post) = strip_cs pre ++ dummy ++ strip_cs post.
Proof.
  intros (items & segs & -> & Hit & Hf & Hout & Hok) Hm. destruct (no_strip_no_quotes mid Hm) as [Hq H47].
  set (lit := [34; 34] ++ mid ++ [34]).
  assert (L47 : forall x, In x lit -> x <> 47).
  { unfold lit. intros x Hx. cbn [app In] in Hx. destruct Hx as [<- | [<- | Hx]]; try lia.
    apply in_app_or in Hx. destruct Hx as [Hx | [<- | []]]; [apply H47; exact Hx | lia]. }
  assert (Hf' : follow_ok 47 (render2 items ++ lit) = true) by (apply follow_ok_app; assumption).
  replace (render2 items ++ [34; 34] ++ mid ++ [34] ++ post) with (render2 (items ++ map ICh lit) ++ post)
    by (rewrite render2_app, render2_ch; unfold lit; rewrite <- !app_assoc; reflexivity).
  rewrite !strip_cs_stages.
  rewrite (st_line_shift (render2 (items ++ map ICh lit)) post).
  2:{ apply shifts_follow. rewrite render2_app, render2_ch. exact Hf'. }
  rewrite (st_block_items (items ++ map ICh lit)).
  2:{ apply Forall_app. split; [exact Hit | apply item_ok_ch; exact L47]. }
  rewrite out2_app, out2_ch, Hout.
  rewrite <- app_assoc, (st_quote_render 34 segs _ (seg_ok_okq34 segs Hok)).
  unfold lit. rewrite <- !app_assoc. cbn [app]. rewrite (st_quote_empty_literal mid _ (no_quotes_lacks 34 mid eq_refl Hq)).
  replace (render (repl 34 segs) ++ dummy ++ st_quote 34 (st_block (st_line post)))
    with (render (repl 34 segs ++ map Plain dummy) ++ st_quote 34 (st_block (st_line post)))
    by (rewrite render_app, render_plain, <- app_assoc; reflexivity).
  rewrite (st_quote_render 39).
  2:{ rewrite forallb_app, (seg_ok_okq39 segs Hok). reflexivity. }
  rewrite repl_app, repl_plain, render_app, render_plain, <- app_assoc.
  pose proof (strip_cs_render items segs [] Hit Hf Hout Hok) as E. rewrite app_nil_r in E. rewrite !strip_cs_stages in E.
  rewrite E. change (st_quote 39 (st_quote 34 (st_block (st_line [])))) with (@nil Z). rewrite app_nil_r. reflexivity.
Qed.

(* "//" is cut first, wherever it is: everything from the first "//" on disappears, string literal or not *)
Theorem strip_cs_double_slash pre post :
  shifts [47; 47] pre -> strip_cs (pre ++ [47; 47] ++ post) = strip_cs pre.
Proof.
  intro H. rewrite !strip_cs_stages. rewrite (st_line_shift pre _ H).
  pose proof (st_line_shift pre [] H) as E. rewrite app_nil_r in E. rewrite E.
  change (st_line ([47; 47] ++ post)) with (@nil Z). change (st_line []) with (@nil Z). reflexivity.
Qed.
