(* Proofs about Lint/IncludeOrder.v: the comparator is the lexicographic order of an explicit key, hence a strict total
   order on include strings (in particular a strict weak order). *)
From Coq Require Import Lia ZifyBool.
From Symv Require Import Lint.IncludeOrder.
Open Scope Z_scope.

(* table VALUES stay abstract in every proof below: a changed priority, prefix or suffix must not matter *)
Opaque priorities_1lvl priorities_2lvl cpp_prefixes special_patterns ext_prefix_1 ext_prefix_2 suffix_h_a suffix_h_b
       local_default_a local_default_b local_symbol_a local_symbol_b local_tests_a local_tests_b local_tests_bonus_a local_tests_bonus_b.

(* ------------------------------------------------------------------------------------------------------------------ *)
(* lexicographic comparison of lists over a decidable strict total order *)

Section LC.
  Context {A : Type} (c : A -> A -> comparison).
  Hypothesis c_eq : forall x y, c x y = Datatypes.Eq <-> x = y.
  Hypothesis c_anti : forall x y, c y x = CompOpp (c x y).
  Hypothesis c_trans : forall x y z, c x y = Datatypes.Lt -> c y z = Datatypes.Lt -> c x z = Datatypes.Lt.

  Lemma lc_eq : forall a b, list_compare c a b = Datatypes.Eq <-> a = b.
  Proof.
    induction a as [|x a IH]; destruct b as [|y b]; cbn [list_compare]; try (split; [discriminate|discriminate]).
    - split; reflexivity.
    - destruct (c x y) eqn:E.
      + apply c_eq in E. subst. rewrite IH. split; [intros ->; reflexivity | intros H; injection H; auto].
      + split; [discriminate|]. intros H; injection H; intros; subst. assert (c y y = Datatypes.Eq) by (apply c_eq; reflexivity). congruence.
      + split; [discriminate|]. intros H; injection H; intros; subst. assert (c y y = Datatypes.Eq) by (apply c_eq; reflexivity). congruence.
  Qed.

  Lemma lc_anti : forall a b, list_compare c b a = CompOpp (list_compare c a b).
  Proof.
    induction a as [|x a IH]; destruct b as [|y b]; cbn [list_compare]; try reflexivity.
    rewrite (c_anti x y). destruct (c x y); cbn [CompOpp]; auto.
  Qed.

  Lemma lc_trans : forall a b d,
    list_compare c a b = Datatypes.Lt -> list_compare c b d = Datatypes.Lt -> list_compare c a d = Datatypes.Lt.
  Proof.
    induction a as [|x a IH]; destruct b as [|y b]; destruct d as [|z d]; cbn [list_compare]; try discriminate; try reflexivity.
    destruct (c x y) eqn:E1; try discriminate.
    - apply c_eq in E1; subst. destruct (c y z) eqn:E2; try discriminate; auto. intros; eapply IH; eauto.
    - intros _. destruct (c y z) eqn:E2; try discriminate.
      + apply c_eq in E2; subst. rewrite E1. reflexivity.
      + rewrite (c_trans _ _ _ E1 E2). reflexivity.
  Qed.
End LC.

Lemma zc_eq : forall x y, Z.compare x y = Datatypes.Eq <-> x = y.
Proof. intros; apply Z.compare_eq_iff. Qed.
Lemma zc_anti : forall x y, Z.compare y x = CompOpp (Z.compare x y).
Proof. intros; apply Z.compare_antisym. Qed.
Lemma zc_trans : forall x y z, Z.compare x y = Datatypes.Lt -> Z.compare y z = Datatypes.Lt -> Z.compare x z = Datatypes.Lt.
Proof. intros x y z. rewrite !Z.compare_lt_iff. lia. Qed.

Lemma sc_eq : forall x y, str_compare x y = Datatypes.Eq <-> x = y.
Proof. exact (lc_eq Z.compare zc_eq). Qed.
Lemma sc_anti : forall x y, str_compare y x = CompOpp (str_compare x y).
Proof. exact (lc_anti Z.compare zc_anti). Qed.
Lemma sc_trans : forall x y z, str_compare x y = Datatypes.Lt -> str_compare y z = Datatypes.Lt -> str_compare x z = Datatypes.Lt.
Proof. exact (lc_trans Z.compare zc_eq zc_trans). Qed.

Lemma pc_eq : forall x y, path_compare x y = Datatypes.Eq <-> x = y.
Proof. exact (lc_eq str_compare sc_eq). Qed.
Lemma pc_anti : forall x y, path_compare y x = CompOpp (path_compare x y).
Proof. exact (lc_anti str_compare sc_anti). Qed.
Lemma pc_trans : forall x y z, path_compare x y = Datatypes.Lt -> path_compare y z = Datatypes.Lt -> path_compare x z = Datatypes.Lt.
Proof. exact (lc_trans str_compare sc_eq sc_trans). Qed.

Lemma str_eqb_eq : forall a b, str_eqb a b = true <-> a = b.
Proof.
  intros. unfold str_eqb, str_cmp. rewrite <- sc_eq. destruct (str_compare a b); cbn; split; congruence.
Qed.

Lemma str_eqb_refl : forall a, str_eqb a a = true.
Proof. intros; apply str_eqb_eq; reflexivity. Qed.

(* ---- lex_lt is a strict total order on keys ---- *)

Lemma lex_lt_irrefl : forall k, lex_lt k k = false.
Proof. intros. unfold lex_lt. replace (path_compare k k) with Datatypes.Eq; [reflexivity|]. symmetry; apply pc_eq; reflexivity. Qed.

Lemma lex_lt_asym : forall a b, lex_lt a b = true -> lex_lt b a = false.
Proof. intros a b. unfold lex_lt. rewrite (pc_anti a b). destruct (path_compare a b); cbn; congruence. Qed.

Lemma lex_lt_trans : forall a b c, lex_lt a b = true -> lex_lt b c = true -> lex_lt a c = true.
Proof.
  intros a b c. unfold lex_lt.
  destruct (path_compare a b) eqn:E1; try discriminate. destruct (path_compare b c) eqn:E2; try discriminate.
  rewrite (pc_trans _ _ _ E1 E2). reflexivity.
Qed.

Lemma lex_lt_total : forall a b, a <> b -> lex_lt a b = true \/ lex_lt b a = true.
Proof.
  intros a b Hne. unfold lex_lt. rewrite (pc_anti a b). destruct (path_compare a b) eqn:E; cbn; auto.
  apply pc_eq in E. contradiction.
Qed.

Lemma lex_lt_cons1 : forall x y r1 r2,
  lex_lt ([x] :: r1) ([y] :: r2) = if x <? y then true else if y <? x then false else lex_lt r1 r2.
Proof.
  intros. unfold lex_lt, path_compare. cbn [list_compare]. unfold str_compare at 1. cbn [list_compare].
  destruct (Z.compare_spec x y) as [->|H|H].
  - rewrite Z.ltb_irrefl. reflexivity.
  - assert (x <? y = true) as -> by lia. reflexivity.
  - assert (x <? y = false) as -> by lia. assert (y <? x = true) as -> by lia. reflexivity.
Qed.

Lemma lex_lt_consb : forall p q r1 r2,
  lex_lt ([b2z p] :: r1) ([b2z q] :: r2) = if negb p && q then true else if p && negb q then false else lex_lt r1 r2.
Proof. intros. rewrite lex_lt_cons1. destruct p, q; reflexivity. Qed.

(* ------------------------------------------------------------------------------------------------------------------ *)
(* split / join *)

Lemma split_chr_nonempty : forall sep s, split_chr sep s <> [].
Proof.
  induction s as [|c r IH]; cbn [split_chr]; [discriminate|].
  destruct (c =? sep); [discriminate|]. destruct (split_chr sep r); discriminate.
Qed.

Lemma len_split_ge_1 : forall sep s, 1 <= len (split_chr sep s).
Proof.
  intros. unfold len. pose proof (split_chr_nonempty sep s). destruct (split_chr sep s); [contradiction|]. cbn [length]. lia.
Qed.

Lemma join_split : forall sep s, join_chr sep (split_chr sep s) = s.
Proof.
  induction s as [|c r IH]; [reflexivity|]. cbn [split_chr].
  destruct (Z.eqb_spec c sep) as [->|Hne].
  - pose proof (split_chr_nonempty sep r). destruct (split_chr sep r) as [|p ps] eqn:E; [contradiction|].
    cbn [join_chr app]. change (match ps with [] => p | _ :: _ => p ++ sep :: join_chr sep ps end) with (join_chr sep (p :: ps)).
    rewrite IH. reflexivity.
  - pose proof (split_chr_nonempty sep r). destruct (split_chr sep r) as [|p ps] eqn:E; [contradiction|].
    cbn [join_chr]. destruct ps as [|q qs].
    + cbn [join_chr] in IH. rewrite IH. reflexivity.
    + cbn [join_chr] in IH. rewrite <- IH. reflexivity.
Qed.

Lemma split_chr_inj : forall sep a b, split_chr sep a = split_chr sep b -> a = b.
Proof. intros sep a b H. rewrite <- (join_split sep a), <- (join_split sep b), H. reflexivity. Qed.

(* ------------------------------------------------------------------------------------------------------------------ *)
(* per-run obligations on the regenerated operators / structural constants (closed by computation on Gen/IncludeOrderOps.v).
   A flipped operator, swapped return value or changed structural constant in the source breaks exactly one of these. *)

Lemma lt_first_op_1_now : lt_first_op_1 = Lt. Proof. reflexivity. Qed.
Lemma lt_ret_1_now : lt_ret_1 = true. Proof. reflexivity. Qed.
Lemma lt_first_op_2_now : lt_first_op_2 = Gt. Proof. reflexivity. Qed.
Lemma lt_ret_2_now : lt_ret_2 = false. Proof. reflexivity. Qed.
Lemma chr_system_now : chr_system = 60. Proof. reflexivity. Qed.
Lemma lt_ret_3_now : lt_ret_3 = false. Proof. reflexivity. Qed.
Lemma lt_ret_4_now : lt_ret_4 = true. Proof. reflexivity. Qed.
Lemma suffix_sides_agree : suffix_h_b = suffix_h_a. Proof. reflexivity. Qed.
Lemma ext_ret_first_now : ext_ret_first = true. Proof. reflexivity. Qed.
Lemma ext_ret_second_now : ext_ret_second = false. Proof. reflexivity. Qed.
Lemma cpp_ret_first_now : cpp_ret_first = true. Proof. reflexivity. Qed.
Lemma cpp_ret_second_now : cpp_ret_second = false. Proof. reflexivity. Qed.
Lemma path_sep_a_now : path_sep_a = 47. Proof. reflexivity. Qed.
Lemma path_sep_b_now : path_sep_b = 47. Proof. reflexivity. Qed.
Lemma chr_local_now : chr_local = 34. Proof. reflexivity. Qed.
Lemma path_lt_op_now : path_lt_op = Lt. Proof. reflexivity. Qed.
Lemma local_sides_agree : local_b = local_a. Proof. reflexivity. Qed.
Lemma local_len_op_now : local_len_op_a = Gt. Proof. reflexivity. Qed.
Lemma local_len_bound_now : local_len_bound_a = 1. Proof. reflexivity. Qed.
Lemma local_add2_op_now : local_add2_op_a = Add. Proof. reflexivity. Qed.
Lemma local_tests_op_now : local_tests_op_a = Add. Proof. reflexivity. Qed.
Lemma local_same_op_now : local_same_op = Eq. Proof. reflexivity. Qed.
Lemma local_lt_op_now : local_lt_op = Lt. Proof. reflexivity. Qed.
Lemma depth_op_1a_now : depth_op_1a = Eq. Proof. reflexivity. Qed.
Lemma depth_c_1a_now : depth_c_1a = 1. Proof. reflexivity. Qed.
Lemma depth_op_1b_now : depth_op_1b = Gt. Proof. reflexivity. Qed.
Lemma depth_c_1b_now : depth_c_1b = 1. Proof. reflexivity. Qed.
Lemma depth_ret_1_now : depth_ret_1 = true. Proof. reflexivity. Qed.
Lemma depth_op_2a_now : depth_op_2a = Gt. Proof. reflexivity. Qed.
Lemma depth_c_2a_now : depth_c_2a = 1. Proof. reflexivity. Qed.
Lemma depth_op_2b_now : depth_op_2b = Eq. Proof. reflexivity. Qed.
Lemma depth_c_2b_now : depth_c_2b = 1. Proof. reflexivity. Qed.
Lemma depth_ret_2_now : depth_ret_2 = false. Proof. reflexivity. Qed.
Lemma depth_op_3a_now : depth_op_3a = Eq. Proof. reflexivity. Qed.
Lemma depth_c_3a_now : depth_c_3a = 2. Proof. reflexivity. Qed.
Lemma depth_op_3b_now : depth_op_3b = Gt. Proof. reflexivity. Qed.
Lemma depth_c_3b_now : depth_c_3b = 2. Proof. reflexivity. Qed.
Lemma depth_ret_3_now : depth_ret_3 = false. Proof. reflexivity. Qed.
Lemma depth_op_4a_now : depth_op_4a = Gt. Proof. reflexivity. Qed.
Lemma depth_c_4a_now : depth_c_4a = 2. Proof. reflexivity. Qed.
Lemma depth_op_4b_now : depth_op_4b = Eq. Proof. reflexivity. Qed.
Lemma depth_c_4b_now : depth_c_4b = 2. Proof. reflexivity. Qed.
Lemma depth_ret_4_now : depth_ret_4 = true. Proof. reflexivity. Qed.
Lemma inc_eq_op_now : inc_eq_op = Eq. Proof. reflexivity. Qed.

(* ------------------------------------------------------------------------------------------------------------------ *)
(* the pieces of the comparator against the pieces of the key *)

Lemma local_val_priority : forall path, local_val local_a path = priority path.
Proof.
  intros. unfold local_val, priority, local_a. cbn [lc_default lc_symbol lc_len_op lc_len_bound lc_add2_op lc_tests lc_tests_op lc_tests_bonus].
  rewrite local_len_op_now, local_len_bound_now, local_add2_op_now, local_tests_op_now.
  cbn [cmp ev2].
  destruct (lookup (hd [] path) priorities_1lvl) as [v|];
  destruct (str_eqb (hd [] path) local_symbol_a && (1 <? len path));
  destruct (lookup (nth 1 path []) priorities_2lvl);
  destruct (existsb (fun p => str_eqb local_tests_a p) path); lia.
Qed.

Lemma check_local_spec : forall pa pb,
  check_local_include pa pb =
  if priority pa <? priority pb then Some true else if priority pb <? priority pa then Some false else None.
Proof.
  intros. unfold check_local_include. rewrite local_sides_agree, !local_val_priority, local_same_op_now, local_lt_op_now.
  cbn [cmp].
  destruct (Z.eqb_spec (priority pa) (priority pb)) as [->|Hne].
  - rewrite Z.ltb_irrefl. reflexivity.
  - destruct (Z.ltb_spec (priority pa) (priority pb)); [reflexivity|].
    assert (priority pb <? priority pa = true) as -> by lia. reflexivity.
Qed.

Lemma check_depth_spec : forall la lb, 1 <= la -> 1 <= lb ->
  check_include_depth la lb =
  if depth_class la <? depth_class lb then Some true else if depth_class lb <? depth_class la then Some false else None.
Proof.
  intros la lb Ha Hb. unfold check_include_depth, depth_rule.
  rewrite depth_op_1a_now, depth_c_1a_now, depth_op_1b_now, depth_c_1b_now, depth_ret_1_now, depth_op_2a_now, depth_c_2a_now, depth_op_2b_now, depth_c_2b_now, depth_ret_2_now, depth_op_3a_now, depth_c_3a_now, depth_op_3b_now, depth_c_3b_now, depth_ret_3_now, depth_op_4a_now, depth_c_4a_now, depth_op_4b_now, depth_c_4b_now, depth_ret_4_now.
  cbn [cmp]. unfold depth_class.
  destruct (Z.eqb_spec la 1); destruct (Z.eqb_spec lb 1); destruct (Z.eqb_spec la 2); destruct (Z.eqb_spec lb 2);
  destruct (Z.ltb_spec 1 la); destruct (Z.ltb_spec 1 lb); destruct (Z.ltb_spec 2 la); destruct (Z.ltb_spec 2 lb);
  cbn [andb]; try lia; reflexivity.
Qed.

Definition key_tail (a : str) : list str :=
  let f := hd 0 a in
  let path := split_chr 47 a in
  [ [b2z (negb (is_external_include a))]; [b2z (negb (is_cpp_include a))];
    [if f =? 34 then priority path else 0]; [if f =? 34 then depth_class (len path) else 0] ] ++ path.

Lemma compare_paths_key : forall a b, hd 0 a = hd 0 b -> compare_paths a b = lex_lt (key_tail a) (key_tail b).
Proof.
  intros a b Hf. unfold compare_paths, key_tail. cbn [app].
  rewrite lex_lt_consb. unfold check_external_include, check_tri. rewrite ext_ret_first_now, ext_ret_second_now.
  destruct (is_external_include a), (is_external_include b); cbn [negb andb]; try reflexivity;
  (rewrite lex_lt_consb; unfold check_cpp_include; rewrite cpp_ret_first_now, cpp_ret_second_now;
   destruct (is_cpp_include a), (is_cpp_include b); cbn [negb andb]; try reflexivity;
   (rewrite path_sep_a_now, path_sep_b_now, chr_local_now, path_lt_op_now, <- Hf;
    destruct (hd 0 a =? 34);
    [ rewrite check_local_spec, lex_lt_cons1;
      destruct (priority (split_chr 47 a) <? priority (split_chr 47 b)); [reflexivity|];
      destruct (priority (split_chr 47 b) <? priority (split_chr 47 a)); [reflexivity|];
      rewrite check_depth_spec by apply len_split_ge_1; rewrite lex_lt_cons1;
      destruct (depth_class (len (split_chr 47 a)) <? depth_class (len (split_chr 47 b))); [reflexivity|];
      destruct (depth_class (len (split_chr 47 b)) <? depth_class (len (split_chr 47 a))); reflexivity
    | rewrite !lex_lt_cons1; cbn; reflexivity ])).
Qed.

Lemma key_unfold : forall a,
  key a = [hd 0 a] :: [if hd 0 a =? 60 then b2z (c_header suffix_h_a a) else 0] :: key_tail a.
Proof. reflexivity. Qed.

(* lt_key: the comparator is the lexicographic order of the key *)
Theorem lt_b_key : forall a b, lt_b a b = lex_lt (key a) (key b).
Proof.
  intros. rewrite !key_unfold, lex_lt_cons1. unfold lt_b.
  rewrite lt_first_op_1_now, lt_ret_1_now, lt_first_op_2_now, lt_ret_2_now, chr_system_now, lt_ret_3_now, lt_ret_4_now, suffix_sides_agree.
  cbn [cmp].
  destruct (Z.ltb_spec (hd 0 a) (hd 0 b)); [reflexivity|].
  destruct (Z.ltb_spec (hd 0 b) (hd 0 a)); [reflexivity|].
  assert (Hf : hd 0 a = hd 0 b) by lia. rewrite <- Hf.
  destruct (hd 0 a =? 60).
  - rewrite lex_lt_consb. destruct (c_header suffix_h_a a), (c_header suffix_h_a b); cbn [negb andb orb];
    try reflexivity; apply compare_paths_key; assumption.
  - rewrite lex_lt_cons1. cbn. apply compare_paths_key; assumption.
Qed.

Theorem lt_key : forall a b, a <> [] -> b <> [] -> lt a b = Ok (lex_lt (key a) (key b)).
Proof.
  intros a b Ha Hb. destruct a; [contradiction|]. destruct b; [contradiction|]. unfold lt. rewrite lt_b_key. reflexivity.
Qed.

Lemma key_inj : forall a b, key a = key b -> a = b.
Proof.
  intros a b H. unfold key in H. cbn [app] in H. injection H. intros Hp _ _ _ _ _ _. apply (split_chr_inj 47); assumption.
Qed.

(* ---- strict weak order (indeed strict total order) on ALL strings ---- *)

Theorem lt_irreflexive : forall a, lt_b a a = false.
Proof. intros. rewrite lt_b_key. apply lex_lt_irrefl. Qed.

Theorem lt_asymmetric : forall a b, lt_b a b = true -> lt_b b a = false.
Proof. intros a b. rewrite !lt_b_key. apply lex_lt_asym. Qed.

Theorem lt_transitive : forall a b c, lt_b a b = true -> lt_b b c = true -> lt_b a c = true.
Proof. intros a b c. rewrite !lt_b_key. apply lex_lt_trans. Qed.

Theorem lt_total : forall a b, a <> b -> lt_b a b = true \/ lt_b b a = true.
Proof. intros a b Hne. rewrite !lt_b_key. apply lex_lt_total. intros H. apply Hne, key_inj, H. Qed.

Lemma incomparable_eq : forall a b, lt_b a b = false -> lt_b b a = false -> a = b.
Proof.
  intros a b H1 H2. destruct (list_eq_dec Z.eq_dec a b) as [|Hne]; [assumption|].
  destruct (lt_total a b Hne); congruence.
Qed.

Theorem lt_incomparability_transitive : forall a b c,
  lt_b a b = false -> lt_b b a = false -> lt_b b c = false -> lt_b c b = false -> lt_b a c = false /\ lt_b c a = false.
Proof.
  intros a b c H1 H2 H3 H4. rewrite (incomparable_eq a b H1 H2), <- (incomparable_eq b c H3 H4), lt_irreflexive. auto.
Qed.

Definition strict_weak_order (r : str -> str -> bool) : Prop :=
  (forall a, r a a = false)
  /\ (forall a b, r a b = true -> r b a = false)
  /\ (forall a b c, r a b = true -> r b c = true -> r a c = true)
  /\ (forall a b c, r a b = false -> r b a = false -> r b c = false -> r c b = false -> r a c = false /\ r c a = false).

Theorem lt_strict_weak_order : strict_weak_order lt_b.
Proof.
  repeat split.
  - apply lt_irreflexive.
  - apply lt_asymmetric.
  - apply lt_transitive.
  - eapply lt_incomparability_transitive; eauto.
  - eapply lt_incomparability_transitive; eauto.
Qed.

Lemma inc_eq_spec : forall a b, inc_eq a b = true <-> a = b.
Proof. intros. unfold inc_eq. rewrite inc_eq_op_now. apply str_eqb_eq. Qed.
