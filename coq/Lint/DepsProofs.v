(* Proofs about Lint/Deps.v: define expansion is the product of the leaf names of both sides; every pair produced by
   process_rules is a path (length >= 1) in the graph of expanded rules; an allowed include is justified by such a path. *)
From Coq Require Import Lia.
From Symv Require Import Lint.Regex Lint.Deps.
Open Scope list_scope.

(* ---- concat_opt ---- *)
Lemma concat_opt_in {A B} (g : B -> option (list A)) l rs :
  concat_opt (map g l) = Some rs -> forall y, In y rs <-> exists x r, In x l /\ g x = Some r /\ In y r.
Proof.
  revert rs. induction l as [| x l IH]; simpl; intros rs H y.
  - inversion H; subst. split; [intros [] | intros (x & r & [] & _)].
  - destruct (g x) as [r |] eqn:E; [| discriminate].
    destruct (concat_opt (map g l)) as [rest |] eqn:E2; [| discriminate]. inversion H; subst.
    rewrite in_app_iff, (IH rest eq_refl y). split.
    + intros [Hy | (x' & r' & Hx & Hg & Hy)].
      * exists x, r. auto.
      * exists x', r'. auto.
    + intros (x' & r' & [-> | Hx] & Hg & Hy).
      * left. congruence.
      * right. exists x', r'. auto.
Qed.

(* ---- define expansion ---- *)
Inductive leaf (d : defines) : name -> name -> Prop :=
| leaf_self n : lookup_def d n = None -> leaf d n n
| leaf_step n deps m x : lookup_def d n = Some deps -> In m deps -> leaf d m x -> leaf d n x.

Lemma leaf_undefined d n x : lookup_def d n = None -> leaf d n x -> x = n.
Proof. intros H L. inversion L; subst; [reflexivity | congruence]. Qed.

Theorem expand_spec fuel : forall d s t rs a b,
  expand fuel d s t = Some rs -> (In (a, b) rs <-> leaf d s a /\ leaf d t b).
Proof.
  induction fuel as [| f IH]; intros d s t rs a b H; simpl in H; [discriminate |].
  destruct (lookup_def d s) as [deps |] eqn:Es.
  - rewrite (concat_opt_in (fun s0 => expand f d s0 t) deps rs H). split.
    + intros (m & r & Hm & Hr & Hy). apply (IH d m t r a b Hr) in Hy. destruct Hy as [L1 L2].
      split; [eapply leaf_step; eauto | exact L2].
    + intros [L1 L2]. inversion L1; subst; [congruence |].
      assert (deps0 = deps) by congruence. subst deps0.
      assert (X : exists r, expand f d m t = Some r).
      { clear - H H1. revert rs H. induction deps as [| y deps IHd]; [contradiction |]. simpl. intros rs H.
        destruct (expand f d y t) as [r |] eqn:E; [| discriminate].
        destruct (concat_opt (map (fun s0 => expand f d s0 t) deps)) as [rest |] eqn:E2; [| discriminate].
        destruct H1 as [-> | Hin]; [eauto | eapply IHd; eauto]. }
      destruct X as [r Hr]. exists m, r. repeat split; auto. apply (IH d m t r a b Hr). auto.
  - destruct (lookup_def d t) as [deps |] eqn:Et.
    + rewrite (concat_opt_in (fun t0 => expand f d s t0) deps rs H). split.
      * intros (m & r & Hm & Hr & Hy). apply (IH d s m r a b Hr) in Hy. destruct Hy as [L1 L2].
        split; [exact L1 | eapply leaf_step; eauto].
      * intros [L1 L2]. inversion L2; subst; [congruence |].
        assert (deps0 = deps) by congruence. subst deps0.
        assert (X : exists r, expand f d s m = Some r).
        { clear - H H1. revert rs H. induction deps as [| y deps IHd]; [contradiction |]. simpl. intros rs H.
          destruct (expand f d s y) as [r |] eqn:E; [| discriminate].
          destruct (concat_opt (map (fun t0 => expand f d s t0) deps)) as [rest |] eqn:E2; [| discriminate].
          destruct H1 as [-> | Hin]; [eauto | eapply IHd; eauto]. }
        destruct X as [r Hr]. exists m, r. repeat split; auto. apply (IH d s m r a b Hr). auto.
    + inversion H; subst. simpl. split.
      * intros [E | []]. inversion E; subst. split; apply leaf_self; assumption.
      * intros [L1 L2]. left. rewrite (leaf_undefined d s a Es L1), (leaf_undefined d t b Et L2). reflexivity.
Qed.

Theorem process_defines_spec fuel d lines ex a b :
  process_defines fuel d lines = Some ex ->
  (In (a, b) ex <-> exists s t, In (s, t) lines /\ leaf d s a /\ leaf d t b).
Proof.
  unfold process_defines. intro H. rewrite (concat_opt_in (fun r => expand fuel d (fst r) (snd r)) lines ex H). split.
  - intros ([s t] & r & Hin & Hr & Hy). simpl in Hr. apply (expand_spec fuel d s t r a b Hr) in Hy. exists s, t. tauto.
  - intros (s & t & Hin & L1 & L2).
    assert (X : exists r, expand fuel d s t = Some r).
    { clear - H Hin. revert ex H. induction lines as [| y lines IHl]; [contradiction |]. simpl. intros ex H.
      destruct (expand fuel d (fst y) (snd y)) as [r |] eqn:E; [| discriminate].
      destruct (concat_opt (map (fun r0 => expand fuel d (fst r0) (snd r0)) lines)) as [rest |] eqn:E2; [| discriminate].
      destruct Hin as [-> | Hin]; [simpl in E; eauto | eapply IHl; eauto]. }
    destruct X as [r Hr]. exists (s, t), r. repeat split; auto. apply (expand_spec fuel d s t r a b Hr). auto.
Qed.

(* ---- closure ---- *)
Inductive reach (ex : list rule) : name -> name -> Prop :=
| reach_edge a b : In (a, b) ex -> reach ex a b
| reach_step a b c : In (a, b) ex -> reach ex b c -> reach ex a c.

Definition dict_sat (P : name -> name -> Prop) (t : dict) : Prop := forall k vs v, In (k, vs) t -> In v vs -> P k v.

Lemma string_eqb_eq a b : String.eqb a b = true -> a = b.
Proof. apply String.eqb_eq. Qed.

Lemma set_union_in vs : forall old x, In x (set_union old vs) -> In x old \/ In x vs.
Proof.
  induction vs as [| v vs IH]; intros old x H; simpl in *; [auto |].
  apply IH in H. destruct H as [H | H]; [| auto].
  destruct (mem v old); [auto |]. apply in_app_or in H. destruct H as [H | [-> | []]]; auto.
Qed.

Lemma dict_add_sat P t k v : dict_sat P t -> P k v -> dict_sat P (dict_add t k v).
Proof.
  intros Ht Hp. induction t as [| [k' vs] r IH]; cbn [dict_add].
  - intros k0 vs0 v0 [E | []] Hv. inversion E; subst. destruct Hv as [-> | []]. exact Hp.
  - destruct (String.eqb k' k) eqn:E.
    + apply string_eqb_eq in E. subst k'. intros k0 vs0 v0 [X | X] Hv.
      * inversion X; subst. assert (Hv' : In v0 vs \/ In v0 [v]) by (apply (set_union_in [v] vs v0); exact Hv).
        destruct Hv' as [Hv' | [-> | []]]; [eapply Ht; [left; reflexivity | exact Hv'] | exact Hp].
      * eapply Ht; [right; exact X | exact Hv].
    + intros k0 vs0 v0 [X | X] Hv.
      * inversion X; subst. eapply Ht; [left; reflexivity | exact Hv].
      * apply (IH (fun a b c Ha Hc => Ht a b c (or_intror Ha) Hc) k0 vs0 v0 X Hv).
Qed.

Lemma build_transitive_sat ex : dict_sat (fun a b => In (a, b) ex) (build_transitive ex).
Proof.
  unfold build_transitive.
  assert (G : forall l t, (forall r, In r l -> In r ex) -> dict_sat (fun a b => In (a, b) ex) t ->
              dict_sat (fun a b => In (a, b) ex) (fold_left (fun t r => dict_add t (fst r) (snd r)) l t)).
  { induction l as [| [a b] l IH]; intros t Hl Ht; simpl; [exact Ht |].
    apply IH; [intros r Hr; apply Hl; right; exact Hr |]. apply dict_add_sat; [exact Ht | apply Hl; left; reflexivity]. }
  apply G; [auto | intros k vs v []].
Qed.

Lemma dict_extend_sat P t k vs : dict_sat P t -> (forall v, In v vs -> P k v) -> dict_sat P (dict_extend t k vs).
Proof.
  intros Ht Hp. induction t as [| [k' old] r IH]; cbn [dict_extend].
  - intros k0 vs0 v0 [E | []] Hv. inversion E; subst. apply set_union_in in Hv. destruct Hv as [[] | Hv]. apply Hp. exact Hv.
  - destruct (String.eqb k' k) eqn:E.
    + apply string_eqb_eq in E. subst k'. intros k0 vs0 v0 [X | X] Hv.
      * inversion X; subst. apply set_union_in in Hv. destruct Hv as [Hv | Hv]; [eapply Ht; [left; reflexivity | exact Hv] | apply Hp; exact Hv].
      * eapply Ht; [right; exact X | exact Hv].
    + intros k0 vs0 v0 [X | X] Hv.
      * inversion X; subst. eapply Ht; [left; reflexivity | exact Hv].
      * apply (IH (fun a b c Ha Hc => Ht a b c (or_intror Ha) Hc) k0 vs0 v0 X Hv).
Qed.

Lemma dict_get_in t n vs : dict_get t n = Some vs -> In (n, vs) t.
Proof.
  induction t as [| [k v] r IH]; simpl; [discriminate |]. destruct (String.eqb k n) eqn:E.
  - intro H. inversion H; subst. apply string_eqb_eq in E. subst. left. reflexivity.
  - intro H. right. apply IH. exact H.
Qed.

Lemma reach_trans_edge ex a b c : In (a, b) ex -> reach ex b c -> reach ex a c.
Proof. intros. eapply reach_step; eauto. Qed.

Lemma add_rules_sat ex rules n deps :
  dict_sat (reach ex) rules -> (forall dep, In dep deps -> In (n, dep) ex) -> dict_sat (reach ex) (add_rules rules n deps).
Proof.
  unfold add_rules. revert rules. induction deps as [| dep deps IH]; intros rules Hr Hd; simpl; [exact Hr |].
  apply IH; [| intros x Hx; apply Hd; right; exact Hx].
  apply dict_extend_sat; [exact Hr |]. intros v Hv.
  assert (E : In (n, dep) ex) by (apply Hd; left; reflexivity).
  destruct (dict_get rules dep) as [sub |] eqn:G.
  - apply in_app_or in Hv. destruct Hv as [Hv | [-> | []]].
    + eapply reach_step; [exact E |]. eapply Hr; [apply dict_get_in; exact G | exact Hv].
    + apply reach_edge. exact E.
  - destruct Hv as [-> | []]. apply reach_edge. exact E.
Qed.

Lemma pick_in all t e rest : pick_self_contained all t = Some (e, rest) -> In e t /\ (forall x, In x rest -> In x t).
Proof.
  revert e rest. induction t as [| [k deps] r IH]; simpl; intros e rest H; [discriminate |].
  destruct (forallb (fun dep => negb (has_key all dep)) deps).
  - inversion H; subst. split; [left; reflexivity | intros x Hx; right; exact Hx].
  - destruct (pick_self_contained all r) as [[e' rest'] |] eqn:E; [| discriminate]. inversion H; subst.
    destruct (IH e rest' eq_refl) as [I1 I2]. split; [right; exact I1 |].
    intros x [-> | Hx]; [left; reflexivity | right; apply I2; exact Hx].
Qed.

Lemma closure_loop_sat ex fuel : forall transitive rules result,
  dict_sat (fun a b => In (a, b) ex) transitive -> dict_sat (reach ex) rules ->
  closure_loop fuel transitive rules = Some result -> dict_sat (reach ex) result.
Proof.
  induction fuel as [| f IH]; intros transitive rules result Ht Hr H.
  - destruct transitive; simpl in H; [inversion H; subst; exact Hr | discriminate].
  - destruct transitive as [| e0 t0]; [simpl in H; inversion H; subst; exact Hr |].
    cbn [closure_loop] in H.
    destruct (pick_self_contained (e0 :: t0) (e0 :: t0)) as [[[n deps] rest] |] eqn:E; [| discriminate].
    destruct (pick_in _ _ _ _ E) as [I1 I2].
    apply (IH rest (add_rules rules n deps) result); [| | exact H].
    + intros k vs v Hk Hv. eapply Ht; [apply I2; exact Hk | exact Hv].
    + apply add_rules_sat; [exact Hr |]. intros dep Hd. apply (Ht n deps dep I1 Hd).
Qed.

Lemma flatten_in t a b : In (a, b) (flatten t) <-> exists vs, In (a, vs) t /\ In b vs.
Proof.
  unfold flatten. rewrite in_flat_map. split.
  - intros ([k vs] & Hin & Hm). simpl in Hm. apply in_map_iff in Hm. destruct Hm as (v & E & Hv). inversion E; subst. eauto.
  - intros (vs & Hin & Hv). exists (a, vs). split; [exact Hin |]. simpl. apply in_map_iff. eauto.
Qed.

(* every pair the linter compiles into an allow-rule is a path of length >= 1 in the graph of expanded rules *)
Theorem process_rules_sound ex t a b : process_rules ex = Some t -> In (a, b) (flatten t) -> reach ex a b.
Proof.
  unfold process_rules. intros H Hin. apply flatten_in in Hin. destruct Hin as (vs & Hk & Hv).
  pose proof (closure_loop_sat ex _ _ [] t (build_transitive_sat ex) (fun k vs v (F : In (k, vs) []) => match F with end) H) as S.
  exact (S a vs b Hk Hv).
Qed.

(* an include that the model allows is justified by a path between names whose regex readings match both directories *)
Theorem deps_allowed_justified table fuel d lines compiled src dest :
  create_rules fuel d lines = Some compiled -> deps_allowed table compiled src dest = true ->
  exists ex a b, process_defines fuel d lines = Some ex /\ reach ex a b
                 /\ matches (name_regex table a) src = true /\ matches (name_regex table b) (fixed_dest src dest) = true.
Proof.
  unfold create_rules, deps_allowed. intros H Ha.
  destruct (process_defines fuel d lines) as [ex |] eqn:E; [| discriminate].
  destruct (process_rules ex) as [t |] eqn:E2; [| discriminate]. inversion H; subst.
  apply existsb_exists in Ha. destruct Ha as ([a b] & Hin & Hm). apply andb_true_iff in Hm. destruct Hm as [M1 M2].
  exists ex, a, b. repeat split; auto. eapply process_rules_sound; eauto.
Qed.

(* hence: no justifying path => the include is reported (DepsChecker.match returns False and appends the error) *)
Corollary dependency_flagged table fuel d lines compiled src dest ex :
  create_rules fuel d lines = Some compiled -> process_defines fuel d lines = Some ex ->
  (forall a b, reach ex a b -> matches (name_regex table a) src = true -> matches (name_regex table b) (fixed_dest src dest) = true -> False) ->
  deps_allowed table compiled src dest = false.
Proof.
  intros H He Hno. destruct (deps_allowed table compiled src dest) eqn:A; [| reflexivity].
  destruct (deps_allowed_justified table fuel d lines compiled src dest H A) as (ex' & a & b & E & R & M1 & M2).
  assert (ex' = ex) by congruence. subst. exfalso. eapply Hno; eauto.
Qed.

(* evaluation shortcut used by the correspondence harness: translate the names of the compiled pairs once *)
Definition precompile (table : list (name * regex)) (compiled : list rule) : list (regex * regex) :=
  map (fun r => (name_regex table (fst r), name_regex table (snd r))) compiled.
Definition allowed_precompiled (res : list (regex * regex)) (src dest : list Z) : bool :=
  existsb (fun r => matches (fst r) src && matches (snd r) (fixed_dest src dest)) res.

Lemma deps_allowed_precompiled table compiled src dest :
  deps_allowed table compiled src dest = allowed_precompiled (precompile table compiled) src dest.
Proof.
  unfold deps_allowed, allowed_precompiled, precompile. induction compiled as [| r c IH]; simpl; [reflexivity |].
  rewrite IH. reflexivity.
Qed.
