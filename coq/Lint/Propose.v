(* linters/cpp/checkProjectStructure.py: Entry.__init__ (own path), Entry.fix_relative, Entry.check_includes (sort, own header
   first, the includesOrder / firstInclude complaints), is_special_include.  Model file: definitions only. *)
From Symv Require Export Lint.IncludeOrder.
Open Scope Z_scope.

(* ---- the regex subset that occurs: fixed-width patterns of literal characters and `.` ---- *)
Inductive pat := PAny | PChr (c : Z).

Definition pat_elem_match (p : pat) (c : Z) : bool :=
  match p with PAny => negb (c =? 10) | PChr x => c =? x end.

(* pattern.match(s): anchored at the start, need not reach the end *)
Fixpoint pat_match (p : list pat) (s : str) : bool :=
  match p, s with
  | [], _ => true
  | _ :: _, [] => false
  | e :: p', c :: s' => pat_elem_match e c && pat_match p' s'
  end.

(* re.sub(pattern, '', s): leftmost non-overlapping matches removed (an empty pattern removes nothing) *)
Fixpoint sub_all_aux (p : list pat) (skip : nat) (s : str) : str :=
  match s with
  | [] => []
  | c :: r =>
    match skip with
    | S k => sub_all_aux p k r
    | O => if pat_match p s then sub_all_aux p (length p - 1) r else c :: sub_all_aux p 0 r
    end
  end.
Definition sub_all (p : list pat) (s : str) : str := match p with [] => s | _ => sub_all_aux p 0 s end.

Definition pat_of_code (z : Z) : pat := if z <? 0 then PAny else PChr z.

Definition is_special_include (inc : str) : bool :=
  existsb (fun p => pat_match (map pat_of_code p) inc) special_patterns.

(* a path used as a regular expression: `.` is a wildcard, any other regex metacharacter is outside the modelled subset *)
Definition regex_special : list Z := [46; 94; 36; 42; 43; 63; 123; 125; 91; 93; 92; 124; 40; 41].
Fixpoint own_pattern (s : str) : option (list pat) :=
  match s with
  | [] => Some []
  | c :: r =>
    match own_pattern r with
    | None => None
    | Some p => if c =? 46 then Some (PAny :: p) else if existsb (Z.eqb c) regex_special then None else Some (PChr c :: p)
    end
  end.

(* ---- Entry.__init__: include_fix_own_path ---- *)
Fixpoint split_by (f : Z -> bool) (s : str) : list str :=
  match s with
  | [] => [[]]
  | c :: r => if f c then [] :: split_by f r
              else match split_by f r with p :: ps => (c :: p) :: ps | [] => [[c]] end
  end.
Definition split_path (s : str) : list str := split_by (fun c => (c =? 47) || (c =? 92)) s.      (* re.split(r'[/\\]', s) *)

Definition own_path_of (full_path : str) : str :=
  let parts := split_path full_path in
  let dirs := if str_eqb (hd [] parts) own_src_dir then removelast (tl parts) else removelast parts in
  join_chr 47 dirs ++ [47].

(* ---- Entry.fix_relative (on the include string; the same substitution is applied to the line text) ---- *)
Definition fix_relative (own : list pat) (inc : str) : str :=
  let temp := sub_all own inc in
  if existsb (Z.eqb rel_sep) temp then inc else temp.

(* ---- list.sort() with SortableInclude.__lt__: stable insertion sort ---- *)
Fixpoint insert_sorted (x : str) (l : list str) : list str :=
  match l with
  | [] => [x]
  | y :: r => if lt_b y x then y :: insert_sorted x r else x :: y :: r
  end.
Definition sort_includes (l : list str) : list str := fold_right insert_sorted [] l.

(* ---- own header first ---- *)
Fixpoint remove_first_match (h : str) (l : list str) : option (str * list str) :=
  match l with
  | [] => None
  | x :: r => if str_cmp own_eq_op h x then Some (x, r)
              else match remove_first_match h r with Some (y, r') => Some (y, x :: r') | None => None end
  end.

Definition move_own (h : str) (s : list str) : list str :=
  match s with
  | [] => []
  | s0 :: _ =>
    if str_cmp own_ne_op h s0
    then match remove_first_match h s with Some (x, r) => x :: r | None => s end
    else s
  end.

(* what the ruleset's first_include_check / first_test_include_check returned (Rules.py is not modelled: the harness asks the
   real ruleset): a fixed header, or `sorted_includes[0].include` *)
Inductive own_header := OwnFirst | OwnIs (h : str).

Definition own_of (oh : own_header) (sorted : list str) : str :=
  match oh with OwnIs h => h | OwnFirst => hd [] sorted end.

(* the order the linter proposes; cpp = Some _ for a .cpp file *)
Definition propose (own : list pat) (cpp : option own_header) (l : list str) : list str :=
  let sorted := sort_includes (map (fix_relative own) l) in
  match cpp with
  | None => sorted
  | Some oh => move_own (own_of oh sorted) sorted
  end.

Fixpoint all2 (f : str -> str -> bool) (a b : list str) : bool :=
  match a, b with
  | [], [] => true
  | x :: a', y :: b' => f x y && all2 f a' b'
  | _, _ => false
  end.

(* list == / != list, elements compared with SortableInclude.__eq__ *)
Definition lists_cmp (o : pyop) (a b : list str) : bool :=
  match o with
  | Ne => negb (all2 inc_eq a b)
  | Eq => all2 inc_eq a b
  | _ => false
  end.

(* `original_includes != sorted_includes` -> 'includesOrder' *)
Definition complaint (own : list pat) (cpp : option own_header) (l : list str) : bool :=
  lists_cmp order_ne_op l (propose own cpp l).

(* `own_header != original_includes[0].include` -> 'firstInclude' *)
Definition first_complaint (own : list pat) (cpp : option own_header) (l : list str) : bool :=
  match cpp with
  | None => false
  | Some oh => str_cmp first_ne_op (own_of oh (sort_includes (map (fix_relative own) l))) (hd [] l)
  end.

Record include_report := { ir_proposal : list str; ir_order : bool; ir_first : bool }.

(* Entry.check_includes on the non-special includes of a file; a .cpp file without includes dies on `sorted_includes[0]` *)
Definition check_includes (own : list pat) (cpp : option own_header) (l : list str) : result include_report :=
  match cpp, l with
  | Some _, [] => Crash "IndexError"
  | _, _ => Ok {| ir_proposal := propose own cpp l; ir_order := complaint own cpp l; ir_first := first_complaint own cpp l |}
  end.

Definition is_cpp_path (full_path : str) : bool := ends_with suffix_cpp full_path.

(* ---- rendering for the correspondence check: code points below 256 as two hex digits, others as uXXXXXX ---- *)
Definition hex_cp (c : Z) : string :=
  if c <? 256 then to_hex [c] else String "u" (to_hex [c / 65536; (c / 256) mod 256; c mod 256]).
Fixpoint hex_str (s : str) : string := match s with [] => EmptyString | c :: r => (hex_cp c ++ hex_str r)%string end.
Fixpoint hex_lines (l : list str) : string :=
  match l with [] => EmptyString | x :: r => (hex_str x ++ "." ++ hex_lines r)%string end.

Definition render_check (own_path : str) (cpp : option own_header) (l : list str) : string :=
  match own_pattern own_path with
  | None => "unsupported-own-path"
  | Some own =>
    match check_includes own cpp l with
    | Ok r => (hex_lines (ir_proposal r) ++ "|" ++ bool_to_string (ir_order r) ++ bool_to_string (ir_first r))%string
    | Reject => "reject"
    | Crash k => ("crash:" ++ k)%string
    end
  end.
