(* Regular expressions over code points (Z) with the zero-width assertions ^, $ and \b; Brzozowski derivatives.
   Model file: definitions only (proofs in Lint/RegexProofs.v).

   The subset is the one Python's sre parser produces for the pattern literals of linters/cpp/validation.py that the
   translator harness/gens/c19.py accepts: literals, ".", classes (ranges, \s \w \d and their negations, negated classes),
   concatenation, alternation, groups (capturing or not: irrelevant for a boolean verdict), * + ? {m,n} (expanded), ^ $ \b.
   Back-references and look-arounds are outside the subset (the translator reports such a pattern as not translatable).

   Character categories are those of Python `str` patterns restricted as follows: \s is exactly Py_UNICODE_ISSPACE;
   \w and \d are exact on code points < 128 and false above (Python: Unicode alphanumerics / decimal digits).
   A line never contains code point 10, so "." is "not 10" and "$" is "end of line". *)
From Coq Require Export ZArith Bool List String.
Export ListNotations.
Open Scope Z_scope.

Inductive ccat := KSpace | KWord | KDigit.
Inductive citem := CRange (lo hi : Z) | CCat (neg : bool) (k : ccat).
Inductive anchor := ABol | AEol | AWordB.

Inductive regex :=
| Empty                                   (* matches nothing *)
| Eps
| Chr (neg : bool) (items : list citem)   (* one code point in (neg = false) / not in (neg = true) the item list *)
| Cat (r s : regex)
| Alt (r s : regex)
| Star (r : regex)
| Anc (a : anchor).

Definition Plus (r : regex) : regex := Cat r (Star r).
Definition Opt (r : regex) : regex := Alt Eps r.
Definition Any : regex := Chr true [CRange 10 10].
Definition Ch (c : Z) : regex := Chr false [CRange c c].
Fixpoint Lit (s : list Z) : regex :=
  match s with [] => Eps | [c] => Ch c | c :: t => Cat (Ch c) (Lit t) end.
Fixpoint Rep (n : nat) (r : regex) : regex := match n with O => Eps | S k => Cat r (Rep k r) end.
(* r{lo, lo+extra} *)
Fixpoint RepOpt (n : nat) (r : regex) : regex := match n with O => Eps | S k => Opt (Cat r (RepOpt k r)) end.
Definition RepRange (lo extra : nat) (r : regex) : regex := Cat (Rep lo r) (RepOpt extra r).

(* ---- character categories ---- *)
Definition is_space (c : Z) : bool :=
  ((9 <=? c) && (c <=? 13)) || ((28 <=? c) && (c <=? 32)) || (c =? 133) || (c =? 160) || (c =? 5760)
  || ((8192 <=? c) && (c <=? 8202)) || (c =? 8232) || (c =? 8233) || (c =? 8239) || (c =? 8287) || (c =? 12288).
Definition is_digit (c : Z) : bool := (48 <=? c) && (c <=? 57).
Definition is_word (c : Z) : bool :=
  is_digit c || ((65 <=? c) && (c <=? 90)) || ((97 <=? c) && (c <=? 122)) || (c =? 95).

Definition cat_mem (k : ccat) (c : Z) : bool :=
  match k with KSpace => is_space c | KWord => is_word c | KDigit => is_digit c end.
Definition item_mem (i : citem) (c : Z) : bool :=
  match i with CRange lo hi => (lo <=? c) && (c <=? hi) | CCat neg k => xorb neg (cat_mem k c) end.
Definition cset_mem (neg : bool) (items : list citem) (c : Z) : bool := xorb neg (existsb (fun i => item_mem i c) items).

(* ---- assertions: p = code point before the position (None at the start), n = code point after it (None at the end) ---- *)
Definition is_word_opt (o : option Z) : bool := match o with Some c => is_word c | None => false end.
Definition is_none (o : option Z) : bool := match o with None => true | Some _ => false end.
Definition anchor_ok (a : anchor) (p n : option Z) : bool :=
  match a with
  | ABol => is_none p
  | AEol => is_none n
  | AWordB => xorb (is_word_opt p) (is_word_opt n)
  end.

Fixpoint nullable (p n : option Z) (r : regex) : bool :=
  match r with
  | Empty => false
  | Eps => true
  | Chr _ _ => false
  | Cat r s => nullable p n r && nullable p n s
  | Alt r s => nullable p n r || nullable p n s
  | Star _ => true
  | Anc a => anchor_ok a p n
  end.

(* smart constructors (prune dead branches so that derivatives stay small) *)
Definition cat (r s : regex) : regex :=
  match r with
  | Empty => Empty
  | Eps => s
  | _ => match s with Empty => Empty | _ => Cat r s end
  end.
Definition alt (r s : regex) : regex :=
  match r with
  | Empty => s
  | _ => match s with Empty => r | _ => Alt r s end
  end.

(* derivative with respect to c, p being the code point before c *)
Fixpoint deriv (p : option Z) (c : Z) (r : regex) : regex :=
  match r with
  | Empty | Eps | Anc _ => Empty
  | Chr neg items => if cset_mem neg items c then Eps else Empty
  | Cat r s => alt (cat (deriv p c r) s) (if nullable p (Some c) r then deriv p c s else Empty)
  | Alt r s => alt (deriv p c r) (deriv p c s)
  | Star r => cat (deriv p c r) (Star r)
  end.

(* r matches exactly w, p before w and e after w *)
Fixpoint run (p : option Z) (r : regex) (w : list Z) (e : option Z) : bool :=
  match w with
  | [] => nullable p e r
  | c :: w' => run (Some c) (deriv p c r) w' e
  end.

(* r matches some prefix of s (s extends to the end of the line), p before s *)
Fixpoint prefix_match (p : option Z) (r : regex) (s : list Z) : bool :=
  match r with
  | Empty => false
  | _ => match s with
         | [] => nullable p None r
         | c :: s' => nullable p (Some c) r || prefix_match (Some c) (deriv p c r) s'
         end
  end.

Fixpoint search_from (p : option Z) (r : regex) (s : list Z) : bool :=
  prefix_match p r s || match s with [] => false | c :: s' => search_from (Some c) r s' end.

Definition matches (r : regex) (s : list Z) : bool := run None r s None.       (* re.fullmatch *)
Definition match_prefix (r : regex) (s : list Z) : bool := prefix_match None r s.  (* re.match *)
Definition search (r : regex) (s : list Z) : bool := search_from None r s.     (* re.search *)

(* ---- context classes: an assertion looks at a neighbour only through "absent / word character / other" ---- *)
Inductive cclass := KNone | KWordC | KOther.
Definition cls (o : option Z) : cclass := match o with None => KNone | Some c => if is_word c then KWordC else KOther end.
Definition rep (k : cclass) : option Z := match k with KNone => None | KWordC => Some 97 | KOther => Some 32 end.
Definition last_opt (l : list Z) : option Z := hd_error (rev l).

(* the witness w of pattern r is admissible between a left neighbour of class kp and a right neighbour of class ke *)
Definition admissible (r : regex) (w : list Z) (kp ke : cclass) : bool := run (rep kp) r w (rep ke).

Definition cclass_eqb (a b : cclass) : bool :=
  match a, b with KNone, KNone | KWordC, KWordC | KOther, KOther => true | _, _ => false end.

(* one entry of a regenerated pattern table: identifier (attribute name or error message), pattern, a witness word and the
   neighbour classes (left, right) between which the witness is claimed admissible (validated by the kernel per run) *)
Record pat := mkpat { p_id : string; p_re : regex; p_wit : list Z; p_ctx : list (cclass * cclass) }.

Definition pat_ok (p : pat) : bool :=
  negb (match p_ctx p with [] => true | _ => false end)
  && forallb (fun k => admissible (p_re p) (p_wit p) (fst k) (snd k)) (p_ctx p).
