(* Nested descriptors (Sym/Descriptor.v): a member whose value is a dictionary (struct rule) or a list (array rule), to any depth.
   - the rose-tree tools for descriptor values: depth, an induction principle with Forall premises, keys distinct at every level;
   - `described`: the specification of what the parsing rules make of a descriptor tree, recursively through struct and array rules;
   - parse / create_core yield exactly the described values (given members) and the constructor defaults (members not given);
   - a failure at any position inside fails the whole creation (nothing is ignored or truncated);
   - the fuel of `parse` is immaterial once it exceeds the depth of the descriptor tree, and immaterial altogether for a rule table
     whose struct / array rules nest less deeply than the fuel (checked on the regenerated tables in Props/C10.v).
   Specification-side text (literal `_computed`, the numeric ranges ...) is fixed here; the model side uses the regenerated constants. *)
From Symv Require Import Sym.Descriptor Sym.DescriptorProofs Cats.LayoutProofs Cats.LayoutInstProofs.
From Coq Require Import Lia ZifyBool.
Open Scope string_scope.
Open Scope list_scope.
Open Scope Z_scope.

(* ---------- descriptor values as rose trees ---------- *)
Definition max_list (l : list nat) : nat := fold_right Nat.max 0%nat l.
Fixpoint ddepth (d : dval) : nat :=
  match d with
  | DList l => S (max_list (map ddepth l))
  | DDict fs => S (max_list (map (fun p => ddepth (snd p)) fs))
  | _ => 0%nat
  end.

Lemma max_list_in n l : In n l -> (n <= max_list l)%nat.
Proof.
  induction l as [|a r IH]; cbn [In max_list fold_right]; intros H; [destruct H|].
  destruct H as [->|H]; [lia|]. apply IH in H. unfold max_list in H. lia.
Qed.

Lemma ddepth_elem x l : In x l -> (ddepth x < ddepth (DList l))%nat.
Proof.
  intros H. cbn [ddepth]. pose proof (max_list_in (ddepth x) (map ddepth l) (in_map ddepth l x H)). lia.
Qed.

Lemma ddepth_entry k x fs : In (k, x) fs -> (ddepth x < ddepth (DDict fs))%nat.
Proof.
  intros H. cbn [ddepth].
  pose proof (max_list_in (ddepth x) (map (fun p => ddepth (snd p)) fs)) as Hm.
  assert (Hin : In (ddepth x) (map (fun p : string * dval => ddepth (snd p)) fs)) by (apply in_map_iff; exists (k, x); auto).
  apply Hm in Hin. lia.
Qed.

(* induction over descriptor trees: the premises for lists and dictionaries speak about all their elements *)
Section DvalInd.
Variable P : dval -> Prop.
Hypothesis HInt : forall z, P (DInt z).
Hypothesis HStr : forall s, P (DStr s).
Hypothesis HBytes : forall b, P (DBytes b).
Hypothesis HObj : forall k cls v, P (DObj k cls v).
Hypothesis HList : forall l, Forall P l -> P (DList l).
Hypothesis HDict : forall fs, Forall (fun p => P (snd p)) fs -> P (DDict fs).
Fixpoint dval_tree_ind (d : dval) : P d :=
  match d with
  | DInt z => HInt z
  | DStr s => HStr s
  | DBytes b => HBytes b
  | DObj k cls v => HObj k cls v
  | DList l => HList l ((fix go (l : list dval) : Forall P l :=
                           match l with [] => Forall_nil P | x :: r => Forall_cons x (dval_tree_ind x) (go r) end) l)
  | DDict fs => HDict fs ((fix go (l : list (string * dval)) : Forall (fun p => P (snd p)) l :=
                             match l with [] => Forall_nil _ | p :: r => Forall_cons p (dval_tree_ind (snd p)) (go r) end) fs)
  end.
End DvalInd.

(* a Python dict has pairwise distinct keys -- at every nesting level *)
Inductive nodup_keys : dval -> Prop :=
| NkInt z : nodup_keys (DInt z)
| NkStr s : nodup_keys (DStr s)
| NkBytes b : nodup_keys (DBytes b)
| NkObj k cls v : nodup_keys (DObj k cls v)
| NkList l : Forall nodup_keys l -> nodup_keys (DList l)
| NkDict fs : NoDup (map fst fs) -> Forall (fun p => nodup_keys (snd p)) fs -> nodup_keys (DDict fs).

(* a decision procedure for nodup_keys (used to discharge the premise on concrete descriptors) *)
Fixpoint nodup_keysb (d : dval) : bool :=
  match d with
  | DList l => forallb nodup_keysb l
  | DDict fs => (fix nd (l : list (string * dval)) : bool :=
                   match l with [] => true | p :: r => negb (existsb (fun q => String.eqb (fst q) (fst p)) r) && nd r end) fs
                && forallb (fun p => nodup_keysb (snd p)) fs
  | _ => true
  end.

Lemma nodup_keysb_sound : forall d, nodup_keysb d = true -> nodup_keys d.
Proof.
  induction d as [z|s|b|k cls v|l IH|fs IH] using dval_tree_ind; intros H; try constructor.
  - cbn [nodup_keysb] in H. rewrite forallb_forall in H. rewrite Forall_forall in *. intros x Hx. apply IH; [exact Hx|]. apply H. exact Hx.
  - cbn [nodup_keysb] in H. apply Bool.andb_true_iff in H. destruct H as [H _]. clear IH. induction fs as [|p r IHr]; cbn [map]; constructor.
    + apply Bool.andb_true_iff in H. destruct H as [H _]. intros Hin. apply in_map_iff in Hin. destruct Hin as [q [Hq Hin]].
      apply Bool.negb_true_iff in H. rewrite <- Bool.not_true_iff_false in H. apply H. apply existsb_exists. exists q. split; [exact Hin|].
      rewrite Hq. apply String.eqb_refl.
    + apply IHr. apply Bool.andb_true_iff in H. destruct H as [_ H]. exact H.
  - cbn [nodup_keysb] in H. apply Bool.andb_true_iff in H. destruct H as [_ H]. rewrite forallb_forall in H. rewrite Forall_forall in *. intros p Hp.
    apply IH; [exact Hp|]. apply H. exact Hp.
Qed.

(* ---------- list / result utilities ---------- *)
Lemma mapM_ext_in {A B} (f g : A -> result B) l : (forall x, In x l -> f x = g x) -> mapM f l = mapM g l.
Proof.
  induction l as [|a r IH]; intros H; [reflexivity|]. cbn [mapM]. rewrite (H a (or_introl eq_refl)).
  rewrite IH; [reflexivity|]. intros x Hx. apply H. right. exact Hx.
Qed.

Lemma Forall2_in_l {A B} (R : A -> B -> Prop) l l' a : Forall2 R l l' -> In a l -> exists b, In b l' /\ R a b.
Proof.
  intros H. induction H as [|x y l l' Hxy Hrest IH]; intros Hin; [destruct Hin|].
  destruct Hin as [->|Hin]; [exists y; split; [left; reflexivity|exact Hxy]|].
  destruct (IH Hin) as [b [Hb Hr]]. exists b. split; [right; exact Hb|exact Hr].
Qed.

Lemma Forall2_impl_in {A B} (R S : A -> B -> Prop) l l' :
  (forall a b, In a l -> R a b -> S a b) -> Forall2 R l l' -> Forall2 S l l'.
Proof.
  intros Himp H. induction H as [|x y l l' Hxy Hrest IH]; constructor.
  - apply Himp; [left; reflexivity|exact Hxy].
  - apply IH. intros a b Ha. apply Himp. right. exact Ha.
Qed.

Lemma live_nil k : live [] k.
Proof. reflexivity. Qed.

(* ---------- the parser one level down matters only at the (rule, value) pairs the descriptor presents ---------- *)
Lemma lookup_value_with_ext N P Q cls k d :
  (forall r, rule_for N cls k = Some r -> P r d = Q r d) -> lookup_value_with N P cls k d = lookup_value_with N Q cls k d.
Proof.
  intros H. unfold lookup_value_with. destruct (rule_for N cls k) as [r|]; [|reflexivity]. rewrite (H r eq_refl). reflexivity.
Qed.

Lemma copy_to_with_ext N P Q cls ign kvs :
  (forall k d r, In (k, d) kvs -> rule_for N cls k = Some r -> P r d = Q r d) ->
  forall e, copy_to_with N P cls ign kvs e = copy_to_with N Q cls ign kvs e.
Proof.
  induction kvs as [|[k d] rest IH]; intros H e; [reflexivity|]. cbn [copy_to_with].
  assert (Hrest : forall e1, copy_to_with N P cls ign rest e1 = copy_to_with N Q cls ign rest e1).
  { apply IH. intros k0 d0 r0 Hin. apply H. right. exact Hin. }
  rewrite (lookup_value_with_ext N P Q cls k d); [|intros r Hr; apply (H k d r); [left; reflexivity|exact Hr]].
  destruct (existsb (String.eqb k) ign); [apply Hrest|].
  destruct (ends_with k computed_suffix); [reflexivity|].
  destruct (member_of N cls k) as [f|]; [|reflexivity].
  destruct (lookup_value_with N Q cls k d) as [x| |]; cbn [bind]; try reflexivity.
  destruct x; try apply Hrest.
  destruct (assoc (f_name f) e) as [[]|]; try reflexivity. apply Hrest.
Qed.

(* ---------- fuel ---------- *)
(* any two amounts of fuel above the depth of the descriptor tree give the same outcome (value, rejection or crash) *)
Theorem parse_fuel_irrelevant N : forall k1 k2 r d, (ddepth d < k1)%nat -> (ddepth d < k2)%nat -> parse N k1 r d = parse N k2 r d.
Proof.
  induction k1 as [|k1 IH]; intros k2 r d H1 H2; [lia|]. destruct k2 as [|k2]; [lia|].
  rewrite !parse_step. destruct r as [c|c|c|c|c|er]; try reflexivity.
  - destruct d as [z|s|b|ok oc ov|l|fs]; try reflexivity.
    destruct (new_instance N c) as [inst| |]; cbn [bind]; try reflexivity.
    destruct inst as [| | |c0 e0|]; try reflexivity.
    rewrite (copy_to_with_ext N (parse N k1) (parse N k2) c [] fs); [reflexivity|].
    intros k d r Hin _. pose proof (ddepth_entry k d fs Hin). apply IH; lia.
  - destruct d as [z|s|b|ok oc ov|l|fs]; try reflexivity.
    rewrite (mapM_ext_in (parse N k1 er) (parse N k2 er) l); [reflexivity|].
    intros x Hin. pose proof (ddepth_elem x l Hin). apply IH; lia.
Qed.

(* the nesting of struct / array rules reachable from a rule is below k *)
Fixpoint rule_fits (N : netcfg) (k : nat) (r : rule) {struct k} : bool :=
  match k with
  | O => false
  | S k' =>
    match r with
    | RArray er => rule_fits N k' er
    | RStruct cls => forallb (fun h => match rule_for N cls (fst h) with Some r' => rule_fits N k' r' | None => true end) (hints_of N cls)
    | _ => true
    end
  end.

Lemma rule_for_hinted N cls k r : rule_for N cls k = Some r -> exists h, In (k, h) (hints_of N cls).
Proof.
  unfold rule_for. destruct (assoc k (hints_of N cls)) as [h|] eqn:E; [|discriminate]. intros _. exists h. apply assoc_in. exact E.
Qed.

(* for such a rule, fuel k already is as good as any larger amount, whatever the descriptor value *)
Theorem parse_fuel_enough_for_rule N : forall k r, rule_fits N k r = true -> forall j d, parse N (k + j) r d = parse N k r d.
Proof.
  induction k as [|k IH]; intros r Hfit j d; [discriminate|].
  change (S k + j)%nat with (S (k + j)). rewrite !parse_step. cbn [rule_fits] in Hfit.
  destruct r as [c|c|c|c|c|er]; try reflexivity.
  - destruct d as [z|s|b|ok oc ov|l|fs]; try reflexivity.
    destruct (new_instance N c) as [inst| |]; cbn [bind]; try reflexivity.
    destruct inst as [| | |c0 e0|]; try reflexivity.
    rewrite (copy_to_with_ext N (parse N (k + j)) (parse N k) c [] fs); [reflexivity|].
    intros key dv r Hin Hr. apply IH. destruct (rule_for_hinted N c key r Hr) as [h Hh].
    rewrite forallb_forall in Hfit. specialize (Hfit (key, h) Hh). cbn [fst] in Hfit. rewrite Hr in Hfit. exact Hfit.
  - destruct d as [z|s|b|ok oc ov|l|fs]; try reflexivity.
    rewrite (mapM_ext_in (parse N (k + j) er) (parse N k er) l); [reflexivity|]. intros x _. apply IH. exact Hfit.
Qed.

Definition rules_fit (N : netcfg) (k : nat) : bool := forallb (fun p => rule_fits N k (snd p)) (rules_of N).

Lemma rule_for_in_rules N cls k r : rule_for N cls k = Some r -> exists rn, In (rn, r) (rules_of N).
Proof.
  unfold rule_for. destruct (assoc k (hints_of N cls)) as [h|]; [|discriminate]. destruct (hint_rule_name h) as [rn|]; [|discriminate].
  unfold rget. intros H. exists rn. apply assoc_in. exact H.
Qed.

(* creation with an arbitrary amount of fuel for the parsing rules: `create_core` is the instance parse_fuel *)
Definition create_core_fuel (N : netcfg) (k : nat) (embedded : bool) (ident : Z) (d : descriptor) : result value :=
  let d1 := dict_set d (n_network_key N) (DInt ident) in
  match assoc type_key d1 with
  | None => Reject
  | Some t =>
    bind (conv_value N t) (fun t' =>
    bind (class_of_type N embedded t') (fun cls =>
    bind (new_instance N cls) (fun inst =>
    match inst with
    | VStruct c e => bind (copy_to_with N (parse N k) cls [type_ignore_key] d1 e) (fun e' => Ok (VStruct c (auto_encode e')))
    | _ => Crash "TypeError"
    end)))
  end.

Lemma create_core_is_fuelled N emb ident d : create_core N emb ident d = create_core_fuel N parse_fuel emb ident d.
Proof. reflexivity. Qed.

Lemma create_core_fuel_ext N k1 k2 emb ident d :
  (forall key dv cls r, In (key, dv) (dict_set d (n_network_key N) (DInt ident)) -> rule_for N cls key = Some r ->
                        parse N k1 r dv = parse N k2 r dv) ->
  create_core_fuel N k1 emb ident d = create_core_fuel N k2 emb ident d.
Proof.
  intros H. unfold create_core_fuel. cbv zeta.
  destruct (assoc type_key (dict_set d (n_network_key N) (DInt ident))) as [t|]; [|reflexivity].
  destruct (conv_value N t) as [t'| |]; cbn [bind]; try reflexivity.
  destruct (class_of_type N emb t') as [cls| |]; cbn [bind]; try reflexivity.
  destruct (new_instance N cls) as [inst| |]; cbn [bind]; try reflexivity.
  destruct inst as [| | |c0 e0|]; try reflexivity.
  rewrite (copy_to_with_ext N (parse N k1) (parse N k2) cls [type_ignore_key]); [reflexivity|].
  intros key dv r Hin Hr. eapply H; eauto.
Qed.

(* fuel sufficiency in terms of the descriptor depth: whenever every entry of the descriptor is less than parse_fuel deep, creation
   with ANY larger amount of fuel gives the same outcome as create_core -- the cut-off never decides *)
Theorem create_fuel_sufficient N emb ident d k :
  (forall key dv, In (key, dv) d -> (ddepth dv < parse_fuel)%nat) -> (parse_fuel <= k)%nat ->
  create_core_fuel N k emb ident d = create_core N emb ident d.
Proof.
  intros Hd Hk. rewrite create_core_is_fuelled. apply create_core_fuel_ext. intros key dv cls r Hin _.
  assert (Hdepth : (ddepth dv < parse_fuel)%nat).
  { unfold dict_set in Hin. destruct (existsb (fun p => String.eqb (fst p) (n_network_key N)) d).
    - apply in_map_iff in Hin. destruct Hin as [[k0 d0] [Heq Hin0]]. cbn [fst] in Heq.
      destruct (String.eqb k0 (n_network_key N)); [inversion Heq; cbn; unfold parse_fuel; lia|]. inversion Heq; subst. eapply Hd; eauto.
    - apply in_app_or in Hin. destruct Hin as [Hin|[Heq|[]]]; [eapply Hd; eauto|]. inversion Heq. cbn. unfold parse_fuel. lia. }
  apply parse_fuel_irrelevant; lia.
Qed.

(* fuel sufficiency in terms of the rule table: if no rule of the table nests parse_fuel deep, more fuel never changes anything,
   for every descriptor whatsoever *)
Theorem create_fuel_sufficient_for_tables N emb ident d k :
  rules_fit N parse_fuel = true -> (parse_fuel <= k)%nat -> create_core_fuel N k emb ident d = create_core N emb ident d.
Proof.
  intros Hfit Hk. rewrite create_core_is_fuelled. apply create_core_fuel_ext. intros key dv cls r _ Hr.
  destruct (rule_for_in_rules N cls key r Hr) as [rn Hin]. unfold rules_fit in Hfit. rewrite forallb_forall in Hfit.
  specialize (Hfit (rn, r) Hin). cbn [snd] in Hfit.
  replace k with (parse_fuel + (k - parse_fuel))%nat by lia. apply parse_fuel_enough_for_rule. exact Hfit.
Qed.

(* ---------- the described value ---------- *)
(* `described N r d x`: x is what rule r makes of the descriptor value d.
   Leaves: the coercion of the rule kind (characterised form by form by coerce_* in Props/C10.v).
   Lists under an array rule: element by element, same length, same order.
   Dictionaries under a struct rule: a fresh object of the rule's class in which each given key names a settable, non-computed member
   that holds the described value of its entry (lists extend the constructor's list), and every member not named holds the default.
   `described_entry`: the value of one dictionary entry -- through the member's rule if its type hint has one, then through the type
   converter (SDK Address / ByteArray objects to codec objects). *)
Inductive described (N : netcfg) : rule -> dval -> dval -> Prop :=
| DescPod cls d x : parse_pod N cls d = Ok x -> described N (RPod cls) d x
| DescSdk c d x : parse_sdk N c d = Ok x -> described N (RSdk c) d x
| DescEnum cls d x : parse_enum N cls d = Ok x -> described N (REnum cls) d x
| DescFlags cls d x : parse_flags N cls d = Ok x -> described N (RFlags cls) d x
| DescArray er l l' : Forall2 (described N er) l l' -> described N (RArray er) (DList l) (DList l')
| DescStruct cls kvs e0 e' :
    new_instance N cls = Ok (VStruct cls e0) -> map fst e' = map fst e0 ->
    (forall k dv, In (k, dv) kvs ->
       exists f x old, member_of N cls k = Some f /\ ends_with k "_computed" = false /\ described_entry N cls k dv x /\
                       assoc (f_name f) e0 = Some old /\ assoc (f_name f) e' = Some (stored x old)) ->
    (forall n, (forall k dv f, In (k, dv) kvs -> member_of N cls k = Some f -> f_name f <> n) -> assoc n e' = assoc n e0) ->
    described N (RStruct cls) (DDict kvs) (DObj OCodec cls (VStruct cls e'))
with described_entry (N : netcfg) : string -> string -> dval -> dval -> Prop :=
| DescNoRule cls k dv x : rule_for N cls k = None -> conv_value N dv = Ok x -> described_entry N cls k dv x
| DescRule cls k dv r y x : rule_for N cls k = Some r -> described N r dv y -> conv_value N y = Ok x -> described_entry N cls k dv x.

Lemma new_instance_struct N cls c e : new_instance N cls = Ok (VStruct c e) ->
  c = cls /\ exists s, lookup_struct (n_tm N) cls = Some s /\ map fst e = map f_name (settable_fields s).
Proof.
  unfold new_instance, type_fuel_d. intros H. apply default_of_struct in H. destruct H as [s [Hs [Hc Hn]]]. split; [exact Hc|]. eauto.
Qed.

Lemma member_has_default N cls e0 k f : new_instance N cls = Ok (VStruct cls e0) -> member_of N cls k = Some f ->
  exists old, assoc (f_name f) e0 = Some old.
Proof.
  intros Hi Hm. apply new_instance_struct in Hi. destruct Hi as [_ [s [Hs Hn]]].
  apply member_of_key in Hm. destruct Hm as [_ [s' [Hs' Hin]]]. rewrite Hs in Hs'. inversion Hs'; subst s'.
  apply in_map_assoc. rewrite Hn. apply in_map. exact Hin.
Qed.

(* one entry, given that the parser one level down yields described values *)
Lemma lookup_value_described N P cls k dv x :
  (forall r y, rule_for N cls k = Some r -> P r dv = Ok y -> described N r dv y) ->
  lookup_value_with N P cls k dv = Ok x -> described_entry N cls k dv x.
Proof.
  intros HP H. unfold lookup_value_with in H. apply bind_ok in H. destruct H as [y [Hy Hc]].
  destruct (rule_for N cls k) as [r|] eqn:Er.
  - eapply DescRule; [exact Er|apply HP; [reflexivity|exact Hy]|exact Hc].
  - inversion Hy; subst y. apply DescNoRule; assumption.
Qed.

(* parse yields the described value, for every amount of fuel that lets it finish *)
Theorem parse_described N : forall fuel r d x, nodup_keys d -> parse N fuel r d = Ok x -> described N r d x.
Proof.
  induction fuel as [|k IH]; intros r d x Hnd H; [discriminate|].
  rewrite parse_step in H. destruct r as [c|c|c|c|c|er].
  - apply DescPod. exact H.
  - apply DescSdk. exact H.
  - apply DescEnum. exact H.
  - apply DescFlags. exact H.
  - destruct d as [z|s|b|ok oc ov|l|fs]; try discriminate.
    apply bind_ok in H. destruct H as [inst [Hi H]]. destruct inst as [| | |c0 e0|]; try discriminate.
    apply bind_ok in H. destruct H as [e' [Hc H]]. inversion H; subst x. clear H.
    destruct (new_instance_struct N c c0 e0 Hi) as [-> _].
    inversion Hnd as [| | | | |fs' Hkeys Hsub]; subst fs'. rewrite Forall_forall in Hsub.
    apply DescStruct with (e0 := e0); [exact Hi|eapply copy_names; exact Hc| |].
    + intros key dv Hin.
      destruct (copy_holds N _ c [] fs e0 e' Hc Hkeys key dv Hin (live_nil key)) as [f [y [Hm [Hy Hold]]]].
      pose proof (copy_ok_entries N _ c [] fs e0 e' Hc) as Hall. rewrite Forall_forall in Hall.
      destruct (Hall (key, dv) Hin (live_nil key)) as [Hcomp _]. cbn [fst] in Hcomp. change computed_suffix with "_computed" in Hcomp.
      destruct (member_has_default N c e0 key f Hi Hm) as [old Ho].
      exists f, y, old. split; [exact Hm|]. split; [exact Hcomp|]. split; [|split; [exact Ho|exact (Hold old Ho)]].
      eapply lookup_value_described; [|exact Hy]. intros r y0 _ Hp. apply (IH r dv y0); [|exact Hp]. exact (Hsub (key, dv) Hin).
    + intros n Hn. eapply copy_untouched; [exact Hc|]. intros key dv f Hin _ Hm. eapply Hn; eauto.
  - destruct d as [z|s|b|ok oc ov|l|fs]; try discriminate.
    apply bind_ok in H. destruct H as [l' [Hm H]]. inversion H; subst x. clear H. apply DescArray.
    apply mapM_ok in Hm. inversion Hnd as [| | | |l0 Hsub|]; subst l0. rewrite Forall_forall in Hsub.
    eapply Forall2_impl_in; [|exact Hm]. intros a b' Ha Hp. cbn beta in Hp. apply (IH er a b'); [exact (Hsub a Ha)|exact Hp].
Qed.

(* ---------- create_core: every given member holds its described value, recursively; the others hold their defaults ---------- *)
Theorem create_core_holds_nested N emb ident d v :
  NoDup (map fst d) -> (forall k dv, In (k, dv) d -> nodup_keys dv) -> create_core N emb ident d = Ok v ->
  let d1 := dict_set d (n_network_key N) (DInt ident) in
  exists s name cls e0 e',
    assoc "type" d1 = Some (DStr s) /\ In (name, cls) (n_names N emb) /\ str_is name s = true /\
    new_instance N cls = Ok (VStruct cls e0) /\ v = VStruct cls e' /\ map fst e' = map fst e0 /\
    (forall k dv, In (k, dv) d1 -> k <> "type" ->
       exists f x old, member_of N cls k = Some f /\ ends_with k "_computed" = false /\ described_entry N cls k dv x /\
                       assoc (f_name f) e0 = Some old /\ vget v (f_name f) = Some (encode_str (stored x old))) /\
    (forall n, (forall k dv f, In (k, dv) d1 -> k <> "type" -> member_of N cls k = Some f -> f_name f <> n) ->
       vget v n = option_map encode_str (assoc n e0)).
Proof.
  intros Hnd Hsub H d1. unfold create_core in H. fold d1 in H. apply create_from_factory_ok in H.
  destruct H as [s [cls [e0 [e' [Ht [Hcls [Hi [Hc Hv]]]]]]]]. subst v.
  destruct (class_of_type_ok _ _ _ _ Hcls) as [s' [name [Es [Hin Hs]]]]. inversion Es; subst s'.
  assert (Hnd1 : NoDup (map fst d1)) by (apply dict_set_nodup; exact Hnd).
  assert (Hsub1 : forall k dv, In (k, dv) d1 -> nodup_keys dv).
  { intros k dv Hkd. unfold d1, dict_set in Hkd. destruct (existsb (fun p => String.eqb (fst p) (n_network_key N)) d).
    - apply in_map_iff in Hkd. destruct Hkd as [[k0 d0] [Heq Hin0]]. cbn [fst] in Heq.
      destruct (String.eqb k0 (n_network_key N)); inversion Heq; subst; [constructor|eapply Hsub; eauto].
    - apply in_app_or in Hkd. destruct Hkd as [Hkd|[Heq|[]]]; [eapply Hsub; eauto|]. inversion Heq. constructor. }
  unfold copy_to in Hc.
  exists s, name, cls, e0, (auto_encode e'). change type_key with "type" in Ht.
  split; [exact Ht|]. split; [exact Hin|]. split; [exact Hs|]. split; [exact Hi|]. split; [reflexivity|].
  split; [rewrite auto_encode_names; eapply copy_names; eauto|]. split.
  - intros k dv Hkd Hne. destruct (copy_holds N _ cls _ d1 e0 e' Hc Hnd1 k dv Hkd (live_not_type k Hne)) as [f [x [Hm [Hx Hold]]]].
    pose proof (copy_ok_entries N _ cls _ d1 e0 e' Hc) as Hall. rewrite Forall_forall in Hall.
    destruct (Hall (k, dv) Hkd (live_not_type k Hne)) as [Hcomp _]. cbn [fst] in Hcomp. change computed_suffix with "_computed" in Hcomp.
    destruct (member_has_default N cls e0 k f Hi Hm) as [old Ho].
    exists f, x, old. split; [exact Hm|]. split; [exact Hcomp|]. split.
    + eapply lookup_value_described; [|exact Hx]. intros r y _ Hp. eapply parse_described; [|exact Hp]. eapply Hsub1; eauto.
    + split; [exact Ho|]. rewrite vget_assoc, assoc_auto_encode, (Hold old Ho). reflexivity.
  - intros n Hn. rewrite vget_assoc, assoc_auto_encode. f_equal. eapply copy_untouched; eauto.
    intros k dv f Hkd Hl Hm. eapply Hn; eauto. apply live_is_not_type. exact Hl.
Qed.

(* ---------- failures inside ---------- *)
(* a leaf value that the coercion of its rule refuses; same fixed text as bad_entry, indexed by the rule instead of by (class, key) *)
Inductive bad_leaf (N : netcfg) : rule -> dval -> Prop :=
| BlRange c z nm i cm : lookup (n_tm N) c = Some (DAlias nm (LInt i) cm) -> In (it_size i) [1; 2; 4; 8] ->
    ~ (0 <= z < 2 ^ (8 * it_size i)) -> bad_leaf N (RPod c) (DInt z)
| BlEnumName c s : (forall e, In e (enum_values N c) -> str_is (lower_string (ev_name e)) s = false) -> bad_leaf N (REnum c) (DStr s)
| BlEnumValue c z : (forall e, In e (enum_values N c) -> ev_value e <> z) -> bad_leaf N (REnum c) (DInt z)
| BlFlagName c s n : In n (split_on 32 s) -> str_is "none" n = false ->
    (forall e, In e (enum_values N c) -> str_is (lower_string (ev_name e)) n = false) -> bad_leaf N (RFlags c) (DStr s)
| BlFlagValue c z : (z < 0 \/ Z.land z (flags_mask (enum_values N c)) <> z) -> bad_leaf N (RFlags c) (DInt z)
| BlHex c s : c <> SdkAddress -> (forall b, unhexlify s = Some b -> Z.of_nat (length b) <> sdk_size N c) -> bad_leaf N (RSdk c) (DStr s)
| BlLength c raw : Z.of_nat (length raw) <> sdk_size N c -> bad_leaf N (RSdk c) (DBytes raw).

Lemma bad_leaf_rejected N r d : bad_leaf N r d -> forall k x, parse N (S k) r d <> Ok x.
Proof.
  intros Hbad k x Hy. rewrite parse_step in Hy. destruct Hbad.
  - apply parse_pod_int in Hy. destruct Hy as [nm' [i' [cm' [Hl [Hb _]]]]]. rewrite H in Hl. inversion Hl; subst.
    apply H1. apply base_value_ok_range; assumption.
  - apply parse_enum_str in Hy. destruct Hy as [e [Hin [Hs _]]]. rewrite (H e Hin) in Hs. discriminate.
  - apply parse_enum_int in Hy. destruct Hy as [[e [Hin He]] _]. exact (H e Hin He).
  - apply parse_flags_str in Hy. destruct Hy as [zs [Hf _]]. clear - Hf H H0 H1.
    induction Hf as [|n' v l l' Hn Hrest IH]; [destruct H|].
    destruct H as [->|Hin]; [|auto]. apply flag_by_name_spec in Hn. destruct Hn as [[Hn _]|[e [Hin [_ [Hs _]]]]]; [congruence|].
    rewrite (H1 e Hin) in Hs. discriminate.
  - apply parse_flags_int in Hy. destruct Hy as [Hz [Hl _]]. destruct H; [lia|contradiction].
  - apply parse_sdk_hex in Hy; [|assumption]. destruct Hy as [b [Hu [Hl _]]]. exact (H0 b Hu Hl).
  - apply parse_sdk_bytes in Hy. destruct Hy as [Hl _]. contradiction.
Qed.

(* the leaf cases of bad_entry are bad leaves under the member's rule *)
Lemma bad_entry_cases N cls k dv : bad_entry N cls k dv ->
  member_of N cls k = None \/ ends_with k "_computed" = true \/ exists r, rule_for N cls k = Some r /\ bad_leaf N r dv.
Proof.
  intros H. destruct H.
  - left. assumption.
  - right. left. assumption.
  - right. right. eexists. split; [eassumption|]. eapply BlRange; eassumption.
  - right. right. eexists. split; [eassumption|]. apply BlEnumName. assumption.
  - right. right. eexists. split; [eassumption|]. apply BlEnumValue. assumption.
  - right. right. eexists. split; [eassumption|]. eapply BlFlagName; eassumption.
  - right. right. eexists. split; [eassumption|]. apply BlFlagValue. assumption.
  - right. right. eexists. split; [eassumption|]. apply BlHex; assumption.
  - right. right. eexists. split; [eassumption|]. apply BlLength. assumption.
Qed.

(* a descriptor value with a defect somewhere inside: a bad leaf, a value of the wrong shape for a struct / array rule, or -- in a
   dictionary at any depth -- a key that names no settable member or a computed member, or an entry whose own value is bad *)
Inductive bad_value (N : netcfg) : rule -> dval -> Prop :=
| BvLeaf r d : bad_leaf N r d -> bad_value N r d
| BvNotList er d : match d with DList _ => False | _ => True end -> bad_value N (RArray er) d
| BvElem er l d : In d l -> bad_value N er d -> bad_value N (RArray er) (DList l)
| BvNotDict cls d : match d with DDict _ => False | _ => True end -> bad_value N (RStruct cls) d
| BvNonMember cls kvs k dv : In (k, dv) kvs -> member_of N cls k = None -> bad_value N (RStruct cls) (DDict kvs)
| BvComputed cls kvs k dv : In (k, dv) kvs -> ends_with k "_computed" = true -> bad_value N (RStruct cls) (DDict kvs)
| BvMember cls kvs k dv r : In (k, dv) kvs -> rule_for N cls k = Some r -> bad_value N r dv -> bad_value N (RStruct cls) (DDict kvs).

(* the entries of a dictionary that was copied successfully: each names a settable member that is not computed, and its value was parsed *)
Lemma copy_entry_parsed N P cls ign kvs e e' k dv : copy_to_with N P cls ign kvs e = Ok e' -> In (k, dv) kvs -> live ign k ->
  ends_with k "_computed" = false /\ member_of N cls k <> None /\
  forall r, rule_for N cls k = Some r -> exists y, P r dv = Ok y.
Proof.
  intros Hc Hin Hl. pose proof (copy_ok_entries N P cls ign kvs e e' Hc) as Hall. rewrite Forall_forall in Hall.
  destruct (Hall (k, dv) Hin Hl) as [Hcomp [f [x [Hm Hx]]]]. cbn [fst snd] in *. change computed_suffix with "_computed" in Hcomp.
  split; [exact Hcomp|]. split; [congruence|]. intros r Hr. unfold lookup_value_with in Hx. rewrite Hr in Hx.
  apply bind_ok in Hx. destruct Hx as [y [Hy _]]. eauto.
Qed.

Lemma parse_struct_ok N k cls kvs x : parse N (S k) (RStruct cls) (DDict kvs) = Ok x ->
  exists c e0 e', new_instance N cls = Ok (VStruct c e0) /\ copy_to_with N (parse N k) cls [] kvs e0 = Ok e'.
Proof.
  rewrite parse_step. intros H. apply bind_ok in H. destruct H as [inst [Hi H]]. destruct inst as [| | |c0 e0|]; try discriminate.
  apply bind_ok in H. destruct H as [e' [Hc _]]. eauto.
Qed.

(* error propagation: a defect at any depth makes the rule fail as a whole, for every amount of fuel *)
Theorem bad_value_rejected N r d : bad_value N r d -> forall fuel x, parse N fuel r d <> Ok x.
Proof.
  intros Hbad. induction Hbad as [r d Hl|er d Hd|er l d Hin Hb IH|cls d Hd|cls kvs k dv Hin Hm|cls kvs k dv Hin Hcomp|cls kvs k dv r Hin Hr Hb IH];
  intros fuel x H; (destruct fuel as [|fuel]; [discriminate|]).
  - exact (bad_leaf_rejected N r d Hl fuel x H).
  - rewrite parse_step in H. destruct d; try discriminate. contradiction.
  - rewrite parse_step in H. apply bind_ok in H. destruct H as [l' [Hm _]]. apply mapM_ok in Hm.
    destruct (Forall2_in_l _ l l' d Hm Hin) as [y [_ Hy]]. exact (IH fuel y Hy).
  - rewrite parse_step in H. destruct d; try discriminate. contradiction.
  - apply parse_struct_ok in H. destruct H as [c [e0 [e' [_ Hc]]]].
    destruct (copy_entry_parsed N _ cls [] kvs e0 e' k dv Hc Hin (live_nil k)) as [_ [Hmem _]]. contradiction.
  - apply parse_struct_ok in H. destruct H as [c [e0 [e' [_ Hc]]]].
    destruct (copy_entry_parsed N _ cls [] kvs e0 e' k dv Hc Hin (live_nil k)) as [Hnc _]. congruence.
  - apply parse_struct_ok in H. destruct H as [c [e0 [e' [_ Hc]]]].
    destruct (copy_entry_parsed N _ cls [] kvs e0 e' k dv Hc Hin (live_nil k)) as [_ [_ Hp]].
    destruct (Hp r Hr) as [y Hy]. exact (IH fuel y Hy).
Qed.

(* positions inside a descriptor value, each with the rule that applies there *)
Inductive inside (N : netcfg) : rule -> dval -> rule -> dval -> Prop :=
| InHere r d : inside N r d r d
| InElem er l d r' d' : In d l -> inside N er d r' d' -> inside N (RArray er) (DList l) r' d'
| InMember cls kvs k dv r r' d' : In (k, dv) kvs -> rule_for N cls k = Some r -> inside N r dv r' d' -> inside N (RStruct cls) (DDict kvs) r' d'.

(* whatever the reason: if the value at some position inside cannot be parsed, neither can the whole *)
Theorem failure_inside_propagates N r d r' d' : inside N r d r' d' ->
  (forall fuel y, parse N fuel r' d' <> Ok y) -> forall fuel x, parse N fuel r d <> Ok x.
Proof.
  intros Hin. induction Hin as [r d|er l d r' d' Hl Hi IH|cls kvs k dv r r' d' Hl Hr Hi IH]; intros Hfail fuel x H.
  - exact (Hfail fuel x H).
  - destruct fuel as [|fuel]; [discriminate|]. rewrite parse_step in H. apply bind_ok in H. destruct H as [l' [Hm _]]. apply mapM_ok in Hm.
    destruct (Forall2_in_l _ l l' d Hm Hl) as [y [_ Hy]]. exact (IH Hfail fuel y Hy).
  - destruct fuel as [|fuel]; [discriminate|]. apply parse_struct_ok in H. destruct H as [c [e0 [e' [_ Hc]]]].
    destruct (copy_entry_parsed N _ cls [] kvs e0 e' k dv Hc Hl (live_nil k)) as [_ [_ Hp]].
    destruct (Hp r Hr) as [y Hy]. exact (IH Hfail fuel y Hy).
Qed.

(* and conversely every position inside a value that was parsed has itself been parsed *)
Corollary parsed_inside N r d r' d' fuel x : inside N r d r' d' -> parse N fuel r d = Ok x -> exists fuel' y, parse N fuel' r' d' = Ok y.
Proof.
  intros Hin. revert fuel x. induction Hin as [r d|er l d r' d' Hl Hi IH|cls kvs k dv r r' d' Hl Hr Hi IH]; intros fuel x H.
  - eauto.
  - destruct fuel as [|fuel]; [discriminate|]. rewrite parse_step in H. apply bind_ok in H. destruct H as [l' [Hm _]]. apply mapM_ok in Hm.
    destruct (Forall2_in_l _ l l' d Hm Hl) as [y [_ Hy]]. exact (IH fuel y Hy).
  - destruct fuel as [|fuel]; [discriminate|]. apply parse_struct_ok in H. destruct H as [c [e0 [e' [_ Hc]]]].
    destruct (copy_entry_parsed N _ cls [] kvs e0 e' k dv Hc Hl (live_nil k)) as [_ [_ Hp]].
    destruct (Hp r Hr) as [y Hy]. exact (IH fuel y Hy).
Qed.

(* ---------- create: a defect at any depth of any entry means no object ---------- *)
Theorem create_rejects_nested N emb autosort ident d :
  let d1 := dict_set d (n_network_key N) (DInt ident) in
  (exists s cls k dv, assoc "type" d1 = Some (DStr s) /\ class_of_type N emb (DStr s) = Ok cls /\ In (k, dv) d1 /\ k <> "type" /\
     (bad_entry N cls k dv \/ exists r, rule_for N cls k = Some r /\ bad_value N r dv)) ->
  forall v, create N emb autosort ident d <> Ok v.
Proof.
  intros d1 [s [cls [k [dv [Ht [Hcls [Hkd [Hne Hbad]]]]]]]] v H.
  destruct Hbad as [Hbad|[r [Hr Hbad]]].
  - revert v H. apply create_rejects. right. right. exists s, cls, k, dv. auto.
  - apply create_core_of_create in H. destruct H as [v0 H]. unfold create_core in H. fold d1 in H.
    apply create_from_factory_ok in H. destruct H as [s' [cls' [e0 [e' [Ht' [Hcl [Hi [Hc _]]]]]]]]. change type_key with "type" in Ht'.
    rewrite Ht in Ht'. inversion Ht'; subst s'. assert (cls' = cls) by congruence. subst cls'. unfold copy_to in Hc.
    destruct (copy_entry_parsed N _ cls _ d1 e0 e' k dv Hc Hkd (live_not_type k Hne)) as [_ [_ Hp]].
    destruct (Hp r Hr) as [y Hy]. exact (bad_value_rejected N r dv Hbad parse_fuel y Hy).
Qed.

(* the same through an arbitrary position: if what stands at a position inside an entry can never be parsed, nothing is created *)
Theorem create_fails_on_failure_inside N emb autosort ident d :
  let d1 := dict_set d (n_network_key N) (DInt ident) in
  forall s cls k dv r r' d', assoc "type" d1 = Some (DStr s) -> class_of_type N emb (DStr s) = Ok cls -> In (k, dv) d1 -> k <> "type" ->
    rule_for N cls k = Some r -> inside N r dv r' d' -> (forall fuel y, parse N fuel r' d' <> Ok y) ->
  forall v, create N emb autosort ident d <> Ok v.
Proof.
  intros d1 s cls k dv r r' d' Ht Hcls Hkd Hne Hr Hin Hfail v H.
  apply create_core_of_create in H. destruct H as [v0 H]. unfold create_core in H. fold d1 in H.
  apply create_from_factory_ok in H. destruct H as [s' [cls' [e0 [e' [Ht' [Hcl [Hi [Hc _]]]]]]]]. change type_key with "type" in Ht'.
  rewrite Ht in Ht'. inversion Ht'; subst s'. assert (cls' = cls) by congruence. subst cls'. unfold copy_to in Hc.
  destruct (copy_entry_parsed N _ cls _ d1 e0 e' k dv Hc Hkd (live_not_type k Hne)) as [_ [_ Hp]].
  destruct (Hp r Hr) as [y Hy]. exact (failure_inside_propagates N r dv r' d' Hin Hfail parse_fuel y Hy).
Qed.
