(* RIPEMD-160 (Dobbertin, Bosselaers, Preneel 1996). Words are Z masked to 32 bits, little-endian. Model file: definitions only. *)
From Symv Require Export Base.Bytes.
Open Scope Z_scope.

Definition rmd_mask : Z := 0xFFFFFFFF.
Definition rmd_rol (x n : Z) : Z := Z.lor (Z.land (Z.shiftl x n) rmd_mask) (Z.shiftr x (32 - n)).
Definition rmd_not (x : Z) : Z := Z.lxor x rmd_mask.

(* the five boolean functions, rounds 0-15, 16-31, 32-47, 48-63, 64-79 of the left line *)
Definition rmd_f0 (x y z : Z) : Z := Z.lxor x (Z.lxor y z).
Definition rmd_f1 (x y z : Z) : Z := Z.lor (Z.land x y) (Z.land (rmd_not x) z).
Definition rmd_f2 (x y z : Z) : Z := Z.lxor (Z.lor x (rmd_not y)) z.
Definition rmd_f3 (x y z : Z) : Z := Z.lor (Z.land x z) (Z.land y (rmd_not z)).
Definition rmd_f4 (x y z : Z) : Z := Z.lxor x (Z.lor y (rmd_not z)).

(* each of 5 per-group items repeated for the 16 steps of its group *)
Definition rmd_groups {A : Type} (l : list A) : list A := flat_map (fun x => repeat x 16) l.

Definition rmd_FL : list (Z -> Z -> Z -> Z) := rmd_groups [rmd_f0; rmd_f1; rmd_f2; rmd_f3; rmd_f4].
Definition rmd_FR : list (Z -> Z -> Z -> Z) := rmd_groups [rmd_f4; rmd_f3; rmd_f2; rmd_f1; rmd_f0].
Definition rmd_KL : list Z := rmd_groups [0x00000000; 0x5A827999; 0x6ED9EBA1; 0x8F1BBCDC; 0xA953FD4E].
Definition rmd_KR : list Z := rmd_groups [0x50A28BE6; 0x5C4DD124; 0x6D703EF3; 0x7A6D76E9; 0x00000000].

(* message word selection *)
Definition rmd_RL : list nat :=
  [0; 1; 2; 3; 4; 5; 6; 7; 8; 9; 10; 11; 12; 13; 14; 15;
   7; 4; 13; 1; 10; 6; 15; 3; 12; 0; 9; 5; 2; 14; 11; 8;
   3; 10; 14; 4; 9; 15; 8; 1; 2; 7; 0; 6; 13; 11; 5; 12;
   1; 9; 11; 10; 0; 8; 12; 4; 13; 3; 7; 15; 14; 5; 6; 2;
   4; 0; 5; 9; 7; 12; 2; 10; 14; 1; 3; 8; 11; 6; 15; 13]%nat.
Definition rmd_RR : list nat :=
  [5; 14; 7; 0; 9; 2; 11; 4; 13; 6; 15; 8; 1; 10; 3; 12;
   6; 11; 3; 7; 0; 13; 5; 10; 14; 15; 8; 12; 4; 9; 1; 2;
   15; 5; 1; 3; 7; 14; 6; 9; 11; 8; 12; 2; 10; 0; 4; 13;
   8; 6; 4; 1; 3; 11; 15; 0; 5; 12; 2; 13; 9; 7; 10; 14;
   12; 15; 10; 4; 1; 5; 8; 7; 6; 2; 13; 14; 0; 3; 9; 11]%nat.

(* left-rotation amounts *)
Definition rmd_SL : list Z :=
  [11; 14; 15; 12; 5; 8; 7; 9; 11; 13; 14; 15; 6; 7; 9; 8;
   7; 6; 8; 13; 11; 9; 7; 15; 7; 12; 15; 9; 11; 7; 13; 12;
   11; 13; 6; 7; 14; 9; 13; 15; 14; 8; 13; 6; 5; 12; 7; 5;
   11; 12; 14; 15; 14; 15; 9; 8; 9; 14; 5; 6; 8; 6; 5; 12;
   9; 15; 5; 11; 6; 8; 13; 12; 5; 12; 13; 14; 11; 8; 5; 6].
Definition rmd_SR : list Z :=
  [8; 9; 9; 11; 13; 15; 15; 5; 7; 7; 8; 11; 14; 14; 12; 6;
   9; 13; 15; 7; 12; 8; 9; 11; 7; 7; 12; 7; 6; 15; 13; 11;
   9; 7; 15; 11; 8; 6; 6; 14; 12; 13; 5; 14; 13; 13; 7; 5;
   15; 5; 8; 11; 14; 14; 6; 14; 6; 9; 12; 9; 12; 5; 15; 8;
   8; 5; 12; 9; 12; 5; 14; 6; 8; 13; 6; 5; 15; 13; 11; 11].

(* one step descriptor: (f, (K, (r, s))) *)
Definition rmd_step_t : Type := ((Z -> Z -> Z -> Z) * (Z * (nat * Z)))%type.
Definition rmd_steps_L : list rmd_step_t := combine rmd_FL (combine rmd_KL (combine rmd_RL rmd_SL)).
Definition rmd_steps_R : list rmd_step_t := combine rmd_FR (combine rmd_KR (combine rmd_RR rmd_SR)).

Definition st5 : Type := (Z * Z * Z * Z * Z)%type.

Definition rmd_step (x : list Z) (st : st5) (d : rmd_step_t) : st5 :=
  let '(a, b, c, dd, e) := st in
  let '(f, (k, (r, s))) := d in
  let t := Z.land (rmd_rol (Z.land (a + f b c dd + nth r x 0 + k) rmd_mask) s + e) rmd_mask in
  (e, t, b, rmd_rol c 10, dd).

Definition rmd_compress (h : st5) (blk : bytes) : st5 :=
  let x := map from_le (chunks 4 blk) in
  let '(h0, h1, h2, h3, h4) := h in
  let '(al, bl, cl, dl, el) := fold_left (rmd_step x) rmd_steps_L h in
  let '(ar, br, cr, dr, er) := fold_left (rmd_step x) rmd_steps_R h in
  (Z.land (h1 + cl + dr) rmd_mask, Z.land (h2 + dl + er) rmd_mask, Z.land (h3 + el + ar) rmd_mask,
   Z.land (h4 + al + br) rmd_mask, Z.land (h0 + bl + cr) rmd_mask).

Definition rmd_iv : st5 := (0x67452301, 0xEFCDAB89, 0x98BADCFE, 0x10325476, 0xC3D2E1F0).

(* MD4-style padding: 0x80, zeros up to 56 mod 64, bit length on 8 little-endian bytes *)
Definition rmd_pad (m : bytes) : bytes :=
  let n := Z.of_nat (length m) in
  m ++ [128] ++ zeros (Z.to_nat ((- (n + 9)) mod 64)) ++ to_le 8 (8 * n).

Definition ripemd160 (m : bytes) : bytes :=
  let '(h0, h1, h2, h3, h4) := fold_left rmd_compress (chunks 64 (rmd_pad m)) rmd_iv in
  flat_map (to_le 4) [h0; h1; h2; h3; h4].
