(* Laws of the signature / Diffie-Hellman scheme of Sym/EdAbstract.v for EVERY carrier satisfying [ed_laws] and every flavour
   satisfying [flavour_ok].  The group, its Z-action, the base point, the encoding and the flavour are Section variables; the laws
   are Section hypotheses (explicit premises of the closed theorems) -- no axioms. *)
From Symv Require Import Base.Bytes Base.BytesLemmas Base.PyOps Sym.EdAbstract.
From Coq Require Import Lia ZifyBool.
Open Scope Z_scope.

Lemma beqb_eq a b : beqb a b = true <-> a = b.
Proof.
  revert b; induction a as [|x a IH]; intros [|y b]; cbn [beqb]; split; intros H; try reflexivity; try discriminate.
  - apply Bool.andb_true_iff in H as [Hx Hr]. apply IH in Hr. f_equal; [lia | exact Hr].
  - injection H as -> ->. apply Bool.andb_true_iff. split; [lia | now apply IH].
Qed.

Lemma beqb_refl a : beqb a a = true.
Proof. now apply beqb_eq. Qed.

Lemma beqb_false a b : beqb a b = false <-> a <> b.
Proof.
  split.
  - intros H E. apply beqb_eq in E. congruence.
  - intros H. destruct (beqb a b) eqn:E; [apply beqb_eq in E; contradiction | reflexivity].
Qed.

Section Laws.
Context {G : Type}.
Variable o : ed_ops G.
Variable fl : flavour.
Variable zero_refused : bool.
Hypothesis laws : ed_laws o.
Hypothesis fl_ok : flavour_ok fl (g_L o) zero_refused.

Local Notation zero := (g_zero o).
Local Notation add := (g_add o).
Local Notation neg := (g_neg o).
Local Notation smul := (g_smul o).
Local Notation B := (g_B o).
Local Notation L := (g_L o).
Local Notation enc := (g_enc o).
Local Notation dec := (g_dec o).

Lemma L_pos : 0 < L.
Proof. pose proof (law_order_range o laws). assert (0 < 2 ^ 252) by (apply Z.pow_pos_nonneg; lia). lia. Qed.

Lemma add_zero_r P : add P zero = P.
Proof. rewrite (law_add_comm o laws). apply (law_add_zero o laws). Qed.

Lemma add_neg_l P : add (neg P) P = zero.
Proof. rewrite (law_add_comm o laws). apply (law_add_neg o laws). Qed.

Lemma add_cancel_l P Q R : add P Q = add P R -> Q = R.
Proof.
  intros H. assert (E : add (neg P) (add P Q) = add (neg P) (add P R)) by now rewrite H.
  rewrite !(law_add_assoc o laws), add_neg_l, !(law_add_zero o laws) in E. exact E.
Qed.

Lemma add_cancel_r P Q R : add Q P = add R P -> Q = R.
Proof. rewrite (law_add_comm o laws Q), (law_add_comm o laws R). apply add_cancel_l. Qed.

Lemma neg_inj P Q : neg P = neg Q -> P = Q.
Proof.
  intros H. apply (add_cancel_r (neg P)). rewrite (law_add_neg o laws). rewrite H. now rewrite (law_add_neg o laws).
Qed.

Lemma add_sub P Q : add (add P Q) (neg Q) = P.
Proof. now rewrite <- (law_add_assoc o laws), (law_add_neg o laws), add_zero_r. Qed.

Lemma smul_zero_r x : smul x zero = zero.
Proof.
  rewrite <- (law_smul_zero o laws B) at 1. rewrite <- (law_smul_mul o laws). rewrite Z.mul_0_r. apply (law_smul_zero o laws).
Qed.

Lemma smul_L_B : smul L B = zero.
Proof. apply (law_order_B o laws). apply Z.mod_same. pose proof L_pos. lia. Qed.

(* multiples of L act trivially on every point of the main subgroup *)
Lemma smul_mod A x : smul L A = zero -> smul (x mod L) A = smul x A.
Proof.
  intros HA. pose proof L_pos as HL.
  rewrite (Z.div_mod x L) at 2 by lia.
  rewrite (law_smul_add o laws), (Z.mul_comm L), (law_smul_mul o laws), HA, smul_zero_r.
  now rewrite (law_add_zero o laws).
Qed.

Lemma smul_mod_B x : smul (x mod L) B = smul x B.
Proof. apply smul_mod, smul_L_B. Qed.

Lemma smul_L_multiple x : smul L (smul x B) = zero.
Proof.
  rewrite <- (law_smul_mul o laws). apply (law_order_B o laws). rewrite Z.mul_comm. apply Z.mod_mul. pose proof L_pos. lia.
Qed.

Lemma smul_eq_diff A x y : smul x A = smul y A -> smul (x - y) A = zero.
Proof.
  intros H. apply (add_cancel_r (smul y A)). rewrite <- (law_smul_add o laws), (law_add_zero o laws).
  replace (x - y + y) with x by lia. exact H.
Qed.

(* ---- honest keys ---- *)
Lemma digest_ok k : length (secret_digest fl k) = 64%nat /\ wf_bytes (secret_digest fl k) = true.
Proof. apply (ok_hash fl L zero_refused fl_ok). Qed.

Lemma scalar_shape k : exists j, fl_scalar_pub fl (secret_digest fl k) = 8 * j /\ 2 ^ 251 <= j < 2 ^ 252.
Proof. destruct (digest_ok k) as [Hl Hw]. now apply (ok_scalar_range fl L zero_refused fl_ok). Qed.

Lemma honest_in_main_subgroup k : smul L (smul (fl_scalar_pub fl (secret_digest fl k)) B) = zero.
Proof. apply smul_L_multiple. Qed.

(* 8 * a = 64 * j with 0 < j < 2^252 < L and gcd(64, L) = 1: not a multiple of L *)
Lemma honest_not_small_order k : smul 8 (smul (fl_scalar_pub fl (secret_digest fl k)) B) <> zero.
Proof.
  destruct (scalar_shape k) as [j [Hj Hr]]. rewrite Hj, <- (law_smul_mul o laws). intros H.
  apply (law_order_B o laws) in H. pose proof (law_order_range o laws) as HLr. pose proof L_pos as HL.
  replace (8 * (8 * j)) with (64 * j) in H by lia.
  apply Z.mod_divide in H; [|lia].
  apply Z.gauss in H; [| rewrite Z.gcd_comm; apply (law_order_odd o laws)].
  destruct H as [c Hc]. assert (0 < 2 ^ 251) by (apply Z.pow_pos_nonneg; lia).
  assert (c <= 0 \/ 1 <= c) as [Hc0|Hc1] by lia; nia.
Qed.

Lemma honest_key_not_zero_bytes k : public_key o fl k <> zeros 32.
Proof.
  unfold public_key. intros H. apply (law_zero_bytes o laws) in H. apply H. apply honest_in_main_subgroup.
Qed.

Lemma honest_key_valid k : key_valid o (public_key o fl k) (smul (fl_scalar_pub fl (secret_digest fl k)) B) = true.
Proof.
  unfold key_valid, public_key. rewrite (law_enc_canonical o laws). cbn [andb].
  apply Bool.andb_true_iff. split.
  - apply Bool.negb_true_iff. destruct (g_is_zero o _) eqn:E; [|reflexivity].
    apply (law_is_zero o laws) in E. now apply honest_not_small_order in E.
  - apply (law_is_zero o laws). apply honest_in_main_subgroup.
Qed.

Lemma S_range k m : 0 <= sig_S_value o fl k m < L.
Proof. unfold sig_S_value. apply Z.mod_pos_bound, L_pos. Qed.

Lemma from_le_to_le_S S : 0 <= S < L -> from_le (to_le 32 S) = S.
Proof.
  intros HS. apply from_le_to_le_small. pose proof (law_order_range o laws).
  change (8 * Z.of_nat 32) with 256. assert (2 ^ 253 < 2 ^ 256) by (apply Z.pow_lt_mono_r; lia). lia.
Qed.

(* ---- verify . sign ---- *)
Theorem verify_sign k m :
  (zero_refused = true -> sig_S_value o fl k m <> 0) ->
  verify o fl (public_key o fl k) m (sign o fl k m) = Ok true.
Proof.
  intros Hzero. unfold verify, sign.
  destruct (fl_zero_key fl (public_key o fl k)) eqn:Ez.
  { apply (ok_zero_key fl L zero_refused fl_ok) in Ez. now apply honest_key_not_zero_bytes in Ez. }
  rewrite (ok_sig_R fl L zero_refused fl_ok), (ok_sig_S fl L zero_refused fl_ok) by apply (law_enc_length o laws).
  rewrite (ok_s_ok_honest fl L zero_refused fl_ok) by (try apply S_range; exact Hzero).
  cbn [bind negb]. unfold public_key at 1. rewrite (law_dec_enc o laws).
  rewrite honest_key_valid. rewrite Bool.andb_false_r.
  rewrite from_le_to_le_S by apply S_range.
  rewrite (ok_final fl L zero_refused fl_ok). f_equal. apply beqb_eq. f_equal.
  unfold sig_S_value. rewrite smul_mod_B, (law_smul_add o laws), (law_smul_mul o laws).
  destruct (digest_ok k) as [Hl Hw]. rewrite (ok_scalar_sign fl L zero_refused fl_ok) by assumption.
  apply add_sub.
Qed.

(* the signature is a function of key and message: R is the multiple of the base point by the hash-derived nonce *)
Theorem sign_deterministic k m :
  sign o fl k m =
  let d := fl_hash fl (fl_prep fl k) in
  let a := fl_scalar_sign fl d in
  let r := from_le (fl_hash fl (fl_prefix fl d ++ m)) mod L in
  let R := enc (smul r B) in
  let A := enc (smul (fl_scalar_pub fl d) B) in
  R ++ to_le 32 ((r + (from_le (fl_hash fl (R ++ A ++ m)) mod L) * a) mod L).
Proof. reflexivity. Qed.

(* ---- what a passing verification says ---- *)
Lemma verify_true_inv pub m sig :
  verify o fl pub m sig = Ok true ->
  fl_zero_key fl pub = false /\ fl_s_ok fl L (fl_sig_S fl sig) = Ok true /\
  exists A, dec pub = Some A /\ (fl_strict_key fl = true -> key_valid o pub A = true) /\
    enc (add (smul (from_le (fl_sig_S fl sig)) B) (neg (smul (challenge o fl (fl_sig_R fl sig) pub m) A))) = fl_sig_R fl sig.
Proof.
  unfold verify. destruct (fl_zero_key fl pub); [discriminate|].
  destruct (fl_s_ok fl L (fl_sig_S fl sig)) as [[|]| |] eqn:Es; cbn [bind negb]; try discriminate.
  2:{ rewrite (ok_bad_s fl L zero_refused fl_ok). discriminate. }
  destruct (dec pub) as [A|]; [| rewrite (ok_bad_key fl L zero_refused fl_ok); discriminate].
  destruct (fl_strict_key fl && negb (key_valid o pub A)) eqn:Ek; [rewrite (ok_bad_key fl L zero_refused fl_ok); discriminate|].
  rewrite (ok_final fl L zero_refused fl_ok). intros H. injection H as H. apply beqb_eq in H.
  repeat split; try reflexivity. exists A. repeat split; [| exact H].
  intros Hs. rewrite Hs in Ek. cbn in Ek. now apply Bool.negb_false_iff in Ek.
Qed.

Lemma verify_true_intro pub m sig A :
  fl_zero_key fl pub = false -> fl_s_ok fl L (fl_sig_S fl sig) = Ok true -> dec pub = Some A ->
  (fl_strict_key fl = true -> key_valid o pub A = true) ->
  enc (add (smul (from_le (fl_sig_S fl sig)) B) (neg (smul (challenge o fl (fl_sig_R fl sig) pub m) A))) = fl_sig_R fl sig ->
  verify o fl pub m sig = Ok true.
Proof.
  intros Hz Hs Hd Hk He. unfold verify. rewrite Hz, Hs. cbn [bind negb]. rewrite Hd.
  destruct (fl_strict_key fl) eqn:Est; cbn [andb].
  - rewrite Hk by reflexivity. cbn [negb]. rewrite (ok_final fl L zero_refused fl_ok). f_equal. now apply beqb_eq.
  - rewrite (ok_final fl L zero_refused fl_ok). f_equal. now apply beqb_eq.
Qed.

(* A signature valid for m under a key of order L verifies for m' exactly when the challenge hashes agree modulo L:
   "changing the message makes verification fail" holds up to a hash collision, and no further. *)
Theorem verify_modified_iff_collision pub m m' sig A :
  dec pub = Some A -> (forall x, smul x A = zero -> x mod L = 0) ->
  verify o fl pub m sig = Ok true ->
  (verify o fl pub m' sig = Ok true <-> challenge o fl (fl_sig_R fl sig) pub m' = challenge o fl (fl_sig_R fl sig) pub m).
Proof.
  intros Hd Hord Hv. apply verify_true_inv in Hv as [Hz [Hs [A' [Hd' [Hk He]]]]].
  rewrite Hd in Hd'. injection Hd' as <-.
  split.
  - intros Hv'. apply verify_true_inv in Hv' as [_ [_ [A'' [Hd'' [_ He']]]]].
    rewrite Hd in Hd''. injection Hd'' as <-.
    rewrite <- He in He' at 2. apply (law_enc_inj o laws) in He'. apply add_cancel_l, neg_inj in He'.
    apply smul_eq_diff, Hord in He'. pose proof L_pos as HL.
    unfold challenge in *.
    set (h' := from_le (fl_hash fl (fl_sig_R fl sig ++ pub ++ m'))) in *.
    set (h := from_le (fl_hash fl (fl_sig_R fl sig ++ pub ++ m))) in *.
    pose proof (Z.mod_pos_bound h' L HL). pose proof (Z.mod_pos_bound h L HL).
    apply Z.mod_divide in He'; [|lia]. destruct He' as [c Hc].
    assert (c = 0) by nia. lia.
  - intros Hc. apply (verify_true_intro pub m' sig A); try assumption. now rewrite Hc.
Qed.

(* two valid signatures with the same R part for the same key and message have the same S: every change of the S half is refused *)
Theorem verify_S_unique pub m sig1 sig2 :
  fl_sig_R fl sig1 = fl_sig_R fl sig2 -> wf_bytes (fl_sig_S fl sig1) = true -> wf_bytes (fl_sig_S fl sig2) = true ->
  verify o fl pub m sig1 = Ok true -> verify o fl pub m sig2 = Ok true ->
  from_le (fl_sig_S fl sig1) = from_le (fl_sig_S fl sig2).
Proof.
  intros HR Hw1 Hw2 H1 H2.
  apply verify_true_inv in H1 as [_ [Hs1 [A [Hd [_ He1]]]]].
  apply verify_true_inv in H2 as [_ [Hs2 [A' [Hd' [_ He2]]]]].
  rewrite Hd in Hd'. injection Hd' as <-.
  rewrite <- HR in He2. rewrite <- He1 in He2 at 2. apply (law_enc_inj o laws) in He2. apply add_cancel_r in He2.
  apply smul_eq_diff in He2. apply (law_order_B o laws) in He2.
  apply (ok_s_ok_true fl L zero_refused fl_ok) in Hs1, Hs2.
  pose proof (from_le_bound _ Hw1) as [Hb1 _]. pose proof (from_le_bound _ Hw2) as [Hb2 _]. pose proof L_pos as HL.
  apply Z.mod_divide in He2; [|lia]. destruct He2 as [c Hc]. assert (c = 0) by nia. lia.
Qed.

Theorem verify_rejects_unreduced_S pub m sig : L <= from_le (fl_sig_S fl sig) -> verify o fl pub m sig <> Ok true.
Proof.
  intros HS Hv. apply verify_true_inv in Hv as [_ [Hs _]]. apply (ok_s_ok_true fl L zero_refused fl_ok) in Hs. lia.
Qed.

Theorem verify_rejects_zero_S pub m sig :
  zero_refused = true -> from_le (fl_sig_S fl sig) = 0 -> verify o fl pub m sig <> Ok true.
Proof.
  intros Hz HS Hv. apply verify_true_inv in Hv as [_ [Hs _]]. now apply (ok_zero_refused fl L zero_refused fl_ok Hz _ HS).
Qed.

Theorem verifier_rejects_zero_key m sig : verify o fl (zeros 32) m sig = Reject.
Proof.
  unfold verify. assert (H : fl_zero_key fl (zeros 32) = true) by now apply (ok_zero_key fl L zero_refused fl_ok).
  now rewrite H.
Qed.

(* the strict verifier (NEM) accepts only keys that are canonical, not of small order and in the main subgroup *)
Theorem strict_verifier_key_checks pub m sig A :
  fl_strict_key fl = true -> dec pub = Some A -> verify o fl pub m sig = Ok true ->
  g_canonical o pub = true /\ smul 8 A <> zero /\ smul L A = zero.
Proof.
  intros Hs Hd Hv. apply verify_true_inv in Hv as [_ [_ [A' [Hd' [Hk _]]]]]. rewrite Hd in Hd'. injection Hd' as <-.
  specialize (Hk Hs). unfold key_valid in Hk. apply Bool.andb_true_iff in Hk as [Hk H3]. apply Bool.andb_true_iff in Hk as [H1 H2].
  repeat split; [exact H1 | | now apply (law_is_zero o laws)].
  intros E. apply (law_is_zero o laws) in E. rewrite E in H2. discriminate.
Qed.

(* ---- shared secrets ---- *)
Theorem shared_secret_honest k k' :
  shared_secret o fl k (public_key o fl k') =
  inr (enc (smul (fl_scalar_pub fl (secret_digest fl k) * fl_scalar_pub fl (secret_digest fl k')) B)).
Proof.
  unfold shared_secret, public_key. rewrite (law_enc_canonical o laws), (law_dec_enc o laws). cbn [negb].
  assert (H : g_is_zero o (smul L (smul (fl_scalar_pub fl (secret_digest fl k')) B)) = true)
    by (apply (law_is_zero o laws), honest_in_main_subgroup).
  rewrite H. cbn [negb]. destruct (digest_ok k) as [Hl Hw].
  rewrite (ok_scalar_dh fl L zero_refused fl_ok) by assumption. now rewrite (law_smul_mul o laws).
Qed.

Theorem shared_symmetric k k' : shared_secret o fl k (public_key o fl k') = shared_secret o fl k' (public_key o fl k).
Proof. rewrite !shared_secret_honest. now rewrite Z.mul_comm. Qed.

(* whenever a secret comes out, the key was canonical, decoded to a point of the main subgroup, and the secret is the encoded
   product of the clamped hashed private scalar and that point *)
Theorem shared_secret_def k pub s :
  shared_secret o fl k pub = inr s ->
  g_canonical o pub = true /\ exists A, dec pub = Some A /\ smul L A = zero /\ s = enc (smul (fl_scalar_dh fl (secret_digest fl k)) A).
Proof.
  unfold shared_secret. destruct (g_canonical o pub); cbn [negb]; [|discriminate].
  destruct (dec pub) as [A|]; [|discriminate].
  destruct (g_is_zero o (smul L A)) eqn:E; cbn [negb]; [|discriminate].
  intros H. injection H as <-. split; [reflexivity|]. exists A. repeat split. now apply (law_is_zero o laws).
Qed.

Theorem refuses_noncanonical k pub : g_canonical o pub = false -> shared_secret o fl k pub = inl DhNotCanonical.
Proof. intros H. unfold shared_secret. now rewrite H. Qed.

Theorem refuses_outside_subgroup k pub A :
  dec pub = Some A -> smul L A <> zero -> exists e, shared_secret o fl k pub = inl e.
Proof.
  intros Hd HA. unfold shared_secret. destruct (g_canonical o pub); cbn [negb]; [|now eexists].
  rewrite Hd. destruct (g_is_zero o (smul L A)) eqn:E; cbn [negb]; [|now eexists].
  apply (law_is_zero o laws) in E. contradiction.
Qed.

Theorem refuses_undecodable k pub : dec pub = None -> exists e, shared_secret o fl k pub = inl e.
Proof.
  intros Hd. unfold shared_secret. destruct (g_canonical o pub); cbn [negb]; [|now eexists]. rewrite Hd. now eexists.
Qed.

End Laws.
