(* Proofs about Sym/Ids.v (which is instantiated with the constants regenerated into Gen/IdsOps.v). *)
From Symv Require Import Base.Bytes Base.PyOps Base.BytesLemmas Sym.Ids.
From Coq Require Import Lia ZifyBool.
Open Scope Z_scope.

(* fixed-text specifications (never regenerated) *)
Definition mosaic_id_spec (H : bytes -> bytes) (addr : bytes) (nonce : Z) : Z :=
  from_le (firstn 8 (H (to_le 4 nonce ++ addr))) mod 2 ^ 63.
Definition namespace_id_spec (H : bytes -> bytes) (name : bytes) (parent : Z) : Z :=
  from_le (firstn 8 (H (to_le 8 parent ++ name))) mod 2 ^ 63 + 2 ^ 63.
Definition metadata_key_spec (H : bytes -> bytes) (seed : bytes) : Z :=
  from_le (firstn 8 (H seed)) mod 2 ^ 63 + 2 ^ 63.
Definition alnum_spec (ch : Z) : bool := ((97 <=? ch) && (ch <=? 122)) || ((48 <=? ch) && (ch <=? 57)).
Definition name_char_spec (ch : Z) : bool := alnum_spec ch || (ch =? 95) || (ch =? 45).
Definition valid_name_spec (n : list Z) : bool :=
  match n with [] => false | c :: _ => alnum_spec c && forallb name_char_spec n end.
Fixpoint join (sep : Z) (parts : list (list Z)) : list Z :=
  match parts with [] => [] | [p] => p | p :: ps => p ++ sep :: join sep ps end.

Lemma first8_bound bs : wf_bytes bs = true -> 0 <= from_le (firstn 8 bs) < 2 ^ (63 + 1).
Proof.
  intros Hwf. pose proof (from_le_bound (firstn 8 bs) (wf_firstn 8 bs Hwf)) as Hb.
  pose proof (firstn_le_length 8 bs) as Hl.
  assert (2 ^ (8 * Z.of_nat (length (firstn 8 bs))) <= 2 ^ (63 + 1)) by (apply Z.pow_le_mono_r; lia).
  lia.
Qed.

Lemma forallb_ext' {A} (f g : A -> bool) l : (forall x, f x = g x) -> forallb f l = forallb g l.
Proof. intros E. induction l as [|x l IH]; cbn; [reflexivity | now rewrite E, IH]. Qed.

Section WithHash.
Variable H : bytes -> bytes.
Hypothesis H_wf : forall x, wf_bytes (H x) = true.

Lemma mosaic_id_def addr nonce : generate_mosaic_id H addr nonce = mosaic_id_spec H addr nonce.
Proof.
  unfold generate_mosaic_id, mosaic_id_spec.
  cbv [mosaic_nonce_order mosaic_nonce_w mosaic_dig_order mosaic_dig_lo mosaic_dig_hi mosaic_test_op mosaic_upd_op
       int_to_bytes int_from_bytes slice ev2 Nat.sub skipn].
  change ns_flag with (2 ^ 63).
  apply clear_top; [lia|]. apply first8_bound, H_wf.
Qed.

Lemma mosaic_id_range addr nonce : 0 <= generate_mosaic_id H addr nonce < 2 ^ 63.
Proof. rewrite mosaic_id_def. unfold mosaic_id_spec. apply Z.mod_pos_bound. reflexivity. Qed.

Lemma namespace_id_def name parent : generate_namespace_id H name parent = namespace_id_spec H name parent.
Proof.
  unfold generate_namespace_id, namespace_id_spec.
  cbv [ns_parent_order ns_parent_w ns_dig_order ns_dig_lo ns_dig_hi ns_set_op int_to_bytes int_from_bytes slice ev2 Nat.sub skipn].
  change ns_flag with (2 ^ 63).
  apply set_top; [lia|]. apply first8_bound, H_wf.
Qed.

Lemma namespace_id_range name parent : 2 ^ 63 <= generate_namespace_id H name parent < 2 ^ 64.
Proof.
  rewrite namespace_id_def. unfold namespace_id_spec.
  pose proof (Z.mod_pos_bound (from_le (firstn 8 (H (to_le 8 parent ++ name)))) (2 ^ 63) eq_refl).
  change (2 ^ 64) with (2 ^ 63 + 2 ^ 63). lia.
Qed.

Lemma mosaic_namespace_disjoint addr nonce name parent : generate_mosaic_id H addr nonce <> generate_namespace_id H name parent.
Proof. pose proof (mosaic_id_range addr nonce). pose proof (namespace_id_range name parent). lia. Qed.

Lemma is_alphanum_spec ch : is_alphanum ch = alnum_spec ch.
Proof. reflexivity. Qed.

Lemma valid_name_def n : is_valid_namespace_name n = valid_name_spec n.
Proof.
  unfold is_valid_namespace_name, valid_name_spec. destruct n as [|c r]; [reflexivity|]. f_equal.
  apply forallb_ext'. intros ch. unfold name_char_spec, name_extra_chars. cbn [existsb].
  change name_extra_1 with 95. change name_extra_2 with 45. now rewrite Bool.orb_false_r, Bool.orb_assoc.
Qed.

Lemma valid_name_ascii n : is_valid_namespace_name n = true -> forallb (fun ch => (0 <=? ch) && (ch <? 128)) n = true.
Proof.
  rewrite valid_name_def. unfold valid_name_spec. destruct n as [|c r]; [discriminate|].
  intros Hv. apply Bool.andb_true_iff in Hv as [_ Hall]. rewrite forallb_forall in *. intros ch Hin.
  specialize (Hall ch Hin). unfold name_char_spec, alnum_spec in Hall. lia.
Qed.

(* the path is the left scan of the ids, each level's id being the next parent *)
Fixpoint path_spec (parent : Z) (parts : list (list Z)) : list Z :=
  match parts with
  | [] => []
  | p :: ps => let id := namespace_id_spec H p parent in id :: path_spec id ps
  end.

Lemma path_from_valid parent parts :
  forallb valid_name_spec parts = true -> namespace_path_from H parent parts = Some (path_spec parent parts).
Proof.
  revert parent; induction parts as [|p ps IH]; intros parent Hv; cbn [namespace_path_from path_spec]; [reflexivity|].
  cbn [forallb] in Hv. apply Bool.andb_true_iff in Hv as [Hp Hps].
  rewrite valid_name_def, Hp, namespace_id_def. now rewrite IH.
Qed.

Lemma path_from_invalid parent parts :
  forallb valid_name_spec parts = false -> namespace_path_from H parent parts = None.
Proof.
  revert parent; induction parts as [|p ps IH]; intros parent Hv; cbn [namespace_path_from forallb] in *; [discriminate|].
  rewrite valid_name_def. destruct (valid_name_spec p); [|reflexivity]. cbn in Hv. now rewrite IH.
Qed.

Lemma path_length parent parts : length (path_spec parent parts) = length parts.
Proof. revert parent; induction parts as [|p ps IH]; intros parent; cbn; [reflexivity | now rewrite IH]. Qed.

Lemma namespace_path_def fqn :
  generate_namespace_path H fqn =
  if forallb valid_name_spec (split_on 46 fqn) then Some (path_spec 0 (split_on 46 fqn)) else None.
Proof.
  unfold generate_namespace_path. change path_sep with 46. change path_root_parent with 0.
  destruct (forallb valid_name_spec (split_on 46 fqn)) eqn:Hv; [now apply path_from_valid | now apply path_from_invalid].
Qed.

Lemma metadata_key_def seed : (8 <= length (H seed))%nat -> metadata_generate_key H seed = metadata_key_spec H seed.
Proof.
  intros Hlen. unfold metadata_generate_key, metadata_key_spec.
  cbv [md_n md_idx md_op md_mask md_order int_from_bytes ev2].
  pose proof (H_wf seed) as Hwf. destruct (H seed) as [|b0 [|b1 [|b2 [|b3 [|b4 [|b5 [|b6 [|b7 r]]]]]]]]; cbn [length] in Hlen; try lia.
  cbn [firstn update_nth from_le].
  cbn [wf_bytes forallb] in Hwf. unfold is_byte in Hwf.
  assert (Hb7 : 0 <= b7 < 2 ^ (7 + 1)) by (change (2 ^ (7 + 1)) with 256; lia).
  change 128 with (2 ^ 7). rewrite (set_top b7 7 ltac:(lia) Hb7). change (2 ^ 7) with 128.
  change (2 ^ 63) with 9223372036854775808.
  Z.div_mod_to_equations. lia.
Qed.

Lemma metadata_key_range seed : (8 <= length (H seed))%nat -> 2 ^ 63 <= metadata_generate_key H seed < 2 ^ 64.
Proof.
  intros Hlen. rewrite metadata_key_def by exact Hlen. unfold metadata_key_spec.
  pose proof (Z.mod_pos_bound (from_le (firstn 8 (H seed))) (2 ^ 63) eq_refl).
  change (2 ^ 64) with (2 ^ 63 + 2 ^ 63). lia.
Qed.

End WithHash.

(* split_on really is str.split: joining gives the string back and no part contains the separator *)
Lemma split_on_nonempty sep s : split_on sep s <> [].
Proof. induction s as [|c r IH]; cbn; [discriminate|]. destruct (c =? sep); [discriminate|]. destruct (split_on sep r); discriminate. Qed.

Lemma join_split sep s : join sep (split_on sep s) = s.
Proof.
  induction s as [|c r IH]; cbn [split_on]; [reflexivity|].
  destruct (Z.eqb_spec c sep) as [->|Hne].
  - pose proof (split_on_nonempty sep r). destruct (split_on sep r) as [|p ps]; [contradiction|].
    cbn [join app] in *. now rewrite IH.
  - pose proof (split_on_nonempty sep r). destruct (split_on sep r) as [|p ps]; [contradiction|].
    destruct ps as [|q qs]; cbn [join app] in *; now rewrite <- IH.
Qed.

Lemma split_no_sep sep s : Forall (fun p => ~ In sep p) (split_on sep s).
Proof.
  induction s as [|c r IH]; cbn [split_on]; [constructor; [intros []|constructor]|].
  destruct (Z.eqb_spec c sep) as [->|Hne].
  - constructor; [intros []|exact IH].
  - pose proof (split_on_nonempty sep r). destruct (split_on sep r) as [|p ps]; [contradiction|].
    inversion IH as [|? ? Hp Hps]; subst. constructor; [|exact Hps]. intros [Hc|Hin]; [congruence|contradiction].
Qed.

(* metadata update payload *)
Lemma xor_pad_cancel a b : length a = length b -> xor_pad a (map (fun p => Z.lxor (fst p) (snd p)) (combine a b)) = b.
Proof.
  revert b; induction a as [|x a IH]; intros [|y b] Hl; cbn in *; try discriminate; [reflexivity|].
  rewrite IH by congruence. f_equal. rewrite <- Z.lxor_assoc, Z.lxor_nilpotent. apply Z.lxor_0_l.
Qed.

Lemma xor_pad_app a1 a2 b1 b2 : length a1 = length b1 -> xor_pad (a1 ++ a2) (b1 ++ b2) = xor_pad a1 b1 ++ xor_pad a2 b2.
Proof.
  revert b1; induction a1 as [|x a IH]; intros [|y b] Hl; cbn in *; try discriminate; [reflexivity|].
  now rewrite IH by congruence.
Qed.

Lemma xor_pad_self a : xor_pad a a = repeat 0 (length a).
Proof. induction a as [|x a IH]; cbn; [reflexivity|]. now rewrite IH, Z.lxor_nilpotent. Qed.

Lemma xor_pad_nil_r a : xor_pad a [] = a.
Proof. destruct a; reflexivity. Qed.

Lemma xor_update_law old_value new_value :
  apply_update old_value (metadata_update_value old_value new_value) (length new_value) = new_value.
Proof.
  unfold apply_update, metadata_update_value. destruct old_value as [|o os] eqn:Hold.
  - cbn [xor_pad]. apply firstn_all.
  - rewrite <- Hold. clear Hold o os.
    change md_xor_op with BitXor. change md_len_op with Gt. cbn [ev2 cmp].
    set (s := Nat.min (length old_value) (length new_value)).
    assert (Hs1 : length (firstn s old_value) = s) by (apply firstn_length_le; lia).
    assert (Hs2 : length (firstn s new_value) = s) by (apply firstn_length_le; lia).
    rewrite <- (firstn_skipn s old_value) at 1.
    rewrite xor_pad_app by (rewrite map_length, combine_length; lia).
    rewrite xor_pad_cancel by lia.
    destruct (Z.ltb_spec (Z.of_nat (length new_value)) (Z.of_nat (length old_value))) as [Hlt|Hge].
    + (* new shorter: s = length new, tail cancels to zeros and is cut off *)
      assert (s = length new_value) as Hs by lia.
      rewrite xor_pad_self. rewrite Hs, firstn_all. rewrite firstn_app, firstn_all, Nat.sub_diag. cbn. apply app_nil_r.
    + assert (s = length old_value) as Hs by lia.
      rewrite Hs at 2. rewrite skipn_all. cbn [xor_pad]. rewrite firstn_skipn. apply firstn_all.
Qed.

(* namespace alias addresses *)
Lemma alias_address_length id net : length (address_from_namespace_id id net) = 24%nat.
Proof.
  unfold address_from_namespace_id. cbv [alias_w_order int_to_bytes alias_w alias_fill_op ev2 alias_used alias_fill].
  change address_size with 24. rewrite !app_length, length_to_le, repeat_length. reflexivity.
Qed.

Lemma alias_address_roundtrip id net :
  0 <= id < 2 ^ 64 -> Z.even net = true -> address_to_namespace_id (address_from_namespace_id id net) = Some id.
Proof.
  intros Hid Hnet. unfold address_to_namespace_id, address_from_namespace_id.
  cbv [alias_test_op alias_test_idx alias_test_mask alias_inc_op alias_inc alias_order alias_lo alias_hi alias_w_order alias_w
       int_to_bytes int_from_bytes ev2 slice Nat.sub].
  cbn [app nth skipn].
  assert (Z.land (net + 1) 1 = 1) as ->.
  { change 1 with (Z.ones 1) at 2. rewrite Z.land_ones by lia. change (2 ^ 1) with 2.
    rewrite Z.even_spec in Hnet. destruct Hnet as [k ->]. Z.div_mod_to_equations. lia. }
  cbn [Z.eqb]. rewrite firstn_app, length_to_le, Nat.sub_diag, firstn_O, app_nil_r.
  rewrite (firstn_all2 (n := 8) (to_le 8 id)) by (rewrite length_to_le; lia). f_equal. apply from_le_to_le_small. exact Hid.
Qed.

Lemma alias_address_first_byte id net : nth 0 (address_from_namespace_id id net) 0 = net + 1.
Proof. reflexivity. Qed.

Lemma non_alias_address addr : Z.land (nth 0 addr 0) 1 = 0 -> address_to_namespace_id addr = None.
Proof. unfold address_to_namespace_id. cbv [alias_test_op alias_test_idx alias_test_mask ev2]. now intros ->. Qed.

(* non-vacuity: a concrete path *)
Example path_example :
  let H := fun _ : bytes => to_le 32 (2 ^ 64 - 1) in
  generate_namespace_path H [102; 111; 111; 46; 98; 45; 49] = Some [2 ^ 64 - 1; 2 ^ 64 - 1]
  /\ generate_namespace_path H [102; 111; 111; 46; 46; 98] = None
  /\ generate_namespace_path H [] = None
  /\ generate_namespace_path H [95; 97] = None.
Proof. vm_compute. repeat split. Qed.
