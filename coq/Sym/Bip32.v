(* symbolchain/Bip32.py (+ the part of BufferWriter.py it uses), bip32_path / bip32_node_to_key_pair of
   facade/SymbolFacade.py and facade/NemFacade.py, and the private-key handling of symbol/KeyPair.py and nem/KeyPair.py.
   Model file: definitions only.  Constants and operators come from Gen/Bip32Ops.v, which the translator rewrites from /repo
   on every run.  Strings (curve names, network names, mnemonics, passphrases) are their utf8 bytes. *)
From Symv Require Export Base.PyOps Sym.Hmac Gen.Bip32Ops.
Open Scope Z_scope.

(* ---- BufferWriter ---- *)
(* BufferWriter.write_int: value.to_bytes(count, byte_order) raises OverflowError unless 0 <= value < 256^count *)
Definition write_int (order : endian) (value : Z) (count : nat) : result bytes :=
  if (0 <=? value) && (value <? 2 ^ (8 * Z.of_nat count)) then Ok (int_to_bytes order count value)
  else Crash "OverflowError".

(* ---- Bip32Node ---- *)
Record node := { private_key : bytes; chain_code : bytes }.

Definition key_size : nat := Z.to_nat private_key_size.   (* PrivateKey.SIZE *)

(* the two slices of Bip32Node.__init__: hmac_result[0:PrivateKey.SIZE], hmac_result[PrivateKey.SIZE:] *)
Definition node_of_hmac (hmac_result : bytes) : node :=
  {| private_key := slice node_key_lo key_size hmac_result; chain_code := skipn key_size hmac_result |}.

Section WithHmac.
Variable HM : bytes -> bytes -> bytes.   (* hmac.new(key, data, hashlib.sha512).digest() *)

Definition make_node (hmac_key data : bytes) : node := node_of_hmac (HM hmac_key data).

(* Bip32Node.derive_one: the writer is BufferWriter(derive_order) *)
Definition derive_one (n : node) (identifier : Z) : result node :=
  bind (write_int derive_order derive_pad_value derive_pad_w) (fun pad =>
  bind (write_int derive_order (ev2 harden_op harden_flag identifier) derive_index_w) (fun index =>
  Ok (make_node (chain_code n) (pad ++ private_key n ++ index)))).

(* Bip32Node.derive_path: the for loop; an exception raised by a step ends the loop *)
Definition derive_step (acc : result node) (identifier : Z) : result node := bind acc (fun n => derive_one n identifier).
Definition derive_path_from (path : list Z) (start : result node) : result node := fold_left derive_step path start.
Definition derive_path (path : list Z) (n : node) : result node := derive_path_from path (Ok n).

(* Bip32(curve_name).root_hmac_key and from_seed *)
Definition root_hmac_key (curve_name : bytes) : bytes := curve_name ++ seed_suffix.
Definition from_seed (curve_name seed : bytes) : node := make_node (root_hmac_key curve_name) seed.

(* Mnemonic.to_seed of the `mnemonic` package (BIP39; not part of /repo): PBKDF2 with PRF = HMAC-SHA512 keyed by the
   mnemonic, salt "mnemonic" ++ passphrase, 2048 iterations, 64 bytes.  The PRF is HM keyed by the mnemonic. *)
Definition bip39_salt_prefix : bytes := [109; 110; 101; 109; 111; 110; 105; 99].
Definition bip39_iterations : nat := 2048.
Definition bip39_seed_size : nat := 64.
Definition bip39_to_seed (mnemonic passphrase : bytes) : bytes :=
  pbkdf2 (HM mnemonic) 64 (bip39_salt_prefix ++ passphrase) bip39_iterations bip39_seed_size.

Definition from_mnemonic (curve_name mnemonic password : bytes) : node := from_seed curve_name (bip39_to_seed mnemonic password).

End WithHmac.

(* ---- concrete instances ---- *)
Definition derive_one_sha512 : node -> Z -> result node := derive_one hmac_sha512.
Definition derive_path_sha512 : list Z -> node -> result node := derive_path hmac_sha512.
Definition from_seed_sha512 : bytes -> bytes -> node := from_seed hmac_sha512.
Definition from_mnemonic_sha512 : bytes -> bytes -> bytes -> node := from_mnemonic hmac_sha512.
(* same function with the keyed (2 compressions per PRF call) HMAC, used for evaluation *)
Definition from_mnemonic_sha512_fast (curve_name mnemonic password : bytes) : node :=
  from_seed_sha512 curve_name (pbkdf2_hmac_sha512 mnemonic (bip39_salt_prefix ++ password) bip39_iterations bip39_seed_size).

(* ---- facades: bip32_path ---- *)
(* comparison of two Python strs (by code point = by utf8 bytes) *)
Fixpoint bytes_compare (a b : bytes) : comparison :=
  match a, b with
  | [], [] => Datatypes.Eq
  | [], _ => Datatypes.Lt
  | _, [] => Datatypes.Gt
  | x :: a', y :: b' => match x ?= y with Datatypes.Eq => bytes_compare a' b' | c => c end
  end.

Definition str_cmp (o : pyop) (a b : bytes) : bool :=
  match o, bytes_compare a b with
  | PyOps.Eq, Datatypes.Eq => true
  | PyOps.Ne, (Datatypes.Lt | Datatypes.Gt) => true
  | PyOps.Lt, Datatypes.Lt => true
  | PyOps.Le, (Datatypes.Lt | Datatypes.Eq) => true
  | PyOps.Gt, Datatypes.Gt => true
  | PyOps.Ge, (Datatypes.Gt | Datatypes.Eq) => true
  | _, _ => false
  end.

(* [44, 4343 if 'mainnet' == self.network.name else 1, account_id, 0, 0] *)
Definition symbol_bip32_path (network_name : bytes) (account_id : Z) : list Z :=
  [sym_purpose; if str_cmp sym_name_op sym_mainnet_name network_name then sym_coin_main else sym_coin_other;
   account_id; sym_change; sym_address_index].

Definition nem_bip32_path (network_name : bytes) (account_id : Z) : list Z :=
  [nem_purpose; if str_cmp nem_name_op nem_mainnet_name network_name then nem_coin_main else nem_coin_other;
   account_id; nem_change; nem_address_index].

(* ---- facades: bip32_node_to_key_pair ---- *)
(* l[::step]: every |step|-th element from the front (step > 0) or from the back (step < 0); step = 0 raises ValueError *)
Fixpoint every_nth (k skip : nat) (l : bytes) : bytes :=
  match l with
  | [] => []
  | x :: r => match skip with O => x :: every_nth k (k - 1) r | S s => every_nth k s r end
  end.

Definition step_slice (step : Z) (l : bytes) : result bytes :=
  if 0 <? step then Ok (every_nth (Z.to_nat step) 0 l)
  else if step <? 0 then Ok (every_nth (Z.to_nat (- step)) 0 (rev l))
  else Reject.

(* ByteArray.__init__(fixed_size, ..): ValueError unless the length is the fixed size *)
Definition make_private_key (b : bytes) : result bytes := if (length b =? key_size)%nat then Ok b else Reject.

Record key_pair := { signing_secret : bytes; public_key : bytes }.

Section WithPublicKey.
(* public key of a 32-byte secret: clamp(H(secret)[0:32]) * B encoded; H = SHA-512 on Symbol, Keccak-512 on NEM.
   The Ed25519 model lives elsewhere; here both are parameters. *)
Variable pubkey_sha512 : bytes -> bytes.
Variable pubkey_keccak : bytes -> bytes.

(* symbol KeyPair(private_key): Ed25519PrivateKey.from_private_bytes(private_key.bytes) *)
Definition symbol_key_pair (private_key_bytes : bytes) : key_pair :=
  {| signing_secret := private_key_bytes; public_key := pubkey_sha512 private_key_bytes |}.

(* nem KeyPair(private_key): _sk = private_key.bytes[::-1]; _pk = scalarmult_base(keccak_512(_sk)[:32]) *)
Definition nem_key_pair (private_key_bytes : bytes) : result key_pair :=
  bind (step_slice (- nem_keypair_step_abs) private_key_bytes) (fun sk =>
  Ok {| signing_secret := sk; public_key := pubkey_keccak sk |}).

(* nem KeyPair.private_key property: PrivateKey(self._sk[::-1]) *)
Definition nem_key_pair_private_key (kp : key_pair) : result bytes :=
  bind (step_slice (- nem_getter_step_abs) (signing_secret kp)) make_private_key.

(* SymbolFacade.bip32_node_to_key_pair: KeyPair(bip32_node.private_key) *)
Definition symbol_bip32_node_to_key_pair (n : node) : key_pair := symbol_key_pair (private_key n).

(* NemFacade.bip32_node_to_key_pair: KeyPair(PrivateKey(bip32_node.private_key.bytes[::-1])) *)
Definition nem_bip32_node_to_key_pair (n : node) : result key_pair :=
  bind (step_slice (- nem_facade_step_abs) (private_key n)) (fun reversed =>
  bind (make_private_key reversed) nem_key_pair).

End WithPublicKey.
