(* C14 glue: the shared KEY (HKDF over the shared secret) of the concrete model is symmetric under the named premise, and with it
   the framing theorems of Sym/MessageFramingProofs.v apply to the concrete Symbol / NEM key derivation. *)
From Symv Require Import Base.Bytes Base.BytesLemmas Base.PyOps Sym.EdAbstract Sym.EdAbstractProofs Sym.EdZ Sym.EdZProofs
  Sym.MessageFraming Sym.MessageFramingProofs Sym.Keccak Sym.Sha2 Sym.Hmac.
From Coq Require Import Lia.
Open Scope Z_scope.

Lemma encodepoint_length P : length (encodepoint P) = 32%nat.
Proof. destruct P as [[[x y] z] t]. unfold encodepoint. apply length_to_le. Qed.

Lemma public_key_length fl k : length (public_key edz_ops fl k) = 32%nat.
Proof. apply encodepoint_length. Qed.

Theorem derive_shared_key_symmetric fl zr label a b :
  EdZ_group_premise -> flavour_ok fl ed_l zr ->
  derive_shared_key fl label a (public_key edz_ops fl b) = derive_shared_key fl label b (public_key edz_ops fl a)
  /\ exists key, derive_shared_key fl label a (public_key edz_ops fl b) = inr key.
Proof.
  intros premise Hfl. destruct (edz_shared_symmetric premise fl zr a b Hfl) as [Hs [s Hk]].
  unfold derive_shared_key. rewrite <- Hs, Hk. split; [reflexivity | now eexists].
Qed.

Theorem nem_shared_key_deprecated_symmetric a b salt :
  EdZ_group_premise ->
  nem_shared_key_deprecated a (nem_public_key b) salt = nem_shared_key_deprecated b (nem_public_key a) salt
  /\ exists key, nem_shared_key_deprecated a (nem_public_key b) salt = inr key.
Proof.
  intros premise. destruct (edz_shared_symmetric premise nem_flavour true a b nem_flavour_ok) as [Hs [s Hk]].
  unfold nem_shared_key_deprecated, nem_public_key. rewrite <- Hs, Hk. split; [reflexivity | now eexists].
Qed.

Section ConcreteFraming.
Hypothesis premise : EdZ_group_premise.
Variable seal : bytes -> bytes -> bytes -> bytes * bytes.
Variable open : bytes -> bytes -> bytes -> bytes -> option bytes.
Hypothesis open_seal : forall key iv pt, open key iv (snd (seal key iv pt)) (fst (seal key iv pt)) = Some pt.
Hypothesis seal_tag : forall key iv pt, length (snd (seal key iv pt)) = 16%nat.

Lemma sym_shared_sym a b : sym_shared_key a (sym_public_key b) = sym_shared_key b (sym_public_key a).
Proof. apply (derive_shared_key_symmetric sym_flavour false sk_sym_label a b premise sym_flavour_ok). Qed.

Lemma nem_shared_sym a b : nem_shared_key a (nem_public_key b) = nem_shared_key b (nem_public_key a).
Proof. apply (derive_shared_key_symmetric nem_flavour true sk_nem_label a b premise nem_flavour_ok). Qed.

(* Symbol, current format: the message encodes, and recipient and sender both decode it to the plaintext *)
Theorem sym_message_roundtrip a b iv m : length iv = 12%nat ->
  exists e, sym_encode seal sym_shared_key a (sym_public_key b) iv m = Ok e
    /\ sym_try_decode open sym_shared_key b (sym_public_key a) e = Ok (true, m)
    /\ sym_try_decode open sym_shared_key a (sym_public_key b) e = Ok (true, m).
Proof.
  intros Hiv. destruct (derive_shared_key_symmetric sym_flavour false sk_sym_label a b premise sym_flavour_ok) as [_ [key Hk]].
  fold sym_shared_key in Hk. fold (sym_public_key b) in Hk.
  destruct (sym_encode seal sym_shared_key a (sym_public_key b) iv m) as [e| |c] eqn:E.
  - exists e. split; [reflexivity|]. split.
    + exact (sym_try_decode_encode_recipient seal open sym_shared_key sym_public_key open_seal seal_tag sym_shared_sym a b iv m key e Hk Hiv E).
    + exact (sym_try_decode_encode_sender seal open sym_shared_key sym_public_key open_seal seal_tag a b iv m key e Hk Hiv E).
  - unfold sym_encode, encode_aes_gcm in E. rewrite Hk in E. destruct (seal key iv m); discriminate.
  - unfold sym_encode, encode_aes_gcm in E. rewrite Hk in E. destruct (seal key iv m); discriminate.
Qed.

(* Symbol, delegation: the node recovers remote || vrf private keys whatever public key it is told *)
Theorem sym_delegation_roundtrip eph node iv remote vrf other : length iv = 12%nat ->
  exists e, sym_encode_delegation seal sym_shared_key sym_public_key eph (sym_public_key node) iv remote vrf = Ok e
    /\ sym_try_decode open sym_shared_key node other e = Ok (true, remote ++ vrf).
Proof.
  intros Hiv. destruct (derive_shared_key_symmetric sym_flavour false sk_sym_label eph node premise sym_flavour_ok) as [_ [key Hk]].
  fold sym_shared_key in Hk. fold (sym_public_key node) in Hk.
  destruct (sym_encode_delegation seal sym_shared_key sym_public_key eph (sym_public_key node) iv remote vrf) as [e| |c] eqn:E.
  - exists e. split; [reflexivity|].
    exact (sym_try_decode_delegation seal open sym_shared_key sym_public_key open_seal seal_tag sym_shared_sym
             (public_key_length sym_flavour) eph node iv remote vrf key other e Hk Hiv E).
  - unfold sym_encode_delegation, encode_aes_gcm in E. rewrite Hk in E. destruct (seal key iv (remote ++ vrf)); discriminate.
  - unfold sym_encode_delegation, encode_aes_gcm in E. rewrite Hk in E. destruct (seal key iv (remote ++ vrf)); discriminate.
Qed.

(* NEM, current format *)
Theorem nem_message_roundtrip cbc_dec a b iv m : length iv = 12%nat ->
  exists t e, nem_encode seal nem_shared_key a (nem_public_key b) iv m = Ok (t, e)
    /\ nem_try_decode open cbc_dec nem_shared_key nem_shared_key_deprecated b (nem_public_key a) t e = Ok (true, m)
    /\ nem_try_decode open cbc_dec nem_shared_key nem_shared_key_deprecated a (nem_public_key b) t e = Ok (true, m).
Proof.
  intros Hiv. destruct (derive_shared_key_symmetric nem_flavour true sk_nem_label a b premise nem_flavour_ok) as [_ [key Hk]].
  fold nem_shared_key in Hk. fold (nem_public_key b) in Hk.
  destruct (nem_encode seal nem_shared_key a (nem_public_key b) iv m) as [[t e]| |c] eqn:E.
  - exists t, e. split; [reflexivity|].
    exact (nem_try_decode_encode seal open cbc_dec nem_shared_key nem_shared_key_deprecated nem_public_key open_seal seal_tag
             nem_shared_sym a b iv m key t e Hk Hiv E).
  - unfold nem_encode, encode_aes_gcm in E. rewrite Hk in E. destruct (seal key iv m); discriminate.
  - unfold nem_encode, encode_aes_gcm in E. rewrite Hk in E. destruct (seal key iv m); discriminate.
Qed.
End ConcreteFraming.
