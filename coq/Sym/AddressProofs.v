(* Proofs about Sym/Base32.v and Sym/Address.v (the latter instantiated with the constants regenerated into Gen/AddressOps.v). *)
From Symv Require Import Base.Bytes Base.PyOps Base.BytesLemmas Sym.Keccak Sym.KeccakProofs Sym.Ripemd Sym.Base32 Sym.Address.
From Coq Require Import Lia ZifyBool.
Open Scope Z_scope.

(* ===================================================================================================================== *)
(* fixed-text specifications (never regenerated)                                                                          *)

(* RFC 4648 table 3: 'A'..'Z' are 0..25, '2'..'7' are 26..31 *)
Definition in_alphabet_spec (c : Z) : bool := ((65 <=? c) && (c <=? 90)) || ((50 <=? c) && (c <=? 55)).
Definition char_value (c : Z) : Z :=
  if (65 <=? c) && (c <=? 90) then c - 65 else if (50 <=? c) && (c <=? 55) then c - 24 else 0.
(* the number a text spells in base 32, most significant character first *)
Definition text_value (s : list Z) : Z := from_digits_be 32 (map char_value s).
(* 40 characters are 200 bits = 25 bytes (NEM); 39 characters are 195 bits, the leading 192 of which are 24 bytes (Symbol) *)
Definition text_to_bytes (fl : flavor) (s : list Z) : bytes :=
  match fl with Symbol => to_be 24 (text_value s / 2 ^ 3) | Nem => to_be 25 (text_value s) end.
Definition spec_size (fl : flavor) : nat := match fl with Symbol => 24%nat | Nem => 25%nat end.
Definition spec_encoded_size (fl : flavor) : nat := match fl with Symbol => 39%nat | Nem => 40%nat end.
Definition spec_checksum_size (fl : flavor) : nat := match fl with Symbol => 3%nat | Nem => 4%nat end.

(* network byte || RIPEMD-160 of the hashed key || leading checksum bytes of the hash of those 21 bytes *)
Definition address_of (H : flavor -> bytes -> bytes) (R : bytes -> bytes) (fl : flavor) (id : Z) (pk : bytes) : bytes :=
  let version := [id] ++ R (H fl pk) in
  version ++ firstn (spec_checksum_size fl) (H fl version).

(* carries the identifier and the matching checksum *)
Definition valid_address_spec (H : flavor -> bytes -> bytes) (fl : flavor) (id : Z) (a : bytes) : Prop :=
  nth_error a 0 = Some id /\ skipn 21 a = firstn (length a - 21) (H fl (firstn 21 a)).

(* ===================================================================================================================== *)
(* digits in a base                                                                                                        *)

Section Digits.
Variable base : Z.
Hypothesis base_gt1 : 1 < base.
Definition digit (d : Z) : Prop := 0 <= d < base.

Lemma to_digits_le_length n x : length (to_digits_le base n x) = n.
Proof. revert x; induction n as [|n IH]; intros x; cbn [to_digits_le length]; [reflexivity | now rewrite IH]. Qed.

Lemma to_digits_le_range n x : Forall digit (to_digits_le base n x).
Proof.
  revert x; induction n as [|n IH]; intros x; cbn [to_digits_le]; constructor; [|apply IH].
  unfold digit. apply Z.mod_pos_bound. lia.
Qed.

Lemma from_to_digits_le n x : from_digits_le base (to_digits_le base n x) = x mod base ^ Z.of_nat n.
Proof.
  revert x; induction n as [|n IH]; intros x; cbn [to_digits_le from_digits_le].
  - change (Z.of_nat 0) with 0. now rewrite Z.pow_0_r, Z.mod_1_r.
  - rewrite IH, Nat2Z.inj_succ, Z.pow_succ_r by lia.
    rewrite Z.rem_mul_r by (try apply Z.pow_pos_nonneg; lia). reflexivity.
Qed.

Lemma from_digits_le_bound ds : Forall digit ds -> 0 <= from_digits_le base ds < base ^ Z.of_nat (length ds).
Proof.
  induction 1 as [|d r Hd Hr IH]; cbn [from_digits_le length].
  - change (Z.of_nat 0) with 0. rewrite Z.pow_0_r. lia.
  - rewrite Nat2Z.inj_succ, Z.pow_succ_r by lia. unfold digit in Hd. nia.
Qed.

Lemma to_from_digits_le ds : Forall digit ds -> to_digits_le base (length ds) (from_digits_le base ds) = ds.
Proof.
  induction 1 as [|d r Hd Hr IH]; cbn [from_digits_le length to_digits_le]; [reflexivity|]. unfold digit in Hd.
  rewrite (Z.mul_comm base), Z.mod_add, Z.div_add by lia. rewrite Z.mod_small, Z.div_small by lia. cbn [Z.add]. now rewrite IH.
Qed.

Lemma from_digits_le_app a b :
  from_digits_le base (a ++ b) = from_digits_le base a + base ^ Z.of_nat (length a) * from_digits_le base b.
Proof.
  induction a as [|d r IH]; cbn [app from_digits_le length].
  - change (Z.of_nat 0) with 0. rewrite Z.pow_0_r. lia.
  - rewrite IH, Nat2Z.inj_succ, Z.pow_succ_r by lia. ring.
Qed.
End Digits.

Lemma to_le_digits n x : to_le n x = to_digits_le 256 n x.
Proof. revert x; induction n as [|n IH]; intros x; cbn [to_le to_digits_le]; [reflexivity | now rewrite IH]. Qed.

Lemma from_le_digits bs : from_le bs = from_digits_le 256 bs.
Proof. induction bs as [|b r IH]; cbn [from_le from_digits_le]; [reflexivity | now rewrite IH]. Qed.

Lemma wf_bytes_Forall bs : wf_bytes bs = true <-> Forall (digit 256) bs.
Proof.
  unfold wf_bytes, digit. rewrite forallb_forall, Forall_forall. unfold is_byte.
  split; intros Hall x Hin; specialize (Hall x Hin); lia.
Qed.

Lemma wf_rev bs : wf_bytes (rev bs) = wf_bytes bs.
Proof.
  induction bs as [|b r IH]; cbn [rev]; [reflexivity|]. rewrite wf_app, IH. cbn [wf_bytes forallb].
  fold (wf_bytes r). destruct (is_byte b), (wf_bytes r); reflexivity.
Qed.

Lemma to_be_from_be bs : wf_bytes bs = true -> to_be (length bs) (from_be bs) = bs.
Proof.
  intros Hwf. unfold to_be, from_be. rewrite <- (rev_length bs), to_le_from_le by now rewrite wf_rev. apply rev_involutive.
Qed.

Lemma from_be_bound bs : wf_bytes bs = true -> 0 <= from_be bs < 2 ^ (8 * Z.of_nat (length bs)).
Proof. intros Hwf. unfold from_be. rewrite <- (rev_length bs). apply from_le_bound. now rewrite wf_rev. Qed.

Lemma length_to_be n x : length (to_be n x) = n.
Proof. unfold to_be. now rewrite rev_length, length_to_le. Qed.

Lemma wf_to_be n x : wf_bytes (to_be n x) = true.
Proof. unfold to_be. rewrite wf_rev. apply wf_to_le. Qed.

(* a (b + a)-byte number splits into its low b bytes and the rest *)
Lemma to_le_split b a y t : 0 <= y < 256 ^ Z.of_nat b -> to_le (b + a) (y + 256 ^ Z.of_nat b * t) = to_le b y ++ to_le a t.
Proof.
  revert y; induction b as [|b IH]; intros y Hy.
  - change (Z.of_nat 0) with 0 in *. rewrite Z.pow_0_r in *. cbn [Nat.add to_le app]. f_equal. lia.
  - rewrite Nat2Z.inj_succ, Z.pow_succ_r in * by lia. cbn [Nat.add to_le app].
    assert (Hp : 0 < 256 ^ Z.of_nat b) by (apply Z.pow_pos_nonneg; lia).
    set (P := 256 ^ Z.of_nat b) in *.
    replace (y + 256 * P * t) with (y + (P * t) * 256) by ring.
    rewrite Z.mod_add, Z.div_add by lia. f_equal.
    apply IH.
    clear - Hy Hp. Z.div_mod_to_equations. lia.
Qed.

Lemma to_be_split a b t y : 0 <= y < 256 ^ Z.of_nat b -> to_be (a + b) (y + 256 ^ Z.of_nat b * t) = to_be a t ++ to_be b y.
Proof. intros Hy. unfold to_be. rewrite Nat.add_comm, to_le_split by exact Hy. apply rev_app_distr. Qed.

(* ===================================================================================================================== *)
(* the alphabet                                                                                                            *)

Lemma index_of_some c l i v :
  index_of c l i = Some v -> i <= v < i + Z.of_nat (length l) /\ nth (Z.to_nat (v - i)) l b32_pad = c.
Proof.
  revert i; induction l as [|x r IH]; intros i; cbn [index_of]; [discriminate|].
  destruct (Z.eqb_spec x c) as [->|Hne].
  - intros [= <-]. rewrite Z.sub_diag. cbn [length]. split; [lia | reflexivity].
  - intros Hs. apply IH in Hs as [Hr Hn]. cbn [length]. split; [lia|].
    replace (Z.to_nat (v - i)) with (S (Z.to_nat (v - (i + 1)))) by lia. exact Hn.
Qed.

Lemma index_of_none c l i : index_of c l i = None <-> existsb (Z.eqb c) l = false.
Proof.
  revert i; induction l as [|x r IH]; intros i; cbn [index_of existsb]; [tauto|].
  rewrite (Z.eqb_sym c x). destruct (x =? c); cbn [orb]; [split; discriminate | apply IH].
Qed.

Definition digits32 : list Z := map Z.of_nat (seq 0 32).
Lemma in_digits32 d : 0 <= d < 32 -> In d digits32.
Proof. intros Hd. apply in_map_iff. exists (Z.to_nat d). split; [lia | apply in_seq; lia]. Qed.

Lemma b32_val_char d : 0 <= d < 32 -> b32_val (b32_char d) = Some d.
Proof.
  intros Hd. apply in_digits32 in Hd.
  assert (Hall : forallb (fun d => match b32_val (b32_char d) with Some v => v =? d | None => false end) digits32 = true)
    by (vm_compute; reflexivity).
  rewrite forallb_forall in Hall. specialize (Hall d Hd). destruct (b32_val (b32_char d)); [f_equal; lia | discriminate].
Qed.

Lemma b32_val_some c v : b32_val c = Some v -> 0 <= v < 32 /\ b32_char v = c.
Proof.
  unfold b32_val, b32_char. intros Hs. apply index_of_some in Hs as [Hr Hn]. change (Z.of_nat (length b32_alphabet)) with 32 in Hr.
  rewrite Z.sub_0_r in Hn. split; [lia | exact Hn].
Qed.

Lemma in_alphabet_model_spec c : in_b32_alphabet c = in_alphabet_spec c.
Proof. unfold in_b32_alphabet, in_alphabet_spec, b32_alphabet. cbn [existsb]. lia. Qed.

Lemma in_alphabet_val c : in_b32_alphabet c = true -> b32_val c = Some (char_value c).
Proof.
  intros Hin. destruct (b32_val c) as [v|] eqn:Hv.
  - apply b32_val_some in Hv as [Hr <-]. apply in_digits32 in Hr.
    assert (Hall : forallb (fun v => char_value (b32_char v) =? v) digits32 = true) by (vm_compute; reflexivity).
    rewrite forallb_forall in Hall. specialize (Hall v Hr). cbv beta in Hall. apply Z.eqb_eq in Hall. now rewrite Hall.
  - apply index_of_none in Hv. unfold in_b32_alphabet in Hin. congruence.
Qed.

Lemma b32_char_in_alphabet d : 0 <= d < 32 -> in_b32_alphabet (b32_char d) = true.
Proof.
  intros Hd. apply in_digits32 in Hd.
  assert (Hall : forallb (fun d => in_b32_alphabet (b32_char d)) digits32 = true) by (vm_compute; reflexivity).
  rewrite forallb_forall in Hall. exact (Hall d Hd).
Qed.

Lemma char_value_char d : 0 <= d < 32 -> char_value (b32_char d) = d.
Proof.
  intros Hd. pose proof (b32_val_char d Hd) as Hv. rewrite (in_alphabet_val _ (b32_char_in_alphabet d Hd)) in Hv. congruence.
Qed.

Lemma char_value_range c : 0 <= char_value c < 32.
Proof.
  unfold char_value. destruct ((65 <=? c) && (c <=? 90)) eqn:E1; [lia|]. destruct ((50 <=? c) && (c <=? 55)) eqn:E2; lia.
Qed.

Lemma in_alphabet_ascii c : in_b32_alphabet c = true -> (c <? 128) = true /\ c <> b32_pad.
Proof. rewrite in_alphabet_model_spec. unfold in_alphabet_spec, b32_pad. lia. Qed.
