(* Proofs about Sym/Base32.v and Sym/Address.v (the latter instantiated with the constants regenerated into Gen/AddressOps.v). *)
From Symv Require Import Base.Bytes Base.PyOps Base.BytesLemmas Sym.Keccak Sym.KeccakProofs Sym.Ripemd Sym.Base32 Sym.Address.
From Coq Require Import Lia ZifyBool.
Open Scope Z_scope.

(* ===================================================================================================================== *)
(* fixed-text specifications (never regenerated)                                                                          *)

(* RFC 4648 table 3: 'A'..'Z' are 0..25, '2'..'7' are 26..31 *)
Definition in_alphabet_spec (c : Z) : bool := ((65 <=? c) && (c <=? 90)) || ((50 <=? c) && (c <=? 55)).
Definition char_value (c : Z) : Z :=
  if (65 <=? c) && (c <=? 90) then c - 65 else if (50 <=? c) && (c <=? 55) then c - 24 else 0.
(* the number a text spells in base 32, most significant character first *)
Definition text_value (s : list Z) : Z := from_digits_be 32 (map char_value s).
(* 40 characters are 200 bits = 25 bytes (NEM); 39 characters are 195 bits, the leading 192 of which are 24 bytes (Symbol) *)
Definition text_to_bytes (fl : flavor) (s : list Z) : bytes :=
  match fl with Symbol => to_be 24 (text_value s / 2 ^ 3) | Nem => to_be 25 (text_value s) end.
Definition spec_size (fl : flavor) : nat := match fl with Symbol => 24%nat | Nem => 25%nat end.
Definition spec_encoded_size (fl : flavor) : nat := match fl with Symbol => 39%nat | Nem => 40%nat end.
Definition spec_checksum_size (fl : flavor) : nat := match fl with Symbol => 3%nat | Nem => 4%nat end.

(* network byte || RIPEMD-160 of the hashed key || leading checksum bytes of the hash of those 21 bytes *)
Definition address_of (H : flavor -> bytes -> bytes) (R : bytes -> bytes) (fl : flavor) (id : Z) (pk : bytes) : bytes :=
  let version := [id] ++ R (H fl pk) in
  version ++ firstn (spec_checksum_size fl) (H fl version).

(* carries the identifier and the matching checksum *)
Definition valid_address_spec (H : flavor -> bytes -> bytes) (fl : flavor) (id : Z) (a : bytes) : Prop :=
  nth_error a 0 = Some id /\ skipn 21 a = firstn (length a - 21) (H fl (firstn 21 a)).

(* ===================================================================================================================== *)
(* digits in a base                                                                                                        *)

Section Digits.
Variable base : Z.
Hypothesis base_gt1 : 1 < base.
Definition digit (d : Z) : Prop := 0 <= d < base.

Lemma to_digits_le_length n x : length (to_digits_le base n x) = n.
Proof. revert x; induction n as [|n IH]; intros x; cbn [to_digits_le length]; [reflexivity | now rewrite IH]. Qed.

Lemma to_digits_le_range n x : Forall digit (to_digits_le base n x).
Proof.
  revert x; induction n as [|n IH]; intros x; cbn [to_digits_le]; constructor; [|apply IH].
  unfold digit. apply Z.mod_pos_bound. lia.
Qed.

Lemma from_to_digits_le n x : from_digits_le base (to_digits_le base n x) = x mod base ^ Z.of_nat n.
Proof.
  revert x; induction n as [|n IH]; intros x; cbn [to_digits_le from_digits_le].
  - change (Z.of_nat 0) with 0. now rewrite Z.pow_0_r, Z.mod_1_r.
  - rewrite IH, Nat2Z.inj_succ, Z.pow_succ_r by lia.
    rewrite Z.rem_mul_r by (try apply Z.pow_pos_nonneg; lia). reflexivity.
Qed.

Lemma from_digits_le_bound ds : Forall digit ds -> 0 <= from_digits_le base ds < base ^ Z.of_nat (length ds).
Proof.
  induction 1 as [|d r Hd Hr IH]; cbn [from_digits_le length].
  - change (Z.of_nat 0) with 0. rewrite Z.pow_0_r. lia.
  - rewrite Nat2Z.inj_succ, Z.pow_succ_r by lia. unfold digit in Hd. nia.
Qed.

Lemma to_from_digits_le ds : Forall digit ds -> to_digits_le base (length ds) (from_digits_le base ds) = ds.
Proof.
  induction 1 as [|d r Hd Hr IH]; cbn [from_digits_le length to_digits_le]; [reflexivity|]. unfold digit in Hd.
  rewrite (Z.mul_comm base), Z.mod_add, Z.div_add by lia. rewrite Z.mod_small, Z.div_small by lia. cbn [Z.add]. now rewrite IH.
Qed.

Lemma from_digits_le_app a b :
  from_digits_le base (a ++ b) = from_digits_le base a + base ^ Z.of_nat (length a) * from_digits_le base b.
Proof.
  induction a as [|d r IH]; cbn [app from_digits_le length].
  - change (Z.of_nat 0) with 0. rewrite Z.pow_0_r. lia.
  - rewrite IH, Nat2Z.inj_succ, Z.pow_succ_r by lia. ring.
Qed.
End Digits.

Lemma to_le_digits n x : to_le n x = to_digits_le 256 n x.
Proof. revert x; induction n as [|n IH]; intros x; cbn [to_le to_digits_le]; [reflexivity | now rewrite IH]. Qed.

Lemma from_le_digits bs : from_le bs = from_digits_le 256 bs.
Proof. induction bs as [|b r IH]; cbn [from_le from_digits_le]; [reflexivity | now rewrite IH]. Qed.

Lemma wf_bytes_Forall bs : wf_bytes bs = true <-> Forall (digit 256) bs.
Proof.
  unfold wf_bytes, digit. rewrite forallb_forall, Forall_forall. unfold is_byte.
  split; intros Hall x Hin; specialize (Hall x Hin); lia.
Qed.

Lemma wf_rev bs : wf_bytes (rev bs) = wf_bytes bs.
Proof.
  induction bs as [|b r IH]; cbn [rev]; [reflexivity|]. rewrite wf_app, IH. cbn [wf_bytes forallb].
  fold (wf_bytes r). destruct (is_byte b), (wf_bytes r); reflexivity.
Qed.

Lemma to_be_from_be bs : wf_bytes bs = true -> to_be (length bs) (from_be bs) = bs.
Proof.
  intros Hwf. unfold to_be, from_be. rewrite <- (rev_length bs), to_le_from_le by now rewrite wf_rev. apply rev_involutive.
Qed.

Lemma from_be_bound bs : wf_bytes bs = true -> 0 <= from_be bs < 2 ^ (8 * Z.of_nat (length bs)).
Proof. intros Hwf. unfold from_be. rewrite <- (rev_length bs). apply from_le_bound. now rewrite wf_rev. Qed.

Lemma length_to_be n x : length (to_be n x) = n.
Proof. unfold to_be. now rewrite rev_length, length_to_le. Qed.

Lemma wf_to_be n x : wf_bytes (to_be n x) = true.
Proof. unfold to_be. rewrite wf_rev. apply wf_to_le. Qed.

(* a (b + a)-byte number splits into its low b bytes and the rest *)
Lemma to_le_split b a y t : 0 <= y < 256 ^ Z.of_nat b -> to_le (b + a) (y + 256 ^ Z.of_nat b * t) = to_le b y ++ to_le a t.
Proof.
  revert y; induction b as [|b IH]; intros y Hy.
  - change (Z.of_nat 0) with 0 in *. rewrite Z.pow_0_r in *. cbn [Nat.add to_le app]. f_equal. lia.
  - rewrite Nat2Z.inj_succ, Z.pow_succ_r in * by lia. cbn [Nat.add to_le app].
    assert (Hp : 0 < 256 ^ Z.of_nat b) by (apply Z.pow_pos_nonneg; lia).
    set (P := 256 ^ Z.of_nat b) in *.
    replace (y + 256 * P * t) with (y + (P * t) * 256) by ring.
    rewrite Z.mod_add, Z.div_add by lia. f_equal.
    apply IH.
    clear - Hy Hp. Z.div_mod_to_equations. lia.
Qed.

Lemma to_be_split a b t y : 0 <= y < 256 ^ Z.of_nat b -> to_be (a + b) (y + 256 ^ Z.of_nat b * t) = to_be a t ++ to_be b y.
Proof. intros Hy. unfold to_be. rewrite Nat.add_comm, to_le_split by exact Hy. apply rev_app_distr. Qed.

(* ===================================================================================================================== *)
(* the alphabet                                                                                                            *)

Lemma index_of_some c l i v :
  index_of c l i = Some v -> i <= v < i + Z.of_nat (length l) /\ nth (Z.to_nat (v - i)) l b32_pad = c.
Proof.
  revert i; induction l as [|x r IH]; intros i; cbn [index_of]; [discriminate|].
  destruct (Z.eqb_spec x c) as [->|Hne].
  - intros [= <-]. rewrite Z.sub_diag. cbn [length]. split; [lia | reflexivity].
  - intros Hs. apply IH in Hs as [Hr Hn]. cbn [length]. split; [lia|].
    replace (Z.to_nat (v - i)) with (S (Z.to_nat (v - (i + 1)))) by lia. exact Hn.
Qed.

Lemma index_of_none c l i : index_of c l i = None <-> existsb (Z.eqb c) l = false.
Proof.
  revert i; induction l as [|x r IH]; intros i; cbn [index_of existsb]; [tauto|].
  rewrite (Z.eqb_sym c x). destruct (x =? c); cbn [orb]; [split; discriminate | apply IH].
Qed.

Definition digits32 : list Z := map Z.of_nat (seq 0 32).
Lemma in_digits32 d : 0 <= d < 32 -> In d digits32.
Proof. intros Hd. apply in_map_iff. exists (Z.to_nat d). split; [lia | apply in_seq; lia]. Qed.

Lemma b32_val_char d : 0 <= d < 32 -> b32_val (b32_char d) = Some d.
Proof.
  intros Hd. apply in_digits32 in Hd.
  assert (Hall : forallb (fun d => match b32_val (b32_char d) with Some v => v =? d | None => false end) digits32 = true)
    by (vm_compute; reflexivity).
  rewrite forallb_forall in Hall. specialize (Hall d Hd). destruct (b32_val (b32_char d)); [f_equal; lia | discriminate].
Qed.

Lemma b32_val_some c v : b32_val c = Some v -> 0 <= v < 32 /\ b32_char v = c.
Proof.
  unfold b32_val, b32_char. intros Hs. apply index_of_some in Hs as [Hr Hn]. change (Z.of_nat (length b32_alphabet)) with 32 in Hr.
  rewrite Z.sub_0_r in Hn. split; [lia | exact Hn].
Qed.

Lemma in_alphabet_model_spec c : in_b32_alphabet c = in_alphabet_spec c.
Proof. unfold in_b32_alphabet, in_alphabet_spec, b32_alphabet. cbn [existsb]. lia. Qed.

Lemma in_alphabet_val c : in_b32_alphabet c = true -> b32_val c = Some (char_value c).
Proof.
  intros Hin. destruct (b32_val c) as [v|] eqn:Hv.
  - apply b32_val_some in Hv as [Hr <-]. apply in_digits32 in Hr.
    assert (Hall : forallb (fun v => char_value (b32_char v) =? v) digits32 = true) by (vm_compute; reflexivity).
    rewrite forallb_forall in Hall. specialize (Hall v Hr). cbv beta in Hall. apply Z.eqb_eq in Hall. now rewrite Hall.
  - apply index_of_none in Hv. unfold in_b32_alphabet in Hin. congruence.
Qed.

Lemma b32_char_in_alphabet d : 0 <= d < 32 -> in_b32_alphabet (b32_char d) = true.
Proof.
  intros Hd. apply in_digits32 in Hd.
  assert (Hall : forallb (fun d => in_b32_alphabet (b32_char d)) digits32 = true) by (vm_compute; reflexivity).
  rewrite forallb_forall in Hall. exact (Hall d Hd).
Qed.

Lemma char_value_char d : 0 <= d < 32 -> char_value (b32_char d) = d.
Proof.
  intros Hd. pose proof (b32_val_char d Hd) as Hv. rewrite (in_alphabet_val _ (b32_char_in_alphabet d Hd)) in Hv. congruence.
Qed.

Lemma char_value_range c : 0 <= char_value c < 32.
Proof.
  unfold char_value. destruct ((65 <=? c) && (c <=? 90)) eqn:E1; [lia|]. destruct ((50 <=? c) && (c <=? 55)) eqn:E2; lia.
Qed.

Lemma in_alphabet_ascii c : in_b32_alphabet c = true -> (c <? 128) = true /\ c <> b32_pad.
Proof. rewrite in_alphabet_model_spec. unfold in_alphabet_spec, b32_pad. lia. Qed.

(* ===================================================================================================================== *)
(* one quantum: 8 characters <-> one 40-bit number <-> 5 bytes                                                             *)

Definition horner (a v : Z) : Z := Z.shiftl a 5 + v.

Lemma fold_acc_step q a : forallb in_b32_alphabet q = true ->
  fold_left acc_step q (Some a) = Some (fold_left horner (map char_value q) a).
Proof.
  revert a; induction q as [|c r IH]; intros a Hq; cbn [forallb] in Hq; cbn [fold_left map]; [reflexivity|].
  apply andb_true_iff in Hq as [Hc Hr].
  replace (acc_step (Some a) c) with (Some (horner a (char_value c))) by (unfold acc_step; now rewrite (in_alphabet_val c Hc)).
  apply IH, Hr.
Qed.

Lemma fold_horner ds a : fold_left horner ds a = a * 32 ^ Z.of_nat (length ds) + from_digits_be 32 ds.
Proof.
  revert a; induction ds as [|d r IH]; intros a; cbn [fold_left length].
  - unfold from_digits_be. cbn [rev from_digits_le]. change (Z.of_nat 0) with 0. rewrite Z.pow_0_r. lia.
  - rewrite IH. unfold from_digits_be, horner. cbn [rev]. rewrite from_digits_le_app. cbn [from_digits_le].
    rewrite rev_length, Z.shiftl_mul_pow2, Nat2Z.inj_succ, Z.pow_succ_r by lia. change (2 ^ 5) with 32. ring.
Qed.

Lemma quantum_acc_alpha q : forallb in_b32_alphabet q = true -> quantum_acc q = Some (text_value q).
Proof.
  intros Hq. unfold quantum_acc. rewrite fold_acc_step by exact Hq. rewrite fold_horner. unfold text_value. f_equal; ring.
Qed.

Lemma digit32_list n x d : In d (to_digits_le 32 n x) -> 0 <= d < 32.
Proof. pose proof (to_digits_le_range 32 ltac:(lia) n x) as Hall. rewrite Forall_forall in Hall. apply Hall. Qed.

Lemma enc_group_alpha g : forallb in_b32_alphabet (enc_group g) = true.
Proof.
  unfold enc_group, to_digits_be. rewrite forallb_forall. intros c Hin. apply in_map_iff in Hin as [d [<- Hd]].
  apply in_rev in Hd. apply b32_char_in_alphabet. exact (digit32_list _ _ _ Hd).
Qed.

Lemma map_id_in {A} (f : A -> A) l : (forall x, In x l -> f x = x) -> map f l = l.
Proof. intros Hf. rewrite <- (map_id l) at 2. apply map_ext_in, Hf. Qed.

Lemma text_value_digits ds : (forall d, In d ds -> 0 <= d < 32) -> text_value (map b32_char ds) = from_digits_be 32 ds.
Proof.
  intros Hd. unfold text_value. rewrite map_map. f_equal. apply map_id_in. intros d Hin. apply char_value_char, Hd, Hin.
Qed.

Lemma text_value_enc_group g : text_value (enc_group g) = from_be g mod 32 ^ 8.
Proof.
  unfold enc_group, to_digits_be. rewrite text_value_digits by (intros d Hd; apply in_rev in Hd; exact (digit32_list _ _ _ Hd)).
  unfold from_digits_be. rewrite rev_involutive, from_to_digits_le by lia. reflexivity.
Qed.

Lemma quantum_enc_group g : length g = 5%nat -> wf_bytes g = true -> quantum_acc (enc_group g) = Some (from_be g).
Proof.
  intros Hl Hwf. rewrite quantum_acc_alpha by apply enc_group_alpha. rewrite text_value_enc_group. f_equal.
  apply Z.mod_small. pose proof (from_be_bound g Hwf) as Hb. rewrite Hl in Hb. exact Hb.
Qed.

Lemma enc_group_8 g : exists c0 c1 c2 c3 c4 c5 c6 c7, enc_group g = [c0; c1; c2; c3; c4; c5; c6; c7].
Proof. unfold enc_group, to_digits_be. cbn [to_digits_le rev app map]. repeat eexists. Qed.

Lemma dec_accs_cons8 c0 c1 c2 c3 c4 c5 c6 c7 r :
  dec_accs (c0 :: c1 :: c2 :: c3 :: c4 :: c5 :: c6 :: c7 :: r) =
  match quantum_acc [c0; c1; c2; c3; c4; c5; c6; c7], dec_accs r with Some a, Some l => Some (a :: l) | _, _ => None end.
Proof. reflexivity. Qed.

Lemma enc_groups_cons5 a b c d e r : enc_groups (a :: b :: c :: d :: e :: r) = enc_group [a; b; c; d; e] ++ enc_groups r.
Proof. reflexivity. Qed.

(* ===================================================================================================================== *)
(* whole strings                                                                                                           *)

Lemma enc_groups_props n : forall b, length b = (5 * n)%nat -> wf_bytes b = true ->
  length (enc_groups b) = (8 * n)%nat /\ forallb in_b32_alphabet (enc_groups b) = true /\
  exists accs, dec_accs (enc_groups b) = Some accs /\ flat_map (to_be 5) accs = b.
Proof.
  induction n as [|n IH]; intros b Hlen Hwf.
  - destruct b; [|discriminate]. split; [reflexivity|]. split; [reflexivity|]. exists []. split; reflexivity.
  - destruct b as [|a [|b1 [|c [|d [|e r]]]]]; try (cbn [length] in Hlen; lia).
    assert (Hr : length r = (5 * n)%nat) by (cbn [length] in Hlen; lia).
    change (a :: b1 :: c :: d :: e :: r) with ([a; b1; c; d; e] ++ r) in Hwf. rewrite wf_app in Hwf.
    apply andb_true_iff in Hwf as [Hg Hwr]. destruct (IH r Hr Hwr) as (Hl & Ha & accs & Hd & Hf).
    rewrite enc_groups_cons5.
    pose proof (quantum_enc_group [a; b1; c; d; e] eq_refl Hg) as Hq.
    pose proof (enc_group_alpha [a; b1; c; d; e]) as Hga.
    destruct (enc_group_8 [a; b1; c; d; e]) as (c0 & c1 & c2 & c3 & c4 & c5 & c6 & c7 & He). rewrite He in *.
    split; [rewrite app_length, Hl; cbn [length]; lia|]. split; [now rewrite forallb_app, Hga, Ha|].
    exists (from_be [a; b1; c; d; e] :: accs). cbn [app]. rewrite dec_accs_cons8, Hq, Hd. split; [reflexivity|].
    cbn [flat_map]. rewrite Hf. change 5%nat with (length [a; b1; c; d; e]). rewrite to_be_from_be by exact Hg. reflexivity.
Qed.

Lemma rstrip_id p s : Forall (fun c => c <> p) s -> rstrip p s = s.
Proof.
  induction 1 as [|c r Hc Hr IH]; cbn [rstrip]; [reflexivity|]. rewrite IH. destruct r; [|reflexivity].
  destruct (Z.eqb_spec c p); [contradiction | reflexivity].
Qed.

Lemma b32decode_unpadded s accs : forallb in_b32_alphabet s = true -> (length s mod 8 = 0)%nat -> dec_accs s = Some accs ->
  b32decode s = Ok (flat_map (to_be 5) accs).
Proof.
  intros Ha Hl Hd. unfold b32decode. cbv zeta.
  assert (H1 : forallb (fun c => c <? 128) s = true).
  { rewrite forallb_forall in *. intros c Hin. apply in_alphabet_ascii, Ha, Hin. }
  assert (H2 : rstrip b32_pad s = s).
  { apply rstrip_id. rewrite Forall_forall. rewrite forallb_forall in Ha. intros c Hin. apply in_alphabet_ascii, Ha, Hin. }
  rewrite H1, Hl, H2, Hd, Nat.sub_diag. reflexivity.
Qed.

Lemma mod_mul_nat k n : k <> 0%nat -> ((k * n) mod k = 0)%nat.
Proof. intros Hk. rewrite Nat.mul_comm. now apply Nat.mod_mul. Qed.

Lemma b32encode_mult5 n b : length b = (5 * n)%nat -> b32encode b = enc_groups b.
Proof. intros Hl. unfold b32encode. rewrite Hl, mod_mul_nat by lia. reflexivity. Qed.

(* decode (encode b) = b for every well-formed byte string whose length is a multiple of 5 (no padding involved) *)
Lemma b32_roundtrip_mult5 n b : length b = (5 * n)%nat -> wf_bytes b = true -> b32decode (b32encode b) = Ok b.
Proof.
  intros Hlen Hwf. rewrite (b32encode_mult5 n) by exact Hlen.
  destruct (enc_groups_props n b Hlen Hwf) as (Hl & Ha & accs & Hd & Hf).
  rewrite (b32decode_unpadded _ accs Ha); [now rewrite Hf | rewrite Hl; apply mod_mul_nat; lia | exact Hd].
Qed.

(* ---- decoding text over the alphabet never fails and yields the number the text spells ---- *)
Lemma text_value_app q r : text_value (q ++ r) = text_value q * 32 ^ Z.of_nat (length r) + text_value r.
Proof.
  unfold text_value, from_digits_be. rewrite map_app, rev_app_distr, from_digits_le_app, rev_length, map_length. ring.
Qed.

Lemma text_value_bound s : 0 <= text_value s < 32 ^ Z.of_nat (length s).
Proof.
  unfold text_value, from_digits_be. rewrite <- (map_length char_value s), <- (rev_length (map char_value s)).
  apply from_digits_le_bound; [lia|]. apply Forall_rev. rewrite Forall_forall. intros d Hin.
  apply in_map_iff in Hin as [c [<- _]]. apply char_value_range.
Qed.

Lemma pow_32_256 n : 32 ^ Z.of_nat (8 * n) = 256 ^ Z.of_nat (5 * n).
Proof. change 32 with (2 ^ 5). change 256 with (2 ^ 8). rewrite <- !Z.pow_mul_r by lia. f_equal. lia. Qed.

Lemma dec_accs_spec n : forall s, length s = (8 * n)%nat -> forallb in_b32_alphabet s = true ->
  exists accs, dec_accs s = Some accs /\ flat_map (to_be 5) accs = to_be (5 * n) (text_value s).
Proof.
  induction n as [|n IH]; intros s Hl Ha.
  - destruct s; [|discriminate]. exists []. split; reflexivity.
  - destruct s as [|c0 [|c1 [|c2 [|c3 [|c4 [|c5 [|c6 [|c7 r]]]]]]]]; try (cbn [length] in Hl; lia).
    assert (Hr : length r = (8 * n)%nat) by (cbn [length] in Hl; lia).
    change (c0 :: c1 :: c2 :: c3 :: c4 :: c5 :: c6 :: c7 :: r) with ([c0; c1; c2; c3; c4; c5; c6; c7] ++ r) in Ha |- *.
    set (q := [c0; c1; c2; c3; c4; c5; c6; c7]) in *.
    rewrite forallb_app in Ha. apply andb_true_iff in Ha as [Hq Har].
    destruct (IH r Hr Har) as (accs & Hd & Hf).
    exists (text_value q :: accs). split.
    + unfold q. cbn [app]. rewrite dec_accs_cons8. fold q. now rewrite (quantum_acc_alpha q Hq), Hd.
    + cbn [flat_map]. rewrite Hf, text_value_app, Hr, pow_32_256.
      replace (5 * S n)%nat with (5 + 5 * n)%nat by lia.
      rewrite Z.add_comm, (Z.mul_comm (text_value q)). symmetry. apply to_be_split.
      rewrite <- pow_32_256, <- Hr. apply text_value_bound.
Qed.

Lemma b32decode_alpha n s : length s = (8 * n)%nat -> forallb in_b32_alphabet s = true ->
  b32decode s = Ok (to_be (5 * n) (text_value s)).
Proof.
  intros Hl Ha. destruct (dec_accs_spec n s Hl Ha) as (accs & Hd & Hf).
  rewrite (b32decode_unpadded s accs Ha); [now rewrite Hf | rewrite Hl; apply mod_mul_nat; lia | exact Hd].
Qed.

(* ===================================================================================================================== *)
(* the Symbol form: 24 bytes -> 39 characters (one '=' dropped) -> + 'A' -> 25 bytes -> last byte dropped                  *)

Lemma firstn_app_exact {A} (l1 l2 : list A) k : k = length l1 -> firstn k (l1 ++ l2) = l1.
Proof. intros ->. rewrite firstn_app, Nat.sub_diag, firstn_O, app_nil_r. apply firstn_all. Qed.

Lemma skipn_app_exact {A} (l1 l2 : list A) k : k = length l1 -> skipn k (l1 ++ l2) = l2.
Proof. intros ->. rewrite skipn_app, Nat.sub_diag, skipn_all. reflexivity. Qed.

Lemma enc_groups_app n : forall x y, length x = (5 * n)%nat -> enc_groups (x ++ y) = enc_groups x ++ enc_groups y.
Proof.
  induction n as [|n IH]; intros x y Hl.
  - destruct x; [reflexivity | discriminate].
  - destruct x as [|a [|b [|c [|d [|e r]]]]]; try (cbn [length] in Hl; lia). cbn [app].
    rewrite !enc_groups_cons5, IH by (cbn [length] in Hl; lia). now rewrite app_assoc.
Qed.

Lemma enc_groups_shape n : forall x, length x = (5 * n)%nat ->
  length (enc_groups x) = (8 * n)%nat /\ forallb in_b32_alphabet (enc_groups x) = true.
Proof.
  induction n as [|n IH]; intros x Hx.
  - destruct x; [split; reflexivity | discriminate].
  - destruct x as [|a [|b1 [|c [|d [|e r]]]]]; try (cbn [length] in Hx; lia).
    destruct (IH r ltac:(cbn [length] in Hx; lia)) as [Hlr Har].
    destruct (enc_group_8 [a; b1; c; d; e]) as (c0 & c1 & c2 & c3 & c4 & c5 & c6 & c7 & He).
    rewrite enc_groups_cons5, forallb_app, enc_group_alpha, Har, app_length, Hlr, He. cbn [length]. split; [lia | reflexivity].
Qed.

Lemma split_last4 n (a : bytes) : length a = (5 * n + 4)%nat ->
  exists x p q r s, a = x ++ [p; q; r; s] /\ length x = (5 * n)%nat.
Proof.
  intros Hl. pose proof (firstn_skipn (5 * n) a) as Hs.
  assert (Hx : length (firstn (5 * n) a) = (5 * n)%nat) by (apply firstn_length_le; lia).
  assert (Ht : length (skipn (5 * n) a) = 4%nat) by (rewrite skipn_length; lia).
  destruct (skipn (5 * n) a) as [|p [|q [|r [|s [|? ?]]]]]; try discriminate.
  exists (firstn (5 * n) a), p, q, r, s. split; [now symmetry | exact Hx].
Qed.

Lemma enc_group_last_zero p q r s : exists c0 c1 c2 c3 c4 c5 c6, enc_group [p; q; r; s; 0] = [c0; c1; c2; c3; c4; c5; c6; 65].
Proof.
  assert (Hz : from_be [p; q; r; s; 0] mod 32 = 0).
  { unfold from_be. cbn [rev app from_le]. Z.div_mod_to_equations. lia. }
  unfold enc_group, to_digits_be. cbn [to_digits_le rev app map]. rewrite Hz. change (b32_char 0) with 65. repeat eexists.
Qed.

(* str(address) for 5n+4 bytes: the 8n+8 characters of the zero-extended value without the last one, which is 'A' *)
Lemma sym_text_form n a : length a = (5 * n + 4)%nat ->
  exists F, length F = (8 * n + 7)%nat /\ enc_groups (a ++ [0]) = F ++ [65] /\ address_to_string Symbol a = F
            /\ forallb in_b32_alphabet F = true.
Proof.
  intros Hl. destruct (split_last4 n a Hl) as (x & p & q & r & s & -> & Hx).
  destruct (enc_group_last_zero p q r s) as (c0 & c1 & c2 & c3 & c4 & c5 & c6 & Hg).
  exists (enc_groups x ++ [c0; c1; c2; c3; c4; c5; c6]).
  assert (HE : enc_groups ((x ++ [p; q; r; s]) ++ [0]) = (enc_groups x ++ [c0; c1; c2; c3; c4; c5; c6]) ++ [65]).
  { rewrite <- app_assoc. cbn [app]. rewrite (enc_groups_app n) by exact Hx. rewrite enc_groups_cons5, Hg.
    change (enc_groups []) with (@nil Z). rewrite app_nil_r, <- app_assoc. reflexivity. }
  destruct (enc_groups_shape n x Hx) as [Hlx Hax].
  assert (HlenF : length (enc_groups x ++ [c0; c1; c2; c3; c4; c5; c6]) = (8 * n + 7)%nat).
  { rewrite app_length, Hlx. cbn [length]. lia. }
  split; [exact HlenF|]. split; [exact HE|]. split.
  - unfold address_to_string, sym_str_zeros, sym_str_lo, sym_str_drop, zeros. cbn [repeat]. rewrite app_nil_r.
    unfold b32encode. replace (length (x ++ [p; q; r; s]) mod 5)%nat with 4%nat.
    2:{ rewrite Hl, Nat.add_comm, Nat.mul_comm, Nat.mod_add by lia. reflexivity. }
    cbv iota beta. change (zeros (5 - 4)) with [0]. rewrite HE.
    unfold replace_tail. cbn [repeat]. rewrite app_length, HlenF. cbn [length].
    rewrite (firstn_app_exact _ [65]) by lia. unfold slice_neg, slice. rewrite app_length, HlenF. cbn [length].
    rewrite skipn_O. apply firstn_app_exact. lia.
  - rewrite forallb_app. apply andb_true_iff. split.
    + exact Hax.
    + pose proof (enc_group_alpha [p; q; r; s; 0]) as Ha. rewrite Hg in Ha. cbn [forallb] in *.
      repeat (apply andb_true_iff in Ha as [? Ha]). repeat (apply andb_true_iff; split; try assumption).
Qed.

(* decode (str(a) + 'A') = a ++ [0] for every well-formed a of 5n+4 bytes *)
Lemma sym_b32_roundtrip n a : length a = (5 * n + 4)%nat -> wf_bytes a = true ->
  b32decode (address_to_string Symbol a ++ [65]) = Ok (a ++ [0]).
Proof.
  intros Hl Hwf. destruct (sym_text_form n a Hl) as (F & _ & HE & -> & _). rewrite <- HE.
  assert (Hl' : length (a ++ [0]) = (5 * S n)%nat) by (rewrite app_length, Hl; cbn [length]; lia).
  rewrite <- (b32encode_mult5 (S n)) by exact Hl'. apply (b32_roundtrip_mult5 (S n)); [exact Hl'|].
  rewrite wf_app, Hwf. reflexivity.
Qed.

(* ===================================================================================================================== *)
(* Address(str) and str(address)                                                                                           *)

Lemma address_from_bytes_ok fl b : length b = spec_size fl -> address_from_bytes fl b = Ok b.
Proof. intros Hl. unfold address_from_bytes, byte_array. rewrite Hl. destruct fl; reflexivity. Qed.

Lemma to_string_shape fl b : length b = spec_size fl ->
  length (address_to_string fl b) = spec_encoded_size fl /\ forallb in_b32_alphabet (address_to_string fl b) = true.
Proof.
  intros Hl. destruct fl.
  - destruct (sym_text_form 4 b Hl) as (F & HF & _ & -> & Ha). split; [exact HF | exact Ha].
  - unfold address_to_string. rewrite (b32encode_mult5 5 b Hl).
    exact (enc_groups_shape 5%nat b Hl).
Qed.

Lemma forallb_alphabets s : forallb in_b32_alphabet s = forallb in_alphabet_spec s.
Proof. induction s as [|c r IH]; cbn [forallb]; [reflexivity | now rewrite IH, in_alphabet_model_spec]. Qed.

(* 39 characters followed by ANY alphabet character: the 24 leading bytes do not depend on that character *)
Lemma sym_decode_pad c s : in_b32_alphabet c = true -> length s = 39%nat -> forallb in_b32_alphabet s = true ->
  b32decode (s ++ [c]) = Ok (to_be 24 (text_value s / 2 ^ 3) ++ to_be 1 ((text_value s * 32 + char_value c) mod 256)).
Proof.
  intros Hc Hl Ha.
  rewrite (b32decode_alpha 5) by (rewrite ?app_length, ?forallb_app, ?Hl, ?Ha; cbn [forallb length]; rewrite ?Hc; reflexivity).
  rewrite text_value_app. change (32 ^ Z.of_nat (length [c])) with 32.
  replace (text_value [c]) with (char_value c) by (unfold text_value, from_digits_be; cbn [map rev app from_digits_le]; ring).
  pose proof (char_value_range c) as Hr. pose proof (text_value_bound s) as Hv.
  set (X := text_value s * 32 + char_value c) in *. change (5 * 5)%nat with (24 + 1)%nat.
  assert (HX : X = X mod 256 + 256 ^ Z.of_nat 1 * (X / 256)) by (change (256 ^ Z.of_nat 1) with 256; Z.div_mod_to_equations; lia).
  rewrite HX at 1. rewrite to_be_split by (change (256 ^ Z.of_nat 1) with 256; apply Z.mod_pos_bound; lia).
  replace (X / 256) with (text_value s / 2 ^ 3) by (unfold X; change (2 ^ 3) with 8; Z.div_mod_to_equations; lia).
  reflexivity.
Qed.

(* Address(str) on text of the right length over the alphabet never raises and yields the leading bytes of the spelled number *)
Lemma from_string_spec fl s : length s = spec_encoded_size fl -> forallb in_alphabet_spec s = true ->
  address_from_string fl s = Ok (text_to_bytes fl s).
Proof.
  intros Hl Ha. rewrite <- forallb_alphabets in Ha. destruct fl; unfold address_from_string, text_to_bytes.
  - rewrite (sym_decode_pad sym_dec_pad s eq_refl Hl Ha). cbn [bind].
    unfold slice_neg, sym_dec_lo, sym_dec_drop, slice. rewrite app_length, !length_to_be, skipn_O.
    rewrite firstn_app_exact by now rewrite length_to_be.
    apply address_from_bytes_ok, length_to_be.
  - rewrite (b32decode_alpha 5 s Hl Ha). cbn [bind]. apply address_from_bytes_ok, length_to_be.
Qed.

Lemma string_roundtrip fl b : length b = spec_size fl -> wf_bytes b = true ->
  address_from_string fl (address_to_string fl b) = Ok b.
Proof.
  intros Hl Hwf. destruct (to_string_shape fl b Hl) as [Hsl Hsa].
  rewrite from_string_spec by (rewrite <- ?forallb_alphabets; assumption). f_equal.
  destruct fl; unfold text_to_bytes.
  - pose proof (sym_b32_roundtrip 4 b Hl Hwf) as Hrt. rewrite (sym_decode_pad 65 _ eq_refl Hsl Hsa) in Hrt.
    injection Hrt as Hrt. apply (f_equal (firstn 24)) in Hrt.
    rewrite !firstn_app_exact in Hrt by (rewrite ?length_to_be, ?Hl; reflexivity). exact Hrt.
  - pose proof (b32_roundtrip_mult5 5 b Hl Hwf) as Hrt. unfold address_to_string in *.
    rewrite (b32decode_alpha 5 _ Hsl Hsa) in Hrt. now injection Hrt.
Qed.

(* ===================================================================================================================== *)
(* RIPEMD-160 output shape                                                                                                 *)

Lemma ripemd160_length m : length (ripemd160 m) = 20%nat.
Proof.
  unfold ripemd160. destruct (fold_left rmd_compress (chunks 64 (rmd_pad m)) rmd_iv) as [[[[h0 h1] h2] h3] h4].
  cbn [flat_map]. rewrite !app_length, !length_to_le. reflexivity.
Qed.

Lemma ripemd160_wf m : wf_bytes (ripemd160 m) = true.
Proof.
  unfold ripemd160. destruct (fold_left rmd_compress (chunks 64 (rmd_pad m)) rmd_iv) as [[[[h0 h1] h2] h3] h4].
  cbn [flat_map]. rewrite !wf_app, !wf_to_le. reflexivity.
Qed.

(* ===================================================================================================================== *)
(* derivation and validation, parametric in the address hasher (per flavour) and in RIPEMD-160                             *)

Lemma bytes_eqb_eq a b : bytes_eqb a b = true <-> a = b.
Proof.
  revert b; induction a as [|x a IH]; intros [|y b]; cbn [bytes_eqb]; try (split; [discriminate | discriminate]); [tauto|].
  rewrite andb_true_iff, IH, Z.eqb_eq. split; [intros [-> ->]; reflexivity | intros [= -> ->]; split; reflexivity].
Qed.

Lemma addr_alphabet_spec ch : existsb (Z.eqb ch) addr_alphabet = in_alphabet_spec ch.
Proof. unfold addr_alphabet, in_alphabet_spec. cbn [existsb]. lia. Qed.

Lemma alphabet_scan s : existsb (fun ch => negb (existsb (Z.eqb ch) addr_alphabet)) s = negb (forallb in_alphabet_spec s).
Proof.
  induction s as [|c r IH]; cbn [existsb forallb]; [reflexivity|]. rewrite IH, addr_alphabet_spec.
  destruct (in_alphabet_spec c), (forallb in_alphabet_spec r); reflexivity.
Qed.

Lemma encoded_size_spec fl : encoded_size fl = Z.of_nat (spec_encoded_size fl).
Proof. destruct fl; reflexivity. Qed.

Section WithHashes.
Variable H : flavor -> bytes -> bytes.
Variable R : bytes -> bytes.
Hypothesis H_len : forall fl x, length (H fl x) = 32%nat.
Hypothesis R_len : forall x, length (R x) = 20%nat.

Lemma version_length fl id pk : length ([id] ++ R (H fl pk)) = 21%nat.
Proof. rewrite app_length, R_len. reflexivity. Qed.

Lemma checksum_length fl x : length (firstn (spec_checksum_size fl) (H fl x)) = spec_checksum_size fl.
Proof. apply firstn_length_le. rewrite H_len. destruct fl; cbn [spec_checksum_size]; lia. Qed.

Lemma address_of_length fl id pk : length (address_of H R fl id pk) = spec_size fl.
Proof. unfold address_of. rewrite app_length, version_length, checksum_length. destruct fl; reflexivity. Qed.

Lemma address_structure fl id pk : 0 <= id < 256 -> public_key_to_address H R fl id pk = Ok (address_of H R fl id pk).
Proof.
  intros Hid. unfold public_key_to_address. replace (is_byte id) with true by (unfold is_byte; lia).
  unfold create_address, slice, pk_ck_lo, pk_ck_hi, sym_ck_lo, sym_ck_hi. rewrite !skipn_O.
  destruct fl.
  - change (3 - 0)%nat with 3%nat. change (4 - 0)%nat with 4%nat. rewrite firstn_firstn. change (Nat.min 3 4) with 3%nat.
    change (address_from_bytes Symbol (address_of H R Symbol id pk) = Ok (address_of H R Symbol id pk)).
    apply address_from_bytes_ok, address_of_length.
  - change (4 - 0)%nat with 4%nat.
    change (address_from_bytes Nem (address_of H R Nem id pk) = Ok (address_of H R Nem id pk)).
    apply address_from_bytes_ok, address_of_length.
Qed.

(* outside 0..255 bytes([identifier]) raises *)
Lemma address_bad_identifier fl id pk : ~ 0 <= id < 256 -> public_key_to_address H R fl id pk = Reject.
Proof. intros Hid. unfold public_key_to_address. replace (is_byte id) with false by (unfold is_byte; lia). reflexivity. Qed.

Lemma is_valid_address_def fl id a : is_valid_address H fl id a = true <-> valid_address_spec H fl id a.
Proof.
  unfold is_valid_address, valid_address_spec, va_id_idx. destruct a as [|b0 r]; cbn [nth_error].
  - split; [discriminate | intros [E _]; discriminate].
  - unfold va_id_op, va_id_ret, va_eq_op. cbn [cmp cmp_bytes].
    change (Z.to_nat (ev2 va_body_op va_body_a va_body_b)) with 21%nat.
    change (Z.to_nat (ev2 va_ck_op va_ck_a va_ck_b)) with 21%nat.
    unfold slice, va_body_lo, va_calc_lo. rewrite !skipn_O, !Nat.sub_0_r, skipn_length.
    destruct (Z.eqb_spec b0 id) as [->|Hne]; cbn [negb].
    + rewrite bytes_eqb_eq. split; [intros E; split; [reflexivity | exact E] | intros [_ E]; exact E].
    + split; [discriminate | intros [[= E] _]; contradiction].
Qed.

Lemma valid_on_own_network fl id pk : is_valid_address H fl id (address_of H R fl id pk) = true.
Proof.
  apply is_valid_address_def. unfold valid_address_spec. split; [reflexivity|].
  rewrite address_of_length. unfold address_of.
  rewrite skipn_app_exact, firstn_app_exact by now rewrite version_length.
  f_equal. destruct fl; reflexivity.
Qed.

Lemma invalid_on_other_identifier fl fl' id id' pk : id' <> id -> is_valid_address H fl' id' (address_of H R fl id pk) = false.
Proof.
  intros Hne. destruct (is_valid_address H fl' id' (address_of H R fl id pk)) eqn:E; [|reflexivity].
  apply is_valid_address_def in E as [E _]. cbn in E. congruence.
Qed.

Lemma valid_string_iff fl id s :
  is_valid_address_string H fl id s = Ok true <->
  length s = spec_encoded_size fl /\ forallb in_alphabet_spec s = true /\ is_valid_address H fl id (text_to_bytes fl s) = true.
Proof.
  unfold is_valid_address_string, vs_len_op, vs_len_ret, vs_alpha_ret. cbn [cmp]. rewrite alphabet_scan, encoded_size_spec.
  destruct (Z.eqb_spec (Z.of_nat (spec_encoded_size fl)) (Z.of_nat (length s))) as [E|E]; cbn [negb].
  - apply Nat2Z.inj in E. destruct (forallb in_alphabet_spec s) eqn:Ha; cbn [negb].
    + rewrite (from_string_spec fl s (eq_sym E) Ha). cbn [bind].
      split; [intros [= Hv]; auto | intros (_ & _ & ->); reflexivity].
    + split; [discriminate | intros (_ & Hb & _); discriminate].
  - split; [discriminate | intros (Hl & _); lia].
Qed.

(* is_valid_address_string answers True or False on every string; it never raises *)
Lemma valid_string_total fl id s : exists b, is_valid_address_string H fl id s = Ok b.
Proof.
  unfold is_valid_address_string, vs_len_op, vs_len_ret, vs_alpha_ret. cbn [cmp]. rewrite alphabet_scan, encoded_size_spec.
  destruct (Z.eqb_spec (Z.of_nat (spec_encoded_size fl)) (Z.of_nat (length s))) as [E|E]; cbn [negb]; [|eexists; reflexivity].
  apply Nat2Z.inj in E. destruct (forallb in_alphabet_spec s) eqn:Ha; cbn [negb]; [|eexists; reflexivity].
  rewrite (from_string_spec fl s (eq_sym E) Ha). cbn [bind]. eexists; reflexivity.
Qed.

Hypothesis H_wf : forall fl x, wf_bytes (H fl x) = true.
Hypothesis R_wf : forall x, wf_bytes (R x) = true.

Lemma address_of_wf fl id pk : 0 <= id < 256 -> wf_bytes (address_of H R fl id pk) = true.
Proof.
  intros Hid. unfold address_of. rewrite !wf_app, R_wf, wf_firstn by apply H_wf.
  cbn [wf_bytes forallb]. unfold is_byte. lia.
Qed.

(* the text of a derived address parses back to it and is a valid address string of its own network *)
Lemma derived_address_text fl id pk : 0 <= id < 256 ->
  address_from_string fl (address_to_string fl (address_of H R fl id pk)) = Ok (address_of H R fl id pk)
  /\ is_valid_address_string H fl id (address_to_string fl (address_of H R fl id pk)) = Ok true.
Proof.
  intros Hid. pose proof (address_of_length fl id pk) as Hl. pose proof (address_of_wf fl id pk Hid) as Hwf.
  pose proof (string_roundtrip fl _ Hl Hwf) as Hrt. split; [exact Hrt|].
  destruct (to_string_shape fl _ Hl) as [Hsl Hsa]. rewrite forallb_alphabets in Hsa.
  apply valid_string_iff. split; [exact Hsl|]. split; [exact Hsa|].
  rewrite (from_string_spec fl _ Hsl Hsa) in Hrt. injection Hrt as ->. apply valid_on_own_network.
Qed.

End WithHashes.

(* ===================================================================================================================== *)
(* the shipped instances                                                                                                   *)

Lemma hasher_now_length fl x : length (hasher_now fl x) = 32%nat.
Proof. destruct fl; [apply sha3_256_length | apply keccak_256_length]. Qed.

Lemma hasher_now_wf fl x : wf_bytes (hasher_now fl x) = true.
Proof. destruct fl; [apply sha3_256_wf | apply keccak_256_wf]. Qed.

Lemma b32decode_total n s : length s = (8 * n)%nat -> forallb in_alphabet_spec s = true ->
  b32decode s = Ok (to_be (5 * n) (text_value s)).
Proof. intros Hl Ha. apply b32decode_alpha; [exact Hl | now rewrite forallb_alphabets]. Qed.

Lemma to_string_shape_spec fl b : length b = spec_size fl ->
  length (address_to_string fl b) = spec_encoded_size fl /\ forallb in_alphabet_spec (address_to_string fl b) = true.
Proof. intros Hl. rewrite <- forallb_alphabets. now apply to_string_shape. Qed.

(* shipped identifiers: bytes, and mainnet differs from testnet *)
Definition mainnet_id (fl : flavor) : Z := match fl with Symbol => sym_mainnet_id | Nem => nem_mainnet_id end.
Definition testnet_id (fl : flavor) : Z := match fl with Symbol => sym_testnet_id | Nem => nem_testnet_id end.

Lemma shipped_identifiers fl : 0 <= mainnet_id fl < 256 /\ 0 <= testnet_id fl < 256 /\ mainnet_id fl <> testnet_id fl.
Proof. destruct fl; cbv [mainnet_id testnet_id sym_mainnet_id sym_testnet_id nem_mainnet_id nem_testnet_id]; lia. Qed.

Lemma shipped_derive_validate_roundtrip fl id pk a : 0 <= id < 256 ->
  public_key_to_address_now fl id pk = Ok a ->
  a = address_of hasher_now ripemd160 fl id pk
  /\ is_valid_address_now fl id a = true
  /\ (forall fl' id', id' <> id -> is_valid_address_now fl' id' a = false)
  /\ address_from_string fl (address_to_string fl a) = Ok a
  /\ is_valid_address_string_now fl id (address_to_string fl a) = Ok true.
Proof.
  intros Hid Ha. unfold public_key_to_address_now in Ha.
  rewrite (address_structure hasher_now ripemd160 hasher_now_length ripemd160_length fl id pk Hid) in Ha. injection Ha as <-.
  split; [reflexivity|]. split; [apply valid_on_own_network; [apply hasher_now_length | apply ripemd160_length]|].
  split; [intros fl' id' Hne; now apply invalid_on_other_identifier|].
  exact (derived_address_text hasher_now ripemd160 hasher_now_length ripemd160_length hasher_now_wf ripemd160_wf fl id pk Hid).
Qed.

Lemma shipped_networks_separate fl pk :
  (exists a, public_key_to_address_now fl (mainnet_id fl) pk = Ok a
             /\ is_valid_address_now fl (mainnet_id fl) a = true /\ is_valid_address_now fl (testnet_id fl) a = false)
  /\ (exists a, public_key_to_address_now fl (testnet_id fl) pk = Ok a
                /\ is_valid_address_now fl (testnet_id fl) a = true /\ is_valid_address_now fl (mainnet_id fl) a = false).
Proof.
  destruct (shipped_identifiers fl) as (Hm & Ht & Hne).
  split; eexists; (split; [apply (address_structure hasher_now ripemd160 hasher_now_length ripemd160_length); assumption|]);
    (split; [apply valid_on_own_network; [apply hasher_now_length | apply ripemd160_length]
            | apply invalid_on_other_identifier; congruence]).
Qed.

Lemma address_structure_symbol id pk : 0 <= id < 256 ->
  public_key_to_address_now Symbol id pk =
  Ok (([id] ++ ripemd160 (sha3_256 pk)) ++ firstn 3 (sha3_256 ([id] ++ ripemd160 (sha3_256 pk)))).
Proof.
  intros Hid. unfold public_key_to_address_now.
  rewrite (address_structure hasher_now ripemd160 hasher_now_length ripemd160_length Symbol id pk Hid).
  unfold address_of, hasher_now, spec_checksum_size. reflexivity.
Qed.

Lemma address_structure_nem id pk : 0 <= id < 256 ->
  public_key_to_address_now Nem id pk =
  Ok (([id] ++ ripemd160 (keccak_256 pk)) ++ firstn 4 (keccak_256 ([id] ++ ripemd160 (keccak_256 pk)))).
Proof.
  intros Hid. unfold public_key_to_address_now.
  rewrite (address_structure hasher_now ripemd160 hasher_now_length ripemd160_length Nem id pk Hid).
  unfold address_of, hasher_now, spec_checksum_size. reflexivity.
Qed.
