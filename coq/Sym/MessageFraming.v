(* Message framing of symbol/MessageEncoder.py and nem/MessageEncoder.py over impl/CipherHelpers.py and Cipher.py, in a Section
   over an abstract AEAD (AES-GCM: seal / open), an abstract CBC cipher (AES-CBC with PKCS7: cbc_enc / cbc_dec) and abstract shared
   key derivation.  Random choices of the code (iv, salt, ephemeral key) are explicit arguments.  Constants / operators come from
   Gen/MessageOps.v.  Model file: definitions only.

   Outcomes: Ok (decoded?, bytes) is the tuple the code returns; Reject = a ValueError escapes (bad public key, wrong iv / tag
   size); Crash k = another exception escapes. *)
From Symv Require Export Base.PyOps Gen.MessageOps Sym.EdAbstract.
Open Scope Z_scope.

Definition mf_delegation_marker : bytes := of_hex mf_delegation_marker_hex.

(* binascii.hexlify / unhexlify (unhexlify: None for an odd length or a non-hex character; this also covers bytes that are not
   ASCII, for which the code gets UnicodeDecodeError or binascii.Error -- both handled the same way) *)
Definition hex_char (d : Z) : Z := if d <? 10 then 48 + d else 87 + d.
Definition hexlify (b : bytes) : bytes := flat_map (fun v => [hex_char (v / 16); hex_char (v mod 16)]) b.
Definition hex_value (c : Z) : option Z :=
  if (48 <=? c) && (c <=? 57) then Some (c - 48)
  else if (97 <=? c) && (c <=? 102) then Some (c - 87)
  else if (65 <=? c) && (c <=? 70) then Some (c - 55) else None.
Fixpoint unhexlify (s : bytes) : option bytes :=
  match s with
  | [] => Some []
  | a :: b :: r =>
    match hex_value a, hex_value b, unhexlify r with
    | Some x, Some y, Some t => Some (16 * x + y :: t)
    | _, _, _ => None
    end
  | _ => None
  end.

(* `cryptography` refuses (ValueError) GCM nonces shorter than 8 bytes and tags shorter than 16 bytes before decrypting *)
Definition gcm_min_iv : nat := 8.
Definition gcm_min_tag : nat := 16.

Inductive dec_outcome := DecOk (m : bytes) | DecInvalidTag | DecDhError (e : dh_error) | DecValueError.

Section Framing.
(* AEAD: seal key iv plaintext = (ciphertext, tag); open key iv tag ciphertext = Some plaintext, None = InvalidTag *)
Variable seal : bytes -> bytes -> bytes -> bytes * bytes.
Variable open : bytes -> bytes -> bytes -> bytes -> option bytes.
(* CBC + PKCS7: cbc_dec = None for the three ValueErrors the code swallows (padding, iv size, block length) *)
Variable cbc_enc : bytes -> bytes -> bytes -> bytes.
Variable cbc_dec : bytes -> bytes -> bytes -> option bytes.
(* shared_key_class.derive_shared_key(key_pair, public_key) and the deprecated NEM derivation with a salt *)
Variable shared : bytes -> bytes -> dh_error + bytes.
Variable shared_deprecated : bytes -> bytes -> bytes -> dh_error + bytes.
Variable public_key_of : bytes -> bytes.

(* CipherHelpers._decode *)
Definition mf_decode (tag_or_salt_size iv_size : Z) (encoded : bytes) : bytes * bytes * bytes :=
  let a := Z.to_nat tag_or_salt_size in
  let b := Z.to_nat (ev2 mf_iv_end_op tag_or_salt_size iv_size) in
  let c := Z.to_nat (ev2 mf_data_from_op tag_or_salt_size iv_size) in
  (firstn a encoded, slice a b encoded, skipn c encoded).

(* AesGcmCipher.encrypt: ciphertext followed by the tag *)
Definition gcm_encrypt (key clear_text iv : bytes) : bytes := let '(ct, tag) := seal key iv clear_text in ct ++ tag.

(* AesGcmCipher.decrypt *)
Definition gcm_decrypt (key cipher_text iv : bytes) : dec_outcome :=
  let tag_start_offset := Z.to_nat (ev2 mf_dec_tag_start_op (Z.of_nat (length cipher_text)) mf_tag_size) in
  let tag := skipn tag_start_offset cipher_text in
  if (length iv <? gcm_min_iv)%nat || (length tag <? gcm_min_tag)%nat then DecValueError
  else match open key iv tag (firstn tag_start_offset cipher_text) with Some m => DecOk m | None => DecInvalidTag end.

Definition decode_aes_gcm (private_key other_public_key encoded : bytes) : dec_outcome :=
  let '(tag, iv, data) := mf_decode mf_tag_size mf_gcm_iv_size encoded in
  match shared private_key other_public_key with
  | inl e => DecDhError e
  | inr key => gcm_decrypt key (data ++ tag) iv
  end.

(* encode_aes_gcm: (tag, iv, ciphertext) *)
Definition encode_aes_gcm (private_key other_public_key iv message : bytes) : dh_error + (bytes * bytes * bytes) :=
  match shared private_key other_public_key with
  | inl e => inl e
  | inr key =>
    let cipher_text := gcm_encrypt key message iv in
    let tag_start_offset := Z.to_nat (ev2 mf_tag_start_op (Z.of_nat (length cipher_text)) mf_tag_size) in
    inr (skipn tag_start_offset cipher_text, iv, firstn tag_start_offset cipher_text)
  end.

(* ---------------- Symbol ---------------- *)
Definition sym_encode (private_key recipient_public_key iv message : bytes) : result bytes :=
  match encode_aes_gcm private_key recipient_public_key iv message with
  | inl _ => Reject
  | inr (tag, iv, ct) => Ok (mf_plain_prefix ++ tag ++ iv ++ ct)
  end.

Definition sym_try_decode (private_key recipient_public_key encoded : bytes) : result (bool * bytes) :=
  match nth_error encoded mf_plain_idx, nth_error encoded mf_deleg_idx with
  | Some first, Some first' =>
    if cmp mf_plain_cmp mf_plain_marker first then
      match decode_aes_gcm private_key recipient_public_key (skipn mf_plain_skip encoded) with
      | DecOk m => Ok (mf_plain_ok, m)
      | DecInvalidTag => Ok (mf_not_decoded, encoded)
      | DecDhError _ | DecValueError => Reject
      end
    else if cmp mf_deleg_first_cmp mf_deleg_first first'
            && cmp_beqb mf_deleg_cmp mf_delegation_marker (firstn mf_deleg_marker_len encoded) then
      let marker_len := length mf_delegation_marker in
      let key_end := (marker_len + Z.to_nat mf_public_key_size)%nat in
      let ephemeral_public_key := slice marker_len key_end encoded in
      if negb (length ephemeral_public_key =? Z.to_nat mf_public_key_size)%nat then Reject   (* PublicKey(...): wrong size *)
      else
        match decode_aes_gcm private_key ephemeral_public_key (skipn key_end encoded) with
        | DecOk m => Ok (mf_deleg_ok, m)
        | DecInvalidTag | DecDhError DhNotInMainSubgroup => Ok (mf_not_decoded, encoded)
        | DecDhError _ | DecValueError => Reject
        end
    else Ok (mf_not_decoded, encoded)
  | _, _ => Crash "IndexError"
  end.

(* encode_persistent_harvesting_delegation: marker, ephemeral public key, tag, iv, ciphertext of remote || vrf private keys *)
Definition sym_encode_delegation (ephemeral_private_key node_public_key iv remote_private_key vrf_private_key : bytes) : result bytes :=
  match encode_aes_gcm ephemeral_private_key node_public_key iv (remote_private_key ++ vrf_private_key) with
  | inl _ => Reject
  | inr (tag, iv, ct) => Ok (mf_delegation_marker ++ public_key_of ephemeral_private_key ++ tag ++ iv ++ ct)
  end.

(* the wallet format: the part after the marker byte is additionally hex encoded *)
Definition sym_encode_deprecated (private_key recipient_public_key iv message : bytes) : result bytes :=
  bind (sym_encode private_key recipient_public_key iv message) (fun e => Ok ([mf_dep_enc_prefix] ++ hexlify (skipn mf_dep_enc_skip e))).

Definition sym_try_decode_deprecated (private_key recipient_public_key encoded : bytes) : result (bool * bytes) :=
  match nth_error encoded mf_dep_idx with
  | None => Crash "IndexError"
  | Some first =>
    if cmp mf_dep_cmp mf_dep_marker first then
      match unhexlify (skipn mf_dep_skip encoded) with
      | Some raw => sym_try_decode private_key recipient_public_key ([mf_dep_prefix] ++ raw)
      | None => sym_try_decode private_key recipient_public_key encoded
      end
    else sym_try_decode private_key recipient_public_key encoded
  end.

(* ---------------- NEM (a Message is its type and its bytes) ---------------- *)
Definition nem_encode (private_key recipient_public_key iv message : bytes) : result (Z * bytes) :=
  match encode_aes_gcm private_key recipient_public_key iv message with
  | inl _ => Reject
  | inr (tag, iv, ct) => Ok (mf_nem_encrypted, tag ++ iv ++ ct)
  end.

Definition nem_encode_deprecated (private_key recipient_public_key salt iv message : bytes) : result (Z * bytes) :=
  match shared_deprecated private_key recipient_public_key salt with
  | inl _ => Reject
  | inr key => Ok (mf_nem_encrypted, salt ++ iv ++ cbc_enc key iv message)
  end.

Definition nem_try_decode (private_key recipient_public_key : bytes) (message_type : Z) (encoded : bytes) : result (bool * bytes) :=
  if cmp mf_nem_type_cmp mf_nem_encrypted message_type then Crash "RuntimeError"
  else
    match decode_aes_gcm private_key recipient_public_key encoded with
    | DecOk m => Ok (mf_nem_gcm_ok, m)
    | DecDhError _ | DecValueError => Reject
    | DecInvalidTag =>
      let '(salt, iv, data) := mf_decode mf_salt_size mf_cbc_iv_size encoded in
      match shared_deprecated private_key recipient_public_key salt with
      | inl _ => Reject
      | inr key =>
        if (length salt <? Z.to_nat mf_salt_size)%nat then Crash "IndexError"    (* salt[i] in derive_shared_key_deprecated *)
        else
          match cbc_dec key iv data with
          | Some m => Ok (mf_nem_cbc_ok, m)
          | None => Ok (mf_nem_not_decoded, encoded)
          end
      end
    end.

End Framing.
