(* Shape facts about the sponge: digests are well-formed byte strings of the requested length. *)
From Symv Require Import Base.Bytes Base.BytesLemmas Sym.Keccak.
From Coq Require Import Lia.
Open Scope Z_scope.

Lemma keccak_round_length a rc : length (keccak_round a rc) = 25%nat.
Proof.
  unfold keccak_round.
  match goal with |- length (match ?m with _ => _ end) = _ => assert (Hm : length m = 25%nat) by (rewrite map_length; reflexivity); destruct m end;
    [discriminate | exact Hm].
Qed.

Lemma fold_round_length l a : length a = 25%nat -> length (fold_left keccak_round l a) = 25%nat.
Proof. revert a; induction l as [|rc l IH]; intros a Ha; cbn [fold_left]; [exact Ha|]. apply IH, keccak_round_length. Qed.

Lemma absorb_length rate a blk : length (absorb_block rate a blk) = 25%nat.
Proof. unfold absorb_block, keccak_f. apply fold_round_length. rewrite map_length. reflexivity. Qed.

Lemma fold_absorb_length rate l a : length a = 25%nat -> length (fold_left (absorb_block rate) l a) = 25%nat.
Proof. revert a; induction l as [|b l IH]; intros a Ha; cbn [fold_left]; [exact Ha|]. apply IH, absorb_length. Qed.

Lemma flat_map_to_le_length st : length (flat_map (to_le 8) st) = (8 * length st)%nat.
Proof. induction st as [|x st IH]; cbn [flat_map length]; [reflexivity|]. rewrite app_length, length_to_le, IH. lia. Qed.

Lemma flat_map_to_le_wf st : wf_bytes (flat_map (to_le 8) st) = true.
Proof. induction st as [|x st IH]; cbn [flat_map]; [reflexivity|]. now rewrite wf_app, wf_to_le, IH. Qed.

Lemma sponge_wf rate padb outlen m : wf_bytes (sponge rate padb outlen m) = true.
Proof. unfold sponge. apply wf_firstn, flat_map_to_le_wf. Qed.

Lemma sponge_length rate padb outlen m : (outlen <= 200)%nat -> length (sponge rate padb outlen m) = outlen.
Proof.
  intros Ho. unfold sponge. apply firstn_length_le. rewrite flat_map_to_le_length, fold_absorb_length; [lia|]. apply repeat_length.
Qed.

Lemma sha3_256_wf m : wf_bytes (sha3_256 m) = true.   Proof. apply sponge_wf. Qed.
Lemma sha3_256_length m : length (sha3_256 m) = 32%nat. Proof. apply sponge_length. lia. Qed.
Lemma keccak_256_wf m : wf_bytes (keccak_256 m) = true.   Proof. apply sponge_wf. Qed.
Lemma keccak_256_length m : length (keccak_256 m) = 32%nat. Proof. apply sponge_length. lia. Qed.
Lemma sha3_512_wf m : wf_bytes (sha3_512 m) = true.   Proof. apply sponge_wf. Qed.
Lemma sha3_512_length m : length (sha3_512 m) = 64%nat. Proof. apply sponge_length. lia. Qed.
Lemma keccak_512_wf m : wf_bytes (keccak_512 m) = true.   Proof. apply sponge_wf. Qed.
Lemma keccak_512_length m : length (keccak_512 m) = 64%nat. Proof. apply sponge_length. lia. Qed.
Lemma sha3_256_len8 m : (8 <= length (sha3_256 m))%nat. Proof. rewrite sha3_256_length. lia. Qed.
