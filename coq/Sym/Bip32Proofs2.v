(* Further proofs about Sym/Bip32.v: composition along ANY split of a path into any number of consecutive segments, and the
   facade's account derivation end to end (coin-type path of the network, every level a SLIP-10 hardened child). *)
From Symv Require Import Base.Bytes Base.PyOps Base.BytesLemmas Sym.Hmac Sym.Bip32 Sym.Bip32Proofs.
From Coq Require Import Lia.
Open Scope Z_scope.

Section WithHmac.
Variable HM : bytes -> bytes -> bytes.

(* deriving segment after segment: the outcome of each segment is the start of the next; an exception ends it *)
Definition derive_segments (segs : list (list Z)) (start : result node) : result node :=
  fold_left (fun acc seg => bind acc (derive_path HM seg)) segs start.

Lemma derive_segments_from segs s : derive_segments segs s = derive_path_from HM (concat segs) s.
Proof.
  revert s; induction segs as [|seg segs IH]; intros s; [reflexivity|].
  cbn [derive_segments fold_left concat]. fold (derive_segments segs). rewrite IH.
  rewrite derive_path_from_app. rewrite (derive_path_from_bind HM seg s). reflexivity.
Qed.

(* any split of a path into consecutive segments (any number of them, empty ones included) derives the same node or the same
   exception as the whole path *)
Lemma derive_path_any_split segs n : derive_path HM (concat segs) n = derive_segments segs (Ok n).
Proof. symmetry. apply derive_segments_from. Qed.

Lemma derive_path_two_splits segs1 segs2 n :
  concat segs1 = concat segs2 -> derive_segments segs1 (Ok n) = derive_segments segs2 (Ok n).
Proof. intros E. rewrite <- !derive_path_any_split. now rewrite E. Qed.

(* one step at a time is a split too: the path as singletons *)
Lemma concat_singletons {A} (p : list A) : concat (map (fun i => [i]) p) = p.
Proof. induction p as [|i p IH]; [reflexivity | cbn; now rewrite IH]. Qed.

Lemma derive_path_stepwise p n : derive_path HM p n = derive_segments (map (fun i => [i]) p) (Ok n).
Proof. rewrite <- derive_path_any_split, concat_singletons. reflexivity. Qed.

(* the facade's account derivation end to end: for every account index below 2^31 the node of the account is the SLIP-10
   hardened-child chain purpose / coin type / account / 0 / 0 under the root of the seed *)
Lemma symbol_account_node name account seed : 0 <= account < 2 ^ 31 ->
  derive_path HM (symbol_bip32_path name account) (from_seed HM sym_curve seed) =
  Ok (fold_left (slip10_child HM)
        [44; if list_eq_dec Z.eq_dec name (of_string "mainnet") then 4343 else 1; account; 0; 0]
        (slip10_root HM (of_string "ed25519") seed)).
Proof.
  intros Hacc. rewrite symbol_path, root_label. destruct facade_curves as [-> _].
  apply derive_path_slip10. unfold hardened_index.
  destruct (list_eq_dec Z.eq_dec name (of_string "mainnet")); repeat constructor; lia.
Qed.

Lemma nem_account_node name account seed : 0 <= account < 2 ^ 31 ->
  derive_path HM (nem_bip32_path name account) (from_seed HM nem_curve seed) =
  Ok (fold_left (slip10_child HM)
        [44; if list_eq_dec Z.eq_dec name (of_string "mainnet") then 43 else 1; account; 0; 0]
        (slip10_root HM (of_string "ed25519-keccak") seed)).
Proof.
  intros Hacc. rewrite nem_path, root_label. destruct facade_curves as [_ [-> _]].
  apply derive_path_slip10. unfold hardened_index.
  destruct (list_eq_dec Z.eq_dec name (of_string "mainnet")); repeat constructor; lia.
Qed.

(* distinct accounts have distinct paths, and distinct networks (mainnet or not) have distinct coin types *)
Lemma symbol_path_injective name a b : symbol_bip32_path name a = symbol_bip32_path name b -> a = b.
Proof. rewrite !symbol_path. intros E. now injection E. Qed.

Lemma nem_path_injective name a b : nem_bip32_path name a = nem_bip32_path name b -> a = b.
Proof. rewrite !nem_path. intros E. now injection E. Qed.

End WithHmac.

(* the four bytes of a hardened index determine the index: two indices below 2^31 with the same SLIP-10 index bytes are equal *)
Lemma hardened_index_bytes_injective i j : 0 <= i < 2 ^ 31 -> 0 <= j < 2 ^ 31 ->
  to_be 4 (2 ^ 31 + i) = to_be 4 (2 ^ 31 + j) -> i = j.
Proof.
  intros Hi Hj E.
  assert (from_be (to_be 4 (2 ^ 31 + i)) = from_be (to_be 4 (2 ^ 31 + j))) as E2 by now rewrite E.
  unfold from_be, to_be in E2. rewrite !rev_involutive in E2.
  rewrite !from_le_to_le_small in E2 by (change (2 ^ (8 * Z.of_nat 4)) with (2 ^ 32); change (2 ^ 32) with (2 ^ 31 + 2 ^ 31); lia). lia.
Qed.
