(* Proofs about Sym/Descriptor.v (the model of descriptor processing).  Specification-side definitions used by Props/C10.v are here too:
   they are fixed text (literal key names, literal `_computed`, literal `none`, numeric ranges), the model side uses the regenerated constants. *)
From Symv Require Import Sym.Descriptor Cats.LayoutProofs Cats.LayoutInstProofs Cats.SortProofs Sym.KeccakProofs Sym.IdsProofs.
From Coq Require Import Lia ZifyBool Permutation Sorted.
Open Scope string_scope.
Open Scope list_scope.
Open Scope Z_scope.

(* ---------- result / list utilities ---------- *)
Lemma bind_ok {A B} (r : result A) (f : A -> result B) b : bind r f = Ok b -> exists a, r = Ok a /\ f a = Ok b.
Proof. destruct r; cbn; intros H; try discriminate. eauto. Qed.

Lemma mapM_ok {A B} (f : A -> result B) l l' : mapM f l = Ok l' -> Forall2 (fun x y => f x = Ok y) l l'.
Proof.
  revert l'. induction l as [|x r IH]; cbn; intros l' H.
  - inversion H. constructor.
  - apply bind_ok in H. destruct H as [y [Hy H]]. apply bind_ok in H. destruct H as [t [Ht H]]. inversion H; subst. constructor; auto.
Qed.

Lemma mapM_map_fst {A B} (g : A -> string) (f : A -> result (string * B)) l l' :
  (forall x y, f x = Ok y -> fst y = g x) -> mapM f l = Ok l' -> map fst l' = map g l.
Proof.
  intros Hf H. apply mapM_ok in H. induction H; cbn; [reflexivity|]. f_equal; auto.
Qed.

Lemma assoc_in {A} k (l : list (string * A)) v : assoc k l = Some v -> In (k, v) l.
Proof.
  unfold assoc. destruct (find _ l) as [p|] eqn:E; intros H; inversion H; subst.
  apply find_some in E. destruct E as [Hin Heq]. apply String.eqb_eq in Heq. destruct p; cbn in *; subst. exact Hin.
Qed.

Lemma assoc_none_notin {A} k (l : list (string * A)) : assoc k l = None -> ~ In k (map fst l).
Proof.
  unfold assoc. destruct (find _ l) eqn:E; intros H; [discriminate|]. intros Hin. apply in_map_iff in Hin. destruct Hin as [p [Hp Hin]].
  eapply find_none in E; eauto. cbn in E. rewrite Hp, String.eqb_refl in E. discriminate.
Qed.

(* member update, as copy_to performs it *)
Definition upd (e : list (string * value)) (n : string) (v : value) : list (string * value) :=
  map (fun p => if String.eqb (fst p) n then (n, v) else p) e.

Lemma upd_names e n v : map fst (upd e n v) = map fst e.
Proof.
  unfold upd. rewrite map_map. apply map_ext_in. intros p _. destruct (String.eqb (fst p) n) eqn:E; [apply String.eqb_eq in E; cbn; auto|reflexivity].
Qed.

Lemma assoc_upd_other e n m v : n <> m -> assoc m (upd e n v) = assoc m e.
Proof.
  intros Hne. unfold assoc, upd. induction e as [|p r IH]; cbn; [reflexivity|].
  destruct (String.eqb (fst p) n) eqn:E.
  - apply String.eqb_eq in E. cbn. destruct (String.eqb n m) eqn:E2; [apply String.eqb_eq in E2; contradiction|].
    rewrite E. rewrite E2. exact IH.
  - destruct (String.eqb (fst p) m); [reflexivity|exact IH].
Qed.

Lemma assoc_upd_same e n v old : assoc n e = Some old -> assoc n (upd e n v) = Some v.
Proof.
  unfold assoc, upd. induction e as [|p r IH]; cbn; [discriminate|].
  destruct (String.eqb (fst p) n) eqn:E; cbn.
  - rewrite String.eqb_refl. reflexivity.
  - rewrite E. exact IH.
Qed.

Lemma vget_assoc c e n : vget (VStruct c e) n = assoc n e.
Proof. reflexivity. Qed.

(* ---------- members ---------- *)
Lemma member_of_key N cls k f : member_of N cls k = Some f ->
  py_name (f_name f) = k /\ exists s, lookup_struct (n_tm N) cls = Some s /\ In f (settable_fields s).
Proof.
  unfold member_of. destruct (lookup_struct (n_tm N) cls) as [s|]; [|discriminate]. intros H. apply find_some in H. destruct H as [Hin Heq].
  apply String.eqb_eq in Heq. split; [exact Heq|]. exists s. auto.
Qed.

Lemma member_names_differ N cls k1 k2 f1 f2 :
  member_of N cls k1 = Some f1 -> member_of N cls k2 = Some f2 -> k1 <> k2 -> f_name f1 <> f_name f2.
Proof.
  intros H1 H2 Hne Heq. apply member_of_key in H1, H2. destruct H1 as [H1 _], H2 as [H2 _]. rewrite Heq in H1. congruence.
Qed.

(* ---------- copy_to ---------- *)
(* what a looked-up value leaves in the member: lists extend the constructor's list, anything else replaces the member *)
Definition stored (x : dval) (old : value) : value :=
  match x with
  | DList l => match old with VArr o => VArr (o ++ map to_value l) | _ => old end
  | _ => to_value x
  end.

Section Copy.
Variable N : netcfg.
Variable P : rule -> dval -> result dval.
Variable cls : string.
Variable ignore : list string.

Definition live (k : string) : Prop := existsb (String.eqb k) ignore = false.

(* every entry that is not ignored names a settable member that is not computed, and its value parses *)
Lemma copy_ok_entries kvs : forall e e', copy_to_with N P cls ignore kvs e = Ok e' ->
  Forall (fun kd => live (fst kd) ->
            ends_with (fst kd) computed_suffix = false /\
            exists f x, member_of N cls (fst kd) = Some f /\ lookup_value_with N P cls (fst kd) (snd kd) = Ok x) kvs.
Proof.
  induction kvs as [|[k d] r IH]; intros e e' H; [constructor|].
  cbn [copy_to_with] in H. unfold live. cbn [fst snd].
  destruct (existsb (String.eqb k) ignore) eqn:Ei.
  - constructor; [cbn [fst snd]; intros Hl; unfold live in Hl; congruence|eauto].
  - destruct (ends_with k computed_suffix) eqn:Ec; [discriminate|].
    destruct (member_of N cls k) as [f|] eqn:Em; [|discriminate].
    apply bind_ok in H. destruct H as [x [Hx H]].
    assert (Hrest : exists e1, copy_to_with N P cls ignore r e1 = Ok e').
    { destruct x; eauto. destruct (assoc (f_name f) e) as [[]|]; try discriminate; eauto. }
    destruct Hrest as [e1 He1]. constructor; [|eauto]. cbn [fst snd]. intros _. split; [exact Ec|]. eauto.
Qed.

Lemma copy_names kvs : forall e e', copy_to_with N P cls ignore kvs e = Ok e' -> map fst e' = map fst e.
Proof.
  induction kvs as [|[k d] r IH]; intros e e' H; cbn [copy_to_with] in H; [inversion H; reflexivity|].
  destruct (existsb (String.eqb k) ignore); [eauto|].
  destruct (ends_with k computed_suffix); [discriminate|].
  destruct (member_of N cls k) as [f|]; [|discriminate].
  apply bind_ok in H. destruct H as [x [Hx H]].
  destruct x; try (apply IH in H; fold (upd e (f_name f)) in H; rewrite H; apply upd_names).
  destruct (assoc (f_name f) e) as [[]|]; try discriminate.
  apply IH in H. rewrite H. apply (upd_names e (f_name f)).
Qed.

(* members that no live entry names keep their value *)
Lemma copy_untouched kvs : forall e e' n, copy_to_with N P cls ignore kvs e = Ok e' ->
  (forall k d f, In (k, d) kvs -> live k -> member_of N cls k = Some f -> f_name f <> n) -> assoc n e' = assoc n e.
Proof.
  induction kvs as [|[k d] r IH]; intros e e' n H Hn; cbn [copy_to_with] in H; [inversion H; reflexivity|].
  destruct (existsb (String.eqb k) ignore) eqn:Ei.
  - eapply IH; eauto. intros; eapply Hn; eauto. right; eauto.
  - destruct (ends_with k computed_suffix); [discriminate|].
    destruct (member_of N cls k) as [f|] eqn:Em; [|discriminate].
    apply bind_ok in H. destruct H as [x [Hx H]].
    assert (Hf : f_name f <> n) by (eapply Hn; [left; reflexivity|exact Ei|exact Em]).
    assert (Hr : forall k0 d0 f0, In (k0, d0) r -> live k0 -> member_of N cls k0 = Some f0 -> f_name f0 <> n) by (intros; eapply Hn; eauto; right; eauto).
    destruct x; try (rewrite (IH _ _ _ H Hr); apply (assoc_upd_other e (f_name f) n _ Hf)).
    destruct (assoc (f_name f) e) as [[]|]; try discriminate.
    rewrite (IH _ _ _ H Hr). apply (assoc_upd_other e (f_name f) n _ Hf).
Qed.

(* every live entry ends up in its member (distinct keys) *)
Lemma copy_holds kvs : forall e e', copy_to_with N P cls ignore kvs e = Ok e' -> NoDup (map fst kvs) ->
  forall k d, In (k, d) kvs -> live k ->
  exists f x, member_of N cls k = Some f /\ lookup_value_with N P cls k d = Ok x /\
              forall old, assoc (f_name f) e = Some old -> assoc (f_name f) e' = Some (stored x old).
Proof.
  induction kvs as [|[k0 d0] r IH]; intros e e' H Hnd k d Hin Hlive; [destruct Hin|].
  cbn [copy_to_with] in H. cbn in Hnd. inversion Hnd as [|? ? Hnotin Hnd']; subst.
  destruct Hin as [Heq|Hin].
  - inversion Heq; subst. unfold live in Hlive. rewrite Hlive in H.
    destruct (ends_with k computed_suffix); [discriminate|].
    destruct (member_of N cls k) as [f|] eqn:Em; [|discriminate].
    apply bind_ok in H. destruct H as [x [Hx H]]. exists f, x. split; [reflexivity|]. split; [exact Hx|].
    assert (Hr : forall k1 d1 f1, In (k1, d1) r -> live k1 -> member_of N cls k1 = Some f1 -> f_name f1 <> f_name f).
    { intros k1 d1 f1 Hin1 _ Hm1. eapply member_names_differ; eauto. intros ->. apply Hnotin. apply in_map_iff. exists (k, d1). auto. }
    intros old Hold.
    destruct x; try (rewrite (copy_untouched _ _ _ _ H Hr); cbn [stored]; eapply assoc_upd_same; eauto).
    rewrite Hold in H. destruct old; try discriminate.
    rewrite (copy_untouched _ _ _ _ H Hr). cbn [stored]. eapply assoc_upd_same; eauto.
  - assert (Hne : k <> k0) by (intros ->; apply Hnotin; apply in_map_iff; exists (k0, d); auto).
    destruct (existsb (String.eqb k0) ignore) eqn:Ei.
    + eapply IH; eauto.
    + destruct (ends_with k0 computed_suffix); [discriminate|].
      destruct (member_of N cls k0) as [f0|] eqn:Em0; [|discriminate].
      apply bind_ok in H. destruct H as [x0 [Hx0 H]].
      assert (Hstep : exists e1, copy_to_with N P cls ignore r e1 = Ok e' /\ forall f, member_of N cls k = Some f -> assoc (f_name f) e1 = assoc (f_name f) e).
      { destruct x0; try (eexists; split; [exact H|]; intros f Hm; apply assoc_upd_other; eapply member_names_differ; eauto).
        destruct (assoc (f_name f0) e) as [[]|]; try discriminate.
        eexists; split; [exact H|]. intros f Hm. apply (assoc_upd_other e (f_name f0)). eapply member_names_differ; eauto. }
      destruct Hstep as [e1 [He1 Hsame]].
      destruct (IH _ _ He1 Hnd' k d Hin Hlive) as [f [x [Hm [Hx Hold]]]].
      exists f, x. split; [exact Hm|]. split; [exact Hx|]. intros old Ho. apply Hold. rewrite (Hsame f Hm). exact Ho.
Qed.
End Copy.
