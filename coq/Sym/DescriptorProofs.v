(* Proofs about Sym/Descriptor.v (the model of descriptor processing).  Specification-side definitions used by Props/C10.v are here too:
   they are fixed text (literal key names, literal `_computed`, literal `none`, numeric ranges), the model side uses the regenerated constants. *)
From Symv Require Import Sym.Descriptor Cats.LayoutProofs Cats.LayoutInstProofs Cats.SortProofs Sym.KeccakProofs Sym.IdsProofs.
From Coq Require Import Lia ZifyBool Permutation Sorted.
Open Scope string_scope.
Open Scope list_scope.
Open Scope Z_scope.

(* ---------- result / list utilities ---------- *)
Lemma bind_ok {A B} (r : result A) (f : A -> result B) b : bind r f = Ok b -> exists a, r = Ok a /\ f a = Ok b.
Proof. destruct r; cbn; intros H; try discriminate. eauto. Qed.

Lemma mapM_ok {A B} (f : A -> result B) l l' : mapM f l = Ok l' -> Forall2 (fun x y => f x = Ok y) l l'.
Proof.
  revert l'. induction l as [|x r IH]; cbn; intros l' H.
  - inversion H. constructor.
  - apply bind_ok in H. destruct H as [y [Hy H]]. apply bind_ok in H. destruct H as [t [Ht H]]. inversion H; subst. constructor; auto.
Qed.

Lemma mapM_map_fst {A B} (g : A -> string) (f : A -> result (string * B)) l l' :
  (forall x y, f x = Ok y -> fst y = g x) -> mapM f l = Ok l' -> map fst l' = map g l.
Proof.
  intros Hf H. apply mapM_ok in H. induction H; cbn; [reflexivity|]. f_equal; auto.
Qed.

Lemma assoc_in {A} k (l : list (string * A)) v : assoc k l = Some v -> In (k, v) l.
Proof.
  unfold assoc. destruct (find _ l) as [p|] eqn:E; intros H; inversion H; subst.
  apply find_some in E. destruct E as [Hin Heq]. apply String.eqb_eq in Heq. destruct p; cbn in *; subst. exact Hin.
Qed.

Lemma assoc_none_notin {A} k (l : list (string * A)) : assoc k l = None -> ~ In k (map fst l).
Proof.
  unfold assoc. destruct (find _ l) eqn:E; intros H; [discriminate|]. intros Hin. apply in_map_iff in Hin. destruct Hin as [p [Hp Hin]].
  eapply find_none in E; eauto. cbn in E. rewrite Hp, String.eqb_refl in E. discriminate.
Qed.

(* member update, as copy_to performs it *)
Definition upd (e : list (string * value)) (n : string) (v : value) : list (string * value) :=
  map (fun p => if String.eqb (fst p) n then (n, v) else p) e.

Lemma upd_names e n v : map fst (upd e n v) = map fst e.
Proof.
  unfold upd. rewrite map_map. apply map_ext_in. intros p _. destruct (String.eqb (fst p) n) eqn:E; [apply String.eqb_eq in E; cbn; auto|reflexivity].
Qed.

Lemma assoc_upd_other e n m v : n <> m -> assoc m (upd e n v) = assoc m e.
Proof.
  intros Hne. unfold assoc, upd. induction e as [|p r IH]; cbn; [reflexivity|].
  destruct (String.eqb (fst p) n) eqn:E.
  - apply String.eqb_eq in E. cbn. destruct (String.eqb n m) eqn:E2; [apply String.eqb_eq in E2; contradiction|].
    rewrite E. rewrite E2. exact IH.
  - destruct (String.eqb (fst p) m); [reflexivity|exact IH].
Qed.

Lemma assoc_upd_same e n v old : assoc n e = Some old -> assoc n (upd e n v) = Some v.
Proof.
  unfold assoc, upd. induction e as [|p r IH]; cbn; [discriminate|].
  destruct (String.eqb (fst p) n) eqn:E; cbn.
  - rewrite String.eqb_refl. reflexivity.
  - rewrite E. exact IH.
Qed.

Lemma vget_assoc c e n : vget (VStruct c e) n = assoc n e.
Proof. reflexivity. Qed.

(* ---------- members ---------- *)
Lemma member_of_key N cls k f : member_of N cls k = Some f ->
  py_name (f_name f) = k /\ exists s, lookup_struct (n_tm N) cls = Some s /\ In f (settable_fields s).
Proof.
  unfold member_of. destruct (lookup_struct (n_tm N) cls) as [s|]; [|discriminate]. intros H. apply find_some in H. destruct H as [Hin Heq].
  apply String.eqb_eq in Heq. split; [exact Heq|]. exists s. auto.
Qed.

Lemma member_names_differ N cls k1 k2 f1 f2 :
  member_of N cls k1 = Some f1 -> member_of N cls k2 = Some f2 -> k1 <> k2 -> f_name f1 <> f_name f2.
Proof.
  intros H1 H2 Hne Heq. apply member_of_key in H1, H2. destruct H1 as [H1 _], H2 as [H2 _]. rewrite Heq in H1. congruence.
Qed.

(* ---------- copy_to ---------- *)
(* what a looked-up value leaves in the member: lists extend the constructor's list, anything else replaces the member *)
Definition stored (x : dval) (old : value) : value :=
  match x with
  | DList l => match old with VArr o => VArr (o ++ map to_value l) | _ => old end
  | _ => to_value x
  end.

Section Copy.
Variable N : netcfg.
Variable P : rule -> dval -> result dval.
Variable cls : string.
Variable ignore : list string.

Definition live (k : string) : Prop := existsb (String.eqb k) ignore = false.

(* every entry that is not ignored names a settable member that is not computed, and its value parses *)
Lemma copy_ok_entries kvs : forall e e', copy_to_with N P cls ignore kvs e = Ok e' ->
  Forall (fun kd => live (fst kd) ->
            ends_with (fst kd) computed_suffix = false /\
            exists f x, member_of N cls (fst kd) = Some f /\ lookup_value_with N P cls (fst kd) (snd kd) = Ok x) kvs.
Proof.
  induction kvs as [|[k d] r IH]; intros e e' H; [constructor|].
  cbn [copy_to_with] in H. unfold live. cbn [fst snd].
  destruct (existsb (String.eqb k) ignore) eqn:Ei.
  - constructor; [cbn [fst snd]; intros Hl; unfold live in Hl; congruence|eauto].
  - destruct (ends_with k computed_suffix) eqn:Ec; [discriminate|].
    destruct (member_of N cls k) as [f|] eqn:Em; [|discriminate].
    apply bind_ok in H. destruct H as [x [Hx H]].
    assert (Hrest : exists e1, copy_to_with N P cls ignore r e1 = Ok e').
    { destruct x; eauto. destruct (assoc (f_name f) e) as [[]|]; try discriminate; eauto. }
    destruct Hrest as [e1 He1]. constructor; [|eauto]. cbn [fst snd]. intros _. split; [exact Ec|]. eauto.
Qed.

Lemma copy_names kvs : forall e e', copy_to_with N P cls ignore kvs e = Ok e' -> map fst e' = map fst e.
Proof.
  induction kvs as [|[k d] r IH]; intros e e' H; cbn [copy_to_with] in H; [inversion H; reflexivity|].
  destruct (existsb (String.eqb k) ignore); [eauto|].
  destruct (ends_with k computed_suffix); [discriminate|].
  destruct (member_of N cls k) as [f|]; [|discriminate].
  apply bind_ok in H. destruct H as [x [Hx H]].
  destruct x; try (apply IH in H; fold (upd e (f_name f)) in H; rewrite H; apply upd_names).
  destruct (assoc (f_name f) e) as [[]|]; try discriminate.
  apply IH in H. rewrite H. apply (upd_names e (f_name f)).
Qed.

(* members that no live entry names keep their value *)
Lemma copy_untouched kvs : forall e e' n, copy_to_with N P cls ignore kvs e = Ok e' ->
  (forall k d f, In (k, d) kvs -> live k -> member_of N cls k = Some f -> f_name f <> n) -> assoc n e' = assoc n e.
Proof.
  induction kvs as [|[k d] r IH]; intros e e' n H Hn; cbn [copy_to_with] in H; [inversion H; reflexivity|].
  destruct (existsb (String.eqb k) ignore) eqn:Ei.
  - eapply IH; eauto. intros; eapply Hn; eauto. right; eauto.
  - destruct (ends_with k computed_suffix); [discriminate|].
    destruct (member_of N cls k) as [f|] eqn:Em; [|discriminate].
    apply bind_ok in H. destruct H as [x [Hx H]].
    assert (Hf : f_name f <> n) by (eapply Hn; [left; reflexivity|exact Ei|exact Em]).
    assert (Hr : forall k0 d0 f0, In (k0, d0) r -> live k0 -> member_of N cls k0 = Some f0 -> f_name f0 <> n) by (intros; eapply Hn; eauto; right; eauto).
    destruct x; try (rewrite (IH _ _ _ H Hr); apply (assoc_upd_other e (f_name f) n _ Hf)).
    destruct (assoc (f_name f) e) as [[]|]; try discriminate.
    rewrite (IH _ _ _ H Hr). apply (assoc_upd_other e (f_name f) n _ Hf).
Qed.

(* every live entry ends up in its member (distinct keys) *)
Lemma copy_holds kvs : forall e e', copy_to_with N P cls ignore kvs e = Ok e' -> NoDup (map fst kvs) ->
  forall k d, In (k, d) kvs -> live k ->
  exists f x, member_of N cls k = Some f /\ lookup_value_with N P cls k d = Ok x /\
              forall old, assoc (f_name f) e = Some old -> assoc (f_name f) e' = Some (stored x old).
Proof.
  induction kvs as [|[k0 d0] r IH]; intros e e' H Hnd k d Hin Hlive; [destruct Hin|].
  cbn [copy_to_with] in H. cbn in Hnd. inversion Hnd as [|? ? Hnotin Hnd']; subst.
  destruct Hin as [Heq|Hin].
  - inversion Heq; subst. unfold live in Hlive. rewrite Hlive in H.
    destruct (ends_with k computed_suffix); [discriminate|].
    destruct (member_of N cls k) as [f|] eqn:Em; [|discriminate].
    apply bind_ok in H. destruct H as [x [Hx H]]. exists f, x. split; [reflexivity|]. split; [exact Hx|].
    assert (Hr : forall k1 d1 f1, In (k1, d1) r -> live k1 -> member_of N cls k1 = Some f1 -> f_name f1 <> f_name f).
    { intros k1 d1 f1 Hin1 _ Hm1. eapply member_names_differ; eauto. intros ->. apply Hnotin. apply in_map_iff. exists (k, d1). auto. }
    intros old Hold.
    destruct x; try (rewrite (copy_untouched _ _ _ _ H Hr); cbn [stored]; eapply assoc_upd_same; eauto).
    rewrite Hold in H. destruct old; try discriminate.
    rewrite (copy_untouched _ _ _ _ H Hr). cbn [stored]. eapply assoc_upd_same; eauto.
  - assert (Hne : k <> k0) by (intros ->; apply Hnotin; apply in_map_iff; exists (k0, d); auto).
    destruct (existsb (String.eqb k0) ignore) eqn:Ei.
    + eapply IH; eauto.
    + destruct (ends_with k0 computed_suffix); [discriminate|].
      destruct (member_of N cls k0) as [f0|] eqn:Em0; [|discriminate].
      apply bind_ok in H. destruct H as [x0 [Hx0 H]].
      assert (Hstep : exists e1, copy_to_with N P cls ignore r e1 = Ok e' /\ forall f, member_of N cls k = Some f -> assoc (f_name f) e1 = assoc (f_name f) e).
      { destruct x0; try (eexists; split; [exact H|]; intros f Hm; apply assoc_upd_other; eapply member_names_differ; eauto).
        destruct (assoc (f_name f0) e) as [[]|]; try discriminate.
        eexists; split; [exact H|]. intros f Hm. apply (assoc_upd_other e (f_name f0)). eapply member_names_differ; eauto. }
      destruct Hstep as [e1 [He1 Hsame]].
      destruct (IH _ _ He1 Hnd' k d Hin Hlive) as [f [x [Hm [Hx Hold]]]].
      exists f, x. split; [exact Hm|]. split; [exact Hx|]. intros old Ho. apply Hold. rewrite (Hsame f Hm). exact Ho.
Qed.
End Copy.

(* ---------- leaf parsers ---------- *)
Lemma parse_step N k r d : parse N (S k) r d =
  match r with
  | RPod cls => parse_pod N cls d
  | RSdk c => parse_sdk N c d
  | REnum cls => parse_enum N cls d
  | RFlags cls => parse_flags N cls d
  | RArray er => match d with DList l => bind (mapM (parse N k er) l) (fun l' => Ok (DList l')) | _ => Crash "TypeError" end
  | RStruct cls =>
    match d with
    | DDict kvs =>
      bind (new_instance N cls) (fun inst =>
      match inst with
      | VStruct c e => bind (copy_to_with N (parse N k) cls [] kvs e) (fun e' => Ok (DObj OCodec cls (VStruct c e')))
      | _ => Crash "TypeError"
      end)
    | _ => Crash "AttributeError"
    end
  end.
Proof. reflexivity. Qed.

(* BaseValue's range check, for the widths the schemas use *)
Lemma base_value_ok_range sz z : In sz [1; 2; 4; 8] -> base_value_bad_now sz false z = false -> 0 <= z < 2 ^ (8 * sz).
Proof.
  intros Hin H. cbn in Hin.
  destruct Hin as [<-|[<-|[<-|[<-|[]]]]].
  - pose proof (base_value_bad_spec 1 false z ltac:(lia)) as E. change (Z.of_nat 1) with 1 in E. rewrite H in E. unfold int_in_range in E.
    change (2 ^ (8 * Z.of_nat 1)) with 256 in E. change (2 ^ (8 * 1)) with 256. lia.
  - pose proof (base_value_bad_spec 2 false z ltac:(lia)) as E. change (Z.of_nat 2) with 2 in E. rewrite H in E. unfold int_in_range in E.
    change (2 ^ (8 * Z.of_nat 2)) with 65536 in E. change (2 ^ (8 * 2)) with 65536. lia.
  - pose proof (base_value_bad_spec 4 false z ltac:(lia)) as E. change (Z.of_nat 4) with 4 in E. rewrite H in E. unfold int_in_range in E.
    change (2 ^ (8 * Z.of_nat 4)) with 4294967296 in E. change (2 ^ (8 * 4)) with 4294967296. lia.
  - pose proof (base_value_bad_spec 8 false z ltac:(lia)) as E. change (Z.of_nat 8) with 8 in E. rewrite H in E. unfold int_in_range in E.
    change (2 ^ (8 * Z.of_nat 8)) with 18446744073709551616 in E. change (2 ^ (8 * 8)) with 18446744073709551616. lia.
Qed.

Lemma parse_pod_int N cls z x : parse_pod N cls (DInt z) = Ok x ->
  exists nm i cm, lookup (n_tm N) cls = Some (DAlias nm (LInt i) cm) /\ base_value_bad_now (it_size i) false z = false /\ x = DObj OCodec cls (VInt z).
Proof.
  unfold parse_pod. destruct (lookup (n_tm N) cls) as [[nm [i|n] cm| |]|]; try discriminate.
  destruct (base_value_bad_now (it_size i) false z) eqn:E; [discriminate|]. intros H. inversion H. eauto 8.
Qed.

Lemma enum_by_name_some vs s z : enum_by_name vs s = Some z ->
  exists e, In e vs /\ str_is (lower_string (ev_name e)) s = true /\ ev_value e = z.
Proof.
  unfold enum_by_name. destruct (find _ (rev vs)) as [e|] eqn:E; [|discriminate]. intros H. inversion H; subst.
  apply find_some in E. destruct E as [Hin Hs]. apply in_rev in Hin. eauto.
Qed.

Lemma enum_by_name_none vs s : enum_by_name vs s = None -> forall e, In e vs -> str_is (lower_string (ev_name e)) s = false.
Proof.
  unfold enum_by_name. destruct (find _ (rev vs)) as [e|] eqn:E; [discriminate|]. intros _ e Hin.
  apply (find_none _ _ E e). apply in_rev. rewrite rev_involutive. exact Hin.
Qed.

Lemma parse_enum_str N cls s x : parse_enum N cls (DStr s) = Ok x ->
  exists e, In e (enum_values N cls) /\ str_is (lower_string (ev_name e)) s = true /\ x = DObj OCodec cls (VInt (ev_value e)).
Proof.
  unfold parse_enum. destruct (enum_by_name (enum_values N cls) s) as [z|] eqn:E; [|discriminate]. intros H. inversion H; subst.
  apply enum_by_name_some in E. destruct E as [e [Hin [Hs Hv]]]. exists e. rewrite Hv. auto.
Qed.

Lemma parse_enum_int N cls z x : parse_enum N cls (DInt z) = Ok x ->
  (exists e, In e (enum_values N cls) /\ ev_value e = z) /\ x = DObj OCodec cls (VInt z).
Proof.
  unfold parse_enum, enum_valid. destruct (existsb _ (enum_values N cls)) eqn:E; [|discriminate]. intros H. inversion H; subst. split; [|reflexivity].
  apply existsb_exists in E. destruct E as [e [Hin He]]. exists e. split; [exact Hin|lia].
Qed.

Lemma flag_by_name_spec vs n v : flag_by_name vs n = Some v ->
  (str_is "none" n = true /\ v = 0) \/
  (exists e, In e vs /\ is_single_bit (ev_value e) = true /\ str_is (lower_string (ev_name e)) n = true /\ ev_value e = v).
Proof.
  unfold flag_by_name. change flag_none_name with "none". change flag_none_value with 0.
  destruct (str_is "none" n) eqn:E.
  - intros H. inversion H. left. auto.
  - intros H. apply enum_by_name_some in H. destruct H as [e [Hin [Hs Hv]]]. apply filter_In in Hin. destruct Hin as [Hin Hb]. right. eauto 8.
Qed.

Lemma flags_or_spec vs names z : flags_or vs names = Some z ->
  exists zs, Forall2 (fun n v => flag_by_name vs n = Some v) names zs /\ z = fold_right Z.lor 0 zs.
Proof.
  revert z. induction names as [|n r IH]; cbn; intros z H.
  - inversion H. exists []. split; [constructor|reflexivity].
  - destruct (flag_by_name vs n) as [a|] eqn:Ea; [|discriminate]. destruct (flags_or vs r) as [b|] eqn:Eb; [|discriminate].
    inversion H; subst. destruct (IH b eq_refl) as [zs [Hf Hz]]. exists (a :: zs). split; [constructor; auto|]. cbn. rewrite Hz. reflexivity.
Qed.

Lemma parse_flags_str N cls s x : parse_flags N cls (DStr s) = Ok x ->
  exists zs, Forall2 (fun n v => flag_by_name (enum_values N cls) n = Some v) (split_on 32 s) zs /\ x = DObj OCodec cls (VInt (fold_right Z.lor 0 zs)).
Proof.
  unfold parse_flags. change flag_separator with 32.
  destruct (flags_or (enum_values N cls) (split_on 32 s)) as [z|] eqn:E; [|discriminate]. intros H. inversion H; subst.
  apply flags_or_spec in E. destruct E as [zs [Hf Hz]]. exists zs. rewrite Hz. auto.
Qed.

Definition flags_mask (vs : list enum_value) : Z := fold_left (fun m e => Z.lor m (ev_value e)) vs 0.
Lemma parse_flags_int N cls z x : parse_flags N cls (DInt z) = Ok x ->
  0 <= z /\ Z.land z (flags_mask (enum_values N cls)) = z /\ x = DObj OCodec cls (VInt z).
Proof.
  unfold parse_flags, enum_valid, flags_mask. change flag_neg_op with Lt. change flag_neg_bound with 0. cbn [cmp].
  destruct (z <? 0) eqn:En; [discriminate|].
  destruct ((0 <=? z) && (Z.land z (fold_left (fun m e => Z.lor m (ev_value e)) (enum_values N cls) 0) =? z)) eqn:E; [|discriminate].
  intros H. inversion H. repeat split; lia.
Qed.

Lemma byte_array_ok n raw b : byte_array n raw = Ok b -> b = raw /\ n = Z.of_nat (length raw).
Proof.
  unfold byte_array. change ba_size_op with Ne. cbn [cmp]. destruct (n =? Z.of_nat (length raw)) eqn:E; cbn; intros H; [|discriminate].
  inversion H; subst. split; [reflexivity|lia].
Qed.

Lemma list_ind2 {A} (P : list A -> Prop) : P [] -> (forall a, P [a]) -> (forall a b r, P r -> P (a :: b :: r)) -> forall l, P l.
Proof. intros H0 H1 H2. fix F 1. intros [|a [|b r]]; [exact H0|exact (H1 a)|exact (H2 a b r (F r))]. Qed.

Lemma hex_digit_range c x : hex_digit_val c = Some x -> 0 <= x < 16.
Proof.
  unfold hex_digit_val.
  destruct ((48 <=? c) && (c <=? 57)) eqn:E1; [intros H; inversion H; lia|].
  destruct ((97 <=? c) && (c <=? 102)) eqn:E2; [intros H; inversion H; lia|].
  destruct ((65 <=? c) && (c <=? 70)) eqn:E3; [intros H; inversion H; lia|discriminate].
Qed.

Lemma unhexlify_cons2 a c r : unhexlify (a :: c :: r) =
  match hex_digit_val a, hex_digit_val c, unhexlify r with Some x, Some y, Some t => Some (16 * x + y :: t) | _, _, _ => None end.
Proof. reflexivity. Qed.

(* the accepted hex strings: only hex digits, exactly two per byte *)
Lemma unhexlify_spec s : forall b, unhexlify s = Some b ->
  length s = (2 * length b)%nat /\ Forall (fun c => hex_digit_val c <> None) s /\ wf_bytes b = true.
Proof.
  induction s as [| a | a c r IH] using list_ind2; intros b H.
  - inversion H. repeat split; constructor.
  - discriminate.
  - rewrite unhexlify_cons2 in H. destruct (hex_digit_val a) as [x|] eqn:Ea; [|discriminate]. destruct (hex_digit_val c) as [y|] eqn:Ec; [|discriminate].
    destruct (unhexlify r) as [t|] eqn:Et; [|discriminate]. remember (16 * x + y) as v eqn:Ev. injection H as <-. destruct (IH t eq_refl) as [Hl [Hd Hw]].
    apply hex_digit_range in Ea as Ra. apply hex_digit_range in Ec as Rc.
    split; [cbn [length]; lia|]. split.
    + constructor; [congruence|]. constructor; [congruence|exact Hd].
    + unfold wf_bytes in *. rewrite (eq_refl : forallb is_byte (v :: t) = is_byte v && forallb is_byte t).
      rewrite Hw. unfold is_byte. lia.
Qed.

Lemma parse_sdk_hex N c s x : c <> SdkAddress -> parse_sdk N c (DStr s) = Ok x ->
  exists b, unhexlify s = Some b /\ Z.of_nat (length b) = sdk_size N c /\ x = DObj OSdk (sdk_name c) (VBytes b).
Proof.
  intros Hc. unfold parse_sdk. destruct c; [contradiction| |];
  (destruct (unhexlify s) as [b|] eqn:E; [|discriminate]; intros H; apply bind_ok in H; destruct H as [b' [Hb H]];
   apply byte_array_ok in Hb; destruct Hb as [-> Hn]; inversion H; subst; exists b; repeat split; auto).
Qed.

Lemma parse_sdk_bytes N c raw x : parse_sdk N c (DBytes raw) = Ok x ->
  Z.of_nat (length raw) = sdk_size N c /\ x = DObj OSdk (sdk_name c) (VBytes raw).
Proof.
  unfold parse_sdk. intros H. apply bind_ok in H. destruct H as [b' [Hb H]]. apply byte_array_ok in Hb. destruct Hb as [-> Hn]. inversion H. auto.
Qed.

(* ---------- constructors ---------- *)
Lemma lookup_struct_name tm t s : lookup_struct tm t = Some s -> s_name s = t.
Proof.
  unfold lookup_struct, lookup. destruct (find _ tm) as [[| |s']|] eqn:E; try discriminate. intros H. inversion H; subst.
  apply find_some in E. destruct E as [_ E]. apply String.eqb_eq in E. exact E.
Qed.

(* T() of a struct class: an object of that class carrying exactly the settable members, in schema order *)
Lemma default_of_struct N k t c e : default_of N (S k) t = Ok (VStruct c e) ->
  exists s, lookup_struct (n_tm N) t = Some s /\ c = t /\ map fst e = map f_name (settable_fields s).
Proof.
  cbn [default_of]. unfold lookup_struct. destruct (lookup (n_tm N) t) as [[nm [i|n] cm|nm b vs at_ cm|s]|] eqn:El; try discriminate.
  - destruct vs; discriminate.
  - intros H. apply bind_ok in H. destruct H as [fs [Hfs H]]. inversion H; subst. exists s. split; [reflexivity|].
    split; [apply (lookup_struct_name (n_tm N)); unfold lookup_struct; rewrite El; reflexivity|].
    eapply mapM_map_fst; [|exact Hfs]. intros f y Hy. cbn beta in Hy. apply bind_ok in Hy. destruct Hy as [v [_ Hy]]. inversion Hy. reflexivity.
Qed.

(* members paired with a class constant (type / version) are constructed with that constant *)
Lemma default_of_const N k t c e s f cf : default_of N (S k) t = Ok (VStruct c e) -> lookup_struct (n_tm N) t = Some s ->
  In f (settable_fields s) -> paired_const s f = Some cf -> exists v, const_value N cf = Ok v /\ In (f_name f, v) e.
Proof.
  cbn [default_of]. unfold lookup_struct. destruct (lookup (n_tm N) t) as [[nm [i|n] cm|nm b vs at_ cm|s']|] eqn:El; try discriminate.
  intros H Hs Hin Hp. revert H. inversion Hs; subst s'. intros H. apply bind_ok in H. destruct H as [fs [Hfs H]]. inversion H; subst.
    apply mapM_ok in Hfs. clear H El Hs. induction Hfs as [|g y l l' Hg Hrest IH]; [destruct Hin|].
    destruct Hin as [->|Hin].
    + cbn beta in Hg. rewrite Hp in Hg. apply bind_ok in Hg. destruct Hg as [v [Hv Hg]]. inversion Hg; subst. exists v. split; [exact Hv|left; reflexivity].
    + destruct (IH Hin) as [v [Hv Hi]]. exists v. split; [exact Hv|right; exact Hi].
Qed.

(* ---------- create_from_factory ---------- *)
Lemma conv_str N s : conv N (DStr s) = Ok (DStr s). Proof. reflexivity. Qed.
Lemma conv_value_str N s : conv_value N (DStr s) = Ok (DStr s). Proof. reflexivity. Qed.

Lemma class_of_type_ok N emb t cls : class_of_type N emb t = Ok cls ->
  exists s name, t = DStr s /\ In (name, cls) (n_names N emb) /\ str_is name s = true.
Proof.
  unfold class_of_type. destruct t; try discriminate. destruct (find _ (n_names N emb)) as [[name c]|] eqn:E; [|discriminate].
  intros H. inversion H; subst. apply find_some in E. destruct E as [Hin Hs]. exists s, name. auto.
Qed.

Lemma conv_value_to_str N t s : conv_value N t = Ok (DStr s) -> t = DStr s.
Proof.
  destruct t; cbn; try (intros H; inversion H; reflexivity).
  - destruct v; try (intros H; inversion H; fail).
    destruct (match k with OSdk => String.eqb cls "Address" | OCodec => false end).
    + destruct (n_flavor N); unfold codec_bytes; destruct (lookup _ _) as [[? [|] ?| |]|]; cbn; try discriminate;
      intros H; apply bind_ok in H; destruct H as [? [_ H]]; discriminate.
    + unfold codec_bytes; destruct (lookup _ _) as [[? [|] ?| |]|]; cbn; try discriminate;
      intros H; apply bind_ok in H; destruct H as [? [_ H]]; discriminate.
  - intros H. apply bind_ok in H. destruct H as [? [_ H]]. discriminate.
Qed.

Lemma create_from_factory_ok N emb d v : create_from_factory N emb d = Ok v ->
  exists s cls e0 e',
    assoc type_key d = Some (DStr s) /\ class_of_type N emb (DStr s) = Ok cls /\
    new_instance N cls = Ok (VStruct cls e0) /\ copy_to N cls [type_ignore_key] d e0 = Ok e' /\ v = VStruct cls (auto_encode e').
Proof.
  unfold create_from_factory. destruct (assoc type_key d) as [t|] eqn:Et; [|discriminate]. intros H.
  apply bind_ok in H. destruct H as [t' [Ht' H]]. apply bind_ok in H. destruct H as [cls [Hc H]]. apply bind_ok in H. destruct H as [inst [Hi H]].
  destruct inst as [| | |c e0|]; try discriminate. apply bind_ok in H. destruct H as [e' [He H]]. inversion H; subst.
  destruct (class_of_type_ok _ _ _ _ Hc) as [s [name [-> _]]]. apply conv_value_to_str in Ht'. subst t.
  assert (c = cls) by (unfold new_instance, type_fuel_d in Hi; apply default_of_struct in Hi; destruct Hi as [? [_ [? _]]]; assumption). subst c.
  exists s, cls, e0, e'. auto 10.
Qed.

(* keys other than `type` are live for the top-level copy *)
Lemma live_not_type k : k <> "type" -> live [type_ignore_key] k.
Proof.
  intros Hne. unfold live. change type_ignore_key with "type". cbn [existsb]. destruct (String.eqb k "type") eqn:E; [apply String.eqb_eq in E; contradiction|reflexivity].
Qed.

Lemma assoc_auto_encode e n : assoc n (auto_encode e) = option_map encode_str (assoc n e).
Proof.
  unfold auto_encode, assoc. induction e as [|p r IH]; [reflexivity|].
  cbn [map find fst snd]. destruct (String.eqb (fst p) n); [reflexivity|exact IH].
Qed.
Lemma auto_encode_names e : map fst (auto_encode e) = map fst e.
Proof. unfold auto_encode. rewrite map_map. reflexivity. Qed.

(* ---------- dictionaries ---------- *)
Lemma nodup_snoc {A} (l : list A) k : NoDup l -> ~ In k l -> NoDup (l ++ [k]).
Proof.
  induction l as [|a r IH]; cbn; intros Hnd Hk; [constructor; [intros []|constructor]|]. inversion Hnd; subst. constructor.
  - intros Hin. apply in_app_or in Hin. destruct Hin as [Hin|[Hin|[]]]; [contradiction|]. apply Hk. left; auto.
  - apply IH; auto.
Qed.

Lemma dict_set_nodup d k v : NoDup (map fst d) -> NoDup (map fst (dict_set d k v)).
Proof.
  intros Hnd. unfold dict_set. destruct (existsb (fun p => String.eqb (fst p) k) d) eqn:E.
  - assert (Hm : map fst (map (fun p : string * dval => if String.eqb (fst p) k then (k, v) else p) d) = map fst d).
    { rewrite map_map. apply map_ext_in. intros p _. destruct (String.eqb (fst p) k) eqn:Ek; [apply String.eqb_eq in Ek; cbn; auto|reflexivity]. }
    rewrite Hm. exact Hnd.
  - rewrite map_app. cbn. apply nodup_snoc; [exact Hnd|].
    intros Hin. apply in_map_iff in Hin. destruct Hin as [p [Hp Hin]].
    rewrite <- Bool.not_true_iff_false in E. apply E. apply existsb_exists. exists p. split; [exact Hin|]. rewrite Hp. apply String.eqb_refl.
Qed.

Lemma dict_set_in d k v : In (k, v) (dict_set d k v).
Proof.
  unfold dict_set. destruct (existsb (fun p => String.eqb (fst p) k) d) eqn:E.
  - apply existsb_exists in E. destruct E as [p [Hin Hp]]. apply in_map_iff. exists p. rewrite Hp. auto.
  - apply in_or_app. right. left. reflexivity.
Qed.

Lemma in_map_assoc {A} n (e : list (string * A)) : In n (map fst e) -> exists old, assoc n e = Some old.
Proof.
  intros Hin. destruct (assoc n e) eqn:E; [eauto|]. apply assoc_none_notin in E. contradiction.
Qed.

Lemma live_is_not_type k : live [type_ignore_key] k -> k <> "type".
Proof. unfold live. change type_ignore_key with "type". cbn [existsb]. intros H ->. cbn in H. discriminate. Qed.

(* ---------- create_core: what the created object holds ---------- *)
Theorem create_core_holds N emb ident d v : NoDup (map fst d) -> create_core N emb ident d = Ok v ->
  let d1 := dict_set d (n_network_key N) (DInt ident) in
  exists s name cls e0 e',
    assoc "type" d1 = Some (DStr s) /\ In (name, cls) (n_names N emb) /\ str_is name s = true /\
    new_instance N cls = Ok (VStruct cls e0) /\ v = VStruct cls e' /\ map fst e' = map fst e0 /\
    (forall k dv, In (k, dv) d1 -> k <> "type" ->
       exists f x, member_of N cls k = Some f /\ lookup_value N cls k dv = Ok x /\
                   forall old, assoc (f_name f) e0 = Some old -> vget v (f_name f) = Some (encode_str (stored x old))) /\
    (forall n, (forall k dv f, In (k, dv) d1 -> k <> "type" -> member_of N cls k = Some f -> f_name f <> n) ->
       vget v n = option_map encode_str (assoc n e0)).
Proof.
  intros Hnd H d1. unfold create_core in H. fold d1 in H. apply create_from_factory_ok in H.
  destruct H as [s [cls [e0 [e' [Ht [Hcls [Hi [Hc Hv]]]]]]]]. subst v.
  destruct (class_of_type_ok _ _ _ _ Hcls) as [s' [name [Es [Hin Hs]]]]. inversion Es; subst s'.
  assert (Hnd1 : NoDup (map fst d1)) by (apply dict_set_nodup; exact Hnd).
  unfold copy_to in Hc.
  exists s, name, cls, e0, (auto_encode e'). change type_key with "type" in Ht.
  split; [exact Ht|]. split; [exact Hin|]. split; [exact Hs|]. split; [exact Hi|]. split; [reflexivity|].
  split; [rewrite auto_encode_names; eapply copy_names; eauto|]. split.
  - intros k dv Hkd Hne. destruct (copy_holds N _ cls _ d1 e0 e' Hc Hnd1 k dv Hkd (live_not_type k Hne)) as [f [x [Hm [Hx Hold]]]].
    exists f, x. split; [exact Hm|]. split; [exact Hx|]. intros old Ho. rewrite vget_assoc, assoc_auto_encode, (Hold old Ho). reflexivity.
  - intros n Hn. rewrite vget_assoc, assoc_auto_encode. f_equal. eapply copy_untouched; eauto.
    intros k dv f Hkd Hl Hm. eapply Hn; eauto. apply live_is_not_type. exact Hl.
Qed.

Lemma conv_value_codec_int N c z : conv_value N (DObj OCodec c (VInt z)) = Ok (DObj OCodec c (VInt z)).
Proof. reflexivity. Qed.

Lemma parse_fuel_S : parse_fuel = S 23. Proof. reflexivity. Qed.

Lemma lookup_value_rule N cls k dv r x : rule_for N cls k = Some r -> lookup_value N cls k dv = Ok x ->
  exists y, parse N parse_fuel r dv = Ok y /\ conv_value N y = Ok x.
Proof. unfold lookup_value, lookup_value_with. intros ->. intros H. apply bind_ok in H. exact H. Qed.

(* the network member is the facade's identifier *)
Theorem create_core_network N emb ident d cls e c f :
  NoDup (map fst d) -> create_core N emb ident d = Ok (VStruct cls e) -> n_network_key N <> "type" ->
  rule_for N cls (n_network_key N) = Some (REnum c) -> member_of N cls (n_network_key N) = Some f ->
  vget (VStruct cls e) (f_name f) = Some (VInt ident).
Proof.
  intros Hnd H Hne Hr Hm. destruct (create_core_holds N emb ident d _ Hnd H) as [s [name [cls' [e0 [e' [_ [_ [_ [Hi [Hv [Hnames [Hb _]]]]]]]]]]]].
  inversion Hv; subst cls' e'. clear Hv.
  destruct (Hb (n_network_key N) (DInt ident) (dict_set_in d _ _) Hne) as [f' [x [Hm' [Hx Hold]]]].
  rewrite Hm in Hm'. inversion Hm'; subst f'.
  destruct (lookup_value_rule _ _ _ _ _ _ Hr Hx) as [y [Hy Hcv]]. rewrite parse_fuel_S, parse_step in Hy.
  apply parse_enum_int in Hy. destruct Hy as [_ ->]. rewrite conv_value_codec_int in Hcv. inversion Hcv; subst x.
  assert (Hin : In (f_name f) (map fst e0)).
  { apply member_of_key in Hm. destruct Hm as [_ [st [Hl Hf]]]. unfold new_instance, type_fuel_d in Hi. apply default_of_struct in Hi.
    destruct Hi as [st' [Hl' [_ Hn]]]. rewrite Hl in Hl'. inversion Hl'; subst st'. rewrite Hn. apply in_map. exact Hf. }
  destruct (in_map_assoc _ _ Hin) as [old Ho]. rewrite (Hold old Ho). reflexivity.
Qed.

(* type / version keep the class constants unless the descriptor names them *)
Theorem created_constants N emb ident d cls e s f cf :
  NoDup (map fst d) -> create_core N emb ident d = Ok (VStruct cls e) -> lookup_struct (n_tm N) cls = Some s ->
  In f (settable_fields s) -> paired_const s f = Some cf -> NoDup (map f_name (settable_fields s)) ->
  ~ In (py_name (f_name f)) (map fst (dict_set d (n_network_key N) (DInt ident))) ->
  exists v, const_value N cf = Ok v /\ vget (VStruct cls e) (f_name f) = Some (encode_str v).
Proof.
  intros Hnd H Hs Hf Hp Hnames Hnot. destruct (create_core_holds N emb ident d _ Hnd H) as [s0 [name [cls' [e0 [e' [_ [_ [_ [Hi [Hv [_ [_ Hc]]]]]]]]]]]].
  inversion Hv; subst cls' e'. clear Hv.
  unfold new_instance, type_fuel_d in Hi. destruct (default_of_const _ _ _ _ _ _ _ _ Hi Hs Hf Hp) as [v [Hcv Hin]].
  exists v. split; [exact Hcv|]. rewrite Hc.
  - apply default_of_struct in Hi. destruct Hi as [st [Hl [_ Hn]]]. rewrite Hs in Hl. inversion Hl; subst st.
    assert (Ha : assoc (f_name f) e0 = Some v).
    { clear - Hin Hn Hnames. rewrite <- Hn in Hnames. clear Hn. unfold assoc. induction e0 as [|p r IH]; [destruct Hin|].
      cbn in Hnames. inversion Hnames; subst. cbn [find]. destruct Hin as [->|Hin].
      - cbn [fst]. rewrite String.eqb_refl. reflexivity.
      - destruct (String.eqb (fst p) (f_name f)) eqn:E.
        + apply String.eqb_eq in E. exfalso. apply H1. rewrite E. apply in_map_iff. exists (f_name f, v). auto.
        + apply IH; auto. }
    rewrite Ha. reflexivity.
  - intros k dv f' Hkd _ Hm Heq. apply Hnot. apply member_of_key in Hm. destruct Hm as [Hk _]. rewrite <- Heq, Hk. apply in_map_iff. exists (k, dv). auto.
Qed.

(* ---------- create: what is never accepted ---------- *)
(* one entry (key, value) of a descriptor for class cls that must not yield an object.  Fixed text: literal `_computed`, literal `none`,
   literal separator 32, numeric ranges, exact hex length. *)
Inductive bad_entry (N : netcfg) (cls : string) : string -> dval -> Prop :=
| BadNonMember k d : member_of N cls k = None -> bad_entry N cls k d
| BadComputed k d : ends_with k "_computed" = true -> bad_entry N cls k d
| BadRange k z c nm i cm : rule_for N cls k = Some (RPod c) -> lookup (n_tm N) c = Some (DAlias nm (LInt i) cm) ->
    In (it_size i) [1; 2; 4; 8] -> ~ (0 <= z < 2 ^ (8 * it_size i)) -> bad_entry N cls k (DInt z)
| BadEnumName k s c : rule_for N cls k = Some (REnum c) ->
    (forall e, In e (enum_values N c) -> str_is (lower_string (ev_name e)) s = false) -> bad_entry N cls k (DStr s)
| BadEnumValue k z c : rule_for N cls k = Some (REnum c) -> (forall e, In e (enum_values N c) -> ev_value e <> z) -> bad_entry N cls k (DInt z)
| BadFlagName k s c n : rule_for N cls k = Some (RFlags c) -> In n (split_on 32 s) -> str_is "none" n = false ->
    (forall e, In e (enum_values N c) -> str_is (lower_string (ev_name e)) n = false) -> bad_entry N cls k (DStr s)
| BadFlagValue k z c : rule_for N cls k = Some (RFlags c) -> (z < 0 \/ Z.land z (flags_mask (enum_values N c)) <> z) -> bad_entry N cls k (DInt z)
| BadHex k s c : rule_for N cls k = Some (RSdk c) -> c <> SdkAddress ->
    (forall b, unhexlify s = Some b -> Z.of_nat (length b) <> sdk_size N c) -> bad_entry N cls k (DStr s)
| BadLength k raw c : rule_for N cls k = Some (RSdk c) -> Z.of_nat (length raw) <> sdk_size N c -> bad_entry N cls k (DBytes raw).

Lemma bad_entry_no_value N cls k dv : bad_entry N cls k dv -> ends_with k computed_suffix = false ->
  forall f x, member_of N cls k = Some f -> lookup_value N cls k dv = Ok x -> False.
Proof.
  change computed_suffix with "_computed". intros Hbad Hc f x Hm Hx. destruct Hbad.
  - congruence.
  - congruence.
  - destruct (lookup_value_rule _ _ _ _ _ _ H Hx) as [y [Hy _]]. rewrite parse_fuel_S, parse_step in Hy. apply parse_pod_int in Hy.
    destruct Hy as [nm' [i' [cm' [Hl [Hb _]]]]]. rewrite H0 in Hl. inversion Hl; subst. apply H2. apply base_value_ok_range; assumption.
  - destruct (lookup_value_rule _ _ _ _ _ _ H Hx) as [y [Hy _]]. rewrite parse_fuel_S, parse_step in Hy. apply parse_enum_str in Hy.
    destruct Hy as [e [Hin [Hs _]]]. rewrite (H0 e Hin) in Hs. discriminate.
  - destruct (lookup_value_rule _ _ _ _ _ _ H Hx) as [y [Hy _]]. rewrite parse_fuel_S, parse_step in Hy. apply parse_enum_int in Hy.
    destruct Hy as [[e [Hin He]] _]. exact (H0 e Hin He).
  - destruct (lookup_value_rule _ _ _ _ _ _ H Hx) as [y [Hy _]]. rewrite parse_fuel_S, parse_step in Hy. apply parse_flags_str in Hy.
    destruct Hy as [zs [Hf _]]. clear - Hf H0 H1 H2. induction Hf as [|n' v l l' Hn Hrest IH]; [destruct H0|].
    destruct H0 as [->|Hin]; [|auto]. apply flag_by_name_spec in Hn. destruct Hn as [[Hn _]|[e [Hin [_ [Hs _]]]]]; [congruence|].
    rewrite (H2 e Hin) in Hs. discriminate.
  - destruct (lookup_value_rule _ _ _ _ _ _ H Hx) as [y [Hy _]]. rewrite parse_fuel_S, parse_step in Hy. apply parse_flags_int in Hy.
    destruct Hy as [Hz [Hl _]]. destruct H0; [lia|contradiction].
  - destruct (lookup_value_rule _ _ _ _ _ _ H Hx) as [y [Hy _]]. rewrite parse_fuel_S, parse_step in Hy. apply parse_sdk_hex in Hy; [|assumption].
    destruct Hy as [b [Hu [Hl _]]]. exact (H1 b Hu Hl).
  - destruct (lookup_value_rule _ _ _ _ _ _ H Hx) as [y [Hy _]]. rewrite parse_fuel_S, parse_step in Hy. apply parse_sdk_bytes in Hy.
    destruct Hy as [Hl _]. contradiction.
Qed.

Lemma create_core_of_create N emb autosort ident d v : create N emb autosort ident d = Ok v -> exists v0, create_core N emb ident d = Ok v0.
Proof. unfold create. intros H. apply bind_ok in H. destruct H as [v0 [H0 _]]. eauto. Qed.

Theorem create_rejects N emb autosort ident d :
  let d1 := dict_set d (n_network_key N) (DInt ident) in
  (assoc "type" d1 = None
   \/ (exists s, assoc "type" d1 = Some (DStr s) /\ forall p, In p (n_names N emb) -> str_is (fst p) s = false)
   \/ (exists s cls k dv, assoc "type" d1 = Some (DStr s) /\ class_of_type N emb (DStr s) = Ok cls /\
                          In (k, dv) d1 /\ k <> "type" /\ bad_entry N cls k dv)) ->
  forall v, create N emb autosort ident d <> Ok v.
Proof.
  intros d1 Hbad v H. apply create_core_of_create in H. destruct H as [v0 H]. unfold create_core in H. fold d1 in H.
  apply create_from_factory_ok in H. destruct H as [s [cls [e0 [e' [Ht [Hcl [Hi [Hc _]]]]]]]]. change type_key with "type" in Ht.
  destruct Hbad as [Hnone|[[s' [Ht' Hall]]|[s' [cls' [k [dv [Ht' [Hcls [Hkd [Hne Hb]]]]]]]]]].
  - congruence.
  - rewrite Ht in Ht'. inversion Ht'; subst s'. destruct (class_of_type_ok _ _ _ _ Hcl) as [s' [name [Es [Hin Hs]]]]. inversion Es; subst s'.
    pose proof (Hall (name, cls) Hin) as Hf. cbn [fst] in Hf. congruence.
  - rewrite Ht in Ht'. inversion Ht'; subst s'. assert (cls' = cls) by congruence.
    subst cls'. unfold copy_to in Hc. pose proof (copy_ok_entries N _ cls _ d1 e0 e' Hc) as Hall. rewrite Forall_forall in Hall.
    specialize (Hall (k, dv) Hkd (live_not_type k Hne)). cbn [fst snd] in Hall. destruct Hall as [Hcomp [f [x [Hm Hx]]]].
    exact (bad_entry_no_value N cls k dv Hb Hcomp f x Hm Hx).
Qed.

(* ---------- autosort ---------- *)
Lemma mapM_assoc {A B} (G : string * A -> result B) e : forall e' n a,
  mapM (fun p => bind (G p) (fun x => Ok (fst p, x))) e = Ok e' -> assoc n e = Some a ->
  exists x, G (n, a) = Ok x /\ assoc n e' = Some x.
Proof.
  induction e as [|p r IH]; intros e' n a H Ha; [discriminate|].
  cbn [mapM] in H. apply bind_ok in H. destruct H as [y [Hy H]]. apply bind_ok in H. destruct H as [t [Ht H]]. inversion H; subst e'. clear H.
  apply bind_ok in Hy. destruct Hy as [x [Hx Hy]]. inversion Hy; subst y. clear Hy.
  unfold assoc in *. cbn [find fst] in *. destruct (String.eqb (fst p) n) eqn:E.
  - apply String.eqb_eq in E. inversion Ha; subst a. exists x. split; [|reflexivity]. destruct p; cbn in *; subst; exact Hx.
  - exact (IH t n a Ht Ha).
Qed.

Lemma keys_of_values_length tm a l : forall ks, keys_of_values tm a l = Ok ks -> length ks = length l.
Proof.
  induction l as [|x r IH]; cbn [keys_of_values]; intros ks H; [inversion H; reflexivity|].
  apply bind_ok in H. destruct H as [[kv|] [_ H]]; [|discriminate]. apply bind_ok in H. destruct H as [t [Ht H]]. inversion H; subst. cbn. f_equal. auto.
Qed.

Lemma map_fst_combine_eq {A B} (ks : list A) (l : list B) : length ks = length l -> map fst (combine ks l) = ks.
Proof. revert l. induction ks as [|k r IH]; intros [|x l] H; cbn in *; try discriminate; [reflexivity|]. f_equal. apply IH. lia. Qed.

(* one keyed array member of a sorted object *)
Lemma sort_value_keyed N k cls e v' s n f a key l :
  sort_value N (S k) (VStruct cls e) = Ok v' -> lookup_struct (n_tm N) cls = Some s ->
  find_field (non_const (s_fields s)) n = Some f -> f_type f = FArray a -> a_sort_key a = Some key -> assoc n e = Some (VArr l) ->
  exists ks, keys_of_values (n_tm N) a l = Ok ks /\ vget v' n = Some (VArr (sort_values ks l)).
Proof.
  intros H Hs Hf Ht Hk Ha. cbn [sort_value] in H. rewrite Hs in H. apply bind_ok in H. destruct H as [e' [He H]]. inversion H; subst v'. clear H.
  eapply mapM_assoc in He; [|exact Ha]. destruct He as [x [Hx Hax]]. cbn [fst snd] in Hx. rewrite Hf, Ht, Hk in Hx.
  apply bind_ok in Hx. destruct Hx as [ks [Hks Hx]]. inversion Hx; subst x. exists ks. split; [exact Hks|]. rewrite vget_assoc. exact Hax.
Qed.

Lemma sorted_strict ks (l : list value) : length ks = length l -> shape_ok ks -> NoDup ks ->
  StronglySorted (fun p q => key_lt_spec (fst p) (fst q) = true) (sort_pairs key_lt (combine ks l)).
Proof.
  intros Hl Hs Hn. apply sort_strict_now; unfold distinct_keys; rewrite (map_fst_combine_eq ks l Hl); assumption.
Qed.

(* ---------- what extend touches ---------- *)
Lemma vget_vset_other v m x n : n <> m -> vget (vset v m x) n = vget v n.
Proof.
  intros Hne. destruct v; try reflexivity. rewrite !vget_assoc. apply (assoc_upd_other fs m n x). congruence.
Qed.
Lemma vget_vset_same v m x old : vget v m = Some old -> vget (vset v m x) m = Some x.
Proof.
  destruct v; try discriminate. rewrite !vget_assoc. apply (assoc_upd_same fs m x old).
Qed.

Lemma sym_extend_spec N ident v v' : sym_extend N ident v = Ok v' ->
  v' = v \/ exists x, v' = vset v "id" x.
Proof.
  unfold sym_extend.
  destruct (enum_member N "TransactionType" "NAMESPACE_REGISTRATION") as [t_ns|]; [|discriminate].
  destruct (enum_member N "TransactionType" "MOSAIC_DEFINITION") as [t_md|]; [|discriminate].
  destruct (enum_member N "NamespaceRegistrationType" "CHILD") as [child|]; [|discriminate].
  destruct (vget v "type") as [[t| | | |]|]; try (intros H; inversion H; left; reflexivity).
  destruct (t =? t_ns).
  - intros H. apply bind_ok in H. destruct H as [parent [_ H]]. destruct (vget v "name") as [[|nm| | |]|]; try discriminate. inversion H. right. eauto.
  - destruct (t =? t_md); [|intros H; inversion H; left; reflexivity].
    destruct (vget v "signer_public_key") as [[|pk| | |]|]; try discriminate. destruct (vget v "nonce") as [[nonce| | | |]|]; try discriminate.
    intros H. apply bind_ok in H. destruct H as [addr [_ H]]. inversion H. right. eauto.
Qed.

Lemma sym_extend_other N ident v v' n : sym_extend N ident v = Ok v' -> n <> "id" -> vget v' n = vget v n.
Proof.
  intros H Hne. apply sym_extend_spec in H. destruct H as [->|[x ->]]; [reflexivity|]. apply vget_vset_other. exact Hne.
Qed.

Lemma nem_extend_other N v v' n : nem_extend N v = Ok v' -> n <> "message" -> vget v' n = vget v n.
Proof.
  unfold nem_extend. destruct (enum_member N "TransactionType" "TRANSFER") as [t_tr|]; [|discriminate].
  destruct (vget v "type") as [[t| | | |]|]; try (intros H; inversion H; reflexivity).
  destruct (t =? t_tr); [|intros H; inversion H; reflexivity].
  destruct (vget v "message") as [[| | |mc me|]|]; try discriminate; intros H Hne; inversion H; try reflexivity.
  apply vget_vset_other. exact Hne.
Qed.

Lemma extend_other N ident v v' n : extend N ident v = Ok v' -> n <> "id" -> n <> "message" -> vget v' n = vget v n.
Proof.
  unfold extend. destruct (n_flavor N); intros H H1 H2; [eapply sym_extend_other|eapply nem_extend_other]; eauto.
Qed.

Lemma create_stages N emb autosort ident d v' : create N emb autosort ident d = Ok v' ->
  exists v0 v1, create_core N emb ident d = Ok v0 /\ (if autosort then sort_value N type_fuel_d v0 else Ok v0) = Ok v1 /\ extend N ident v1 = Ok v'.
Proof.
  unfold create. intros H. apply bind_ok in H. destruct H as [v0 [H0 H]]. apply bind_ok in H. destruct H as [v1 [H1 H]]. eauto.
Qed.

(* with automatic sorting on, every keyed array of the created transaction is the stable sort of what the descriptor gave,
   strictly ascending under the declared comparer when the keys are distinct *)
Theorem autosort_canonical N emb ident d v' : create N emb true ident d = Ok v' ->
  exists cls e0, create_core N emb ident d = Ok (VStruct cls e0) /\
  forall s n f a key l, lookup_struct (n_tm N) cls = Some s -> find_field (non_const (s_fields s)) n = Some f ->
    f_type f = FArray a -> a_sort_key a = Some key -> assoc n e0 = Some (VArr l) -> n <> "id" -> n <> "message" ->
    exists ks, keys_of_values (n_tm N) a l = Ok ks /\
               vget v' n = Some (VArr (map snd (sort_pairs key_lt (combine ks l)))) /\
               (shape_ok ks -> NoDup ks -> StronglySorted (fun p q => key_lt_spec (fst p) (fst q) = true) (sort_pairs key_lt (combine ks l))).
Proof.
  intros H. apply create_stages in H. destruct H as [v0 [v1 [H0 [H1 H2]]]].
  assert (Hc := H0). unfold create_core in Hc. apply create_from_factory_ok in Hc. destruct Hc as [s0 [cls [e0 [e' [_ [_ [_ [_ Hv]]]]]]]]. subst v0.
  exists cls, (auto_encode e'). split; [exact H0|]. intros s n f a key l Hs Hf Ht Hk Ha Hn1 Hn2.
  unfold type_fuel_d in H1. destruct (sort_value_keyed _ _ _ _ _ _ _ _ _ _ _ H1 Hs Hf Ht Hk Ha) as [ks [Hks Hg]].
  exists ks. split; [exact Hks|]. split.
  - rewrite (extend_other _ _ _ _ n H2 Hn1 Hn2). exact Hg.
  - intros Hshape Hnd. apply sorted_strict; [eapply keys_of_values_length; eauto|exact Hshape|exact Hnd].
Qed.

(* ---------- artifact ids ---------- *)
Lemma sym_extend_namespace N ident v v' t_ns t_md child :
  enum_member N "TransactionType" "NAMESPACE_REGISTRATION" = Some t_ns -> enum_member N "TransactionType" "MOSAIC_DEFINITION" = Some t_md ->
  enum_member N "NamespaceRegistrationType" "CHILD" = Some child ->
  sym_extend N ident v = Ok v' -> vget v "type" = Some (VInt t_ns) ->
  exists nm parent, vget v "name" = Some (VBytes nm) /\
    ((vget v "registration_type" = Some (VInt child) /\ vget v "parent_id" = Some (VInt parent)) \/
     (vget v "registration_type" <> Some (VInt child) /\ parent = 0)) /\
    v' = vset v "id" (VInt (generate_namespace_id sha3_256 nm parent)).
Proof.
  intros E1 E2 E3 H Ht. unfold sym_extend in H. rewrite E1, E2, E3, Ht, Z.eqb_refl in H. change sym_root_parent with 0 in H.
  apply bind_ok in H. destruct H as [parent [Hp H]]. destruct (vget v "name") as [[|nm| | |]|]; try discriminate. inversion H; subst v'.
  exists nm, parent. split; [reflexivity|]. split; [|reflexivity].
  destruct (vget v "registration_type") as [[rt| | | |]|]; try (inversion Hp; right; split; [congruence|reflexivity]).
  destruct (rt =? child) eqn:Er.
  - apply Z.eqb_eq in Er. subst rt. destruct (vget v "parent_id") as [[p| | | |]|]; try discriminate. inversion Hp; subst. left. auto.
  - inversion Hp. right. split; [|reflexivity]. intros Hc. inversion Hc; subst. rewrite Z.eqb_refl in Er. discriminate.
Qed.

Lemma sym_extend_mosaic N ident v v' t_ns t_md child :
  enum_member N "TransactionType" "NAMESPACE_REGISTRATION" = Some t_ns -> enum_member N "TransactionType" "MOSAIC_DEFINITION" = Some t_md ->
  enum_member N "NamespaceRegistrationType" "CHILD" = Some child -> t_md <> t_ns ->
  sym_extend N ident v = Ok v' -> vget v "type" = Some (VInt t_md) ->
  exists pk nonce addr, vget v "signer_public_key" = Some (VBytes pk) /\ vget v "nonce" = Some (VInt nonce) /\
    public_key_to_address_now Symbol ident pk = Ok addr /\ v' = vset v "id" (VInt (generate_mosaic_id sha3_256 addr nonce)).
Proof.
  intros E1 E2 E3 Hne H Ht. unfold sym_extend in H. rewrite E1, E2, E3, Ht in H.
  destruct (t_md =? t_ns) eqn:E; [apply Z.eqb_eq in E; contradiction|]. rewrite Z.eqb_refl in H.
  destruct (vget v "signer_public_key") as [[|pk| | |]|]; try discriminate. destruct (vget v "nonce") as [[nonce| | | |]|]; try discriminate.
  apply bind_ok in H. destruct H as [addr [Ha H]]. inversion H. exists pk, nonce, addr. auto.
Qed.

Section Ids.
Variable N : netcfg.
Hypothesis N_symbol : n_flavor N = Symbol.
Variables t_ns t_md child : Z.
Hypothesis E_ns : enum_member N "TransactionType" "NAMESPACE_REGISTRATION" = Some t_ns.
Hypothesis E_md : enum_member N "TransactionType" "MOSAIC_DEFINITION" = Some t_md.
Hypothesis E_child : enum_member N "NamespaceRegistrationType" "CHILD" = Some child.
Hypothesis E_ne : t_md <> t_ns.

Lemma create_last_stage emb autosort ident d v' : create N emb autosort ident d = Ok v' -> exists v1, sym_extend N ident v1 = Ok v'.
Proof. intros H. apply create_stages in H. destruct H as [_ [v1 [_ [_ H]]]]. unfold extend in H. rewrite N_symbol in H. eauto. Qed.

(* the id of a created namespace registration is the hash of its own name under its own parent (root: 0) *)
Theorem namespace_id_filled emb autosort ident d v' :
  create N emb autosort ident d = Ok v' -> vget v' "type" = Some (VInt t_ns) -> vget v' "id" <> None ->
  exists nm parent, vget v' "name" = Some (VBytes nm) /\
    ((vget v' "registration_type" = Some (VInt child) /\ vget v' "parent_id" = Some (VInt parent)) \/
     (vget v' "registration_type" <> Some (VInt child) /\ parent = 0)) /\
    vget v' "id" = Some (VInt (namespace_id_spec sha3_256 nm parent)).
Proof.
  intros H Ht Hid. destruct (create_last_stage _ _ _ _ _ H) as [v1 H1].
  assert (Ho : forall n, n <> "id" -> vget v' n = vget v1 n) by (intros; eapply sym_extend_other; eauto).
  rewrite (Ho "type") in Ht by discriminate.
  destruct (sym_extend_namespace _ _ _ _ _ _ _ E_ns E_md E_child H1 Ht) as [nm [parent [Hn [Hp Hv]]]].
  exists nm, parent. rewrite (Ho "name"), (Ho "registration_type"), (Ho "parent_id") by discriminate.
  split; [exact Hn|]. split; [exact Hp|]. subst v'.
  destruct (vget v1 "id") as [old|] eqn:Eo.
  - rewrite (vget_vset_same v1 "id" _ old Eo). rewrite (namespace_id_def sha3_256 sha3_256_wf). reflexivity.
  - exfalso. apply Hid. destruct v1; try reflexivity. rewrite vget_assoc in *. unfold vset. rewrite vget_assoc.
    change (map (fun p : string * value => if String.eqb (fst p) "id" then ("id", VInt (generate_namespace_id sha3_256 nm parent)) else p) fs)
      with (upd fs "id" (VInt (generate_namespace_id sha3_256 nm parent))).
    destruct (assoc "id" (upd fs "id" (VInt (generate_namespace_id sha3_256 nm parent)))) eqn:E; [|reflexivity].
    apply assoc_in in E. apply (in_map fst) in E. rewrite upd_names in E. cbn [fst] in E. apply assoc_none_notin in Eo. contradiction.
Qed.

(* the id of a created mosaic definition is the hash of its own nonce and of the address of its own signer on the facade's network *)
Theorem mosaic_id_filled emb autosort ident d v' :
  create N emb autosort ident d = Ok v' -> vget v' "type" = Some (VInt t_md) -> vget v' "id" <> None ->
  exists pk nonce addr, vget v' "signer_public_key" = Some (VBytes pk) /\ vget v' "nonce" = Some (VInt nonce) /\
    public_key_to_address_now Symbol ident pk = Ok addr /\
    vget v' "id" = Some (VInt (mosaic_id_spec sha3_256 addr nonce)).
Proof.
  intros H Ht Hid. destruct (create_last_stage _ _ _ _ _ H) as [v1 H1].
  assert (Ho : forall n, n <> "id" -> vget v' n = vget v1 n) by (intros; eapply sym_extend_other; eauto).
  rewrite (Ho "type") in Ht by discriminate.
  destruct (sym_extend_mosaic _ _ _ _ _ _ _ E_ns E_md E_child E_ne H1 Ht) as [pk [nonce [addr [Hk [Hn [Ha Hv]]]]]].
  exists pk, nonce, addr. rewrite (Ho "signer_public_key"), (Ho "nonce") by discriminate.
  split; [exact Hk|]. split; [exact Hn|]. split; [exact Ha|]. subst v'.
  destruct (vget v1 "id") as [old|] eqn:Eo.
  - rewrite (vget_vset_same v1 "id" _ old Eo). rewrite (mosaic_id_def sha3_256 sha3_256_wf). reflexivity.
  - exfalso. apply Hid. destruct v1; try reflexivity. rewrite vget_assoc in *. unfold vset. rewrite vget_assoc.
    change (map (fun p : string * value => if String.eqb (fst p) "id" then ("id", VInt (generate_mosaic_id sha3_256 addr nonce)) else p) fs)
      with (upd fs "id" (VInt (generate_mosaic_id sha3_256 addr nonce))).
    destruct (assoc "id" (upd fs "id" (VInt (generate_mosaic_id sha3_256 addr nonce)))) eqn:E; [|reflexivity].
    apply assoc_in in E. apply (in_map fst) in E. rewrite upd_names in E. cbn [fst] in E. apply assoc_none_notin in Eo. contradiction.
Qed.
End Ids.

(* ---------- composition with the codec ---------- *)
(* every created transaction is an object of a class the entry point's create_by_name knows *)
Theorem created_class N emb autosort ident d v : create N emb autosort ident d = Ok v ->
  exists cls e, v = VStruct cls e /\ In cls (map snd (n_names N emb)).
Proof.
  intros H. apply create_stages in H. destruct H as [v0 [v1 [H0 [H1 H2]]]].
  unfold create_core in H0. apply create_from_factory_ok in H0. destruct H0 as [s [cls [e0 [e' [_ [Hc [_ [_ Hv]]]]]]]]. subst v0.
  destruct (class_of_type_ok _ _ _ _ Hc) as [s' [name [_ [Hin _]]]].
  assert (Hcls : exists e1, v1 = VStruct cls e1).
  { destruct autosort; [|inversion H1; eauto]. unfold type_fuel_d in H1. cbn [sort_value] in H1.
    destruct (lookup_struct (n_tm N) cls); [|discriminate]. apply bind_ok in H1. destruct H1 as [e1 [_ H1]]. inversion H1. eauto. }
  destruct Hcls as [e1 ->].
  assert (Hv : exists e2, v = VStruct cls e2).
  { unfold extend in H2. destruct (n_flavor N).
    - apply sym_extend_spec in H2. destruct H2 as [->|[x ->]]; cbn [vset]; eauto.
    - unfold nem_extend in H2. destruct (enum_member N "TransactionType" "TRANSFER"); [|discriminate].
      destruct (vget (VStruct cls e1) "type") as [[t| | | |]|]; try (inversion H2; eauto; fail).
      destruct (t =? z); [|inversion H2; eauto].
      destruct (vget (VStruct cls e1) "message") as [[| | |mc me|]|]; try discriminate; inversion H2; cbn [vset]; eauto. }
  destruct Hv as [e2 ->]. exists cls, e2. split; [reflexivity|]. apply in_map_iff. exists (name, cls). auto.
Qed.

(* ---------- the documented forms, as a check on the regenerated tables ---------- *)
Fixpoint rule_eqb (a b : rule) : bool :=
  match a, b with
  | RPod x, RPod y | REnum x, REnum y | RFlags x, RFlags y | RStruct x, RStruct y => String.eqb x y
  | RSdk SdkAddress, RSdk SdkAddress | RSdk SdkHash256, RSdk SdkHash256 | RSdk SdkPublicKey, RSdk SdkPublicKey => true
  | RArray x, RArray y => rule_eqb x y
  | _, _ => false
  end.
(* README / examples: numbers for integer types, names for enums and flags, hex strings for keys and hashes, base32 strings for addresses *)
Definition documented_rule_of_type (tm : list decl) (t : string) : option rule :=
  match lookup tm t with
  | Some (DAlias _ (LInt _) _) => Some (RPod t)
  | Some (DEnum _ _ _ at_ _) => Some (if is_bitwise at_ then RFlags t else REnum t)
  | Some (DAlias _ (LBuffer _) _) =>
    if String.eqb t "PublicKey" || String.eqb t "VotingPublicKey" then Some (RSdk SdkPublicKey)
    else if String.eqb t "Hash256" then Some (RSdk SdkHash256)
    else if String.eqb t "Address" || String.eqb t "UnresolvedAddress" then Some (RSdk SdkAddress)
    else None
  | _ => None
  end.
Definition documented_rule (tm : list decl) (f : field) : option rule :=
  match f_type f with
  | FName t => documented_rule_of_type tm t
  | FArray a => match a_elem a with
                | ElName t => match documented_rule_of_type tm t with Some r => Some (RArray r) | None => None end
                | ElInt _ => None
                end
  | FInt _ => None
  end.
(* TYPE_HINTS as the schema determines them (generator: printers' type_hint) *)
Definition schema_hint (tm : list decl) (f : field) : option string :=
  match f_type f with
  | FInt _ => None
  | FArray a => match a_elem a with ElName t => Some ("array[" ++ t ++ "]")%string | ElInt _ => Some "bytes_array" end
  | FName t =>
    match lookup tm t with
    | Some (DAlias _ _ _) => Some ("pod:" ++ t)%string
    | Some (DEnum _ _ _ _ _) => Some ("enum:" ++ t)%string
    | Some (DStruct _) => Some ("struct:" ++ t)%string
    | None => None
    end
  end.
Definition opt_string_eqb (a b : option string) : bool :=
  match a, b with Some x, Some y => String.eqb x y | None, None => true | _, _ => false end.
(* all classes an entry point can create: known structs whose members have the documented rules and the schema's hints *)
Definition tables_documented (N : netcfg) : bool :=
  forallb (fun emb =>
    forallb (fun p =>
      match lookup_struct (n_tm N) (snd p) with
      | Some s =>
        forallb (fun f =>
          opt_string_eqb (assoc (py_name (f_name f)) (hints_of N (snd p))) (schema_hint (n_tm N) f)
          && match documented_rule (n_tm N) f with
             | Some r => match rule_for N (snd p) (py_name (f_name f)) with Some r' => rule_eqb r r' | None => false end
             | None => true
             end) (settable_fields s)
        && Nat.eqb (length (hints_of N (snd p))) (length (filter (fun f => match schema_hint (n_tm N) f with Some _ => true | None => false end) (settable_fields s)))
      | None => false
      end) (n_names N emb)) [false; true].
(* autodetect() finds exactly the integer aliases (BaseValue subclasses) and the enums (Enum / Flag subclasses) of the schema *)
Definition autodetect_matches_schema (N : netcfg) : bool :=
  let expected := flat_map (fun d => match d with
                                     | DAlias n (LInt _) _ => [(n, "pod")]
                                     | DEnum n _ _ at_ _ => [(n, if is_bitwise at_ then "flags" else "enum")]
                                     | _ => []
                                     end) (n_tm N) in
  Nat.eqb (length expected) (length (n_autodetect N))
  && forallb (fun p => match assoc (fst p) (n_autodetect N) with Some k => String.eqb k (snd p) | None => false end) expected.

(* ---------- composite statements used by Props/C10.v ---------- *)
Lemma forall2_impl {A B} (P Q : A -> B -> Prop) l l' : (forall a b, P a b -> Q a b) -> Forall2 P l l' -> Forall2 Q l l'.
Proof. intros Hpq H. induction H; constructor; auto. Qed.

Lemma parse_flags_names N cls s x : parse_flags N cls (DStr s) = Ok x ->
  exists zs, Forall2 (fun n v => (str_is "none" n = true /\ v = 0) \/
                                 (exists e, In e (enum_values N cls) /\ is_single_bit (ev_value e) = true
                                            /\ str_is (lower_string (ev_name e)) n = true /\ ev_value e = v)) (split_on 32 s) zs
             /\ x = DObj OCodec cls (VInt (fold_right Z.lor 0 zs)).
Proof.
  intros H. apply parse_flags_str in H. destruct H as [zs [Hf Hx]]. exists zs. split; [|exact Hx].
  eapply forall2_impl; [|exact Hf]. intros n v Hn. apply flag_by_name_spec. exact Hn.
Qed.

Lemma parse_pod_spec N cls z x : parse_pod N cls (DInt z) = Ok x ->
  exists nm i cm, lookup (n_tm N) cls = Some (DAlias nm (LInt i) cm) /\ x = DObj OCodec cls (VInt z)
                  /\ (In (it_size i) [1; 2; 4; 8] -> 0 <= z < 2 ^ (8 * it_size i)).
Proof.
  intros H. apply parse_pod_int in H. destruct H as [nm [i [cm [Hl [Hb Hx]]]]]. exists nm, i, cm. split; [exact Hl|]. split; [exact Hx|].
  intros Hin. apply base_value_ok_range; assumption.
Qed.

Lemma parse_sdk_hex_spec N c s x : c <> SdkAddress -> parse_sdk N c (DStr s) = Ok x ->
  exists b, unhexlify s = Some b /\ Z.of_nat (length b) = sdk_size N c /\ x = DObj OSdk (sdk_name c) (VBytes b)
            /\ length s = (2 * length b)%nat /\ Forall (fun ch => hex_digit_val ch <> None) s /\ wf_bytes b = true.
Proof.
  intros Hc H. apply parse_sdk_hex in H; [|exact Hc]. destruct H as [b [Hu [Hl Hx]]]. exists b. split; [exact Hu|]. split; [exact Hl|]. split; [exact Hx|].
  apply unhexlify_spec. exact Hu.
Qed.
