(* symbolchain/symbol/IdGenerator.py, Metadata.py and the namespace-alias half of symbol/Network.py (Address).
   Constants and operators come from Gen/IdsOps.v, which the translator rewrites from /repo on every run. *)
From Symv Require Export Base.PyOps Gen.IdsOps.
Open Scope Z_scope.

Definition name_extra_chars : list Z := [name_extra_1; name_extra_2].

Section WithHash.
Variable H : bytes -> bytes.   (* hashlib.sha3_256(..).digest() *)

Definition generate_mosaic_id (owner_address : bytes) (nonce : Z) : Z :=
  let digest := H (int_to_bytes mosaic_nonce_order mosaic_nonce_w nonce ++ owner_address) in
  let result := int_from_bytes mosaic_dig_order (slice mosaic_dig_lo mosaic_dig_hi digest) in
  if ev2 mosaic_test_op result ns_flag =? 0 then result else ev2 mosaic_upd_op result ns_flag.

Definition generate_namespace_id (name : bytes) (parent : Z) : Z :=
  let digest := H (int_to_bytes ns_parent_order ns_parent_w parent ++ name) in
  let result := int_from_bytes ns_dig_order (slice ns_dig_lo ns_dig_hi digest) in
  ev2 ns_set_op result ns_flag.

(* names are sequences of code points; for valid names (ASCII) the utf8 encoding is the same sequence *)
Definition is_alphanum (ch : Z) : bool :=
  (cmp alnum_op1 alnum_a ch && cmp alnum_op2 ch alnum_z) || (cmp alnum_op3 alnum_0 ch && cmp alnum_op4 ch alnum_9).

Definition is_valid_namespace_name (name : list Z) : bool :=
  match name with
  | [] => false
  | c :: _ => is_alphanum c && forallb (fun ch => is_alphanum ch || existsb (Z.eqb ch) name_extra_chars) name
  end.

(* str.split(sep): always at least one part *)
Fixpoint split_on (sep : Z) (s : list Z) : list (list Z) :=
  match s with
  | [] => [[]]
  | c :: r => if c =? sep then [] :: split_on sep r
              else match split_on sep r with p :: ps => (c :: p) :: ps | [] => [[c]] end
  end.

Fixpoint namespace_path_from (parent : Z) (parts : list (list Z)) : option (list Z) :=
  match parts with
  | [] => Some []
  | p :: ps =>
    if is_valid_namespace_name p then
      let id := generate_namespace_id p parent in
      match namespace_path_from id ps with Some r => Some (id :: r) | None => None end
    else None
  end.

Definition generate_namespace_path (fqn : list Z) : option (list Z) :=
  namespace_path_from path_root_parent (split_on path_sep fqn).

Definition generate_mosaic_alias_id (fqn : list Z) : option Z :=
  match generate_namespace_path fqn with Some p => Some (last p 0) | None => None end.

Definition metadata_generate_key (seed : bytes) : Z :=
  let key_bytes := firstn md_n (H seed) in
  int_from_bytes md_order (update_nth md_idx (fun b => ev2 md_op b md_mask) key_bytes).

End WithHash.

Definition metadata_update_value (old_value new_value : bytes) : bytes :=
  match old_value with
  | [] => new_value
  | _ =>
    let shorter := Nat.min (length old_value) (length new_value) in
    let is_new_shorter := cmp md_len_op (Z.of_nat (length old_value)) (Z.of_nat (length new_value)) in
    map (fun p => ev2 md_xor_op (fst p) (snd p)) (combine (firstn shorter old_value) (firstn shorter new_value))
    ++ skipn shorter (if is_new_shorter then old_value else new_value)
  end.

(* how the chain applies an update payload: xor with zero extension, then truncate to the new length *)
Fixpoint xor_pad (a b : bytes) : bytes :=
  match a, b with
  | x :: a', y :: b' => Z.lxor x y :: xor_pad a' b'
  | [], _ => b
  | _, [] => a
  end.
Definition apply_update (old_value payload : bytes) (new_length : nat) : bytes := firstn new_length (xor_pad old_value payload).

Definition address_to_namespace_id (addr : bytes) : option Z :=
  if ev2 alias_test_op (nth alias_test_idx addr 0) alias_test_mask =? 0 then None
  else Some (int_from_bytes alias_order (slice alias_lo alias_hi addr)).

Definition address_from_namespace_id (id : Z) (network_identifier : Z) : bytes :=
  [ev2 alias_inc_op network_identifier alias_inc] ++ int_to_bytes alias_w_order alias_w id
  ++ repeat alias_fill (Z.to_nat (ev2 alias_fill_op address_size alias_used)).
