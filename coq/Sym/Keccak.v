(* Keccak-f[1600] sponge over Z lanes: SHA3-256/512 (pad 0x06) and original Keccak-256/512 (pad 0x01). *)
From Symv Require Export Base.Bytes.
Open Scope Z_scope.

Definition M64 : Z := 18446744073709551615.
Definition rol64 (x : Z) (n : Z) : Z :=
  if n =? 0 then x else Z.land (Z.lor (Z.shiftl x n) (Z.shiftr x (64 - n))) M64.

Definition RC : list Z :=
  [0x0000000000000001; 0x0000000000008082; 0x800000000000808A; 0x8000000080008000; 0x000000000000808B; 0x0000000080000001;
   0x8000000080008081; 0x8000000000008009; 0x000000000000008A; 0x0000000000000088; 0x0000000080008009; 0x000000008000000A;
   0x000000008000808B; 0x800000000000008B; 0x8000000000008089; 0x8000000000008003; 0x8000000000008002; 0x8000000000000080;
   0x000000000000800A; 0x800000008000000A; 0x8000000080008081; 0x8000000000008080; 0x0000000080000001; 0x8000000080008008].

(* state: 25 lanes, index x + 5*y *)
Definition lane (a : list Z) (x y : nat) : Z := nth (x + 5 * y) a 0.
(* rotation offsets indexed x + 5*y *)
Definition ROT : list Z :=
  [0; 1; 62; 28; 27;  36; 44; 6; 55; 20;  3; 10; 43; 25; 39;  41; 45; 15; 21; 8;  18; 2; 61; 56; 14].

Definition idx5 : list nat := [0; 1; 2; 3; 4]%nat.
Definition idx25 : list (nat * nat) := flat_map (fun y => map (fun x => (x, y)) idx5) idx5.  (* order: x + 5y ascending *)

Definition keccak_round (a : list Z) (rc : Z) : list Z :=
  let c := map (fun x => Z.lxor (lane a x 0) (Z.lxor (lane a x 1) (Z.lxor (lane a x 2) (Z.lxor (lane a x 3) (lane a x 4))))) idx5 in
  let d := map (fun x => Z.lxor (nth ((x + 4) mod 5) c 0) (rol64 (nth ((x + 1) mod 5) c 0) 1)) idx5 in
  let a1 := map (fun xy => Z.lxor (lane a (fst xy) (snd xy)) (nth (fst xy) d 0)) idx25 in
  (* B[y][(2x+3y)%5] = rol(A[x][y]) ; so B[X][Y] = rol(A[x][y]) where y = X, x = (X + 3Y) mod 5 *)
  let b := map (fun XY => let X := fst XY in let Y := snd XY in
                          let x := ((X + 3 * Y) mod 5)%nat in let y := X in
                          rol64 (lane a1 x y) (nth (x + 5 * y) ROT 0)) idx25 in
  let a2 := map (fun xy => let x := fst xy in let y := snd xy in
                           Z.lxor (lane b x y) (Z.land (Z.lxor (lane b ((x + 1) mod 5) y) M64) (lane b ((x + 2) mod 5) y))) idx25 in
  match a2 with
  | h :: t => Z.lxor h rc :: t
  | [] => []
  end.

Definition keccak_f (a : list Z) : list Z := fold_left keccak_round RC a.

Definition absorb_block (rate : nat) (a : list Z) (blk : bytes) : list Z :=
  let lanes := map from_le (chunks 8 blk) in
  keccak_f (map (fun i => Z.lxor (nth i a 0) (nth i lanes 0)) (seq 0 25)).

Definition pad_msg (rate : nat) (padb : Z) (m : bytes) : bytes :=
  let q := (rate - (length m mod rate))%nat in   (* 1..rate *)
  match q with
  | 1%nat => m ++ [Z.lor padb 128]
  | _ => m ++ [padb] ++ zeros (q - 2) ++ [128]
  end.

Definition sponge (rate : nat) (padb : Z) (outlen : nat) (m : bytes) : bytes :=
  let st := fold_left (absorb_block rate) (chunks rate (pad_msg rate padb m)) (repeat 0 25) in
  firstn outlen (flat_map (to_le 8) st).

Definition sha3_256 := sponge 136 6 32.
Definition sha3_512 := sponge 72 6 64.
Definition keccak_256 := sponge 136 1 32.
Definition keccak_512 := sponge 72 1 64.
