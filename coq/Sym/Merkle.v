(* symbolchain/symbol/Merkle.py, BufferReader.py and the hashing half of facade/SymbolFacade.py / facade/NemFacade.py.
   Model file: definitions only.  Constants and operators come from Gen/MerkleOps.v, which the translator rewrites from
   /repo on every run.  Python ints are Z, bytes are list Z, list indexing follows Python (negative indices, IndexError). *)
From Symv Require Export Base.PyOps Gen.MerkleOps.
Open Scope Z_scope.

Definition index_error : string := "IndexError".
Definition fuel_error : string := "out-of-fuel".
Definition attribute_error : string := "AttributeError".

(* ---- Python sequence access ---- *)
Definition py_index {A} (l : list A) (i : Z) : option nat :=
  let n := Z.of_nat (length l) in
  if (0 <=? i) && (i <? n) then Some (Z.to_nat i)
  else if (i <? 0) && (0 <=? n + i) then Some (Z.to_nat (n + i))
  else None.

Definition py_get {A} (l : list A) (i : Z) : option A :=
  match py_index l i with Some k => nth_error l k | None => None end.

Fixpoint set_nth {A} (k : nat) (v : A) (l : list A) : list A :=
  match l, k with
  | [], _ => []
  | _ :: r, O => v :: r
  | x :: r, S k' => x :: set_nth k' v r
  end.

Definition py_set {A} (l : list A) (i : Z) (v : A) : option (list A) :=
  match py_index l i with Some k => Some (set_nth k v l) | None => None end.

(* l[lo:hi] with Python's clipping and negative-index rules *)
Definition py_slice_bound (len x : Z) : Z := if x <? 0 then Z.max 0 (len + x) else Z.min x len.
Definition py_slice {A} (l : list A) (lo hi : Z) : list A :=
  let len := Z.of_nat (length l) in
  slice (Z.to_nat (py_slice_bound len lo)) (Z.to_nat (py_slice_bound len hi)) l.

Fixpoint bytes_eqb (a b : bytes) : bool :=
  match a, b with
  | [], [] => true
  | x :: a', y :: b' => (x =? y) && bytes_eqb a' b'
  | _, _ => false
  end.

(* == / != between two byte strings (or two strings of hex digits) *)
Definition cmp_bytes (o : pyop) (a b : bytes) : bool :=
  match o with Eq => bytes_eqb a b | Ne => negb (bytes_eqb a b) | _ => false end.

Fixpoint is_prefix (p l : list Z) : bool :=
  match p, l with
  | [], _ => true
  | x :: p', y :: l' => (x =? y) && is_prefix p' l'
  | _ :: _, [] => false
  end.

Record merkle_part := { part_hash : bytes; part_is_left : bool }.

(* ================================================================================================================== *)
Section WithHash.
Variable H : bytes -> bytes.   (* hashlib.sha3_256(..).digest(); successive update() calls hash the concatenation *)

Definition zero_hash : bytes := repeat 0 (Z.to_nat hash256_size).   (* Hash256.zero() *)

(* ---- MerkleHashBuilder.final: the in-place level loop over self.hashes ---- *)
(* inner `while i < num_remaining_hashes`; state: self.hashes, num_remaining_hashes, i *)
Fixpoint final_inner (fuel : nat) (hs : list bytes) (n i : Z) : result (list bytes * Z) :=
  match fuel with
  | O => Crash fuel_error
  | S f =>
    if cmp mk_inner_cmp i n then
      match py_get hs i with
      | None => Crash index_error
      | Some a =>
        let second :=
          if cmp mk_pair_cmp (ev2 mk_pair_idx_op i mk_pair_idx_inc) n
          then (py_get hs (ev2 mk_second_idx_op i mk_second_idx_inc), n)
          else (py_get hs i, ev2 mk_dup_inc_op n mk_dup_inc) in       (* odd count: duplicate the last one *)
        match fst second with
        | None => Crash index_error
        | Some b =>
          match py_set hs (ev2 mk_store_op i mk_store_div) (H (a ++ b)) with
          | None => Crash index_error
          | Some hs' => final_inner f hs' (snd second) (ev2 mk_step_op i mk_step)
          end
        end
      end
    else Ok (hs, n)
  end.

(* outer `while num_remaining_hashes > 1` *)
Fixpoint final_outer (fuel : nat) (hs : list bytes) (n : Z) : result (list bytes) :=
  match fuel with
  | O => Crash fuel_error
  | S f =>
    if cmp mk_outer_cmp n mk_outer_bound then
      match final_inner (S (length hs)) hs n mk_i_init with
      | Ok (hs', n') => final_outer f hs' (ev2 mk_halve_op n' mk_halve_div)
      | Reject => Reject
      | Crash k => Crash k
      end
    else Ok hs
  end.

Definition merkle_final (hashes : list bytes) : result bytes :=
  match hashes with
  | [] => Ok zero_hash
  | _ =>
    match final_outer (S (length hashes)) hashes (Z.of_nat (length hashes)) with
    | Ok hs' => match py_get hs' mk_result_idx with Some r => Ok r | None => Crash index_error end
    | Reject => Reject
    | Crash k => Crash k
    end
  end.

(* ---- reference: the pairwise tree, last node duplicated at odd levels (fixed text, nothing regenerated) ---- *)
Fixpoint pair_up (l : list bytes) : list bytes :=
  match l with
  | [] => []
  | [a] => [H (a ++ a)]
  | a :: b :: r => H (a ++ b) :: pair_up r
  end.

Fixpoint root_levels (fuel : nat) (l : list bytes) : bytes :=
  match l with
  | [] => repeat 0 32%nat
  | [x] => x
  | _ => match fuel with O => repeat 0 32%nat | S f => root_levels f (pair_up l) end
  end.
Definition merkle_root_spec (l : list bytes) : bytes := root_levels (length l) l.

(* all levels that still have a sibling to offer (length >= 2), leaves first *)
Fixpoint levels_fuel (fuel : nat) (l : list bytes) : list (list bytes) :=
  match l with
  | [] | [_] => []
  | _ => match fuel with O => [] | S f => l :: levels_fuel f (pair_up l) end
  end.
Definition levels (l : list bytes) : list (list bytes) := levels_fuel (length l) l.

(* sibling of position i in a level: right neighbour (or the node itself when it is the duplicated last one) for even i,
   left neighbour for odd i *)
Definition sibling (level : list bytes) (i : nat) : merkle_part :=
  if Nat.even i then {| part_hash := nth (S i) level (nth i level []); part_is_left := false |}
  else {| part_hash := nth (i - 1) level []; part_is_left := true |}.

Fixpoint path_in (lv : list (list bytes)) (i : nat) : list merkle_part :=
  match lv with
  | [] => []
  | level :: rest => sibling level i :: path_in rest (Nat.div2 i)
  end.

(* the honest audit path of leaf i, ordered from leaf to root *)
Definition merkle_path (leaves : list bytes) (i : nat) : list merkle_part := path_in (levels leaves) i.

(* ---- prove_merkle ---- *)
Definition next_hash (working : bytes) (part : merkle_part) : bytes :=
  if part_is_left part then H (part_hash part ++ working) else H (working ++ part_hash part).

Definition prove_merkle (leaf_hash : bytes) (path : list merkle_part) (root_hash : bytes) : bool :=
  cmp_bytes pm_root_cmp root_hash (fold_left next_hash path leaf_hash).

(* ---- SymbolFacade: transaction hash over the serialized transaction ---- *)
Definition tx_header_size : Z := hdr_w_size + hdr_w_reserved1 + signature_size + public_key_size + hdr_w_reserved2.
Definition aggregate_hashed_size : Z := agg_w_version_network_type + agg_w_max_fee + agg_w_deadline + hash256_size.
Definition aggregate_types : list Z := [agg_bonded_type; agg_complete_type].

Definition is_aggregate_transaction (b : bytes) : result bool :=
  let off := ev2 type_off_op tx_header_size type_off_skip in
  match py_get b (ev2 type_hi_idx_op off type_hi_idx_inc), py_get b off with
  | Some hi, Some lo =>
    Ok (existsb (Z.eqb (ev2 type_combine_op (ev2 type_hi_shift_op hi type_hi_shift) lo)) aggregate_types)
  | _, _ => Crash index_error
  end.

Definition transaction_data_buffer (b : bytes) : result bytes :=
  match is_aggregate_transaction b with
  | Ok agg =>
    let data_end := if agg then ev2 window_end_op tx_header_size aggregate_hashed_size else Z.of_nat (length b) in
    Ok (py_slice b tx_header_size data_end)
  | Reject => Reject
  | Crash k => Crash k
  end.

(* what hash_transaction feeds the hasher: signature, signer key, generation-hash seed, data window *)
Definition tx_hash_input (signature signer seed b : bytes) : result bytes :=
  match transaction_data_buffer b with
  | Ok w => Ok (signature ++ signer ++ seed ++ w)
  | Reject => Reject
  | Crash k => Crash k
  end.

Definition hash_transaction_bytes (signature signer seed b : bytes) : result bytes :=
  match tx_hash_input signature signer seed b with Ok m => Ok (H m) | Reject => Reject | Crash k => Crash k end.

Definition hash_embedded_transactions (embedded : list bytes) : result bytes := merkle_final (map H embedded).

(* ---- Patricia tree nodes ---- *)
Record ppath := { pp_bytes : bytes; pp_size : Z }.    (* PatriciaTreePath(path, size) *)

Definition get_nibble_at (p : ppath) (index : Z) : option Z :=
  match py_get (pp_bytes p) (ev2 nib_byte_op index nib_byte_div) with
  | None => None
  | Some byte =>
    Some (if cmp nib_odd_cmp nib_odd_val (ev2 nib_odd_op index nib_odd_mod)
          then ev2 nib_lo_op byte nib_lo_mask else ev2 nib_hi_op byte nib_hi_shift)
  end.

(* `while i < path.size: buffer.append(...)` *)
Fixpoint encode_tail (fuel : nat) (p : ppath) (i : Z) : result (list Z) :=
  match fuel with
  | O => Crash fuel_error
  | S f =>
    if cmp enc_loop_cmp i (pp_size p) then
      match get_nibble_at p i, get_nibble_at p (ev2 enc_next_op i enc_next_inc) with
      | Some hi, Some lo =>
        match encode_tail f p (ev2 enc_step_op i enc_step) with
        | Ok r => Ok (ev2 enc_combine_op (ev2 enc_shift_op hi enc_shift) lo :: r)
        | Reject => Reject
        | Crash k => Crash k
        end
      | _, _ => Crash index_error
      end
    else Ok []
  end.

Definition encode_path (p : ppath) (is_leaf : bool) : result bytes :=
  let fuel := S (Z.to_nat (pp_size p)) in
  let first := if is_leaf then enc_leaf_flag else enc_branch_flag in
  let buffer :=
    if cmp enc_odd_cmp enc_odd_val (ev2 enc_odd_op (pp_size p) enc_odd_mod) then
      match get_nibble_at p enc_first_nibble with
      | None => Crash index_error
      | Some nb =>
        match encode_tail fuel p (ev2 enc_i_inc_op enc_i_init enc_i_inc) with
        | Ok r => Ok (ev2 enc_or_outer first (ev2 enc_or_inner enc_odd_flag nb) :: r)
        | Reject => Reject
        | Crash k => Crash k
        end
      end
    else
      match encode_tail fuel p enc_i_init with Ok r => Ok (first :: r) | Reject => Reject | Crash k => Crash k end in
  match buffer with
  | Ok bs => if wf_bytes bs then Ok bs else Reject      (* bytes(buffer) *)
  | Reject => Reject
  | Crash k => Crash k
  end.

Inductive node :=
| LeafNode (p : ppath) (value : bytes)
| BranchNode (p : ppath) (links : list (option bytes)).

Definition node_path (n : node) : ppath := match n with LeafNode p _ => p | BranchNode p _ => p end.

Definition link_bytes (l : option bytes) : bytes := match l with Some h => h | None => zero_hash end.

Definition node_hash (n : node) : result bytes :=
  match n with
  | LeafNode p v => match encode_path p leaf_hash_is_leaf with Ok e => Ok (H (e ++ v)) | Reject => Reject | Crash k => Crash k end
  | BranchNode p links =>
    match encode_path p branch_hash_is_leaf with Ok e => Ok (H (e ++ flat_map link_bytes links)) | Reject => Reject | Crash k => Crash k end
  end.

(* hex digits are modelled by their values: hexlify(bs).upper() is the nibble sequence of bs *)
Definition nibbles_of (bs : bytes) : list Z := flat_map (fun b => [b / 16; b mod 16]) bs.
Definition hex_path (p : ppath) : list Z := py_slice (nibbles_of (pp_bytes p)) 0 (pp_size p).

(* ---- deserialize_patricia_tree_nodes over BufferReader ---- *)
Definition reader := (bytes * Z)%type.     (* buffer, offset *)
Definition reader_init (buffer : bytes) : reader := (buffer, reader_init_offset).
Definition reader_eof (r : reader) : bool := cmp reader_eof_cmp (snd r) (Z.of_nat (length (fst r))).
Definition read_bytes (r : reader) (count : Z) : bytes * reader :=
  (py_slice (fst r) (snd r) (ev2 reader_end_op (snd r) count), (fst r, ev2 reader_advance_op (snd r) count)).
Definition read_int (r : reader) (count : Z) : Z * reader :=
  let x := read_bytes r count in (int_from_bytes reader_order (fst x), snd x).

(* Hash256(bytes): ByteArray rejects any other length *)
Definition make_hash256 (bs : bytes) : result bytes := if Z.of_nat (length bs) =? hash256_size then Ok bs else Reject.

Definition deserialize_path (r : reader) : ppath * reader :=
  let a := read_int r des_nibbles_w in
  let num_nibbles := fst a in
  let num_bytes := ev2 des_half_op (ev2 des_round_op num_nibbles des_round_inc) des_half_div in
  let b := read_bytes (snd a) num_bytes in
  ({| pp_bytes := fst b; pp_size := num_nibbles |}, snd b).

Definition deserialize_leaf (r : reader) : result (node * reader) :=
  let a := deserialize_path r in
  let b := read_bytes (snd a) hash256_size in
  match make_hash256 (fst b) with
  | Ok v => Ok (LeafNode (fst a) v, snd b)
  | Reject => Reject
  | Crash k => Crash k
  end.

Fixpoint deserialize_links (indexes : list nat) (mask : Z) (r : reader) : result (list (option bytes) * reader) :=
  match indexes with
  | [] => Ok ([], r)
  | index :: rest =>
    if ev2 des_mask_op mask (des_pow_base ^ Z.of_nat index) =? 0 then
      match deserialize_links rest mask r with
      | Ok (ls, r') => Ok (None :: ls, r')
      | Reject => Reject
      | Crash k => Crash k
      end
    else
      let b := read_bytes r hash256_size in
      match make_hash256 (fst b) with
      | Ok h =>
        match deserialize_links rest mask (snd b) with
        | Ok (ls, r') => Ok (Some h :: ls, r')
        | Reject => Reject
        | Crash k => Crash k
        end
      | Reject => Reject
      | Crash k => Crash k
      end
  end.

Definition deserialize_branch (r : reader) : result (node * reader) :=
  let a := deserialize_path r in
  let m := read_int (snd a) des_mask_w in
  match deserialize_links (seq 0 des_links_n) (fst m) (snd m) with
  | Ok (ls, r') => Ok (BranchNode (fst a) ls, r')
  | Reject => Reject
  | Crash k => Crash k
  end.

Fixpoint deserialize_loop (fuel : nat) (r : reader) : result (list node) :=
  match fuel with
  | O => Crash fuel_error
  | S f =>
    if reader_eof r then Ok []
    else
      let m := read_int r des_marker_w in
      let parsed :=
        if cmp des_leaf_cmp des_leaf_marker (fst m) then deserialize_leaf (snd m)
        else if cmp des_branch_cmp des_branch_marker (fst m) then deserialize_branch (snd m)
        else Reject in
      match parsed with
      | Ok (n, r') => match deserialize_loop f r' with Ok ns => Ok (n :: ns) | Reject => Reject | Crash k => Crash k end
      | Reject => Reject
      | Crash k => Crash k
      end
  end.

(* once the offset has run past the end (truncated input) `eof` never holds again: the Python loop does not terminate;
   the model then runs out of fuel *)
Definition deserialize_patricia_tree_nodes (buffer : bytes) : result (list node) :=
  deserialize_loop (S (length buffer)) (reader_init buffer).

(* the wire format the parser reads (catapult's serialized tree nodes) -- fixed text *)
Definition serialize_path (p : ppath) : bytes := pp_size p :: pp_bytes p.
Definition is_some {A} (o : option A) : bool := match o with Some _ => true | None => false end.
(* bit k of the mask is set iff link k is present *)
Fixpoint links_mask (links : list (option bytes)) : Z :=
  match links with
  | [] => 0
  | l :: r => 2 * links_mask r + Z.b2z (is_some l)
  end.
Definition serialize_node (n : node) : bytes :=
  match n with
  | LeafNode p v => 255 :: serialize_path p ++ v
  | BranchNode p links =>
    0 :: serialize_path p ++ to_le 2 (links_mask links) ++ flat_map (fun l => match l with Some h => h | None => [] end) links
  end.
Definition serialize_nodes (ns : list node) : bytes := flat_map serialize_node ns.

(* ---- prove_patricia_merkle ---- *)
Definition check_state_hash (state_hash : bytes) (roots : list bytes) : bool :=
  cmp_bytes state_hash_cmp state_hash (H (concat roots)).

Fixpoint index_of (h : bytes) (links : list (option bytes)) : option nat :=
  match links with
  | [] => None
  | l :: r =>
    if match l with Some x => bytes_eqb h x | None => false end then Some O
    else match index_of h r with Some k => Some (S k) | None => None end
  end.

(* f'{index:01X}' : one hex digit for the 16 links of a parsed branch (two for 16..255) *)
Definition format_index (k : nat) : list Z :=
  let z := Z.of_nat k in if z <? 16 then [z] else [z / 16; z mod 16].

Inductive walk_result := WPath (p : list Z) | WUnlinked | WCrash (k : string).

(* `for node in reversed(merkle_path)` : child_hash, actual_path *)
Fixpoint walk (rev_nodes : list node) (child : option bytes) (actual : list Z) : walk_result :=
  match rev_nodes with
  | [] => WPath actual
  | n :: rest =>
    match node_hash n with
    | Ok h =>
      match child with
      | None => walk rest (Some h) (hex_path (node_path n) ++ actual)
      | Some c =>
        match n with
        | LeafNode _ _ => WCrash attribute_error        (* a leaf has no `links` *)
        | BranchNode p links =>
          match index_of c links with
          | None => WUnlinked
          | Some k => walk rest (Some h) (hex_path p ++ format_index k ++ actual)
          end
        end
      end
    | Reject => WCrash "ValueError"
    | Crash k => WCrash k
    end
  end.

Definition prove_patricia_merkle (encoded_key value_to_test : bytes) (path : list node) (state_hash : bytes)
                                 (roots : list bytes) : result Z :=
  if negb (check_state_hash state_hash roots) then Ok code_state_hash_does_not_match_roots
  else
    match py_get path pat_first_idx with
    | None => Crash index_error
    | Some first =>
      match node_hash first with
      | Reject => Reject
      | Crash k => Crash k
      | Ok first_hash =>
        if negb (existsb (bytes_eqb first_hash) roots) then Ok code_unanchored_path_tree
        else
          let last_node := last path first in
          let mismatch :=
            match last_node with LeafNode _ v => cmp_bytes pat_value_cmp value_to_test v | BranchNode _ _ => false end in
          if mismatch then Ok code_leaf_value_mismatch
          else
            match walk (rev path) None [] with
            | WCrash k => Crash k
            | WUnlinked => Ok code_unlinked_node
            | WPath actual =>
              let key_hex := nibbles_of encoded_key in
              match last_node with
              | LeafNode _ _ =>
                Ok (if cmp_bytes pat_path_cmp actual key_hex then code_path_mismatch else code_valid_positive)
              | BranchNode _ links =>
                if negb (is_prefix actual key_hex) then Ok code_path_mismatch
                else
                  let key_path := {| pp_bytes := encoded_key;
                                     pp_size := ev2 pat_nibbles_op pat_nibbles_per_byte (Z.of_nat (length encoded_key)) |} in
                  match get_nibble_at key_path (Z.of_nat (length actual)) with
                  | None => Crash index_error
                  | Some next_nibble =>
                    match py_get links next_nibble with
                    | None => Crash index_error
                    | Some (Some _) => Ok code_inconclusive
                    | Some None => Ok code_valid_negative
                    end
                  end
              end
            end
      end
    end.

End WithHash.

(* NemFacade.hash_transaction: keccak_256 of the non-verifiable serialization (the serialization itself is the codec's) *)
Definition nem_hash_transaction (K : bytes -> bytes) (non_verifiable : bytes) : bytes := K non_verifiable.

(* ---- rendering for the correspondence harness ---- *)
Local Open Scope string_scope.
Definition render_bytes (r : result bytes) : string :=
  match r with Ok b => to_hex b | Reject => "reject" | Crash k => "crash:" ++ k end.
Definition render_Z (r : result Z) : string :=
  match r with Ok z => Z_to_string z | Reject => "reject" | Crash k => "crash:" ++ k end.
Definition render_part (p : merkle_part) : string := (if part_is_left p then "L" else "R") ++ to_hex (part_hash p).
Fixpoint join_with (sep : string) (l : list string) : string :=
  match l with [] => "" | [x] => x | x :: r => x ++ sep ++ join_with sep r end.
Definition render_path (p : list merkle_part) : string := join_with "," (map render_part p).
Definition render_node (n : node) : string :=
  match n with
  | LeafNode p v => "leaf:" ++ Z_to_string (pp_size p) ++ ":" ++ to_hex (pp_bytes p) ++ ":" ++ to_hex v
  | BranchNode p ls =>
    "branch:" ++ Z_to_string (pp_size p) ++ ":" ++ to_hex (pp_bytes p) ++ ":" ++
    join_with "/" (map (fun l => match l with Some h => to_hex h | None => "-" end) ls)
  end.
Definition render_nodes (r : result (list node)) : string :=
  match r with Ok ns => join_with ";" (map render_node ns) | Reject => "reject" | Crash k => "crash:" ++ k end.
