(* Proofs about Sym/Payload.v: the signing window over raw transaction bytes (definition, independence from uncovered bytes,
   injectivity in covered bytes), the NEM non-verifiable window, cosignature and voting-tree layouts. *)
From Symv Require Import Base.Bytes Base.BytesLemmas Base.PyOps Sym.Payload.
From Coq Require Import Lia ZifyBool.
Open Scope Z_scope.

(* ---- specification side (fixed text from the property statement) ---- *)
(* aggregate complete = 0x4141, aggregate bonded = 0x4241, read little-endian from the 3rd and 4th body bytes *)
Definition spec_is_aggregate (body : bytes) : bool :=
  let t := nth 2 body 0 + 256 * nth 3 body 0 in (t =? 16705) || (t =? 16961).
(* covered bytes of a transaction body (everything after the 108-byte size/reserved/signature/signer/reserved header) *)
Definition spec_covered (body : bytes) : bytes := if spec_is_aggregate body then firstn 52 body else body.

Lemma pl_header_is_108 : pl_transaction_header_size = 108 /\ pl_aggregate_hashed_size = 52.
Proof. split; reflexivity. Qed.

Lemma byte_at_app hdr body i : length hdr = 108%nat -> 108 <= i ->
  pl_byte_at (hdr ++ body) i = nth_error body (Z.to_nat (i - 108)).
Proof.
  intros Hl Hi. unfold pl_byte_at. rewrite app_length, Hl.
  destruct (Z.ltb_spec i (Z.of_nat (108 + length body))) as [Hlt|Hge].
  - replace (0 <=? i) with true by lia. cbn [andb]. rewrite nth_error_app2 by lia. f_equal. lia.
  - replace ((0 <=? i) && false) with false by (destruct (0 <=? i); reflexivity).
    symmetry. apply nth_error_None. lia.
Qed.

Lemma nth_error_nth_default {A} (l : list A) n d x : nth_error l n = Some x -> nth n l d = x.
Proof. revert n; induction l as [|y l IH]; intros [|n]; cbn; try discriminate; [congruence | apply IH]. Qed.

(* the whole payload in terms of the body alone: the 108 header bytes never matter *)
Theorem payload_window seed hdr body : length hdr = 108%nat ->
  sym_signing_payload seed (hdr ++ body) =
  if (4 <=? length body)%nat then Ok (seed ++ spec_covered body) else Crash "IndexError".
Proof.
  intros Hl. unfold sym_signing_payload, pl_transaction_data_buffer, pl_is_aggregate_transaction.
  change (ev2 pl_type_off_op pl_transaction_header_size pl_type_off_skip) with 110.
  change (ev2 pl_type_hi_op 110 pl_type_hi_inc) with 111.
  rewrite !byte_at_app by (assumption || lia).
  change (Z.to_nat (111 - 108)) with 3%nat. change (Z.to_nat (110 - 108)) with 2%nat.
  destruct (Nat.leb_spec 4 (length body)) as [Hlen|Hlen].
  - destruct (nth_error body 3) as [hi|] eqn:E3; [|apply nth_error_None in E3; lia].
    destruct (nth_error body 2) as [lo|] eqn:E2; [|apply nth_error_None in E2; lia].
    cbn [bind]. f_equal. f_equal.
    change (ev2 pl_type_combine_op (ev2 pl_type_shift_op hi pl_type_shift) lo) with (Z.shiftl hi 8 + lo).
    rewrite Z.shiftl_mul_pow2 by lia. change (2 ^ 8) with 256.
    change pl_agg_bonded_type with 16961. change pl_agg_complete_type with 16705.
    unfold spec_covered, spec_is_aggregate. rewrite (nth_error_nth_default _ _ 0 _ E3), (nth_error_nth_default _ _ 0 _ E2).
    replace (lo + 256 * hi) with (hi * 256 + lo) by lia.
    rewrite (Bool.orb_comm (hi * 256 + lo =? 16961)).
    change (ev2 pl_window_end_op pl_transaction_header_size pl_aggregate_hashed_size) with 160.
    change (Z.to_nat pl_transaction_header_size) with 108%nat.
    unfold slice.
    assert (Hskip : skipn 108 (hdr ++ body) = body) by (rewrite skipn_app, Hl, Nat.sub_diag, skipn_all2 by lia; reflexivity).
    rewrite Hskip.
    destruct ((hi * 256 + lo =? 16705) || (hi * 256 + lo =? 16961)).
    + reflexivity.
    + rewrite Nat2Z.id, app_length, Hl. replace (108 + length body - 108)%nat with (length body) by lia. apply firstn_all.
  - destruct (nth_error body 3) as [hi|] eqn:E3; [|reflexivity].
    assert (nth_error body 3 <> None) by congruence. apply nth_error_Some in H. lia.
Qed.

(* payload_def over a whole buffer: seed followed by bytes[108:] or, for the two aggregate types, bytes[108:160] *)
Theorem payload_def seed b : (112 <= length b)%nat ->
  sym_signing_payload seed b = Ok (seed ++ spec_covered (skipn 108 b)).
Proof.
  intros Hl. rewrite <- (firstn_skipn 108 b) at 1.
  rewrite payload_window by (rewrite firstn_length; lia).
  replace (4 <=? length (skipn 108 b))%nat with true; [reflexivity|].
  symmetry. apply Nat.leb_le. rewrite skipn_length. lia.
Qed.

Theorem payload_short seed b : (length b < 112)%nat -> (108 <= length b)%nat -> sym_signing_payload seed b = Crash "IndexError".
Proof.
  intros Hl Hl'. rewrite <- (firstn_skipn 108 b) at 1.
  rewrite payload_window by (rewrite firstn_length; lia).
  replace (4 <=? length (skipn 108 b))%nat with false; [reflexivity|].
  symmetry. apply Nat.leb_gt. rewrite skipn_length. lia.
Qed.

(* bytes outside the window do not influence the payload: the header (size, reserved words, signature, signer key) never, and
   for aggregates nothing after the 52-byte head (embedded transactions, cosignatures) *)
Theorem payload_ignores_header seed hdr hdr' body : length hdr = 108%nat -> length hdr' = 108%nat ->
  sym_signing_payload seed (hdr ++ body) = sym_signing_payload seed (hdr' ++ body).
Proof. intros H H'. now rewrite !payload_window. Qed.

Lemma spec_is_aggregate_head head tail : (4 <= length head)%nat -> spec_is_aggregate (head ++ tail) = spec_is_aggregate head.
Proof. intros Hl. unfold spec_is_aggregate. now rewrite !app_nth1 by lia. Qed.

Theorem payload_ignores_aggregate_tail seed hdr hdr' head tail tail' :
  length hdr = 108%nat -> length hdr' = 108%nat -> length head = 52%nat -> spec_is_aggregate head = true ->
  sym_signing_payload seed (hdr ++ head ++ tail) = Ok (seed ++ head)
  /\ sym_signing_payload seed (hdr' ++ head ++ tail') = Ok (seed ++ head).
Proof.
  intros H H' Hh Ha. rewrite !payload_window by assumption.
  rewrite !app_length, Hh. cbn [Nat.add Nat.leb]. unfold spec_covered.
  rewrite !spec_is_aggregate_head, Ha by lia.
  rewrite !firstn_app, Hh, Nat.sub_diag, !firstn_O, !app_nil_r. rewrite <- Hh, firstn_all. split; reflexivity.
Qed.

(* two transactions with the same payload have the same covered bytes: any difference inside the window changes the payload *)
Theorem payload_covers seed hdr hdr' body body' :
  length hdr = 108%nat -> length hdr' = 108%nat -> (4 <= length body)%nat -> (4 <= length body')%nat ->
  sym_signing_payload seed (hdr ++ body) = sym_signing_payload seed (hdr' ++ body') ->
  spec_covered body = spec_covered body'.
Proof.
  intros H H' Hb Hb'. rewrite !payload_window by assumption.
  apply Nat.leb_le in Hb, Hb'. rewrite Hb, Hb'. intros E. injection E as E. now apply app_inv_head in E.
Qed.

(* ---- NEM ---- *)
Lemma skipn_add {A} (a b : nat) (l : list A) : skipn a (skipn b l) = skipn (b + a) l.
Proof. revert l; induction b as [|b IH]; intros l; [reflexivity|]. destruct l; [now rewrite !skipn_nil | apply IH]. Qed.

Definition spec_nem_body (head rest : bytes) : bytes :=
  if from_le (firstn 4 head) =? 4100 then firstn (16 + Z.to_nat (from_le (firstn 4 (skipn 12 rest)))) rest else rest.

Theorem nem_payload_def head sigblock rest : length head = 48%nat -> length sigblock = 68%nat ->
  nem_signing_payload (head ++ sigblock ++ rest) = head ++ spec_nem_body head rest.
Proof.
  intros Hh Hs. unfold nem_signing_payload, spec_nem_body.
  change pl_nem_multisig_type with 4100.
  unfold nem_signature_block_start, nem_signature_block_end, nem_inner_size_start, nem_inner_start, slice.
  assert (E4 : firstn 4 (head ++ sigblock ++ rest) = firstn 4 head).
  { rewrite firstn_app, Hh. cbn [Nat.sub firstn]. now rewrite app_nil_r. }
  assert (E48 : firstn 48 (head ++ sigblock ++ rest) = head).
  { rewrite firstn_app, Hh, Nat.sub_diag, firstn_O, app_nil_r, <- Hh. apply firstn_all. }
  assert (E116 : skipn 116 (head ++ sigblock ++ rest) = rest).
  { rewrite app_assoc, skipn_app. rewrite (skipn_all2 (n := 116)) by (rewrite app_length; lia).
    rewrite app_length, Hh, Hs. reflexivity. }
  assert (E128 : skipn 128 (head ++ sigblock ++ rest) = skipn 12 rest).
  { change 128%nat with (116 + 12)%nat. rewrite <- skipn_add, E116. reflexivity. }
  rewrite E4, E48, E116, E128. f_equal.
  destruct (from_le (firstn 4 head) =? 4100).
  - reflexivity.
  - rewrite !app_length, Hh, Hs. replace (48 + (68 + length rest) - 116)%nat with (length rest) by lia. apply firstn_all.
Qed.

(* the signature block (signature_size, signature) never influences the NEM payload *)
Theorem nem_payload_ignores head sigblock sigblock' rest :
  length head = 48%nat -> length sigblock = 68%nat -> length sigblock' = 68%nat ->
  nem_signing_payload (head ++ sigblock ++ rest) = nem_signing_payload (head ++ sigblock' ++ rest).
Proof. intros. now rewrite !nem_payload_def. Qed.

Theorem nem_payload_covers head head' sigblock sigblock' rest rest' :
  length head = 48%nat -> length head' = 48%nat -> length sigblock = 68%nat -> length sigblock' = 68%nat ->
  nem_signing_payload (head ++ sigblock ++ rest) = nem_signing_payload (head' ++ sigblock' ++ rest') ->
  head = head' /\ spec_nem_body head rest = spec_nem_body head' rest'.
Proof.
  intros Hh Hh' Hs Hs'. rewrite !nem_payload_def by assumption. intros E.
  assert (E1 : firstn 48 (head ++ spec_nem_body head rest) = firstn 48 (head' ++ spec_nem_body head' rest')) by now rewrite E.
  rewrite !firstn_app, Hh, Hh', Nat.sub_diag, !firstn_O, !app_nil_r in E1.
  rewrite <- Hh in E1 at 1. rewrite <- Hh' in E1. rewrite !firstn_all in E1. subst head'.
  split; [reflexivity|]. now apply app_inv_head in E.
Qed.

(* ---- cosignatures ---- *)
Theorem cosignature_def sign pub h detached :
  cosignature_bytes (cosign_transaction_hash sign pub h detached) = to_le 8 0 ++ pub ++ sign h ++ (if detached then h else []).
Proof. unfold cosignature_bytes, cosign_transaction_hash. cbn. change pl_cosig_version with 0. now destruct detached. Qed.

(* ---- voting key tree ---- *)
Theorem voting_header_def root_pub s e :
  vk_header root_pub s e =
  to_le 8 s ++ to_le 8 e ++ to_le 8 (2 ^ 64 - 1) ++ to_le 8 (2 ^ 64 - 1) ++ root_pub ++ to_le 8 s ++ to_le 8 e.
Proof. reflexivity. Qed.

Theorem voting_identifiers_def s e :
  vk_identifiers s e = rev (map (fun i => s + Z.of_nat i) (seq 0 (Z.to_nat (e + 1 - s)))).
Proof. reflexivity. Qed.

Lemma nth_map_seq {A} (f : nat -> A) n k d : (k < n)%nat -> nth k (map f (seq 0 n)) d = f k.
Proof.
  intros H. rewrite (nth_indep _ d (f 0%nat)) by (rewrite map_length, seq_length; lia).
  rewrite (map_nth f (seq 0 n) 0%nat k). now rewrite seq_nth.
Qed.

(* identifiers run from the end epoch down to the start epoch *)
Theorem voting_identifiers_descending s e i : s <= e -> (i < Z.to_nat (e + 1 - s))%nat ->
  nth i (vk_identifiers s e) 0 = e - Z.of_nat i /\ length (vk_identifiers s e) = Z.to_nat (e + 1 - s).
Proof.
  intros Hse Hi. rewrite voting_identifiers_def. set (n := Z.to_nat (e + 1 - s)) in *.
  assert (Hlen : length (map (fun i0 : nat => s + Z.of_nat i0) (seq 0 n)) = n) by now rewrite map_length, seq_length.
  split; [| now rewrite rev_length].
  rewrite rev_nth by lia. rewrite Hlen. rewrite nth_map_seq by lia. unfold n in *. lia.
Qed.

Theorem voting_entry_def root_sign pk key id :
  vk_entry root_sign pk key id = key ++ root_sign (pk key ++ to_le 8 id).
Proof. reflexivity. Qed.

Lemma pl_firstn_app_exact {A} (r s : list A) n : length r = n -> firstn n (r ++ s) = r.
Proof. intros <-. rewrite firstn_app, Nat.sub_diag, firstn_O, app_nil_r. apply firstn_all. Qed.

Lemma pl_skipn_app_exact {A} (r s : list A) n : length r = n -> skipn n (r ++ s) = s.
Proof. intros <-. rewrite skipn_app, Nat.sub_diag, skipn_all. reflexivity. Qed.

Section VotingCertificates.
Variable root_sign : bytes -> bytes.
Variable root_public_key : bytes.
Variable pk : bytes -> bytes.
Variable verify : bytes -> bytes -> bytes -> bool.
Hypothesis verify_sign : forall m, verify root_public_key m (root_sign m) = true.

(* every entry of a generated tree is a 32-byte child key followed by a certificate that verifies under the root key for
   child public key || LE64(epoch) *)
Fixpoint vk_entries_certified (ids : list Z) (keys : list bytes) (data : bytes) : Prop :=
  match ids, keys with
  | id :: ids', key :: keys' =>
    firstn 32 data = key /\ verify root_public_key (pk key ++ to_le 8 id) (firstn 64 (skipn 32 data)) = true
    /\ vk_entries_certified ids' keys' (skipn 96 data)
  | _, _ => True
  end.

Theorem voting_entries_certified ids keys :
  Forall (fun key => length key = 32%nat) keys -> (forall m, length (root_sign m) = 64%nat) ->
  vk_entries_certified ids keys (vk_entries root_sign pk ids keys).
Proof.
  intros Hk Hs. revert keys Hk. induction ids as [|id ids IH]; intros [|key keys] Hk; cbn [vk_entries vk_entries_certified]; auto.
  inversion Hk as [|? ? Hkey Hrest]; subst.
  rewrite voting_entry_def. rewrite <- !app_assoc.
  repeat split.
  - now apply pl_firstn_app_exact.
  - rewrite (pl_skipn_app_exact key _ 32 Hkey). rewrite pl_firstn_app_exact by apply Hs. apply verify_sign.
  - rewrite app_assoc. rewrite pl_skipn_app_exact by (rewrite app_length, Hkey, Hs; reflexivity). now apply IH.
Qed.
End VotingCertificates.
