(* Signing payloads over RAW transaction bytes:
   * facade/SymbolFacade.py: extract_signing_payload, _transaction_data_buffer, _is_aggregate_transaction, cosign_transaction_hash
   * facade/NemFacade.py + nem/TransactionFactory.py: the non-verifiable serialization (byte-level effect of
     to_non_verifiable_transaction: the signature_size and signature members are dropped)
   * symbol/VotingKeysGenerator.py: layout of a generated voting-key tree over an abstract signing function.
   Constants / operators come from Gen/PayloadOps.v (regenerated from /repo on every run).  Self-contained on purpose (the C09
   model Sym/Merkle.v has its own copy of the data window under other names).  Model file: definitions only. *)
From Symv Require Export Base.PyOps Gen.PayloadOps.
Open Scope Z_scope.

(* TRANSACTION_HEADER_SIZE = size + reserved1 + signature + signer + reserved2 *)
Definition pl_transaction_header_size : Z :=
  pl_hdr_size_w + pl_hdr_reserved1_w + pl_signature_size + pl_public_key_size + pl_hdr_reserved2_w.
(* AGGREGATE_HASHED_SIZE = version_network_type + max_fee + deadline + transactions_hash *)
Definition pl_aggregate_hashed_size : Z := pl_agg_version_w + pl_agg_max_fee_w + pl_agg_deadline_w + pl_hash256_size.

(* buffer[i] for i >= 0: IndexError past the end *)
Definition pl_byte_at (b : bytes) (i : Z) : option Z :=
  if (0 <=? i) && (i <? Z.of_nat (length b)) then nth_error b (Z.to_nat i) else None.

Definition pl_is_aggregate_transaction (b : bytes) : result bool :=
  let transaction_type_offset := ev2 pl_type_off_op pl_transaction_header_size pl_type_off_skip in
  match pl_byte_at b (ev2 pl_type_hi_op transaction_type_offset pl_type_hi_inc), pl_byte_at b transaction_type_offset with
  | Some hi, Some lo =>
    let transaction_type := ev2 pl_type_combine_op (ev2 pl_type_shift_op hi pl_type_shift) lo in
    Ok ((transaction_type =? pl_agg_bonded_type) || (transaction_type =? pl_agg_complete_type))
  | _, _ => Crash "IndexError"
  end.

Definition pl_transaction_data_buffer (b : bytes) : result bytes :=
  bind (pl_is_aggregate_transaction b) (fun aggregate =>
    let data_buffer_start := pl_transaction_header_size in
    let data_buffer_end :=
      if aggregate then ev2 pl_window_end_op pl_transaction_header_size pl_aggregate_hashed_size else Z.of_nat (length b) in
    Ok (slice (Z.to_nat data_buffer_start) (Z.to_nat data_buffer_end) b)).

(* extract_signing_payload: generation hash seed followed by the data buffer *)
Definition sym_signing_payload (generation_hash_seed transaction_buffer : bytes) : result bytes :=
  bind (pl_transaction_data_buffer transaction_buffer) (fun data => Ok (generation_hash_seed ++ data)).

(* ---- NEM: every transaction starts  type(4) version(1) reserved(2) network(1) timestamp(4) signer_public_key_size(4)
   signer_public_key(32) | signature_size(4) signature(64) | fee(8) deadline(4) ...; the non-verifiable form lacks the middle part.
   A multisig transaction continues  inner_transaction_size(4) inner_transaction | cosignatures_count(4) cosignatures ...  and its
   non-verifiable form has no cosignatures member either (to_non_verifiable_transaction copies only the members the NonVerifiable
   class has). *)
Definition nem_signature_block_start : nat := 48.
Definition nem_signature_block_end : nat := 116.
Definition nem_inner_size_start : nat := 128.
Definition nem_inner_start : nat := 132.
Definition nem_signing_payload (transaction_buffer : bytes) : bytes :=
  let transaction_type := from_le (firstn 4 transaction_buffer) in
  let body_end :=
    if transaction_type =? pl_nem_multisig_type
    then (nem_inner_start + Z.to_nat (from_le (slice nem_inner_size_start nem_inner_start transaction_buffer)))%nat
    else length transaction_buffer in
  firstn nem_signature_block_start transaction_buffer ++ slice nem_signature_block_end body_end transaction_buffer.

(* ---- cosignatures: version 0, the signer's key, the signature over the 32 hash bytes (detached: plus the parent hash) ---- *)
Record cosignature := { cosig_version : Z; cosig_signer : bytes; cosig_signature : bytes; cosig_parent_hash : option bytes }.
Definition cosign_transaction_hash (sign : bytes -> bytes) (signer_public_key transaction_hash : bytes) (detached : bool) : cosignature :=
  {| cosig_version := pl_cosig_version; cosig_signer := signer_public_key; cosig_signature := sign transaction_hash;
     cosig_parent_hash := if detached then Some transaction_hash else None |}.
Definition cosignature_bytes (c : cosignature) : bytes :=
  to_le 8 (cosig_version c) ++ cosig_signer c ++ cosig_signature c ++ match cosig_parent_hash c with Some h => h | None => [] end.

(* ---- voting keys ---- *)
Definition vk_write_int (value : Z) (count : nat) : bytes := int_to_bytes bw_order count value.

(* reversed(range(start_epoch, end_epoch + 1)) *)
Definition vk_identifiers (start_epoch end_epoch : Z) : list Z :=
  rev (map (fun i => start_epoch + Z.of_nat i) (seq 0 (Z.to_nat (ev2 vk_range_end_op end_epoch vk_range_end_inc - start_epoch)))).

Section Voting.
Variable root_sign : bytes -> bytes.          (* self.root_key_pair.sign *)
Variable root_public_key : bytes.
Variable public_key_of : bytes -> bytes.      (* KeyPair(private_key).public_key *)

Definition vk_header (start_epoch end_epoch : Z) : bytes :=
  vk_write_int start_epoch vk_start_w ++ vk_write_int end_epoch vk_end_w
  ++ vk_write_int vk_reserved1 vk_reserved1_w ++ vk_write_int vk_reserved2 vk_reserved2_w
  ++ root_public_key
  ++ vk_write_int start_epoch vk_level_start_w ++ vk_write_int end_epoch vk_level_end_w.

Definition vk_signed_payload (child_private_key : bytes) (identifier : Z) : bytes :=
  public_key_of child_private_key ++ vk_write_int identifier vk_identifier_w.

Definition vk_entry (child_private_key : bytes) (identifier : Z) : bytes :=
  child_private_key ++ root_sign (vk_signed_payload child_private_key identifier).

(* the private key generator is called once per identifier, in the order of the loop *)
Fixpoint vk_entries (identifiers : list Z) (generated : list bytes) : bytes :=
  match identifiers, generated with
  | identifier :: ids, key :: keys => vk_entry key identifier ++ vk_entries ids keys
  | _, _ => []
  end.

Definition voting_keys_generate (start_epoch end_epoch : Z) (generated : list bytes) : bytes :=
  vk_header start_epoch end_epoch ++ vk_entries (vk_identifiers start_epoch end_epoch) generated.
End Voting.
