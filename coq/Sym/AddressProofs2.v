(* Consequences of the text round trip: the text of an address determines the address (str is injective on addresses of the
   network's size), and the NEM text, which has no ignored bits, is determined by the address it parses to. *)
From Symv Require Import Base.Bytes Base.PyOps Sym.Address Sym.AddressProofs.

Lemma address_text_injective : forall fl a b,
  length a = (match fl with Symbol => 24 | Nem => 25 end)%nat -> wf_bytes a = true ->
  length b = (match fl with Symbol => 24 | Nem => 25 end)%nat -> wf_bytes b = true ->
  address_to_string fl a = address_to_string fl b -> a = b.
Proof.
  intros fl a b La Wa Lb Wb E.
  pose proof (string_roundtrip fl a La Wa) as Ra. pose proof (string_roundtrip fl b Lb Wb) as Rb.
  rewrite E in Ra. rewrite Ra in Rb. now injection Rb.
Qed.
