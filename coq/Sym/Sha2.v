(* SHA-256 and SHA-512 (FIPS 180-4). Words are Z masked to 32/64 bits. Model file: definitions only. *)
From Symv Require Export Base.Bytes.
Open Scope Z_scope.

(* working state a..h / chaining value H0..H7 *)
Definition st8 : Type := (Z * Z * Z * Z * Z * Z * Z * Z)%type.
Definition st8_list (s : st8) : list Z := let '(a, b, c, d, e, f, g, h) := s in [a; b; c; d; e; f; g; h].

(* Padding (5.1): 0x80, k zero bytes, message bit length on lenbytes big-endian bytes, total a multiple of block.
   [done] = number of bytes already absorbed before m (a multiple of block; 0 for a whole message). *)
Definition sha2_pad (block lenbytes : nat) (done : Z) (m : bytes) : bytes :=
  let n := Z.of_nat (length m) in
  let k := (- (n + 1 + Z.of_nat lenbytes)) mod (Z.of_nat block) in
  m ++ [128] ++ zeros (Z.to_nat k) ++ to_be lenbytes (8 * (done + n)).

(* ================= SHA-256 ================= *)
Definition mask32 : Z := 0xFFFFFFFF.
Definition rotr32 (x n : Z) : Z := Z.lor (Z.shiftr x n) (Z.land (Z.shiftl x (32 - n)) mask32).
Definition ch32 (x y z : Z) : Z := Z.lxor (Z.land x y) (Z.land (Z.lxor x mask32) z).
Definition maj32 (x y z : Z) : Z := Z.lxor (Z.land x y) (Z.lxor (Z.land x z) (Z.land y z)).
Definition bsig0_32 (x : Z) : Z := Z.lxor (rotr32 x 2) (Z.lxor (rotr32 x 13) (rotr32 x 22)).
Definition bsig1_32 (x : Z) : Z := Z.lxor (rotr32 x 6) (Z.lxor (rotr32 x 11) (rotr32 x 25)).
Definition ssig0_32 (x : Z) : Z := Z.lxor (rotr32 x 7) (Z.lxor (rotr32 x 18) (Z.shiftr x 3)).
Definition ssig1_32 (x : Z) : Z := Z.lxor (rotr32 x 17) (Z.lxor (rotr32 x 19) (Z.shiftr x 10)).

Definition K256 : list Z :=
  [0x428a2f98; 0x71374491; 0xb5c0fbcf; 0xe9b5dba5; 0x3956c25b; 0x59f111f1; 0x923f82a4; 0xab1c5ed5;
   0xd807aa98; 0x12835b01; 0x243185be; 0x550c7dc3; 0x72be5d74; 0x80deb1fe; 0x9bdc06a7; 0xc19bf174;
   0xe49b69c1; 0xefbe4786; 0x0fc19dc6; 0x240ca1cc; 0x2de92c6f; 0x4a7484aa; 0x5cb0a9dc; 0x76f988da;
   0x983e5152; 0xa831c66d; 0xb00327c8; 0xbf597fc7; 0xc6e00bf3; 0xd5a79147; 0x06ca6351; 0x14292967;
   0x27b70a85; 0x2e1b2138; 0x4d2c6dfc; 0x53380d13; 0x650a7354; 0x766a0abb; 0x81c2c92e; 0x92722c85;
   0xa2bfe8a1; 0xa81a664b; 0xc24b8b70; 0xc76c51a3; 0xd192e819; 0xd6990624; 0xf40e3585; 0x106aa070;
   0x19a4c116; 0x1e376c08; 0x2748774c; 0x34b0bcb5; 0x391c0cb3; 0x4ed8aa4a; 0x5b9cca4f; 0x682e6ff3;
   0x748f82ee; 0x78a5636f; 0x84c87814; 0x8cc70208; 0x90befffa; 0xa4506ceb; 0xbef9a3f7; 0xc67178f2].

Definition sha256_iv : st8 :=
  (0x6a09e667, 0xbb67ae85, 0x3c6ef372, 0xa54ff53a, 0x510e527f, 0x9b05688c, 0x1f83d9ab, 0x5be0cd19).

(* message schedule (6.2.2 step 1); w holds W[t-1] :: W[t-2] :: ... :: W[0] (most recent first), n more words are added *)
Fixpoint sha256_expand (n : nat) (w : list Z) : list Z :=
  match n with
  | O => w
  | S k =>
    match w with
    | _ :: w2 :: _ :: _ :: _ :: _ :: w7 :: _ :: _ :: _ :: _ :: _ :: _ :: _ :: w15 :: w16 :: _ =>
      sha256_expand k (Z.land (ssig1_32 w2 + w7 + ssig0_32 w15 + w16) mask32 :: w)
    | _ => w
    end
  end.

Definition sha256_round (s : st8) (kw : Z * Z) : st8 :=
  let '(a, b, c, d, e, f, g, h) := s in
  let t1 := h + bsig1_32 e + ch32 e f g + fst kw + snd kw in
  let t2 := bsig0_32 a + maj32 a b c in
  (Z.land (t1 + t2) mask32, a, b, c, Z.land (d + t1) mask32, e, f, g).

Definition sha256_compress (s : st8) (blk : bytes) : st8 :=
  let w := rev (sha256_expand 48 (rev (map from_be (chunks 4 blk)))) in
  let '(a, b, c, d, e, f, g, h) := s in
  let '(a', b', c', d', e', f', g', h') := fold_left sha256_round (combine K256 w) s in
  (Z.land (a + a') mask32, Z.land (b + b') mask32, Z.land (c + c') mask32, Z.land (d + d') mask32,
   Z.land (e + e') mask32, Z.land (f + f') mask32, Z.land (g + g') mask32, Z.land (h + h') mask32).

(* hash of (prefix ++ m) where s is the chaining value after the [done] bytes of prefix (done a multiple of 64) *)
Definition sha256_from (s : st8) (done : Z) (m : bytes) : bytes :=
  flat_map (to_be 4) (st8_list (fold_left sha256_compress (chunks 64 (sha2_pad 64 8 done m)) s)).

Definition sha256 (m : bytes) : bytes := sha256_from sha256_iv 0 m.

(* ================= SHA-512 ================= *)
Definition mask64 : Z := 0xFFFFFFFFFFFFFFFF.
Definition rotr64 (x n : Z) : Z := Z.lor (Z.shiftr x n) (Z.land (Z.shiftl x (64 - n)) mask64).
Definition ch64 (x y z : Z) : Z := Z.lxor (Z.land x y) (Z.land (Z.lxor x mask64) z).
Definition maj64 (x y z : Z) : Z := Z.lxor (Z.land x y) (Z.lxor (Z.land x z) (Z.land y z)).
Definition bsig0_64 (x : Z) : Z := Z.lxor (rotr64 x 28) (Z.lxor (rotr64 x 34) (rotr64 x 39)).
Definition bsig1_64 (x : Z) : Z := Z.lxor (rotr64 x 14) (Z.lxor (rotr64 x 18) (rotr64 x 41)).
Definition ssig0_64 (x : Z) : Z := Z.lxor (rotr64 x 1) (Z.lxor (rotr64 x 8) (Z.shiftr x 7)).
Definition ssig1_64 (x : Z) : Z := Z.lxor (rotr64 x 19) (Z.lxor (rotr64 x 61) (Z.shiftr x 6)).

Definition K512 : list Z :=
  [0x428a2f98d728ae22; 0x7137449123ef65cd; 0xb5c0fbcfec4d3b2f; 0xe9b5dba58189dbbc;
   0x3956c25bf348b538; 0x59f111f1b605d019; 0x923f82a4af194f9b; 0xab1c5ed5da6d8118;
   0xd807aa98a3030242; 0x12835b0145706fbe; 0x243185be4ee4b28c; 0x550c7dc3d5ffb4e2;
   0x72be5d74f27b896f; 0x80deb1fe3b1696b1; 0x9bdc06a725c71235; 0xc19bf174cf692694;
   0xe49b69c19ef14ad2; 0xefbe4786384f25e3; 0x0fc19dc68b8cd5b5; 0x240ca1cc77ac9c65;
   0x2de92c6f592b0275; 0x4a7484aa6ea6e483; 0x5cb0a9dcbd41fbd4; 0x76f988da831153b5;
   0x983e5152ee66dfab; 0xa831c66d2db43210; 0xb00327c898fb213f; 0xbf597fc7beef0ee4;
   0xc6e00bf33da88fc2; 0xd5a79147930aa725; 0x06ca6351e003826f; 0x142929670a0e6e70;
   0x27b70a8546d22ffc; 0x2e1b21385c26c926; 0x4d2c6dfc5ac42aed; 0x53380d139d95b3df;
   0x650a73548baf63de; 0x766a0abb3c77b2a8; 0x81c2c92e47edaee6; 0x92722c851482353b;
   0xa2bfe8a14cf10364; 0xa81a664bbc423001; 0xc24b8b70d0f89791; 0xc76c51a30654be30;
   0xd192e819d6ef5218; 0xd69906245565a910; 0xf40e35855771202a; 0x106aa07032bbd1b8;
   0x19a4c116b8d2d0c8; 0x1e376c085141ab53; 0x2748774cdf8eeb99; 0x34b0bcb5e19b48a8;
   0x391c0cb3c5c95a63; 0x4ed8aa4ae3418acb; 0x5b9cca4f7763e373; 0x682e6ff3d6b2b8a3;
   0x748f82ee5defb2fc; 0x78a5636f43172f60; 0x84c87814a1f0ab72; 0x8cc702081a6439ec;
   0x90befffa23631e28; 0xa4506cebde82bde9; 0xbef9a3f7b2c67915; 0xc67178f2e372532b;
   0xca273eceea26619c; 0xd186b8c721c0c207; 0xeada7dd6cde0eb1e; 0xf57d4f7fee6ed178;
   0x06f067aa72176fba; 0x0a637dc5a2c898a6; 0x113f9804bef90dae; 0x1b710b35131c471b;
   0x28db77f523047d84; 0x32caab7b40c72493; 0x3c9ebe0a15c9bebc; 0x431d67c49c100d4c;
   0x4cc5d4becb3e42b6; 0x597f299cfc657e2a; 0x5fcb6fab3ad6faec; 0x6c44198c4a475817].

Definition sha512_iv : st8 :=
  (0x6a09e667f3bcc908, 0xbb67ae8584caa73b, 0x3c6ef372fe94f82b, 0xa54ff53a5f1d36f1,
   0x510e527fade682d1, 0x9b05688c2b3e6c1f, 0x1f83d9abfb41bd6b, 0x5be0cd19137e2179).

(* message schedule (6.4.2 step 1); w most recent first, as for sha256_expand *)
Fixpoint sha512_expand (n : nat) (w : list Z) : list Z :=
  match n with
  | O => w
  | S k =>
    match w with
    | _ :: w2 :: _ :: _ :: _ :: _ :: w7 :: _ :: _ :: _ :: _ :: _ :: _ :: _ :: w15 :: w16 :: _ =>
      sha512_expand k (Z.land (ssig1_64 w2 + w7 + ssig0_64 w15 + w16) mask64 :: w)
    | _ => w
    end
  end.

Definition sha512_round (s : st8) (kw : Z * Z) : st8 :=
  let '(a, b, c, d, e, f, g, h) := s in
  let t1 := h + bsig1_64 e + ch64 e f g + fst kw + snd kw in
  let t2 := bsig0_64 a + maj64 a b c in
  (Z.land (t1 + t2) mask64, a, b, c, Z.land (d + t1) mask64, e, f, g).

Definition sha512_compress (s : st8) (blk : bytes) : st8 :=
  let w := rev (sha512_expand 64 (rev (map from_be (chunks 8 blk)))) in
  let '(a, b, c, d, e, f, g, h) := s in
  let '(a', b', c', d', e', f', g', h') := fold_left sha512_round (combine K512 w) s in
  (Z.land (a + a') mask64, Z.land (b + b') mask64, Z.land (c + c') mask64, Z.land (d + d') mask64,
   Z.land (e + e') mask64, Z.land (f + f') mask64, Z.land (g + g') mask64, Z.land (h + h') mask64).

(* hash of (prefix ++ m) where s is the chaining value after the [done] bytes of prefix (done a multiple of 128) *)
Definition sha512_from (s : st8) (done : Z) (m : bytes) : bytes :=
  flat_map (to_be 8) (st8_list (fold_left sha512_compress (chunks 128 (sha2_pad 128 16 done m)) s)).

Definition sha512 (m : bytes) : bytes := sha512_from sha512_iv 0 m.
