(* transaction.sort() at every depth (Sym/Descriptor.v: sort_value): each keyed array of the created object and of every object that
   sort() visits below it (struct-typed members whose condition holds) comes out as the stable key sort of what it held -- a
   permutation of the given elements, non-descending under the declared comparer, strictly ascending when the keys are distinct --
   the visited objects keep their class and member names, and every other member is left as it was. *)
From Symv Require Import Sym.Descriptor Sym.DescriptorProofs Cats.LayoutProofs Cats.LayoutInstProofs Cats.SortProofs.
From Coq Require Import Lia ZifyBool Permutation Sorted.
Open Scope string_scope.
Open Scope list_scope.
Open Scope Z_scope.

(* l' is the canonical arrangement of l under the sort key of array type a *)
Definition keyed_sorted (N : netcfg) (a : array) (l l' : list value) : Prop :=
  exists ks, keys_of_values (n_tm N) a l = Ok ks /\
    let ps := sort_pairs key_lt (combine ks l) in
    l' = map snd ps /\ Permutation l' l /\
    (shape_ok ks -> Sorted (fun p q => key_lt_spec (fst q) (fst p) = false) ps) /\
    (shape_ok ks -> NoDup ks -> StronglySorted (fun p q => key_lt_spec (fst p) (fst q) = true) ps).

Lemma map_snd_combine_eq {A B} (ks : list A) (l : list B) : length ks = length l -> map snd (combine ks l) = l.
Proof. revert l. induction ks as [|k r IH]; intros [|x l] H; cbn in *; try discriminate; [reflexivity|]. f_equal. apply IH. lia. Qed.

Lemma sort_values_keyed_sorted N a l ks : keys_of_values (n_tm N) a l = Ok ks -> keyed_sorted N a l (sort_values ks l).
Proof.
  intros Hks. pose proof (keys_of_values_length _ _ _ _ Hks) as Hlen. exists ks. split; [exact Hks|]. cbv zeta.
  split; [reflexivity|]. split; [|split].
  - rewrite <- (map_snd_combine_eq ks l Hlen) at 2. apply Permutation_map. apply sort_perm.
  - intros Hshape. rewrite sort_key_lt_is_spec by (rewrite (map_fst_combine_eq ks l Hlen); exact Hshape).
    apply (sort_sorted value key_lt_spec key_lt_spec_asym).
  - intros Hshape Hnd. apply sorted_strict; assumption.
Qed.

(* what sort() does to one member p of the object v (class struct members allfs), with fuel k for the objects below *)
Definition sort_member (N : netcfg) (k : nat) (v : value) (allfs : list field) (p : string * value) : result value :=
  match find_field allfs (fst p) with
  | Some f =>
    match f_type f with
    | FArray a =>
      match a_sort_key a, snd p with
      | Some _, VArr l => bind (keys_of_values (n_tm N) a l) (fun ks => Ok (VArr (sort_values ks l)))
      | Some _, _ => Crash "TypeError"
      | None, x => Ok x
      end
    | FName t =>
      match lookup_struct (n_tm N) t with
      | Some _ =>
        bind (cond_self (n_tm N) (m_R (n_tm N)) allfs (encode_strs v) f) (fun c =>
        if c then match snd p with VNull => Crash "AttributeError" | x => sort_value N k x end else Ok (snd p))
      | None => Ok (snd p)
      end
    | FInt _ => Ok (snd p)
    end
  | None => Ok (snd p)
  end.

Lemma sort_value_step N k cls e : sort_value N (S k) (VStruct cls e) =
  match lookup_struct (n_tm N) cls with
  | Some s => bind (mapM (fun p => bind (sort_member N k (VStruct cls e) (non_const (s_fields s)) p) (fun x => Ok (fst p, x))) e)
                   (fun e' => Ok (VStruct cls e'))
  | None => Crash "AttributeError"
  end.
Proof. reflexivity. Qed.

Lemma sort_value_struct N fuel v v' : sort_value N fuel v = Ok v' ->
  exists k cls s e e', fuel = S k /\ v = VStruct cls e /\ v' = VStruct cls e' /\ lookup_struct (n_tm N) cls = Some s /\ map fst e' = map fst e /\
    forall n x, assoc n e = Some x -> exists x', sort_member N k v (non_const (s_fields s)) (n, x) = Ok x' /\ assoc n e' = Some x'.
Proof.
  destruct fuel as [|k]; [discriminate|]. destruct v as [| | |cls e|]; try discriminate. rewrite sort_value_step.
  destruct (lookup_struct (n_tm N) cls) as [s|] eqn:Es; [|discriminate]. intros H. apply bind_ok in H. destruct H as [e' [He H]]. inversion H; subst v'.
  exists k, cls, s, e, e'. split; [reflexivity|]. split; [reflexivity|]. split; [reflexivity|]. split; [exact Es|]. split.
  - eapply mapM_map_fst; [|exact He]. intros p y Hy. cbn beta in Hy. apply bind_ok in Hy. destruct Hy as [x [_ Hy]]. inversion Hy. reflexivity.
  - intros n x Hx. exact (mapM_assoc _ e e' n x He Hx).
Qed.

(* the kinds of member of an object v of struct s *)
Definition keyed_member (s : struct) (n : string) (a : array) : Prop :=
  exists f key, find_field (non_const (s_fields s)) n = Some f /\ f_type f = FArray a /\ a_sort_key a = Some key.
Definition visited_member (N : netcfg) (v : value) (s : struct) (n : string) : Prop :=
  exists f t s', find_field (non_const (s_fields s)) n = Some f /\ f_type f = FName t /\ lookup_struct (n_tm N) t = Some s' /\
                 cond_self (n_tm N) (m_R (n_tm N)) (non_const (s_fields s)) (encode_strs v) f = Ok true.

(* `visits N v v' w w'`: w is v or an object below v that sort() of v visits; w' is what stands at the same place in v' *)
Inductive visits (N : netcfg) : value -> value -> value -> value -> Prop :=
| VisHere v v' : visits N v v' v v'
| VisMember cls cls' e e' s n x x' w w' :
    lookup_struct (n_tm N) cls = Some s -> visited_member N (VStruct cls e) s n -> assoc n e = Some x -> assoc n e' = Some x' ->
    visits N x x' w w' -> visits N (VStruct cls e) (VStruct cls' e') w w'.

(* sort() of the whole is sort() at every visited object *)
Lemma sort_value_visits N v v' w w' : visits N v v' w w' -> forall fuel, sort_value N fuel v = Ok v' -> exists fuel', sort_value N fuel' w = Ok w'.
Proof.
  intros Hv. induction Hv as [v v'|cls cls' e e' s n x x' w w' Hs Hvis Hx Hx' Hrest IH]; intros fuel H; [eauto|].
  apply sort_value_struct in H. destruct H as [k [c0 [s0 [e0 [e0' [-> [Ev [Ev' [Hs0 [_ Hmem]]]]]]]]]]. inversion Ev; subst c0 e0. inversion Ev'; subst cls' e0'.
  rewrite Hs in Hs0. inversion Hs0; subst s0.
  destruct (Hmem n x Hx) as [x'' [Hsm Hx'']]. rewrite Hx' in Hx''. inversion Hx''; subst x''.
  destruct Hvis as [f [t [s' [Hf [Ht [Hst Hc]]]]]]. unfold sort_member in Hsm. cbn [fst snd] in Hsm. rewrite Hf, Ht, Hst, Hc in Hsm. cbn [bind] in Hsm.
  apply (IH k). destruct x; try exact Hsm. discriminate.
Qed.

(* one sorted object: class and member names kept, keyed arrays canonical, everything that is neither a keyed array nor a visited
   object untouched *)
Theorem sort_value_object N fuel v v' : sort_value N fuel v = Ok v' ->
  exists cls s e e', v = VStruct cls e /\ v' = VStruct cls e' /\ lookup_struct (n_tm N) cls = Some s /\ map fst e' = map fst e /\
    (forall n a l, keyed_member s n a -> assoc n e = Some (VArr l) -> exists l', assoc n e' = Some (VArr l') /\ keyed_sorted N a l l') /\
    (forall n x, (forall a, ~ keyed_member s n a) -> ~ visited_member N v s n -> assoc n e = Some x -> assoc n e' = Some x).
Proof.
  intros H. apply sort_value_struct in H. destruct H as [k [cls [s [e [e' [-> [Ev [Ev' [Hs [Hnames Hmem]]]]]]]]]].
  exists cls, s, e, e'. split; [exact Ev|]. split; [exact Ev'|]. split; [exact Hs|]. split; [exact Hnames|]. split.
  - intros n a l [f [key [Hf [Ht Hk]]]] Hl. destruct (Hmem n (VArr l) Hl) as [x' [Hsm Hx']].
    unfold sort_member in Hsm. cbn [fst snd] in Hsm. rewrite Hf, Ht, Hk in Hsm. apply bind_ok in Hsm. destruct Hsm as [ks [Hks Hsm]]. inversion Hsm; subst x'.
    exists (sort_values ks l). split; [exact Hx'|]. apply sort_values_keyed_sorted. exact Hks.
  - intros n x Hnk Hnv Hx. destruct (Hmem n x Hx) as [x' [Hsm Hx']]. rewrite Hx'. f_equal.
    unfold sort_member in Hsm. cbn [fst snd] in Hsm.
    destruct (find_field (non_const (s_fields s)) n) as [f|] eqn:Hf; [|inversion Hsm; reflexivity].
    destruct (f_type f) as [i|t|a] eqn:Ht; [inversion Hsm; reflexivity| |].
    + destruct (lookup_struct (n_tm N) t) as [s'|] eqn:Hst; [|inversion Hsm; reflexivity].
      apply bind_ok in Hsm. destruct Hsm as [c [Hc Hsm]]. destruct c; [|inversion Hsm; reflexivity].
      exfalso. apply Hnv. exists f, t, s'. auto.
    + destruct (a_sort_key a) as [key|] eqn:Hk; [|inversion Hsm; reflexivity].
      exfalso. apply (Hnk a). exists f, key. auto.
Qed.

(* every object that sort() visits, at whatever depth, is a sorted object in that sense *)
Theorem sort_value_every_depth N fuel v v' w w' : sort_value N fuel v = Ok v' -> visits N v v' w w' ->
  exists cls s e e', w = VStruct cls e /\ w' = VStruct cls e' /\ lookup_struct (n_tm N) cls = Some s /\ map fst e' = map fst e /\
    (forall n a l, keyed_member s n a -> assoc n e = Some (VArr l) -> exists l', assoc n e' = Some (VArr l') /\ keyed_sorted N a l l') /\
    (forall n x, (forall a, ~ keyed_member s n a) -> ~ visited_member N w s n -> assoc n e = Some x -> assoc n e' = Some x).
Proof.
  intros H Hv. destruct (sort_value_visits N v v' w w' Hv fuel H) as [fuel' H']. exact (sort_value_object N fuel' w w' H').
Qed.

(* through create: with autosort on, the created object is extend (id / message post-processing) of the sorted create_core object *)
Theorem autosort_every_depth N emb ident d v' : create N emb true ident d = Ok v' ->
  exists v0 v1, create_core N emb ident d = Ok v0 /\ extend N ident v1 = Ok v' /\
  forall w w', visits N v0 v1 w w' ->
  exists cls s e e', w = VStruct cls e /\ w' = VStruct cls e' /\ lookup_struct (n_tm N) cls = Some s /\ map fst e' = map fst e /\
    (forall n a l, keyed_member s n a -> assoc n e = Some (VArr l) -> exists l', assoc n e' = Some (VArr l') /\ keyed_sorted N a l l') /\
    (forall n x, (forall a, ~ keyed_member s n a) -> ~ visited_member N w s n -> assoc n e = Some x -> assoc n e' = Some x).
Proof.
  intros H. apply create_stages in H. destruct H as [v0 [v1 [H0 [H1 H2]]]]. exists v0, v1. split; [exact H0|]. split; [exact H2|].
  intros w w' Hv. exact (sort_value_every_depth N type_fuel_d v0 v1 w w' H1 Hv).
Qed.

(* ---------- the fuel of sort() ---------- *)
Fixpoint vdepth (v : value) : nat :=
  match v with
  | VArr l => S (fold_right Nat.max 0%nat (map vdepth l))
  | VStruct _ fs => S (fold_right Nat.max 0%nat (map (fun p => vdepth (snd p)) fs))
  | _ => 0%nat
  end.

Lemma vdepth_member cls e p : In p e -> (vdepth (snd p) < vdepth (VStruct cls e))%nat.
Proof.
  intros H. cbn [vdepth]. induction e as [|q r IH]; [destruct H|]. cbn [map fold_right].
  destruct H as [->|H]; [lia|]. apply IH in H. lia.
Qed.

Lemma mapM_ext_in' {A B} (f g : A -> result B) l : (forall x, In x l -> f x = g x) -> mapM f l = mapM g l.
Proof.
  induction l as [|a r IH]; intros H; [reflexivity|]. cbn [mapM]. rewrite (H a (or_introl eq_refl)).
  rewrite IH; [reflexivity|]. intros x Hx. apply H. right. exact Hx.
Qed.

(* sort() recurses on fuel (type_fuel_d = 24 in create): any two amounts above the nesting depth of the object give the same outcome *)
Theorem sort_fuel_irrelevant N : forall k1 k2 v, (vdepth v < k1)%nat -> (vdepth v < k2)%nat -> sort_value N k1 v = sort_value N k2 v.
Proof.
  induction k1 as [|k1 IH]; intros k2 v H1 H2; [lia|]. destruct k2 as [|k2]; [lia|].
  destruct v as [z|b|l|cls e|]; try reflexivity. rewrite !sort_value_step.
  destruct (lookup_struct (n_tm N) cls) as [s|]; [|reflexivity].
  rewrite (mapM_ext_in' (fun p => bind (sort_member N k1 (VStruct cls e) (non_const (s_fields s)) p) (fun x => Ok (fst p, x)))
                        (fun p => bind (sort_member N k2 (VStruct cls e) (non_const (s_fields s)) p) (fun x => Ok (fst p, x))) e); [reflexivity|].
  intros p Hp. f_equal. unfold sort_member.
  destruct (find_field (non_const (s_fields s)) (fst p)) as [f|]; [|reflexivity].
  destruct (f_type f) as [i|t|a]; try reflexivity.
  destruct (lookup_struct (n_tm N) t); [|reflexivity].
  destruct (cond_self (n_tm N) (m_R (n_tm N)) (non_const (s_fields s)) (encode_strs (VStruct cls e)) f) as [c| |]; cbn [bind]; try reflexivity.
  destruct c; [|reflexivity]. pose proof (vdepth_member cls e p Hp) as Hd.
  destruct (snd p) eqn:Ep; try reflexivity; apply IH; lia.
Qed.
