(* create as a whole (Sym/Descriptor.v): the described values of Sym/DescriptorNestedProofs.v carried through sort() and the id / message
   post-processing, as one statement about the object create returns. *)
From Symv Require Import Sym.Descriptor Sym.DescriptorProofs Sym.DescriptorNestedProofs Sym.DescriptorSortProofs
  Cats.LayoutProofs Cats.LayoutInstProofs Cats.SortProofs.
From Coq Require Import Lia ZifyBool Permutation Sorted.
Open Scope string_scope.
Open Scope list_scope.
Open Scope Z_scope.

(* how member n of the object v0 (struct s), holding y0 after the copy, is arranged in the finished object: with autosort, a keyed
   array is brought into canonical order, an object that sort() visits is sorted in turn, anything else is kept; without, all is kept *)
Definition arranged (N : netcfg) (autosort : bool) (v0 : value) (s : struct) (n : string) (y0 y : value) : Prop :=
  if autosort then
    (exists a l l', keyed_member s n a /\ y0 = VArr l /\ y = VArr l' /\ keyed_sorted N a l l')
    \/ (visited_member N v0 s n /\ exists fuel, sort_value N fuel y0 = Ok y)
    \/ ((forall a, ~ keyed_member s n a) /\ ~ visited_member N v0 s n /\ y = y0)
  else y = y0.

(* the member the post-processing writes: the generated id (symbol), the encoded message (nem) *)
Definition post_member (N : netcfg) : string := match n_flavor N with Symbol => "id" | Nem => "message" end.

Lemma sort_value_members N fuel cls e s v1 : sort_value N fuel (VStruct cls e) = Ok v1 -> lookup_struct (n_tm N) cls = Some s ->
  exists e1, v1 = VStruct cls e1 /\ map fst e1 = map fst e /\
    forall n y0, assoc n e = Some y0 -> exists y, assoc n e1 = Some y /\ arranged N true (VStruct cls e) s n y0 y.
Proof.
  intros H Hs. apply sort_value_struct in H. destruct H as [k [c0 [s0 [e0 [e1 [-> [Ev [Ev' [Hs0 [Hnames Hmem]]]]]]]]]]. inversion Ev; subst c0 e0.
  rewrite Hs in Hs0. inversion Hs0; subst s0. exists e1. split; [exact Ev'|]. split; [exact Hnames|].
  intros n y0 Hy0. destruct (Hmem n y0 Hy0) as [y [Hsm Hy]]. exists y. split; [exact Hy|]. unfold arranged.
  unfold sort_member in Hsm. cbn [fst snd] in Hsm.
  assert (Hneither : forall f, find_field (non_const (s_fields s)) n = Some f ->
            (forall a, f_type f = FArray a -> a_sort_key a = None) ->
            (forall t s', f_type f = FName t -> lookup_struct (n_tm N) t = Some s' ->
                          cond_self (n_tm N) (m_R (n_tm N)) (non_const (s_fields s)) (encode_strs (VStruct cls e)) f <> Ok true) ->
            (forall a, ~ keyed_member s n a) /\ ~ visited_member N (VStruct cls e) s n).
  { intros f Hf Ha Hn. split.
    - intros a [f' [key [Hf' [Ht' Hk']]]]. rewrite Hf in Hf'. inversion Hf'; subst f'. rewrite (Ha a Ht') in Hk'. discriminate.
    - intros [f' [t [s' [Hf' [Ht' [Hst' Hc']]]]]]. rewrite Hf in Hf'. inversion Hf'; subst f'. exact (Hn t s' Ht' Hst' Hc'). }
  destruct (find_field (non_const (s_fields s)) n) as [f|] eqn:Hf.
  2:{ inversion Hsm; subst y. right. right. split; [|split; [|reflexivity]].
      - intros a [f' [key [Hf' _]]]. congruence.
      - intros [f' [t [s' [Hf' _]]]]. congruence. }
  destruct (f_type f) as [i|t|a] eqn:Ht.
  - inversion Hsm; subst y. right. right. destruct (Hneither f eq_refl) as [H1 H2]; [intros a Ha; congruence|intros t s' Ht'; congruence|]. auto.
  - destruct (lookup_struct (n_tm N) t) as [s'|] eqn:Hst.
    + apply bind_ok in Hsm. destruct Hsm as [c [Hc Hsm]]. destruct c.
      * right. left. split; [exists f, t, s'; auto|]. exists k. destruct y0; try exact Hsm. discriminate.
      * inversion Hsm; subst y. right. right.
        destruct (Hneither f eq_refl) as [H1 H2]; [intros a Ha; congruence|intros t' s'' Ht' _; congruence|]. auto.
    + inversion Hsm; subst y. right. right.
      destruct (Hneither f eq_refl) as [H1 H2]; [intros a Ha; congruence|intros t' s'' Ht' Hst'; congruence|]. auto.
  - destruct (a_sort_key a) as [key|] eqn:Hk.
    + destruct y0 as [| |l| |]; try discriminate. apply bind_ok in Hsm. destruct Hsm as [ks [Hks Hsm]]. inversion Hsm; subst y.
      left. exists a, l, (sort_values ks l). split; [exists f, key; auto|]. split; [reflexivity|]. split; [reflexivity|].
      apply sort_values_keyed_sorted. exact Hks.
    + inversion Hsm; subst y. right. right.
      destruct (Hneither f eq_refl) as [H1 H2]; [intros a' Ha'; congruence|intros t' s'' Ht'; congruence|]. auto.
Qed.

Lemma vset_struct cls e n x : exists e', vset (VStruct cls e) n x = VStruct cls e' /\ map fst e' = map fst e.
Proof. eexists. split; [reflexivity|]. apply (upd_names e n x). Qed.

(* the post-processing keeps the class and the member names, and writes the post member only *)
Lemma extend_struct N ident cls e v' : extend N ident (VStruct cls e) = Ok v' ->
  exists e', v' = VStruct cls e' /\ map fst e' = map fst e /\ forall n, n <> post_member N -> assoc n e' = assoc n e.
Proof.
  intros H. assert (Hother : forall n, n <> post_member N -> vget v' n = vget (VStruct cls e) n).
  { intros n Hn. unfold extend, post_member in *. destruct (n_flavor N); [eapply sym_extend_other|eapply nem_extend_other]; eauto. }
  assert (Hshape : exists e', v' = VStruct cls e' /\ map fst e' = map fst e).
  { unfold extend in H. destruct (n_flavor N).
    - apply sym_extend_spec in H. destruct H as [->|[x ->]]; [eauto|apply vset_struct].
    - unfold nem_extend in H. destruct (enum_member N "TransactionType" "TRANSFER"); [|discriminate].
      destruct (vget (VStruct cls e) "type") as [[t| | | |]|]; try (inversion H; eauto; fail).
      destruct (t =? z); [|inversion H; eauto].
      destruct (vget (VStruct cls e) "message") as [[| | |mc me|]|]; try discriminate; inversion H; eauto. apply vset_struct. }
  destruct Hshape as [e' [-> Hn]]. exists e'. split; [reflexivity|]. split; [exact Hn|]. intros n Hne. exact (Hother n Hne).
Qed.

(* create, all stages: class, member names, every given member (described value, arranged by sort() if autosort) and every member not
   given (constructor default, likewise arranged) -- all members but the one the post-processing writes *)
Theorem create_holds_values_composed N emb autosort ident d v' :
  NoDup (map fst d) -> (forall k dv, In (k, dv) d -> nodup_keys dv) -> create N emb autosort ident d = Ok v' ->
  let d1 := dict_set d (n_network_key N) (DInt ident) in
  exists s name cls st e0 v0 e',
    assoc "type" d1 = Some (DStr s) /\ In (name, cls) (n_names N emb) /\ str_is name s = true /\
    lookup_struct (n_tm N) cls = Some st /\ new_instance N cls = Ok (VStruct cls e0) /\ create_core N emb ident d = Ok v0 /\
    v' = VStruct cls e' /\ map fst e' = map fst e0 /\
    (forall k dv, In (k, dv) d1 -> k <> "type" ->
       exists f x old, member_of N cls k = Some f /\ ends_with k "_computed" = false /\ described_entry N cls k dv x /\
                       assoc (f_name f) e0 = Some old /\
                       (f_name f <> post_member N ->
                        exists y, vget v' (f_name f) = Some y /\ arranged N autosort v0 st (f_name f) (encode_str (stored x old)) y)) /\
    (forall n dflt, (forall k dv f, In (k, dv) d1 -> k <> "type" -> member_of N cls k = Some f -> f_name f <> n) ->
       n <> post_member N -> assoc n e0 = Some dflt ->
       exists y, vget v' n = Some y /\ arranged N autosort v0 st n (encode_str dflt) y).
Proof.
  intros Hnd Hsub H d1. apply create_stages in H. destruct H as [v0 [v1 [H0 [H1 H2]]]].
  destruct (create_core_holds_nested N emb ident d v0 Hnd Hsub H0) as [s [name [cls [e0 [e0' [Ht [Hin [Hs [Hi [Hv0 [Hn0 [Hgiven Hother]]]]]]]]]]]].
  fold d1 in Ht, Hgiven, Hother. subst v0.
  destruct (new_instance_struct N cls cls e0 Hi) as [_ [st [Hst _]]].
  assert (Hsorted : exists e1, v1 = VStruct cls e1 /\ map fst e1 = map fst e0' /\
            forall n y0, assoc n e0' = Some y0 -> exists y, assoc n e1 = Some y /\ arranged N autosort (VStruct cls e0') st n y0 y).
  { destruct autosort.
    - exact (sort_value_members N type_fuel_d cls e0' st v1 H1 Hst).
    - inversion H1; subst v1. exists e0'. split; [reflexivity|]. split; [reflexivity|]. intros n y0 Hy0. exists y0. split; [exact Hy0|reflexivity]. }
  destruct Hsorted as [e1 [-> [Hn1 Hmem]]].
  destruct (extend_struct N ident cls e1 v' H2) as [e' [-> [Hn2 Hpost]]].
  exists s, name, cls, st, e0, (VStruct cls e0'), e'.
  split; [exact Ht|]. split; [exact Hin|]. split; [exact Hs|]. split; [exact Hst|]. split; [exact Hi|]. split; [exact H0|].
  split; [reflexivity|]. split; [congruence|]. split.
  - intros k dv Hkd Hne. destruct (Hgiven k dv Hkd Hne) as [f [x [old [Hm [Hc [Hd [Ho Hg]]]]]]].
    exists f, x, old. split; [exact Hm|]. split; [exact Hc|]. split; [exact Hd|]. split; [exact Ho|]. intros Hp.
    rewrite vget_assoc in Hg. destruct (Hmem _ _ Hg) as [y [Hy Ha]]. exists y. split; [|exact Ha].
    rewrite vget_assoc, (Hpost _ Hp). exact Hy.
  - intros n dflt Hn Hp Hdf. pose proof (Hother n Hn) as Hg. rewrite vget_assoc, Hdf in Hg. cbn [option_map] in Hg.
    destruct (Hmem _ _ Hg) as [y [Hy Ha]]. exists y. split; [|exact Ha]. rewrite vget_assoc, (Hpost _ Hp). exact Hy.
Qed.

(* the constructors recurse on fuel over the schema's type nesting (type_fuel_d): a check, for a schema, that no class runs out of it *)
Definition constructors_within_fuel (N : netcfg) : bool :=
  forallb (fun d => match d with
                    | DStruct s => match new_instance N (s_name s) with Crash k => negb (String.eqb k "OutOfFuel") | _ => true end
                    | _ => true
                    end) (n_tm N).
