(* HMAC (RFC 2104), HKDF-SHA256 (RFC 5869), PBKDF2-HMAC-SHA512 (RFC 8018). Model file: definitions only. *)
From Symv Require Export Base.Bytes.
From Symv Require Export Sym.Sha2.
Open Scope Z_scope.

(* key brought to exactly one block: hashed if longer than a block, then zero-padded *)
Definition hmac_key (H : bytes -> bytes) (block : nat) (key : bytes) : bytes :=
  let k0 := if (block <? length key)%nat then H key else key in
  k0 ++ zeros (block - length k0).

Definition hmac (H : bytes -> bytes) (block : nat) (key msg : bytes) : bytes :=
  let k := hmac_key H block key in
  H (map (Z.lxor 0x5c) k ++ H (map (Z.lxor 0x36) k ++ msg)).

Definition hmac_sha512 : bytes -> bytes -> bytes := hmac sha512 128.
Definition hmac_sha256 : bytes -> bytes -> bytes := hmac sha256 64.

(* ---- HKDF-SHA256: PRK = HMAC(salt, ikm); T(i) = HMAC(PRK, T(i-1) ++ info ++ [i]), i = 1.. ----
   The salt is the HMAC key as given (an empty salt and 32 zero bytes give the same PRK, as in the RFC).
   RFC 5869 requires len <= 255 * 32. *)
Fixpoint hkdf_sha256_blocks (n : nat) (prk info t : bytes) (i : Z) : bytes :=
  match n with
  | O => []
  | S k => let t' := hmac_sha256 prk (t ++ info ++ [Z.land i 255]) in
           t' ++ hkdf_sha256_blocks k prk info t' (i + 1)
  end.

Definition hkdf_sha256 (salt ikm info : bytes) (len : nat) : bytes :=
  let prk := hmac_sha256 salt ikm in
  firstn len (hkdf_sha256_blocks ((len + 31) / 32)%nat prk info [] 1).

(* ---- PBKDF2: T_i = U_1 xor ... xor U_c, U_1 = PRF(salt ++ INT_BE32(i)), U_j = PRF(U_(j-1)) ---- *)
Fixpoint pbkdf2_f (prf : bytes -> bytes) (n : nat) (u acc : bytes) : bytes :=
  match n with
  | O => acc
  | S k => let u' := prf u in pbkdf2_f prf k u' (xor_bytes acc u')
  end.

Definition pbkdf2 (prf : bytes -> bytes) (hlen : nat) (salt : bytes) (iters dklen : nat) : bytes :=
  firstn dklen
    (flat_map (fun i => pbkdf2_f prf iters (salt ++ to_be 4 (Z.of_nat i)) (zeros hlen))
              (seq 1 ((dklen + hlen - 1) / hlen)%nat)).

(* HMAC-SHA512 under a fixed key with the ipad/opad blocks absorbed once: equal to [hmac_sha512 key] *)
Definition hmac_sha512_keyed (key : bytes) : bytes -> bytes :=
  let k := hmac_key sha512 128 key in
  let si := sha512_compress sha512_iv (map (Z.lxor 0x36) k) in
  let so := sha512_compress sha512_iv (map (Z.lxor 0x5c) k) in
  fun msg => sha512_from so 128 (sha512_from si 128 msg).

Definition pbkdf2_hmac_sha512 (password salt : bytes) (iters dklen : nat) : bytes :=
  pbkdf2 (hmac_sha512_keyed password) 64 salt iters dklen.

(* same function through the generic [hmac] (4 compressions per iteration instead of 2) *)
Definition pbkdf2_hmac_sha512_ref (password salt : bytes) (iters dklen : nat) : bytes :=
  pbkdf2 (hmac_sha512 password) 64 salt iters dklen.
