(* Proofs about Sym/Bip32.v (which is instantiated with the constants regenerated into Gen/Bip32Ops.v). *)
From Symv Require Import Base.Bytes Base.PyOps Base.BytesLemmas Sym.Sha2 Sym.Hmac Sym.Bip32.
From Coq Require Import Lia ZifyBool.
Open Scope Z_scope.

(* ---- fixed-text specifications (never regenerated) ---- *)
(* the 64-byte HMAC result split into (private key, chain code) *)
Definition split64 (r : bytes) : node := {| private_key := firstn 32 r; chain_code := skipn 32 r |}.
(* SLIP-10 hardened child of a node: HMAC keyed by the chain code over 0x00 || key || BE32(2^31 + i) *)
Definition slip10_child (HM : bytes -> bytes -> bytes) (n : node) (i : Z) : node :=
  split64 (HM (chain_code n) (0 :: private_key n ++ to_be 4 (2 ^ 31 + i))).
(* same with the index written as it is (no hardening offset added) *)
Definition slip10_child_raw (HM : bytes -> bytes -> bytes) (n : node) (i : Z) : node :=
  split64 (HM (chain_code n) (0 :: private_key n ++ to_be 4 i)).
Definition slip10_root (HM : bytes -> bytes -> bytes) (curve seed : bytes) : node :=
  split64 (HM (curve ++ of_string " seed") seed).
Definition hardened_index (i : Z) : Prop := 0 <= i < 2 ^ 31.
Definition writable_index (i : Z) : Prop := 0 <= i < 2 ^ 32.
Definition wf_node (n : node) : Prop := length (private_key n) = 32%nat.
Definition mainnet : bytes := of_string "mainnet".

(* ---- 0x80000000 | i ---- *)
Lemma lor_harden i : 0 <= i < 2 ^ 31 -> Z.lor (2 ^ 31) i = 2 ^ 31 + i.
Proof.
  intros Hi. rewrite Z.lor_comm, lor_pow2 by lia.
  rewrite (testbit_top i 31) by (change (2 ^ (31 + 1)) with (2 * 2 ^ 31); lia).
  destruct (Z.leb_spec (2 ^ 31) i); lia.
Qed.

Lemma lor_harden_high i : 2 ^ 31 <= i < 2 ^ 32 -> Z.lor (2 ^ 31) i = i.
Proof.
  intros Hi. rewrite Z.lor_comm, lor_pow2 by lia.
  rewrite (testbit_top i 31) by (change (2 ^ (31 + 1)) with (2 ^ 32); lia).
  destruct (Z.leb_spec (2 ^ 31) i); lia.
Qed.

Lemma lor_harden_ge i : i <= Z.lor (2 ^ 31) i.
Proof. rewrite Z.lor_comm, lor_pow2 by lia. destruct (Z.testbit i 31); lia. Qed.

Lemma lor_harden_neg i : i < 0 -> Z.lor (2 ^ 31) i < 0.
Proof. intros Hi. apply Z.lor_neg. now right. Qed.

(* ---- write_int ---- *)
Lemma write_int_ok order v n : 0 <= v < 2 ^ (8 * Z.of_nat n) -> write_int order v n = Ok (int_to_bytes order n v).
Proof. intros Hv. unfold write_int. destruct (Z.leb_spec 0 v), (Z.ltb_spec v (2 ^ (8 * Z.of_nat n))); try lia. reflexivity. Qed.

Lemma write_int_overflow order v n : v < 0 \/ 2 ^ (8 * Z.of_nat n) <= v -> write_int order v n = Crash "OverflowError".
Proof. intros Hv. unfold write_int. destruct (Z.leb_spec 0 v), (Z.ltb_spec v (2 ^ (8 * Z.of_nat n))); try lia; reflexivity. Qed.

(* ---- the two slices ---- *)
Lemma node_of_hmac_split r : node_of_hmac r = split64 r.
Proof. reflexivity. Qed.

Lemma bind_crash {A B} k (f : A -> result B) : bind (Crash k) f = Crash k.
Proof. reflexivity. Qed.

Section WithHmac.
Variable HM : bytes -> bytes -> bytes.

Lemma derive_one_unfold n i :
  derive_one HM n i =
  bind (write_int BigE (Z.lor (2 ^ 31) i) 4) (fun index => Ok (split64 (HM (chain_code n) (0 :: private_key n ++ index)))).
Proof. reflexivity. Qed.

Lemma derive_one_slip10 n i : hardened_index i -> derive_one HM n i = Ok (slip10_child HM n i).
Proof.
  intros Hi. unfold hardened_index in Hi. rewrite derive_one_unfold, lor_harden by exact Hi.
  rewrite write_int_ok by (change (2 ^ (8 * Z.of_nat 4)) with (2 ^ 31 + 2 ^ 31); lia). reflexivity.
Qed.

(* an index that already carries the hardening bit is accepted and written as it is: i and i - 2^31 give the same child *)
Lemma derive_one_high n i : 2 ^ 31 <= i < 2 ^ 32 -> derive_one HM n i = Ok (slip10_child_raw HM n i).
Proof.
  intros Hi. rewrite derive_one_unfold, lor_harden_high by exact Hi.
  rewrite write_int_ok by (change (2 ^ (8 * Z.of_nat 4)) with (2 ^ 32); lia). reflexivity.
Qed.

Lemma derive_one_not_hardened_twice n i : 2 ^ 31 <= i < 2 ^ 32 -> derive_one HM n i = derive_one HM n (i - 2 ^ 31).
Proof.
  intros Hi. rewrite derive_one_high by exact Hi. rewrite derive_one_slip10 by (unfold hardened_index; change (2 ^ 32) with (2 ^ 31 + 2 ^ 31) in Hi; lia).
  unfold slip10_child, slip10_child_raw. now replace (2 ^ 31 + (i - 2 ^ 31)) with i by lia.
Qed.

Lemma derive_one_out_of_range n i : ~ writable_index i -> derive_one HM n i = Crash "OverflowError".
Proof.
  intros Hi. unfold writable_index in Hi. rewrite derive_one_unfold.
  rewrite write_int_overflow; [reflexivity|]. change (2 ^ (8 * Z.of_nat 4)) with (2 ^ 32).
  destruct (Z.ltb_spec i 0) as [Hneg|Hpos]; [left; now apply lor_harden_neg | right; pose proof (lor_harden_ge i); lia].
Qed.

Lemma derive_one_writable n i : writable_index i -> exists m, derive_one HM n i = Ok m.
Proof.
  intros Hi. unfold writable_index in Hi. destruct (Z.ltb_spec i (2 ^ 31)).
  - eexists. apply derive_one_slip10. unfold hardened_index. lia.
  - eexists. apply derive_one_high. lia.
Qed.

(* ---- derive_path ---- *)
Lemma derive_path_from_app p q s : derive_path_from HM (p ++ q) s = derive_path_from HM q (derive_path_from HM p s).
Proof. apply fold_left_app. Qed.

Lemma derive_path_app p q n : derive_path HM (p ++ q) n = derive_path_from HM q (derive_path HM p n).
Proof. apply derive_path_from_app. Qed.

Lemma derive_path_from_ok q m : derive_path_from HM q (Ok m) = derive_path HM q m.
Proof. reflexivity. Qed.

Lemma derive_path_from_crash q k : derive_path_from HM q (Crash k) = Crash k.
Proof. induction q as [|i q IH]; [reflexivity | exact IH]. Qed.

Lemma derive_path_from_reject q : derive_path_from HM q Reject = Reject.
Proof. induction q as [|i q IH]; [reflexivity | exact IH]. Qed.

Lemma derive_path_from_bind q s : derive_path_from HM q s = bind s (derive_path HM q).
Proof. destruct s; [reflexivity | apply derive_path_from_reject | apply derive_path_from_crash]. Qed.

Lemma derive_path_app_bind p q n : derive_path HM (p ++ q) n = bind (derive_path HM p n) (derive_path HM q).
Proof. rewrite derive_path_app. apply derive_path_from_bind. Qed.

Lemma derive_path_app_ok p q n m : derive_path HM p n = Ok m -> derive_path HM (p ++ q) n = derive_path HM q m.
Proof. intros E. now rewrite derive_path_app, E. Qed.

Lemma derive_path_nil n : derive_path HM [] n = Ok n.
Proof. reflexivity. Qed.

Lemma derive_path_cons i p n : derive_path HM (i :: p) n = bind (derive_one HM n i) (derive_path HM p).
Proof. change (i :: p) with ([i] ++ p). rewrite derive_path_app_bind. reflexivity. Qed.

Lemma derive_path_slip10 p n : Forall hardened_index p -> derive_path HM p n = Ok (fold_left (slip10_child HM) p n).
Proof.
  revert n. induction p as [|i p IH]; intros n Hp; [reflexivity|].
  inversion Hp as [|? ? Hi Hr]; subst. rewrite derive_path_cons, derive_one_slip10 by exact Hi. cbn [bind fold_left]. now apply IH.
Qed.

Lemma derive_path_writable p n : Forall writable_index p -> exists m, derive_path HM p n = Ok m.
Proof.
  revert n. induction p as [|i p IH]; intros n Hp; [now exists n|].
  inversion Hp as [|? ? Hi Hr]; subst. destruct (derive_one_writable n i Hi) as [m Hm].
  rewrite derive_path_cons, Hm. cbn [bind]. now apply IH.
Qed.

Lemma derive_path_out_of_range p n : Exists (fun i => ~ writable_index i) p -> derive_path HM p n = Crash "OverflowError".
Proof.
  revert n. induction p as [|i p IH]; intros n Hp; [inversion Hp|].
  rewrite derive_path_cons.
  assert (Hdec : writable_index i \/ ~ writable_index i) by (unfold writable_index; lia).
  destruct Hdec as [Hi|Hi].
  - destruct (derive_one_writable n i Hi) as [m Hm]. rewrite Hm. cbn [bind]. apply IH.
    inversion Hp as [? ? Hbad|? ? Hrest]; subst; [contradiction | exact Hrest].
  - now rewrite derive_one_out_of_range.
Qed.

(* ---- roots ---- *)
Lemma root_label curve seed : from_seed HM curve seed = slip10_root HM curve seed.
Proof. reflexivity. Qed.

Lemma from_mnemonic_eq_from_seed curve mnemonic passphrase :
  from_mnemonic HM curve mnemonic passphrase
  = from_seed HM curve (pbkdf2 (HM mnemonic) 64 (of_string "mnemonic" ++ passphrase) 2048 64).
Proof. reflexivity. Qed.

(* ---- sizes: with a 64-byte HMAC every node has a 32-byte key (so PrivateKey(...) in Bip32Node.__init__ never rejects) ---- *)
Hypothesis HM_len : forall k d, length (HM k d) = 64%nat.

Lemma split64_wf r : length r = 64%nat -> wf_node (split64 r) /\ length (chain_code (split64 r)) = 32%nat.
Proof. intros Hr. unfold wf_node, split64. cbn [private_key chain_code]. rewrite firstn_length, skipn_length, Hr. split; reflexivity. Qed.

Lemma from_seed_wf curve seed : wf_node (from_seed HM curve seed).
Proof. rewrite root_label. apply split64_wf, HM_len. Qed.

Lemma derive_one_wf n i m : derive_one HM n i = Ok m -> wf_node m.
Proof.
  rewrite derive_one_unfold. destruct (write_int BigE (Z.lor (2 ^ 31) i) 4) as [w| |k]; cbn [bind]; try discriminate.
  intros E. injection E as <-. apply split64_wf, HM_len.
Qed.

Lemma derive_path_wf p n m : wf_node n -> derive_path HM p n = Ok m -> wf_node m.
Proof.
  revert n. induction p as [|i p IH]; intros n Hn.
  - intros E. injection E as <-. exact Hn.
  - rewrite derive_path_cons. destruct (derive_one HM n i) as [c| |k] eqn:Ec; cbn [bind]; try discriminate.
    apply IH. exact (derive_one_wf n i c Ec).
Qed.

End WithHmac.

(* ---- SHA-512 / HMAC-SHA512 output length ---- *)
Lemma length_to_be n x : length (to_be n x) = n.
Proof. unfold to_be. now rewrite rev_length, length_to_le. Qed.

Lemma sha512_from_length s done m : length (sha512_from s done m) = 64%nat.
Proof.
  unfold sha512_from. destruct (fold_left sha512_compress _ s) as [[[[[[[a b] c] d] e] f] g] h].
  cbn [st8_list flat_map]. rewrite !app_length, !length_to_be. reflexivity.
Qed.

Lemma hmac_sha512_length k d : length (hmac_sha512 k d) = 64%nat.
Proof. unfold hmac_sha512, hmac, sha512. apply sha512_from_length. Qed.

(* ---- the keyed HMAC used for evaluation equals the generic one ---- *)
Lemma chunks_fuel_irrelevant n f1 : (0 < n)%nat -> forall f2 l, (length l <= f1)%nat -> (length l <= f2)%nat ->
  chunks_fuel f1 n l = chunks_fuel f2 n l.
Proof.
  intros Hn. induction f1 as [|f1 IH]; intros f2 l H1 H2.
  - destruct l; [destruct f2; reflexivity | cbn in H1; lia].
  - destruct l as [|x r]; [destruct f2; reflexivity|].
    destruct f2 as [|f2]; [cbn in H2; lia|].
    cbn [chunks_fuel]. f_equal.
    assert (Hs : (length (skipn n (x :: r)) <= length r)%nat) by (rewrite skipn_length; cbn [length]; lia).
    cbn [length] in H1, H2. apply IH; lia.
Qed.

Lemma chunks_fuel_enough n fuel l : (0 < n)%nat -> (length l <= fuel)%nat -> chunks_fuel fuel n l = chunks_fuel (length l) n l.
Proof. intros Hn Hl. apply chunks_fuel_irrelevant; [exact Hn | exact Hl | lia]. Qed.

Lemma chunks_app_block n a b : (0 < n)%nat -> length a = n -> chunks n (a ++ b) = a :: chunks n b.
Proof.
  intros Hn Ha. unfold chunks. destruct a as [|x a']; [cbn in Ha; lia|].
  rewrite app_length. cbn [length Nat.add]. cbn [chunks_fuel app].
  change (x :: a' ++ b) with ((x :: a') ++ b).
  rewrite firstn_app, skipn_app, Ha, Nat.sub_diag. cbn [firstn skipn].
  rewrite app_nil_r, firstn_all2 by lia. rewrite skipn_all2 by lia. cbn [app]. f_equal.
  apply chunks_fuel_enough; [exact Hn | lia].
Qed.

Lemma sha2_pad_app block lenbytes done bz a m :
  length a = block -> (0 < block)%nat -> bz = Z.of_nat block ->
  sha2_pad block lenbytes done (a ++ m) = a ++ sha2_pad block lenbytes (done + bz) m.
Proof.
  intros Ha Hb ->. unfold sha2_pad. rewrite app_length, Ha, <- app_assoc.
  replace (- (Z.of_nat (block + length m) + 1 + Z.of_nat lenbytes))
    with (- (Z.of_nat (length m) + 1 + Z.of_nat lenbytes) + (-1) * Z.of_nat block) by lia.
  rewrite Z.mod_add by lia.
  replace (done + Z.of_nat (block + length m)) with (done + Z.of_nat block + Z.of_nat (length m)) by lia.
  reflexivity.
Qed.

Lemma sha512_from_prefix_block s done a m : length a = 128%nat ->
  sha512_from s done (a ++ m) = sha512_from (sha512_compress s a) (done + 128) m.
Proof.
  intros Ha. unfold sha512_from.
  rewrite (sha2_pad_app 128 16 done 128 a m Ha) by (try reflexivity; lia).
  rewrite chunks_app_block by (try exact Ha; lia).
  cbn [fold_left]. reflexivity.
Qed.

Lemma sha512_prefix_block a m : length a = 128%nat -> sha512 (a ++ m) = sha512_from (sha512_compress sha512_iv a) 128 m.
Proof. intros Ha. unfold sha512. rewrite sha512_from_prefix_block by exact Ha. rewrite Z.add_0_l. reflexivity. Qed.

Lemma hmac_key_length H block key : (length (H key) <= block)%nat -> length (hmac_key H block key) = block.
Proof.
  intros HH. unfold hmac_key. rewrite app_length. unfold zeros. rewrite repeat_length.
  destruct (Nat.ltb_spec block (length key)); lia.
Qed.

Lemma hmac_sha512_keyed_eq key msg : hmac_sha512_keyed key msg = hmac_sha512 key msg.
Proof.
  unfold hmac_sha512_keyed, hmac_sha512, hmac.
  assert (Hk : length (hmac_key sha512 128 key) = 128%nat).
  { apply hmac_key_length. unfold sha512. rewrite sha512_from_length. lia. }
  rewrite !sha512_prefix_block by (rewrite map_length; exact Hk). reflexivity.
Qed.

Lemma pbkdf2_f_ext f g n u acc : (forall x, f x = g x) -> pbkdf2_f f n u acc = pbkdf2_f g n u acc.
Proof. intros E. revert u acc. induction n as [|n IH]; intros u acc; cbn [pbkdf2_f]; [reflexivity|]. rewrite E. apply IH. Qed.

Lemma pbkdf2_ext f g hlen salt iters dklen : (forall x, f x = g x) -> pbkdf2 f hlen salt iters dklen = pbkdf2 g hlen salt iters dklen.
Proof.
  intros E. unfold pbkdf2. f_equal.
  induction (seq 1 ((dklen + hlen - 1) / hlen)) as [|i l IH]; [reflexivity|].
  cbn [flat_map]. rewrite IH. f_equal. now apply pbkdf2_f_ext.
Qed.

Lemma from_mnemonic_fast_eq curve mnemonic passphrase :
  from_mnemonic_sha512_fast curve mnemonic passphrase = from_mnemonic_sha512 curve mnemonic passphrase.
Proof.
  unfold from_mnemonic_sha512_fast, from_mnemonic_sha512, from_mnemonic, from_seed_sha512, bip39_to_seed, pbkdf2_hmac_sha512.
  f_equal. apply pbkdf2_ext. intros x. apply hmac_sha512_keyed_eq.
Qed.

(* ---- facade paths ---- *)
Lemma bytes_compare_eq a b : bytes_compare a b = Datatypes.Eq <-> a = b.
Proof.
  revert b. induction a as [|x a IH]; intros [|y b]; cbn [bytes_compare]; try (split; [discriminate | discriminate]); [tauto|].
  destruct (Z.compare_spec x y) as [E|L|G].
  - subst y. rewrite IH. split; [now intros -> | now intros [= ->]].
  - split; [discriminate | intros [= -> _]; lia].
  - split; [discriminate | intros [= -> _]; lia].
Qed.

Lemma str_cmp_eq a b : str_cmp PyOps.Eq a b = if list_eq_dec Z.eq_dec b a then true else false.
Proof.
  unfold str_cmp. destruct (list_eq_dec Z.eq_dec b a) as [E|N].
  - subst b. now rewrite (proj2 (bytes_compare_eq a a) eq_refl).
  - destruct (bytes_compare a b) eqn:C; try reflexivity. apply bytes_compare_eq in C. congruence.
Qed.

Lemma symbol_path network_name account_id :
  symbol_bip32_path network_name account_id
  = [44; if list_eq_dec Z.eq_dec network_name mainnet then 4343 else 1; account_id; 0; 0].
Proof.
  unfold symbol_bip32_path. change sym_name_op with PyOps.Eq. change sym_mainnet_name with mainnet. rewrite str_cmp_eq.
  destruct (list_eq_dec Z.eq_dec network_name mainnet); reflexivity.
Qed.

Lemma nem_path network_name account_id :
  nem_bip32_path network_name account_id
  = [44; if list_eq_dec Z.eq_dec network_name mainnet then 43 else 1; account_id; 0; 0].
Proof.
  unfold nem_bip32_path. change nem_name_op with PyOps.Eq. change nem_mainnet_name with mainnet. rewrite str_cmp_eq.
  destruct (list_eq_dec Z.eq_dec network_name mainnet); reflexivity.
Qed.

Lemma facade_curves :
  sym_curve = of_string "ed25519" /\ nem_curve = of_string "ed25519-keccak" /\ default_curve = of_string "ed25519".
Proof. repeat split. Qed.

(* ---- key pairs ---- *)
Lemma every_nth_1 l : every_nth 1 0 l = l.
Proof. induction l as [|x l IH]; [reflexivity|]. cbn [every_nth Nat.sub]. now rewrite IH. Qed.

Lemma step_slice_minus_1 l : step_slice (-1) l = Ok (rev l).
Proof. unfold step_slice. cbn [Z.ltb Z.compare Z.opp Z.to_nat Pos.to_nat Pos.iter_op]. now rewrite every_nth_1. Qed.

Lemma make_private_key_ok b : length b = 32%nat -> make_private_key b = Ok b.
Proof. intros Hb. unfold make_private_key. change key_size with 32%nat. now rewrite Hb. Qed.

Lemma make_private_key_reject b : length b <> 32%nat -> make_private_key b = Reject.
Proof. intros Hb. unfold make_private_key. change key_size with 32%nat. destruct (Nat.eqb_spec (length b) 32); [contradiction | reflexivity]. Qed.

(* the two reversals (facade, then nem KeyPair) cancel *)
Lemma nem_double_reversal k :
  bind (step_slice (- nem_facade_step_abs) k) (step_slice (- nem_keypair_step_abs)) = Ok k /\ rev (rev k) = k.
Proof.
  change (- nem_facade_step_abs) with (-1). change (- nem_keypair_step_abs) with (-1).
  rewrite step_slice_minus_1. cbn [bind]. rewrite step_slice_minus_1, rev_involutive. split; reflexivity.
Qed.

Section WithPublicKey.
Variable pubkey_sha512 : bytes -> bytes.
Variable pubkey_keccak : bytes -> bytes.

Lemma symbol_key_pair_of_node n :
  symbol_bip32_node_to_key_pair pubkey_sha512 n = {| signing_secret := private_key n; public_key := pubkey_sha512 (private_key n) |}.
Proof. reflexivity. Qed.

Lemma nem_key_pair_of_node n : wf_node n ->
  nem_bip32_node_to_key_pair pubkey_keccak n = Ok {| signing_secret := private_key n; public_key := pubkey_keccak (private_key n) |}.
Proof.
  intros Hn. unfold wf_node in Hn. unfold nem_bip32_node_to_key_pair, nem_key_pair.
  change (- nem_facade_step_abs) with (-1). change (- nem_keypair_step_abs) with (-1).
  rewrite step_slice_minus_1. cbn [bind]. rewrite make_private_key_ok by (now rewrite rev_length). cbn [bind].
  rewrite step_slice_minus_1. cbn [bind]. now rewrite rev_involutive.
Qed.

Lemma nem_key_pair_of_bad_node n : ~ wf_node n -> nem_bip32_node_to_key_pair pubkey_keccak n = Reject.
Proof.
  intros Hn. unfold wf_node in Hn. unfold nem_bip32_node_to_key_pair. change (- nem_facade_step_abs) with (-1).
  rewrite step_slice_minus_1. cbn [bind]. now rewrite make_private_key_reject by (now rewrite rev_length).
Qed.

(* what the public `private_key` property of a NEM key pair shows is the reversed secret *)
Lemma nem_private_key_property kp : length (signing_secret kp) = 32%nat ->
  nem_key_pair_private_key kp = Ok (rev (signing_secret kp)).
Proof.
  intros Hk. unfold nem_key_pair_private_key. change (- nem_getter_step_abs) with (-1).
  rewrite step_slice_minus_1. cbn [bind]. apply make_private_key_ok. now rewrite rev_length.
Qed.

End WithPublicKey.
