(* Further proofs about Sym/Ids.v: the level-by-level law of a namespace path stated as a snoc equation, the mosaic alias id,
   the disjointness of mosaic and namespace identifiers, and the exact shape (length, overlap, tail) of a metadata update payload. *)
From Symv Require Import Base.Bytes Base.PyOps Base.BytesLemmas Sym.Ids Sym.IdsProofs.
From Coq Require Import Lia ZifyBool.
Open Scope Z_scope.

Lemma last_cons_default {A} (x : A) l d : last (x :: l) d = last l x.
Proof.
  revert x d; induction l as [|y l IH]; intros x d; [reflexivity|].
  change (last (x :: y :: l) d) with (last (y :: l) d). change (last (y :: l) x) with (last (y :: l) x).
  rewrite (IH y d), (IH y x). reflexivity.
Qed.

Section WithHash.
Variable H : bytes -> bytes.
Hypothesis H_wf : forall x, wf_bytes (H x) = true.

(* each level's id is the next parent: appending a level appends the id of that name under the last id so far *)
Lemma path_spec_snoc parent parts name :
  path_spec H parent (parts ++ [name]) =
  path_spec H parent parts ++ [namespace_id_spec H name (last (path_spec H parent parts) parent)].
Proof.
  revert parent; induction parts as [|p ps IH]; intros parent; [reflexivity|].
  cbn [app path_spec]. rewrite IH. cbn [app]. rewrite last_cons_default. reflexivity.
Qed.

Lemma path_spec_app parent ps qs :
  path_spec H parent (ps ++ qs) = path_spec H parent ps ++ path_spec H (last (path_spec H parent ps) parent) qs.
Proof.
  revert parent; induction ps as [|p ps IH]; intros parent; [reflexivity|].
  cbn [app path_spec]. rewrite IH. cbn [app]. rewrite last_cons_default. reflexivity.
Qed.

Lemma path_spec_all_namespace_ids parent parts :
  Forall (fun id => 2 ^ 63 <= id < 2 ^ 64) (path_spec H parent parts).
Proof.
  revert parent; induction parts as [|p ps IH]; intros parent; cbn [path_spec]; constructor; [|apply IH].
  rewrite <- (namespace_id_def H H_wf). apply (namespace_id_range H H_wf).
Qed.

Lemma path_spec_nonempty parent parts : parts <> [] -> path_spec H parent parts <> [].
Proof. destruct parts; [congruence | cbn; discriminate]. Qed.

Lemma last_in {A} (l : list A) d : l <> [] -> In (last l d) l.
Proof.
  induction l as [|x l IH]; [congruence|]. intros _. destruct l as [|y l]; [left; reflexivity|].
  right. apply IH. discriminate.
Qed.

(* the alias id of a mosaic is the id of the last level of its path; it is a namespace id (top bit set), never a mosaic id *)
Lemma mosaic_alias_id_def fqn :
  generate_mosaic_alias_id H fqn =
  if forallb valid_name_spec (split_on 46 fqn) then Some (last (path_spec H 0 (split_on 46 fqn)) 0) else None.
Proof.
  unfold generate_mosaic_alias_id. rewrite (namespace_path_def H H_wf).
  destruct (forallb valid_name_spec (split_on 46 fqn)); reflexivity.
Qed.

Lemma mosaic_alias_id_range fqn id : generate_mosaic_alias_id H fqn = Some id -> 2 ^ 63 <= id < 2 ^ 64.
Proof.
  rewrite mosaic_alias_id_def. destruct (forallb valid_name_spec (split_on 46 fqn)); [|discriminate].
  intros E. injection E as <-.
  pose proof (path_spec_all_namespace_ids 0 (split_on 46 fqn)) as Hall. rewrite Forall_forall in Hall.
  apply Hall. apply last_in. apply path_spec_nonempty. apply split_on_nonempty.
Qed.

(* a path has as many ids as dotted parts, and a path is defined exactly when the alias id is *)
Lemma namespace_path_length fqn p : generate_namespace_path H fqn = Some p -> length p = length (split_on 46 fqn).
Proof.
  rewrite (namespace_path_def H H_wf). destruct (forallb valid_name_spec (split_on 46 fqn)); [|discriminate].
  intros E. injection E as <-. apply path_length.
Qed.

Lemma namespace_path_shape fqn p : generate_namespace_path H fqn = Some p ->
  length p = length (split_on 46 fqn) /\ Forall (fun id => 2 ^ 63 <= id < 2 ^ 64) p.
Proof.
  intros E. split; [now apply namespace_path_length|].
  rewrite (namespace_path_def H H_wf) in E. destruct (forallb valid_name_spec (split_on 46 fqn)); [|discriminate].
  injection E as <-. apply path_spec_all_namespace_ids.
Qed.

End WithHash.

(* the update payload: as long as the longer of the two values; on the overlap it is old xor new; beyond the overlap it is the
   tail of the longer value *)
Lemma update_value_length old_value new_value :
  length (metadata_update_value old_value new_value) =
  match old_value with [] => length new_value | _ => Nat.max (length old_value) (length new_value) end.
Proof.
  unfold metadata_update_value. destruct old_value as [|o os] eqn:Hold; [reflexivity|].
  rewrite <- Hold. clear Hold o os.
  change md_len_op with Gt. cbn [cmp].
  rewrite app_length, map_length, combine_length, !firstn_length.
  destruct (Z.ltb_spec (Z.of_nat (length new_value)) (Z.of_nat (length old_value))); rewrite skipn_length; lia.
Qed.

Lemma update_value_nonempty old_value new_value : old_value <> [] ->
  metadata_update_value old_value new_value =
  let shorter := Nat.min (length old_value) (length new_value) in
  map (fun p => ev2 md_xor_op (fst p) (snd p)) (combine (firstn shorter old_value) (firstn shorter new_value))
  ++ skipn shorter (if cmp md_len_op (Z.of_nat (length old_value)) (Z.of_nat (length new_value)) then old_value else new_value).
Proof. destruct old_value; [congruence | reflexivity]. Qed.

Lemma update_value_overlap old_value new_value i :
  old_value <> [] -> (i < Nat.min (length old_value) (length new_value))%nat ->
  nth i (metadata_update_value old_value new_value) 0 = Z.lxor (nth i old_value 0) (nth i new_value 0).
Proof.
  intros Hne Hi. rewrite update_value_nonempty by assumption. cbv zeta.
  change md_xor_op with BitXor. cbn [ev2].
  set (s := Nat.min (length old_value) (length new_value)) in *.
  rewrite app_nth1 by (rewrite map_length, combine_length, !firstn_length; lia).
  change 0 with ((fun p : Z * Z => Z.lxor (fst p) (snd p)) (0, 0)) at 1.
  rewrite map_nth, combine_nth by (rewrite !firstn_length; lia). cbn [fst snd].
  rewrite <- (firstn_skipn s old_value) at 2. rewrite <- (firstn_skipn s new_value) at 2.
  rewrite !app_nth1 by (rewrite firstn_length; lia). reflexivity.
Qed.

Lemma update_value_tail old_value new_value i :
  old_value <> [] -> (Nat.min (length old_value) (length new_value) <= i)%nat ->
  nth i (metadata_update_value old_value new_value) 0 =
  if (length new_value <? length old_value)%nat then nth i old_value 0 else nth i new_value 0.
Proof.
  intros Hne Hi. rewrite update_value_nonempty by assumption. cbv zeta.
  change md_len_op with Gt. cbn [cmp].
  set (s := Nat.min (length old_value) (length new_value)) in *.
  assert (Hl : length (map (fun p : Z * Z => ev2 md_xor_op (fst p) (snd p)) (combine (firstn s old_value) (firstn s new_value))) = s)
    by (rewrite map_length, combine_length, !firstn_length; lia).
  rewrite app_nth2 by lia. rewrite Hl.
  destruct (Z.ltb_spec (Z.of_nat (length new_value)) (Z.of_nat (length old_value))) as [Hlt|Hge];
    destruct (Nat.ltb_spec (length new_value) (length old_value)); try lia.
  - rewrite <- (firstn_skipn s old_value) at 2. rewrite app_nth2 by (rewrite firstn_length; lia).
    rewrite firstn_length. replace (Nat.min s (length old_value)) with s by lia. reflexivity.
  - rewrite <- (firstn_skipn s new_value) at 2. rewrite app_nth2 by (rewrite firstn_length; lia).
    rewrite firstn_length. replace (Nat.min s (length new_value)) with s by lia. reflexivity.
Qed.

(* updating a value to itself gives an all-zero payload of the same length *)
Lemma update_value_self v : metadata_update_value v v = repeat 0 (length v).
Proof.
  unfold metadata_update_value. destruct v as [|o os] eqn:Hv; [reflexivity|]. rewrite <- Hv. clear Hv o os.
  change md_xor_op with BitXor. cbn [ev2]. rewrite Nat.min_id, firstn_all.
  destruct (cmp md_len_op _ _); rewrite skipn_all, app_nil_r;
    (induction v as [|x v IH]; [reflexivity | cbn [combine map length repeat fst snd]; rewrite Z.lxor_nilpotent, IH; reflexivity]).
Qed.
