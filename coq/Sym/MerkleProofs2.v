(* Further proofs about the reference Merkle tree of Sym/Merkle.v: how the root composes over concatenation (balanced halves),
   and the "last node duplicated at odd levels" rule stated as an equation between roots. *)
From Symv Require Import Base.Bytes Base.PyOps Sym.Merkle Sym.MerkleProofs.
From Coq Require Import Lia Arith.

Section WithHash.
Variable H : bytes -> bytes.

Lemma even_length_cases {A} (l : list A) : Nat.even (length l) = true -> l = [] \/ exists a b r, l = a :: b :: r /\ Nat.even (length r) = true.
Proof.
  destruct l as [|a [|b r]]; intros E; [left; reflexivity | discriminate | right; exists a, b, r; split; [reflexivity | exact E]].
Qed.

(* pairing is local: an even-length prefix is paired on its own *)
Lemma pair_up_app_even l1 l2 : Nat.even (length l1) = true -> pair_up H (l1 ++ l2) = pair_up H l1 ++ pair_up H l2.
Proof.
  induction l1 as [| a | a b r IH] using list_ind2; intros E; [reflexivity | discriminate |].
  cbn [app pair_up]. rewrite IH by exact E. reflexivity.
Qed.

(* an odd level is paired as if its last node were there twice *)
Lemma pair_up_dup_last l x : Nat.even (length l) = true -> pair_up H (l ++ [x]) = pair_up H (l ++ [x; x]).
Proof. intros E. rewrite !pair_up_app_even by exact E. reflexivity. Qed.

(* ... hence a tree over an odd number (at least three) of leaves has the root of the tree with the last leaf repeated;
   a single leaf is its own root and is NOT hashed with itself *)
Lemma root_dup_last l x : Nat.even (length l) = true -> l <> [] ->
  merkle_root_spec H (l ++ [x]) = merkle_root_spec H (l ++ [x; x]).
Proof.
  intros E Hne. destruct (even_length_cases l E) as [->|(a & b & r & -> & Er)]; [congruence|].
  cbn [app]. rewrite !merkle_root_spec_step.
  change (a :: b :: r ++ [x]) with ((a :: b :: r) ++ [x]). change (a :: b :: r ++ [x; x]) with ((a :: b :: r) ++ [x; x]).
  rewrite pair_up_dup_last by exact E. reflexivity.
Qed.

Lemma root_pair a b : merkle_root_spec H [a; b] = H (a ++ b).
Proof. rewrite merkle_root_spec_step. cbn [pair_up]. apply merkle_root_spec_one. Qed.

Lemma pow2_even k : Nat.even (2 ^ S k) = true.
Proof. rewrite Nat.pow_succ_r'. rewrite Nat.even_mul. reflexivity. Qed.

Lemma div2_S_double n : Nat.div2 (S (2 * n)) = n.
Proof. apply Nat.div2_succ_double. Qed.

(* the root of two balanced halves is the hash of the two half roots: a tree over 2^(k+1) leaves is the full binary tree *)
Lemma root_balanced k : forall l1 l2, length l1 = (2 ^ k)%nat -> length l2 = (2 ^ k)%nat ->
  merkle_root_spec H (l1 ++ l2) = H (merkle_root_spec H l1 ++ merkle_root_spec H l2).
Proof.
  induction k as [|k IH]; intros l1 l2 H1 H2.
  - destruct l1 as [|a [|? ?]]; try discriminate. destruct l2 as [|b [|? ?]]; try discriminate.
    cbn [app]. rewrite root_pair, !merkle_root_spec_one. reflexivity.
  - assert (E1 : Nat.even (length l1) = true) by (rewrite H1; apply pow2_even).
    assert (E2 : Nat.even (length l2) = true) by (rewrite H2; apply pow2_even).
    assert (Hpos : (0 < 2 ^ k)%nat) by (apply Nat.neq_0_lt_0, Nat.pow_nonzero; discriminate).
    rewrite Nat.pow_succ_r' in H1, H2.
    destruct (even_length_cases l1 E1) as [->|(a & b & r & -> & _)]; [cbn in H1; lia|].
    destruct (even_length_cases l2 E2) as [->|(a' & b' & r' & -> & _)]; [cbn in H2; lia|].
    change ((a :: b :: r) ++ a' :: b' :: r') with (a :: b :: (r ++ a' :: b' :: r')).
    rewrite merkle_root_spec_step. change (a :: b :: (r ++ a' :: b' :: r')) with ((a :: b :: r) ++ a' :: b' :: r').
    rewrite pair_up_app_even by exact E1.
    rewrite (merkle_root_spec_step H a b r), (merkle_root_spec_step H a' b' r').
    apply IH; rewrite pair_up_length; [rewrite H1 | rewrite H2]; apply div2_S_double.
Qed.

(* all levels above the leaves have the hash width whatever the leaves are *)
Lemma pair_up_width l : (forall x, length (H x) = 32%nat) -> Forall (fun h => length h = 32%nat) (pair_up H l).
Proof.
  intros HL. induction l as [| a | a b r IH] using list_ind2; cbn [pair_up]; repeat constructor; auto.
Qed.

End WithHash.
