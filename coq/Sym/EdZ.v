(* Concrete Ed25519 arithmetic over Z in extended coordinates, transcribed from symbolchain/external/ed25519.py (itself the
   optimized reference implementation; formulas add-2008-hwcd-3 / dbl-2008-hwcd of RFC 8032 section 5.1.4), with the constants
   regenerated from that file (Gen/KeyPairOps.v), and the two instances of the scheme of Sym/EdAbstract.v:

   * Symbol: SHA-512, RFC 8032 key expansion, the acceptance rules of symbol/KeyPair.py Verifier (all-zero key refused by the SDK;
     then OpenSSL's ED25519_verify: S < L, public key must decode to a curve point (non-canonical encodings are reduced),
     encode([S]B - [h]A) compared with the R bytes; no small-order / subgroup test, S = 0 is not special);
   * NEM: Keccak-512 over the byte-REVERSED private key, the rules of nem/KeyPair.py (zero key refused, S = 0 refused, S must be
     reduced, libsodium's is_valid_point on the public key, same equation).

   NOT proved anywhere in this development: that these formulas implement the group law of edwards25519, i.e. that [edz_ops]
   satisfies [ed_laws] (up to projective equivalence).  It is the named premise [EdZ_group_premise] of Sym/EdAbstractProofs.v,
   supported only by the sampled comparison with `cryptography`/OpenSSL and the harness's reference implementation.

   Deliberately unmodelled corners (never reached with non-negligible probability): libsodium's *_noclamp functions raise when
   the scalar is 0 or the product is the neutral element (h = 0 or r = 0 mod L); ByteArray length checks (keys 32, signatures 64
   bytes) happen before these functions are entered.

   Model file: definitions only. *)
From Symv Require Export Sym.EdAbstract Gen.KeyPairOps.
From Symv Require Import Sym.Keccak Sym.Sha2 Sym.Hmac.
Open Scope Z_scope.

(* ---- field arithmetic ---- *)
Fixpoint pow_mod_pos (x : Z) (e : positive) (m : Z) : Z :=
  match e with
  | xH => x mod m
  | xO e' => let t := pow_mod_pos x e' m in t * t mod m
  | xI e' => let t := pow_mod_pos x e' m in t * t mod m * x mod m
  end.
(* Python pow(x, e, m) for e >= 0 *)
Definition pow_mod (x e m : Z) : Z := match e with Z0 => 1 mod m | Zpos p => pow_mod_pos x p m | Zneg _ => 0 end.

(* pow2(x, p) == pow(x, 2**p, q) *)
Fixpoint pow2 (x : Z) (p : nat) : Z := match p with O => x | S k => pow2 (x * x mod ed_q) k end.

Definition inv (z : Z) : Z :=
  let z2 := z * z mod ed_q in
  let z9 := pow2 z2 2 * z mod ed_q in
  let z11 := z9 * z2 mod ed_q in
  let z2_5_0 := (z11 * z11) mod ed_q * z9 mod ed_q in
  let z2_10_0 := pow2 z2_5_0 5 * z2_5_0 mod ed_q in
  let z2_20_0 := pow2 z2_10_0 10 * z2_10_0 mod ed_q in
  let z2_40_0 := pow2 z2_20_0 20 * z2_20_0 mod ed_q in
  let z2_50_0 := pow2 z2_40_0 10 * z2_10_0 mod ed_q in
  let z2_100_0 := pow2 z2_50_0 50 * z2_50_0 mod ed_q in
  let z2_200_0 := pow2 z2_100_0 100 * z2_100_0 mod ed_q in
  let z2_250_0 := pow2 z2_200_0 50 * z2_50_0 mod ed_q in
  pow2 z2_250_0 5 * z11 mod ed_q.

Definition ed_d : Z := Eval vm_compute in ((- ed_d_num) * inv ed_d_den mod ed_q).
Definition ed_I : Z := Eval vm_compute in (pow_mod ed_i_base ((ed_q - ed_i_sub) / ed_i_div) ed_q).

Definition xrecover (y : Z) : Z :=
  let xx := (y * y - 1) * inv (ed_d * y * y + 1) in
  let x := pow_mod xx ((ed_q + 3) / 8) ed_q in
  let x := if negb ((x * x - xx) mod ed_q =? 0) then (x * ed_I) mod ed_q else x in
  if negb (x mod 2 =? 0) then ed_q - x else x.

(* ---- points: (X, Y, Z, T) with x = X/Z, y = Y/Z, x*y = T/Z ---- *)
Definition point : Type := (Z * Z * Z * Z)%type.

Definition ed_By : Z := Eval vm_compute in (ed_by_num * inv ed_by_den).
Definition ed_Bx : Z := Eval vm_compute in (xrecover ed_By).
Definition ed_B : point := Eval vm_compute in (ed_Bx mod ed_q, ed_By mod ed_q, 1, (ed_Bx * ed_By) mod ed_q).
Definition ed_ident : point := (0, 1, 1, 0).

Definition edwards_add (P Q : point) : point :=
  let '(x1, y1, z1, t1) := P in
  let '(x2, y2, z2, t2) := Q in
  let a := (y1 - x1) * (y2 - x2) mod ed_q in
  let b_ := (y1 + x1) * (y2 + x2) mod ed_q in
  let c := t1 * 2 * ed_d * t2 mod ed_q in
  let dd := z1 * 2 * z2 mod ed_q in
  let e := b_ - a in
  let f := dd - c in
  let g := dd + c in
  let h := b_ + a in
  ((e * f) mod ed_q, (g * h) mod ed_q, (f * g) mod ed_q, (e * h) mod ed_q).

Definition edwards_double (P : point) : point :=
  let '(x1, y1, z1, t1) := P in
  let a := x1 * x1 mod ed_q in
  let b_ := y1 * y1 mod ed_q in
  let c := 2 * z1 * z1 mod ed_q in
  let e := ((x1 + y1) * (x1 + y1) - a - b_) mod ed_q in
  let g := - a + b_ in
  let f := g - c in
  let h := - a - b_ in
  ((e * f) mod ed_q, (g * h) mod ed_q, (f * g) mod ed_q, (e * h) mod ed_q).

(* scalarmult(P, e): Q = scalarmult(P, e // 2); Q = double(Q); if e & 1: Q = add(Q, P) *)
Fixpoint scalarmult_pos (e : positive) (P : point) : point :=
  match e with
  | xH => edwards_add (edwards_double ed_ident) P
  | xO e' => edwards_double (scalarmult_pos e' P)
  | xI e' => edwards_add (edwards_double (scalarmult_pos e' P)) P
  end.
Definition scalarmult (e : Z) (P : point) : point :=
  match e with Zpos p => scalarmult_pos p P | _ => ed_ident end.

(* the operand of libsodium's / OpenSSL's subtraction *)
Definition edwards_neg (P : point) : point :=
  let '(x, y, z, t) := P in ((- x) mod ed_q, y, z, (- t) mod ed_q).

Definition encodepoint (P : point) : bytes :=
  let '(x, y, z, t) := P in
  let zi := inv z in
  let x := (x * zi) mod ed_q in
  let y := (y * zi) mod ed_q in
  to_le 32 (y mod 2 ^ (ed_b - 1) + 2 ^ (ed_b - 1) * (x mod 2)).

Definition isoncurve (P : point) : bool :=
  let '(x, y, z, t) := P in
  negb (z mod ed_q =? 0) && (x * y mod ed_q =? z * t mod ed_q)
  && ((y * y - x * x - z * z - ed_d * t * t) mod ed_q =? 0).

(* sum(base ** i * bit(s, i) for i in range(lo, lo + n)); bit(s, i) of the byte string = bit i of its little-endian value *)
Fixpoint sum_bits (base H i : Z) (n : nat) : Z :=
  match n with O => 0 | S k => base ^ i * Z.b2z (Z.testbit H i) + sum_bits base H (i + 1) k end.
Definition sum_bits_range (base H lo hi : Z) : Z := sum_bits base H lo (Z.to_nat (hi - lo)).

Definition decodepoint (s : bytes) : option point :=
  let H := from_le s in
  let y := sum_bits_range 2 H 0 (ed_b - 1) in
  let x := xrecover y in
  let x := if negb (Z.land x 1 =? Z.b2z (Z.testbit H (ed_b - 1))) then ed_q - x else x in
  let P := (x, y, 1, (x * y) mod ed_q) in
  if isoncurve P then Some P else None.

Definition iscanonical (s : bytes) : bool :=
  cmp can_cmp (sum_bits_range can_base (from_le s) can_lo (ed_b - can_hi_sub)) ed_q.

Definition point_coords (P : point) : list Z := let '(x, y, z, t) := P in [x; y; z; t].
(* the test isinmainsubgroup applies to H = scalarmult(P, l): 0 == H[0] and H[1] == H[2] *)
Definition is_neutral (P : point) : bool :=
  let H := point_coords P in
  cmp ms_x_cmp ms_zero (nth ms_x_idx H 0) && cmp ms_yz_cmp (nth ms_y_idx H 0) (nth ms_z_idx H 0).
Definition isinmainsubgroup (P : point) : bool := is_neutral (scalarmult ed_l P).

Definition edz_ops : ed_ops point :=
  {| g_zero := ed_ident; g_add := edwards_add; g_neg := edwards_neg; g_smul := scalarmult; g_B := ed_B; g_L := ed_l;
     g_enc := encodepoint; g_dec := decodepoint; g_is_zero := is_neutral; g_canonical := iscanonical |}.

(* ---- scalars ---- *)
(* RFC 8032 5.1.5 step 2 (what OpenSSL and libsodium's crypto_scalarmult_ed25519_base do to the first 32 digest bytes) *)
Definition clamp_rfc (h32 : bytes) : Z :=
  from_le (update_nth 31 (fun v => Z.lor (Z.land v 127) 64) (update_nth 0 (fun v => Z.land v 248) h32)).

(* nem/KeyPair.py sign: a[0] &= 0xF8; a[31] &= 0x7F; a[31] |= 0x40 *)
Definition clamp_nem_sign (h32 : bytes) : Z :=
  from_le (update_nth kp_clamp_i2 (fun v => ev2 kp_clamp_op2 v kp_clamp_m2)
          (update_nth kp_clamp_i1 (fun v => ev2 kp_clamp_op1 v kp_clamp_m1)
          (update_nth kp_clamp_i0 (fun v => ev2 kp_clamp_op0 v kp_clamp_m0) h32))).

(* external/ed25519.py: a = 2 ** (b - 2) + sum(2 ** i * bit(h, i) for i in range(3, b - 2)) *)
Definition clamp_dh (digest : bytes) : Z :=
  dh_top_base ^ (ed_b - dh_top_sub) + sum_bits_range dh_bit_base (from_le digest) dh_lo (ed_b - dh_hi_sub).

Definition sym_flavour : flavour :=
  {| fl_hash := sha512; fl_prep := fun k => k;
     fl_scalar_pub := fun d => clamp_rfc (firstn 32 d);
     fl_scalar_sign := fun d => clamp_rfc (firstn 32 d);
     fl_scalar_dh := clamp_dh;
     fl_prefix := skipn 32;
     fl_sig_R := firstn 32; fl_sig_S := skipn 32;
     fl_zero_key := fun pub => cmp_beqb skp_zero_key_cmp (zeros skp_zero_key_len) pub;
     fl_s_ok := fun L sb => Ok (from_le sb <? L);
     fl_bad_s := skp_bad_result; fl_strict_key := false; fl_bad_key := skp_bad_result;
     fl_final := fun b => if b then skp_ok_result else skp_bad_result |}.

(* crypto_core_ed25519_scalar_reduce: exactly 64 bytes in, 32 bytes out *)
Definition scalar_reduce (L : Z) (s : bytes) : result bytes :=
  if (length s =? 64)%nat then Ok (to_le 32 (from_le s mod L)) else Crash "TypeError".

Definition nem_is_reduced_s (L : Z) (encoded_s : bytes) : result bool :=
  bind (scalar_reduce L (encoded_s ++ zeros kp_reduce_pad)) (fun reduced => Ok (cmp_beqb kp_reduced_cmp reduced encoded_s)).

Definition nem_is_canonical_s (L : Z) (encoded_s : bytes) : result bool :=
  if cmp_beqb kp_zero_s_cmp encoded_s (zeros kp_zero_s_len) then Ok kp_zero_s_result else nem_is_reduced_s L encoded_s.

Definition nem_flavour : flavour :=
  {| fl_hash := keccak_512; fl_prep := @rev Z;
     fl_scalar_pub := fun d => clamp_rfc (firstn kp_pub_scalar_to d);
     fl_scalar_sign := fun d => clamp_nem_sign (firstn kp_sign_scalar_to d);
     fl_scalar_dh := clamp_dh;
     fl_prefix := skipn kp_nonce_from;
     fl_sig_R := firstn kp_sig_r_to; fl_sig_S := skipn kp_sig_s_from;
     fl_zero_key := fun pub => cmp_beqb kp_zero_key_cmp (zeros kp_zero_key_len) pub;
     fl_s_ok := nem_is_canonical_s;
     fl_bad_s := kp_bad_s_result; fl_strict_key := true; fl_bad_key := kp_bad_key_result;
     fl_final := fun b => match kp_final_cmp with Eq => b | Ne => negb b | _ => false end |}.

(* ---- the functions that are executed (vm_compute for a few cases, zarith-backed extraction for volume) ---- *)
Definition sym_public_key : bytes -> bytes := public_key edz_ops sym_flavour.
Definition sym_sign : bytes -> bytes -> bytes := sign edz_ops sym_flavour.
Definition sym_verify : bytes -> bytes -> bytes -> result bool := verify edz_ops sym_flavour.
Definition nem_public_key : bytes -> bytes := public_key edz_ops nem_flavour.
Definition nem_sign : bytes -> bytes -> bytes := sign edz_ops nem_flavour.
Definition nem_verify : bytes -> bytes -> bytes -> result bool := verify edz_ops nem_flavour.

(* SharedKey._derive_shared_key: HKDF-SHA256, salt = bytes(32), info = label, 32 bytes *)
Definition derive_shared_key (fl : flavour) (label private_key other_pub : bytes) : dh_error + bytes :=
  match shared_secret edz_ops fl private_key other_pub with
  | inl e => inl e
  | inr secret => inr (hkdf_sha256 (zeros sk_salt_len) secret label sk_out_len)
  end.
Definition sym_shared_key : bytes -> bytes -> dh_error + bytes := derive_shared_key sym_flavour sk_sym_label.
Definition nem_shared_key : bytes -> bytes -> dh_error + bytes := derive_shared_key nem_flavour sk_nem_label.

(* nem SharedKey.derive_shared_key_deprecated: Keccak-256 of the first 32 secret bytes xor-ed with the salt *)
Definition nem_shared_key_deprecated (private_key other_pub salt : bytes) : dh_error + bytes :=
  match shared_secret edz_ops nem_flavour private_key other_pub with
  | inl e => inl e
  | inr secret =>
    inr (keccak_256 (map (fun i => ev2 sk_dep_op (nth i secret 0) (nth i salt 0)) (seq 0 sk_dep_len)))
  end.

(* ---- rendering for the drivers ---- *)
Definition render_verdict (r : result bool) : string :=
  match r with Ok true => "T" | Ok false => "F" | Reject => "reject" | Crash k => String.append "crash:" k end.
Definition render_shared (r : dh_error + bytes) : string :=
  match r with
  | inr k => to_hex k
  | inl DhNotCanonical => "reject:not-canonical"
  | inl DhNotOnCurve => "reject:not-on-curve"
  | inl DhNotInMainSubgroup => "reject:not-in-main-subgroup"
  end.
