(* symbolchain/Network.py (public_key_to_address, is_valid_address, is_valid_address_string), symbol/Network.py and nem/Network.py
   (Address.__init__ / __str__, create_address) and ByteArray.__init__.  Constants, operators and the alphabet come from
   Gen/AddressOps.v, which the translator rewrites from /repo on every run.  Text is a list of code points.
   Model file: definitions only (proofs: Sym/AddressProofs.v). *)
From Symv Require Export Base.PyOps Sym.Base32 Gen.AddressOps.
From Symv Require Import Sym.Keccak Sym.Ripemd.
Open Scope Z_scope.

Inductive flavor := Symbol | Nem.

Definition address_size (fl : flavor) : Z := match fl with Symbol => sym_address_size | Nem => nem_address_size end.
Definition encoded_size (fl : flavor) : Z := match fl with Symbol => sym_encoded_size | Nem => nem_encoded_size end.

(* ByteArray.__init__(fixed_size, raw_bytes): ValueError unless the size matches *)
Definition byte_array (fixed_size : Z) (raw : bytes) : result bytes :=
  if cmp ba_size_op fixed_size (Z.of_nat (length raw)) then Reject else Ok raw.

(* Address(bytes) *)
Definition address_from_bytes (fl : flavor) (raw : bytes) : result bytes := byte_array (address_size fl) raw.

(* x[lo:-drop]  (x[lo:-0] is x[lo:0], empty) *)
Definition slice_neg {A} (lo drop : nat) (l : list A) : list A :=
  match drop with O => slice lo 0 l | _ => slice lo (length l - drop) l end.

(* Address(str): symbol  base64.b32decode(address + 'A')[0:-1] ; nem  base64.b32decode(address) *)
Definition address_from_string (fl : flavor) (s : list Z) : result bytes :=
  match fl with
  | Symbol => bind (b32decode (s ++ [sym_dec_pad])) (fun d => address_from_bytes Symbol (slice_neg sym_dec_lo sym_dec_drop d))
  | Nem => bind (b32decode s) (address_from_bytes Nem)
  end.

(* str(address): symbol  base64.b32encode(self.bytes + bytes(0)).decode('utf8')[0:-1]  (bytes(n) is n zero bytes) ; nem  b32encode(self.bytes) *)
Definition address_to_string (fl : flavor) (a : bytes) : list Z :=
  match fl with
  | Symbol => slice_neg sym_str_lo sym_str_drop (b32encode (a ++ zeros sym_str_zeros))
  | Nem => b32encode a
  end.

Fixpoint bytes_eqb (a b : bytes) : bool :=
  match a, b with
  | [], [] => true
  | x :: a', y :: b' => (x =? y) && bytes_eqb a' b'
  | _, _ => false
  end.
Definition cmp_bytes (o : pyop) (a b : bytes) : bool :=
  match o with Eq => bytes_eqb a b | Ne => negb (bytes_eqb a b) | _ => false end.

Section WithHashes.
Variable H : flavor -> bytes -> bytes.   (* address_hasher(): update(x); digest() *)
Variable R : bytes -> bytes.             (* ripemd160 *)

Definition create_address (fl : flavor) (address_without_checksum checksum : bytes) : result bytes :=
  match fl with
  | Symbol => address_from_bytes Symbol (address_without_checksum ++ slice sym_ck_lo sym_ck_hi checksum)
  | Nem => address_from_bytes Nem (address_without_checksum ++ checksum)
  end.

Definition public_key_to_address (fl : flavor) (identifier : Z) (public_key : bytes) : result bytes :=
  let part_one_hash := H fl public_key in
  let part_two_hash := R part_one_hash in
  if is_byte identifier then   (* bytes([identifier]) is a ValueError outside range(256) *)
    let version := [identifier] ++ part_two_hash in
    let checksum := slice pk_ck_lo pk_ck_hi (H fl version) in
    create_address fl version checksum
  else Reject.

(* address.bytes[0] on an empty value would be an IndexError; Address/ByteArray enforce SIZE >= 1 bytes, so that arm is unreachable *)
Definition is_valid_address (fl : flavor) (identifier : Z) (addr : bytes) : bool :=
  match nth_error addr va_id_idx with
  | None => false
  | Some b0 =>
    if cmp va_id_op b0 identifier then va_id_ret
    else
      let body := slice va_body_lo (Z.to_nat (ev2 va_body_op va_body_a va_body_b)) addr in
      let checksum_from_address := skipn (Z.to_nat (ev2 va_ck_op va_ck_a va_ck_b)) addr in
      let calculated_checksum := slice va_calc_lo (length checksum_from_address) (H fl body) in
      cmp_bytes va_eq_op checksum_from_address calculated_checksum
  end.

(* the Address(str) constructor may raise; the outcome type keeps that visible *)
Definition is_valid_address_string (fl : flavor) (identifier : Z) (s : list Z) : result bool :=
  if cmp vs_len_op (encoded_size fl) (Z.of_nat (length s)) then Ok vs_len_ret
  else if existsb (fun ch => negb (existsb (Z.eqb ch) addr_alphabet)) s then Ok vs_alpha_ret
  else bind (address_from_string fl s) (fun a => Ok (is_valid_address fl identifier a)).

End WithHashes.

(* ---- the shipped instances ---- *)
Definition hasher_now (fl : flavor) : bytes -> bytes := match fl with Symbol => sha3_256 | Nem => keccak_256 end.
Definition public_key_to_address_now := public_key_to_address hasher_now ripemd160.
Definition is_valid_address_now := is_valid_address hasher_now.
Definition is_valid_address_string_now := is_valid_address_string hasher_now.

(* ---- rendering for the correspondence runs ---- *)
Definition render_bytes (r : result bytes) : string :=
  match r with Ok b => to_hex b | Reject => "reject"%string | Crash k => ("crash:" ++ k)%string end.
Definition render_bool (r : result bool) : string :=
  match r with Ok b => bool_to_string b | Reject => "reject"%string | Crash k => ("crash:" ++ k)%string end.
