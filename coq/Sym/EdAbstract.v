(* The Ed25519-style signature / Diffie-Hellman scheme of the SDK, written ONCE over an arbitrary carrier [G] with operations
   [ed_ops G] and a per-network [flavour] (hash, key preparation, scalar extraction, the verifier's own refusals).

   * Sym/EdZ.v instantiates [G] with extended-coordinate integer quadruples (the arithmetic of external/ed25519.py) and the two
     flavours with SHA-512 (Symbol: what `cryptography`/OpenSSL does, RFC 8032) and Keccak-512 over the byte-reversed private key
     (NEM: nem/KeyPair.py over libsodium).  Those instances are what the correspondence runs execute.
   * Sym/EdAbstractProofs.v proves the laws (verify . sign, uniqueness of S, refusals, symmetric shared secret) for every
     [ed_ops] satisfying [ed_laws] (commutative group, Z-action, base point of order L, injective decodable encoding) and every
     flavour satisfying [flavour_ok].

   Model file: definitions only. *)
From Symv Require Export Base.PyOps.
Open Scope Z_scope.

Fixpoint beqb (a b : bytes) : bool :=
  match a, b with
  | [], [] => true
  | x :: a', y :: b' => (x =? y) && beqb a' b'
  | _, _ => false
  end.

(* == / != between byte strings, the operator being a regenerated value *)
Definition cmp_beqb (o : pyop) (a b : bytes) : bool :=
  match o with Eq => beqb a b | Ne => negb (beqb a b) | _ => false end.

Record ed_ops (G : Type) := mk_ed_ops {
  g_zero : G;
  g_add : G -> G -> G;
  g_neg : G -> G;
  g_smul : Z -> G -> G;
  g_B : G;
  g_L : Z;
  g_enc : G -> bytes;
  g_dec : bytes -> option G;          (* None: the bytes do not decode to a point of the curve *)
  g_is_zero : G -> bool;
  g_canonical : bytes -> bool         (* the encoded y coordinate is below the field prime *)
}.
Arguments g_zero {G}. Arguments g_add {G}. Arguments g_neg {G}. Arguments g_smul {G}. Arguments g_B {G}. Arguments g_L {G}.
Arguments g_enc {G}. Arguments g_dec {G}. Arguments g_is_zero {G}. Arguments g_canonical {G}.

Record flavour := mk_flavour {
  fl_hash : bytes -> bytes;            (* 64-byte digest; successive update() calls hash the concatenation *)
  fl_prep : bytes -> bytes;            (* the private key bytes as they are hashed (NEM: reversed) *)
  fl_scalar_pub : bytes -> Z;          (* digest -> clamped scalar of the public key *)
  fl_scalar_sign : bytes -> Z;         (* digest -> clamped scalar used while signing *)
  fl_scalar_dh : bytes -> Z;           (* digest -> clamped scalar used for shared secrets *)
  fl_prefix : bytes -> bytes;          (* digest -> nonce prefix *)
  fl_sig_R : bytes -> bytes;           (* signature -> encoded R *)
  fl_sig_S : bytes -> bytes;           (* signature -> encoded S *)
  fl_zero_key : bytes -> bool;         (* Verifier.__init__ raises ValueError *)
  fl_s_ok : Z -> bytes -> result bool; (* order L, encoded S -> S is acceptable *)
  fl_bad_s : bool;                     (* verdict returned for an unacceptable S *)
  fl_strict_key : bool;                (* the public key must be canonical, not of small order and in the main subgroup *)
  fl_bad_key : bool;                   (* verdict returned for an unacceptable public key *)
  fl_final : bool -> bool              (* verdict returned for the outcome of the comparison with R *)
}.

Inductive dh_error := DhNotCanonical | DhNotOnCurve | DhNotInMainSubgroup.

Section Scheme.
Context {G : Type}.
Variable o : ed_ops G.
Variable fl : flavour.

Definition secret_digest (private_key : bytes) : bytes := fl_hash fl (fl_prep fl private_key).

Definition public_key (private_key : bytes) : bytes :=
  g_enc o (g_smul o (fl_scalar_pub fl (secret_digest private_key)) (g_B o)).

(* h = H(encodedR || public || data) reduced mod L *)
Definition challenge (encoded_r pub msg : bytes) : Z := from_le (fl_hash fl (encoded_r ++ pub ++ msg)) mod g_L o.

(* r = H(privHash[256:512] || data) reduced mod L *)
Definition nonce (private_key msg : bytes) : Z :=
  from_le (fl_hash fl (fl_prefix fl (secret_digest private_key) ++ msg)) mod g_L o.

Definition sig_S_value (private_key msg : bytes) : Z :=
  let r := nonce private_key msg in
  let R := g_enc o (g_smul o r (g_B o)) in
  (r + challenge R (public_key private_key) msg * fl_scalar_sign fl (secret_digest private_key)) mod g_L o.

Definition sign (private_key msg : bytes) : bytes :=
  g_enc o (g_smul o (nonce private_key msg) (g_B o)) ++ to_le 32 (sig_S_value private_key msg).

(* canonical encoding, not of small order, in the main subgroup (libsodium's crypto_core_ed25519_is_valid_point) *)
Definition key_valid (pub : bytes) (A : G) : bool :=
  g_canonical o pub && negb (g_is_zero o (g_smul o 8 A)) && g_is_zero o (g_smul o (g_L o) A).

(* Reject = the verifier cannot even be constructed (ValueError); Crash = any other exception *)
Definition verify (pub msg sig : bytes) : result bool :=
  if fl_zero_key fl pub then Reject
  else
    let encoded_r := fl_sig_R fl sig in
    let encoded_s := fl_sig_S fl sig in
    bind (fl_s_ok fl (g_L o) encoded_s) (fun s_ok =>
      if negb s_ok then Ok (fl_bad_s fl)
      else
        match g_dec o pub with
        | None => Ok (fl_bad_key fl)
        | Some A =>
          if fl_strict_key fl && negb (key_valid pub A) then Ok (fl_bad_key fl)
          else
            let h := challenge encoded_r pub msg in
            let computed := g_add o (g_smul o (from_le encoded_s) (g_B o)) (g_neg o (g_smul o h A)) in
            Ok (fl_final fl (beqb (g_enc o computed) encoded_r))
        end).

(* external/ed25519.py derive_shared_secret_unsafe *)
Definition shared_secret (private_key other_pub : bytes) : dh_error + bytes :=
  if negb (g_canonical o other_pub) then inl DhNotCanonical
  else
    match g_dec o other_pub with
    | None => inl DhNotOnCurve
    | Some A =>
      if negb (g_is_zero o (g_smul o (g_L o) A)) then inl DhNotInMainSubgroup
      else inr (g_enc o (g_smul o (fl_scalar_dh fl (secret_digest private_key)) A))
    end.

End Scheme.

(* ---- laws under which the scheme is proved correct (Sym/EdAbstractProofs.v) ---- *)
Record ed_laws {G : Type} (o : ed_ops G) : Prop := mk_ed_laws {
  law_add_assoc : forall P Q R, g_add o P (g_add o Q R) = g_add o (g_add o P Q) R;
  law_add_comm : forall P Q, g_add o P Q = g_add o Q P;
  law_add_zero : forall P, g_add o (g_zero o) P = P;
  law_add_neg : forall P, g_add o P (g_neg o P) = g_zero o;
  law_smul_zero : forall P, g_smul o 0 P = g_zero o;
  law_smul_add : forall x y P, g_smul o (x + y) P = g_add o (g_smul o x P) (g_smul o y P);
  law_smul_mul : forall x y P, g_smul o (x * y) P = g_smul o x (g_smul o y P);
  law_order_range : 2 ^ 252 < g_L o < 2 ^ 253;
  law_order_odd : Z.gcd 64 (g_L o) = 1;
  law_order_B : forall x, g_smul o x (g_B o) = g_zero o <-> x mod g_L o = 0;
  law_enc_inj : forall P Q, g_enc o P = g_enc o Q -> P = Q;
  law_dec_enc : forall P, g_dec o (g_enc o P) = Some P;
  law_enc_length : forall P, length (g_enc o P) = 32%nat;
  law_enc_canonical : forall P, g_canonical o (g_enc o P) = true;
  law_is_zero : forall P, g_is_zero o P = true <-> P = g_zero o;
  law_zero_bytes : forall P, g_enc o P = zeros 32 -> g_smul o (g_L o) P <> g_zero o
}.

(* [zero_refused]: whether the verifier refuses S = 0 (NEM does; RFC 8032 / OpenSSL does not) *)
Record flavour_ok (fl : flavour) (L : Z) (zero_refused : bool) : Prop := mk_flavour_ok {
  ok_hash : forall m, length (fl_hash fl m) = 64%nat /\ wf_bytes (fl_hash fl m) = true;
  ok_scalar_sign : forall d, length d = 64%nat -> wf_bytes d = true -> fl_scalar_sign fl d = fl_scalar_pub fl d;
  ok_scalar_dh : forall d, length d = 64%nat -> wf_bytes d = true -> fl_scalar_dh fl d = fl_scalar_pub fl d;
  ok_scalar_range : forall d, length d = 64%nat -> wf_bytes d = true ->
    exists k, fl_scalar_pub fl d = 8 * k /\ 2 ^ 251 <= k < 2 ^ 252;
  ok_sig_R : forall r s, length r = 32%nat -> fl_sig_R fl (r ++ s) = r;
  ok_sig_S : forall r s, length r = 32%nat -> fl_sig_S fl (r ++ s) = s;
  ok_zero_key : forall pub, fl_zero_key fl pub = true <-> pub = zeros 32;
  ok_s_ok_true : forall sb, fl_s_ok fl L sb = Ok true -> from_le sb < L;
  ok_s_ok_honest : forall S, 0 <= S < L -> (zero_refused = true -> S <> 0) -> fl_s_ok fl L (to_le 32 S) = Ok true;
  ok_zero_refused : zero_refused = true -> forall sb, from_le sb = 0 -> fl_s_ok fl L sb <> Ok true;
  ok_bad_s : fl_bad_s fl = false;
  ok_bad_key : fl_bad_key fl = false;
  ok_final : forall b, fl_final fl b = b
}.
