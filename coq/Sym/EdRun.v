(* Executable instances used by the correspondence runs (vm_compute for a few cases per run, zarith-backed extraction for
   volume): payload / cosignature / voting-tree models over the concrete signatures of Sym/EdZ.v, and the message framing of
   Sym/MessageFraming.v with the abstract AEAD / CBC primitives instantiated by PROBES: a probe "opens"%string by returning its own
   arguments, so that the harness can hand exactly those arguments (key derived by the model, iv, tag, ciphertext as split by the
   model) to the real AES implementation acting as oracle; the failing instances (open = None) give the model's outcome when the
   oracle refuses.  Model file: definitions only. *)
From Symv Require Export Sym.EdZ Sym.Payload Sym.MessageFraming.
Open Scope Z_scope.
Local Infix "+++" := String.append (at level 60, right associativity).

Definition render_bytes_result (r : result bytes) : string :=
  match r with Ok b => "ok:"%string +++ to_hex b | Reject => "reject"%string | Crash k => "crash:"%string +++ k end.
Definition render_decoded (r : result (bool * bytes)) : string :=
  match r with
  | Ok (true, b) => "ok:T:"%string +++ to_hex b
  | Ok (false, b) => "ok:F:"%string +++ to_hex b
  | Reject => "reject"%string
  | Crash k => "crash:"%string +++ k
  end.
Definition render_message (r : result (Z * bytes)) : string :=
  match r with Ok (t, b) => "ok:"%string +++ Z_to_string t +++ ":"%string +++ to_hex b | Reject => "reject"%string | Crash k => "crash:"%string +++ k end.

(* ---- payloads ---- *)
Definition run_sym_payload (seed tx : bytes) : string := render_bytes_result (sym_signing_payload seed tx).
Definition run_nem_payload (tx : bytes) : string := to_hex (nem_signing_payload tx).
Definition run_cosign (private_key transaction_hash : bytes) (detached : bool) : string :=
  to_hex (cosignature_bytes (cosign_transaction_hash (sym_sign private_key) (sym_public_key private_key) transaction_hash detached)).

(* child private keys arrive concatenated, 32 bytes each, in generation order *)
Definition run_voting (root_private_key : bytes) (start_epoch end_epoch : Z) (children : bytes) : string :=
  to_hex (voting_keys_generate (sym_sign root_private_key) (sym_public_key root_private_key) sym_public_key
            start_epoch end_epoch (chunks 32 children)).

(* ---- framing probes ---- *)
Definition probe_args (parts : list bytes) : bytes := flat_map (fun p => to_le 2 (Z.of_nat (length p)) ++ p) parts.
Definition probe_open (key iv tag ct : bytes) : option bytes := Some (probe_args [key; iv; tag; ct]).
Definition fail_open (key iv tag ct : bytes) : option bytes := None.
Definition probe_cbc (key iv data : bytes) : option bytes := Some (probe_args [key; iv; data]).
Definition fail_cbc (key iv data : bytes) : option bytes := None.
Definition no_seal (key iv pt : bytes) : bytes * bytes := ([], []).
Definition no_cbc_enc (key iv pt : bytes) : bytes := [].

Definition run_sym_try_decode (probe deprecated : bool) (private_key other_public_key encoded : bytes) : string :=
  render_decoded ((if deprecated then sym_try_decode_deprecated else sym_try_decode)
                    (if probe then probe_open else fail_open) sym_shared_key private_key other_public_key encoded).

(* stage 0: GCM probe; stage 1: GCM refused, CBC probe; stage 2: both refused *)
Definition run_nem_try_decode (stage : Z) (private_key other_public_key : bytes) (message_type : Z) (encoded : bytes) : string :=
  render_decoded (nem_try_decode (if stage =? 0 then probe_open else fail_open) (if stage =? 1 then probe_cbc else fail_cbc)
                    nem_shared_key nem_shared_key_deprecated private_key other_public_key message_type encoded).

(* encoders with the oracle's (ciphertext, tag) supplied *)
Definition run_sym_encode (deprecated : bool) (private_key other_public_key iv message ct tag : bytes) : string :=
  render_bytes_result ((if deprecated then sym_encode_deprecated else sym_encode)
                         (fun _ _ _ => (ct, tag)) sym_shared_key private_key other_public_key iv message).
Definition run_sym_encode_delegation (ephemeral_private_key node_public_key iv remote vrf ct tag : bytes) : string :=
  render_bytes_result (sym_encode_delegation (fun _ _ _ => (ct, tag)) sym_shared_key sym_public_key
                         ephemeral_private_key node_public_key iv remote vrf).
Definition run_nem_encode (private_key other_public_key iv message ct tag : bytes) : string :=
  render_message (nem_encode (fun _ _ _ => (ct, tag)) nem_shared_key private_key other_public_key iv message).
Definition run_nem_encode_deprecated (private_key other_public_key salt iv message ct : bytes) : string :=
  render_message (nem_encode_deprecated (fun _ _ _ => ct) nem_shared_key_deprecated private_key other_public_key salt iv message).
