(* RFC 4648 base32 exactly as CPython 3.11's base64.b32encode / base64.b32decode(s) (casefold=False, map01=None) compute it.
   Text is a list of code points (Z); bytes are lists of Z.  Model file: definitions only (proofs: Sym/AddressProofs.v). *)
From Symv Require Export Base.PyOps.
Open Scope Z_scope.

(* base64._b32alphabet -- CPython's table, NOT the constant of symbolchain/Network.py (that one is regenerated into Gen/AddressOps.v) *)
Definition b32_alphabet : list Z :=
  [65; 66; 67; 68; 69; 70; 71; 72; 73; 74; 75; 76; 77; 78; 79; 80; 81; 82; 83; 84; 85; 86; 87; 88; 89; 90; 50; 51; 52; 53; 54; 55].
Definition b32_pad : Z := 61.   (* '=' *)

Definition b32_char (d : Z) : Z := nth (Z.to_nat d) b32_alphabet b32_pad.

Fixpoint index_of (c : Z) (l : list Z) (i : Z) : option Z :=
  match l with
  | [] => None
  | x :: r => if x =? c then Some i else index_of c r (i + 1)
  end.
(* _b32rev[alphabet][c]; None = KeyError *)
Definition b32_val (c : Z) : option Z := index_of c b32_alphabet 0.
Definition in_b32_alphabet (c : Z) : bool := existsb (Z.eqb c) b32_alphabet.

(* digits of a number in a base, least significant first / most significant first *)
Fixpoint to_digits_le (base : Z) (n : nat) (x : Z) : list Z :=
  match n with O => [] | S k => (x mod base) :: to_digits_le base k (x / base) end.
Fixpoint from_digits_le (base : Z) (ds : list Z) : Z :=
  match ds with [] => 0 | d :: r => d + base * from_digits_le base r end.
Definition to_digits_be (base : Z) (n : nat) (x : Z) : list Z := rev (to_digits_le base n x).
Definition from_digits_be (base : Z) (ds : list Z) : Z := from_digits_le base (rev ds).

(* ---- b32encode ---- *)
(* one quantum: c = int.from_bytes(s[i:i+5]) (big endian); the four 10-bit table lookups are the eight 5-bit digits of c *)
Definition enc_group (g : bytes) : list Z := map b32_char (to_digits_be 32 8 (from_be g)).

Fixpoint enc_groups (s : bytes) : list Z :=
  match s with
  | a :: b :: c :: d :: e :: r => enc_group [a; b; c; d; e] ++ enc_groups r
  | _ => []
  end.

(* encoded[-n:] = b'=' * n *)
Definition replace_tail (n : nat) (l : list Z) : list Z := firstn (length l - n) l ++ repeat b32_pad n.

Definition b32encode (s : bytes) : list Z :=
  let leftover := (length s mod 5)%nat in
  let padded := match leftover with O => s | _ => s ++ zeros (5 - leftover) end in
  let encoded := enc_groups padded in
  match leftover with
  | 1%nat => replace_tail 6 encoded
  | 2%nat => replace_tail 4 encoded
  | 3%nat => replace_tail 3 encoded
  | 4%nat => replace_tail 1 encoded
  | _ => encoded
  end.

(* ---- b32decode ---- *)
(* acc = (acc << 5) + b32rev[c]; None = KeyError -> binascii.Error('Non-base32 digit found') *)
Definition acc_step (acc : option Z) (c : Z) : option Z :=
  match acc, b32_val c with
  | Some a, Some v => Some (Z.shiftl a 5 + v)
  | _, _ => None
  end.
Definition quantum_acc (q : list Z) : option Z := fold_left acc_step q (Some 0).

(* the accumulators of the quanta s[i:i+8], i = 0, 8, ...; the last one may be partial *)
Fixpoint dec_accs (s : list Z) : option (list Z) :=
  match s with
  | [] => Some []
  | c0 :: c1 :: c2 :: c3 :: c4 :: c5 :: c6 :: c7 :: r =>
    match quantum_acc [c0; c1; c2; c3; c4; c5; c6; c7], dec_accs r with
    | Some a, Some l => Some (a :: l)
    | _, _ => None
    end
  | _ => match quantum_acc s with Some a => Some [a] | None => None end
  end.

(* bytes.rstrip(p) *)
Fixpoint rstrip (p : Z) (s : list Z) : list Z :=
  match s with
  | [] => []
  | c :: r => match rstrip p r with
              | [] => if c =? p then [] else [c]
              | r' => c :: r'
              end
  end.

Definition is_nil {A} (l : list A) : bool := match l with [] => true | _ => false end.

(* Reject = ValueError (non-ASCII str) or binascii.Error (a ValueError): incorrect padding / non-base32 digit *)
Definition b32decode (s : list Z) : result bytes :=
  if negb (forallb (fun c => c <? 128) s) then Reject
  else if negb (Nat.eqb (length s mod 8) 0) then Reject
  else
    let l := length s in
    let s1 := rstrip b32_pad s in
    let padchars := (l - length s1)%nat in
    match dec_accs s1 with
    | None => Reject
    | Some accs =>
      let decoded := flat_map (to_be 5) accs in
      if negb (existsb (Nat.eqb padchars) [0; 1; 3; 4; 6]%nat) then Reject
      else if negb (Nat.eqb padchars 0) && negb (is_nil decoded) then
        let acc := Z.shiftl (last accs 0) (5 * Z.of_nat padchars) in
        let leftover := ((43 - 5 * padchars) / 8)%nat in
        Ok (firstn (length decoded - 5) decoded ++ firstn leftover (to_be 5 acc))
      else Ok decoded
    end.

(* rendering for the correspondence runs *)
Fixpoint text_to_string (s : list Z) : string :=
  match s with [] => EmptyString | c :: r => String (ascii_of_N (Z.to_N c)) (text_to_string r) end.
