(* Proofs about Sym/MessageFraming.v, in a Section over an abstract AEAD, an abstract CBC cipher and abstract shared-key
   derivation.  The premises (Hypotheses below) survive as explicit premises of the closed theorems:
     open_seal      the AEAD opens what it sealed (same key, nonce)            -- AES-GCM correctness, not proved here
     seal_tag       tags have TAG_SIZE bytes
     dec_enc        the CBC cipher decrypts what it encrypted                  -- AES-CBC/PKCS7 correctness, not proved here
     shared_sym     both directions derive the same key                        -- C14 shared_symmetric (EdAbstractProofs)
   That tampering makes `open` fail is AES-GCM authenticity: no theorem can give it; [tamper_clean] says what the code does WHEN
   `open` fails, and [decoded_only_if_opened] that a plaintext is never returned unless `open` produced it. *)
From Symv Require Import Base.Bytes Base.BytesLemmas Base.PyOps Sym.EdAbstract Sym.EdAbstractProofs Sym.MessageFraming.
From Coq Require Import Lia ZifyBool.
Open Scope Z_scope.

Lemma mf_firstn_app_exact {A} (r s : list A) n : length r = n -> firstn n (r ++ s) = r.
Proof. intros <-. rewrite firstn_app, Nat.sub_diag, firstn_O, app_nil_r. apply firstn_all. Qed.

Lemma mf_skipn_app_exact {A} (r s : list A) n : length r = n -> skipn n (r ++ s) = s.
Proof. intros <-. rewrite skipn_app, Nat.sub_diag, skipn_all. reflexivity. Qed.

(* ---- hex wrapper ---- *)
Lemma hex_value_char d : 0 <= d < 16 -> hex_value (hex_char d) = Some d.
Proof.
  intros Hd. unfold hex_char, hex_value. destruct (Z.ltb_spec d 10).
  - replace ((48 <=? 48 + d) && (48 + d <=? 57)) with true by lia. f_equal. lia.
  - replace ((48 <=? 87 + d) && (87 + d <=? 57)) with false by lia.
    replace ((97 <=? 87 + d) && (87 + d <=? 102)) with true by lia. f_equal. lia.
Qed.

Lemma unhexlify_hexlify b : wf_bytes b = true -> unhexlify (hexlify b) = Some b.
Proof.
  induction b as [|v r IH]; cbn [hexlify flat_map app unhexlify wf_bytes forallb]; [reflexivity|].
  intros H. apply Bool.andb_true_iff in H as [Hv Hr]. unfold is_byte in Hv.
  fold (hexlify r). rewrite !hex_value_char by (Z.div_mod_to_equations; lia).
  rewrite (IH Hr). f_equal. f_equal. Z.div_mod_to_equations; lia.
Qed.

Lemma marker_length : length mf_delegation_marker = 8%nat /\ nth_error mf_delegation_marker 0 = Some 254.
Proof. split; reflexivity. Qed.

Section FramingLaws.
Variable seal : bytes -> bytes -> bytes -> bytes * bytes.
Variable open : bytes -> bytes -> bytes -> bytes -> option bytes.
Variable cbc_enc : bytes -> bytes -> bytes -> bytes.
Variable cbc_dec : bytes -> bytes -> bytes -> option bytes.
Variable shared : bytes -> bytes -> dh_error + bytes.
Variable shared_deprecated : bytes -> bytes -> bytes -> dh_error + bytes.
Variable public_key_of : bytes -> bytes.

Hypothesis open_seal : forall key iv pt, open key iv (snd (seal key iv pt)) (fst (seal key iv pt)) = Some pt.
Hypothesis seal_tag : forall key iv pt, length (snd (seal key iv pt)) = 16%nat.
Hypothesis dec_enc : forall key iv pt, cbc_dec key iv (cbc_enc key iv pt) = Some pt.
Hypothesis shared_sym : forall a b, shared a (public_key_of b) = shared b (public_key_of a).
Hypothesis shared_deprecated_sym : forall a b salt, shared_deprecated a (public_key_of b) salt = shared_deprecated b (public_key_of a) salt.
Hypothesis public_key_length : forall k, length (public_key_of k) = 32%nat.

Local Notation decode_gcm := (decode_aes_gcm open shared).
Local Notation encode_gcm := (encode_aes_gcm seal shared).

(* what encode_aes_gcm returns: the tag and ciphertext of the AEAD, the iv unchanged *)
Lemma encode_gcm_parts a pub iv m key : shared a pub = inr key ->
  encode_gcm a pub iv m = inr (snd (seal key iv m), iv, fst (seal key iv m)).
Proof.
  intros Hk. unfold encode_aes_gcm, gcm_encrypt. rewrite Hk. destruct (seal key iv m) as [ct tag] eqn:E.
  pose proof (seal_tag key iv m) as Ht. rewrite E in Ht. cbn [snd fst] in *.
  change (ev2 mf_tag_start_op (Z.of_nat (length (ct ++ tag))) mf_tag_size) with (Z.of_nat (length (ct ++ tag)) - 16).
  rewrite app_length, Ht. replace (Z.to_nat (Z.of_nat (length ct + 16) - 16)) with (length ct) by lia.
  now rewrite mf_skipn_app_exact, mf_firstn_app_exact.
Qed.

(* decoding tag || iv || ciphertext under the key that sealed it gives the plaintext back *)
Lemma decode_gcm_parts b pub iv m key :
  shared b pub = inr key -> length iv = 12%nat ->
  decode_gcm b pub (snd (seal key iv m) ++ iv ++ fst (seal key iv m)) = DecOk m.
Proof.
  intros Hk Hiv. unfold decode_aes_gcm, mf_decode.
  change (Z.to_nat mf_tag_size) with 16%nat.
  change (Z.to_nat (ev2 mf_iv_end_op mf_tag_size mf_gcm_iv_size)) with 28%nat.
  change (Z.to_nat (ev2 mf_data_from_op mf_tag_size mf_gcm_iv_size)) with 28%nat.
  pose proof (seal_tag key iv m) as Ht. pose proof (open_seal key iv m) as Ho.
  destruct (seal key iv m) as [ct tag]. cbn [snd fst] in *.
  rewrite mf_firstn_app_exact by exact Ht. unfold slice.
  rewrite (mf_skipn_app_exact tag _ 16 Ht). change (28 - 16)%nat with 12%nat. rewrite mf_firstn_app_exact by exact Hiv.
  rewrite app_assoc, mf_skipn_app_exact by (rewrite app_length, Ht, Hiv; reflexivity).
  rewrite Hk. unfold gcm_decrypt.
  change (ev2 mf_dec_tag_start_op (Z.of_nat (length (ct ++ tag))) mf_tag_size) with (Z.of_nat (length (ct ++ tag)) - 16).
  rewrite app_length, Ht. replace (Z.to_nat (Z.of_nat (length ct + 16) - 16)) with (length ct) by lia.
  rewrite mf_skipn_app_exact, mf_firstn_app_exact by reflexivity. rewrite Hiv, Ht. cbn [Nat.ltb Nat.leb orb gcm_min_iv gcm_min_tag].
  now rewrite Ho.
Qed.

(* ---------------- Symbol, current format ---------------- *)
Theorem sym_try_decode_encode_recipient a b iv m key e :
  shared a (public_key_of b) = inr key -> length iv = 12%nat ->
  sym_encode seal shared a (public_key_of b) iv m = Ok e ->
  sym_try_decode open shared b (public_key_of a) e = Ok (true, m).
Proof.
  intros Hk Hiv. unfold sym_encode. rewrite (encode_gcm_parts _ _ _ _ _ Hk). intros E. injection E as <-.
  unfold sym_try_decode. change mf_plain_prefix with [1]. cbn [app nth_error mf_plain_idx mf_deleg_idx].
  change (cmp mf_plain_cmp mf_plain_marker 1) with true. cbn iota. change mf_plain_skip with 1%nat. cbn [skipn].
  rewrite decode_gcm_parts by first [assumption | rewrite shared_sym; assumption]. reflexivity.
Qed.

Theorem sym_try_decode_encode_sender a b iv m key e :
  shared a (public_key_of b) = inr key -> length iv = 12%nat ->
  sym_encode seal shared a (public_key_of b) iv m = Ok e ->
  sym_try_decode open shared a (public_key_of b) e = Ok (true, m).
Proof.
  intros Hk Hiv. unfold sym_encode. rewrite (encode_gcm_parts _ _ _ _ _ Hk). intros E. injection E as <-.
  unfold sym_try_decode. change mf_plain_prefix with [1]. cbn [app nth_error mf_plain_idx mf_deleg_idx].
  change (cmp mf_plain_cmp mf_plain_marker 1) with true. cbn iota. change mf_plain_skip with 1%nat. cbn [skipn].
  rewrite decode_gcm_parts by assumption. reflexivity.
Qed.

(* ---------------- Symbol, deprecated wallet format (hex wrapper) ---------------- *)
Theorem sym_try_decode_encode_deprecated a b iv m key e :
  shared a (public_key_of b) = inr key -> length iv = 12%nat ->
  wf_bytes iv = true -> wf_bytes (fst (seal key iv m)) = true -> wf_bytes (snd (seal key iv m)) = true ->
  sym_encode_deprecated seal shared a (public_key_of b) iv m = Ok e ->
  sym_try_decode_deprecated open shared b (public_key_of a) e = Ok (true, m)
  /\ sym_try_decode_deprecated open shared a (public_key_of b) e = Ok (true, m).
Proof.
  intros Hk Hiv Hwi Hwc Hwt. unfold sym_encode_deprecated, sym_encode. rewrite (encode_gcm_parts _ _ _ _ _ Hk).
  cbn [bind]. change mf_plain_prefix with [1]. change mf_dep_enc_prefix with 1. change mf_dep_enc_skip with 1%nat. cbn [app skipn].
  intros E. injection E as <-.
  unfold sym_try_decode_deprecated. change mf_dep_idx with 0%nat. cbn [nth_error].
  change (cmp mf_dep_cmp mf_dep_marker 1) with true. cbn iota. change mf_dep_skip with 1%nat. cbn [skipn].
  rewrite unhexlify_hexlify by (rewrite !wf_app, Hwt, Hwi, Hwc; reflexivity).
  change mf_dep_prefix with 1.
  assert (Hb : sym_encode seal shared a (public_key_of b) iv m = Ok ([1] ++ snd (seal key iv m) ++ iv ++ fst (seal key iv m))).
  { unfold sym_encode. now rewrite (encode_gcm_parts _ _ _ _ _ Hk). }
  split.
  - now apply (sym_try_decode_encode_recipient a b iv m key).
  - now apply (sym_try_decode_encode_sender a b iv m key).
Qed.

(* ---------------- Symbol, persistent harvesting delegation ---------------- *)
Theorem sym_try_decode_delegation eph node iv remote vrf key other e :
  shared eph (public_key_of node) = inr key -> length iv = 12%nat ->
  sym_encode_delegation seal shared public_key_of eph (public_key_of node) iv remote vrf = Ok e ->
  sym_try_decode open shared node other e = Ok (true, remote ++ vrf).
Proof.
  intros Hk Hiv. destruct marker_length as [Hml Hm0].
  unfold sym_encode_delegation, sym_try_decode. rewrite (encode_gcm_parts _ _ _ _ _ Hk).
  set (marker := mf_delegation_marker) in *. clearbody marker.
  intros E. injection E as <-.
  change mf_plain_idx with 0%nat. change mf_deleg_idx with 0%nat.
  assert (H0 : nth_error (marker ++ public_key_of eph ++ snd (seal key iv (remote ++ vrf)) ++ iv ++ fst (seal key iv (remote ++ vrf))) 0 = Some 254).
  { rewrite nth_error_app1 by (rewrite Hml; lia). exact Hm0. }
  rewrite H0. change (cmp mf_plain_cmp mf_plain_marker 254) with false. cbn iota.
  change (cmp mf_deleg_first_cmp mf_deleg_first 254) with true. change mf_deleg_marker_len with 8%nat.
  rewrite mf_firstn_app_exact by exact Hml. change mf_deleg_cmp with Eq. cbn [cmp_beqb andb].
  rewrite beqb_refl. cbn iota.
  rewrite Hml. change (Z.to_nat mf_public_key_size) with 32%nat. change (8 + 32)%nat with 40%nat. unfold slice.
  rewrite (mf_skipn_app_exact marker _ 8 Hml). change (40 - 8)%nat with 32%nat.
  rewrite mf_firstn_app_exact by apply public_key_length. rewrite public_key_length. cbn [Nat.eqb negb].
  rewrite app_assoc, mf_skipn_app_exact by (rewrite app_length, Hml, public_key_length; reflexivity).
  rewrite decode_gcm_parts by first [assumption | rewrite shared_sym; assumption]. reflexivity.
Qed.

(* ---------------- a plaintext is returned only if `open` produced it; a refusing `open` gives the clean result ---------------- *)
Lemma decode_gcm_ok priv pub data m : decode_gcm priv pub data = DecOk m -> exists key iv tag ct, open key iv tag ct = Some m.
Proof.
  unfold decode_aes_gcm. destruct (mf_decode mf_tag_size mf_gcm_iv_size data) as [[tag iv] d].
  destruct (shared priv pub) as [e|key]; [discriminate|]. unfold gcm_decrypt.
  destruct ((length iv <? gcm_min_iv)%nat || _); [discriminate|].
  match goal with |- context [open ?k ?i ?t ?c] => destruct (open k i t c) as [m'|] eqn:E; [|discriminate] end.
  intros H. injection H as <-. do 4 eexists. exact E.
Qed.

Theorem sym_decoded_only_if_opened priv pub e m :
  sym_try_decode open shared priv pub e = Ok (true, m) -> exists key iv tag ct, open key iv tag ct = Some m.
Proof.
  unfold sym_try_decode. destruct (nth_error e mf_plain_idx) as [first|]; [|discriminate].
  destruct (nth_error e mf_deleg_idx) as [first'|]; [|discriminate].
  change mf_plain_ok with true. change mf_deleg_ok with true. change mf_not_decoded with false.
  destruct (cmp mf_plain_cmp mf_plain_marker first).
  - destruct (decode_gcm priv pub (skipn mf_plain_skip e)) as [m'| |err|] eqn:E; try discriminate.
    intros H. injection H as <-. now apply decode_gcm_ok in E.
  - destruct (_ && _); [|discriminate].
    destruct (negb _); [discriminate|].
    match goal with |- context [decode_gcm ?p ?k ?d] => destruct (decode_gcm p k d) as [m'| |[]|] eqn:E; try discriminate end.
    intros H. injection H as <-. now apply decode_gcm_ok in E.
Qed.

Theorem sym_deprecated_decoded_only_if_opened priv pub e m :
  sym_try_decode_deprecated open shared priv pub e = Ok (true, m) -> exists key iv tag ct, open key iv tag ct = Some m.
Proof.
  unfold sym_try_decode_deprecated. destruct (nth_error e mf_dep_idx); [|discriminate].
  destruct (cmp mf_dep_cmp mf_dep_marker z); [destruct (unhexlify _)|]; apply sym_decoded_only_if_opened.
Qed.

(* tamper_clean: a message in the current format (marker 1, long enough to hold tag and nonce) whose AEAD opening is refused
   decodes to (false, the encoded bytes) -- whatever the reason of the refusal (altered tag, nonce, ciphertext, other key) *)
Theorem sym_tamper_clean priv pub e key :
  nth_error e 0 = Some 1 -> (29 <= length e)%nat -> shared priv pub = inr key ->
  open key (firstn 12 (skipn 17 e)) (firstn 16 (skipn 1 e)) (skipn 29 e) = None ->
  sym_try_decode open shared priv pub e = Ok (false, e).
Proof.
  intros H0 Hlen Hk Ho. unfold sym_try_decode. change mf_plain_idx with 0%nat. change mf_deleg_idx with 0%nat. rewrite H0.
  change (cmp mf_plain_cmp mf_plain_marker 1) with true. cbn iota. change mf_plain_skip with 1%nat.
  unfold decode_aes_gcm, mf_decode.
  change (Z.to_nat mf_tag_size) with 16%nat.
  change (Z.to_nat (ev2 mf_iv_end_op mf_tag_size mf_gcm_iv_size)) with 28%nat.
  change (Z.to_nat (ev2 mf_data_from_op mf_tag_size mf_gcm_iv_size)) with 28%nat.
  rewrite Hk. unfold gcm_decrypt, slice. change (28 - 16)%nat with 12%nat.
  set (tag := firstn 16 (skipn 1 e)). set (data := skipn 28 (skipn 1 e)).
  assert (Htag : length tag = 16%nat) by (unfold tag; rewrite firstn_length, skipn_length; lia).
  change (ev2 mf_dec_tag_start_op (Z.of_nat (length (data ++ tag))) mf_tag_size) with (Z.of_nat (length (data ++ tag)) - 16).
  rewrite app_length, Htag. replace (Z.to_nat (Z.of_nat (length data + 16) - 16)) with (length data) by lia.
  rewrite mf_skipn_app_exact, mf_firstn_app_exact by reflexivity.
  assert (Hiv : length (firstn 12 (skipn 16 (skipn 1 e))) = 12%nat) by (rewrite firstn_length, !skipn_length; lia).
  rewrite Hiv, Htag. cbn [Nat.ltb Nat.leb orb gcm_min_iv gcm_min_tag].
  assert (E1 : skipn 16 (skipn 1 e) = skipn 17 e) by (clear; revert e; intros [|x e]; reflexivity).
  assert (E2 : data = skipn 29 e) by (unfold data; clear; revert e; intros [|x e]; reflexivity).
  rewrite E1, E2. fold tag in Ho. rewrite Ho. reflexivity.
Qed.

(* ---------------- NEM ---------------- *)
Theorem nem_try_decode_encode a b iv m key t e :
  shared a (public_key_of b) = inr key -> length iv = 12%nat ->
  nem_encode seal shared a (public_key_of b) iv m = Ok (t, e) ->
  nem_try_decode open cbc_dec shared shared_deprecated b (public_key_of a) t e = Ok (true, m)
  /\ nem_try_decode open cbc_dec shared shared_deprecated a (public_key_of b) t e = Ok (true, m).
Proof.
  intros Hk Hiv. unfold nem_encode. rewrite (encode_gcm_parts _ _ _ _ _ Hk). intros E. injection E as <- <-.
  unfold nem_try_decode. change (cmp mf_nem_type_cmp mf_nem_encrypted mf_nem_encrypted) with false. cbn iota.
  rewrite !decode_gcm_parts by first [assumption | rewrite shared_sym; assumption]. split; reflexivity.
Qed.

(* deprecated NEM format (salt || iv || CBC ciphertext): decoding first tries AES-GCM on the same bytes; that this attempt is
   refused is a premise (authenticity), as is the availability of the GCM key *)
Theorem nem_try_decode_encode_deprecated a b salt iv m keyg key t e :
  shared b (public_key_of a) = inr keyg -> shared_deprecated a (public_key_of b) salt = inr key ->
  length salt = 32%nat -> length iv = 16%nat ->
  nem_encode_deprecated cbc_enc shared_deprecated a (public_key_of b) salt iv m = Ok (t, e) ->
  open keyg (firstn 12 (skipn 16 e)) (firstn 16 e) (skipn 28 e) = None ->
  nem_try_decode open cbc_dec shared shared_deprecated b (public_key_of a) t e = Ok (true, m).
Proof.
  intros Hg Hk Hs Hiv. unfold nem_encode_deprecated. rewrite Hk. intros E. injection E as <- <-. intros Ho.
  unfold nem_try_decode. change (cmp mf_nem_type_cmp mf_nem_encrypted mf_nem_encrypted) with false. cbn iota.
  set (e := salt ++ iv ++ cbc_enc key iv m) in *.
  assert (Hlen : (48 <= length e)%nat) by (unfold e; rewrite !app_length, Hs, Hiv; lia).
  unfold decode_aes_gcm, mf_decode at 1.
  change (Z.to_nat mf_tag_size) with 16%nat.
  change (Z.to_nat (ev2 mf_iv_end_op mf_tag_size mf_gcm_iv_size)) with 28%nat.
  change (Z.to_nat (ev2 mf_data_from_op mf_tag_size mf_gcm_iv_size)) with 28%nat.
  rewrite Hg. unfold gcm_decrypt, slice. change (28 - 16)%nat with 12%nat.
  set (tag := firstn 16 e). set (data := skipn 28 e).
  assert (Htag : length tag = 16%nat) by (unfold tag; rewrite firstn_length; lia).
  change (ev2 mf_dec_tag_start_op (Z.of_nat (length (data ++ tag))) mf_tag_size) with (Z.of_nat (length (data ++ tag)) - 16).
  rewrite app_length, Htag. replace (Z.to_nat (Z.of_nat (length data + 16) - 16)) with (length data) by lia.
  rewrite mf_skipn_app_exact, mf_firstn_app_exact by reflexivity.
  assert (Hiv' : length (firstn 12 (skipn 16 e)) = 12%nat) by (rewrite firstn_length, skipn_length; lia).
  rewrite Hiv', Htag. cbn [Nat.ltb Nat.leb orb gcm_min_iv gcm_min_tag]. fold tag in Ho. fold data in Ho. rewrite Ho.
  unfold mf_decode.
  change (Z.to_nat mf_salt_size) with 32%nat.
  change (Z.to_nat (ev2 mf_iv_end_op mf_salt_size mf_cbc_iv_size)) with 48%nat.
  change (Z.to_nat (ev2 mf_data_from_op mf_salt_size mf_cbc_iv_size)) with 48%nat.
  unfold e, slice. rewrite mf_firstn_app_exact by exact Hs. rewrite (mf_skipn_app_exact salt _ 32 Hs).
  change (48 - 32)%nat with 16%nat. rewrite mf_firstn_app_exact by exact Hiv.
  rewrite app_assoc, mf_skipn_app_exact by (rewrite app_length, Hs, Hiv; reflexivity).
  rewrite <- shared_deprecated_sym, Hk, Hs. cbn [Nat.ltb Nat.leb]. now rewrite dec_enc.
Qed.

End FramingLaws.
