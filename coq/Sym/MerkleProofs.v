(* Proofs about Sym/Merkle.v (which is instantiated with the constants regenerated into Gen/MerkleOps.v). *)
From Symv Require Import Base.Bytes Base.PyOps Base.BytesLemmas Sym.Merkle.
From Coq Require Import Lia ZifyBool Arith.
Open Scope Z_scope.

(* ================================================================================================================== *)
(* generic list / Python-access lemmas *)

Lemma list_ind2 {A} (P : list A -> Prop) :
  P [] -> (forall a, P [a]) -> (forall a b r, P r -> P (a :: b :: r)) -> forall l, P l.
Proof.
  intros H0 H1 H2. fix IH 1. intros [|a [|b r]]; [exact H0 | apply H1 | apply H2, IH].
Qed.

Lemma bytes_eqb_eq a b : bytes_eqb a b = true <-> a = b.
Proof.
  revert b; induction a as [|x a IH]; intros [|y b]; cbn [bytes_eqb]; try (split; [discriminate | discriminate || congruence]); [tauto|].
  rewrite Bool.andb_true_iff, IH, Z.eqb_eq. split; [intros [-> ->]; reflexivity | intros E; injection E; auto].
Qed.

Lemma bytes_eqb_refl a : bytes_eqb a a = true.
Proof. now apply bytes_eqb_eq. Qed.

Lemma bytes_eqb_neq a b : bytes_eqb a b = false <-> a <> b.
Proof.
  split.
  - intros E Heq. apply bytes_eqb_eq in Heq. congruence.
  - intros N. destruct (bytes_eqb a b) eqn:E; [|reflexivity]. apply bytes_eqb_eq in E. contradiction.
Qed.

Lemma py_index_nat {A} (l : list A) (k : nat) : (k < length l)%nat -> py_index l (Z.of_nat k) = Some k.
Proof.
  intros Hk. unfold py_index.
  replace ((0 <=? Z.of_nat k) && (Z.of_nat k <? Z.of_nat (length l))) with true by lia.
  now rewrite Nat2Z.id.
Qed.

Lemma py_get_nat {A} (l : list A) (k : nat) : (k < length l)%nat -> py_get l (Z.of_nat k) = nth_error l k.
Proof. intros Hk. unfold py_get. now rewrite py_index_nat. Qed.

Lemma py_get_nth {A} (l : list A) (k : nat) d : (k < length l)%nat -> py_get l (Z.of_nat k) = Some (nth k l d).
Proof. intros Hk. rewrite py_get_nat by exact Hk. now apply nth_error_nth'. Qed.

Lemma py_set_nat {A} (l : list A) (k : nat) v : (k < length l)%nat -> py_set l (Z.of_nat k) v = Some (set_nth k v l).
Proof. intros Hk. unfold py_set. now rewrite py_index_nat. Qed.

Lemma set_nth_length {A} k (v : A) l : length (set_nth k v l) = length l.
Proof. revert k; induction l as [|x l IH]; intros [|k]; cbn [set_nth length]; auto. Qed.

Lemma set_nth_app_l {A} k (v : A) l1 l2 : (k < length l1)%nat -> set_nth k v (l1 ++ l2) = set_nth k v l1 ++ l2.
Proof.
  revert k; induction l1 as [|x l1 IH]; intros k Hk; cbn [length] in Hk; [lia|].
  destruct k as [|k]; cbn [set_nth app]; [reflexivity|]. rewrite IH by lia. reflexivity.
Qed.

Lemma firstn_set_nth {A} k (v : A) l : (k < length l)%nat -> firstn (S k) (set_nth k v l) = firstn k l ++ [v].
Proof.
  revert k; induction l as [|x l IH]; intros k Hk; cbn [length] in Hk; [lia|].
  destruct k as [|k]; cbn [set_nth]; [reflexivity|]. rewrite !firstn_cons. cbn [app]. rewrite IH by lia. reflexivity.
Qed.

Lemma nth_error_app_mid {A} (l1 : list A) x l2 : nth_error (l1 ++ x :: l2) (length l1) = Some x.
Proof. rewrite nth_error_app2 by lia. now rewrite Nat.sub_diag. Qed.

Lemma py_slice_nat {A} (l : list A) (lo hi : nat) :
  (lo <= length l)%nat -> (hi <= length l)%nat -> py_slice l (Z.of_nat lo) (Z.of_nat hi) = slice lo hi l.
Proof.
  intros Hlo Hhi. unfold py_slice, py_slice_bound.
  replace (Z.of_nat lo <? 0) with false by lia. replace (Z.of_nat hi <? 0) with false by lia.
  rewrite !Z.min_l by lia. now rewrite !Nat2Z.id.
Qed.

(* ================================================================================================================== *)
Section WithHash.
Variable H : bytes -> bytes.

(* ---- the reference tree ---- *)
Lemma pair_up_length l : length (pair_up H l) = Nat.div2 (S (length l)).
Proof.
  induction l as [| a | a b r IH] using list_ind2; [reflexivity | reflexivity |].
  cbn [pair_up length]. rewrite IH. reflexivity.
Qed.

Lemma div2_lt n : (2 <= n)%nat -> (Nat.div2 (S n) < n)%nat.
Proof. intros Hn. pose proof (Nat.div2_odd (S n)) as E. destruct (Nat.odd (S n)); cbn [Nat.b2n] in E; lia. Qed.

Lemma pair_up_shorter a b r : (length (pair_up H (a :: b :: r)) < length (a :: b :: r))%nat.
Proof. rewrite pair_up_length. apply div2_lt. cbn [length]. lia. Qed.

Lemma pair_up_nonempty a r : pair_up H (a :: r) <> [].
Proof. destruct r; discriminate. Qed.

Lemma root_levels_fuel f1 : forall f2 l, (length l <= f1)%nat -> (length l <= f2)%nat -> root_levels H f1 l = root_levels H f2 l.
Proof.
  induction f1 as [|f1 IH]; intros f2 l H1 H2.
  - destruct l as [|a [|b r]]; cbn [length] in H1; try lia. destruct f2; reflexivity.
  - destruct l as [|a [|b r]]; [destruct f2; reflexivity | destruct f2; reflexivity |].
    destruct f2 as [|f2]; [cbn [length] in H2; lia|].
    cbn [root_levels]. pose proof (pair_up_shorter a b r). apply IH; lia.
Qed.

Lemma merkle_root_spec_nil : merkle_root_spec H [] = repeat 0 32%nat.
Proof. reflexivity. Qed.
Lemma merkle_root_spec_one x : merkle_root_spec H [x] = x.
Proof. reflexivity. Qed.
Lemma merkle_root_spec_step a b r : merkle_root_spec H (a :: b :: r) = merkle_root_spec H (pair_up H (a :: b :: r)).
Proof.
  unfold merkle_root_spec at 1. change (length (a :: b :: r)) with (S (length (b :: r))). cbn [root_levels].
  pose proof (pair_up_shorter a b r). apply root_levels_fuel; cbn [length] in *; lia.
Qed.

Lemma levels_fuel_indep f1 : forall f2 l, (length l <= f1)%nat -> (length l <= f2)%nat -> levels_fuel H f1 l = levels_fuel H f2 l.
Proof.
  induction f1 as [|f1 IH]; intros f2 l H1 H2.
  - destruct l as [|a [|b r]]; cbn [length] in H1; try lia. destruct f2; reflexivity.
  - destruct l as [|a [|b r]]; [destruct f2; reflexivity | destruct f2; reflexivity |].
    destruct f2 as [|f2]; [cbn [length] in H2; lia|].
    cbn [levels_fuel]. f_equal. pose proof (pair_up_shorter a b r). apply IH; lia.
Qed.

Lemma levels_one x : levels H [x] = [].
Proof. reflexivity. Qed.
Lemma levels_step a b r : levels H (a :: b :: r) = (a :: b :: r) :: levels H (pair_up H (a :: b :: r)).
Proof.
  unfold levels at 1. change (length (a :: b :: r)) with (S (length (b :: r))). cbn [levels_fuel]. f_equal.
  pose proof (pair_up_shorter a b r). apply levels_fuel_indep; cbn [length] in *; lia.
Qed.

(* ---- the loop, with the regenerated operators evaluated: these two equations are where a changed operator or
        constant of MerkleHashBuilder.final breaks the development ---- *)
Lemma final_inner_eq f hs n i :
  final_inner H (S f) hs n i =
  if i <? n then
    match py_get hs i with
    | None => Crash index_error
    | Some a =>
      let second := if i + 1 <? n then (py_get hs (i + 1), n) else (py_get hs i, n + 1) in
      match fst second with
      | None => Crash index_error
      | Some b =>
        match py_set hs (i / 2) (H (a ++ b)) with
        | None => Crash index_error
        | Some hs' => final_inner H f hs' (snd second) (i + 2)
        end
      end
    end
  else Ok (hs, n).
Proof. reflexivity. Qed.

Lemma final_outer_eq f hs n :
  final_outer H (S f) hs n =
  if 1 <? n then
    match final_inner H (S (length hs)) hs n 0 with
    | Ok (hs', n') => final_outer H f hs' (n' / 2)
    | Reject => Reject
    | Crash k => Crash k
    end
  else Ok hs.
Proof. reflexivity. Qed.

(* one pass of the inner loop: the first k slots already hold this level's results, the slots from 2k on still hold
   the previous level (act), everything after that is stale *)
Lemma inner_pass : forall act pre junk k fuel,
  length pre = (2 * k)%nat -> (length act < fuel)%nat ->
  exists hs',
    final_inner H fuel (pre ++ act ++ junk) (Z.of_nat (2 * k + length act)) (Z.of_nat (2 * k))
      = Ok (hs', Z.of_nat (2 * (k + length (pair_up H act))))
    /\ length hs' = length (pre ++ act ++ junk)
    /\ firstn (k + length (pair_up H act)) hs' = firstn k pre ++ pair_up H act.
Proof.
  induction act as [| a | a b r IH] using list_ind2; intros pre junk k fuel Hpre Hfuel.
  - (* nothing left: i = n *)
    destruct fuel as [|f]; [cbn [length] in Hfuel; lia|].
    exists (pre ++ [] ++ junk). rewrite final_inner_eq. cbn [length pair_up].
    replace (Z.of_nat (2 * k) <? Z.of_nat (2 * k + 0)) with false by lia.
    repeat split; [do 3 f_equal; lia|]. cbn [app]. rewrite Nat.add_0_r, app_nil_r. rewrite firstn_app.
    replace (k - length pre)%nat with 0%nat by lia. cbn [firstn]. now rewrite app_nil_r.
  - (* one left: duplicated *)
    destruct fuel as [|[|f]]; cbn [length] in Hfuel; try lia.
    set (hs := pre ++ [a] ++ junk). set (v := H (a ++ a)).
    assert (Hlen : length hs = (2 * k + 1 + length junk)%nat) by (unfold hs; rewrite !app_length; cbn [length]; lia).
    exists (set_nth k v hs). rewrite final_inner_eq. cbn [length pair_up].
    replace (Z.of_nat (2 * k) <? Z.of_nat (2 * k + 1)) with true by lia.
    assert (Hget : py_get hs (Z.of_nat (2 * k)) = Some a).
    { rewrite py_get_nat by lia. unfold hs. rewrite <- Hpre. cbn [app]. apply nth_error_app_mid. }
    rewrite Hget.
    replace (Z.of_nat (2 * k) + 1 <? Z.of_nat (2 * k + 1)) with false by lia. cbn [fst snd].
    replace (Z.of_nat (2 * k) / 2) with (Z.of_nat k) by (Z.div_mod_to_equations; lia).
    rewrite py_set_nat by lia. fold v.
    rewrite final_inner_eq. replace (Z.of_nat (2 * k) + 2 <? Z.of_nat (2 * k + 1) + 1) with false by lia.
    repeat split.
    + do 3 f_equal. lia.
    + apply set_nth_length.
    + replace (k + 1)%nat with (S k) by lia. rewrite firstn_set_nth by lia. f_equal.
      unfold hs. rewrite firstn_app. replace (k - length pre)%nat with 0%nat by lia. cbn [firstn]. now rewrite app_nil_r.
  - (* a pair *)
    destruct fuel as [|f]; [lia|]. cbn [length] in Hfuel.
    set (hs := pre ++ (a :: b :: r) ++ junk). set (v := H (a ++ b)).
    assert (Hlen : length hs = (2 * k + 2 + length r + length junk)%nat) by (unfold hs; rewrite !app_length; cbn [length]; lia).
    rewrite final_inner_eq. cbn [length].
    replace (Z.of_nat (2 * k) <? Z.of_nat (2 * k + S (S (length r)))) with true by lia.
    assert (Hget : py_get hs (Z.of_nat (2 * k)) = Some a).
    { rewrite py_get_nat by lia. unfold hs. rewrite <- Hpre. cbn [app]. apply nth_error_app_mid. }
    rewrite Hget.
    replace (Z.of_nat (2 * k) + 1 <? Z.of_nat (2 * k + S (S (length r)))) with true by lia. cbn [fst snd].
    assert (Hget1 : py_get hs (Z.of_nat (2 * k) + 1) = Some b).
    { replace (Z.of_nat (2 * k) + 1) with (Z.of_nat (length (pre ++ [a]))) by (rewrite app_length; cbn [length]; lia).
      rewrite py_get_nat by (rewrite app_length; cbn [length]; lia).
      unfold hs. replace (pre ++ (a :: b :: r) ++ junk) with ((pre ++ [a]) ++ b :: (r ++ junk)) by (rewrite <- app_assoc; reflexivity).
      apply nth_error_app_mid. }
    rewrite Hget1.
    replace (Z.of_nat (2 * k) / 2) with (Z.of_nat k) by (Z.div_mod_to_equations; lia).
    rewrite py_set_nat by lia. fold v.
    set (pre1 := set_nth k v (pre ++ [a; b])).
    assert (Hhs1 : set_nth k v hs = pre1 ++ r ++ junk).
    { unfold hs, pre1. replace (pre ++ (a :: b :: r) ++ junk) with ((pre ++ [a; b]) ++ r ++ junk) by (rewrite <- app_assoc; reflexivity).
      apply set_nth_app_l. rewrite app_length. cbn [length]. lia. }
    assert (Hpre1 : length pre1 = (2 * S k)%nat) by (unfold pre1; rewrite set_nth_length, app_length; cbn [length]; lia).
    destruct (IH pre1 junk (S k) f Hpre1 ltac:(lia)) as (hs' & Hrun & Hl' & Hfirst).
    exists hs'. rewrite Hhs1.
    replace (Z.of_nat (2 * k + S (S (length r)))) with (Z.of_nat (2 * S k + length r)) by lia.
    replace (Z.of_nat (2 * k) + 2) with (Z.of_nat (2 * S k)) by lia.
    rewrite Hrun. cbn [pair_up length]. repeat split.
    + do 3 f_equal. lia.
    + rewrite Hl', <- Hhs1, set_nth_length. reflexivity.
    + replace (k + S (length (pair_up H r)))%nat with (S k + length (pair_up H r))%nat by lia. rewrite Hfirst.
      unfold pre1. rewrite firstn_set_nth by (rewrite app_length; cbn [length]; lia).
      rewrite firstn_app. replace (k - length pre)%nat with 0%nat by lia. cbn [firstn]. rewrite app_nil_r, <- app_assoc. reflexivity.
Qed.

Lemma outer_levels : forall m l junk fuel,
  length l = m -> l <> [] -> (length l <= fuel)%nat ->
  exists hs', final_outer H fuel (l ++ junk) (Z.of_nat (length l)) = Ok hs' /\ nth_error hs' 0 = Some (merkle_root_spec H l).
Proof.
  induction m as [m IH] using lt_wf_ind. intros l junk fuel Hm Hne Hfuel.
  destruct l as [|a [|b r]]; [contradiction | |].
  - destruct fuel as [|f]; [cbn [length] in Hfuel; lia|]. exists ([a] ++ junk). rewrite final_outer_eq. cbn [length]. split; reflexivity.
  - destruct fuel as [|f]; [cbn [length] in Hfuel; lia|]. rewrite final_outer_eq.
    replace (1 <? Z.of_nat (length (a :: b :: r))) with true by (cbn [length]; lia).
    set (l := a :: b :: r) in *.
    destruct (inner_pass l [] junk 0 (S (length (l ++ junk))) eq_refl ltac:(rewrite app_length; lia)) as (hs' & Hrun & Hl' & Hfirst).
    cbn [app Nat.mul Nat.add] in Hrun. change (Z.of_nat 0) with 0 in Hrun. rewrite Hrun.
    cbn [firstn app Nat.add] in Hfirst.
    set (l' := pair_up H l) in *.
    replace (Z.of_nat (length l' + (length l' + 0)) / 2) with (Z.of_nat (length l')) by (Z.div_mod_to_equations; lia).
    assert (Hsplit : hs' = l' ++ skipn (length l') hs') by (rewrite <- Hfirst at 1; symmetry; apply firstn_skipn).
    rewrite Hsplit.
    pose proof (pair_up_shorter a b r) as Hshort. fold l l' in Hshort.
    destruct (IH (length l') ltac:(lia) l' (skipn (length l') hs') f eq_refl (pair_up_nonempty a (b :: r)) ltac:(lia)) as (hs'' & Hrun' & Hroot).
    exists hs''. split; [exact Hrun'|]. rewrite Hroot. f_equal. symmetry. apply merkle_root_spec_step.
Qed.

Theorem merkle_final_eq_tree l : merkle_final H l = Ok (merkle_root_spec H l).
Proof.
  destruct l as [|a r]; [reflexivity|].
  unfold merkle_final.
  destruct (outer_levels (length (a :: r)) (a :: r) [] (S (length (a :: r))) eq_refl ltac:(discriminate) ltac:(lia)) as (hs' & Hrun & Hroot).
  rewrite app_nil_r in Hrun. rewrite Hrun.
  change mk_result_idx with (Z.of_nat 0). destruct hs' as [|h t]; [discriminate|].
  rewrite py_get_nat by (cbn [length]; lia). cbn [nth_error] in *. now injection Hroot as ->.
Qed.

End WithHash.

(* ================================================================================================================== *)
(* audit paths *)
Section AuditPaths.
Variable H : bytes -> bytes.

Lemma prove_merkle_eq leaf path root : prove_merkle H leaf path root = bytes_eqb root (fold_left (next_hash H) path leaf).
Proof. reflexivity. Qed.

Lemma sibling_SS a b r j :
  sibling (a :: b :: r) (S (S j)) = sibling r j.
Proof.
  unfold sibling. change (Nat.even (S (S j))) with (Nat.even j). destruct (Nat.even j) eqn:Ev.
  - reflexivity.
  - destruct j as [|j]; [discriminate|]. cbn [Nat.sub nth]. now rewrite Nat.sub_0_r.
Qed.

(* hashing a node with its sibling gives the parent, which sits at position i/2 of the next level *)
Lemma pair_up_nth : forall l i, (i < length l)%nat ->
  next_hash H (nth i l []) (sibling l i) = nth (Nat.div2 i) (pair_up H l) [].
Proof.
  induction l as [| a | a b r IH] using list_ind2; intros i Hi; cbn [length] in Hi.
  - lia.
  - destruct i as [|i]; [reflexivity | lia].
  - destruct i as [|[|j]]; [reflexivity | reflexivity |].
    rewrite sibling_SS. cbn [nth Nat.div2 pair_up]. apply IH. lia.
Qed.

Lemma div2_lt_pair_up l i : (i < length l)%nat -> (Nat.div2 i < length (pair_up H l))%nat.
Proof.
  intros Hi. rewrite pair_up_length.
  pose proof (Nat.div2_odd i) as Ei. pose proof (Nat.div2_odd (S (length l))) as El.
  destruct (Nat.odd i); destruct (Nat.odd (S (length l))); cbn [Nat.b2n] in *; lia.
Qed.

Lemma path_computes_root : forall m l i, length l = m -> (i < length l)%nat ->
  fold_left (next_hash H) (merkle_path H l i) (nth i l []) = merkle_root_spec H l.
Proof.
  induction m as [m IH] using lt_wf_ind. intros l i Hm Hi.
  destruct l as [|a [|b r]]; cbn [length] in Hi; [lia | |].
  - destruct i; [reflexivity | lia].
  - unfold merkle_path. rewrite levels_step. cbn [path_in fold_left].
    rewrite pair_up_nth by (cbn [length]; exact Hi). rewrite merkle_root_spec_step.
    pose proof (pair_up_shorter H a b r).
    apply (IH (length (pair_up H (a :: b :: r)))); [lia | reflexivity |].
    apply div2_lt_pair_up. cbn [length]. lia.
Qed.

Theorem prove_merkle_complete leaves i : (i < length leaves)%nat ->
  exists root, merkle_final H leaves = Ok root /\ prove_merkle H (nth i leaves []) (merkle_path H leaves i) root = true.
Proof.
  intros Hi. exists (merkle_root_spec H leaves). split; [apply merkle_final_eq_tree|].
  rewrite prove_merkle_eq, (path_computes_root (length leaves)) by (reflexivity || exact Hi). apply bytes_eqb_refl.
Qed.

(* ---- soundness up to a collision of H ---- *)
Definition collision : Prop := exists a b : bytes, a <> b /\ H a = H b.
Definition len32 (x : bytes) : Prop := length x = 32%nat.

Hypothesis H_len : forall m, len32 (H m).

Lemma bytes_eq_dec (a b : bytes) : {a = b} + {a <> b}.
Proof. apply list_eq_dec, Z.eq_dec. Qed.

Lemma app_inj_len32 (a b c d : bytes) : length a = length c -> a ++ b = c ++ d -> a = c /\ b = d.
Proof. intros Hl E. apply app_inj_tail_iff || idtac. revert c Hl E. induction a as [|x a IH]; intros [|y c] Hl E; cbn in *; try lia; [auto|]. injection E as -> E. destruct (IH c ltac:(lia) E) as [-> ->]. auto. Qed.

Lemma next_hash_inj w1 w2 p1 p2 :
  len32 w1 -> len32 w2 -> len32 (part_hash p1) -> len32 (part_hash p2) -> part_is_left p1 = part_is_left p2 ->
  next_hash H w1 p1 = next_hash H w2 p2 -> (w1 = w2 /\ p1 = p2) \/ collision.
Proof.
  unfold len32. intros L1 L2 L3 L4 Hflag E. destruct p1 as [h1 f1], p2 as [h2 f2]. cbn [part_hash part_is_left] in *. subst f2.
  unfold next_hash in E. cbn [part_hash part_is_left] in E. destruct f1.
  - destruct (bytes_eq_dec (h1 ++ w1) (h2 ++ w2)) as [Eq|Ne].
    + apply app_inj_len32 in Eq as [-> ->]; [left; auto | lia].
    + right. exists (h1 ++ w1), (h2 ++ w2). auto.
  - destruct (bytes_eq_dec (w1 ++ h1) (w2 ++ h2)) as [Eq|Ne].
    + apply app_inj_len32 in Eq as [-> ->]; [left; auto | lia].
    + right. exists (w1 ++ h1), (w2 ++ h2). auto.
Qed.

Lemma next_hash_len w p : len32 (next_hash H w p).
Proof. unfold next_hash. destruct (part_is_left p); apply H_len. Qed.

Lemma fold_inj : forall p1 p2 w1 w2,
  map part_is_left p1 = map part_is_left p2 -> len32 w1 -> len32 w2 ->
  Forall (fun p => len32 (part_hash p)) p1 -> Forall (fun p => len32 (part_hash p)) p2 ->
  fold_left (next_hash H) p1 w1 = fold_left (next_hash H) p2 w2 -> (w1 = w2 /\ p1 = p2) \/ collision.
Proof.
  induction p1 as [|a p1 IH]; intros [|b p2] w1 w2 Hflags L1 L2 F1 F2 E; cbn [map] in Hflags; try discriminate.
  - left. cbn in E. auto.
  - injection Hflags as Hf Hflags. inversion F1 as [|? ? La F1']. inversion F2 as [|? ? Lb F2']. subst. cbn [fold_left] in E.
    destruct (IH p2 _ _ Hflags (next_hash_len w1 a) (next_hash_len w2 b) F1' F2' E) as [[En ->]|C]; [|right; exact C].
    destruct (next_hash_inj w1 w2 a b L1 L2 La Lb Hf En) as [[-> ->]|C]; [left; auto | right; exact C].
Qed.

Lemma pair_up_len32 l : Forall len32 l -> Forall len32 (pair_up H l).
Proof.
  induction l as [| a | a b r IH] using list_ind2; intros F; cbn [pair_up]; [constructor | repeat constructor; apply H_len |].
  inversion F as [|? ? _ F']. inversion F' as [|? ? _ F'']. constructor; [apply H_len | auto].
Qed.

Lemma sibling_len32 l i : Forall len32 l -> (i < length l)%nat -> len32 (part_hash (sibling l i)).
Proof.
  intros F Hi. rewrite Forall_forall in F. unfold sibling. destruct (Nat.even i) eqn:Ev; cbn [part_hash].
  - destruct (Nat.lt_ge_cases (S i) (length l)) as [Hlt|Hge].
    + apply F, nth_In. exact Hlt.
    + rewrite nth_overflow by exact Hge. apply F, nth_In. exact Hi.
  - apply F, nth_In. lia.
Qed.

Lemma honest_path_len32 : forall m l i, length l = m -> Forall len32 l -> (i < length l)%nat ->
  Forall (fun p => len32 (part_hash p)) (merkle_path H l i).
Proof.
  induction m as [m IH] using lt_wf_ind. intros l i Hm F Hi.
  destruct l as [|a [|b r]]; cbn [length] in Hi; [lia | constructor |].
  unfold merkle_path. rewrite levels_step. cbn [path_in]. constructor.
  - apply sibling_len32; [exact F | cbn [length]; lia].
  - pose proof (pair_up_shorter H a b r).
    apply (IH (length (pair_up H (a :: b :: r)))); [lia | reflexivity | now apply pair_up_len32 |].
    apply div2_lt_pair_up. cbn [length]. lia.
Qed.

(* a verifying path that claims the same position (same side flags) as the honest path of leaf i either IS the honest
   path for exactly that leaf, or exhibits two different inputs with the same digest *)
Theorem prove_merkle_sound_or_collision leaves i x path root :
  Forall len32 leaves -> (i < length leaves)%nat -> len32 x -> Forall (fun p => len32 (part_hash p)) path ->
  map part_is_left path = map part_is_left (merkle_path H leaves i) ->
  merkle_final H leaves = Ok root -> prove_merkle H x path root = true ->
  (x = nth i leaves [] /\ path = merkle_path H leaves i) \/ collision.
Proof.
  intros F Hi Lx Fp Hflags Hroot Hv. rewrite merkle_final_eq_tree in Hroot. injection Hroot as <-.
  rewrite prove_merkle_eq in Hv. apply bytes_eqb_eq in Hv.
  rewrite <- (path_computes_root (length leaves) leaves i eq_refl Hi) in Hv. symmetry in Hv.
  apply fold_inj in Hv; auto.
  - rewrite Forall_forall in F. apply F, nth_In, Hi.
  - now apply (honest_path_len32 (length leaves)).
Qed.

End AuditPaths.

(* ================================================================================================================== *)
(* Symbol transaction hash: which bytes of the serialized transaction reach the hasher *)

(* fixed-text specification: the 16-bit little-endian type at offset 110, the two aggregate types, the data window *)
Definition tx_type_spec (b : bytes) : Z := nth 110 b 0 + 256 * nth 111 b 0.
Definition is_aggregate_spec (b : bytes) : bool := (tx_type_spec b =? 16705) || (tx_type_spec b =? 16961).
Definition data_window_spec (b : bytes) : bytes := if is_aggregate_spec b then firstn 52 (skipn 108 b) else skipn 108 b.

Lemma py_slice_clip {A} (l : list A) (lo hi : nat) :
  (lo <= length l)%nat -> py_slice l (Z.of_nat lo) (Z.of_nat hi) = firstn (hi - lo) (skipn lo l).
Proof.
  intros Hlo. unfold py_slice, py_slice_bound, slice.
  replace (Z.of_nat lo <? 0) with false by lia. replace (Z.of_nat hi <? 0) with false by lia.
  rewrite (Z.min_l (Z.of_nat lo)) by lia. rewrite Nat2Z.id.
  destruct (Nat.le_ge_cases hi (length l)) as [Hle|Hge].
  - rewrite Z.min_l by lia. now rewrite Nat2Z.id.
  - rewrite Z.min_r by lia. rewrite Nat2Z.id.
    rewrite !firstn_all2; try reflexivity; rewrite skipn_length; lia.
Qed.

Lemma is_aggregate_eq b : (112 <= length b)%nat -> is_aggregate_transaction b = Ok (is_aggregate_spec b).
Proof.
  intros Hlen. unfold is_aggregate_transaction.
  change (ev2 type_off_op tx_header_size type_off_skip) with (Z.of_nat 110).
  change (ev2 type_hi_idx_op (Z.of_nat 110) type_hi_idx_inc) with (Z.of_nat 111).
  rewrite (py_get_nth b 111 0), (py_get_nth b 110 0) by lia. f_equal.
  unfold aggregate_types. cbn [existsb].
  change (ev2 type_combine_op (ev2 type_hi_shift_op (nth 111 b 0) type_hi_shift) (nth 110 b 0))
    with (Z.shiftl (nth 111 b 0) 8 + nth 110 b 0).
  rewrite Z.shiftl_mul_pow2 by lia. change (2 ^ 8) with 256.
  change agg_bonded_type with 16961. change agg_complete_type with 16705.
  unfold is_aggregate_spec, tx_type_spec.
  replace (nth 111 b 0 * 256 + nth 110 b 0) with (nth 110 b 0 + 256 * nth 111 b 0) by lia.
  rewrite Bool.orb_false_r. apply Bool.orb_comm.
Qed.

Lemma data_window b : (112 <= length b)%nat -> transaction_data_buffer b = Ok (data_window_spec b).
Proof.
  intros Hlen. unfold transaction_data_buffer. rewrite is_aggregate_eq by exact Hlen. f_equal.
  unfold data_window_spec. change tx_header_size with (Z.of_nat 108). destruct (is_aggregate_spec b).
  - change (ev2 window_end_op (Z.of_nat 108) aggregate_hashed_size) with (Z.of_nat 160).
    rewrite py_slice_clip by lia. reflexivity.
  - rewrite py_slice_clip by lia. apply firstn_all2. rewrite skipn_length. lia.
Qed.

Lemma tx_hash_input_def sig signer seed b : (112 <= length b)%nat ->
  tx_hash_input sig signer seed b = Ok (sig ++ signer ++ seed ++ data_window_spec b).
Proof. intros Hlen. unfold tx_hash_input. now rewrite data_window. Qed.

Lemma hash_transaction_def H sig signer seed b : (112 <= length b)%nat ->
  hash_transaction_bytes H sig signer seed b = Ok (H (sig ++ signer ++ seed ++ data_window_spec b)).
Proof. intros Hlen. unfold hash_transaction_bytes. now rewrite tx_hash_input_def. Qed.

Lemma nth_skipn_add {A} n k (l : list A) d : nth k (skipn n l) d = nth (n + k) l d.
Proof. revert l; induction n as [|n IH]; intros l; [reflexivity|]. destruct l as [|x l]; [now destruct k | apply IH]. Qed.

Lemma nth_firstn_lt {A} n k (l : list A) d : (k < n)%nat -> nth k (firstn n l) d = nth k l d.
Proof.
  revert k l; induction n as [|n IH]; intros k l Hk; [lia|]. destruct l as [|x l]; [reflexivity|].
  destruct k as [|k]; [reflexivity|]. cbn [firstn nth]. apply IH. lia.
Qed.

Lemma tx_type_tail b : tx_type_spec b = nth 2 (skipn 108 b) 0 + 256 * nth 3 (skipn 108 b) 0.
Proof. rewrite !nth_skipn_add. reflexivity. Qed.

Lemma is_aggregate_spec_tail b b' : skipn 108 b = skipn 108 b' -> is_aggregate_spec b = is_aggregate_spec b'.
Proof. intros E. unfold is_aggregate_spec. rewrite !tx_type_tail, E. reflexivity. Qed.

Lemma is_aggregate_spec_window b b' : firstn 52 (skipn 108 b) = firstn 52 (skipn 108 b') -> is_aggregate_spec b = is_aggregate_spec b'.
Proof.
  intros E. unfold is_aggregate_spec. rewrite !tx_type_tail.
  rewrite <- (nth_firstn_lt 52 2 (skipn 108 b) 0), <- (nth_firstn_lt 52 3 (skipn 108 b) 0) by lia.
  rewrite <- (nth_firstn_lt 52 2 (skipn 108 b') 0), <- (nth_firstn_lt 52 3 (skipn 108 b') 0) by lia.
  rewrite E. reflexivity.
Qed.

(* nothing before byte 108 reaches the window; for an aggregate nothing from byte 160 on either *)
Lemma window_ignores_header b b' : skipn 108 b = skipn 108 b' -> data_window_spec b = data_window_spec b'.
Proof. intros E. unfold data_window_spec. rewrite (is_aggregate_spec_tail b b' E), E. reflexivity. Qed.

Lemma window_ignores_aggregate_tail b b' :
  is_aggregate_spec b = true -> firstn 52 (skipn 108 b) = firstn 52 (skipn 108 b') -> data_window_spec b = data_window_spec b'.
Proof. intros Ha E. unfold data_window_spec. rewrite <- (is_aggregate_spec_window b b' E), Ha. exact E. Qed.

Lemma hash_ignores_uncovered H sig signer seed b b' :
  (112 <= length b)%nat -> (112 <= length b')%nat ->
  skipn 108 b = skipn 108 b' \/ (is_aggregate_spec b = true /\ firstn 52 (skipn 108 b) = firstn 52 (skipn 108 b')) ->
  hash_transaction_bytes H sig signer seed b = hash_transaction_bytes H sig signer seed b'.
Proof.
  intros L L' [E|[Ha E]]; rewrite !hash_transaction_def by assumption.
  - now rewrite (window_ignores_header b b' E).
  - now rewrite (window_ignores_aggregate_tail b b' Ha E).
Qed.

Lemma app_inj_len {A} (a b c d : list A) : length a = length c -> a ++ b = c ++ d -> a = c /\ b = d.
Proof.
  revert c. induction a as [|x a IH]; intros [|y c] Hl E; cbn [length app] in *; try lia; [auto|].
  injection E as -> E. destruct (IH c ltac:(lia) E) as [-> ->]. auto.
Qed.

(* the hash input determines every covered part *)
Lemma hash_input_injective sig signer seed b sig' signer' seed' b' :
  (112 <= length b)%nat -> (112 <= length b')%nat ->
  length sig = length sig' -> length signer = length signer' -> length seed = length seed' ->
  tx_hash_input sig signer seed b = tx_hash_input sig' signer' seed' b' ->
  sig = sig' /\ signer = signer' /\ seed = seed' /\ data_window_spec b = data_window_spec b'.
Proof.
  intros L L' L1 L2 L3 E. rewrite !tx_hash_input_def in E by assumption. injection E as E.
  apply app_inj_len in E as [-> E]; [|exact L1]. apply app_inj_len in E as [-> E]; [|exact L2].
  apply app_inj_len in E as [-> E]; [|exact L3]. auto.
Qed.

(* position p of the serialized transaction is inside the data window *)
Definition covered_position (b : bytes) (p : nat) : Prop :=
  (108 <= p < length b)%nat /\ (is_aggregate_spec b = true -> (p < 160)%nat).

Lemma covered_byte_changes_window b b' p :
  length b = length b' -> covered_position b p -> nth p b 0 <> nth p b' 0 -> data_window_spec b <> data_window_spec b'.
Proof.
  intros Hlen [[Hlo Hhi] Hagg] Hne E. apply Hne. clear Hne.
  replace p with (108 + (p - 108))%nat by lia. rewrite <- !nth_skipn_add.
  unfold data_window_spec in E.
  destruct (is_aggregate_spec b) eqn:Ab; destruct (is_aggregate_spec b') eqn:Ab'.
  - specialize (Hagg eq_refl).
    rewrite <- (nth_firstn_lt 52 _ (skipn 108 b)), <- (nth_firstn_lt 52 _ (skipn 108 b')) by lia. now rewrite E.
  - specialize (Hagg eq_refl). rewrite <- (nth_firstn_lt 52 _ (skipn 108 b)) by lia. now rewrite E.
  - destruct (Nat.lt_ge_cases p 160) as [Hp|Hp].
    + rewrite <- (nth_firstn_lt 52 _ (skipn 108 b')) by lia. now rewrite E.
    + exfalso. assert (Hl : length (skipn 108 b) = length (firstn 52 (skipn 108 b'))) by now rewrite E.
      rewrite firstn_length, !skipn_length in Hl. lia.
  - now rewrite E.
Qed.

Lemma covered_byte_changes_input sig signer seed b b' p :
  (112 <= length b)%nat -> length b = length b' -> covered_position b p -> nth p b 0 <> nth p b' 0 ->
  tx_hash_input sig signer seed b <> tx_hash_input sig signer seed b'.
Proof.
  intros L Hlen Hc Hne E.
  apply hash_input_injective in E as (_ & _ & _ & E); try reflexivity; try lia.
  exact (covered_byte_changes_window b b' p Hlen Hc Hne E).
Qed.

Lemma hash_embedded_eq_tree H embedded : hash_embedded_transactions H embedded = Ok (merkle_root_spec H (map H embedded)).
Proof. apply merkle_final_eq_tree. Qed.

(* ================================================================================================================== *)
(* Patricia tree: nibble access and the hex-prefix path encoding *)

(* fixed-text specification *)
Definition path_nibbles (p : ppath) : list Z := firstn (Z.to_nat (pp_size p)) (nibbles_of (pp_bytes p)).
Fixpoint pack (ns : list Z) : bytes := match ns with a :: b :: r => (16 * a + b) :: pack r | _ => [] end.
(* first nibble: 2 for a leaf + 1 for an odd nibble count; an even path is preceded by a zero nibble *)
Definition hp_encode (is_leaf : bool) (ns : list Z) : bytes :=
  let odd := Nat.odd (length ns) in
  let flag := (if is_leaf then 2 else 0) + (if odd then 1 else 0) in
  pack (flag :: (if odd then ns else 0 :: ns)).
Definition wf_path (p : ppath) : Prop :=
  wf_bytes (pp_bytes p) = true /\ 0 <= pp_size p <= 2 * Z.of_nat (length (pp_bytes p)).
Definition is_nibble (x : Z) : Prop := 0 <= x < 16.

Lemma nibbles_of_length bs : length (nibbles_of bs) = (2 * length bs)%nat.
Proof. induction bs as [|b r IH]; [reflexivity|]. cbn [nibbles_of flat_map app length] in *. fold (nibbles_of r). lia. Qed.

Lemma nibbles_of_nth : forall bs k, (k < 2 * length bs)%nat ->
  nth k (nibbles_of bs) 0 = if Nat.even k then nth (Nat.div2 k) bs 0 / 16 else nth (Nat.div2 k) bs 0 mod 16.
Proof.
  induction bs as [|b r IH]; intros k Hk; cbn [length] in Hk; [lia|].
  destruct k as [|[|k]]; [reflexivity | reflexivity |].
  change (nibbles_of (b :: r)) with (b / 16 :: b mod 16 :: nibbles_of r).
  change (Nat.even (S (S k))) with (Nat.even k). cbn [nth Nat.div2]. apply IH. lia.
Qed.

Lemma nibbles_of_range bs : wf_bytes bs = true -> Forall is_nibble (nibbles_of bs).
Proof.
  induction bs as [|b r IH]; cbn [wf_bytes forallb]; intros Hwf; [constructor|].
  apply Bool.andb_true_iff in Hwf as [Hb Hr]. unfold is_byte in Hb.
  change (nibbles_of (b :: r)) with (b / 16 :: b mod 16 :: nibbles_of r).
  repeat constructor; try (unfold is_nibble; Z.div_mod_to_equations; lia). apply IH, Hr.
Qed.

Lemma Forall_firstn' {A} (P : A -> Prop) n l : Forall P l -> Forall P (firstn n l).
Proof. revert l; induction n as [|n IH]; intros l F; [constructor|]. destruct F; [constructor|]. cbn [firstn]. constructor; auto. Qed.

Lemma Forall_skipn' {A} (P : A -> Prop) n l : Forall P l -> Forall P (skipn n l).
Proof. revert l; induction n as [|n IH]; intros l F; [exact F|]. destruct F; [constructor|]. cbn [skipn]. auto. Qed.

Lemma odd_Z n : Z.of_nat n mod 2 = if Nat.odd n then 1 else 0.
Proof. pose proof (Nat.div2_odd n) as E. destruct (Nat.odd n); cbn [Nat.b2n] in E; Z.div_mod_to_equations; lia. Qed.

Lemma div2_Z n : Z.of_nat n / 2 = Z.of_nat (Nat.div2 n).
Proof. pose proof (Nat.div2_odd n) as E. destruct (Nat.odd n); cbn [Nat.b2n] in E; Z.div_mod_to_equations; lia. Qed.

(* the regenerated operators of _get_nibble_at, evaluated *)
Lemma get_nibble_at_eq p i :
  get_nibble_at p i =
  match py_get (pp_bytes p) (i / 2) with
  | None => None
  | Some byte => Some (if 1 =? i mod 2 then Z.land byte 15 else Z.shiftr byte 4)
  end.
Proof. reflexivity. Qed.

Lemma get_nibble_at_nth p k : (k < 2 * length (pp_bytes p))%nat ->
  get_nibble_at p (Z.of_nat k) = Some (nth k (nibbles_of (pp_bytes p)) 0).
Proof.
  intros Hk. rewrite get_nibble_at_eq, div2_Z, odd_Z.
  assert (Hd : (Nat.div2 k < length (pp_bytes p))%nat).
  { pose proof (Nat.div2_odd k) as E. destruct (Nat.odd k); cbn [Nat.b2n] in E; lia. }
  rewrite (py_get_nth _ _ 0) by exact Hd. rewrite nibbles_of_nth by exact Hk. f_equal.
  rewrite <- Nat.negb_odd. destruct (Nat.odd k); cbn [negb Z.eqb Pos.eqb].
  - change 15 with (Z.ones 4). rewrite Z.land_ones by lia. reflexivity.
  - rewrite Z.shiftr_div_pow2 by lia. reflexivity.
Qed.

Lemma path_nibbles_length p : wf_path p -> length (path_nibbles p) = Z.to_nat (pp_size p).
Proof. intros [_ Hs]. unfold path_nibbles. apply firstn_length_le. rewrite nibbles_of_length. lia. Qed.

Lemma path_nibbles_range p : wf_path p -> Forall is_nibble (path_nibbles p).
Proof. intros [Hwf _]. apply Forall_firstn', nibbles_of_range, Hwf. Qed.

Lemma get_nibble_in_path p k : wf_path p -> Z.of_nat k < pp_size p ->
  get_nibble_at p (Z.of_nat k) = Some (nth k (path_nibbles p) 0).
Proof.
  intros [Hwf Hs] Hk. rewrite get_nibble_at_nth by lia. unfold path_nibbles. now rewrite nth_firstn_lt by lia.
Qed.

Lemma skipn_cons2 {A} k (l : list A) d : (S k < length l)%nat -> skipn k l = nth k l d :: nth (S k) l d :: skipn (S (S k)) l.
Proof.
  revert l; induction k as [|k IH]; intros l Hk.
  - destruct l as [|x [|y l]]; cbn [length] in Hk; try lia. reflexivity.
  - destruct l as [|x l]; cbn [length] in Hk; [lia|]. cbn [skipn nth]. apply IH. lia.
Qed.

Lemma encode_tail_eq f p i :
  encode_tail (S f) p i =
  if i <? pp_size p then
    match get_nibble_at p i, get_nibble_at p (i + 1) with
    | Some hi, Some lo => match encode_tail f p (i + 2) with Ok r => Ok (Z.shiftl hi 4 + lo :: r) | Reject => Reject | Crash k => Crash k end
    | _, _ => Crash index_error
    end
  else Ok [].
Proof. reflexivity. Qed.

Lemma encode_tail_spec p : wf_path p -> forall m k fuel,
  Z.of_nat k + 2 * Z.of_nat m = pp_size p -> (m < fuel)%nat ->
  encode_tail fuel p (Z.of_nat k) = Ok (pack (skipn k (path_nibbles p))).
Proof.
  intros Hwf. pose proof (path_nibbles_length p Hwf) as Hlen. induction m as [|m IH]; intros k fuel Hk Hfuel.
  - destruct fuel as [|f]; [lia|]. rewrite encode_tail_eq. replace (Z.of_nat k <? pp_size p) with false by lia.
    rewrite skipn_all2 by lia. reflexivity.
  - destruct fuel as [|f]; [lia|]. rewrite encode_tail_eq. replace (Z.of_nat k <? pp_size p) with true by lia.
    rewrite get_nibble_in_path by (exact Hwf || lia).
    replace (Z.of_nat k + 1) with (Z.of_nat (S k)) by lia. rewrite get_nibble_in_path by (exact Hwf || lia).
    replace (Z.of_nat k + 2) with (Z.of_nat (S (S k))) by lia. rewrite IH by lia.
    rewrite (skipn_cons2 k _ 0) by lia. cbn [pack]. rewrite Z.shiftl_mul_pow2 by lia. do 2 f_equal. change (2 ^ 4) with 16. lia.
Qed.

Lemma encode_path_eq p is_leaf :
  encode_path p is_leaf =
  let fuel := S (Z.to_nat (pp_size p)) in
  let first := if is_leaf then 32 else 0 in
  match
    (if 1 =? pp_size p mod 2 then
       match get_nibble_at p 0 with
       | None => Crash index_error
       | Some nb => match encode_tail fuel p 1 with Ok r => Ok (Z.lor first (Z.lor 16 nb) :: r) | Reject => Reject | Crash k => Crash k end
       end
     else match encode_tail fuel p 0 with Ok r => Ok (first :: r) | Reject => Reject | Crash k => Crash k end)
  with
  | Ok bs => if wf_bytes bs then Ok bs else Reject
  | Reject => Reject
  | Crash k => Crash k
  end.
Proof. reflexivity. Qed.

Lemma wf_pack ns : Forall is_nibble ns -> wf_bytes (pack ns) = true.
Proof.
  induction ns as [| a | a b r IH] using list_ind2; intros F; [reflexivity | reflexivity |].
  inversion F as [|? ? Ha F']. inversion F' as [|? ? Hb F'']. subst. cbn [pack wf_bytes forallb].
  fold (wf_bytes (pack r)). rewrite IH by exact F''. unfold is_byte, is_nibble in *. lia.
Qed.

Lemma lor_flags first nb : (first = 32 \/ first = 0) -> is_nibble nb -> Z.lor first (Z.lor 16 nb) = first + 16 + nb.
Proof.
  unfold is_nibble. intros Hf Hn.
  assert (nb = 0 \/ nb = 1 \/ nb = 2 \/ nb = 3 \/ nb = 4 \/ nb = 5 \/ nb = 6 \/ nb = 7 \/ nb = 8 \/ nb = 9 \/ nb = 10 \/ nb = 11
          \/ nb = 12 \/ nb = 13 \/ nb = 14 \/ nb = 15) as Hc by lia.
  destruct Hf as [-> | ->]; repeat (destruct Hc as [-> | Hc]; [reflexivity|]); subst; reflexivity.
Qed.

Theorem encode_path_spec p is_leaf : wf_path p -> encode_path p is_leaf = Ok (hp_encode is_leaf (path_nibbles p)).
Proof.
  intros Hwf. pose proof (path_nibbles_length p Hwf) as Hlen. pose proof (path_nibbles_range p Hwf) as Hrange.
  pose proof Hwf as [Hb Hs].
  rewrite encode_path_eq. cbv zeta. unfold hp_encode. rewrite Hlen.
  pose proof (odd_Z (Z.to_nat (pp_size p))) as Hodd. rewrite Z2Nat.id in Hodd by lia.
  destruct (Nat.odd (Z.to_nat (pp_size p))) eqn:Eo; rewrite Hodd; cbn [Z.eqb Pos.eqb].
  - (* odd: the first nibble joins the flags *)
    assert (Hpos : 0 < pp_size p) by (destruct (Z.eq_dec (pp_size p) 0) as [E|]; [rewrite E in Hodd; discriminate | lia]).
    pose proof (get_nibble_in_path p 0 Hwf ltac:(lia)) as Hg. change (Z.of_nat 0) with 0 in Hg. rewrite Hg.
    pose proof (encode_tail_spec p Hwf (Z.to_nat ((pp_size p - 1) / 2)) 1 (S (Z.to_nat (pp_size p)))
                  ltac:(Z.div_mod_to_equations; lia) ltac:(Z.div_mod_to_equations; lia)) as Ht.
    change (Z.of_nat 1) with 1 in Ht. rewrite Ht.
    destruct (path_nibbles p) as [|n0 ns] eqn:En; [cbn [length] in Hlen; lia|].
    cbn [nth skipn pack]. inversion Hrange as [|? ? Hn0 Hns]. subst.
    rewrite lor_flags by (auto; destruct is_leaf; auto).
    replace ((if is_leaf then 32 else 0) + 16 + n0) with (16 * ((if is_leaf then 2 else 0) + 1) + n0) by (destruct is_leaf; lia).
    match goal with |- (if wf_bytes ?bs then _ else _) = _ => assert (Hw : wf_bytes bs = true) end.
    { change (wf_bytes (pack (((if is_leaf then 2 else 0) + 1) :: n0 :: ns)) = true). apply wf_pack.
      constructor; [unfold is_nibble; destruct is_leaf; lia | exact Hrange]. }
    rewrite Hw. reflexivity.
  - pose proof (encode_tail_spec p Hwf (Z.to_nat (pp_size p / 2)) 0 (S (Z.to_nat (pp_size p)))
                  ltac:(Z.div_mod_to_equations; lia) ltac:(Z.div_mod_to_equations; lia)) as Ht.
    change (Z.of_nat 0) with 0 in Ht. rewrite Ht.
    cbn [skipn pack].
    replace (if is_leaf then 32 else 0) with (16 * ((if is_leaf then 2 else 0) + 0) + 0) by (destruct is_leaf; lia).
    match goal with |- (if wf_bytes ?bs then _ else _) = _ => assert (Hw : wf_bytes bs = true) end.
    { change (wf_bytes (pack (((if is_leaf then 2 else 0) + 0) :: 0 :: path_nibbles p)) = true). apply wf_pack.
      constructor; [unfold is_nibble; destruct is_leaf; lia|]. constructor; [unfold is_nibble; lia | exact Hrange]. }
    rewrite Hw. reflexivity.
Qed.

(* the encoding is unambiguous: flag nibble and path can be read back *)
Lemma pack_inj : forall l1 l2, Forall is_nibble l1 -> Forall is_nibble l2 ->
  Nat.even (length l1) = true -> Nat.even (length l2) = true -> pack l1 = pack l2 -> l1 = l2.
Proof.
  induction l1 as [| a | a b r IH] using list_ind2; intros l2 F1 F2 E1 E2 E.
  - destruct l2 as [|x [|y r2]]; [reflexivity | discriminate | discriminate].
  - discriminate.
  - destruct l2 as [|x [|y r2]]; [discriminate | discriminate |].
    cbn [pack] in E. pose proof (f_equal (hd 0) E) as Eh. pose proof (f_equal (@tl Z) E) as Et. cbn [hd tl] in Eh, Et.
    inversion F1 as [|? ? Ha F1']. inversion F1' as [|? ? Hb F1'']. inversion F2 as [|? ? Hx F2']. inversion F2' as [|? ? Hy F2'']. subst.
    unfold is_nibble in *. assert (a = x) by lia. assert (b = y) by lia. subst. f_equal. f_equal.
    apply IH; auto.
Qed.

Theorem hp_encode_inj l1 ns1 l2 ns2 : Forall is_nibble ns1 -> Forall is_nibble ns2 ->
  hp_encode l1 ns1 = hp_encode l2 ns2 -> l1 = l2 /\ ns1 = ns2.
Proof.
  intros F1 F2 E. unfold hp_encode in E. cbv zeta in E.
  apply pack_inj in E.
  - destruct (Nat.odd (length ns1)), (Nat.odd (length ns2)), l1, l2; injection E; intros; subst; try lia; auto.
  - constructor; [unfold is_nibble; destruct l1, (Nat.odd (length ns1)); lia|].
    destruct (Nat.odd (length ns1)); [exact F1 | constructor; [unfold is_nibble; lia | exact F1]].
  - constructor; [unfold is_nibble; destruct l2, (Nat.odd (length ns2)); lia|].
    destruct (Nat.odd (length ns2)); [exact F2 | constructor; [unfold is_nibble; lia | exact F2]].
  - destruct (Nat.odd (length ns1)) eqn:Eo; cbn [length].
    + now rewrite Nat.even_succ.
    + change (Nat.even (S (S (length ns1)))) with (Nat.even (length ns1)). now rewrite <- Nat.negb_odd, Eo.
  - destruct (Nat.odd (length ns2)) eqn:Eo; cbn [length].
    + now rewrite Nat.even_succ.
    + change (Nat.even (S (S (length ns2)))) with (Nat.even (length ns2)). now rewrite <- Nat.negb_odd, Eo.
Qed.

Lemma pack_length l : length (pack l) = Nat.div2 (length l).
Proof. induction l as [| a | a b r IH] using list_ind2; [reflexivity | reflexivity |]. cbn [pack length Nat.div2]. now rewrite IH. Qed.

Lemma hp_encode_length is_leaf ns : length (hp_encode is_leaf ns) = S (Nat.div2 (length ns)).
Proof.
  unfold hp_encode. cbv zeta. rewrite pack_length. destruct (Nat.odd (length ns)) eqn:Eo; cbn [length]; [|reflexivity].
  pose proof (Nat.div2_odd (length ns)) as E1. rewrite Eo in E1. pose proof (Nat.div2_odd (S (length ns))) as E2.
  destruct (Nat.odd (S (length ns))); cbn [Nat.b2n] in *; lia.
Qed.

Lemma hp_encode_first_byte is_leaf ns : Forall is_nibble ns ->
  exists b rest, hp_encode is_leaf ns = b :: rest /\
    b / 16 = (if is_leaf then 2 else 0) + (if Nat.odd (length ns) then 1 else 0).
Proof.
  intros F. unfold hp_encode. cbv zeta. destruct (Nat.odd (length ns)) eqn:Eo.
  - destruct ns as [|n0 ns]; [discriminate|]. inversion F as [|? ? Hn F']. subst. cbn [pack].
    eexists _, _. split; [reflexivity|].
    unfold is_nibble in Hn. destruct is_leaf; Z.div_mod_to_equations; lia.
  - cbn [pack]. eexists _, _. split; [reflexivity|]. destruct is_leaf; reflexivity.
Qed.

(* ================================================================================================================== *)
(* deserialize_patricia_tree_nodes reads back what catapult's node format spells *)

Definition link_ok (l : option bytes) : Prop := match l with Some h => length h = 32%nat | None => True end.
Definition wf_ppath (p : ppath) : Prop := Z.of_nat (length (pp_bytes p)) = (pp_size p + 1) / 2.
Definition wf_node (n : node) : Prop :=
  match n with
  | LeafNode p v => wf_ppath p /\ length v = 32%nat
  | BranchNode p links => wf_ppath p /\ length links = 16%nat /\ Forall link_ok links
  end.
Definition present_links (links : list (option bytes)) : bytes :=
  flat_map (fun l => match l with Some h => h | None => [] end) links.

(* the reader stands at offset off of buffer B and s is what remains *)
Definition at_ (B : bytes) (off : nat) (s : bytes) : Prop := skipn off B = s /\ (off <= length B)%nat.

Lemma skipn_add {A} a b (l : list A) : skipn (a + b) l = skipn b (skipn a l).
Proof. revert l; induction a as [|a IH]; intros l; [reflexivity|]. destruct l as [|x l]; [now rewrite !skipn_nil | apply IH]. Qed.

Lemma read_bytes_eq B off count : read_bytes (B, off) count = (py_slice B off (off + count), (B, off + count)).
Proof. reflexivity. Qed.

Lemma read_at B off x rest : at_ B off (x ++ rest) ->
  read_bytes (B, Z.of_nat off) (Z.of_nat (length x)) = (x, (B, Z.of_nat (off + length x))) /\ at_ B (off + length x) rest.
Proof.
  intros [Hs Ho].
  assert (Hl : (off + length x + length rest = length B)%nat).
  { assert (E : length (skipn off B) = length (x ++ rest)) by now rewrite Hs. rewrite skipn_length, app_length in E. lia. }
  split.
  - rewrite read_bytes_eq. replace (Z.of_nat off + Z.of_nat (length x)) with (Z.of_nat (off + length x)) by lia.
    rewrite py_slice_clip by exact Ho. rewrite Hs. replace (off + length x - off)%nat with (length x) by lia.
    rewrite firstn_app, Nat.sub_diag, firstn_all. cbn [firstn]. now rewrite app_nil_r.
  - split; [|lia].
    rewrite skipn_add, Hs. rewrite skipn_app, skipn_all, Nat.sub_diag. reflexivity.
Qed.

Lemma make_hash256_ok v : length v = 32%nat -> make_hash256 v = Ok v.
Proof. intros Hv. unfold make_hash256. change hash256_size with 32. replace (Z.of_nat (length v) =? 32) with true by lia. reflexivity. Qed.

Lemma deserialize_path_ok B off p rest : wf_ppath p -> at_ B off (pp_size p :: pp_bytes p ++ rest) ->
  deserialize_path (B, Z.of_nat off) = (p, (B, Z.of_nat (off + 1 + length (pp_bytes p)))) /\
  at_ B (off + 1 + length (pp_bytes p)) rest.
Proof.
  intros Hwf Hat. unfold wf_ppath in Hwf. destruct p as [bs size]. cbn [pp_bytes pp_size] in *.
  destruct (read_at B off [size] (bs ++ rest) Hat) as [Hr Hat1]. cbn [length] in Hr, Hat1.
  destruct (read_at B (off + 1) bs rest Hat1) as [Hr2 Hat2].
  split; [|exact Hat2].
  unfold deserialize_path, read_int. change des_nibbles_w with (Z.of_nat 1). rewrite Hr. cbn [fst snd].
  change (int_from_bytes reader_order [size]) with (size + 256 * 0). replace (size + 256 * 0) with size by lia.
  change (ev2 des_half_op (ev2 des_round_op size des_round_inc) des_half_div) with ((size + 1) / 2).
  rewrite <- Hwf, Hr2. reflexivity.
Qed.

Lemma deserialize_leaf_ok B off p v rest : wf_node (LeafNode p v) -> at_ B off (pp_size p :: pp_bytes p ++ v ++ rest) ->
  exists off', deserialize_leaf (B, Z.of_nat off) = Ok (LeafNode p v, (B, Z.of_nat off')) /\ at_ B off' rest.
Proof.
  intros [Hp Hv] Hat. destruct (deserialize_path_ok B off p (v ++ rest) Hp Hat) as [Hd Hat1].
  destruct (read_at B _ v rest Hat1) as [Hr Hat2].
  eexists. split; [|exact Hat2]. unfold deserialize_leaf. rewrite Hd. cbn [fst snd].
  replace hash256_size with (Z.of_nat (length v)) by (rewrite Hv; reflexivity). rewrite Hr. cbn [fst snd].
  rewrite make_hash256_ok by exact Hv. reflexivity.
Qed.

Lemma testbit_links_mask : forall links j, Z.testbit (links_mask links) (Z.of_nat j) = is_some (nth j links None).
Proof.
  induction links as [|l links IH]; intros j.
  - cbn [links_mask]. rewrite Z.testbit_0_l. now destruct j.
  - cbn [links_mask]. destruct j as [|j].
    + change (Z.of_nat 0) with 0. rewrite Z.testbit_0_r. reflexivity.
    + rewrite Nat2Z.inj_succ, Z.testbit_succ_r by lia. apply IH.
Qed.

Lemma deserialize_links_eq index rest mask r :
  deserialize_links (index :: rest) mask r =
  if Z.land mask (2 ^ Z.of_nat index) =? 0 then
    match deserialize_links rest mask r with
    | Ok (ls, r') => Ok (None :: ls, r')
    | Reject => Reject
    | Crash k => Crash k
    end
  else
    let b := read_bytes r 32 in
    match make_hash256 (fst b) with
    | Ok h =>
      match deserialize_links rest mask (snd b) with
      | Ok (ls, r') => Ok (Some h :: ls, r')
      | Reject => Reject
      | Crash k => Crash k
      end
    | Reject => Reject
    | Crash k => Crash k
    end.
Proof. reflexivity. Qed.

Lemma deserialize_links_ok : forall links k B off rest M,
  (forall j, (j < length links)%nat -> Z.testbit M (Z.of_nat (k + j)) = is_some (nth j links None)) ->
  Forall link_ok links -> at_ B off (present_links links ++ rest) ->
  exists off', deserialize_links (seq k (length links)) M (B, Z.of_nat off) = Ok (links, (B, Z.of_nat off')) /\ at_ B off' rest.
Proof.
  induction links as [|l links IH]; intros k B off rest M Hbits Hok Hat.
  - exists off. split; [reflexivity | exact Hat].
  - cbn [length seq]. rewrite deserialize_links_eq. rewrite land_pow2 by lia.
    pose proof (Hbits 0%nat ltac:(cbn [length]; lia)) as Hb0. rewrite Nat.add_0_r in Hb0. cbn [nth] in Hb0. rewrite Hb0.
    assert (Hbits' : forall j, (j < length links)%nat -> Z.testbit M (Z.of_nat (S k + j)) = is_some (nth j links None)).
    { intros j Hj. specialize (Hbits (S j) ltac:(cbn [length]; lia)). cbn [nth] in Hbits.
      replace (S k + j)%nat with (k + S j)%nat by lia. exact Hbits. }
    inversion Hok as [|? ? Hl Hok']. subst.
    destruct l as [h|]; cbn [is_some].
    + assert (Hne : (2 ^ Z.of_nat k =? 0) = false) by (pose proof (Z.pow_pos_nonneg 2 (Z.of_nat k)); lia). rewrite Hne.
      cbn [present_links flat_map] in Hat. fold (present_links links) in Hat. rewrite <- app_assoc in Hat.
      destruct (read_at B off h _ Hat) as [Hr Hat1]. cbn [link_ok] in Hl.
      cbv zeta. replace 32 with (Z.of_nat (length h)) by (rewrite Hl; reflexivity). rewrite Hr. cbn [fst snd].
      rewrite make_hash256_ok by exact Hl.
      destruct (IH (S k) B _ rest M Hbits' Hok' Hat1) as (off' & Hd & Hat2).
      exists off'. rewrite Hd. split; [reflexivity | exact Hat2].
    + change (0 =? 0) with true. cbv iota.
      destruct (IH (S k) B off rest M Hbits' Hok' Hat) as (off' & Hd & Hat2).
      exists off'. rewrite Hd. split; [reflexivity | exact Hat2].
Qed.

Lemma deserialize_branch_ok B off p links rest : wf_node (BranchNode p links) ->
  at_ B off (pp_size p :: pp_bytes p ++ to_le 2 (links_mask links) ++ present_links links ++ rest) ->
  exists off', deserialize_branch (B, Z.of_nat off) = Ok (BranchNode p links, (B, Z.of_nat off')) /\ at_ B off' rest.
Proof.
  intros (Hp & Hl & Hok) Hat.
  destruct (deserialize_path_ok B off p _ Hp Hat) as [Hd Hat1].
  destruct (read_at B _ (to_le 2 (links_mask links)) _ Hat1) as [Hr Hat2]. rewrite length_to_le in Hr, Hat2.
  assert (Hbits : forall j, (j < length links)%nat ->
            Z.testbit (from_le (to_le 2 (links_mask links))) (Z.of_nat (0 + j)) = is_some (nth j links None)).
  { intros j Hj. rewrite from_le_to_le. cbn [Nat.add]. rewrite Z.mod_pow2_bits_low by lia. apply testbit_links_mask. }
  destruct (deserialize_links_ok links 0 B _ rest _ Hbits Hok Hat2) as (off' & Hdl & Hat3).
  exists off'. split; [|exact Hat3].
  unfold deserialize_branch, read_int. rewrite Hd. cbn [fst snd]. change des_mask_w with (Z.of_nat 2). rewrite Hr. cbn [fst snd].
  change (int_from_bytes reader_order (to_le 2 (links_mask links))) with (from_le (to_le 2 (links_mask links))).
  replace des_links_n with (length links) by (rewrite Hl; reflexivity). rewrite Hdl. reflexivity.
Qed.

Lemma deserialize_loop_eq f r :
  deserialize_loop (S f) r =
  if snd r =? Z.of_nat (length (fst r)) then Ok []
  else
    let m := read_int r 1 in
    let parsed :=
      if 255 =? fst m then deserialize_leaf (snd m)
      else if 0 =? fst m then deserialize_branch (snd m)
      else Reject in
    match parsed with
    | Ok (n, r') => match deserialize_loop f r' with Ok ns => Ok (n :: ns) | Reject => Reject | Crash k => Crash k end
    | Reject => Reject
    | Crash k => Crash k
    end.
Proof. reflexivity. Qed.

Lemma serialize_node_eq n :
  serialize_node n =
  match n with
  | LeafNode p v => [255] ++ pp_size p :: pp_bytes p ++ v
  | BranchNode p links => [0] ++ pp_size p :: pp_bytes p ++ to_le 2 (links_mask links) ++ present_links links
  end.
Proof. destruct n; reflexivity. Qed.

Lemma deserialize_loop_ok : forall nodes B off fuel,
  Forall wf_node nodes -> at_ B off (serialize_nodes nodes) -> (length nodes < fuel)%nat ->
  deserialize_loop fuel (B, Z.of_nat off) = Ok nodes.
Proof.
  induction nodes as [|n nodes IH]; intros B off fuel Hwf Hat Hfuel; (destruct fuel as [|f]; [lia|]); rewrite deserialize_loop_eq; cbn [fst snd].
  - destruct Hat as [Hs Ho]. assert (E : length (skipn off B) = 0%nat) by (rewrite Hs; reflexivity). rewrite skipn_length in E.
    replace (Z.of_nat off =? Z.of_nat (length B)) with true by lia. reflexivity.
  - inversion Hwf as [|? ? Hn Hwf']. subst. cbn [length] in Hfuel.
    unfold serialize_nodes in Hat. cbn [flat_map] in Hat. fold (serialize_nodes nodes) in Hat. rewrite serialize_node_eq in Hat.
    assert (Hlt : (off < length B)%nat).
    { destruct Hat as [Hs Ho]. assert (E : length (skipn off B) = length (serialize_node n ++ serialize_nodes nodes)) by (rewrite <- serialize_node_eq in Hs; now rewrite Hs).
      rewrite skipn_length, app_length in E. destruct n; cbn [serialize_node length] in E; lia. }
    replace (Z.of_nat off =? Z.of_nat (length B)) with false by lia. cbv zeta. unfold read_int.
    destruct n as [p v | p links].
    + rewrite <- !app_assoc in Hat. destruct (read_at B off [255] _ Hat) as [Hr Hat1]. cbn [length] in Hr, Hat1.
      change (read_bytes (B, Z.of_nat off) 1) with (read_bytes (B, Z.of_nat off) (Z.of_nat 1)). rewrite Hr. cbn [fst snd]. change (int_from_bytes reader_order [255]) with 255.
      change (255 =? 255) with true. cbv iota.
      cbn [app] in Hat1. rewrite <- app_assoc in Hat1.
      destruct (deserialize_leaf_ok B _ p v _ Hn Hat1) as (off' & Hd & Hat2). rewrite Hd.
      rewrite (IH B off' f Hwf' Hat2) by lia. reflexivity.
    + rewrite <- !app_assoc in Hat. destruct (read_at B off [0] _ Hat) as [Hr Hat1]. cbn [length] in Hr, Hat1.
      change (read_bytes (B, Z.of_nat off) 1) with (read_bytes (B, Z.of_nat off) (Z.of_nat 1)). rewrite Hr. cbn [fst snd]. change (int_from_bytes reader_order [0]) with 0.
      change (255 =? 0) with false. change (0 =? 0) with true. cbv iota.
      cbn [app] in Hat1. rewrite <- !app_assoc in Hat1.
      destruct (deserialize_branch_ok B _ p links _ Hn Hat1) as (off' & Hd & Hat2). rewrite Hd.
      rewrite (IH B off' f Hwf' Hat2) by lia. reflexivity.
Qed.

Lemma serialize_nodes_length nodes : (length nodes <= length (serialize_nodes nodes))%nat.
Proof.
  induction nodes as [|n nodes IH]; [cbn; lia|]. unfold serialize_nodes in *. cbn [flat_map length]. rewrite app_length.
  destruct n; cbn [serialize_node length]; lia.
Qed.

Theorem deserialize_serialize nodes : Forall wf_node nodes -> deserialize_patricia_tree_nodes (serialize_nodes nodes) = Ok nodes.
Proof.
  intros Hwf. unfold deserialize_patricia_tree_nodes, reader_init. change reader_init_offset with (Z.of_nat 0).
  apply deserialize_loop_ok; [exact Hwf | split; [reflexivity | lia] |]. pose proof (serialize_nodes_length nodes). lia.
Qed.

(* ================================================================================================================== *)
(* prove_patricia_merkle: the verdict, read from the root *)
Section Verdicts.
Variable H : bytes -> bytes.

Inductive chain_result := CEmpty | COk (h : bytes) (p : list Z) | CUnlinked | CCrash (k : string).

(* A chain of nodes, root first: a branch spells its own path, then the index of the link to its child, then what the child
   spells (the tree format).  Failures of deeper nodes take precedence, as in the loop, which visits the deepest node first. *)
Fixpoint chain_fn (nodes : list node) : chain_result :=
  match nodes with
  | [] => CEmpty
  | n :: rest =>
    match chain_fn rest with
    | CEmpty =>
      match node_hash H n with
      | Ok h => COk h (hex_path (node_path n))
      | Reject => CCrash "ValueError"
      | Crash k => CCrash k
      end
    | COk hc below =>
      match node_hash H n with
      | Ok h =>
        match n with
        | LeafNode _ _ => CCrash attribute_error
        | BranchNode p links =>
          match index_of hc links with
          | None => CUnlinked
          | Some k => COk h (hex_path p ++ format_index k ++ below)
          end
        end
      | Reject => CCrash "ValueError"
      | Crash k => CCrash k
      end
    | CUnlinked => CUnlinked
    | CCrash k => CCrash k
    end
  end.

Lemma walk_chain : forall nodes above,
  walk H (rev nodes ++ above) None [] =
  match chain_fn nodes with
  | CEmpty => walk H above None []
  | COk h p => walk H above (Some h) p
  | CUnlinked => WUnlinked
  | CCrash k => WCrash k
  end.
Proof.
  induction nodes as [|n rest IH]; intros above; [reflexivity|].
  cbn [rev chain_fn]. rewrite <- app_assoc. cbn [app]. rewrite IH.
  destruct (chain_fn rest) as [|hc below| |k]; try reflexivity.
  - cbn [walk]. destruct (node_hash H n) as [h| |k]; try reflexivity. now rewrite app_nil_r.
  - cbn [walk]. destruct (node_hash H n) as [h| |k]; try reflexivity.
    destruct n as [p v|p links]; [reflexivity|]. destruct (index_of hc links); reflexivity.
Qed.

Definition walk_of_chain (c : chain_result) : walk_result :=
  match c with CEmpty => WPath [] | COk _ p => WPath p | CUnlinked => WUnlinked | CCrash k => WCrash k end.

Lemma walk_rev nodes : walk H (rev nodes) None [] = walk_of_chain (chain_fn nodes).
Proof. rewrite <- (app_nil_r (rev nodes)), walk_chain. destruct (chain_fn nodes); reflexivity. Qed.

(* fixed-text statement of the verdicts (codes as in catapult / the SDK documentation) *)
Definition verdict_spec (key value : bytes) (path : list node) (state_hash : bytes) (roots : list bytes) : result Z :=
  if negb (bytes_eqb state_hash (H (concat roots))) then Ok 0x8001
  else
    match path with
    | [] => Crash index_error
    | first :: _ =>
      match node_hash H first with
      | Reject => Reject
      | Crash k => Crash k
      | Ok first_hash =>
        if negb (existsb (bytes_eqb first_hash) roots) then Ok 0x8002
        else
          match last path first with
          | LeafNode _ v =>
            if negb (bytes_eqb value v) then Ok 0x8003
            else
              match chain_fn path with
              | CEmpty => Crash index_error
              | CCrash k => Crash k
              | CUnlinked => Ok 0x8004
              | COk _ actual => Ok (if bytes_eqb actual (nibbles_of key) then 0x0001 else 0x8005)
              end
          | BranchNode _ links =>
            match chain_fn path with
            | CEmpty => Crash index_error
            | CCrash k => Crash k
            | CUnlinked => Ok 0x8004
            | COk _ actual =>
              if negb (is_prefix actual (nibbles_of key)) then Ok 0x8005
              else
                match nth_error (nibbles_of key) (length actual) with
                | None => Crash index_error
                | Some next_nibble =>
                  match py_get links next_nibble with
                  | None => Crash index_error
                  | Some (Some _) => Ok 0x4001
                  | Some None => Ok 0x0002
                  end
                end
            end
          end
      end
    end.

(* the regenerated operators and verdict codes of prove_patricia_merkle / _check_state_hash, evaluated *)
Lemma prove_patricia_eq key value path state_hash roots :
  prove_patricia_merkle H key value path state_hash roots =
  if negb (bytes_eqb state_hash (H (concat roots))) then Ok 0x8001
  else
    match py_get path 0 with
    | None => Crash index_error
    | Some first =>
      match node_hash H first with
      | Reject => Reject
      | Crash k => Crash k
      | Ok first_hash =>
        if negb (existsb (bytes_eqb first_hash) roots) then Ok 0x8002
        else
          let last_node := last path first in
          let mismatch := match last_node with LeafNode _ v => negb (bytes_eqb value v) | BranchNode _ _ => false end in
          if mismatch then Ok 0x8003
          else
            match walk H (rev path) None [] with
            | WCrash k => Crash k
            | WUnlinked => Ok 0x8004
            | WPath actual =>
              let key_hex := nibbles_of key in
              match last_node with
              | LeafNode _ _ => Ok (if negb (bytes_eqb actual key_hex) then 0x8005 else 0x0001)
              | BranchNode _ links =>
                if negb (is_prefix actual key_hex) then Ok 0x8005
                else
                  match get_nibble_at {| pp_bytes := key; pp_size := 2 * Z.of_nat (length key) |} (Z.of_nat (length actual)) with
                  | None => Crash index_error
                  | Some next_nibble =>
                    match py_get links next_nibble with
                    | None => Crash index_error
                    | Some (Some _) => Ok 0x4001
                    | Some None => Ok 0x0002
                    end
                  end
              end
            end
      end
    end.
Proof. reflexivity. Qed.

Lemma get_nibble_key key k :
  get_nibble_at {| pp_bytes := key; pp_size := 2 * Z.of_nat (length key) |} (Z.of_nat k) = nth_error (nibbles_of key) k.
Proof.
  destruct (Nat.lt_ge_cases k (2 * length key)) as [Hlt|Hge].
  - rewrite get_nibble_at_nth by exact Hlt. cbn [pp_bytes]. symmetry. apply nth_error_nth'. now rewrite nibbles_of_length.
  - rewrite get_nibble_at_eq. cbn [pp_bytes]. rewrite div2_Z.
    assert (Hd : (length key <= Nat.div2 k)%nat).
    { pose proof (Nat.div2_odd k) as E. destruct (Nat.odd k); cbn [Nat.b2n] in E; lia. }
    unfold py_get, py_index.
    replace ((0 <=? Z.of_nat (Nat.div2 k)) && (Z.of_nat (Nat.div2 k) <? Z.of_nat (length key))) with false by lia.
    replace ((Z.of_nat (Nat.div2 k) <? 0) && (0 <=? Z.of_nat (length key) + Z.of_nat (Nat.div2 k))) with false by lia.
    symmetry. apply nth_error_None. now rewrite nibbles_of_length.
Qed.

Theorem patricia_verdict_def key value path state_hash roots :
  prove_patricia_merkle H key value path state_hash roots = verdict_spec key value path state_hash roots.
Proof.
  rewrite prove_patricia_eq. unfold verdict_spec.
  destruct (negb (bytes_eqb state_hash (H (concat roots)))); [reflexivity|].
  destruct path as [|first rest]; [reflexivity|].
  change 0 with (Z.of_nat 0) at 1. rewrite py_get_nat by (cbn [length]; lia). cbn [nth_error].
  destruct (node_hash H first) as [fh| |k]; try reflexivity.
  destruct (negb (existsb (bytes_eqb fh) roots)); [reflexivity|].
  cbv zeta. rewrite walk_rev.
  destruct (last (first :: rest) first) as [lp lv|lp links].
  - destruct (negb (bytes_eqb value lv)); [reflexivity|].
    destruct (chain_fn (first :: rest)) as [|h actual| |k] eqn:Ec; cbn [walk_of_chain]; try reflexivity.
    + cbn [chain_fn] in Ec. destruct (chain_fn rest); destruct (node_hash H first); try discriminate;
        destruct first; try discriminate; destruct (index_of _ _); discriminate.
    + destruct (bytes_eqb actual (nibbles_of key)); reflexivity.
  - destruct (chain_fn (first :: rest)) as [|h actual| |k] eqn:Ec; cbn [walk_of_chain]; try reflexivity.
    + cbn [chain_fn] in Ec. destruct (chain_fn rest); destruct (node_hash H first); try discriminate;
        destruct first; try discriminate; destruct (index_of _ _); discriminate.
    + rewrite get_nibble_key. reflexivity.
Qed.

(* ---- consequences ---- *)
Definition anchored (path : list node) (state_hash : bytes) (roots : list bytes) (h : bytes) : Prop :=
  state_hash = H (concat roots) /\ In h roots.

Lemma existsb_eqb_In h roots : existsb (bytes_eqb h) roots = true <-> In h roots.
Proof.
  rewrite existsb_exists. split.
  - intros (x & Hin & E). apply bytes_eqb_eq in E. now subst.
  - intros Hin. exists h. split; [exact Hin | apply bytes_eqb_refl].
Qed.

Lemma chain_head_hash first rest h p : chain_fn (first :: rest) = COk h p -> node_hash H first = Ok h.
Proof.
  cbn [chain_fn]. destruct (chain_fn rest); destruct (node_hash H first); try discriminate.
  - now intros [= -> _].
  - destruct first; try discriminate. destruct (index_of _ _); [|discriminate]. now intros [= -> _].
Qed.

Lemma last_default {A} (l : list A) d1 d2 : l <> [] -> last l d1 = last l d2.
Proof.
  induction l as [|x l IH]; [contradiction|]. intros _. destruct l as [|y l]; [reflexivity|].
  change (last (x :: y :: l) d1) with (last (y :: l) d1). change (last (x :: y :: l) d2) with (last (y :: l) d2).
  apply IH. discriminate.
Qed.

(* POSITIVE exactly when: the state hash is the hash of the roots, the chain is linked from an anchored root down to a
   leaf holding the tested value, and the path the chain spells is the key *)
Theorem patricia_positive_iff key value path state_hash roots :
  prove_patricia_merkle H key value path state_hash roots = Ok 1 <->
  state_hash = H (concat roots) /\
  exists front lp h, path = front ++ [LeafNode lp value] /\ chain_fn path = COk h (nibbles_of key) /\ In h roots.
Proof.
  rewrite patricia_verdict_def. unfold verdict_spec. split.
  - destruct (bytes_eqb state_hash (H (concat roots))) eqn:Es; cbn [negb]; [|discriminate].
    apply bytes_eqb_eq in Es. destruct path as [|first rest]; [discriminate|].
    destruct (node_hash H first) as [fh| |k] eqn:Eh; try discriminate.
    destruct (existsb (bytes_eqb fh) roots) eqn:Er; cbn [negb]; [|discriminate]. apply existsb_eqb_In in Er.
    destruct (last (first :: rest) first) as [lp lv|lp links] eqn:El.
    + destruct (bytes_eqb value lv) eqn:Ev; cbn [negb]; [|discriminate]. apply bytes_eqb_eq in Ev. subst lv.
      destruct (chain_fn (first :: rest)) as [|h actual| |k] eqn:Ec; try discriminate.
      destruct (bytes_eqb actual (nibbles_of key)) eqn:Ea; [|discriminate]. apply bytes_eqb_eq in Ea. subst actual. intros _.
      pose proof (chain_head_hash _ _ _ _ Ec) as Eh'. rewrite Eh in Eh'. injection Eh' as ->.
      split; [exact Es|]. exists (removelast (first :: rest)), lp, h. repeat split; auto.
      rewrite <- El. apply app_removelast_last. discriminate.
    + destruct (chain_fn (first :: rest)) as [|h actual| |k]; try discriminate.
      destruct (negb (is_prefix actual (nibbles_of key))); [discriminate|].
      destruct (nth_error (nibbles_of key) (length actual)) as [z|]; [|discriminate].
      destruct (py_get links z) as [[?|]|]; discriminate.
  - intros (Es & front & lp & h & Ep & Ec & Hin).
    subst state_hash. rewrite bytes_eqb_refl. cbn [negb].
    destruct path as [|first rest]; [destruct front; discriminate|].
    rewrite (chain_head_hash _ _ _ _ Ec).
    apply existsb_eqb_In in Hin. rewrite Hin. cbn [negb].
    assert (El : last (first :: rest) first = LeafNode lp value) by (rewrite Ep; apply last_last).
    rewrite El, bytes_eqb_refl. cbn [negb]. rewrite Ec, bytes_eqb_refl. reflexivity.
Qed.

(* NEGATIVE exactly when: anchored linked chain ending in a branch, the spelled path is a proper prefix of the key and the
   branch has no link for the key's next nibble; INCONCLUSIVE when that link exists *)
Theorem patricia_negative_iff key value path state_hash roots (code : Z) : code = 2 \/ code = 0x4001 ->
  prove_patricia_merkle H key value path state_hash roots = Ok code <->
  state_hash = H (concat roots) /\
  exists front lp links h actual next_nibble link,
    path = front ++ [BranchNode lp links] /\ chain_fn path = COk h actual /\ In h roots /\
    is_prefix actual (nibbles_of key) = true /\ nth_error (nibbles_of key) (length actual) = Some next_nibble /\
    py_get links next_nibble = Some link /\ (code = 2 <-> link = None).
Proof.
  intros Hcode. rewrite patricia_verdict_def. unfold verdict_spec. split.
  - destruct (bytes_eqb state_hash (H (concat roots))) eqn:Es; cbn [negb]; [|destruct Hcode; subst; discriminate].
    apply bytes_eqb_eq in Es. destruct path as [|first rest]; [discriminate|].
    destruct (node_hash H first) as [fh| |k] eqn:Eh; try discriminate.
    destruct (existsb (bytes_eqb fh) roots) eqn:Er; cbn [negb]; [|destruct Hcode; subst; discriminate]. apply existsb_eqb_In in Er.
    destruct (last (first :: rest) first) as [lp lv|lp links] eqn:El.
    + destruct (negb (bytes_eqb value lv)); [destruct Hcode; subst; discriminate|].
      destruct (chain_fn (first :: rest)) as [|h actual| |k]; try discriminate; [|destruct Hcode; subst; discriminate].
      destruct (bytes_eqb actual (nibbles_of key)); destruct Hcode; subst; discriminate.
    + destruct (chain_fn (first :: rest)) as [|h actual| |k] eqn:Ec; try discriminate; [|destruct Hcode; subst; discriminate].
      destruct (is_prefix actual (nibbles_of key)) eqn:Epre; cbn [negb]; [|destruct Hcode; subst; discriminate].
      destruct (nth_error (nibbles_of key) (length actual)) as [z|] eqn:En; [|discriminate].
      destruct (py_get links z) as [link|] eqn:Eg; [|discriminate].
      pose proof (chain_head_hash _ _ _ _ Ec) as Eh'. rewrite Eh in Eh'. injection Eh' as ->.
      intros Ev. split; [exact Es|].
      exists (removelast (first :: rest)), lp, links, h, actual, z, link. repeat split; auto.
      * rewrite <- El. apply app_removelast_last. discriminate.
      * intros ->. destruct link; [discriminate | reflexivity].
      * intros ->. destruct Hcode as [->| ->]; [reflexivity | discriminate].
  - intros (Es & front & lp & links & h & actual & z & link & Ep & Ec & Hin & Epre & En & Eg & Hl).
    subst state_hash. rewrite bytes_eqb_refl. cbn [negb].
    destruct path as [|first rest]; [destruct front; discriminate|].
    rewrite (chain_head_hash _ _ _ _ Ec).
    apply existsb_eqb_In in Hin. rewrite Hin. cbn [negb].
    assert (El : last (first :: rest) first = BranchNode lp links) by (rewrite Ep; apply last_last).
    rewrite El, Ec, Epre. cbn [negb]. rewrite En, Eg.
    destruct link as [x|]; destruct Hcode as [->| ->]; try reflexivity.
    + destruct Hl as [Hl _]. specialize (Hl eq_refl). discriminate.
    + destruct Hl as [_ Hl]. specialize (Hl eq_refl). discriminate.
Qed.

(* ---- proofs cut from a tree ---- *)
(* `follows nodes key spelled`: the chain is what a lookup of `key` visits in a tree -- every branch above the last node has
   its path and then the nibble of its link to the next node on the key, the next node's hash sits in that link (and in no
   earlier one: two links with the same hash would be the same subtree under two nibbles) -- and `spelled` is the key prefix
   consumed, including whatever path the last node has (which may or may not agree with the rest of the key) *)
Inductive follows : list node -> list Z -> list Z -> Prop :=
| follows_last n h key : node_hash H n = Ok h -> follows [n] key (hex_path (node_path n))
| follows_step p links c rest nib krest hb h spelled :
    node_hash H (BranchNode p links) = Ok hb -> node_hash H c = Ok h ->
    0 <= nib < 16 -> index_of h links = Some (Z.to_nat nib) ->
    follows (c :: rest) krest spelled ->
    follows (BranchNode p links :: c :: rest) (hex_path p ++ nib :: krest) (hex_path p ++ nib :: spelled).

Lemma follows_chain nodes key spelled : follows nodes key spelled ->
  exists first rest h, nodes = first :: rest /\ node_hash H first = Ok h /\ chain_fn nodes = COk h spelled.
Proof.
  induction 1 as [n h key Hn | p links c rest nib krest hb h spelled Hb Hc Hnib Hidx Hf IH].
  - exists n, [], h. cbn [chain_fn]. rewrite Hn. auto.
  - destruct IH as (first & rest' & h' & E & Hh & Hchain). injection E as <- <-.
    rewrite Hc in Hh. injection Hh as <-.
    exists (BranchNode p links), (c :: rest), hb. repeat split; [exact Hb|].
    change (chain_fn (BranchNode p links :: c :: rest)) with
      (match chain_fn (c :: rest) with
       | CEmpty => match node_hash H (BranchNode p links) with Ok h0 => COk h0 (hex_path p) | Reject => CCrash "ValueError" | Crash k => CCrash k end
       | COk hc below =>
         match node_hash H (BranchNode p links) with
         | Ok h0 => match index_of hc links with None => CUnlinked | Some k => COk h0 (hex_path p ++ format_index k ++ below) end
         | Reject => CCrash "ValueError"
         | Crash k => CCrash k
         end
       | CUnlinked => CUnlinked
       | CCrash k => CCrash k
       end).
    rewrite Hchain, Hb, Hidx. unfold format_index. rewrite Z2Nat.id by lia.
    replace (nib <? 16) with true by lia. reflexivity.
Qed.

Lemma follows_prefix nodes key spelled : follows nodes key spelled ->
  exists above krest, key = above ++ krest /\ spelled = above ++ hex_path (node_path (last nodes (LeafNode {| pp_bytes := []; pp_size := 0 |} []))).
Proof.
  induction 1 as [n h key Hn | p links c rest nib krest hb h spelled Hb Hc Hnib Hidx Hf IH].
  - exists [], key. split; reflexivity.
  - destruct IH as (above & kr & -> & ->). exists (hex_path p ++ nib :: above), kr.
    change (last (BranchNode p links :: c :: rest)) with (last (c :: rest)).
    split; rewrite <- app_assoc; reflexivity.
Qed.

Lemma bytes_eqb_app_l a b c : bytes_eqb (a ++ b) (a ++ c) = bytes_eqb b c.
Proof. induction a as [|x a IH]; [reflexivity|]. cbn [app bytes_eqb]. now rewrite Z.eqb_refl, IH. Qed.

Lemma is_prefix_app_l a b c : is_prefix (a ++ b) (a ++ c) = is_prefix b c.
Proof. induction a as [|x a IH]; [reflexivity|]. cbn [app is_prefix]. now rewrite Z.eqb_refl, IH. Qed.

(* THE VERDICT A TREE IMPLIES.  For an anchored proof cut from a tree along the key (branches with arbitrary, also non-empty,
   paths): ending in a leaf it is POSITIVE when the leaf's path is the rest of the key and its value the tested one,
   LEAF_VALUE_MISMATCH for another value, PATH_MISMATCH for another path; ending in a branch it is NEGATIVE when the branch's
   path is followed in the key by a nibble without link, INCONCLUSIVE when that link exists (the proof stops early), and
   PATH_MISMATCH when the key leaves the branch's path. *)
Theorem patricia_verdict_of_cut_proof key value path roots above krest :
  follows path (nibbles_of key) (above ++ hex_path (node_path (last path (LeafNode {| pp_bytes := []; pp_size := 0 |} [])))) ->
  nibbles_of key = above ++ krest ->
  (forall first rest h, path = first :: rest -> node_hash H first = Ok h -> In h roots) ->
  prove_patricia_merkle H key value path (H (concat roots)) roots =
  match last path (LeafNode {| pp_bytes := []; pp_size := 0 |} []) with
  | LeafNode lp lv =>
    if negb (bytes_eqb value lv) then Ok 0x8003
    else Ok (if bytes_eqb (hex_path lp) krest then 0x0001 else 0x8005)
  | BranchNode lp links =>
    if negb (is_prefix (hex_path lp) krest) then Ok 0x8005
    else match nth_error krest (length (hex_path lp)) with
         | None => Crash index_error
         | Some next_nibble =>
           match py_get links next_nibble with
           | None => Crash index_error
           | Some (Some _) => Ok 0x4001
           | Some None => Ok 0x0002
           end
         end
  end.
Proof.
  intros Hf Hkey Hanch. destruct (follows_chain _ _ _ Hf) as (first & rest & h & -> & Hh & Hchain).
  rewrite patricia_verdict_def. unfold verdict_spec. rewrite bytes_eqb_refl. cbn [negb]. rewrite Hh.
  pose proof (Hanch first rest h eq_refl Hh) as Hin. apply existsb_eqb_In in Hin. rewrite Hin. cbn [negb].
  rewrite (last_default (first :: rest) first (LeafNode {| pp_bytes := []; pp_size := 0 |} [])) by discriminate.
  rewrite Hchain, Hkey.
  destruct (last (first :: rest) (LeafNode {| pp_bytes := []; pp_size := 0 |} [])) as [lp lv|lp links]; cbn [node_path].
  - rewrite bytes_eqb_app_l. reflexivity.
  - rewrite is_prefix_app_l. destruct (negb (is_prefix (hex_path lp) krest)); [reflexivity|].
    rewrite app_length, nth_error_app2 by lia. replace (length above + length (hex_path lp) - length above)%nat with (length (hex_path lp)) by lia.
    reflexivity.
Qed.

End Verdicts.
