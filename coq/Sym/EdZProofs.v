(* Concrete facts about Sym/EdZ.v: the clamp formulas of the code agree, the regenerated constants are RFC 8032's, both network
   flavours satisfy [flavour_ok]; the laws of Sym/EdAbstractProofs.v transported to the concrete functions.  Laws that need the
   group structure are transported under the named premise [EdZ_group_premise] (NOT proved: the edwards25519 group law); the
   refusal laws need no premise at all. *)
From Symv Require Import Base.Bytes Base.BytesLemmas Base.PyOps Sym.EdAbstract Sym.EdAbstractProofs Sym.EdZ Sym.Keccak Sym.KeccakProofs Sym.Sha2 Sym.Hmac.
From Coq Require Import Lia ZifyBool.
Open Scope Z_scope.

Lemma from_le_app a b : from_le (a ++ b) = from_le a + 2 ^ (8 * Z.of_nat (length a)) * from_le b.
Proof.
  induction a as [|x a IH]; cbn [app from_le length].
  - change (2 ^ (8 * Z.of_nat 0)) with 1. lia.
  - rewrite IH. replace (8 * Z.of_nat (S (length a))) with (8 + 8 * Z.of_nat (length a)) by lia.
    rewrite Z.pow_add_r by lia. change (2 ^ 8) with 256. lia.
Qed.

Lemma from_le_zeros n : from_le (zeros n) = 0.
Proof. induction n as [|n IH]; cbn [zeros repeat from_le]; [reflexivity|]. unfold zeros in IH. rewrite IH. reflexivity. Qed.

Lemma to_le_0 n : to_le n 0 = zeros n.
Proof. induction n as [|n IH]; cbn [to_le zeros repeat]; [reflexivity|]. change (0 mod 256) with 0. change (0 / 256) with 0. now rewrite IH. Qed.

Lemma bit_as_div H k : 0 <= k -> Z.b2z (Z.testbit H k) = (H / 2 ^ k) mod 2.
Proof. intros Hk. rewrite <- Z.bit0_mod. rewrite Z.div_pow2_bits by lia. now rewrite Z.add_0_l. Qed.

Lemma sum_bits_closed H n : forall i, 0 <= i -> sum_bits 2 H i n = H mod 2 ^ (i + Z.of_nat n) - H mod 2 ^ i.
Proof.
  induction n as [|n IH]; intros i Hi; cbn [sum_bits].
  - rewrite Z.add_0_r. lia.
  - rewrite IH by lia. rewrite bit_as_div by lia.
    replace (i + 1 + Z.of_nat n) with (i + Z.of_nat (S n)) by lia.
    assert (Hs : H mod 2 ^ (i + 1) = H mod 2 ^ i + 2 ^ i * ((H / 2 ^ i) mod 2)).
    { rewrite Z.pow_add_r by lia. change (2 ^ 1) with 2. apply Z.rem_mul_r; [|lia]. apply Z.pow_nonzero; lia. }
    lia.
Qed.

(* ---- byte-level facts by enumeration ---- *)
Lemma byte_enum (P : Z -> bool) : forallb (fun n => P (Z.of_nat n)) (seq 0 256) = true -> forall v, 0 <= v < 256 -> P v = true.
Proof.
  intros H v Hv. rewrite forallb_forall in H. specialize (H (Z.to_nat v)).
  rewrite Z2Nat.id in H by lia. apply H. apply in_seq. lia.
Qed.

Lemma clamp_low_byte v : 0 <= v < 256 -> Z.land v 248 = v - v mod 8.
Proof. intros Hv. apply (byte_enum (fun v => Z.land v 248 =? v - v mod 8)) in Hv; [lia | vm_compute; reflexivity]. Qed.

Lemma clamp_high_byte v : 0 <= v < 256 -> Z.lor (Z.land v 127) 64 = 64 + v mod 64.
Proof. intros Hv. apply (byte_enum (fun v => Z.lor (Z.land v 127) 64 =? 64 + v mod 64)) in Hv; [lia | vm_compute; reflexivity]. Qed.

Lemma update_nth_app_last {A} (f : A -> A) a y : update_nth (length a) f (a ++ [y]) = a ++ [f y].
Proof. induction a as [|x a IH]; cbn [length app update_nth]; [reflexivity | now rewrite IH]. Qed.

Lemma update_nth_twice {A} (f g : A -> A) n l : update_nth n f (update_nth n g l) = update_nth n (fun v => f (g v)) l.
Proof. revert n; induction l as [|x l IH]; intros [|n]; cbn [update_nth]; try reflexivity. now rewrite IH. Qed.

Lemma update_nth_ext {A} (f g : A -> A) n l : (forall v, f v = g v) -> update_nth n f l = update_nth n g l.
Proof. intros E. revert n; induction l as [|x l IH]; intros [|n]; cbn [update_nth]; try reflexivity; [now rewrite E | now rewrite IH]. Qed.

(* a 32-byte string is  x :: a ++ [y]  with 30 middle bytes *)
Lemma split32 (h : bytes) : length h = 32%nat -> exists x a y, h = x :: a ++ [y] /\ length a = 30%nat.
Proof.
  intros Hl. destruct h as [|x r]; [discriminate|]. cbn [length] in Hl.
  assert (Hr : length r = 31%nat) by lia.
  exists x, (firstn 30 r), (nth 30 r 0). split.
  - f_equal. rewrite <- (firstn_skipn 30 r) at 1. f_equal.
    assert (Hs : length (skipn 30 r) = 1%nat) by (rewrite skipn_length; lia).
    destruct (skipn 30 r) as [|z [|z' t]] eqn:E; try discriminate. f_equal.
    rewrite <- (firstn_skipn 30 r) at 1. rewrite E. rewrite app_nth2 by (rewrite firstn_length; lia).
    rewrite firstn_length. replace (30 - Nat.min 30 (length r))%nat with 0%nat by lia. reflexivity.
  - rewrite firstn_length. lia.
Qed.

Lemma clamp_shape {A} (f g : A -> A) x a y : length a = 30%nat ->
  update_nth 31 f (update_nth 0 g (x :: a ++ [y])) = g x :: a ++ [f y].
Proof.
  intros Ha. change (g x :: update_nth 30 f (a ++ [y]) = g x :: a ++ [f y]). f_equal. rewrite <- Ha. apply update_nth_app_last.
Qed.

Definition P248 : Z := Eval vm_compute in 2 ^ 248.
Definition P240 : Z := Eval vm_compute in 2 ^ 240.
Definition P254 : Z := Eval vm_compute in 2 ^ 254.
Definition P251 : Z := Eval vm_compute in 2 ^ 251.
Definition P252 : Z := Eval vm_compute in 2 ^ 252.
Definition P253 : Z := Eval vm_compute in 2 ^ 253.

Lemma clamp_rfc_closed h : length h = 32%nat -> wf_bytes h = true ->
  clamp_rfc h = 2 ^ 254 + from_le h mod 2 ^ 254 - from_le h mod 8
  /\ exists j, clamp_rfc h = 8 * j /\ 2 ^ 251 <= j < 2 ^ 252.
Proof.
  intros Hl Hw. destruct (split32 h Hl) as [x [a [y [-> Ha]]]].
  unfold clamp_rfc. rewrite clamp_shape by exact Ha.
  cbn [from_le]. rewrite !from_le_app. cbn [from_le]. rewrite Ha.
  change (2 ^ (8 * Z.of_nat 30)) with P240.
  cbn [wf_bytes forallb] in Hw. apply Bool.andb_true_iff in Hw as [Hx Hr].
  fold (wf_bytes (a ++ [y])) in Hr. rewrite wf_app in Hr. apply Bool.andb_true_iff in Hr as [Hwa Hy].
  cbn [wf_bytes forallb] in Hy. rewrite Bool.andb_true_r in Hy. unfold is_byte in Hx, Hy.
  pose proof (from_le_bound a Hwa) as HM. rewrite Ha in HM. change (2 ^ (8 * Z.of_nat 30)) with P240 in HM.
  rewrite clamp_low_byte, clamp_high_byte by lia.
  set (M := from_le a) in *.
  change (2 ^ 254) with P254. change (2 ^ 251) with P251. change (2 ^ 252) with P252.
  assert (H8 : (x + 256 * (M + P240 * (y + 256 * 0))) mod 8 = x mod 8).
  { replace (x + 256 * (M + P240 * (y + 256 * 0))) with (x + (32 * M + (P240 * 32) * y) * 8) by lia. apply Z.mod_add. lia. }
  assert (H254 : (x + 256 * (M + P240 * (y + 256 * 0))) mod P254 = x + 256 * (M + P240 * (y mod 64))).
  { symmetry. apply Z.mod_unique with (q := y / 64).
    - left. unfold P254, P240 in *. pose proof (Z.mod_pos_bound y 64 ltac:(lia)). lia.
    - unfold P254, P240. pose proof (Z.div_mod y 64 ltac:(lia)). lia. }
  rewrite H8, H254. split.
  - unfold P254, P240. lia.
  - exists (x / 8 + 32 * M + (P240 * 32) * (64 + y mod 64)). clear H8 H254. unfold P254, P240, P251, P252 in *.
    pose proof (Z.div_mod x 8 ltac:(lia)). pose proof (Z.mod_pos_bound x 8 ltac:(lia)). pose proof (Z.mod_pos_bound y 64 ltac:(lia)).
    split; [lia|]. split; [|]; lia.
Qed.

Lemma firstn32_facts d : length d = 64%nat -> wf_bytes d = true ->
  length (firstn 32 d) = 32%nat /\ wf_bytes (firstn 32 d) = true.
Proof. intros Hl Hw. split; [rewrite firstn_length; lia | now apply wf_firstn]. Qed.

(* the arithmetic clamp of external/ed25519.py equals the byte-mask clamp of RFC 8032 on every 64-byte digest *)
Lemma clamp_dh_eq_rfc d : length d = 64%nat -> wf_bytes d = true -> clamp_dh d = clamp_rfc (firstn 32 d).
Proof.
  intros Hl Hw. destruct (firstn32_facts d Hl Hw) as [Hl32 Hw32].
  destruct (clamp_rfc_closed _ Hl32 Hw32) as [-> _].
  unfold clamp_dh, sum_bits_range.
  change (dh_top_base ^ (ed_b - dh_top_sub)) with (2 ^ 254).
  change (Z.to_nat (ed_b - dh_hi_sub - dh_lo)) with (Z.to_nat 251).
  change dh_bit_base with 2. change dh_lo with 3.
  rewrite sum_bits_closed by lia. rewrite Z2Nat.id by lia. change (3 + 251) with 254. change (2 ^ 3) with 8.
  rewrite <- (firstn_skipn 32 d) at 1 2. rewrite from_le_app, Hl32.
  set (H32 := from_le (firstn 32 d)). set (R := from_le (skipn 32 d)).
  assert (E1 : (H32 + 2 ^ (8 * Z.of_nat 32) * R) mod 2 ^ 254 = H32 mod 2 ^ 254).
  { change (2 ^ (8 * Z.of_nat 32)) with (4 * 2 ^ 254).
    replace (H32 + 4 * 2 ^ 254 * R) with (H32 + (4 * R) * 2 ^ 254) by lia.
    apply Z.mod_add. apply Z.pow_nonzero; lia. }
  assert (E2 : (H32 + 2 ^ (8 * Z.of_nat 32) * R) mod 8 = H32 mod 8).
  { change (2 ^ (8 * Z.of_nat 32)) with (P254 * 4).
    replace (H32 + P254 * 4 * R) with (H32 + (P253 * R) * 8) by (unfold P254, P253; lia).
    apply Z.mod_add. lia. }
  rewrite E1, E2. lia.
Qed.

(* ---- SHA-512 output shape ---- *)
Lemma to_be_length n x : length (to_be n x) = n.
Proof. unfold to_be. now rewrite rev_length, length_to_le. Qed.

Lemma to_be_wf n x : wf_bytes (to_be n x) = true.
Proof.
  unfold to_be, wf_bytes. apply forallb_forall. intros v Hv. apply in_rev in Hv.
  pose proof (wf_to_le n x) as Hw. unfold wf_bytes in Hw. rewrite forallb_forall in Hw. now apply Hw.
Qed.

Lemma sha512_shape m : length (sha512 m) = 64%nat /\ wf_bytes (sha512 m) = true.
Proof.
  unfold sha512, sha512_from.
  generalize (fold_left sha512_compress (chunks 128 (sha2_pad 128 16 0 m)) sha512_iv). intros s.
  destruct s as [[[[[[[a b] c] d] e] f] g] h]. cbn [st8_list flat_map].
  split.
  - rewrite !app_length, !to_be_length. reflexivity.
  - rewrite !wf_app, !to_be_wf. reflexivity.
Qed.

(* ---- the regenerated constants are those of RFC 8032 (kernel-checked on every run) ---- *)
Lemma ed_l_range : 2 ^ 252 < ed_l < 2 ^ 253.
Proof. vm_compute. split; reflexivity. Qed.

Lemma ed_l_odd : Z.gcd 64 ed_l = 1.
Proof. vm_compute. reflexivity. Qed.

Lemma ed_l_lt_256 : ed_l < 2 ^ (8 * Z.of_nat 32).
Proof. vm_compute. reflexivity. Qed.

Lemma curve_constants_rfc8032 :
  ed_q = 2 ^ 255 - 19 /\ ed_l = 2 ^ 252 + 27742317777372353535851937790883648493 /\ ed_b = 256
  /\ (ed_d * 121666 + 121665) mod ed_q = 0
  /\ to_hex (encodepoint ed_B) = "5866666666666666666666666666666666666666666666666666666666666666"%string
  /\ isoncurve ed_B = true /\ (ed_I * ed_I + 1) mod ed_q = 0.
Proof. vm_compute. repeat split; reflexivity. Qed.

Lemma firstn_app_exact {A} (r s : list A) n : length r = n -> firstn n (r ++ s) = r.
Proof. intros <-. rewrite firstn_app, Nat.sub_diag, firstn_O, app_nil_r. apply firstn_all. Qed.

Lemma skipn_app_exact {A} (r s : list A) n : length r = n -> skipn n (r ++ s) = s.
Proof. intros <-. rewrite skipn_app, Nat.sub_diag, skipn_all. reflexivity. Qed.

Lemma beqb_sym a b : beqb a b = beqb b a.
Proof.
  destruct (beqb a b) eqn:E.
  - apply beqb_eq in E. subst. symmetry. apply beqb_refl.
  - symmetry. apply beqb_false. apply beqb_false in E. congruence.
Qed.

Lemma Ok_inj {A} (a b : A) : @Ok A a = Ok b -> a = b.
Proof. intros H. now inversion H. Qed.

Lemma sym_flavour_ok : flavour_ok sym_flavour ed_l false.
Proof.
  constructor; cbn [sym_flavour fl_hash fl_scalar_pub fl_scalar_sign fl_scalar_dh fl_sig_R fl_sig_S fl_zero_key fl_s_ok fl_bad_s fl_bad_key fl_final].
  - apply sha512_shape.
  - reflexivity.
  - apply clamp_dh_eq_rfc.
  - intros d Hl Hw. destruct (firstn32_facts d Hl Hw) as [Hl32 Hw32]. now destruct (clamp_rfc_closed _ Hl32 Hw32).
  - intros r s. apply firstn_app_exact.
  - intros r s. apply skipn_app_exact.
  - intros pub. change skp_zero_key_cmp with Eq. change skp_zero_key_len with 32%nat. cbn [cmp_beqb].
    rewrite beqb_eq. split; congruence.
  - intros sb H. apply Ok_inj in H. lia.
  - intros S HS _. rewrite from_le_to_le_small by (pose proof ed_l_lt_256; lia). f_equal. lia.
  - discriminate.
  - reflexivity.
  - reflexivity.
  - intros []; reflexivity.
Qed.

Lemma clamp_nem_sign_eq_rfc h : clamp_nem_sign h = clamp_rfc h.
Proof.
  unfold clamp_nem_sign, clamp_rfc.
  change kp_clamp_i0 with 0%nat. change kp_clamp_i1 with 31%nat. change kp_clamp_i2 with 31%nat.
  change kp_clamp_op0 with BitAnd. change kp_clamp_op1 with BitAnd. change kp_clamp_op2 with BitOr.
  change kp_clamp_m0 with 248. change kp_clamp_m1 with 127. change kp_clamp_m2 with 64.
  rewrite update_nth_twice. reflexivity.
Qed.

Lemma to_le_zero_inv S : 0 <= S < 2 ^ (8 * Z.of_nat 32) -> to_le 32 S = zeros 32 -> S = 0.
Proof. intros HS H. rewrite <- (from_le_to_le_small 32 S HS), H. apply from_le_zeros. Qed.

Lemma nem_flavour_ok : flavour_ok nem_flavour ed_l true.
Proof.
  pose proof ed_l_lt_256 as HL256. pose proof ed_l_range as HLr.
  assert (HLpos : 0 < ed_l) by (assert (0 < 2 ^ 252) by (apply Z.pow_pos_nonneg; lia); lia).
  constructor; cbn [nem_flavour fl_hash fl_scalar_pub fl_scalar_sign fl_scalar_dh fl_sig_R fl_sig_S fl_zero_key fl_s_ok fl_bad_s fl_bad_key fl_final].
  - intros m. split; [apply keccak_512_length | apply keccak_512_wf].
  - intros d _ _. change kp_sign_scalar_to with kp_pub_scalar_to. apply clamp_nem_sign_eq_rfc.
  - change kp_pub_scalar_to with 32%nat. apply clamp_dh_eq_rfc.
  - change kp_pub_scalar_to with 32%nat. intros d Hl Hw. destruct (firstn32_facts d Hl Hw) as [Hl32 Hw32]. now destruct (clamp_rfc_closed _ Hl32 Hw32).
  - change kp_sig_r_to with 32%nat. intros r s. apply firstn_app_exact.
  - change kp_sig_s_from with 32%nat. intros r s. apply skipn_app_exact.
  - intros pub. change kp_zero_key_cmp with Eq. change kp_zero_key_len with 32%nat. cbn [cmp_beqb].
    rewrite beqb_eq. split; congruence.
  - (* an accepted S is below L *)
    intros sb. unfold nem_is_canonical_s, nem_is_reduced_s, scalar_reduce.
    change kp_zero_s_cmp with Eq. change kp_zero_s_len with 32%nat. change kp_zero_s_result with false.
    change kp_reduce_pad with 32%nat. change kp_reduced_cmp with Eq. cbn [cmp_beqb].
    destruct (beqb sb (zeros 32)); [discriminate|].
    destruct (length (sb ++ zeros 32) =? 64)%nat; cbn [bind]; [|discriminate].
    intros H. apply Ok_inj in H. apply beqb_eq in H. rewrite <- H at 1.
    pose proof (Z.mod_pos_bound (from_le (sb ++ zeros 32)) ed_l HLpos).
    rewrite from_le_to_le_small by lia. lia.
  - (* an honest reduced non-zero S is accepted *)
    intros S HS Hnz. specialize (Hnz eq_refl). unfold nem_is_canonical_s, nem_is_reduced_s, scalar_reduce.
    change kp_zero_s_cmp with Eq. change kp_zero_s_len with 32%nat. change kp_zero_s_result with false.
    change kp_reduce_pad with 32%nat. change kp_reduced_cmp with Eq. cbn [cmp_beqb].
    destruct (beqb (to_le 32 S) (zeros 32)) eqn:Ez.
    { apply beqb_eq in Ez. apply to_le_zero_inv in Ez; [contradiction | lia]. }
    rewrite app_length, length_to_le. unfold zeros at 1. rewrite repeat_length. cbn [Nat.add Nat.eqb bind].
    rewrite from_le_app, from_le_zeros, Z.mul_0_r, Z.add_0_r, from_le_to_le_small by lia.
    rewrite Z.mod_small by lia. now rewrite beqb_refl.
  - (* S = 0 is refused *)
    intros _ sb H0. unfold nem_is_canonical_s, nem_is_reduced_s, scalar_reduce.
    change kp_zero_s_cmp with Eq. change kp_zero_s_len with 32%nat. change kp_zero_s_result with false.
    change kp_reduce_pad with 32%nat. change kp_reduced_cmp with Eq. cbn [cmp_beqb].
    destruct (beqb sb (zeros 32)) eqn:Ez; [discriminate|].
    destruct (length (sb ++ zeros 32) =? 64)%nat; cbn [bind]; [|discriminate].
    rewrite from_le_app, from_le_zeros, Z.mul_0_r, Z.add_0_r, H0. rewrite Z.mod_0_l by lia. rewrite to_le_0.
    rewrite beqb_sym, Ez. discriminate.
  - reflexivity.
  - reflexivity.
  - change kp_final_cmp with Eq. reflexivity.
Qed.

(* ================================================================================================================== *)
(* The named premise: some lawful group computes, through the one scheme of Sym/EdAbstract.v, exactly the byte-level functions
   the integer arithmetic of Sym/EdZ.v computes.  (True if the formulas of EdZ implement the edwards25519 group law: take the
   curve points with their Z-action, the standard encoding and the permissive decoding.)  Nothing in this development proves it;
   it is supported by the sampled comparison with OpenSSL and the RFC 8032 reference only. *)
Definition EdZ_group_premise : Prop :=
  exists (G : Type) (o : ed_ops G),
    ed_laws o /\ g_L o = ed_l
    /\ (forall fl k, public_key o fl k = public_key edz_ops fl k)
    /\ (forall fl k m, sign o fl k m = sign edz_ops fl k m)
    /\ (forall fl pub m sig, verify o fl pub m sig = verify edz_ops fl pub m sig)
    /\ (forall fl k pub, shared_secret o fl k pub = shared_secret edz_ops fl k pub).

Section UnderPremise.
Hypothesis premise : EdZ_group_premise.

Lemma S_of_signature {G} (o : ed_ops G) fl zr k m :
  ed_laws o -> flavour_ok fl (g_L o) zr -> from_le (skipn 32 (sign o fl k m)) = sig_S_value o fl k m.
Proof.
  intros laws fl_ok. unfold sign. rewrite skipn_app_exact by apply (law_enc_length o laws).
  apply (from_le_to_le_S o laws). apply (S_range o fl laws).
Qed.

Theorem edz_verify_sign fl zr k m :
  flavour_ok fl ed_l zr -> (zr = true -> from_le (skipn 32 (sign edz_ops fl k m)) <> 0) ->
  verify edz_ops fl (public_key edz_ops fl k) m (sign edz_ops fl k m) = Ok true.
Proof.
  intros Hfl Hz. destruct premise as [G [o [laws [HL [Hp [Hs [Hv _]]]]]]].
  rewrite <- Hp, <- Hs, <- Hv. rewrite <- HL in Hfl. apply (verify_sign o fl zr laws Hfl).
  intros Hzr. rewrite <- (S_of_signature o fl zr k m laws Hfl), Hs. now apply Hz.
Qed.

Theorem edz_verify_S_unique fl zr pub m sig1 sig2 :
  flavour_ok fl ed_l zr ->
  fl_sig_R fl sig1 = fl_sig_R fl sig2 -> wf_bytes (fl_sig_S fl sig1) = true -> wf_bytes (fl_sig_S fl sig2) = true ->
  verify edz_ops fl pub m sig1 = Ok true -> verify edz_ops fl pub m sig2 = Ok true ->
  from_le (fl_sig_S fl sig1) = from_le (fl_sig_S fl sig2).
Proof.
  intros Hfl HR Hw1 Hw2. destruct premise as [G [o [laws [HL [_ [_ [Hv _]]]]]]].
  rewrite <- !Hv. rewrite <- HL in Hfl. now apply (verify_S_unique o fl zr laws Hfl).
Qed.

Theorem edz_shared_symmetric fl zr k k' :
  flavour_ok fl ed_l zr ->
  shared_secret edz_ops fl k (public_key edz_ops fl k') = shared_secret edz_ops fl k' (public_key edz_ops fl k)
  /\ exists s, shared_secret edz_ops fl k (public_key edz_ops fl k') = inr s.
Proof.
  intros Hfl. destruct premise as [G [o [laws [HL [Hp [_ [_ Hd]]]]]]]. rewrite <- HL in Hfl.
  rewrite <- !Hp, <- !Hd. split.
  - apply (shared_symmetric o fl zr laws Hfl).
  - rewrite (shared_secret_honest o fl zr laws Hfl). now eexists.
Qed.
End UnderPremise.

(* ---- laws that need no premise: the refusals ---- *)
Theorem edz_rejects_unreduced_S fl zr pub m sig :
  flavour_ok fl ed_l zr -> ed_l <= from_le (fl_sig_S fl sig) -> verify edz_ops fl pub m sig <> Ok true.
Proof. intros Hfl. exact (verify_rejects_unreduced_S edz_ops fl zr Hfl pub m sig). Qed.

Theorem edz_rejects_zero_S fl pub m sig :
  flavour_ok fl ed_l true -> from_le (fl_sig_S fl sig) = 0 -> verify edz_ops fl pub m sig <> Ok true.
Proof. intros Hfl. exact (verify_rejects_zero_S edz_ops fl true Hfl pub m sig eq_refl). Qed.

Theorem edz_rejects_zero_key fl zr m sig : flavour_ok fl ed_l zr -> verify edz_ops fl (zeros 32) m sig = Reject.
Proof. intros Hfl. exact (verifier_rejects_zero_key edz_ops fl zr Hfl m sig). Qed.

(* iscanonical: the low 255 bits of the encoding, read as a number, are below the field prime *)
Lemma iscanonical_spec pub : iscanonical pub = (from_le pub mod 2 ^ 255 <? 2 ^ 255 - 19).
Proof.
  unfold iscanonical, sum_bits_range. change can_cmp with Lt. change can_base with 2. change can_lo with 0.
  change (Z.to_nat (ed_b - can_hi_sub - 0)) with (Z.to_nat 255). rewrite sum_bits_closed by lia.
  rewrite Z2Nat.id by lia. change (2 ^ 0) with 1. rewrite Z.mod_1_r, Z.sub_0_r. reflexivity.
Qed.

(* a shared key comes out only for a canonical key that decodes to a curve point H with [L]H neutral, and it is HKDF-SHA256 with
   32 zero salt bytes and the label over the encoded product of the clamped (RFC 8032 clamp) hashed private scalar and that point *)
Theorem edz_shared_key_def fl zr label k pub key :
  flavour_ok fl ed_l zr -> fl_scalar_dh fl = clamp_dh -> derive_shared_key fl label k pub = inr key ->
  iscanonical pub = true /\ exists A, decodepoint pub = Some A /\ isinmainsubgroup A = true
    /\ key = hkdf_sha256 (zeros 32) (encodepoint (scalarmult (clamp_rfc (firstn 32 (fl_hash fl (fl_prep fl k)))) A)) label 32.
Proof.
  intros Hfl Hdh. unfold derive_shared_key, shared_secret. cbn [edz_ops g_canonical g_dec g_is_zero g_smul g_L g_enc].
  destruct (iscanonical pub); cbn [negb]; [|discriminate].
  destruct (decodepoint pub) as [A|]; [|discriminate].
  fold (isinmainsubgroup A). destruct (isinmainsubgroup A) eqn:Em; cbn [negb]; [|discriminate].
  intros H. injection H as <-. split; [reflexivity|]. exists A. split; [reflexivity|]. split; [first [reflexivity | exact Em]|].
  change sk_salt_len with 32%nat. change sk_out_len with 32%nat. unfold secret_digest.
  destruct (ok_hash fl ed_l zr Hfl (fl_prep fl k)) as [Hl Hw].
  rewrite Hdh, clamp_dh_eq_rfc by assumption. reflexivity.
Qed.

Theorem edz_refuses_noncanonical fl label k pub :
  iscanonical pub = false -> derive_shared_key fl label k pub = inl DhNotCanonical.
Proof.
  intros H. unfold derive_shared_key, shared_secret. cbn [edz_ops g_canonical]. now rewrite H.
Qed.

Theorem edz_refuses_outside_subgroup fl label k pub A :
  decodepoint pub = Some A -> isinmainsubgroup A = false -> exists e, derive_shared_key fl label k pub = inl e.
Proof.
  intros Hd Hm. unfold derive_shared_key, shared_secret. cbn [edz_ops g_canonical g_dec g_is_zero g_smul g_L g_enc].
  destruct (iscanonical pub); cbn [negb]; [|now eexists]. rewrite Hd. fold (isinmainsubgroup A). rewrite Hm. cbn [negb]. now eexists.
Qed.

Theorem edz_refuses_off_curve fl label k pub :
  decodepoint pub = None -> exists e, derive_shared_key fl label k pub = inl e.
Proof.
  intros Hd. unfold derive_shared_key, shared_secret. cbn [edz_ops g_canonical g_dec].
  destruct (iscanonical pub); cbn [negb]; [|now eexists]. rewrite Hd. now eexists.
Qed.
