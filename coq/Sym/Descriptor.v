(* Transactions from descriptors: symbolchain/TransactionDescriptorProcessor.py, RuleBasedTransactionFactory.py,
   symbol/TransactionFactory.py, nem/TransactionFactory.py (create / create_embedded) and the constructors, TYPE_HINTS,
   sort() and create_by_name of the generated codec modules.  Model file: definitions only (proofs: Sym/DescriptorProofs.v).

   What is regenerated from /repo on every run and used here:
     Gen/DescriptorOps.v        key names, the `_computed` suffix, the hint prefixes, rule-name affixes, flag separator / `none`
     Gen/DescriptorRulesSc/Nc.v TYPE_HINTS of every class, the classes `autodetect()` finds by reflection, the create_by_name mappings,
                                the add_* calls of `_build_rules` in execution order (all read with Python `ast`)
     Gen/SchemaSc/Nc.v          the expanded schemas (members, defaults, constants, sort keys) -- shared with C01/C02/C12
     Gen/ArrayOps.v, IdsOps.v, AddressOps.v   BaseValue / ByteArray range checks, id and address derivation

   Representation.  A descriptor value is a Python value: int, str (by its UTF-8 encoding), bytes, an SDK value object, list, dict.
   The created transaction is the Layout value tree `VStruct class [(member, value)]` over the settable members in schema order
   (exactly what harness/codec.from_object reads off the real object).  A str left inside an object is the pseudo node `pseudo_str`.

   INTENDED behaviour is modelled in two places where the shipped code is laxer (both are reported by the check, see DESIGN.md D9):
     - copy_to accepts a key iff it is a settable member of the class (the code: `hasattr`, which also holds for class constants,
       methods, read-only properties and private slots);
     - the flags parser refuses negative integers (the code hands them to enum.Flag, which reads them as complements). *)
From Symv Require Export Cats.LayoutRender Sym.Keccak Sym.Ids Sym.Address.
From Symv Require Export Gen.DescriptorOps Gen.DescriptorRulesSc Gen.DescriptorRulesNc Gen.SchemaSc Gen.SchemaNc.
Open Scope string_scope.
Open Scope list_scope.
Open Scope Z_scope.

(* ---------- strings ---------- *)
Definition starts_with (s p : string) : bool := String.prefix p s.
Definition drop_chars (n : nat) (s : string) : string := substring n (String.length s - n) s.
Definition ends_with (s suffix : string) : bool :=
  let ls := String.length s in let lf := String.length suffix in
  (lf <=? ls)%nat && String.eqb (substring (ls - lf) lf s) suffix.
Definition lower_ascii (c : ascii) : ascii :=
  let n := of_ascii c in if (65 <=? n) && (n <=? 90) then ascii_of_N (Z.to_N (n + 32)) else c.
Fixpoint lower_string (s : string) : string :=
  match s with EmptyString => EmptyString | String c r => String (lower_ascii c) (lower_string r) end.
Definition str_is (s : string) (codes : bytes) : bool := bytes_eq (of_string s) codes.

Definition assoc {A} (k : string) (l : list (string * A)) : option A :=
  match find (fun p => String.eqb (fst p) k) l with Some p => Some (snd p) | None => None end.

Fixpoint mapM {A B} (f : A -> result B) (l : list A) : result (list B) :=
  match l with
  | [] => Ok []
  | x :: r => bind (f x) (fun y => bind (mapM f r) (fun t => Ok (y :: t)))
  end.

(* binascii.unhexlify of a str: ASCII hex digits of either case, even length; anything else is binascii.Error / ValueError *)
Definition hex_digit_val (c : Z) : option Z :=
  if (48 <=? c) && (c <=? 57) then Some (c - 48)
  else if (97 <=? c) && (c <=? 102) then Some (c - 87)
  else if (65 <=? c) && (c <=? 70) then Some (c - 55) else None.
Fixpoint unhexlify (s : list Z) : option bytes :=
  match s with
  | [] => Some []
  | a :: b :: r =>
    match hex_digit_val a, hex_digit_val b, unhexlify r with
    | Some x, Some y, Some t => Some (16 * x + y :: t)
    | _, _, _ => None
    end
  | [_] => None
  end.

(* ---------- descriptor values ---------- *)
Inductive okind :=
| OSdk      (* CryptoTypes.Hash256 / PublicKey / Signature ..., <network>.Network.Address: ByteArray subclasses outside the codec module *)
| OCodec.   (* an instance of a class of the codec module (sc / nc): BaseValue, ByteArray, Enum/Flag member or struct *)
Inductive dval :=
| DInt (z : Z)
| DStr (s : bytes)                                 (* a str, given by its UTF-8 encoding *)
| DBytes (b : bytes)
| DObj (k : okind) (cls : string) (v : value)      (* an SDK value object of class `cls` holding `v` *)
| DList (l : list dval)
| DDict (fs : list (string * dval)).
Definition descriptor := list (string * dval).      (* a dict: keys are pairwise distinct, iteration in insertion order *)

Definition pseudo_str (s : bytes) : value := VStruct "str" [("utf8", VBytes s)].
Fixpoint to_value (d : dval) : value :=
  match d with
  | DInt z => VInt z
  | DStr s => pseudo_str s
  | DBytes b => VBytes b
  | DObj _ _ v => v
  | DList l => VArr (map to_value l)
  | DDict _ => VStruct "dict" []
  end.

(* {**d, k: v} *)
Definition dict_set (d : descriptor) (k : string) (v : dval) : descriptor :=
  if existsb (fun p => String.eqb (fst p) k) d then map (fun p => if String.eqb (fst p) k then (k, v) else p) d else d ++ [(k, v)].

(* ---------- parsing rules ---------- *)
Inductive sdkcls := SdkAddress | SdkHash256 | SdkPublicKey.
Inductive rule :=
| RPod (cls : string)        (* autodetected BaseValue subclass: cls(value) unless already an instance *)
| RSdk (c : sdkcls)          (* sdk_type_mapping: Address / Hash256 / PublicKey of the SDK *)
| REnum (cls : string)
| RFlags (cls : string)
| RStruct (cls : string)
| RArray (elem : rule).
Definition rules := list (string * rule).           (* a dict: an assignment shadows earlier entries *)
Definition rget (rs : rules) (n : string) : option rule := assoc n rs.
Definition rset (rs : rules) (n : string) (r : rule) : rules := (n, r) :: rs.

Definition sdk_of_name (n : string) : option sdkcls :=
  if String.eqb n "Address" then Some SdkAddress else if String.eqb n "Hash256" then Some SdkHash256
  else if String.eqb n "PublicKey" then Some SdkPublicKey else None.
Definition sdk_name (c : sdkcls) : string := match c with SdkAddress => "Address" | SdkHash256 => "Hash256" | SdkPublicKey => "PublicKey" end.

Definition autodetect_rule (kind name : string) : option rule :=
  if String.eqb kind "pod" then Some (RPod name) else if String.eqb kind "enum" then Some (REnum name)
  else if String.eqb kind "flags" then Some (RFlags name) else None.
Fixpoint add_autodetected (auto : list (string * string)) (rs : rules) : option rules :=
  match auto with
  | [] => Some rs
  | (name, kind) :: r => match autodetect_rule kind name with Some x => add_autodetected r (rset rs name x) | None => None end
  end.
(* _build_rules: the add_* calls in execution order; None = the construction itself would raise (KeyError in add_array_parser) *)
Fixpoint build_rules (auto : list (string * string)) (acts : list (string * string * string)) (rs : rules) : option rules :=
  match acts with
  | [] => Some rs
  | (kind, a, b) :: r =>
    if String.eqb kind "autodetect" then match add_autodetected auto rs with Some rs' => build_rules auto r rs' | None => None end
    else if String.eqb kind "struct" then build_rules auto r (rset rs (struct_rule_prefix ++ a) (RStruct a))
    else if String.eqb kind "sdk" then match sdk_of_name b with Some c => build_rules auto r (rset rs a (RSdk c)) | None => None end
    else if String.eqb kind "array" then
      match rget rs a with
      | Some er =>
        let element_name := if starts_with a array_elem_test_prefix then drop_chars (String.length array_elem_strip) a else a in
        build_rules auto r (rset rs (array_rule_open ++ element_name ++ array_rule_close) (RArray er))
      | None => None
      end
    else None
  end.

(* _build_type_hints_map: TYPE_HINTS value -> rule name *)
Definition hint_rule_name (h : string) : option string :=
  if starts_with h hint_array_prefix then Some h
  else if starts_with h hint_enum_prefix then Some (drop_chars (String.length hint_enum_strip) h)
  else if starts_with h hint_pod_prefix then Some (drop_chars (String.length hint_pod_strip) h)
  else if starts_with h hint_struct_prefix then Some h
  else None.

(* ---------- one network ---------- *)
Record netcfg := {
  n_flavor : flavor;
  n_tm : list decl;                                         (* expanded schema *)
  n_hints : list (string * list (string * string));         (* class -> TYPE_HINTS *)
  n_autodetect : list (string * string);
  n_actions : list (string * string * string);
  n_names : bool -> list (string * string);                 (* create_by_name of the (embedded = true) transaction factory *)
  n_network_key : string
}.

Definition type_fuel_d : nat := 24.     (* nesting of named types (constructors, sort) *)
Definition parse_fuel : nat := 24.      (* nesting of struct / array rules *)

(* python attribute name of a schema member (generator.name_formatting.fix_name) *)
Definition py_name (n : string) : string := if String.eqb n "type" || String.eqb n "property" then n ++ "_" else n.

(* str.encode('utf8') of a member that holds a str; anything else is left alone *)
Definition encode_str (v : value) : value := match v with VStruct "str" [("utf8", VBytes s)] => VBytes s | x => x end.

Definition vset (v : value) (n : string) (x : value) : value :=
  match v with VStruct c e => VStruct c (map (fun p => if String.eqb (fst p) n then (n, x) else p) e) | _ => v end.

Section WithNet.
Variable N : netcfg.
Let tm := n_tm N.
Let fl := n_flavor N.

Definition rules_of : rules := match build_rules (n_autodetect N) (n_actions N) [] with Some rs => rs | None => [] end.
Definition hints_of (cls : string) : list (string * string) := match assoc cls (n_hints N) with Some h => h | None => [] end.
Definition rule_for (cls key : string) : option rule :=
  match assoc key (hints_of cls) with
  | Some h => match hint_rule_name h with Some rn => rget rules_of rn | None => None end
  | None => None
  end.

(* the members a descriptor may name: settable members of the class, by python attribute name *)
Definition member_of (cls key : string) : option field :=
  match lookup_struct tm cls with
  | Some s => find (fun f => String.eqb (py_name (f_name f)) key) (settable_fields s)
  | None => None
  end.

(* ---------- constructors: T() ---------- *)
Definition paired_const (s : struct) (f : field) : option field :=
  find (fun c => is_const c && ends_with (lower_string (f_name c)) (f_name f)) (s_fields s).
Definition enum_member (e n : string) : option Z :=
  match lookup tm e with Some (DEnum _ _ vs _ _) => enum_const vs n | _ => None end.
Definition const_value (c : field) : result value :=
  match f_type c, f_value c with
  | FInt _, VNum n => Ok (VInt n)
  | FName t, VName vn => match enum_member t vn with Some z => Ok (VInt z) | None => Crash "AttributeError" end
  | FName _, VNum n => Ok (VInt n)
  | _, _ => unsupported
  end.
(* a conditional member is constructed only when its condition names the default (first) value of an enum-typed condition member *)
Definition cond_default_present (allfs : list field) (f : field) : bool :=
  match f_cond f with
  | None => true
  | Some c =>
    match find_field allfs (c_link c) with
    | Some cf =>
      match f_type cf, c_value c with
      | FName t, CvName v => match lookup tm t with Some (DEnum _ _ (e0 :: _) _ _) => String.eqb (ev_name e0) v | _ => false end
      | _, _ => false
      end
    | None => false
    end
  end.
Fixpoint default_of (fuel : nat) (t : string) {struct fuel} : result value :=
  match fuel with
  | O => Crash "OutOfFuel"
  | S k =>
    match lookup tm t with
    | Some (DAlias _ (LInt _) _) => Ok (VInt 0)
    | Some (DAlias _ (LBuffer n) _) => Ok (VBytes (zeros (Z.to_nat n)))
    | Some (DEnum _ _ vs _ _) => match vs with v :: _ => Ok (VInt (ev_value v)) | [] => Crash "IndexError" end
    | Some (DStruct s) =>
      let allfs := non_const (s_fields s) in
      bind (mapM (fun f =>
              bind (match paired_const s f with
                    | Some c => const_value c
                    | None =>
                      if negb (cond_default_present allfs f) then Ok VNull else
                      match f_type f with
                      | FInt _ => Ok (VInt 0)
                      | FName ft => default_of k ft
                      | FArray a =>
                        if is_byte_array a then Ok (VBytes (match a_size a with SzNum n => zeros (Z.to_nat n) | _ => [] end))
                        else Ok (VArr [])
                      end
                    end) (fun v => Ok (f_name f, v))) (settable_fields s))
           (fun fs => Ok (VStruct (s_name s) fs))
    | None => Crash "NameError"
    end
  end.
Definition new_instance (cls : string) : result value := default_of type_fuel_d cls.

(* ---------- type converter (lookup_value applies it to every value, and to every item of a list) ---------- *)
(* getattr(module, cls)(raw): a ByteArray class of the codec module *)
Definition codec_bytes (cls : string) (raw : bytes) : result dval :=
  match lookup tm cls with
  | Some (DAlias _ (LBuffer n) _) => bind (byte_array n raw) (fun b => Ok (DObj OCodec cls (VBytes b)))
  | Some _ => Crash "TypeError"
  | None => Crash "AttributeError"
  end.
Definition conv (d : dval) : result dval :=
  match d with
  | DObj k cls (VBytes b) =>
    if match k with OSdk => String.eqb cls "Address" | OCodec => false end then
      match fl with
      | Symbol => codec_bytes "UnresolvedAddress" b                      (* _symbol_type_converter *)
      | Nem => codec_bytes "Address" (address_to_string Nem b)           (* _nem_type_converter: str(value).encode('utf8') *)
      end
    else codec_bytes cls b                                                (* isinstance(value, ByteArray) *)
  | _ => Ok d
  end.
Definition conv_value (d : dval) : result dval :=
  match d with
  | DList l => bind (mapM conv l) (fun l' => Ok (DList l'))
  | _ => conv d
  end.

(* ---------- leaf parsers ---------- *)
Definition sdk_size (c : sdkcls) : Z :=
  match c with SdkAddress => Symv.Sym.Address.address_size fl | SdkHash256 => sdk_hash256_size | SdkPublicKey => sdk_public_key_size end.
Definition parse_sdk (c : sdkcls) (d : dval) : result dval :=
  match d with
  | DObj OSdk cls _ => if String.eqb cls (sdk_name c) then Ok d else Crash "TypeError"
  | DStr s =>
    match c with
    | SdkAddress => bind (address_from_string fl s) (fun b => Ok (DObj OSdk "Address" (VBytes b)))
    | _ => match unhexlify s with
           | Some b => bind (byte_array (sdk_size c) b) (fun b' => Ok (DObj OSdk (sdk_name c) (VBytes b')))
           | None => Reject
           end
    end
  | DBytes b => bind (byte_array (sdk_size c) b) (fun b' => Ok (DObj OSdk (sdk_name c) (VBytes b')))
  | _ => Crash "TypeError"
  end.
Definition parse_pod (cls : string) (d : dval) : result dval :=
  match d with
  | DObj OCodec c (VInt _) => if String.eqb c cls then Ok d else Crash "TypeError"
  | DInt z =>
    match lookup tm cls with
    | Some (DAlias _ (LInt i) _) => if base_value_bad_now (it_size i) false z then Reject else Ok (DObj OCodec cls (VInt z))
    | _ => Crash "TypeError"
    end
  | _ => Crash "TypeError"
  end.
Definition enum_values (cls : string) : list enum_value :=
  match lookup tm cls with Some (DEnum _ _ vs _ _) => vs | _ => [] end.
(* dict(map(lambda key: (key.name.lower(), key), enum_class)): a later member of the same lower-case name wins *)
Definition enum_by_name (vs : list enum_value) (s : bytes) : option Z :=
  match find (fun e => str_is (lower_string (ev_name e)) s) (rev vs) with Some e => Some (ev_value e) | None => None end.
Definition parse_enum (cls : string) (d : dval) : result dval :=
  match d with
  | DStr s => match enum_by_name (enum_values cls) s with Some z => Ok (DObj OCodec cls (VInt z)) | None => Reject end
  | DInt z => if enum_valid (enum_values cls) false z then Ok (DObj OCodec cls (VInt z)) else Reject
  | _ => Ok d
  end.
(* iterating a Flag class yields its single-bit members only; `none` is added by hand *)
Definition is_single_bit (z : Z) : bool := (0 <? z) && (Z.land z (z - 1) =? 0).
Definition flag_by_name (vs : list enum_value) (s : bytes) : option Z :=
  if str_is flag_none_name s then Some flag_none_value
  else enum_by_name (filter (fun e => is_single_bit (ev_value e)) vs) s.
Fixpoint flags_or (vs : list enum_value) (names : list bytes) : option Z :=
  match names with
  | [] => Some 0
  | n :: r => match flag_by_name vs n, flags_or vs r with Some a, Some b => Some (Z.lor a b) | _, _ => None end
  end.
Definition parse_flags (cls : string) (d : dval) : result dval :=
  match d with
  | DStr s => match flags_or (enum_values cls) (split_on flag_separator s) with Some z => Ok (DObj OCodec cls (VInt z)) | None => Reject end
  | DInt z =>
    if cmp flag_neg_op z flag_neg_bound then Reject
    else if enum_valid (enum_values cls) true z then Ok (DObj OCodec cls (VInt z)) else Reject
  | _ => Ok d
  end.

(* ---------- TransactionDescriptorProcessor ---------- *)
Section WithParser.
Variable P : rule -> dval -> result dval.     (* the parsing rules one nesting level down *)

(* lookup_value(key) for an object of class cls *)
Definition lookup_value_with (cls key : string) (d : dval) : result dval :=
  bind (match rule_for cls key with Some r => P r d | None => Ok d end) conv_value.

(* copy_to(transaction, ignore_keys) over the entries of the descriptor, in order; e = the members of the object so far *)
Fixpoint copy_to_with (cls : string) (ignore : list string) (kvs : descriptor) (e : list (string * value)) : result (list (string * value)) :=
  match kvs with
  | [] => Ok e
  | (key, d) :: r =>
    if existsb (String.eqb key) ignore then copy_to_with cls ignore r e
    else if ends_with key computed_suffix then Reject
    else
      match member_of cls key with
      | None => Reject
      | Some f =>
        bind (lookup_value_with cls key d) (fun x =>
        match x with
        | DList l =>
          match assoc (f_name f) e with
          | Some (VArr old) => copy_to_with cls ignore r (map (fun p => if String.eqb (fst p) (f_name f) then (f_name f, VArr (old ++ map to_value l)) else p) e)
          | _ => Crash "AttributeError"       (* .extend on something that is not a list *)
          end
        | _ => copy_to_with cls ignore r (map (fun p => if String.eqb (fst p) (f_name f) then (f_name f, to_value x) else p) e)
        end)
      end
  end.
End WithParser.

Fixpoint parse (fuel : nat) (r : rule) (d : dval) {struct fuel} : result dval :=
  match fuel with
  | O => Crash "OutOfFuel"
  | S k =>
    match r with
    | RPod cls => parse_pod cls d
    | RSdk c => parse_sdk c d
    | REnum cls => parse_enum cls d
    | RFlags cls => parse_flags cls d
    | RArray er => match d with DList l => bind (mapM (parse k er) l) (fun l' => Ok (DList l')) | _ => Crash "TypeError" end
    | RStruct cls =>
      match d with
      | DDict kvs =>
        bind (new_instance cls) (fun inst =>
        match inst with
        | VStruct c e => bind (copy_to_with (parse k) cls [] kvs e) (fun e' => Ok (DObj OCodec cls (VStruct c e')))
        | _ => Crash "TypeError"
        end)
      | _ => Crash "AttributeError"           (* no .keys() *)
      end
    end
  end.
Definition lookup_value := lookup_value_with (parse parse_fuel).
Definition copy_to := copy_to_with (parse parse_fuel).

(* ---------- RuleBasedTransactionFactory.create_from_factory ---------- *)
(* factory(entity_type) = create_by_name *)
Definition class_of_type (embedded : bool) (t : dval) : result string :=
  match t with
  | DStr s => match find (fun p => str_is (fst p) s) (n_names N embedded) with Some p => Ok (snd p) | None => Reject end
  | DList _ | DDict _ => Crash "TypeError"      (* unhashable *)
  | _ => Reject
  end.
(* _auto_encode_strings: top-level members only *)
Definition auto_encode (e : list (string * value)) : list (string * value) := map (fun p => (fst p, encode_str (snd p))) e.

Definition create_from_factory (embedded : bool) (d : descriptor) : result value :=
  match assoc type_key d with
  | None => Reject
  | Some t =>
    bind (conv_value t) (fun t' =>
    bind (class_of_type embedded t') (fun cls =>
    bind (new_instance cls) (fun inst =>
    match inst with
    | VStruct c e => bind (copy_to cls [type_ignore_key] d e) (fun e' => Ok (VStruct c (auto_encode e')))
    | _ => Crash "TypeError"
    end)))
  end.

(* a str behaves like its encoding wherever only emptiness / presence is inspected (conditions evaluated by sort()) *)
Fixpoint encode_strs (v : value) : value :=
  match v with
  | VStruct c e =>
    match c, e with
    | "str", [("utf8", VBytes s)] => VBytes s
    | _, _ => VStruct c ((fix go (l : list (string * value)) : list (string * value) :=
                            match l with [] => [] | (n, x) :: r => (n, encode_strs x) :: go r end) e)
    end
  | VArr l => VArr (map encode_strs l)
  | x => x
  end.

(* ---------- transaction.sort() ---------- *)
Fixpoint sort_value (fuel : nat) (v : value) {struct fuel} : result value :=
  match fuel with
  | O => Crash "OutOfFuel"
  | S k =>
    match v with
    | VStruct cls e =>
      match lookup_struct tm cls with
      | Some s =>
        let allfs := non_const (s_fields s) in
        bind (mapM (fun p =>
                bind (match find_field allfs (fst p) with
                      | Some f =>
                        match f_type f with
                        | FArray a =>
                          match a_sort_key a, snd p with
                          | Some _, VArr l => bind (keys_of_values tm a l) (fun ks => Ok (VArr (sort_values ks l)))
                          | Some _, _ => Crash "TypeError"
                          | None, x => Ok x
                          end
                        | FName t =>
                          match lookup_struct tm t with
                          | Some _ =>
                            bind (cond_self tm (m_R tm) allfs (encode_strs v) f) (fun c =>
                            if c then match snd p with VNull => Crash "AttributeError" | x => sort_value k x end else Ok (snd p))
                          | None => Ok (snd p)
                          end
                        | FInt _ => Ok (snd p)
                        end
                      | None => Ok (snd p)
                      end) (fun x => Ok (fst p, x))) e)
             (fun e' => Ok (VStruct cls e'))
      | None => Crash "AttributeError"
      end
    | _ => Crash "AttributeError"
    end
  end.

(* ---------- symbol: artifact ids ---------- *)
Definition sym_extend (ident : Z) (v : value) : result value :=
  match enum_member "TransactionType" "NAMESPACE_REGISTRATION", enum_member "TransactionType" "MOSAIC_DEFINITION",
        enum_member "NamespaceRegistrationType" "CHILD" with
  | Some t_ns, Some t_md, Some child =>
    match vget v "type" with
    | Some (VInt t) =>
      if t =? t_ns then
        bind (match vget v "registration_type" with
              | Some (VInt rt) =>
                if rt =? child then match vget v "parent_id" with Some (VInt p) => Ok p | _ => Crash "AttributeError" end
                else Ok sym_root_parent
              | _ => Ok sym_root_parent
              end) (fun parent =>
        match vget v "name" with
        | Some (VBytes nm) => Ok (vset v "id" (VInt (generate_namespace_id sha3_256 nm parent)))
        | _ => Crash "AttributeError"
        end)
      else if t =? t_md then
        match vget v "signer_public_key", vget v "nonce" with
        | Some (VBytes pk), Some (VInt nonce) =>
          bind (public_key_to_address_now Symbol ident pk) (fun addr => Ok (vset v "id" (VInt (generate_mosaic_id sha3_256 addr nonce))))
        | _, _ => Crash "AttributeError"
        end
      else Ok v
    | _ => Ok v
    end
  | _, _, _ => Crash "AttributeError"
  end.

(* ---------- nem: the transfer message hack ---------- *)
Definition encode_member (n : string) (e : list (string * value)) : list (string * value) :=
  map (fun p => if String.eqb (fst p) n then (fst p, encode_str (snd p)) else p) e.
Definition nem_extend (v : value) : result value :=
  match enum_member "TransactionType" "TRANSFER" with
  | Some t_tr =>
    match vget v "type" with
    | Some (VInt t) =>
      if t =? t_tr then
        match vget v "message" with
        | Some (VStruct mc me) => Ok (vset v "message" (VStruct mc (encode_member "message" me)))
        | Some _ => Ok v
        | None => Crash "AttributeError"
        end
      else Ok v
    | _ => Ok v
    end
  | None => Crash "AttributeError"
  end.

(* ---------- TransactionFactory.create / create_embedded ---------- *)
Definition extend (ident : Z) (v : value) : result value :=
  match fl with Symbol => sym_extend ident v | Nem => nem_extend v end.
Definition create_core (embedded : bool) (ident : Z) (d : descriptor) : result value :=
  create_from_factory embedded (dict_set d (n_network_key N) (DInt ident)).
Definition create (embedded autosort : bool) (ident : Z) (d : descriptor) : result value :=
  bind (create_core embedded ident d) (fun v =>
  bind (if autosort then sort_value type_fuel_d v else Ok v) (extend ident)).

(* case runner of the harness: the created tree, then serialize() of it *)
Definition case_create (embedded autosort : bool) (ident : Z) (d : descriptor) : string :=
  match create embedded autosort ident d with
  | Ok v => "ok:" ++ r_value v ++ "|" ++ r_outcome to_hex (m_enc tm "" v)
  | Reject => "reject"
  | Crash k => "crash:" ++ k
  end.
End WithNet.

(* ---------- the two shipped networks ---------- *)
Definition sc_cfg : netcfg := {|
  n_flavor := Symbol; n_tm := sc_schema; n_hints := sc_hints; n_autodetect := sc_autodetect; n_actions := sc_build_actions;
  n_names := fun embedded => if embedded then sc_names_EmbeddedTransactionFactory else sc_names_TransactionFactory;
  n_network_key := sym_network_key |}.
Definition nc_cfg : netcfg := {|
  n_flavor := Nem; n_tm := nc_schema; n_hints := nc_hints; n_autodetect := nc_autodetect; n_actions := nc_build_actions;
  n_names := fun _ => nc_names_TransactionFactory;
  n_network_key := nem_network_key |}.
