(* C20 -- include ordering is a strict weak order; the linter's own fixes are fixed points.
   Only statements; each closed by `exact` of a lemma proved in Lint/*Proofs.v.  The left-hand functions are the model of
   linters/cpp/checkProjectStructure.py (SortableInclude, Entry) and HeaderParser.py (fixes list, fix_indents, report_indents)
   with the operators, constants and tables regenerated from /repo (Gen/IncludeOrderOps.v, Gen/IncludeOrderTables.v); the
   right-hand specifications (key, lex_lt, Permutation, ...) are fixed text. *)
From Coq Require Import Permutation.
From Symv Require Import Lint.IncludeOrder Lint.IncludeOrderProofs Lint.IncludeOrderProofs2 Lint.Propose Lint.ProposeProofs Lint.Indent Lint.IndentProofs.
Open Scope Z_scope.

(* ---- the comparator ---- *)

(* SortableInclude.__lt__ on the include strings the linter builds (never empty: the pattern demands an opening character) is
   the lexicographic order of
     key a = (first character, C-header flag, not external, not C++ library, priority value, depth class) ++ path segments *)
Theorem lt_key : forall a b, a <> [] -> b <> [] -> lt a b = Ok (lex_lt (key a) (key b)).
Proof. exact IncludeOrderProofs.lt_key. Qed.
Print Assumptions lt_key.

(* ... and the total function lt_b that `lt` wraps is that order on ALL strings *)
Theorem lt_b_key : forall a b, lt_b a b = lex_lt (key a) (key b).
Proof. exact IncludeOrderProofs.lt_b_key. Qed.
Print Assumptions lt_b_key.

(* strict weak order on all strings: irreflexive, asymmetric, transitive, incomparability transitive *)
Theorem lt_strict_weak_order :
  (forall a, lt_b a a = false)
  /\ (forall a b, lt_b a b = true -> lt_b b a = false)
  /\ (forall a b c, lt_b a b = true -> lt_b b c = true -> lt_b a c = true)
  /\ (forall a b c, lt_b a b = false -> lt_b b a = false -> lt_b b c = false -> lt_b c b = false -> lt_b a c = false /\ lt_b c a = false).
Proof. exact IncludeOrderProofs.lt_strict_weak_order. Qed.
Print Assumptions lt_strict_weak_order.

(* in fact a strict total order: two different include strings are never incomparable *)
Theorem lt_total_on_distinct : forall a b, a <> b -> lt_b a b = true \/ lt_b b a = true.
Proof. exact IncludeOrderProofs.lt_total. Qed.
Print Assumptions lt_total_on_distinct.

(* "total order" spelled out: exactly one of a < b, a = b, b < a; the derived "not after" relation is antisymmetric, transitive
   and total; and the key determines the include string *)
Theorem lt_trichotomy : forall a b,
  (lt_b a b = true /\ lt_b b a = false /\ a <> b)
  \/ (a = b /\ lt_b a b = false /\ lt_b b a = false)
  \/ (lt_b b a = true /\ lt_b a b = false /\ a <> b).
Proof. exact IncludeOrderProofs2.lt_trichotomy. Qed.
Print Assumptions lt_trichotomy.

Theorem not_after_is_total_order :
  (forall a b, negb (lt_b b a) = true -> negb (lt_b a b) = true -> a = b)
  /\ (forall a b c, negb (lt_b b a) = true -> negb (lt_b c b) = true -> negb (lt_b c a) = true)
  /\ (forall a b, negb (lt_b b a) = true \/ negb (lt_b a b) = true).
Proof. exact (conj IncludeOrderProofs2.le_antisym (conj IncludeOrderProofs2.le_trans IncludeOrderProofs2.le_total)). Qed.
Print Assumptions not_after_is_total_order.

Theorem key_determines_include : forall a b, key a = key b -> a = b.
Proof. exact IncludeOrderProofs2.key_injective. Qed.
Print Assumptions key_determines_include.

(* ---- the proposal of Entry.check_includes ---- *)

Theorem proposal_independent_of_input_order : forall own cpp l l', Permutation l l' -> propose own cpp l = propose own cpp l'.
Proof. exact ProposeProofs.proposal_independent_of_input_order. Qed.
Print Assumptions proposal_independent_of_input_order.

(* `own` is the file's own directory as the linter derives it from the file's path (it always ends in '/') *)
Theorem propose_idempotent : forall full_path own cpp l, own_pattern (own_path_of full_path) = Some own ->
  propose own cpp (propose own cpp l) = propose own cpp l.
Proof. exact (fun p own cpp l H => ProposeProofs.propose_idempotent own cpp l (own_path_has_sep p own H)). Qed.
Print Assumptions propose_idempotent.

Theorem propose_no_complaint : forall full_path own cpp l, own_pattern (own_path_of full_path) = Some own ->
  complaint own cpp (propose own cpp l) = false.
Proof. exact (fun p own cpp l H => ProposeProofs.propose_no_complaint own cpp l (own_path_has_sep p own H)). Qed.
Print Assumptions propose_no_complaint.

(* the complaint is raised exactly when the written order differs from the proposal; the proposal only rearranges *)
Theorem complaint_iff_not_proposed : forall own cpp l, complaint own cpp l = false <-> l = propose own cpp l.
Proof. exact ProposeProofs.complaint_iff_differs. Qed.
Print Assumptions complaint_iff_not_proposed.

Theorem propose_is_rearrangement : forall own cpp l, Permutation (propose own cpp l) (map (fix_relative own) l).
Proof. exact ProposeProofs.propose_is_permutation. Qed.
Print Assumptions propose_is_rearrangement.

(* when the file's own header is among its includes, the proposal also silences the firstInclude complaint *)
Theorem propose_puts_own_header_first : forall full_path own h l, own_pattern (own_path_of full_path) = Some own ->
  In h (map (fix_relative own) l) -> first_complaint own (Some (OwnIs h)) (propose own (Some (OwnIs h)) l) = false.
Proof. exact (fun p own h l H => ProposeProofs.propose_own_header_first own h l (own_path_has_sep p own H)). Qed.
Print Assumptions propose_puts_own_header_first.

(* ---- the preprocessor indent fixer (files = lists of lines, LF line ends) ---- *)

(* a line whose number carries no recorded fix is left as it is, and no line is added or dropped *)
Theorem fix_touches_only_fixes : forall fixes lines k,
  (forall f, In f fixes -> flineno f <> fi_first_lineno + Z.of_nat k) ->
  nth_error (fix_indents fixes lines) k = nth_error lines k.
Proof. exact IndentProofs.fix_touches_only_fixes. Qed.
Print Assumptions fix_touches_only_fixes.

Theorem fix_keeps_line_count : forall fixes lines, length (fix_indents fixes lines) = length lines.
Proof. exact IndentProofs.fix_keeps_line_count. Qed.
Print Assumptions fix_keeps_line_count.

Theorem fix_then_no_indent_complaint : forall lines, report_file (fix_file lines) = [].
Proof. exact IndentProofs.fix_then_no_indent_complaint. Qed.
Print Assumptions fix_then_no_indent_complaint.

(* premise: no recorded preprocessor line ends in white space (what the linter's white-space rule demands anyway) *)
Theorem fix_idempotent : forall lines, no_trailing_blank_pp lines = true -> fix_file (fix_file lines) = fix_file lines.
Proof. exact IndentProofs.fix_idempotent. Qed.
Print Assumptions fix_idempotent.

(* ---- non-vacuity, with real lines of the tree ---- *)
Open Scope string_scope.

(* the includes of src/catapult/utils/Logging.cpp, in the order the file has them *)
Definition logging_cpp_includes : list str := map of_string
  ["""Logging.h""";
   """BitwiseEnum.h""";
   """catapult/types.h""";
   "<boost/core/null_deleter.hpp>";
   "<boost/log/attributes.hpp>";
   "<boost/log/detail/default_attribute_names.hpp>";
   "<boost/log/expressions.hpp>";
   "<boost/log/sinks.hpp>";
   "<boost/log/support/date_time.hpp>";
   "<boost/phoenix.hpp>";
   "<unordered_map>"].
Definition logging_cpp_path : str := of_string "src/catapult/utils/Logging.cpp".
Definition logging_own_header : option own_header := Some (OwnIs (of_string """Logging.h""")).

Example real_includes :
  match own_pattern (own_path_of logging_cpp_path) with
  | Some own =>
    complaint own logging_own_header logging_cpp_includes = false
    /\ complaint own logging_own_header (rev logging_cpp_includes) = true
    /\ propose own logging_own_header (rev logging_cpp_includes) = logging_cpp_includes
    /\ propose own logging_own_header (of_string """catapult/utils/BitwiseEnum.h""" :: hd [] logging_cpp_includes :: tl (tl logging_cpp_includes))
       = logging_cpp_includes
  | None => False
  end
  /\ lt (of_string "<boost/phoenix.hpp>") (of_string "<unordered_map>") = Ok true
  /\ lt (of_string """catapult/types.h""") (of_string """BitwiseEnum.h""") = Ok false
  /\ lt (of_string "<unordered_map>") (of_string "<stdint.h>") = Ok true
  /\ lt [] (of_string "<a>") = Crash "IndexError".
Proof. vm_compute. repeat split; reflexivity. Qed.

(* lines 22-47 of src/catapult/version/version.h (everything below the licence comment) *)
Definition version_h : list str := map of_string
  ["#pragma once";
   "#include ""version_inc.h""";
   "#include <iosfwd>";
   "";
   "#define STRINGIFY2(STR) #STR";
   "#define STRINGIFY(STR) STRINGIFY2(STR)";
   "";
   "#define CATAPULT_BASE_VERSION \";
   "	STRINGIFY(CATAPULT_VERSION_MAJOR) ""."" \";
   "	STRINGIFY(CATAPULT_VERSION_MINOR) ""."" \";
   "	STRINGIFY(CATAPULT_VERSION_REVISION) ""."" \";
   "	STRINGIFY(CATAPULT_VERSION_BUILD)";
   "";
   "#ifdef CATAPULT_VERSION_DESCRIPTION";
   "#define CATAPULT_VERSION CATAPULT_BASE_VERSION "" "" CATAPULT_VERSION_DESCRIPTION";
   "#else";
   "#define CATAPULT_VERSION CATAPULT_BASE_VERSION";
   "#endif";
   "";
   "#define CATAPULT_COPYRIGHT ""Copyright (c) Jaguar0625, gimre, BloodyRookie, Tech Bureau, Corp.""";
   "";
   "namespace catapult { namespace version {";
   "";
   "	/// Writes custom version information to \a out.";
   "	void WriteVersionInformation(std::ostream& out);";
   "}}"].

(* the same lines with four of them mis-indented *)
Definition version_h_misindented : list str := map of_string
  ["#pragma once";
   "#include ""version_inc.h""";
   "  #include <iosfwd>";
   "";
   "#define STRINGIFY2(STR) #STR";
   "#define STRINGIFY(STR) STRINGIFY2(STR)";
   "";
   "#define CATAPULT_BASE_VERSION \";
   "			STRINGIFY(CATAPULT_VERSION_MAJOR) ""."" \";
   "	STRINGIFY(CATAPULT_VERSION_MINOR) ""."" \";
   "	STRINGIFY(CATAPULT_VERSION_REVISION) ""."" \";
   "	STRINGIFY(CATAPULT_VERSION_BUILD)";
   "";
   "	#ifdef CATAPULT_VERSION_DESCRIPTION";
   " 	#define CATAPULT_VERSION CATAPULT_BASE_VERSION "" "" CATAPULT_VERSION_DESCRIPTION";
   "#else";
   "#define CATAPULT_VERSION CATAPULT_BASE_VERSION";
   "#endif";
   "";
   "#define CATAPULT_COPYRIGHT ""Copyright (c) Jaguar0625, gimre, BloodyRookie, Tech Bureau, Corp.""";
   "";
   "namespace catapult { namespace version {";
   "";
   "	/// Writes custom version information to \a out.";
   "	void WriteVersionInformation(std::ostream& out);";
   "}}"].

Example real_file :
  no_trailing_blank_pp version_h = true
  /\ length (parse_fixes version_h) = 15%nat
  /\ report_file version_h = []
  /\ fix_file version_h = version_h
  /\ no_trailing_blank_pp version_h_misindented = true
  /\ length (report_file version_h_misindented) = 4%nat
  /\ fix_file version_h_misindented = version_h.
Proof. vm_compute. repeat split; reflexivity. Qed.

(* non-vacuity of the remaining premises: the own header of Logging.cpp is among its (fixed) includes (propose_puts_own_header_first);
   line 4 of the mis-indented file carries no recorded fix and is left alone, line 3 carries one and is changed
   (fix_touches_only_fixes, k = 3 / 2) *)
Example premises_nonvacuous :
  match own_pattern (own_path_of logging_cpp_path) with
  | Some own => In (of_string """Logging.h""") (map (fix_relative own) logging_cpp_includes)
  | None => False
  end
  /\ forallb (fun f => negb (flineno f =? fi_first_lineno + Z.of_nat 3)%Z) (parse_fixes version_h_misindented) = true
  /\ nth_error (fix_indents (parse_fixes version_h_misindented) version_h_misindented) 3 = nth_error version_h_misindented 3
  /\ nth_error (fix_indents (parse_fixes version_h_misindented) version_h_misindented) 2 <> nth_error version_h_misindented 2.
Proof. vm_compute. repeat split; try reflexivity; [left; reflexivity|discriminate]. Qed.
Print Assumptions premises_nonvacuous.
