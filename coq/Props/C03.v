(* C03 -- shipped codec modules are exactly the generator output (level: proof, PARTIAL).

   What is proved here is the OUTLINE level: `outline : list decl -> module_outline` (Cats/Outline.v) is the model of
   Generator.generate_files / TypeFormatter.generate_methods / the Struct-, Enum-, Pod- and Factory formatters with the string
   constants (Gen/OutlineOps.v) and the method-slot order (Gen/OutlineOrder.v) regenerated from /repo on every run; it is a function
   of the ordered declaration list alone (no hash, no directory, no enumeration enters it).  `sc_schema` / `nc_schema` are the expanded
   shipped schemas (through /repo's parser + post-processor, Gen/SchemaSc.v / Gen/SchemaNc.v), `sc_outline_actual` /
   `nc_outline_actual` are read from the CHECKED-IN symbolchain/sc/__init__.py and nc/__init__.py (Gen/OutlineSc.v / Gen/OutlineNc.v).

   NOT proved: method bodies, the module header, and independence of the CPython runtime (hash seed, cwd, stale output).  Those are
   only exercised by the regeneration matrix of harness/checks/c03.py (execution of the real CLI + generator, byte comparison).

   Full statement kept visible (the theorems below are its outline-level part):
     forall net in {symbol, nem}, seed, cwd:  bytes (run_generator net seed cwd) = bytes (checked-in module net). *)
From Coq Require Import String ZArith Bool List.
From Symv Require Import Cats.Layout Cats.Derive Cats.DeriveProofs Cats.Outline Cats.OutlineProofs.
From Symv Require Import Gen.SchemaSc Gen.SchemaNc Gen.OutlineSc Gen.OutlineNc.
Import ListNotations.
Open Scope list_scope.

(* ---------- generic theorems: all declaration lists ---------- *)

(* one class per declaration, same names, same order (an expanded schema holds no inline struct: AstPostProcessor.type_descriptors
   drops them; the model does not skip anything) *)
Theorem outline_order : forall ds m, build_factory_map ds = Ok m -> class_names (outline ds) = map decl_name ds.
Proof. exact OutlineProofs.outline_order. Qed.
Print Assumptions outline_order.

Theorem outline_order_when_descendants_carry : forall ds,
  (forall s, In (DStruct s) ds -> s_factory_type s <> None -> carries s) -> class_names (outline ds) = map decl_name ds.
Proof. exact OutlineProofs.outline_order_carries. Qed.
Print Assumptions outline_order_when_descendants_carry.

(* the module is: all classes, then the factories; factories = the abstract structs in declaration order, named <X>Factory *)
Theorem factories_last_in_decl_order : forall ds m, build_factory_map ds = Ok m ->
  outline ds = map EClass (classes ds) ++ map EFactory (factories ds m)
  /\ length (classes ds) = length ds
  /\ map fo_parent (factories ds m) = map s_name (filter struct_abstract (structs_of ds))
  /\ map fo_name (factories ds m) = map (fun a => (s_name a ++ factory_suffix)%string) (filter struct_abstract (structs_of ds)).
Proof. exact OutlineProofs.factories_last. Qed.
Print Assumptions factories_last_in_decl_order.

Theorem factories_after_all_classes : forall ds m, build_factory_map ds = Ok m ->
  exists cs fs, outline ds = cs ++ fs /\ forallb is_class cs = true /\ forallb is_factory fs = true /\ length cs = length ds.
Proof. exact OutlineProofs.factories_after_classes. Qed.
Print Assumptions factories_after_all_classes.

(* the mapping of factory X and its create_by_name table list exactly the structs recording X as factory type, in declaration
   order; the create_by_name keys are their snake-case names without the embedded_ prefix *)
Theorem factory_entries_are_children : forall ds m a, no_empty_factory ds -> build_factory_map ds = Ok m ->
  let children := filter (has_factory (s_name a)) (structs_of ds) in
  map snd (fo_entries (factory_of m a)) = map s_name children
  /\ map snd (fo_names (factory_of m a)) = map s_name children
  /\ map fst (fo_names (factory_of m a)) = map (fun c => skip_embedded (underline_name (s_name c))) children.
Proof. exact OutlineProofs.factory_entries_are_children. Qed.
Print Assumptions factory_entries_are_children.

(* every key of one mapping is the same tuple of constant names (those the FIRST child initialises the discriminator members with,
   in discriminator order), qualified by the entry's own class *)
Theorem factory_entry_keys : forall ds m a fd, no_empty_factory ds -> build_factory_map ds = Ok m -> fm_find (s_name a) m = Some fd ->
  (exists c0, find (has_factory (s_name a)) (structs_of ds) = Some c0
              /\ spec_discriminator c0 = Some (fd_names fd)
              /\ map (spec_value c0) (fd_names fd) = map Some (fd_values fd))
  /\ fo_discriminator (factory_of m a) = map (fun n => fix_name (av_text n)) (fd_names fd)
  /\ forall key child, In (key, child) (fo_entries (factory_of m a)) -> key = map (fun v => (child, av_text v)) (fd_values fd).
Proof. exact OutlineProofs.factory_entry_keys. Qed.
Print Assumptions factory_entry_keys.

(* "pure function" at model level: equal expanded schemas give equal outlines ... *)
Theorem outline_ext : forall ds ds', ds = ds' -> outline ds = outline ds'.
Proof. exact OutlineProofs.outline_ext. Qed.
Print Assumptions outline_ext.

(* ... and a class depends only on its own declaration and the declarations it references (its factory type, the named types of
   its members): two schemas that agree on those give the same class; pods and enums look at nothing else at all *)
Theorem class_depends_on_references_only : forall tm tm' d,
  (forall n, In n (decl_refs d) -> Layout.lookup tm n = Layout.lookup tm' n) -> decl_class tm d = decl_class tm' d.
Proof. exact OutlineProofs.class_local. Qed.
Print Assumptions class_depends_on_references_only.

(* non-vacuity: a schema with two factories and interleaved descendants meets the premises; its outline has the expected shape *)
Example example_outline_shape :
  (exists m, build_factory_map example_schema = Ok m)
  /\ no_empty_factory example_schema
  /\ class_names (outline example_schema) = map decl_name example_schema
  /\ map fo_name (factory_entries (outline example_schema)) = ["ShapeFactory"%string; "EventFactory"%string]
  /\ map (fun f => map snd (fo_entries f)) (factory_entries (outline example_schema))
     = [["Circle"%string; "Square"%string]; ["Click"%string; "Scroll"%string]].
Proof. exact OutlineProofs.example_outline_shape. Qed.

(* ---------- per-artefact kernel obligations (regenerated terms on both sides) ----------
   Closed through the boolean equality outline_eqb (sound for Leibniz equality, OutlineProofs.outline_eqb_sound) so that an obligation
   that does not hold fails at once with `false = true`; the statements are plain equalities. *)

(* constants of the generator that the model / the extractor rely on in a fixed spelling *)
Theorem generator_constants_as_modelled :
  camel_case_pattern = "(?<!^)(?=[A-Z])"%string /\ pod_size_assign = "SIZE = "%string
  /\ hints_base_open = "**"%string /\ hints_base_close = ".TYPE_HINTS"%string
  /\ ~ In "?"%string (map (fun s => substring 0 1 s) (method_order ++ factory_method_order)).
Proof. vm_compute. repeat split; try reflexivity. intro H. repeat (destruct H as [H|H]; [discriminate H|]). exact H. Qed.
Print Assumptions generator_constants_as_modelled.

(* the shipped schemas satisfy the premises of the generic theorems above *)
Theorem shipped_schemas_premises :
  no_empty_factory sc_schema /\ no_empty_factory nc_schema
  /\ (exists m, build_factory_map sc_schema = Ok m) /\ (exists m, build_factory_map nc_schema = Ok m).
Proof.
  split; [apply no_empty_factoryb_spec; vm_compute; reflexivity|]. split; [apply no_empty_factoryb_spec; vm_compute; reflexivity|].
  split; [destruct (build_factory_map sc_schema) as [m| |k] eqn:E | destruct (build_factory_map nc_schema) as [m| |k] eqn:E];
    try (exists m; reflexivity); vm_compute in E; discriminate E.
Qed.
Print Assumptions shipped_schemas_premises.

(* non-vacuity of the remaining premises: every descendant of the example schema carries its discriminator, initializers and members
   (outline_order_when_descendants_carry); the factory maps of both shipped schemas have a descriptor for the abstract struct Transaction
   (factory_entry_keys: `fm_find (s_name a) m = Some fd`), with the discriminator (type, version) on Symbol *)
Example premises_nonvacuous :
  (forall s, In (DStruct s) example_schema -> s_factory_type s <> None -> carries s)
  /\ match build_factory_map sc_schema with
     | Ok m => match fm_find "Transaction"%string m, fm_find "EmbeddedTransaction"%string m with
               | Some fd, Some fd' => map av_text (fd_names fd) = ["type"%string; "version"%string] /\ fd_names fd' = fd_names fd
               | _, _ => False
               end
     | _ => False
     end
  /\ match build_factory_map nc_schema with
     | Ok m => match fm_find "Transaction"%string m with Some fd => fd_names fd <> [] | None => False end
     | _ => False
     end.
Proof. split; [exact example_carries|]. vm_compute. repeat split; try reflexivity. discriminate. Qed.
Print Assumptions premises_nonvacuous.

(* every class, base, SIZE, enum member and value, constant, TYPE_HINTS key and hint, method (decorator, name, result annotation),
   factory, mapping entry and create_by_name key of the checked-in module, in order, is what the model yields for the schema *)
Theorem sc_module_outline_partial : outline sc_schema = sc_outline_actual.
Proof. apply outline_eqb_sound. vm_compute. reflexivity. Qed.
Print Assumptions sc_module_outline_partial.

Theorem nc_module_outline_partial : outline nc_schema = nc_outline_actual.
Proof. apply outline_eqb_sound. vm_compute. reflexivity. Qed.
Print Assumptions nc_module_outline_partial.
