(* C14 -- both parties derive one shared key; messages round-trip and resist tampering.
   Only statements; each closed by `exact` of a lemma proved in Sym/EdAbstractProofs.v, Sym/EdZProofs.v, Sym/MessageFramingProofs.v,
   Sym/SharedKeyProofs.v.  Left-hand sides are the models of the code instantiated with the regenerated constants
   (Gen/KeyPairOps.v, Gen/MessageOps.v); right-hand sides are fixed text.

   *_partial theorems carry the premise [EdZ_group_premise] (the integer formulas of Sym/EdZ.v implement a lawful group -- the
   edwards25519 group law -- NOT proved, sampled only); the full statements are the same without it.  The AEAD / CBC primitives
   are abstract: [open_seal], tag length and [dec_enc] appear as explicit premises (AES-GCM / AES-CBC correctness is not proved);
   that a tampered message makes `open` fail is AES-GCM authenticity and cannot be a theorem. *)
From Symv Require Import Base.Bytes Base.PyOps Sym.Keccak Sym.Sha2 Sym.Hmac Sym.EdAbstract Sym.EdAbstractProofs Sym.EdZ Sym.EdZProofs
  Sym.MessageFraming Sym.MessageFramingProofs Sym.SharedKeyProofs.
Open Scope Z_scope.

(* ================= shared secret over ANY lawful group ================= *)
Theorem shared_symmetric : forall (G : Type) (o : ed_ops G) fl zero_refused,
  ed_laws o -> flavour_ok fl (g_L o) zero_refused -> forall k k',
  shared_secret o fl k (public_key o fl k') = shared_secret o fl k' (public_key o fl k).
Proof. exact @EdAbstractProofs.shared_symmetric. Qed.
Print Assumptions shared_symmetric.

Theorem shared_secret_is_product : forall (G : Type) (o : ed_ops G) fl zero_refused,
  ed_laws o -> flavour_ok fl (g_L o) zero_refused -> forall k k',
  shared_secret o fl k (public_key o fl k') =
  inr (g_enc o (g_smul o (fl_scalar_pub fl (secret_digest fl k) * fl_scalar_pub fl (secret_digest fl k')) (g_B o))).
Proof. exact @EdAbstractProofs.shared_secret_honest. Qed.
Print Assumptions shared_secret_is_product.

Theorem shared_secret_def : forall (G : Type) (o : ed_ops G) fl, ed_laws o -> forall k pub s,
  shared_secret o fl k pub = inr s ->
  g_canonical o pub = true /\ exists A, g_dec o pub = Some A /\ g_smul o (g_L o) A = g_zero o
    /\ s = g_enc o (g_smul o (fl_scalar_dh fl (secret_digest fl k)) A).
Proof. exact @EdAbstractProofs.shared_secret_def. Qed.
Print Assumptions shared_secret_def.

(* ================= the concrete key derivation ================= *)
(* the three clamp formulas of the code agree on every digest *)
Theorem clamp_formulas_agree : forall d, length d = 64%nat -> wf_bytes d = true ->
  clamp_dh d = clamp_rfc (firstn 32 d) /\ clamp_nem_sign (firstn 32 d) = clamp_rfc (firstn 32 d)
  /\ exists j, clamp_rfc (firstn 32 d) = 8 * j /\ 2 ^ 251 <= j < 2 ^ 252.
Proof.
  exact (fun d Hl Hw => conj (clamp_dh_eq_rfc d Hl Hw) (conj (clamp_nem_sign_eq_rfc (firstn 32 d))
           (proj2 (clamp_rfc_closed (firstn 32 d) (proj1 (firstn32_facts d Hl Hw)) (proj2 (firstn32_facts d Hl Hw)))))).
Qed.
Print Assumptions clamp_formulas_agree.

(* shared_key_def: HKDF-SHA256, 32 zero salt bytes, label 'catapult' / 'nem-nis1', over the encoded product of the clamped hashed
   private scalar (SHA-512 of the key on Symbol, Keccak-512 of the reversed key on NEM) and the decoded public point; only for
   canonical keys whose point is in the main subgroup *)
Theorem shared_key_def :
  (forall k pub key, sym_shared_key k pub = inr key ->
     iscanonical pub = true /\ exists A, decodepoint pub = Some A /\ isinmainsubgroup A = true
       /\ key = hkdf_sha256 (zeros 32) (encodepoint (scalarmult (clamp_rfc (firstn 32 (sha512 k))) A)) (of_string "catapult") 32)
  /\ (forall k pub key, nem_shared_key k pub = inr key ->
     iscanonical pub = true /\ exists A, decodepoint pub = Some A /\ isinmainsubgroup A = true
       /\ key = hkdf_sha256 (zeros 32) (encodepoint (scalarmult (clamp_rfc (firstn 32 (keccak_512 (rev k)))) A)) (of_string "nem-nis1") 32).
Proof.
  exact (conj (fun k pub key => edz_shared_key_def sym_flavour false sk_sym_label k pub key sym_flavour_ok eq_refl)
              (fun k pub key => edz_shared_key_def nem_flavour true sk_nem_label k pub key nem_flavour_ok eq_refl)).
Qed.
Print Assumptions shared_key_def.

Theorem iscanonical_def : forall pub, iscanonical pub = (from_le pub mod 2 ^ 255 <? 2 ^ 255 - 19).
Proof. exact iscanonical_spec. Qed.
Print Assumptions iscanonical_def.

Theorem refuses_noncanonical :
  (forall k pub, iscanonical pub = false -> sym_shared_key k pub = inl DhNotCanonical)
  /\ (forall k pub, iscanonical pub = false -> nem_shared_key k pub = inl DhNotCanonical).
Proof.
  exact (conj (fun k pub => edz_refuses_noncanonical sym_flavour sk_sym_label k pub)
              (fun k pub => edz_refuses_noncanonical nem_flavour sk_nem_label k pub)).
Qed.
Print Assumptions refuses_noncanonical.

Theorem refuses_outside_subgroup :
  (forall k pub A, decodepoint pub = Some A -> isinmainsubgroup A = false -> exists e, sym_shared_key k pub = inl e)
  /\ (forall k pub A, decodepoint pub = Some A -> isinmainsubgroup A = false -> exists e, nem_shared_key k pub = inl e)
  /\ (forall k pub, decodepoint pub = None -> exists e, sym_shared_key k pub = inl e)
  /\ (forall k pub, decodepoint pub = None -> exists e, nem_shared_key k pub = inl e).
Proof.
  exact (conj (fun k pub A => edz_refuses_outside_subgroup sym_flavour sk_sym_label k pub A)
        (conj (fun k pub A => edz_refuses_outside_subgroup nem_flavour sk_nem_label k pub A)
        (conj (fun k pub => edz_refuses_off_curve sym_flavour sk_sym_label k pub)
              (fun k pub => edz_refuses_off_curve nem_flavour sk_nem_label k pub)))).
Qed.
Print Assumptions refuses_outside_subgroup.

(* full statement: the same without the premise *)
Theorem shared_key_symmetric_partial : EdZ_group_premise ->
  (forall a b, sym_shared_key a (sym_public_key b) = sym_shared_key b (sym_public_key a)
               /\ exists key, sym_shared_key a (sym_public_key b) = inr key)
  /\ (forall a b, nem_shared_key a (nem_public_key b) = nem_shared_key b (nem_public_key a)
               /\ exists key, nem_shared_key a (nem_public_key b) = inr key)
  /\ (forall a b salt, nem_shared_key_deprecated a (nem_public_key b) salt = nem_shared_key_deprecated b (nem_public_key a) salt).
Proof.
  exact (fun premise =>
    conj (fun a b => derive_shared_key_symmetric sym_flavour false sk_sym_label a b premise sym_flavour_ok)
   (conj (fun a b => derive_shared_key_symmetric nem_flavour true sk_nem_label a b premise nem_flavour_ok)
         (fun a b salt => proj1 (nem_shared_key_deprecated_symmetric a b salt premise)))).
Qed.
Print Assumptions shared_key_symmetric_partial.

(* ================= message framing over an abstract AEAD / CBC cipher / key derivation ================= *)
Theorem try_decode_encode : forall seal open shared public_key_of,
  (forall key iv pt, open key iv (snd (seal key iv pt)) (fst (seal key iv pt)) = Some pt) ->
  (forall key iv pt, length (snd (seal key iv pt)) = 16%nat) ->
  (forall a b, shared a (public_key_of b) = shared b (public_key_of a)) ->
  forall a b iv m key e, shared a (public_key_of b) = inr key -> length iv = 12%nat ->
  sym_encode seal shared a (public_key_of b) iv m = Ok e ->
  sym_try_decode open shared b (public_key_of a) e = Ok (true, m)
  /\ sym_try_decode open shared a (public_key_of b) e = Ok (true, m).
Proof.
  exact (fun seal open shared pk Hos Hst Hsym a b iv m key e Hk Hiv E =>
    conj (sym_try_decode_encode_recipient seal open shared pk Hos Hst Hsym a b iv m key e Hk Hiv E)
         (sym_try_decode_encode_sender seal open shared pk Hos Hst a b iv m key e Hk Hiv E)).
Qed.
Print Assumptions try_decode_encode.

Theorem try_decode_encode_deprecated : forall seal open shared public_key_of,
  (forall key iv pt, open key iv (snd (seal key iv pt)) (fst (seal key iv pt)) = Some pt) ->
  (forall key iv pt, length (snd (seal key iv pt)) = 16%nat) ->
  (forall a b, shared a (public_key_of b) = shared b (public_key_of a)) ->
  forall a b iv m key e, shared a (public_key_of b) = inr key -> length iv = 12%nat ->
  wf_bytes iv = true -> wf_bytes (fst (seal key iv m)) = true -> wf_bytes (snd (seal key iv m)) = true ->
  sym_encode_deprecated seal shared a (public_key_of b) iv m = Ok e ->
  sym_try_decode_deprecated open shared b (public_key_of a) e = Ok (true, m)
  /\ sym_try_decode_deprecated open shared a (public_key_of b) e = Ok (true, m).
Proof. exact sym_try_decode_encode_deprecated. Qed.
Print Assumptions try_decode_encode_deprecated.

Theorem try_decode_delegation : forall seal open shared public_key_of,
  (forall key iv pt, open key iv (snd (seal key iv pt)) (fst (seal key iv pt)) = Some pt) ->
  (forall key iv pt, length (snd (seal key iv pt)) = 16%nat) ->
  (forall a b, shared a (public_key_of b) = shared b (public_key_of a)) ->
  (forall k, length (public_key_of k) = 32%nat) ->
  forall eph node iv remote vrf key other e, shared eph (public_key_of node) = inr key -> length iv = 12%nat ->
  sym_encode_delegation seal shared public_key_of eph (public_key_of node) iv remote vrf = Ok e ->
  sym_try_decode open shared node other e = Ok (true, remote ++ vrf).
Proof. exact sym_try_decode_delegation. Qed.
Print Assumptions try_decode_delegation.

Theorem nem_try_decode_encode : forall seal open cbc_dec shared shared_deprecated public_key_of,
  (forall key iv pt, open key iv (snd (seal key iv pt)) (fst (seal key iv pt)) = Some pt) ->
  (forall key iv pt, length (snd (seal key iv pt)) = 16%nat) ->
  (forall a b, shared a (public_key_of b) = shared b (public_key_of a)) ->
  forall a b iv m key t e, shared a (public_key_of b) = inr key -> length iv = 12%nat ->
  nem_encode seal shared a (public_key_of b) iv m = Ok (t, e) ->
  nem_try_decode open cbc_dec shared shared_deprecated b (public_key_of a) t e = Ok (true, m)
  /\ nem_try_decode open cbc_dec shared shared_deprecated a (public_key_of b) t e = Ok (true, m).
Proof. exact MessageFramingProofs.nem_try_decode_encode. Qed.
Print Assumptions nem_try_decode_encode.

(* the deprecated NEM format has no authentication tag: decoding first tries AES-GCM on the same bytes, and that this attempt is
   refused is an explicit premise *)
Theorem nem_try_decode_encode_deprecated : forall open cbc_enc cbc_dec shared shared_deprecated public_key_of,
  (forall key iv pt, cbc_dec key iv (cbc_enc key iv pt) = Some pt) ->
  (forall a b salt, shared_deprecated a (public_key_of b) salt = shared_deprecated b (public_key_of a) salt) ->
  forall a b salt iv m keyg key t e,
  shared b (public_key_of a) = inr keyg -> shared_deprecated a (public_key_of b) salt = inr key ->
  length salt = 32%nat -> length iv = 16%nat ->
  nem_encode_deprecated cbc_enc shared_deprecated a (public_key_of b) salt iv m = Ok (t, e) ->
  open keyg (firstn 12 (skipn 16 e)) (firstn 16 e) (skipn 28 e) = None ->
  nem_try_decode open cbc_dec shared shared_deprecated b (public_key_of a) t e = Ok (true, m).
Proof. exact MessageFramingProofs.nem_try_decode_encode_deprecated. Qed.
Print Assumptions nem_try_decode_encode_deprecated.

(* tamper_clean: when the AEAD refuses (altered tag / nonce / ciphertext, other key), Symbol try_decode returns (false, the
   encoded bytes); and no plaintext is ever returned that `open` did not produce *)
Theorem tamper_clean : forall open shared priv pub e key,
  nth_error e 0 = Some 1 -> (29 <= length e)%nat -> shared priv pub = inr key ->
  open key (firstn 12 (skipn 17 e)) (firstn 16 (skipn 1 e)) (skipn 29 e) = None ->
  sym_try_decode open shared priv pub e = Ok (false, e).
Proof. exact sym_tamper_clean. Qed.
Print Assumptions tamper_clean.

Theorem decoded_only_if_opened : forall open shared priv pub e m,
  (sym_try_decode open shared priv pub e = Ok (true, m) -> exists key iv tag ct, open key iv tag ct = Some m)
  /\ (sym_try_decode_deprecated open shared priv pub e = Ok (true, m) -> exists key iv tag ct, open key iv tag ct = Some m).
Proof.
  exact (fun open shared priv pub e m => conj (sym_decoded_only_if_opened open shared priv pub e m)
                                              (sym_deprecated_decoded_only_if_opened open shared priv pub e m)).
Qed.
Print Assumptions decoded_only_if_opened.

(* ================= framing with the concrete key derivation ================= *)
(* full statements: the same without EdZ_group_premise *)
Theorem sym_message_roundtrip_partial : EdZ_group_premise -> forall seal open,
  (forall key iv pt, open key iv (snd (seal key iv pt)) (fst (seal key iv pt)) = Some pt) ->
  (forall key iv pt, length (snd (seal key iv pt)) = 16%nat) ->
  forall a b iv m, length iv = 12%nat ->
  exists e, sym_encode seal sym_shared_key a (sym_public_key b) iv m = Ok e
    /\ sym_try_decode open sym_shared_key b (sym_public_key a) e = Ok (true, m)
    /\ sym_try_decode open sym_shared_key a (sym_public_key b) e = Ok (true, m).
Proof. exact sym_message_roundtrip. Qed.
Print Assumptions sym_message_roundtrip_partial.

Theorem sym_delegation_roundtrip_partial : EdZ_group_premise -> forall seal open,
  (forall key iv pt, open key iv (snd (seal key iv pt)) (fst (seal key iv pt)) = Some pt) ->
  (forall key iv pt, length (snd (seal key iv pt)) = 16%nat) ->
  forall eph node iv remote vrf other, length iv = 12%nat ->
  exists e, sym_encode_delegation seal sym_shared_key sym_public_key eph (sym_public_key node) iv remote vrf = Ok e
    /\ sym_try_decode open sym_shared_key node other e = Ok (true, remote ++ vrf).
Proof. exact sym_delegation_roundtrip. Qed.
Print Assumptions sym_delegation_roundtrip_partial.

Theorem nem_message_roundtrip_partial : EdZ_group_premise -> forall seal open,
  (forall key iv pt, open key iv (snd (seal key iv pt)) (fst (seal key iv pt)) = Some pt) ->
  (forall key iv pt, length (snd (seal key iv pt)) = 16%nat) ->
  forall cbc_dec a b iv m, length iv = 12%nat ->
  exists t e, nem_encode seal nem_shared_key a (nem_public_key b) iv m = Ok (t, e)
    /\ nem_try_decode open cbc_dec nem_shared_key nem_shared_key_deprecated b (nem_public_key a) t e = Ok (true, m)
    /\ nem_try_decode open cbc_dec nem_shared_key nem_shared_key_deprecated a (nem_public_key b) t e = Ok (true, m).
Proof. exact nem_message_roundtrip. Qed.
Print Assumptions nem_message_roundtrip_partial.

(* non-vacuity of the framing premises: a toy AEAD (xor with the first key byte, tag = 16 key-dependent bytes) satisfies them *)
Example framing_premises_inhabited :
  let seal := fun (key iv pt : bytes) => (map (Z.lxor (nth 0 key 0)) pt, repeat (nth 0 key 0) 16) in
  let open := fun (key iv tag ct : bytes) => if beqb tag (repeat (nth 0 key 0) 16) then Some (map (Z.lxor (nth 0 key 0)) ct) else None in
  sym_try_decode open (fun _ _ => inr [5]) [] [] (match sym_encode seal (fun _ _ => inr [5]) [] [] (repeat 7 12) [1; 2; 3] with Ok e => e | _ => [] end)
    = Ok (true, [1; 2; 3])
  /\ sym_try_decode open (fun _ _ => inr [6]) [] [] (match sym_encode seal (fun _ _ => inr [5]) [] [] (repeat 7 12) [1; 2; 3] with Ok e => e | _ => [] end)
    = Ok (false, match sym_encode seal (fun _ _ => inr [5]) [] [] (repeat 7 12) [1; 2; 3] with Ok e => e | _ => [] end).
Proof. vm_compute. split; reflexivity. Qed.

(* ================= non-vacuity of the premises ================= *)
From Symv Require Import Props.Examples.

(* the premises `ed_laws o` and `flavour_ok fl (g_L o) zero_refused` of shared_symmetric / shared_secret_is_product / shared_secret_def
   are jointly satisfiable: the toy group of Props/Examples.v (integers modulo the regenerated order ed_l, base point 1) is lawful and
   both shipped flavours are ok for its order.  This shows the laws are not contradictory; it says nothing about edwards25519. *)
Example generic_scheme_premises_nonvacuous :
  ed_laws toy_ops /\ flavour_ok sym_flavour (g_L toy_ops) false /\ flavour_ok nem_flavour (g_L toy_ops) true
  /\ (forall k k', shared_secret toy_ops sym_flavour k (public_key toy_ops sym_flavour k')
                   = shared_secret toy_ops sym_flavour k' (public_key toy_ops sym_flavour k)).
Proof.
  exact (conj toy_group_is_lawful (conj sym_flavour_ok (conj nem_flavour_ok
    (@EdAbstractProofs.shared_symmetric toy_point toy_ops sym_flavour false toy_group_is_lawful sym_flavour_ok)))).
Qed.
Print Assumptions generic_scheme_premises_nonvacuous.

(* [EdZ_group_premise] (premise of every *_partial theorem above) CANNOT be proved here and is not proved anywhere.  This Example only
   shows that it is NOT REFUTED by kernel-evaluated samples on the integer formulas of Sym/EdZ.v: the Diffie-Hellman square commutes
   (a (b B) = b (a B), compared projectively by same_point of Props/Examples.v) for a scalar a and a clamped-shape scalar b = 8 j,
   and the product is not the neutral element.  The samples of the individual group laws are in Props/C07.v
   (group_premise_not_refuted_on_samples); whole shared-key derivations are compared with OpenSSL by harness/checks/c14.py. *)
Example group_premise_not_refuted_on_samples :
  let a := 1003 in let b := 8 * 777 in let A := scalarmult a ed_B in let Bb := scalarmult b ed_B in
  same_point (scalarmult a Bb) (scalarmult b A) = true
  /\ same_point A Bb = false
  /\ is_neutral (scalarmult a Bb) = false.
Proof. vm_compute. repeat split; reflexivity. Qed.
Print Assumptions group_premise_not_refuted_on_samples.

(* the premises on the abstract AEAD / CBC cipher / key derivation (open_seal, 16-byte tag, dec_enc, symmetric shared keys, 32-byte public
   keys) are satisfied by a toy cipher (xor with the first key byte; tag = 16 copies of it), PROVED for all inputs; and with it every
   remaining premise of try_decode_encode, try_decode_encode_deprecated, nem_try_decode_encode, nem_try_decode_encode_deprecated
   (incl. "the AES-GCM attempt on the same bytes is refused") and tamper_clean holds together on a concrete message *)
Definition toy_seal (key iv pt : bytes) : bytes * bytes := (map (Z.lxor (nth 0 key 0)) pt, repeat (nth 0 key 0) 16).
Definition toy_open (key iv tag ct : bytes) : option bytes :=
  if beqb tag (repeat (nth 0 key 0) 16) then Some (map (Z.lxor (nth 0 key 0)) ct) else None.
Definition toy_cbc_enc (key iv pt : bytes) : bytes := map (Z.lxor (nth 0 key 0)) pt.
Definition toy_cbc_dec (key iv ct : bytes) : option bytes := Some (map (Z.lxor (nth 0 key 0)) ct).

Lemma toy_xor_twice : forall k l, map (Z.lxor k) (map (Z.lxor k) l) = l.
Proof.
  intros k l. rewrite map_map. induction l as [|x l IH]; [reflexivity|]. cbn [map]. rewrite IH. f_equal.
  rewrite <- Z.lxor_assoc, Z.lxor_nilpotent. apply Z.lxor_0_l.
Qed.

Example framing_premises_nonvacuous :
  let shared := fun (_ _ : bytes) => @inr dh_error bytes [5] in
  let other := fun (_ _ : bytes) => @inr dh_error bytes [6] in
  let shared_dep := fun (_ _ _ : bytes) => @inr dh_error bytes [9] in
  let public_key_of := fun k : bytes => k in
  (* the abstract cipher laws *)
  (forall key iv pt, toy_open key iv (snd (toy_seal key iv pt)) (fst (toy_seal key iv pt)) = Some pt)
  /\ (forall key iv pt, length (snd (toy_seal key iv pt)) = 16%nat)
  /\ (forall key iv pt, toy_cbc_dec key iv (toy_cbc_enc key iv pt) = Some pt)
  /\ (forall a b, shared a (public_key_of b) = shared b (public_key_of a))
  /\ (forall a b salt, shared_dep a (public_key_of b) salt = shared_dep b (public_key_of a) salt)
  /\ (forall k, length (public_key_of (repeat k 32)) = 32%nat)
  (* try_decode_encode / nem_try_decode_encode: key, 12-byte iv, encoding succeeds *)
  /\ match sym_encode toy_seal shared [] [] (repeat 7 12) [1; 2; 3] with
     | Ok e => sym_try_decode toy_open shared [] [] e = Ok (true, [1; 2; 3])
               (* tamper_clean: marker byte 1, at least 29 bytes, the AEAD refuses under another key *)
               /\ nth_error e 0 = Some 1 /\ Nat.leb 29 (length e) = true
               /\ toy_open [6] (firstn 12 (skipn 17 e)) (firstn 16 (skipn 1 e)) (skipn 29 e) = None
               /\ sym_try_decode toy_open other [] [] e = Ok (false, e)
     | _ => False
     end
  /\ match nem_encode toy_seal shared [] [] (repeat 7 12) [1; 2; 3] with
     | Ok (t, e) => nem_try_decode toy_open toy_cbc_dec shared shared_dep [] [] t e = Ok (true, [1; 2; 3])
     | _ => False
     end
  (* nem_try_decode_encode_deprecated: 32-byte salt, 16-byte iv, encoding succeeds, the AES-GCM attempt on the same bytes is refused *)
  /\ match nem_encode_deprecated toy_cbc_enc shared_dep [] [] (repeat 2 32) (repeat 3 16) [1; 2; 3] with
     | Ok (t, e) => toy_open [5] (firstn 12 (skipn 16 e)) (firstn 16 e) (skipn 28 e) = None
                    /\ nem_try_decode toy_open toy_cbc_dec shared shared_dep [] [] t e = Ok (true, [1; 2; 3])
     | _ => False
     end
  (* try_decode_encode_deprecated: well-formed iv, cipher text and tag *)
  /\ (wf_bytes (repeat 7 12) = true /\ wf_bytes (fst (toy_seal [5] (repeat 7 12) [1; 2; 3])) = true
      /\ wf_bytes (snd (toy_seal [5] (repeat 7 12) [1; 2; 3])) = true
      /\ match sym_encode_deprecated toy_seal shared [] [] (repeat 7 12) [1; 2; 3] with
         | Ok e => sym_try_decode_deprecated toy_open shared [] [] e = Ok (true, [1; 2; 3])
         | _ => False
         end).
Proof.
  cbv zeta.
  split; [intros key iv pt; unfold toy_open, toy_seal; cbn [fst snd]; rewrite beqb_refl, toy_xor_twice; reflexivity|].
  split; [intros; apply repeat_length|].
  split; [intros key iv pt; unfold toy_cbc_dec, toy_cbc_enc; rewrite toy_xor_twice; reflexivity|].
  split; [reflexivity|]. split; [reflexivity|]. split; [intros; apply repeat_length|].
  vm_compute. repeat split; reflexivity.
Qed.
Print Assumptions framing_premises_nonvacuous.
