(* C11 -- ill-formed CATS text is rejected, never silently accepted.
   Only statements; each closed by `exact` / instantiation of a lemma of Cats/SyntaxProofs.v with T_now, the sets regenerated from
   /repo.  `parse` is the model of create_cats_lark_parser().parse (Cats/Syntax.v); its errors carry the position lark reports.

   Corrupted documents are written as `document st ds` (= render st ds) with one physical line edited:
     replace_line st ds k c'   the statement line k (0-based) gets the content c' (indentation and line end are kept)
     insert_line st ds k c'    a new line with content c' at column 0 is inserted in front of line k
   and sites are top-level items: site_line st ds j is the physical line of the first statement line of item j (after its comment).

   FULL STATEMENT (kept visible):
     for every operator k of the catalogue of harness/checks/c04.py, every wf_doc ds, style st and applicable site:
       exists pos, parse (corrupt_k site (render st ds)) = Error pos /\ e_line pos = expected_line k site.

   WHAT IS PROVED (all Qed, closed under the global context; every theorem is for every style: LF / CR LF, any indentation,
   decimal / hexadecimal numerals, blank lines):
   * parse_error_propagates, no_prefix_success, parse_one_verdict.
   * Two generic theorems from which the operator theorems are instances:
       statement_line_replaced_if   ANY statement line of the rendered document (top level, struct body, enum body; k = its
                                    0-based physical line) replaced by a content that the automaton rejects in every state in
                                    which the original line is accepted: rejected, error line k + 1.  (The automaton reaches
                                    the line in the same state as in the good run, which exists because the document parses.)
       replaced_statement_rejected_if  the first statement line of a top-level item replaced by a content the top-level parser
                                    rejects: rejected with that line AND the column of the offending token.
   * Operators, complete for all their sites:
       corrupt_rejected_attribute                unknown attribute `@Q...` in place of ANY statement line (hence of every
                                                 attribute line of declarations, members and enums)
       corrupt_rejected_type_name_lower_case     type name in lower case on ANY `using` / `enum` / `[modifier] struct` line
       corrupt_rejected_struct_without_members   the member lines (and the blank lines after them) of ANY struct deleted;
                                                 error line = the next statement / comment line, or the header line at the end
       corrupt_rejected_member_outside_partial   (unchanged) a member line at column 0 in front of any top-level item: complete
                                                 for the operator `member-outside-declaration` restricted to item boundaries
   * Operators with a named gap (`_partial`):
       corrupt_rejected_final_line_end_partial   the text with all trailing CR / LF removed (a function on texts:
                                                 delete_final_line_end = rstrip "\r\n"); GAP: documents whose last item is a free comment
       corrupt_rejected_width_partial            width 24 / 7 / 128 on alias lines (with the column)
       corrupt_rejected_width_member_partial     width 24 / 7 / 128 on ANY member line `name = [u]intW`;
                                                 GAP of the width operator: `enum Name : [u]intW` header lines and members named `__value__`
       corrupt_rejected_case_partial             (alias lines, with the column; superseded for the line by the complete theorem above)
       corrupt_rejected_attribute_partial        (first-statement sites, with the column)
       corrupt_rejected_type_name_suffix_partial a character outside [A-Za-z0-9] (not blank, not `=`) and more text appended to the
                                                 type name of an alias; GAP: `enum` / `struct` lines
   * Every site, with line AND column (Cats/SyntaxRejectBodyProofs.v: the lines in front of the site are run through the automaton,
     which gives the state in which the replaced line is delivered; the premise is then about the ONE line parser of that site):
       member_line_replaced_if, member_attribute_line_replaced_if, enum_value_line_replaced_if, top_level_line_replaced_if,
       keyword_line_replaced_if     ANY member line / member attribute line of any struct, ANY value line of any enum, ANY attribute
                                    line / keyword line of any top-level item replaced by a content its line parser rejects:
                                    Error at that line, column of the offending token.
     Operators of the catalogue, at ALL their sites, with the column (the name says which):
       corrupt_rejected_deleted_operand_member / _value / _alias        `deleted-operand`, complete
       corrupt_rejected_width_member / _enum_header / _alias            `width-*`, complete (any text that starts with no width of the grammar)
       corrupt_rejected_type_name_column                                `type-name-lower-case`, `-too-short`, `-all-caps`, complete
       corrupt_rejected_type_name_suffix                                `type-name-with-<character>`, complete
       corrupt_rejected_member_name_suffix                              `member-name-with-<character>`, complete
       corrupt_rejected_const_name_suffix_value / _member               `const-name-with-<character>`, complete
       corrupt_rejected_value_name_lower_case                           `const-name-lower-case` on enum values
       corrupt_rejected_member_name_class                               `member-name-too-short`, `member-name-capitalised`
       corrupt_rejected_unknown_keyword                                 `unknown-keyword`, complete
       corrupt_rejected_attribute_member_column / _declaration_column   `unknown-attribute`, complete
       corrupt_rejected_attribute_arity_member_extra / _member_empty / _declaration_extra / _declaration_empty
                                                                        `attribute-without-arguments` complete; `attribute-with-extra-argument`
                                                                        on attributes that take no arguments
       corrupt_rejected_unknown_transform                               `unknown-transform`, complete
       corrupt_rejected_missing_parenthesis_declaration_attribute / _member_attribute / _member_partial / _alias
                                                                        `deleted-left-parenthesis`; MISSING: members named `__value__`
       corrupt_rejected_missing_closing_parenthesis_declaration_attribute_partial / _member_attribute_partial
                                                                        `deleted-right-parenthesis` on attribute lines with a fixed number of arguments
       corrupt_rejected_condition_operator                              `unknown-condition-operator` (and misspelt operators that start
                                                                        with no operator), complete (_partial: property-named members only)
       corrupt_rejected_operand_member_partial / _value_member / _const_member / _alias
                                                                        `unknown-function`, complete together
       corrupt_rejected_trailing_text_plain_member_partial              `trailing-text` on plain members without condition (any name)
       corrupt_rejected_member_outside_keyword_line / _attribute_line   `member-outside-declaration` inside the head of a declaration
       corrupt_rejected_final_line_end_comment, corrupt_rejected_final_line_end
                                                                        `deleted-final-line-end`, complete (last item a free comment included)
   * Not proved (differential runs only): deleted right parenthesis on the other lines, deleted comma, one more argument in a non-empty argument list, trailing text and
     two statements on one line outside plain members, `const-name-lower-case` on constant members, misspelt condition operators that
     still start with an operator (`inn`), indented top-level lines, over-indented members, a line inserted inside a comment block. *)
From Coq Require Import Lia ZifyBool.
From Symv Require Import Base.Bytes Cats.Ast Cats.Syntax Cats.SyntaxLexProofs Cats.SyntaxProofs Cats.SyntaxRejectProofs Cats.SyntaxRejectBodyProofs Cats.SyntaxRejectEofProofs.
Open Scope Z_scope.

Lemma terminals_ok : terms_ok T_now = true.
Proof. vm_compute. reflexivity. Qed.

Definition document (st : style) (ds : list item) : list Z := text_of (style_cr st) (tlines T_now st ds).
Definition replace_line (st : style) (ds : list item) (k : nat) (c' : list Z) : list Z :=
  text_of (style_cr st) (replace_stmt k c' (tlines T_now st ds)).
Definition insert_line (st : style) (ds : list item) (k : nat) (c' : list Z) : list Z :=
  text_of (style_cr st) (insert_stmt k c' (tlines T_now st ds)).

Theorem document_is_render : forall st ds, document st ds = render st ds.
Proof. intros st ds. symmetry. exact (SyntaxProofs.render_text_of T_now st ds). Qed.
Print Assumptions document_is_render.

(* [core] an error in any logical line is never dropped: once the automaton has stopped at a line, whatever follows is irrelevant *)
Theorem parse_error_propagates : forall st stack ac i l1 j d,
  mrun T_now st stack ac i l1 = MErr j d -> forall l2, machine T_now st stack ac i (l1 ++ l2) = MErr j d.
Proof. exact (SyntaxProofs.machine_error_propagates T_now). Qed.
Print Assumptions parse_error_propagates.

(* [core] parse is total and returns one verdict for the whole text; a successful run has gone through every logical line, so no
   prefix or remainder of a rejected text is ever returned as a successful parse *)
Theorem no_prefix_success : forall st stack ac i ls v,
  machine T_now st stack ac i ls = MOk v -> forall l1 l2, ls = l1 ++ l2 -> exists s, mrun T_now st stack ac i l1 = MOk s.
Proof. exact (SyntaxProofs.machine_success_ran_every_line T_now). Qed.
Print Assumptions no_prefix_success.

Theorem parse_one_verdict : forall text v e, parse text = Ok v -> parse text <> Error e.
Proof. intros text v e H1 H2. rewrite H1 in H2. discriminate. Qed.
Print Assumptions parse_one_verdict.

(* the generic rejection theorem with the two facts about the tree it needs as premises *)
Theorem replaced_statement_rejected_if : forall st ds j it c' s,
  comment_merged T_now = false -> (st_crlf st = true -> in_set (comment_strip T_now) 13 = true) ->
  wf_style st = true -> wf_doc ds = true -> nth_error ds j = Some it -> (forall c, it <> IComment c) ->
  pline_ok (PStmt [] c') = true -> (forall ac, parse_top_line T_now None ac c' = LErr s) ->
  parse (replace_line st ds (site_line T_now st ds j) c')
  = Error {| e_line := 1 + Z.of_nat (site_line T_now st ds j); e_col := 1 + len c' - len s; e_kind := EToken |}.
Proof.
  intros st ds j it c' s Hm Hcr. apply (SyntaxProofs.replaced_statement_rejected T_now terminals_ok Hm).
  unfold cr_ok, style_cr. destruct (st_crlf st); [right; split; [reflexivity|apply Hcr; reflexivity]|left; reflexivity].
Qed.
Print Assumptions replaced_statement_rejected_if.

Definition cr_fact (st : style) : st_crlf st = true -> in_set (comment_strip T_now) 13 = true := fun _ => eq_refl.

(* [core] unsupported integer width: `using Name = uint24` (also int7, uint128) at any alias declaration *)
Theorem corrupt_rejected_width_partial : forall st ds j n i c w,
  In w [[50; 52]; [55]; [49; 50; 56]] ->
  wf_style st = true -> wf_doc ds = true -> nth_error ds j = Some (IDecl (DAlias n (LInt i) c)) ->
  exists pos, parse (replace_line st ds (site_line T_now st ds j) (alias_head T_now n ++ int_prefix T_now i ++ w)) = Error pos
    /\ e_line pos = 1 + Z.of_nat (site_line T_now st ds j) /\ e_col pos = 1 + len (alias_head T_now n).
Proof.
  intros st ds j n i c w Hw Hst Hwf Hn.
  assert (Htype : wf_type T_now n = true).
  { destruct (SyntaxProofs.wf_doc_items T_now ds Hwf) as [Hitems _]. pose proof (SyntaxProofs.wf_nth T_now j ds _ Hitems Hn) as Hit.
    cbn [wf_item wf_decl] in Hit. apply andb_true_iff in Hit as [Hit _]. apply andb_true_iff in Hit as [Hit _]. exact Hit. }
  assert (Hwidth : forallb (fun x => negb (is_prefix x w)) (int_widths T_now) = true /\ plainc w = true).
  { cbn [In] in Hw. destruct Hw as [<-|[<-|[<-|[]]]]; split; vm_compute; reflexivity. }
  destruct Hwidth as [Hwd Hpl].
  eexists. split.
  - apply (replaced_statement_rejected_if st ds j _ _ (int_prefix T_now i ++ w) eq_refl (cr_fact st) Hst Hwf Hn).
    + intros c0 H. discriminate.
    + apply (SyntaxProofs.pline_ok_bad_width T_now terminals_ok n i w Htype Hpl).
    + intro ac. apply (SyntaxProofs.alias_bad_width T_now terminals_ok eq_refl ac n i w Htype Hwd).
  - cbn [e_line e_col]. split; [reflexivity|]. unfold len. rewrite !app_length. lia.
Qed.
Print Assumptions corrupt_rejected_width_partial.

(* [core] wrong case class: the type name of an alias declaration in lower case *)
Theorem corrupt_rejected_case_partial : forall st ds j n l c,
  wf_style st = true -> wf_doc ds = true -> nth_error ds j = Some (IDecl (DAlias n l c)) ->
  let rest := [32; 61; 32] ++ r_linked T_now st l in
  exists pos, parse (replace_line st ds (site_line T_now st ds j) (kw_using T_now ++ [32] ++ lower_first (of_string n) ++ rest)) = Error pos
    /\ e_line pos = 1 + Z.of_nat (site_line T_now st ds j) /\ e_col pos = 2 + len (kw_using T_now).
Proof.
  intros st ds j n l c Hst Hwf Hn rest.
  destruct (SyntaxProofs.wf_doc_items T_now ds Hwf) as [Hitems _]. pose proof (SyntaxProofs.wf_nth T_now j ds _ Hitems Hn) as Hit.
  cbn [wf_item wf_decl] in Hit. apply andb_true_iff in Hit as [Hit Hl]. apply andb_true_iff in Hit as [Htype _].
  assert (Hrest : plainc rest = true).
  { pose proof (SyntaxProofs.stmt_ok_alias T_now terminals_ok st n l Htype Hl) as Hok. cbn [pline_ok] in Hok.
    apply andb_true_iff in Hok as [_ Hok]. unfold r_alias in Hok. rewrite !plainc_app in Hok.
    apply andb_true_iff in Hok as [_ Hok]. apply andb_true_iff in Hok as [_ Hok]. apply andb_true_iff in Hok as [_ Hok].
    subst rest. rewrite plainc_app. exact Hok. }
  eexists. split.
  - apply (replaced_statement_rejected_if st ds j _ _ (lower_first (of_string n) ++ rest) eq_refl (cr_fact st) Hst Hwf Hn).
    + intros c0 H. discriminate.
    + apply (SyntaxProofs.pline_ok_bad_case T_now terminals_ok eq_refl n rest Htype Hrest).
    + intro ac. apply (SyntaxProofs.alias_bad_case T_now terminals_ok eq_refl ac n rest Htype).
  - cbn [e_line e_col]. split; [reflexivity|]. unfold len. rewrite !app_length. cbn [length]. lia.
Qed.
Print Assumptions corrupt_rejected_case_partial.

(* [core] unknown attribute: `@Q...` (no attribute name starts with a capital letter) in place of the first statement line of any
   top-level declaration or import *)
Theorem corrupt_rejected_attribute_partial : forall st ds j it r,
  wf_style st = true -> wf_doc ds = true -> nth_error ds j = Some it -> (forall c, it <> IComment c) -> plainc r = true ->
  exists pos, parse (replace_line st ds (site_line T_now st ds j) (64 :: 81 :: r)) = Error pos
    /\ e_line pos = 1 + Z.of_nat (site_line T_now st ds j) /\ e_col pos = 2.
Proof.
  intros st ds j it r Hst Hwf Hn Hnc Hr. eexists. split.
  - apply (replaced_statement_rejected_if st ds j it _ (81 :: r) eq_refl (cr_fact st) Hst Hwf Hn Hnc).
    + cbn [pline_ok ws_only forallb andb head_stmt plainc]. cbn [plainc forallb] in *. unfold plainc in Hr. rewrite Hr. reflexivity.
    + intro ac. apply (SyntaxProofs.attr_unknown T_now terminals_ok eq_refl ac r).
  - cbn [e_line e_col]. split; [reflexivity|]. unfold len. cbn [length]. lia.
Qed.
Print Assumptions corrupt_rejected_attribute_partial.

(* [core] a member outside any declaration: `zz = uint8` at column 0 in front of any top-level item (or after the last one) *)
Definition member_text : list Z := [122; 122; 32; 61; 32; 117; 105; 110; 116; 56].
Theorem corrupt_rejected_member_outside_partial : forall st ds j,
  wf_style st = true -> wf_doc ds = true -> (j <= length ds)%nat ->
  exists pos, parse (insert_line st ds (length (tlines T_now st (firstn j ds))) member_text) = Error pos
    /\ e_line pos = 1 + Z.of_nat (length (tlines T_now st (firstn j ds))) /\ e_col pos = 1.
Proof.
  intros st ds j Hst Hwf Hj. eexists. split.
  - apply (SyntaxProofs.inserted_member_rejected T_now terminals_ok eq_refl st ds j member_text member_text).
    + unfold cr_ok, style_cr. destruct (st_crlf st); [right; split; reflexivity|left; reflexivity].
    + exact Hst.
    + exact Hwf.
    + exact Hj.
    + vm_compute. reflexivity.
    + intros [|]; vm_compute; reflexivity.
  - cbn [e_line e_col]. split; [reflexivity|]. unfold len. lia.
Qed.
Print Assumptions corrupt_rejected_member_outside_partial.

(* ------------------------------------------------------------------------------------------------------------------ *)
(* any statement line *)

(* the generic theorem: statement line k (0-based physical line of the rendered document, anywhere: top level, struct body,
   enum body) replaced by a content that is rejected in every state of the automaton in which the original line is accepted *)
Theorem statement_line_replaced_if : forall st ds k ind c c',
  comment_merged T_now = false -> (st_crlf st = true -> in_set (comment_strip T_now) 13 = true) ->
  wf_style st = true -> wf_doc ds = true ->
  nth_error (tlines T_now st ds) k = Some (PStmt ind c) -> pline_ok (PStmt ind c') = true ->
  (forall S ac u, on_stmt T_now S ac c = SOk u -> exists n, on_stmt T_now S ac c' = SErr (DStmt n)) ->
  exists pos, parse (replace_line st ds k c') = Error pos /\ e_line pos = 1 + Z.of_nat k.
Proof. intros st ds k ind c c' Hm. exact (SyntaxRejectProofs.statement_line_replaced T_now terminals_ok Hm st ds k ind c c'). Qed.
Print Assumptions statement_line_replaced_if.

(* [core] unknown attribute, complete: `@Q...` in place of ANY statement line of the document *)
Theorem corrupt_rejected_attribute : forall st ds k ind c r,
  wf_style st = true -> wf_doc ds = true -> nth_error (tlines T_now st ds) k = Some (PStmt ind c) -> plainc r = true ->
  exists pos, parse (replace_line st ds k (64 :: 81 :: r)) = Error pos /\ e_line pos = 1 + Z.of_nat k.
Proof.
  intros st ds k ind c r Hst Hwf Hn Hr.
  assert (Hind : ws_only ind = true).
  { destruct (SyntaxProofs.wf_doc_items T_now ds Hwf) as [Hitems _]. pose proof (SyntaxProofs.tlines_ok T_now terminals_ok st ds Hst Hitems) as Hall.
    rewrite forallb_forall in Hall. specialize (Hall _ (nth_error_In _ _ Hn)). cbn [pline_ok] in Hall.
    apply andb_true_iff in Hall as [Hall _]. apply andb_true_iff in Hall as [Hall _]. exact Hall. }
  apply (statement_line_replaced_if st ds k ind c (64 :: 81 :: r) eq_refl (cr_fact st) Hst Hwf Hn).
  - cbn [pline_ok head_stmt]. rewrite Hind. cbn [plainc forallb] in *. unfold plainc in Hr. rewrite Hr. reflexivity.
  - intros S ac u _. apply (SyntaxRejectProofs.unknown_attribute_rejected_everywhere T_now terminals_ok eq_refl r).
Qed.
Print Assumptions corrupt_rejected_attribute.

(* [core] unsupported width on ANY member line `name = [u]intW` (struct bodies; any position) *)
Theorem corrupt_rejected_width_member_partial : forall st ds k ind n i w,
  In w [[50; 52]; [55]; [49; 50; 56]] ->
  wf_style st = true -> wf_doc ds = true -> wf_prop T_now n = true ->
  nth_error (tlines T_now st ds) k = Some (PStmt ind (of_string n ++ [32; 61; 32] ++ r_int T_now i)) ->
  exists pos, parse (replace_line st ds k (of_string n ++ [32; 61; 32] ++ int_prefix T_now i ++ w)) = Error pos
    /\ e_line pos = 1 + Z.of_nat k.
Proof.
  intros st ds k ind n i w Hw Hst Hwf Hn Hnth.
  assert (Hind : ws_only ind = true).
  { destruct (SyntaxProofs.wf_doc_items T_now ds Hwf) as [Hitems _]. pose proof (SyntaxProofs.tlines_ok T_now terminals_ok st ds Hst Hitems) as Hall.
    rewrite forallb_forall in Hall. specialize (Hall _ (nth_error_In _ _ Hnth)). cbn [pline_ok] in Hall.
    apply andb_true_iff in Hall as [Hall _]. apply andb_true_iff in Hall as [Hall _]. exact Hall. }
  assert (Hwidth : forallb (fun x => negb (is_prefix x w)) (int_widths T_now) = true /\ plainc w = true /\ no_up_quote w = true).
  { cbn [In] in Hw. destruct Hw as [<-|[<-|[<-|[]]]]; repeat split; vm_compute; reflexivity. }
  destruct Hwidth as [Hwd [Hpl Hnu]].
  apply (statement_line_replaced_if st ds k ind _ _ eq_refl (cr_fact st) Hst Hwf Hnth).
  - apply (SyntaxRejectProofs.pline_ok_width_member T_now terminals_ok w ind n i Hind Hn Hpl).
  - intros S ac u _. apply (SyntaxRejectProofs.width_member_rejected_everywhere T_now terminals_ok eq_refl w Hwd n i Hn Hnu).
Qed.
Print Assumptions corrupt_rejected_width_member_partial.

(* [core] wrong case class, complete for `type-name-lower-case`: the type name in lower case on ANY `using Name ...`,
   `enum Name ...` or `[inline |abstract ]struct Name` line of the document (`rest` = what follows the name on the line) *)
Theorem corrupt_rejected_type_name_lower_case : forall st ds k form n rest,
  wf_style st = true -> wf_doc ds = true -> wf_type T_now n = true -> plainc rest = true ->
  nth_error (tlines T_now st ds) k = Some (PStmt [] (type_line_head T_now form ++ [32] ++ of_string n ++ rest)) ->
  exists pos, parse (replace_line st ds k (type_line_head T_now form ++ [32] ++ lower_name n ++ rest)) = Error pos
    /\ e_line pos = 1 + Z.of_nat k.
Proof.
  intros st ds k form n rest Hst Hwf Hn Hr Hnth.
  apply (statement_line_replaced_if st ds k [] _ _ eq_refl (cr_fact st) Hst Hwf Hnth).
  - apply (SyntaxRejectProofs.pline_ok_lower_type T_now terminals_ok eq_refl form n rest Hn Hr).
  - intros S ac u _. apply (SyntaxRejectProofs.lower_type_name_rejected_everywhere T_now terminals_ok eq_refl form n rest Hn).
Qed.
Print Assumptions corrupt_rejected_type_name_lower_case.

(* ------------------------------------------------------------------------------------------------------------------ *)
(* the final line end *)

(* [core] the document with its final line end deleted (all trailing CR / LF characters removed) is rejected at the end of the
   text; the error line is that of the last statement line.  GAP: documents whose last item is a free comment. *)
Theorem corrupt_rejected_final_line_end_partial : forall st ds0 it,
  wf_style st = true -> wf_doc (ds0 ++ [it]) = true -> (forall c, it <> IComment c) ->
  exists tl0 ind c n, tlines T_now st (ds0 ++ [it]) = tl0 ++ PStmt ind c :: blanks n
    /\ parse (delete_final_line_end (render st (ds0 ++ [it])))
       = Error {| e_line := 1 + Z.of_nat (length tl0); e_col := 0; e_kind := EEnd |}.
Proof.
  intros st ds0 it Hst Hwf Hnc.
  exact (SyntaxRejectProofs.final_line_end_rejected T_now terminals_ok st ds0 it eq_refl (cr_fact st) Hst Hwf Hnc).
Qed.
Print Assumptions corrupt_rejected_final_line_end_partial.

(* ------------------------------------------------------------------------------------------------------------------ *)
(* a struct without members *)

(* the rendered document without the member lines of the struct at position |pre| (and without the blank lines after them) *)
Definition struct_body_deleted (st : style) (pre : list item) (s : struct) (post : list item) : list Z :=
  text_of (style_cr st)
    (delete_lines (length (tlines T_now st pre ++ struct_head_lines T_now st s) + 1) (length (struct_body_lines T_now st s))
       (tlines T_now st (pre ++ IDecl (DStruct s) :: post))).

(* [core] complete for `struct-without-members`: for ANY struct of the document the text without its member lines is rejected;
   the error line is the line that follows the header (the next statement or comment), or the header line when nothing follows *)
Theorem corrupt_rejected_struct_without_members : forall st pre s post,
  wf_style st = true -> wf_doc (pre ++ IDecl (DStruct s) :: post) = true ->
  exists pos, parse (struct_body_deleted st pre s post) = Error pos
    /\ e_line pos = 1 + Z.of_nat (length (tlines T_now st pre ++ struct_head_lines T_now st s)) + match post with [] => 0 | _ => 1 end.
Proof.
  intros st pre s post Hst Hwf. unfold struct_body_deleted.
  rewrite (SyntaxRejectProofs.tlines_struct T_now st pre s post), (SyntaxRejectProofs.delete_lines_at T_now terminals_ok eq_refl).
  assert (Hcr : cr_ok T_now (style_cr st)).
  { unfold cr_ok, style_cr. destruct (st_crlf st); [right; split; reflexivity|left; reflexivity]. }
  destruct (SyntaxRejectProofs.struct_without_members_rejected T_now terminals_ok eq_refl st Hst Hcr pre s post Hwf) as [pos [E HL]].
  exists pos. unfold struct_head_lines. split; [exact E|exact HL].
Qed.
Print Assumptions corrupt_rejected_struct_without_members.

(* ------------------------------------------------------------------------------------------------------------------ *)
(* a type name followed by a character outside its class *)

(* [core] `using Name<ch>... = ...` where ch is not a letter or digit (e.g. `_`, `^`, `[`, `-`, `.`), not a blank and not `=`:
   the name token ends before ch and `=` is expected there; error at the column of ch.  GAP: `enum` / `struct` lines. *)
Theorem corrupt_rejected_type_name_suffix_partial : forall st ds j n l c ch tail,
  wf_style st = true -> wf_doc ds = true -> nth_error ds j = Some (IDecl (DAlias n l c)) ->
  type_rest ch = false -> is_ws ch = false -> ch <> 61 -> plainc (ch :: tail) = true ->
  exists pos, parse (replace_line st ds (site_line T_now st ds j) (kw_using T_now ++ [32] ++ of_string n ++ ch :: tail)) = Error pos
    /\ e_line pos = 1 + Z.of_nat (site_line T_now st ds j) /\ e_col pos = 2 + len (kw_using T_now) + len (of_string n).
Proof.
  intros st ds j n l c ch tail Hst Hwf Hn Hch Hws H61 Hp.
  destruct (SyntaxProofs.wf_doc_items T_now ds Hwf) as [Hitems _]. pose proof (SyntaxProofs.wf_nth T_now j ds _ Hitems Hn) as Hit.
  cbn [wf_item wf_decl] in Hit. apply andb_true_iff in Hit as [Hit _]. apply andb_true_iff in Hit as [Htype _].
  eexists. split.
  - apply (replaced_statement_rejected_if st ds j _ _ (ch :: tail) eq_refl (cr_fact st) Hst Hwf Hn).
    + intros c0 H. discriminate.
    + apply (SyntaxRejectProofs.pline_ok_name_suffix T_now terminals_ok n ch tail Htype Hp).
    + intro ac. apply (SyntaxRejectProofs.alias_name_suffix T_now terminals_ok eq_refl ac n ch tail Htype Hch Hws H61).
  - cbn [e_line e_col]. split; [reflexivity|]. unfold len. rewrite !app_length. cbn [length]. lia.
Qed.
Print Assumptions corrupt_rejected_type_name_suffix_partial.

(* ------------------------------------------------------------------------------------------------------------------ *)
(* every site, with the line AND the column: the line parser of the site *)

(* The sites are addressed structurally: the document is pre ++ declaration :: post, the member is f in s_fields s = fs1 ++ f :: fs2
   (the value is v in vals = vs1 ++ v :: vs2, the attribute is a in as1 ++ a :: as2); the theorems give the 0-based physical line k of
   the site as a function of these (member_line, member_attr_line, value_line, length (top_prefix ...)) together with the fact that
   line k of the rendered document IS the line of the member / attribute / value. *)
Lemma cr_now st : cr_ok T_now (style_cr st).
Proof. unfold cr_ok, style_cr. destruct (st_crlf st); [right; split; reflexivity|left; reflexivity]. Qed.

(* [core] the line of ANY member (at any position of any struct) replaced by a content that the member-line parser rejects *)
Theorem member_line_replaced_if : forall st pre s post fs1 f fs2 c' sfx,
  wf_style st = true -> wf_doc (pre ++ IDecl (DStruct s) :: post) = true -> s_fields s = fs1 ++ f :: fs2 ->
  pline_ok (PStmt (st_indent st) c') = true -> (forall ac, parse_member_line T_now (has_attrs f) ac c' = LErr sfx) ->
  let ds := pre ++ IDecl (DStruct s) :: post in let k := member_line T_now st pre s fs1 f in
  nth_error (tlines T_now st ds) k = Some (PStmt (st_indent st) (r_field T_now st f))
  /\ parse (replace_line st ds k c')
     = Error {| e_line := 1 + Z.of_nat k; e_col := len (st_indent st) + 1 + len c' - len sfx; e_kind := EToken |}.
Proof.
  intros st pre s post fs1 f fs2 c' sfx Hst.
  exact (SyntaxRejectBodyProofs.member_line_replaced T_now terminals_ok eq_refl st Hst (cr_now st) pre s post fs1 f fs2 c' sfx).
Qed.
Print Assumptions member_line_replaced_if.

(* [core] ANY attribute line of ANY member replaced (pending as1: attribute lines of the same member precede) *)
Theorem member_attribute_line_replaced_if : forall st pre s post fs1 f fs2 as1 a as2 c' sfx,
  wf_style st = true -> wf_doc (pre ++ IDecl (DStruct s) :: post) = true -> s_fields s = fs1 ++ f :: fs2 ->
  field_attrs f = Some (as1 ++ a :: as2) ->
  pline_ok (PStmt (st_indent st) c') = true -> (forall ac, parse_member_line T_now (pending as1) ac c' = LErr sfx) ->
  let ds := pre ++ IDecl (DStruct s) :: post in let k := member_attr_line T_now st pre s fs1 f as1 in
  nth_error (tlines T_now st ds) k = Some (PStmt (st_indent st) (r_attr T_now st CField a))
  /\ parse (replace_line st ds k c')
     = Error {| e_line := 1 + Z.of_nat k; e_col := len (st_indent st) + 1 + len c' - len sfx; e_kind := EToken |}.
Proof.
  intros st pre s post fs1 f fs2 as1 a as2 c' sfx Hst.
  exact (SyntaxRejectBodyProofs.member_attr_line_replaced T_now terminals_ok eq_refl st Hst (cr_now st) pre s post fs1 f fs2 as1 a as2 c' sfx).
Qed.
Print Assumptions member_attribute_line_replaced_if.

(* [core] the line of ANY value (at any position of any enum) replaced by a content that the value-line parser rejects *)
Theorem enum_value_line_replaced_if : forall st pre n b vals attrs c post vs1 v vs2 c' sfx,
  wf_style st = true -> wf_doc (pre ++ IDecl (DEnum n b vals attrs c) :: post) = true -> vals = vs1 ++ v :: vs2 ->
  pline_ok (PStmt (st_indent st) c') = true -> parse_enum_line T_now c' = LErr sfx ->
  let ds := pre ++ IDecl (DEnum n b vals attrs c) :: post in let k := value_line T_now st pre n b attrs c vs1 v in
  nth_error (tlines T_now st ds) k = Some (PStmt (st_indent st) (r_value T_now st v))
  /\ parse (replace_line st ds k c')
     = Error {| e_line := 1 + Z.of_nat k; e_col := len (st_indent st) + 1 + len c' - len sfx; e_kind := EToken |}.
Proof.
  intros st pre n b vals attrs c post vs1 v vs2 c' sfx Hst.
  exact (SyntaxRejectBodyProofs.value_line_replaced T_now terminals_ok eq_refl st Hst (cr_now st) pre n b vals attrs c post vs1 v vs2 c' sfx).
Qed.
Print Assumptions enum_value_line_replaced_if.

(* [core] ANY top-level statement line replaced: the lines of the item are its comment, attribute lines as1 (of an enum: ctx = CEnum,
   of a struct: ctx = CStruct), the line, and more; the parser is the top-level one in the state after as1 *)
Theorem top_level_line_replaced_if : forall st pre it post cmt ctx as1 c rest0 c' sfx,
  wf_style st = true -> wf_doc (pre ++ it :: post) = true -> ctx <> CField ->
  item_tlines T_now st it = comment_tlines [] cmt ++ map (PStmt []) (map (r_attr T_now st ctx) as1) ++ PStmt [] c :: rest0 ->
  wf_comment T_now cmt = true -> forallb (wf_attr T_now ctx) as1 = true ->
  pline_ok (PStmt [] c') = true -> (forall ac, parse_top_line T_now (pa_ctx (pa_of ctx as1)) ac c' = LErr sfx) ->
  let ds := pre ++ it :: post in let k := length (top_prefix T_now st pre cmt ctx as1) in
  nth_error (tlines T_now st ds) k = Some (PStmt [] c)
  /\ parse (replace_line st ds k c') = Error {| e_line := 1 + Z.of_nat k; e_col := 1 + len c' - len sfx; e_kind := EToken |}.
Proof.
  intros st pre it post cmt ctx as1 c rest0 c' sfx Hst.
  exact (SyntaxRejectBodyProofs.top_line_replaced T_now terminals_ok eq_refl st Hst (cr_now st) pre it post cmt ctx as1 c rest0 c' sfx).
Qed.
Print Assumptions top_level_line_replaced_if.

(* ------------------------------------------------------------------------------------------------------------------ *)
(* operators of the catalogue at ALL their sites, with line and column *)

(* [core] `deleted-operand`, complete: the line of ANY member `name = ...` of any struct, of ANY value of any enum, of ANY alias, cut
   after the `=`; the error is at the end of the line *)
Theorem corrupt_rejected_deleted_operand_member : forall st pre s post fs1 f fs2 n,
  wf_style st = true -> wf_doc (pre ++ IDecl (DStruct s) :: post) = true -> s_fields s = fs1 ++ f :: fs2 -> field_name f = Some n ->
  let ds := pre ++ IDecl (DStruct s) :: post in let k := member_line T_now st pre s fs1 f in let c' := of_string n ++ [32; 61] in
  nth_error (tlines T_now st ds) k = Some (PStmt (st_indent st) (r_field T_now st f))
  /\ parse (replace_line st ds k c') = Error {| e_line := 1 + Z.of_nat k; e_col := len (st_indent st) + 1 + len c'; e_kind := EToken |}.
Proof.
  intros st pre s post fs1 f fs2 n Hst.
  exact (SyntaxRejectBodyProofs.member_deleted_operand_doc T_now terminals_ok eq_refl st Hst (cr_now st) pre s post fs1 f fs2 n).
Qed.
Print Assumptions corrupt_rejected_deleted_operand_member.

Theorem corrupt_rejected_deleted_operand_value : forall st pre n b vals attrs c post vs1 v vs2,
  wf_style st = true -> wf_doc (pre ++ IDecl (DEnum n b vals attrs c) :: post) = true -> vals = vs1 ++ v :: vs2 ->
  let ds := pre ++ IDecl (DEnum n b vals attrs c) :: post in let k := value_line T_now st pre n b attrs c vs1 v in
  let c' := of_string (ev_name v) ++ [32; 61] in
  nth_error (tlines T_now st ds) k = Some (PStmt (st_indent st) (r_value T_now st v))
  /\ parse (replace_line st ds k c') = Error {| e_line := 1 + Z.of_nat k; e_col := len (st_indent st) + 1 + len c'; e_kind := EToken |}.
Proof.
  intros st pre n b vals attrs c post vs1 v vs2 Hst.
  exact (SyntaxRejectBodyProofs.value_deleted_operand_doc T_now terminals_ok eq_refl st Hst (cr_now st) pre n b vals attrs c post vs1 v vs2).
Qed.
Print Assumptions corrupt_rejected_deleted_operand_value.

Theorem corrupt_rejected_deleted_operand_alias : forall st pre n l c post,
  wf_style st = true -> wf_doc (pre ++ IDecl (DAlias n l c) :: post) = true ->
  let ds := pre ++ IDecl (DAlias n l c) :: post in let k := keyword_line T_now st pre (IDecl (DAlias n l c)) in
  let c' := kw_using T_now ++ [32] ++ of_string n ++ [32; 61] in
  nth_error (tlines T_now st ds) k = Some (PStmt [] (r_alias T_now st n l))
  /\ parse (replace_line st ds k c') = Error {| e_line := 1 + Z.of_nat k; e_col := 1 + len c'; e_kind := EToken |}.
Proof.
  intros st pre n l c post Hst.
  exact (SyntaxRejectBodyProofs.alias_deleted_operand_doc T_now terminals_ok eq_refl st Hst (cr_now st) pre n l c post).
Qed.
Print Assumptions corrupt_rejected_deleted_operand_alias.

(* [core] `const-name-lower-case` on enum bodies, complete (and more): any content that starts with a lower-case letter in place of
   ANY value line of ANY enum; the error is at the first character of the line *)
Theorem corrupt_rejected_value_name_lower_case : forall st pre n b vals attrs c post vs1 v vs2 c' h,
  wf_style st = true -> wf_doc (pre ++ IDecl (DEnum n b vals attrs c) :: post) = true -> vals = vs1 ++ v :: vs2 ->
  head_is h c' = true -> is_lower h = true -> plainc c' = true ->
  let ds := pre ++ IDecl (DEnum n b vals attrs c) :: post in let k := value_line T_now st pre n b attrs c vs1 v in
  nth_error (tlines T_now st ds) k = Some (PStmt (st_indent st) (r_value T_now st v))
  /\ parse (replace_line st ds k c') = Error {| e_line := 1 + Z.of_nat k; e_col := len (st_indent st) + 1; e_kind := EToken |}.
Proof.
  intros st pre n b vals attrs c post vs1 v vs2 c' h Hst.
  exact (SyntaxRejectBodyProofs.value_lower_case_doc T_now terminals_ok eq_refl st Hst (cr_now st) pre n b vals attrs c post vs1 v vs2 c' h).
Qed.
Print Assumptions corrupt_rejected_value_name_lower_case.

(* [core] `width-*`, complete, with the column: the sites of the operator are the lines that END with an integer type, i.e. members
   `name = [u]intW` (also `__value__ = [u]intW`) of any struct, the header `enum Name : [u]intW` of any enum and the line
   `using Name = [u]intW` of any alias (this closes the gaps of corrupt_rejected_width_partial / _width_member_partial); wd is any text
   that does not start with a width of the grammar (24, 7, 128, 12, 17, 33, 65, 9, 15, 08, 0, 1, 63, 016 of the catalogue) *)
Theorem corrupt_rejected_width_member : forall st wd pre s post fs1 n i attrs c fs2,
  forallb (fun x => negb (is_prefix x wd)) (int_widths T_now) = true -> plainc wd = true ->
  wf_style st = true -> wf_doc (pre ++ IDecl (DStruct s) :: post) = true -> s_fields s = fs1 ++ Field n (FInt i) VNone DispNone attrs c :: fs2 ->
  let f := Field n (FInt i) VNone DispNone attrs c in
  let ds := pre ++ IDecl (DStruct s) :: post in let k := member_line T_now st pre s fs1 f in
  nth_error (tlines T_now st ds) k = Some (PStmt (st_indent st) (r_field T_now st f))
  /\ parse (replace_line st ds k (of_string n ++ [32; 61; 32] ++ int_prefix T_now i ++ wd))
     = Error {| e_line := 1 + Z.of_nat k; e_col := len (st_indent st) + 1 + len (of_string n) + 3; e_kind := EToken |}.
Proof.
  intros st wd pre s post fs1 n i attrs c fs2 Hw Hp Hst.
  exact (SyntaxRejectBodyProofs.member_width_doc T_now terminals_ok eq_refl st Hst (cr_now st) wd pre s post fs1 n i attrs c fs2 Hw Hp).
Qed.
Print Assumptions corrupt_rejected_width_member.

Theorem corrupt_rejected_width_enum_header : forall st wd pre n b vals attrs c post,
  forallb (fun x => negb (is_prefix x wd)) (int_widths T_now) = true -> plainc wd = true ->
  wf_style st = true -> wf_doc (pre ++ IDecl (DEnum n b vals attrs c) :: post) = true ->
  let ds := pre ++ IDecl (DEnum n b vals attrs c) :: post in let k := length (top_prefix T_now st pre c CEnum (attrs_list attrs)) in
  let head := kw_enum T_now ++ [32] ++ of_string n ++ [32; 58; 32] in
  nth_error (tlines T_now st ds) k = Some (PStmt [] (r_enum_header T_now n b))
  /\ parse (replace_line st ds k (head ++ int_prefix T_now b ++ wd)) = Error {| e_line := 1 + Z.of_nat k; e_col := 1 + len head; e_kind := EToken |}.
Proof.
  intros st wd pre n b vals attrs c post Hw Hp Hst.
  exact (SyntaxRejectBodyProofs.enum_header_width_doc T_now terminals_ok eq_refl st Hst (cr_now st) wd pre n b vals attrs c post Hw Hp).
Qed.
Print Assumptions corrupt_rejected_width_enum_header.

(* [core] `unknown-condition-operator` (and `...-misspelt` / `...-words-run-together` whenever the new text starts with no operator of
   the grammar): on ANY member `name = type if VALUE operator link` whose name is a property name, `bad` in place of `operator link`;
   error at the column of `bad`.  MISSING: members named `__value__`. *)
Theorem corrupt_rejected_condition_operator_partial : forall st bad pre s post fs1 n ty cnd attrs c fs2,
  first_prefix (cond_ops T_now) bad = None -> stops is_ws bad = true -> plainc bad = true -> wf_prop T_now n = true ->
  wf_style st = true -> wf_doc (pre ++ IDecl (DStruct s) :: post) = true -> s_fields s = fs1 ++ Field n ty (VCond cnd) DispNone attrs c :: fs2 ->
  let f := Field n ty (VCond cnd) DispNone attrs c in
  let ds := pre ++ IDecl (DStruct s) :: post in let k := member_line T_now st pre s fs1 f in
  let head := of_string n ++ [32; 61; 32] ++ r_ftype T_now st ty ++ [32] ++ kw_if T_now ++ [32] ++ cv_text T_now st (c_value cnd) ++ [32] in
  nth_error (tlines T_now st ds) k = Some (PStmt (st_indent st) (r_field T_now st f))
  /\ parse (replace_line st ds k (head ++ bad)) = Error {| e_line := 1 + Z.of_nat k; e_col := len (st_indent st) + 1 + len head; e_kind := EToken |}.
Proof.
  intros st bad pre s post fs1 n ty cnd attrs c fs2 Hb Hws Hp Hn Hst.
  exact (SyntaxRejectBodyProofs.member_condition_operator_doc T_now terminals_ok eq_refl st Hst (cr_now st) bad pre s post fs1 n ty cnd attrs c fs2 Hb Hws Hp Hn).
Qed.
Print Assumptions corrupt_rejected_condition_operator_partial.

(* [core] `trailing-text` on ANY plain member without condition whose name is a property name: `name = type X`, error at X.
   MISSING: the other forms of members and the other kinds of lines. *)
Theorem corrupt_rejected_trailing_text_member_partial : forall st X pre s post fs1 n ty attrs c fs2,
  strip_prefix (kw_if T_now) X = None -> stops is_ws X = true -> X <> [] -> plainc X = true -> wf_prop T_now n = true ->
  wf_style st = true -> wf_doc (pre ++ IDecl (DStruct s) :: post) = true -> s_fields s = fs1 ++ Field n ty VNone DispNone attrs c :: fs2 ->
  let f := Field n ty VNone DispNone attrs c in
  let ds := pre ++ IDecl (DStruct s) :: post in let k := member_line T_now st pre s fs1 f in
  let head := of_string n ++ [32; 61; 32] ++ r_ftype T_now st ty ++ [32] in
  nth_error (tlines T_now st ds) k = Some (PStmt (st_indent st) (r_field T_now st f))
  /\ parse (replace_line st ds k (head ++ X)) = Error {| e_line := 1 + Z.of_nat k; e_col := len (st_indent st) + 1 + len head; e_kind := EToken |}.
Proof.
  intros st X pre s post fs1 n ty attrs c fs2 Hif Hws Hne Hp Hn Hst.
  exact (SyntaxRejectBodyProofs.member_trailing_text_doc T_now terminals_ok eq_refl st Hst (cr_now st) X pre s post fs1 n ty attrs c fs2 Hif Hws Hne Hp Hn).
Qed.
Print Assumptions corrupt_rejected_trailing_text_member_partial.

(* [core] `unknown-attribute` with the column, complete: `@r` with r starting with no attribute name acceptable at the site, in place of
   ANY attribute line of ANY member, enum or struct (r = zzq... of the catalogue: unknown_attribute_word below) *)
Theorem corrupt_rejected_attribute_member_column : forall st r pre s post fs1 f fs2 as1 a as2,
  find_attr (attr_tables T_now (Some CField)) r = None -> stops is_ws r = true -> plainc r = true ->
  wf_style st = true -> wf_doc (pre ++ IDecl (DStruct s) :: post) = true -> s_fields s = fs1 ++ f :: fs2 -> field_attrs f = Some (as1 ++ a :: as2) ->
  let ds := pre ++ IDecl (DStruct s) :: post in let k := member_attr_line T_now st pre s fs1 f as1 in
  nth_error (tlines T_now st ds) k = Some (PStmt (st_indent st) (r_attr T_now st CField a))
  /\ parse (replace_line st ds k (64 :: r)) = Error {| e_line := 1 + Z.of_nat k; e_col := len (st_indent st) + 2; e_kind := EToken |}.
Proof.
  intros st r pre s post fs1 f fs2 as1 a as2 Hf Hws Hp Hst.
  exact (SyntaxRejectBodyProofs.member_attribute_unknown_doc T_now terminals_ok eq_refl st Hst (cr_now st) r pre s post fs1 f fs2 as1 a as2 Hf Hws Hp).
Qed.
Print Assumptions corrupt_rejected_attribute_member_column.

Theorem corrupt_rejected_attribute_declaration_column : forall st r pre it post as1 a as2,
  find_attr (attr_tables T_now (pa_ctx (pa_of (item_ctx it) as1))) r = None -> stops is_ws r = true -> plainc r = true ->
  wf_style st = true -> wf_doc (pre ++ it :: post) = true -> item_attr_list it = as1 ++ a :: as2 ->
  let ds := pre ++ it :: post in let k := attribute_line T_now st pre it as1 in
  nth_error (tlines T_now st ds) k = Some (PStmt [] (r_attr T_now st (item_ctx it) a))
  /\ parse (replace_line st ds k (64 :: r)) = Error {| e_line := 1 + Z.of_nat k; e_col := 2; e_kind := EToken |}.
Proof.
  intros st r pre it post as1 a as2 Hf Hws Hp Hst.
  exact (SyntaxRejectBodyProofs.decl_attribute_unknown_doc T_now terminals_ok eq_refl st Hst (cr_now st) r pre it post as1 a as2 Hf Hws Hp).
Qed.
Print Assumptions corrupt_rejected_attribute_declaration_column.

Theorem unknown_attribute_word : forall ctx rest, find_attr (attr_tables T_now ctx) (122 :: 122 :: 113 :: rest) = None.
Proof. intros [[| |]|] rest; vm_compute; reflexivity. Qed.
Print Assumptions unknown_attribute_word.

(* [core] wrong attribute arity, complete for `attribute-with-extra-argument` on attributes without arguments and for
   `attribute-without-arguments`: on ANY attribute line of ANY member, enum or struct
     - an argument list `(X` after an attribute that takes no arguments: error at the parenthesis;
     - the empty argument list `()` after an attribute that takes arguments: error at the closing parenthesis.
   MISSING for `attribute-with-extra-argument`: one more argument in a non-empty argument list. *)
Theorem corrupt_rejected_attribute_arity_member_extra : forall st X pre s post fs1 f fs2 as1 a as2,
  attr_kind T_now CField (of_string (at_name a)) = Some AkZero -> plainc X = true ->
  wf_style st = true -> wf_doc (pre ++ IDecl (DStruct s) :: post) = true -> s_fields s = fs1 ++ f :: fs2 -> field_attrs f = Some (as1 ++ a :: as2) ->
  let ds := pre ++ IDecl (DStruct s) :: post in let k := member_attr_line T_now st pre s fs1 f as1 in
  nth_error (tlines T_now st ds) k = Some (PStmt (st_indent st) (r_attr T_now st CField a))
  /\ parse (replace_line st ds k (64 :: of_string (at_name a) ++ 40 :: X))
     = Error {| e_line := 1 + Z.of_nat k; e_col := len (st_indent st) + 2 + len (of_string (at_name a)); e_kind := EToken |}.
Proof.
  intros st X pre s post fs1 f fs2 as1 a as2 Hk Hp Hst.
  exact (SyntaxRejectBodyProofs.member_attribute_arity_doc T_now terminals_ok eq_refl st Hst (cr_now st) X pre s post fs1 f fs2 as1 a as2 Hk Hp).
Qed.
Print Assumptions corrupt_rejected_attribute_arity_member_extra.

Theorem corrupt_rejected_attribute_arity_member_empty : forall st pre s post fs1 f fs2 as1 a as2 k0,
  attr_kind T_now CField (of_string (at_name a)) = Some k0 -> k0 <> AkZero ->
  wf_style st = true -> wf_doc (pre ++ IDecl (DStruct s) :: post) = true -> s_fields s = fs1 ++ f :: fs2 -> field_attrs f = Some (as1 ++ a :: as2) ->
  let ds := pre ++ IDecl (DStruct s) :: post in let k := member_attr_line T_now st pre s fs1 f as1 in
  nth_error (tlines T_now st ds) k = Some (PStmt (st_indent st) (r_attr T_now st CField a))
  /\ parse (replace_line st ds k (64 :: of_string (at_name a) ++ [40; 41]))
     = Error {| e_line := 1 + Z.of_nat k; e_col := len (st_indent st) + 3 + len (of_string (at_name a)); e_kind := EToken |}.
Proof.
  intros st pre s post fs1 f fs2 as1 a as2 k0 Hk Hz Hst.
  exact (SyntaxRejectBodyProofs.member_attribute_no_args_doc T_now terminals_ok eq_refl st Hst (cr_now st) pre s post fs1 f fs2 as1 a as2 k0 Hk Hz).
Qed.
Print Assumptions corrupt_rejected_attribute_arity_member_empty.

Theorem corrupt_rejected_attribute_arity_declaration_extra : forall st X pre it post as1 a as2,
  wf_style st = true -> wf_doc (pre ++ it :: post) = true -> item_attr_list it = as1 ++ a :: as2 ->
  attr_kind T_now (item_ctx it) (of_string (at_name a)) = Some AkZero -> plainc X = true ->
  let ds := pre ++ it :: post in let k := attribute_line T_now st pre it as1 in
  nth_error (tlines T_now st ds) k = Some (PStmt [] (r_attr T_now st (item_ctx it) a))
  /\ parse (replace_line st ds k (64 :: of_string (at_name a) ++ 40 :: X))
     = Error {| e_line := 1 + Z.of_nat k; e_col := 2 + len (of_string (at_name a)); e_kind := EToken |}.
Proof.
  intros st X pre it post as1 a as2 Hst.
  exact (SyntaxRejectBodyProofs.decl_attribute_extra_args_doc T_now terminals_ok eq_refl st Hst (cr_now st) X pre it post as1 a as2).
Qed.
Print Assumptions corrupt_rejected_attribute_arity_declaration_extra.

Theorem corrupt_rejected_attribute_arity_declaration_empty : forall st pre it post as1 a as2 k0,
  wf_style st = true -> wf_doc (pre ++ it :: post) = true -> item_attr_list it = as1 ++ a :: as2 ->
  attr_kind T_now (item_ctx it) (of_string (at_name a)) = Some k0 -> k0 <> AkZero ->
  let ds := pre ++ it :: post in let k := attribute_line T_now st pre it as1 in
  nth_error (tlines T_now st ds) k = Some (PStmt [] (r_attr T_now st (item_ctx it) a))
  /\ parse (replace_line st ds k (64 :: of_string (at_name a) ++ [40; 41]))
     = Error {| e_line := 1 + Z.of_nat k; e_col := 3 + len (of_string (at_name a)); e_kind := EToken |}.
Proof.
  intros st pre it post as1 a as2 k0 Hst.
  exact (SyntaxRejectBodyProofs.decl_attribute_no_args_doc T_now terminals_ok eq_refl st Hst (cr_now st) pre it post as1 a as2 k0).
Qed.
Print Assumptions corrupt_rejected_attribute_arity_declaration_empty.

(* [core] the keyword line (`using ...`, `import ...`, `enum ...`, `[modifier] struct ...`; also after attribute lines) of ANY item
   replaced by a content the top-level parser rejects in the state of that line: generic, with line and column *)
Theorem keyword_line_replaced_if : forall st pre it post c' sfx,
  wf_style st = true -> wf_doc (pre ++ it :: post) = true -> (forall c, it <> IComment c) -> pline_ok (PStmt [] c') = true ->
  (forall ac, parse_top_line T_now (pa_ctx (pa_of (item_ctx it) (item_attr_list it))) ac c' = LErr sfx) ->
  let ds := pre ++ it :: post in let k := keyword_line T_now st pre it in
  nth_error (tlines T_now st ds) k = Some (PStmt [] (keyword_text T_now st it))
  /\ parse (replace_line st ds k c') = Error {| e_line := 1 + Z.of_nat k; e_col := 1 + len c' - len sfx; e_kind := EToken |}.
Proof.
  intros st pre it post c' sfx Hst.
  exact (SyntaxRejectBodyProofs.keyword_line_replaced T_now terminals_ok eq_refl st Hst (cr_now st) pre it post c' sfx).
Qed.
Print Assumptions keyword_line_replaced_if.

(* [core] `unknown-keyword`, complete: a content that starts with none of the top-level keywords (and not with `@`) in place of the
   keyword line of ANY item; error at column 1 *)
Theorem corrupt_rejected_unknown_keyword : forall st pre it post c',
  wf_style st = true -> wf_doc (pre ++ it :: post) = true -> (forall c, it <> IComment c) -> head_stmt c' = true -> plainc c' = true ->
  strip_prefix [64] c' = None -> strip_prefix (kw_import T_now) c' = None -> strip_prefix (kw_using T_now) c' = None ->
  strip_prefix (kw_enum T_now) c' = None -> strip_prefix (kw_struct T_now) c' = None -> first_prefix (struct_modifiers T_now) c' = None ->
  let ds := pre ++ it :: post in let k := keyword_line T_now st pre it in
  nth_error (tlines T_now st ds) k = Some (PStmt [] (keyword_text T_now st it))
  /\ parse (replace_line st ds k c') = Error {| e_line := 1 + Z.of_nat k; e_col := 1; e_kind := EToken |}.
Proof.
  intros st pre it post c' Hst.
  exact (SyntaxRejectBodyProofs.unknown_keyword_doc T_now terminals_ok eq_refl st Hst (cr_now st) pre it post c').
Qed.
Print Assumptions corrupt_rejected_unknown_keyword.

(* [core] type name of the wrong class with the column, complete for `type-name-lower-case`, `type-name-too-short`, `type-name-all-caps`:
   on the `using` / `enum` / `[modifier] struct` line of ANY declaration, X (no type name at its start: raw_type = None) in place of the
   name and the rest of the line; error at the column of X *)
Theorem corrupt_rejected_type_name_column : forall st pre d post X,
  wf_style st = true -> wf_doc (pre ++ IDecl d :: post) = true -> raw_type T_now X = None -> stops is_ws X = true -> plainc X = true ->
  let ds := pre ++ IDecl d :: post in let k := keyword_line T_now st pre (IDecl d) in let head := type_line_head T_now (decl_type_line d) ++ [32] in
  nth_error (tlines T_now st ds) k = Some (PStmt [] (keyword_text T_now st (IDecl d)))
  /\ parse (replace_line st ds k (head ++ X)) = Error {| e_line := 1 + Z.of_nat k; e_col := 1 + len head; e_kind := EToken |}.
Proof.
  intros st pre d post X Hst.
  exact (SyntaxRejectBodyProofs.type_name_doc T_now terminals_ok eq_refl st Hst (cr_now st) pre d post X).
Qed.
Print Assumptions corrupt_rejected_type_name_column.

Theorem corrupt_rejected_width_alias : forall st wd pre n i c post,
  forallb (fun x => negb (is_prefix x wd)) (int_widths T_now) = true -> plainc wd = true ->
  wf_style st = true -> wf_doc (pre ++ IDecl (DAlias n (LInt i) c) :: post) = true ->
  let it := IDecl (DAlias n (LInt i) c) in let ds := pre ++ it :: post in let k := keyword_line T_now st pre it in
  nth_error (tlines T_now st ds) k = Some (PStmt [] (r_alias T_now st n (LInt i)))
  /\ parse (replace_line st ds k (alias_head T_now n ++ int_prefix T_now i ++ wd))
     = Error {| e_line := 1 + Z.of_nat k; e_col := 1 + len (alias_head T_now n); e_kind := EToken |}.
Proof.
  intros st wd pre n i c post Hw Hp Hst.
  exact (SyntaxRejectBodyProofs.alias_width_doc T_now terminals_ok eq_refl st Hst (cr_now st) wd pre n i c post Hw Hp).
Qed.
Print Assumptions corrupt_rejected_width_alias.

(* [core] `type-name-with-<character>`, complete (closes the gap of corrupt_rejected_type_name_suffix_partial): on the `using` / `enum` /
   `[modifier] struct` line of ANY declaration, a character outside [A-Za-z0-9] (not blank, `=` or `:`) and more text after the name *)
Theorem corrupt_rejected_type_name_suffix : forall st ch rest pre d post n,
  type_rest ch = false -> is_ws ch = false -> ch <> 61 -> ch <> 58 -> plainc (ch :: rest) = true ->
  wf_style st = true -> wf_doc (pre ++ IDecl d :: post) = true ->
  n = match d with DAlias n _ _ => n | DEnum n _ _ _ _ => n | DStruct s => s_name s end ->
  let ds := pre ++ IDecl d :: post in let k := keyword_line T_now st pre (IDecl d) in
  let head := type_line_head T_now (decl_type_line d) ++ [32] ++ of_string n in
  nth_error (tlines T_now st ds) k = Some (PStmt [] (keyword_text T_now st (IDecl d)))
  /\ parse (replace_line st ds k (head ++ ch :: rest)) = Error {| e_line := 1 + Z.of_nat k; e_col := 1 + len head; e_kind := EToken |}.
Proof.
  intros st ch rest pre d post n Hch Hws H61 H58 Hp Hst.
  exact (SyntaxRejectBodyProofs.type_name_suffix_doc T_now terminals_ok eq_refl st Hst (cr_now st) ch rest pre d post n Hch Hws H61 H58 Hp).
Qed.
Print Assumptions corrupt_rejected_type_name_suffix.

(* [core] `member-name-with-<character>`, complete: ANY member whose name is a property name (the sites of the operator), a character
   outside [a-z0-9_] (not blank, not `=`) and more text after the name; error at that character *)
Theorem corrupt_rejected_member_name_suffix : forall st ch rest pre s post fs1 f fs2 n,
  prop_rest ch = false -> is_ws ch = false -> ch <> 61 -> plainc (ch :: rest) = true -> wf_prop T_now n = true ->
  wf_style st = true -> wf_doc (pre ++ IDecl (DStruct s) :: post) = true -> s_fields s = fs1 ++ f :: fs2 -> field_name f = Some n ->
  let ds := pre ++ IDecl (DStruct s) :: post in let k := member_line T_now st pre s fs1 f in
  nth_error (tlines T_now st ds) k = Some (PStmt (st_indent st) (r_field T_now st f))
  /\ parse (replace_line st ds k (of_string n ++ ch :: rest))
     = Error {| e_line := 1 + Z.of_nat k; e_col := len (st_indent st) + 1 + len (of_string n); e_kind := EToken |}.
Proof.
  intros st ch rest pre s post fs1 f fs2 n Hch Hws H61 Hp Hn Hst.
  exact (SyntaxRejectBodyProofs.member_name_suffix_doc T_now terminals_ok eq_refl st Hst (cr_now st) ch rest pre s post fs1 f fs2 n Hch Hws H61 Hp Hn).
Qed.
Print Assumptions corrupt_rejected_member_name_suffix.

(* [core] `const-name-with-<character>`, complete: ANY value line of any enum and ANY constant member of any struct *)
Theorem corrupt_rejected_const_name_suffix_value : forall st ch rest pre n b vals attrs c post vs1 v vs2,
  const_rest ch = false -> is_ws ch = false -> ch <> 61 -> plainc (ch :: rest) = true ->
  wf_style st = true -> wf_doc (pre ++ IDecl (DEnum n b vals attrs c) :: post) = true -> vals = vs1 ++ v :: vs2 ->
  let ds := pre ++ IDecl (DEnum n b vals attrs c) :: post in let k := value_line T_now st pre n b attrs c vs1 v in
  nth_error (tlines T_now st ds) k = Some (PStmt (st_indent st) (r_value T_now st v))
  /\ parse (replace_line st ds k (of_string (ev_name v) ++ ch :: rest))
     = Error {| e_line := 1 + Z.of_nat k; e_col := len (st_indent st) + 1 + len (of_string (ev_name v)); e_kind := EToken |}.
Proof.
  intros st ch rest pre n b vals attrs c post vs1 v vs2 Hch Hws H61 Hp Hst.
  exact (SyntaxRejectBodyProofs.value_name_suffix_doc T_now terminals_ok eq_refl st Hst (cr_now st) ch rest pre n b vals attrs c post vs1 v vs2 Hch Hws H61 Hp).
Qed.
Print Assumptions corrupt_rejected_const_name_suffix_value.

Theorem corrupt_rejected_const_name_suffix_member : forall st ch rest pre s post fs1 n ty v c fs2,
  const_rest ch = false -> is_ws ch = false -> ch <> 61 -> plainc (ch :: rest) = true ->
  wf_style st = true -> wf_doc (pre ++ IDecl (DStruct s) :: post) = true -> s_fields s = fs1 ++ Field n ty v DispConst None c :: fs2 ->
  let f := Field n ty v DispConst None c in let ds := pre ++ IDecl (DStruct s) :: post in let k := member_line T_now st pre s fs1 f in
  nth_error (tlines T_now st ds) k = Some (PStmt (st_indent st) (r_field T_now st f))
  /\ parse (replace_line st ds k (of_string n ++ ch :: rest))
     = Error {| e_line := 1 + Z.of_nat k; e_col := len (st_indent st) + 1 + len (of_string n); e_kind := EToken |}.
Proof.
  intros st ch rest pre s post fs1 n ty v c fs2 Hch Hws H61 Hp Hst.
  exact (SyntaxRejectBodyProofs.const_member_name_suffix_doc T_now terminals_ok eq_refl st Hst (cr_now st) ch rest pre s post fs1 n ty v c fs2 Hch Hws H61 Hp).
Qed.
Print Assumptions corrupt_rejected_const_name_suffix_member.

(* [core] `member-name-too-short`, `member-name-capitalised` (when the new first word is no constant name either): a content that starts
   with no member name (no property name, no constant name, not `@`, not the placeholder) in place of ANY member line; error at its
   first character *)
Theorem corrupt_rejected_member_name_class : forall st X pre s post fs1 f fs2,
  head_stmt X = true -> plainc X = true -> strip_prefix [64] X = None -> strip_prefix (value_placeholder T_now) X = None ->
  raw_prop T_now X = None -> raw_const T_now X = None ->
  wf_style st = true -> wf_doc (pre ++ IDecl (DStruct s) :: post) = true -> s_fields s = fs1 ++ f :: fs2 ->
  let ds := pre ++ IDecl (DStruct s) :: post in let k := member_line T_now st pre s fs1 f in
  nth_error (tlines T_now st ds) k = Some (PStmt (st_indent st) (r_field T_now st f))
  /\ parse (replace_line st ds k X) = Error {| e_line := 1 + Z.of_nat k; e_col := len (st_indent st) + 1; e_kind := EToken |}.
Proof.
  intros st X pre s post fs1 f fs2 Hh Hp H64 Hvp Hrp Hrc Hst.
  exact (SyntaxRejectBodyProofs.member_no_name_doc T_now terminals_ok eq_refl st Hst (cr_now st) X pre s post fs1 f fs2 Hh Hp H64 Hvp Hrp Hrc).
Qed.
Print Assumptions corrupt_rejected_member_name_class.

(* [core] `unknown-function` (and any other operand that starts with nothing the grammar allows there): on ANY member whose name is a
   property name, on ANY constant member and on ANY alias, X in place of everything after `= `; error at X.
   MISSING: members named `__value__`; function names in the second position (`name = inline zzq(...)` does not occur). *)
Theorem corrupt_rejected_operand_member_partial : forall st X pre s post fs1 f fs2 n,
  stops is_ws X = true -> plainc X = true -> raw_type T_now X = None -> raw_intty T_now X = None -> strip_prefix (kw_array T_now) X = None ->
  strip_prefix (kw_make_reserved T_now) X = None -> strip_prefix (kw_sizeof T_now) X = None -> strip_prefix (kw_inline_field T_now) X = None ->
  wf_prop T_now n = true -> wf_style st = true -> wf_doc (pre ++ IDecl (DStruct s) :: post) = true -> s_fields s = fs1 ++ f :: fs2 -> field_name f = Some n ->
  let ds := pre ++ IDecl (DStruct s) :: post in let k := member_line T_now st pre s fs1 f in
  nth_error (tlines T_now st ds) k = Some (PStmt (st_indent st) (r_field T_now st f))
  /\ parse (replace_line st ds k (of_string n ++ [32; 61; 32] ++ X))
     = Error {| e_line := 1 + Z.of_nat k; e_col := len (st_indent st) + 1 + len (of_string n) + 3; e_kind := EToken |}.
Proof.
  intros st X pre s post fs1 f fs2 n Hws Hp Ht Hi Ha Hr Hsz Hif Hn Hst.
  exact (SyntaxRejectBodyProofs.member_bad_operand_doc T_now terminals_ok eq_refl st Hst (cr_now st) X pre s post fs1 f fs2 n Hws Hp Ht Hi Ha Hr Hsz Hif Hn).
Qed.
Print Assumptions corrupt_rejected_operand_member_partial.

Theorem corrupt_rejected_operand_const_member : forall st X pre s post fs1 n ty v c fs2,
  stops is_ws X = true -> plainc X = true -> strip_prefix (kw_make_const T_now) X = None ->
  wf_style st = true -> wf_doc (pre ++ IDecl (DStruct s) :: post) = true -> s_fields s = fs1 ++ Field n ty v DispConst None c :: fs2 ->
  let f := Field n ty v DispConst None c in let ds := pre ++ IDecl (DStruct s) :: post in let k := member_line T_now st pre s fs1 f in
  nth_error (tlines T_now st ds) k = Some (PStmt (st_indent st) (r_field T_now st f))
  /\ parse (replace_line st ds k (of_string n ++ [32; 61; 32] ++ X))
     = Error {| e_line := 1 + Z.of_nat k; e_col := len (st_indent st) + 1 + len (of_string n) + 3; e_kind := EToken |}.
Proof.
  intros st X pre s post fs1 n ty v c fs2 Hws Hp Hm Hst.
  exact (SyntaxRejectBodyProofs.const_member_bad_operand_doc T_now terminals_ok eq_refl st Hst (cr_now st) X pre s post fs1 n ty v c fs2 Hws Hp Hm).
Qed.
Print Assumptions corrupt_rejected_operand_const_member.

Theorem corrupt_rejected_operand_alias : forall st X pre n l c post,
  stops is_ws X = true -> plainc X = true -> raw_intty T_now X = None -> strip_prefix (kw_binary_fixed T_now) X = None ->
  wf_style st = true -> wf_doc (pre ++ IDecl (DAlias n l c) :: post) = true ->
  let it := IDecl (DAlias n l c) in let ds := pre ++ it :: post in let k := keyword_line T_now st pre it in
  nth_error (tlines T_now st ds) k = Some (PStmt [] (r_alias T_now st n l))
  /\ parse (replace_line st ds k (alias_head T_now n ++ X)) = Error {| e_line := 1 + Z.of_nat k; e_col := 1 + len (alias_head T_now n); e_kind := EToken |}.
Proof.
  intros st X pre n l c post Hws Hp Hi Hb Hst.
  exact (SyntaxRejectBodyProofs.alias_bad_operand_doc T_now terminals_ok eq_refl st Hst (cr_now st) X pre n l c post Hws Hp Hi Hb).
Qed.
Print Assumptions corrupt_rejected_operand_alias.

(* [core] `unknown-transform`, complete: on ANY attribute line `@name(p1, ..., pk, p!transform...` of an attribute that takes
   transforms (`comparer`), `bad` (starting with no transform name) in place of the FIRST transform of the line and of what follows *)
Theorem corrupt_rejected_unknown_transform : forall st qs p bad pre it post as1 a as2,
  attr_kind T_now (item_ctx it) (of_string (at_name a)) = Some AkTransform -> forallb (wf_prop T_now) qs = true -> wf_prop T_now p = true ->
  first_prefix (transform_names T_now) bad = None -> stops is_ws bad = true -> plainc bad = true ->
  wf_style st = true -> wf_doc (pre ++ it :: post) = true -> item_attr_list it = as1 ++ a :: as2 ->
  let ds := pre ++ it :: post in let k := attribute_line T_now st pre it as1 in
  let head := 64 :: of_string (at_name a) ++ 40 :: props_text qs ++ of_string p ++ [33] in
  nth_error (tlines T_now st ds) k = Some (PStmt [] (r_attr T_now st (item_ctx it) a))
  /\ parse (replace_line st ds k (head ++ bad)) = Error {| e_line := 1 + Z.of_nat k; e_col := 1 + len head; e_kind := EToken |}.
Proof.
  intros st qs p bad pre it post as1 a as2 Hk Hqs Hp Hb Hws Hpb Hst.
  exact (SyntaxRejectBodyProofs.transform_doc T_now terminals_ok eq_refl st Hst (cr_now st) qs p bad pre it post as1 a as2 Hk Hqs Hp Hb Hws Hpb).
Qed.
Print Assumptions corrupt_rejected_unknown_transform.

(* [core] `member-outside-declaration` inside the head of a declaration (together with corrupt_rejected_member_outside_partial, which
   covers the item boundaries, this is every site of the operator except the lines inside a comment block): `zz = uint8` at column 0
   in front of the keyword line of ANY item or of ANY attribute line of an enum or struct; error at column 1 of the new line *)
Lemma member_text_rejected_at_top : forall ctx ac, parse_top_line T_now ctx ac member_text = LErr member_text.
Proof. intros [[| |]|] [|]; vm_compute; reflexivity. Qed.

Theorem corrupt_rejected_member_outside_keyword_line : forall st pre it post,
  wf_style st = true -> wf_doc (pre ++ it :: post) = true -> (forall c, it <> IComment c) ->
  let ds := pre ++ it :: post in let k := keyword_line T_now st pre it in
  parse (insert_line st ds k member_text) = Error {| e_line := 1 + Z.of_nat k; e_col := 1; e_kind := EToken |}.
Proof.
  intros st pre it post Hst Hwf Hnc.
  exact (SyntaxRejectBodyProofs.keyword_line_inserted T_now terminals_ok eq_refl st Hst (cr_now st) pre it post member_text member_text Hwf Hnc eq_refl
           (fun ac => member_text_rejected_at_top _ ac)).
Qed.
Print Assumptions corrupt_rejected_member_outside_keyword_line.

Theorem corrupt_rejected_member_outside_attribute_line : forall st pre it post as1 a as2,
  wf_style st = true -> wf_doc (pre ++ it :: post) = true -> item_attr_list it = as1 ++ a :: as2 ->
  let ds := pre ++ it :: post in let k := attribute_line T_now st pre it as1 in
  parse (insert_line st ds k member_text) = Error {| e_line := 1 + Z.of_nat k; e_col := 1; e_kind := EToken |}.
Proof.
  intros st pre it post as1 a as2 Hst Hwf Hal.
  exact (SyntaxRejectBodyProofs.attribute_line_inserted T_now terminals_ok eq_refl st Hst (cr_now st) pre it post as1 a as2 member_text member_text Hwf Hal eq_refl
           (fun ac => member_text_rejected_at_top _ ac)).
Qed.
Print Assumptions corrupt_rejected_member_outside_attribute_line.

(* [core] `deleted-left-parenthesis` (missing bracket), complete except members named `__value__`: on ANY attribute line with arguments
   (of a member, an enum, a struct), on ANY member with a call (`array(`, `make_const(`, `make_reserved(`, `sizeof(`) and on ANY alias
   of a buffer type, X (not starting with `(`) in place of everything after the word that must be followed by `(`; error at X *)
Theorem corrupt_rejected_missing_parenthesis_declaration_attribute : forall st X pre it post as1 a as2 k0,
  attr_kind T_now (item_ctx it) (of_string (at_name a)) = Some k0 -> k0 <> AkZero -> stops is_ws X = true -> strip_prefix [40] X = None -> plainc X = true ->
  wf_style st = true -> wf_doc (pre ++ it :: post) = true -> item_attr_list it = as1 ++ a :: as2 ->
  let ds := pre ++ it :: post in let k := attribute_line T_now st pre it as1 in
  nth_error (tlines T_now st ds) k = Some (PStmt [] (r_attr T_now st (item_ctx it) a))
  /\ parse (replace_line st ds k (64 :: of_string (at_name a) ++ X)) = Error {| e_line := 1 + Z.of_nat k; e_col := 2 + len (of_string (at_name a)); e_kind := EToken |}.
Proof.
  intros st X pre it post as1 a as2 k0 Hk Hz Hws HX Hp Hst.
  exact (SyntaxRejectBodyProofs.decl_attribute_missing_open_doc T_now terminals_ok eq_refl st Hst (cr_now st) X pre it post as1 a as2 k0 Hk Hz Hws HX Hp).
Qed.
Print Assumptions corrupt_rejected_missing_parenthesis_declaration_attribute.

Theorem corrupt_rejected_missing_parenthesis_member_attribute : forall st X pre s post fs1 f fs2 as1 a as2 k0,
  attr_kind T_now CField (of_string (at_name a)) = Some k0 -> k0 <> AkZero -> stops is_ws X = true -> strip_prefix [40] X = None -> plainc X = true ->
  wf_style st = true -> wf_doc (pre ++ IDecl (DStruct s) :: post) = true -> s_fields s = fs1 ++ f :: fs2 -> field_attrs f = Some (as1 ++ a :: as2) ->
  let ds := pre ++ IDecl (DStruct s) :: post in let k := member_attr_line T_now st pre s fs1 f as1 in
  nth_error (tlines T_now st ds) k = Some (PStmt (st_indent st) (r_attr T_now st CField a))
  /\ parse (replace_line st ds k (64 :: of_string (at_name a) ++ X))
     = Error {| e_line := 1 + Z.of_nat k; e_col := len (st_indent st) + 2 + len (of_string (at_name a)); e_kind := EToken |}.
Proof.
  intros st X pre s post fs1 f fs2 as1 a as2 k0 Hk Hz Hws HX Hp Hst.
  exact (SyntaxRejectBodyProofs.member_attribute_missing_open_doc T_now terminals_ok eq_refl st Hst (cr_now st) X pre s post fs1 f fs2 as1 a as2 k0 Hk Hz Hws HX Hp).
Qed.
Print Assumptions corrupt_rejected_missing_parenthesis_member_attribute.

Theorem corrupt_rejected_missing_parenthesis_member_partial : forall st X pre s post fs1 f fs2 n word,
  stops is_ws X = true -> strip_prefix [40] X = None -> plainc X = true ->
  wf_style st = true -> wf_doc (pre ++ IDecl (DStruct s) :: post) = true -> s_fields s = fs1 ++ f :: fs2 -> field_name f = Some n ->
  call_word T_now f = Some word -> of_string n <> value_placeholder T_now ->
  let ds := pre ++ IDecl (DStruct s) :: post in let k := member_line T_now st pre s fs1 f in let head := of_string n ++ [32; 61; 32] ++ word in
  nth_error (tlines T_now st ds) k = Some (PStmt (st_indent st) (r_field T_now st f))
  /\ parse (replace_line st ds k (head ++ X)) = Error {| e_line := 1 + Z.of_nat k; e_col := len (st_indent st) + 1 + len head; e_kind := EToken |}.
Proof.
  intros st X pre s post fs1 f fs2 n word Hws HX Hp Hst.
  exact (SyntaxRejectBodyProofs.member_call_missing_open_doc T_now terminals_ok eq_refl st Hst (cr_now st) X pre s post fs1 f fs2 n word Hws HX Hp).
Qed.
Print Assumptions corrupt_rejected_missing_parenthesis_member_partial.

Theorem corrupt_rejected_missing_parenthesis_alias : forall st X pre n size c post,
  stops is_ws X = true -> strip_prefix [40] X = None -> plainc X = true ->
  wf_style st = true -> wf_doc (pre ++ IDecl (DAlias n (LBuffer size) c) :: post) = true ->
  let it := IDecl (DAlias n (LBuffer size) c) in let ds := pre ++ it :: post in let k := keyword_line T_now st pre it in
  let head := alias_head T_now n ++ kw_binary_fixed T_now in
  nth_error (tlines T_now st ds) k = Some (PStmt [] (r_alias T_now st n (LBuffer size)))
  /\ parse (replace_line st ds k (head ++ X)) = Error {| e_line := 1 + Z.of_nat k; e_col := 1 + len head; e_kind := EToken |}.
Proof.
  intros st X pre n size c post Hws HX Hp Hst.
  exact (SyntaxRejectBodyProofs.alias_buffer_missing_open_doc T_now terminals_ok eq_refl st Hst (cr_now st) X pre n size c post Hws HX Hp).
Qed.
Print Assumptions corrupt_rejected_missing_parenthesis_alias.

(* [core] `deleted-right-parenthesis` on attribute lines: the last character (the closing parenthesis) of ANY attribute line with a
   fixed number of arguments (fixed_arity: `alignment`, `sort_key`, `sizeref`, `size`, `initializes`) of ANY member, enum or struct
   deleted; error at the end of the line.  MISSING for the operator: `discriminator` / `comparer` lines and the calls on member and
   alias lines (`array(...`, `make_const(...`, `make_reserved(...`, `sizeof(...`, `binary_fixed(...`). *)
Theorem corrupt_rejected_missing_closing_parenthesis_declaration_attribute_partial : forall st pre it post as1 a as2 k0,
  attr_kind T_now (item_ctx it) (of_string (at_name a)) = Some k0 -> fixed_arity k0 = true ->
  wf_style st = true -> wf_doc (pre ++ it :: post) = true -> item_attr_list it = as1 ++ a :: as2 ->
  let ds := pre ++ it :: post in let k := attribute_line T_now st pre it as1 in let c' := removelast (r_attr T_now st (item_ctx it) a) in
  nth_error (tlines T_now st ds) k = Some (PStmt [] (r_attr T_now st (item_ctx it) a))
  /\ parse (replace_line st ds k c') = Error {| e_line := 1 + Z.of_nat k; e_col := 1 + len c'; e_kind := EToken |}.
Proof.
  intros st pre it post as1 a as2 k0 Hk Hf Hst.
  exact (SyntaxRejectBodyProofs.decl_attribute_missing_close_doc T_now terminals_ok eq_refl st Hst (cr_now st) pre it post as1 a as2 k0 Hk Hf).
Qed.
Print Assumptions corrupt_rejected_missing_closing_parenthesis_declaration_attribute_partial.

Theorem corrupt_rejected_missing_closing_parenthesis_member_attribute_partial : forall st pre s post fs1 f fs2 as1 a as2 k0,
  attr_kind T_now CField (of_string (at_name a)) = Some k0 -> fixed_arity k0 = true ->
  wf_style st = true -> wf_doc (pre ++ IDecl (DStruct s) :: post) = true -> s_fields s = fs1 ++ f :: fs2 -> field_attrs f = Some (as1 ++ a :: as2) ->
  let ds := pre ++ IDecl (DStruct s) :: post in let k := member_attr_line T_now st pre s fs1 f as1 in let c' := removelast (r_attr T_now st CField a) in
  nth_error (tlines T_now st ds) k = Some (PStmt (st_indent st) (r_attr T_now st CField a))
  /\ parse (replace_line st ds k c') = Error {| e_line := 1 + Z.of_nat k; e_col := len (st_indent st) + 1 + len c'; e_kind := EToken |}.
Proof.
  intros st pre s post fs1 f fs2 as1 a as2 k0 Hk Hf Hst.
  exact (SyntaxRejectBodyProofs.member_attribute_missing_close_doc T_now terminals_ok eq_refl st Hst (cr_now st) pre s post fs1 f fs2 as1 a as2 k0 Hk Hf).
Qed.
Print Assumptions corrupt_rejected_missing_closing_parenthesis_member_attribute_partial.

(* [core] `unknown-condition-operator`, complete (the gap of corrupt_rejected_condition_operator_partial closed: members of any name) *)
Theorem corrupt_rejected_condition_operator : forall st bad pre s post fs1 n ty cnd attrs c fs2,
  first_prefix (cond_ops T_now) bad = None -> stops is_ws bad = true -> plainc bad = true ->
  wf_style st = true -> wf_doc (pre ++ IDecl (DStruct s) :: post) = true -> s_fields s = fs1 ++ Field n ty (VCond cnd) DispNone attrs c :: fs2 ->
  let f := Field n ty (VCond cnd) DispNone attrs c in
  let ds := pre ++ IDecl (DStruct s) :: post in let k := member_line T_now st pre s fs1 f in
  let head := of_string n ++ [32; 61; 32] ++ r_ftype T_now st ty ++ [32] ++ kw_if T_now ++ [32] ++ cv_text T_now st (c_value cnd) ++ [32] in
  nth_error (tlines T_now st ds) k = Some (PStmt (st_indent st) (r_field T_now st f))
  /\ parse (replace_line st ds k (head ++ bad)) = Error {| e_line := 1 + Z.of_nat k; e_col := len (st_indent st) + 1 + len head; e_kind := EToken |}.
Proof.
  intros st bad pre s post fs1 n ty cnd attrs c fs2 Hb Hws Hp Hst.
  exact (SyntaxRejectBodyProofs.member_condition_operator_all_doc T_now terminals_ok eq_refl st Hst (cr_now st) bad pre s post fs1 n ty cnd attrs c fs2 Hb Hws Hp).
Qed.
Print Assumptions corrupt_rejected_condition_operator.

(* [core] `trailing-text` (and `two-statements-on-one-line` when the second statement does not start with `if`) on ANY plain member
   without condition, of any name.  MISSING for the operators: the other forms of members and the other kinds of lines. *)
Theorem corrupt_rejected_trailing_text_plain_member_partial : forall st X pre s post fs1 n ty attrs c fs2,
  strip_prefix (kw_if T_now) X = None -> stops is_ws X = true -> X <> [] -> plainc X = true ->
  wf_style st = true -> wf_doc (pre ++ IDecl (DStruct s) :: post) = true -> s_fields s = fs1 ++ Field n ty VNone DispNone attrs c :: fs2 ->
  let f := Field n ty VNone DispNone attrs c in
  let ds := pre ++ IDecl (DStruct s) :: post in let k := member_line T_now st pre s fs1 f in
  let head := of_string n ++ [32; 61; 32] ++ r_ftype T_now st ty ++ [32] in
  nth_error (tlines T_now st ds) k = Some (PStmt (st_indent st) (r_field T_now st f))
  /\ parse (replace_line st ds k (head ++ X)) = Error {| e_line := 1 + Z.of_nat k; e_col := len (st_indent st) + 1 + len head; e_kind := EToken |}.
Proof.
  intros st X pre s post fs1 n ty attrs c fs2 Hif Hws Hne Hp Hst.
  exact (SyntaxRejectBodyProofs.member_trailing_text_all_doc T_now terminals_ok eq_refl st Hst (cr_now st) X pre s post fs1 n ty attrs c fs2 Hif Hws Hne Hp).
Qed.
Print Assumptions corrupt_rejected_trailing_text_plain_member_partial.

(* [core] `unknown-function` on members named `__value__` (the gap of corrupt_rejected_operand_member_partial) *)
Theorem corrupt_rejected_operand_value_member : forall st X pre s post fs1 n ty v attrs c fs2,
  stops is_ws X = true -> plainc X = true -> raw_type T_now X = None -> raw_intty T_now X = None -> strip_prefix (kw_array T_now) X = None ->
  of_string n = value_placeholder T_now ->
  wf_style st = true -> wf_doc (pre ++ IDecl (DStruct s) :: post) = true -> s_fields s = fs1 ++ Field n ty v DispNone attrs c :: fs2 ->
  let f := Field n ty v DispNone attrs c in let ds := pre ++ IDecl (DStruct s) :: post in let k := member_line T_now st pre s fs1 f in
  nth_error (tlines T_now st ds) k = Some (PStmt (st_indent st) (r_field T_now st f))
  /\ parse (replace_line st ds k (of_string n ++ [32; 61; 32] ++ X))
     = Error {| e_line := 1 + Z.of_nat k; e_col := len (st_indent st) + 1 + len (of_string n) + 3; e_kind := EToken |}.
Proof.
  intros st X pre s post fs1 n ty v attrs c fs2 Hws Hp Ht Hi Ha Hvp Hst.
  exact (SyntaxRejectBodyProofs.member_value_bad_operand_doc T_now terminals_ok eq_refl st Hst (cr_now st) X pre s post fs1 n ty v attrs c fs2 Hws Hp Ht Hi Ha Hvp).
Qed.
Print Assumptions corrupt_rejected_operand_value_member.

(* ------------------------------------------------------------------------------------------------------------------ *)
(* the final line end, complete *)

(* [core] the gap of corrupt_rejected_final_line_end_partial closed: when the last item is a free comment, the comment token is left
   unterminated; the text is rejected at its end, with the line on which that comment starts *)
Theorem corrupt_rejected_final_line_end_comment : forall st ds0 c,
  wf_style st = true -> wf_doc (ds0 ++ [IComment c]) = true ->
  parse (delete_final_line_end (render st (ds0 ++ [IComment c])))
  = Error {| e_line := 1 + Z.of_nat (length (tlines T_now st ds0)); e_col := 0; e_kind := EEnd |}.
Proof.
  intros st ds0 c Hst Hwf.
  exact (SyntaxRejectEofProofs.final_line_end_rejected_comment T_now terminals_ok st ds0 c eq_refl eq_refl Hst Hwf).
Qed.
Print Assumptions corrupt_rejected_final_line_end_comment.

(* [core] `deleted-final-line-end`, complete: EVERY rendered document with all trailing CR / LF removed is rejected at the end of the
   text (the line is given by the two theorems for the two kinds of last item) *)
Theorem corrupt_rejected_final_line_end : forall st ds,
  wf_style st = true -> wf_doc ds = true ->
  exists pos, parse (delete_final_line_end (render st ds)) = Error pos /\ e_kind pos = EEnd /\ e_col pos = 0
    /\ 1 <= e_line pos <= Z.of_nat (length (tlines T_now st ds)).
Proof.
  intros st ds Hst Hwf.
  destruct ds as [|x0 ds1]; [discriminate|]. destruct (exists_last (l := x0 :: ds1) ltac:(discriminate)) as [ds0 [it E]]. rewrite E in *. clear E.
  destruct it as [d|p|c].
  - destruct (corrupt_rejected_final_line_end_partial st ds0 (IDecl d) Hst Hwf ltac:(discriminate)) as [tl0 [ind [c [n [Etl Ep]]]]].
    eexists. split; [exact Ep|]. cbn [e_kind e_col e_line]. repeat split; [lia|]. rewrite Etl, app_length. cbn [length]. lia.
  - destruct (corrupt_rejected_final_line_end_partial st ds0 (IImport p) Hst Hwf ltac:(discriminate)) as [tl0 [ind [c [n [Etl Ep]]]]].
    eexists. split; [exact Ep|]. cbn [e_kind e_col e_line]. repeat split; [lia|]. rewrite Etl, app_length. cbn [length]. lia.
  - eexists. split; [exact (corrupt_rejected_final_line_end_comment st ds0 c Hst Hwf)|]. cbn [e_kind e_col e_line]. repeat split; [lia|].
    unfold tlines. rewrite flat_map_app, app_length. cbn [flat_map]. rewrite app_nil_r. unfold item_tlines. rewrite !app_length. cbn [length].
    fold (tlines T_now st ds0). lia.
Qed.
Print Assumptions corrupt_rejected_final_line_end.

(* non-vacuity *)
Example rejected_example :
  parse [117; 115; 105; 110; 103; 32; 70; 111; 111; 32; 61; 32; 117; 105; 110; 116; 50; 52; 10]
  = Error {| e_line := 1; e_col := 13; e_kind := EToken |}.
Proof. vm_compute. reflexivity. Qed.

(* non-vacuity of the corruption theorems: a three-item document (alias of an integer, struct with two members, alias of a buffer) in
   the default style meets the premises of every theorem above at the sites named below, and the corrupted texts are rejected at the
   stated lines (by evaluation of the model parser) *)
Definition ex_u64 : intty := {| it_unsigned := true; it_size := 8; it_sizeref := None |}.
Definition ex_i32 : intty := {| it_unsigned := false; it_size := 4; it_sizeref := None |}.
Definition ex_pair : struct :=
  {| s_name := "Pair"%string; s_disp := SdNone;
     s_fields := [Field "size"%string (FInt ex_i32) VNone DispNone None None; Field "amount"%string (FName "Amount"%string) VNone DispNone None None];
     s_factory_type := None; s_attrs := None; s_comment := None; s_requires_unaligned := false |}.
Definition ex_doc : list item :=
  [IDecl (DAlias "Amount"%string (LInt ex_u64) None); IDecl (DStruct ex_pair); IDecl (DAlias "Hash256"%string (LBuffer 32) None)].
Definition ex_line_of (r : result (list item)) : Z := match r with Error pos => e_line pos | _ => 0 end.

Example premises_nonvacuous :
  let st := default_style in let tl := tlines T_now st ex_doc in
  wf_style st = true /\ wf_doc ex_doc = true
  (* alias sites: width / case / suffix at item 0, attribute at item 2, member-outside at any j <= 3 *)
  /\ (In [50; 52] [[50; 52]; [55]; [49; 50; 56]] /\ nth_error ex_doc 0 = Some (IDecl (DAlias "Amount"%string (LInt ex_u64) None))
      /\ type_rest 95 = false /\ is_ws 95 = false /\ 95 <> 61 /\ plainc (95 :: [120]) = true
      /\ nth_error ex_doc 2 = Some (IDecl (DAlias "Hash256"%string (LBuffer 32) None)) /\ plainc [120] = true /\ (3 <= length ex_doc)%nat)
  (* any statement line: physical line 3 is the member line `size = int32`, lines 6 and 2 carry type names *)
  /\ (nth_error tl 3 = Some (PStmt (st_indent st) (of_string "size"%string ++ [32; 61; 32] ++ r_int T_now ex_i32)) /\ wf_prop T_now "size"%string = true
      /\ nth_error tl 6 = Some (PStmt [] (type_line_head T_now TLUsing ++ [32] ++ of_string "Hash256"%string ++ of_string " = binary_fixed(32)"%string))
      /\ wf_type T_now "Hash256"%string = true /\ plainc (of_string " = binary_fixed(32)"%string) = true
      /\ nth_error tl 2 = Some (PStmt [] (type_line_head T_now (TLStruct SdNone) ++ [32] ++ of_string "Pair"%string ++ []))
      /\ wf_type T_now "Pair"%string = true)
  (* final line end / struct without members: the shapes ds0 ++ [it] and pre ++ struct :: post *)
  /\ (ex_doc = firstn 2 ex_doc ++ [IDecl (DAlias "Hash256"%string (LBuffer 32) None)]
      /\ ex_doc = firstn 1 ex_doc ++ IDecl (DStruct ex_pair) :: skipn 2 ex_doc)
  (* the rejections *)
  /\ ex_line_of (parse (replace_line st ex_doc (site_line T_now st ex_doc 0) (alias_head T_now "Amount"%string ++ int_prefix T_now ex_u64 ++ [50; 52]))) = 1
  /\ ex_line_of (parse (replace_line st ex_doc 3 (of_string "size"%string ++ [32; 61; 32] ++ int_prefix T_now ex_i32 ++ [55]))) = 4
  /\ ex_line_of (parse (replace_line st ex_doc 4 (64 :: 81 :: [120]))) = 5
  /\ ex_line_of (parse (replace_line st ex_doc 2 (type_line_head T_now (TLStruct SdNone) ++ [32] ++ lower_name "Pair"%string ++ []))) = 3
  /\ ex_line_of (parse (insert_line st ex_doc (length (tlines T_now st (firstn 1 ex_doc))) member_text)) = 3
  /\ ex_line_of (parse (delete_final_line_end (render st ex_doc))) = 7
  /\ ex_line_of (parse (struct_body_deleted st (firstn 1 ex_doc) ex_pair (skipn 2 ex_doc))) = 4.
Proof. vm_compute. repeat split; try reflexivity; try discriminate; auto. Qed.
Print Assumptions premises_nonvacuous.

(* non-vacuity of the theorems about sites inside declarations: a document with an alias, an enum (comment, attribute, two values, the
   second with a comment) and a struct (two attributes; three members, the second with two attributes and a condition) in the default
   style meets the premises of every theorem of that part at the sites named below; the corrupted texts are rejected at the lines and
   columns the theorems state (here by evaluation of the model parser; lark reports the same positions) *)
Definition ex_u8 : intty := {| it_unsigned := true; it_size := 1; it_sizeref := None |}.
Definition ex2_alias : item := IDecl (DAlias "Amount" (LInt ex_u64) None).
Definition ex2_red : enum_value := {| ev_name := "RED"; ev_value := 1; ev_comment := None |}.
Definition ex2_blue : enum_value := {| ev_name := "BLUE"; ev_value := 2; ev_comment := Some "second"%string |}.
Definition ex2_bitwise : attribute := {| at_name := "is_bitwise"; at_values := [] |}.
Definition ex2_enum : item := IDecl (DEnum "Color" ex_u8 [ex2_red; ex2_blue] (Some [ex2_bitwise]) (Some "colors"%string)).
Definition ex2_aligned : attribute := {| at_name := "is_aligned"; at_values := [] |}.
Definition ex2_size : attribute := {| at_name := "size"; at_values := [AvStr "count"] |}.
Definition ex2_constrained : attribute := {| at_name := "is_byte_constrained"; at_values := [] |}.
Definition ex2_sort : attribute := {| at_name := "sort_key"; at_values := [AvStr "weight"] |}.
Definition ex2_cond : conditional := {| c_value := CvName "RED"; c_op := "equals"; c_link := "color" |}.
Definition ex2_count : field := Field "count" (FInt ex_u8) VNone DispNone None None.
Definition ex2_flag : field := Field "flag" (FInt ex_u8) (VCond ex2_cond) DispNone (Some [ex2_constrained; ex2_sort]) None.
Definition ex2_color : field := Field "color" (FName "Color") VNone DispNone None None.
Definition ex2_body : struct :=
  {| s_name := "Body"; s_disp := SdNone; s_fields := [ex2_count; ex2_flag; ex2_color];
     s_factory_type := None; s_attrs := Some [ex2_aligned; ex2_size]; s_comment := None; s_requires_unaligned := false |}.
Definition ex2_struct : item := IDecl (DStruct ex2_body).
Definition ex2_doc : list item := [ex2_alias; ex2_enum; ex2_struct].
Definition ex_pos (r : result (list item)) : Z * Z := match r with Error pos => (e_line pos, e_col pos) | _ => (0, 0) end.

Example site_premises_nonvacuous :
  let st := default_style in let pre2 := [ex2_alias; ex2_enum] in
  wf_style st = true /\ wf_doc ex2_doc = true
  /\ ex2_doc = pre2 ++ IDecl (DStruct ex2_body) :: [] /\ ex2_doc = [ex2_alias] ++ ex2_enum :: [ex2_struct] /\ ex2_doc = [] ++ ex2_alias :: [ex2_enum; ex2_struct]
  (* members: `flag = ...` is member 1 of the struct, with attributes in front; `count = uint8` is member 0 *)
  /\ (s_fields ex2_body = [ex2_count] ++ ex2_flag :: [ex2_color] /\ field_name ex2_flag = Some "flag"%string
      /\ member_line T_now st pre2 ex2_body [ex2_count] ex2_flag = 15%nat
      /\ ex_pos (parse (replace_line st ex2_doc 15 (of_string "flag ="))) = (16, 8)
      /\ first_prefix (cond_ops T_now) (of_string "zzq color") = None /\ stops is_ws (of_string "zzq color") = true /\ wf_prop T_now "flag"%string = true
      /\ ex_pos (parse (replace_line st ex2_doc 15 (of_string "flag = uint8 if RED zzq color"))) = (16, 22)
      /\ s_fields ex2_body = [] ++ ex2_count :: [ex2_flag; ex2_color]
      /\ forallb (fun x => negb (is_prefix x [50; 52])) (int_widths T_now) = true
      /\ ex_pos (parse (replace_line st ex2_doc 12 (of_string "count = uint24"))) = (13, 10)
      /\ strip_prefix (kw_if T_now) (of_string "zz") = None /\ ex_pos (parse (replace_line st ex2_doc 12 (of_string "count = uint8 zz"))) = (13, 16))
  (* attribute lines of the member `flag`: @is_byte_constrained (no pending attributes) and @sort_key(weight) (one pending) *)
  /\ (field_attrs ex2_flag = Some ([] ++ ex2_constrained :: [ex2_sort]) /\ field_attrs ex2_flag = Some ([ex2_constrained] ++ ex2_sort :: [])
      /\ member_attr_line T_now st pre2 ex2_body [ex2_count] ex2_flag [ex2_constrained] = 14%nat
      /\ find_attr (attr_tables T_now (Some CField)) (of_string "zzq(weight)") = None
      /\ ex_pos (parse (replace_line st ex2_doc 14 (of_string "@zzq(weight)"))) = (15, 3)
      /\ attr_kind T_now CField (of_string "is_byte_constrained") = Some AkZero
      /\ ex_pos (parse (replace_line st ex2_doc 13 (of_string "@is_byte_constrained(zz)"))) = (14, 22)
      /\ attr_kind T_now CField (of_string "sort_key") = Some AkSingle
      /\ ex_pos (parse (replace_line st ex2_doc 14 (of_string "@sort_key()"))) = (15, 12))
  (* enum values: BLUE is value 1, with a comment in front *)
  /\ ([ex2_red; ex2_blue] = [ex2_red] ++ ex2_blue :: []
      /\ value_line T_now st [ex2_alias] "Color" ex_u8 (Some [ex2_bitwise]) (Some "colors"%string) [ex2_red] ex2_blue = 7%nat
      /\ ex_pos (parse (replace_line st ex2_doc 7 (of_string "BLUE ="))) = (8, 8)
      /\ ex_pos (parse (replace_line st ex2_doc 7 (of_string "blue = 2"))) = (8, 2))
  (* top level: keyword lines of the alias (0), the enum (4, after comment and attribute), the struct (11, after two attributes);
     attribute lines of the struct (9, 10) *)
  /\ (keyword_line T_now st [] ex2_alias = 0%nat /\ keyword_line T_now st [ex2_alias] ex2_enum = 4%nat /\ keyword_line T_now st pre2 ex2_struct = 11%nat
      /\ ex_pos (parse (replace_line st ex2_doc 0 (of_string "using Amount ="))) = (1, 15)
      /\ ex_pos (parse (replace_line st ex2_doc 4 (of_string "enum Color : uint128"))) = (5, 14)
      /\ raw_type T_now (of_string "color : uint8") = None /\ ex_pos (parse (replace_line st ex2_doc 4 (of_string "enum color : uint8"))) = (5, 6)
      /\ raw_type T_now (of_string "B") = None /\ ex_pos (parse (replace_line st ex2_doc 11 (of_string "struct B"))) = (12, 8)
      /\ raw_type T_now (of_string "BODY") = None /\ ex_pos (parse (replace_line st ex2_doc 11 (of_string "struct BODY"))) = (12, 8)
      /\ first_prefix (struct_modifiers T_now) (of_string "zzq Color : uint8") = None
      /\ ex_pos (parse (replace_line st ex2_doc 4 (of_string "zzq Color : uint8"))) = (5, 1)
      /\ item_attr_list ex2_struct = [ex2_aligned] ++ ex2_size :: [] /\ item_attr_list ex2_struct = [] ++ ex2_aligned :: [ex2_size]
      /\ attribute_line T_now st pre2 ex2_struct [ex2_aligned] = 10%nat
      /\ find_attr (attr_tables T_now (pa_ctx (pa_of (item_ctx ex2_struct) [ex2_aligned]))) (of_string "zzq(count)") = None
      /\ ex_pos (parse (replace_line st ex2_doc 10 (of_string "@zzq(count)"))) = (11, 2)
      /\ attr_kind T_now (item_ctx ex2_struct) (of_string "is_aligned") = Some AkZero
      /\ ex_pos (parse (replace_line st ex2_doc 9 (of_string "@is_aligned(zz)"))) = (10, 12)
      /\ attr_kind T_now (item_ctx ex2_struct) (of_string "size") = Some AkSingle
      /\ ex_pos (parse (replace_line st ex2_doc 10 (of_string "@size()"))) = (11, 7)
      /\ ex_pos (parse (insert_line st ex2_doc 11 member_text)) = (12, 1) /\ ex_pos (parse (insert_line st ex2_doc 10 member_text)) = (11, 1)
      /\ fixed_arity AkSingle = true /\ removelast (r_attr T_now st CStruct ex2_size) = of_string "@size(count"
      /\ ex_pos (parse (replace_line st ex2_doc 10 (of_string "@size(count"))) = (11, 12)
      /\ removelast (r_attr T_now st CField ex2_sort) = of_string "@sort_key(weight"
      /\ ex_pos (parse (replace_line st ex2_doc 14 (of_string "@sort_key(weight"))) = (15, 18)).
Proof. vm_compute. repeat split; reflexivity. Qed.
Print Assumptions site_premises_nonvacuous.

(* non-vacuity of the final-line-end theorem for a document that ends with a free comment (two comment lines) *)
Example final_comment_nonvacuous :
  let ds := [ex2_alias; IComment "first line
second line"%string] in
  wf_doc ds = true /\ ds = [ex2_alias] ++ [IComment "first line
second line"%string]
  /\ parse (delete_final_line_end (render default_style ds)) = Error {| e_line := 3; e_col := 0; e_kind := EEnd |}.
Proof. vm_compute. repeat split; reflexivity. Qed.

(* non-vacuity, second document: an alias of a buffer, an enum without attributes, a struct with a `comparer` attribute (two pairs, the
   second with a transform) and a constant, a plain, a reserved and an array member *)
Definition ex_u16 : intty := {| it_unsigned := true; it_size := 2; it_sizeref := None |}.
Definition ex_u32 : intty := {| it_unsigned := true; it_size := 4; it_sizeref := None |}.
Definition ex3_alias : item := IDecl (DAlias "Key" (LBuffer 32) None).
Definition ex3_alpha : enum_value := {| ev_name := "ALPHA"; ev_value := 1; ev_comment := None |}.
Definition ex3_enum : item := IDecl (DEnum "Kind" ex_u8 [ex3_alpha] None None).
Definition ex3_comparer : attribute := {| at_name := "comparer"; at_values := [AvStr "weight"; AvNone; AvStr "key"; AvStr "ripemd_keccak_256"] |}.
Definition ex3_tag : field := Field "TAG" (FInt ex_u8) (VNum 7) DispConst None None.
Definition ex3_weight : field := Field "weight" (FInt ex_u16) VNone DispNone None None.
Definition ex3_padding : field := Field "padding" (FInt ex_u32) (VNum 0) DispReserved None None.
Definition ex3_items : field := Field "items" (FArray (mk_array (ElInt ex_u8) (SzName "weight"))) VNone DispNone None None.
Definition ex3_item : struct :=
  {| s_name := "Item"; s_disp := SdNone; s_fields := [ex3_tag; ex3_weight; ex3_padding; ex3_items];
     s_factory_type := None; s_attrs := Some [ex3_comparer]; s_comment := None; s_requires_unaligned := false |}.
Definition ex3_struct : item := IDecl (DStruct ex3_item).
Definition ex3_doc : list item := [ex3_alias; ex3_enum; ex3_struct].

Example site_premises_nonvacuous_2 :
  let st := default_style in let pre2 := [ex3_alias; ex3_enum] in
  wf_style st = true /\ wf_doc ex3_doc = true
  /\ ex3_doc = pre2 ++ IDecl (DStruct ex3_item) :: [] /\ ex3_doc = [ex3_alias] ++ ex3_enum :: [ex3_struct] /\ ex3_doc = [] ++ ex3_alias :: [ex3_enum; ex3_struct]
  (* keyword lines: type-name suffix on the three kinds of declarations, unknown function and width on the alias *)
  /\ (keyword_line T_now st [] ex3_alias = 0%nat /\ keyword_line T_now st [ex3_alias] ex3_enum = 2%nat /\ keyword_line T_now st pre2 ex3_struct = 6%nat
      /\ type_rest 95 = false /\ type_rest 45 = false /\ type_rest 46 = false
      /\ ex_pos (parse (replace_line st ex3_doc 0 (of_string "using Key_x = binary_fixed(32)"))) = (1, 10)
      /\ ex_pos (parse (replace_line st ex3_doc 2 (of_string "enum Kind-x : uint8"))) = (3, 10)
      /\ ex_pos (parse (replace_line st ex3_doc 6 (of_string "struct Item.x"))) = (7, 12)
      /\ raw_intty T_now (of_string "zzq(32)") = None /\ strip_prefix (kw_binary_fixed T_now) (of_string "zzq(32)") = None
      /\ ex_pos (parse (replace_line st ex3_doc 0 (of_string "using Key = zzq(32)"))) = (1, 13))
  (* the attribute line of the struct: unknown transform in the second pair *)
  /\ (item_attr_list ex3_struct = [] ++ ex3_comparer :: [] /\ attribute_line T_now st pre2 ex3_struct [] = 5%nat
      /\ attr_kind T_now (item_ctx ex3_struct) (of_string "comparer") = Some AkTransform
      /\ forallb (wf_prop T_now) ["weight"%string] = true /\ wf_prop T_now "key"%string = true
      /\ first_prefix (transform_names T_now) (of_string "zzq)") = None
      /\ 64 :: of_string "comparer" ++ 40 :: props_text ["weight"%string] ++ of_string "key" ++ [33] ++ of_string "zzq)" = of_string "@comparer(weight, key!zzq)"
      /\ ex_pos (parse (replace_line st ex3_doc 5 (of_string "@comparer(weight, key!zzq)"))) = (6, 23))
  (* members: constant (7), plain (8), reserved (9), array (10) *)
  /\ (s_fields ex3_item = [] ++ ex3_tag :: [ex3_weight; ex3_padding; ex3_items] /\ member_line T_now st pre2 ex3_item [] ex3_tag = 7%nat
      /\ strip_prefix (kw_make_const T_now) (of_string "zzq(uint8, 7)") = None
      /\ ex_pos (parse (replace_line st ex3_doc 7 (of_string "TAG = zzq(uint8, 7)"))) = (8, 8)
      /\ const_rest 45 = false /\ ex_pos (parse (replace_line st ex3_doc 7 (of_string "TAG-X = make_const(uint8, 7)"))) = (8, 5)
      /\ s_fields ex3_item = [ex3_tag] ++ ex3_weight :: [ex3_padding; ex3_items] /\ member_line T_now st pre2 ex3_item [ex3_tag] ex3_weight = 8%nat
      /\ field_name ex3_weight = Some "weight"%string /\ wf_prop T_now "weight"%string = true /\ prop_rest 88 = false
      /\ ex_pos (parse (replace_line st ex3_doc 8 (of_string "weightXx = uint16"))) = (9, 8)
      /\ raw_prop T_now (of_string "w = uint16") = None /\ raw_const T_now (of_string "w = uint16") = None
      /\ ex_pos (parse (replace_line st ex3_doc 8 (of_string "w = uint16"))) = (9, 2)
      /\ raw_prop T_now (of_string "Weight = uint16") = None /\ raw_const T_now (of_string "Weight = uint16") = None
      /\ ex_pos (parse (replace_line st ex3_doc 8 (of_string "Weight = uint16"))) = (9, 2)
      /\ s_fields ex3_item = [ex3_tag; ex3_weight] ++ ex3_padding :: [ex3_items] /\ field_name ex3_padding = Some "padding"%string
      /\ raw_type T_now (of_string "zzq(uint32, 0)") = None /\ raw_intty T_now (of_string "zzq(uint32, 0)") = None
      /\ strip_prefix (kw_array T_now) (of_string "zzq(uint32, 0)") = None /\ strip_prefix (kw_make_reserved T_now) (of_string "zzq(uint32, 0)") = None
      /\ strip_prefix (kw_sizeof T_now) (of_string "zzq(uint32, 0)") = None /\ strip_prefix (kw_inline_field T_now) (of_string "zzq(uint32, 0)") = None
      /\ ex_pos (parse (replace_line st ex3_doc 9 (of_string "padding = zzq(uint32, 0)"))) = (10, 12)
      /\ ex_pos (parse (replace_line st ex3_doc 10 (of_string "items = zzq(uint8, weight)"))) = (11, 10))
  (* the value line of the enum *)
  /\ ([ex3_alpha] = [] ++ ex3_alpha :: [] /\ value_line T_now st [ex3_alias] "Kind" ex_u8 None None [] ex3_alpha = 3%nat
      /\ const_rest 120 = false /\ ex_pos (parse (replace_line st ex3_doc 3 (of_string "ALPHAxX = 1"))) = (4, 7))
  (* missing `(`: the attribute of the struct, the constant / reserved / array members, the alias of a buffer *)
  /\ (strip_prefix [40] (of_string "weight, key)") = None /\ ex_pos (parse (replace_line st ex3_doc 5 (of_string "@comparerweight, key)"))) = (6, 10)
      /\ call_word T_now ex3_tag = Some (kw_make_const T_now) /\ call_word T_now ex3_padding = Some (kw_make_reserved T_now)
      /\ call_word T_now ex3_items = Some (kw_array T_now) /\ of_string "items" <> value_placeholder T_now
      /\ ex_pos (parse (replace_line st ex3_doc 7 (of_string "TAG = make_constuint8, 7)"))) = (8, 18)
      /\ ex_pos (parse (replace_line st ex3_doc 9 (of_string "padding = make_reserveduint32, 0)"))) = (10, 25)
      /\ ex_pos (parse (replace_line st ex3_doc 10 (of_string "items = arrayuint8, weight)"))) = (11, 15)
      /\ ex_pos (parse (replace_line st ex3_doc 0 (of_string "using Key = binary_fixed32)"))) = (1, 25)).
Proof. vm_compute. repeat split; try reflexivity; discriminate. Qed.
Print Assumptions site_premises_nonvacuous_2.

(* non-vacuity for members named `__value__`: a struct whose only member is `__value__ = uint8 if RED equals color` *)
Definition ex4_value : field := Field "__value__" (FInt ex_u8) (VCond ex2_cond) DispNone None None.
Definition ex4_struct : struct :=
  {| s_name := "Flag"; s_disp := SdInline; s_fields := [ex4_value];
     s_factory_type := None; s_attrs := None; s_comment := None; s_requires_unaligned := false |}.
Definition ex4_doc : list item := [IDecl (DStruct ex4_struct)].
Example value_member_nonvacuous :
  let st := default_style in
  wf_doc ex4_doc = true /\ ex4_doc = [] ++ IDecl (DStruct ex4_struct) :: [] /\ s_fields ex4_struct = [] ++ ex4_value :: []
  /\ of_string "__value__" = value_placeholder T_now /\ member_line T_now st [] ex4_struct [] ex4_value = 1%nat
  /\ ex_pos (parse (replace_line st ex4_doc 1 (of_string "__value__ = uint8 if RED zzq color"))) = (2, 27)
  /\ ex_pos (parse (replace_line st ex4_doc 1 (of_string "__value__ = zzq(uint8)"))) = (2, 14)
  /\ ex_pos (parse (replace_line st ex4_doc 1 (of_string "__value__ ="))) = (2, 13).
Proof. vm_compute. repeat split; reflexivity. Qed.
