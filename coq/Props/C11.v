(* C11 -- ill-formed CATS text is rejected, never silently accepted.
   Only statements; each closed by `exact` / instantiation of a lemma of Cats/SyntaxProofs.v with T_now, the sets regenerated from
   /repo.  `parse` is the model of create_cats_lark_parser().parse (Cats/Syntax.v); its errors carry the position lark reports.

   Corrupted documents are written as `document st ds` (= render st ds) with one physical line edited:
     replace_line st ds k c'   the statement line k (0-based) gets the content c' (indentation and line end are kept)
     insert_line st ds k c'    a new line with content c' at column 0 is inserted in front of line k
   and sites are top-level items: site_line st ds j is the physical line of the first statement line of item j (after its comment).

   FULL STATEMENT (kept visible; proved below only for the sites named in each theorem, hence `_partial`):
     for every operator k of the catalogue of harness/checks/c04.py (width-24/7/128, type-name-lower-case, type-name-all-caps,
     member-name-capitalised, const-name-lower-case, member-/type-name-too-short, unknown-keyword/-function/-attribute/-transform/
     -condition-operator, deleted-operand/-parenthesis/-comma, deleted-final-line-end, two-statements-on-one-line,
     member-outside-declaration, struct-without-members, attribute-with-extra-argument/-without-arguments, trailing-text),
     every wf_doc ds, style st and applicable site:
       exists pos, parse (corrupt_k site (render st ds)) = Error pos /\ e_line pos = expected_line k site.
   Proved here: width, case class, unknown attribute, member outside a declaration -- at the first statement line of any top-level
   item (any position in the document, any style), via one generic theorem (`replaced_statement_rejected`: ANY content the top-level
   parser rejects, at that site, is rejected with that line and the column of the offending token).  Not proved (differential runs
   only): sites inside struct / enum bodies, deleted-final-line-end, struct-without-members and the remaining operators. *)
From Coq Require Import Lia ZifyBool.
From Symv Require Import Base.Bytes Cats.Ast Cats.Syntax Cats.SyntaxLexProofs Cats.SyntaxProofs.
Open Scope Z_scope.

Lemma terminals_ok : terms_ok T_now = true.
Proof. vm_compute. reflexivity. Qed.

Definition document (st : style) (ds : list item) : list Z := text_of (style_cr st) (tlines T_now st ds).
Definition replace_line (st : style) (ds : list item) (k : nat) (c' : list Z) : list Z :=
  text_of (style_cr st) (replace_stmt k c' (tlines T_now st ds)).
Definition insert_line (st : style) (ds : list item) (k : nat) (c' : list Z) : list Z :=
  text_of (style_cr st) (insert_stmt k c' (tlines T_now st ds)).

Theorem document_is_render : forall st ds, document st ds = render st ds.
Proof. intros st ds. symmetry. exact (SyntaxProofs.render_text_of T_now st ds). Qed.
Print Assumptions document_is_render.

(* [core] an error in any logical line is never dropped: once the automaton has stopped at a line, whatever follows is irrelevant *)
Theorem parse_error_propagates : forall st stack ac i l1 j d,
  mrun T_now st stack ac i l1 = MErr j d -> forall l2, machine T_now st stack ac i (l1 ++ l2) = MErr j d.
Proof. exact (SyntaxProofs.machine_error_propagates T_now). Qed.
Print Assumptions parse_error_propagates.

(* [core] parse is total and returns one verdict for the whole text; a successful run has gone through every logical line, so no
   prefix or remainder of a rejected text is ever returned as a successful parse *)
Theorem no_prefix_success : forall st stack ac i ls v,
  machine T_now st stack ac i ls = MOk v -> forall l1 l2, ls = l1 ++ l2 -> exists s, mrun T_now st stack ac i l1 = MOk s.
Proof. exact (SyntaxProofs.machine_success_ran_every_line T_now). Qed.
Print Assumptions no_prefix_success.

Theorem parse_one_verdict : forall text v e, parse text = Ok v -> parse text <> Error e.
Proof. intros text v e H1 H2. rewrite H1 in H2. discriminate. Qed.
Print Assumptions parse_one_verdict.

(* the generic rejection theorem with the two facts about the tree it needs as premises *)
Theorem replaced_statement_rejected_if : forall st ds j it c' s,
  comment_merged T_now = false -> (st_crlf st = true -> in_set (comment_strip T_now) 13 = true) ->
  wf_style st = true -> wf_doc ds = true -> nth_error ds j = Some it -> (forall c, it <> IComment c) ->
  pline_ok (PStmt [] c') = true -> (forall ac, parse_top_line T_now None ac c' = LErr s) ->
  parse (replace_line st ds (site_line T_now st ds j) c')
  = Error {| e_line := 1 + Z.of_nat (site_line T_now st ds j); e_col := 1 + len c' - len s; e_kind := EToken |}.
Proof.
  intros st ds j it c' s Hm Hcr. apply (SyntaxProofs.replaced_statement_rejected T_now terminals_ok Hm).
  unfold cr_ok, style_cr. destruct (st_crlf st); [right; split; [reflexivity|apply Hcr; reflexivity]|left; reflexivity].
Qed.
Print Assumptions replaced_statement_rejected_if.

Definition cr_fact (st : style) : st_crlf st = true -> in_set (comment_strip T_now) 13 = true := fun _ => eq_refl.

(* [core] unsupported integer width: `using Name = uint24` (also int7, uint128) at any alias declaration *)
Theorem corrupt_rejected_width_partial : forall st ds j n i c w,
  In w [[50; 52]; [55]; [49; 50; 56]] ->
  wf_style st = true -> wf_doc ds = true -> nth_error ds j = Some (IDecl (DAlias n (LInt i) c)) ->
  exists pos, parse (replace_line st ds (site_line T_now st ds j) (alias_head T_now n ++ int_prefix T_now i ++ w)) = Error pos
    /\ e_line pos = 1 + Z.of_nat (site_line T_now st ds j) /\ e_col pos = 1 + len (alias_head T_now n).
Proof.
  intros st ds j n i c w Hw Hst Hwf Hn.
  assert (Htype : wf_type T_now n = true).
  { destruct (SyntaxProofs.wf_doc_items T_now ds Hwf) as [Hitems _]. pose proof (SyntaxProofs.wf_nth T_now j ds _ Hitems Hn) as Hit.
    cbn [wf_item wf_decl] in Hit. apply andb_true_iff in Hit as [Hit _]. apply andb_true_iff in Hit as [Hit _]. exact Hit. }
  assert (Hwidth : forallb (fun x => negb (is_prefix x w)) (int_widths T_now) = true /\ plainc w = true).
  { cbn [In] in Hw. destruct Hw as [<-|[<-|[<-|[]]]]; split; vm_compute; reflexivity. }
  destruct Hwidth as [Hwd Hpl].
  eexists. split.
  - apply (replaced_statement_rejected_if st ds j _ _ (int_prefix T_now i ++ w) eq_refl (cr_fact st) Hst Hwf Hn).
    + intros c0 H. discriminate.
    + apply (SyntaxProofs.pline_ok_bad_width T_now terminals_ok n i w Htype Hpl).
    + intro ac. apply (SyntaxProofs.alias_bad_width T_now terminals_ok eq_refl ac n i w Htype Hwd).
  - cbn [e_line e_col]. split; [reflexivity|]. unfold len. rewrite !app_length. lia.
Qed.
Print Assumptions corrupt_rejected_width_partial.

(* [core] wrong case class: the type name of an alias declaration in lower case *)
Theorem corrupt_rejected_case_partial : forall st ds j n l c,
  wf_style st = true -> wf_doc ds = true -> nth_error ds j = Some (IDecl (DAlias n l c)) ->
  let rest := [32; 61; 32] ++ r_linked T_now st l in
  exists pos, parse (replace_line st ds (site_line T_now st ds j) (kw_using T_now ++ [32] ++ lower_first (of_string n) ++ rest)) = Error pos
    /\ e_line pos = 1 + Z.of_nat (site_line T_now st ds j) /\ e_col pos = 2 + len (kw_using T_now).
Proof.
  intros st ds j n l c Hst Hwf Hn rest.
  destruct (SyntaxProofs.wf_doc_items T_now ds Hwf) as [Hitems _]. pose proof (SyntaxProofs.wf_nth T_now j ds _ Hitems Hn) as Hit.
  cbn [wf_item wf_decl] in Hit. apply andb_true_iff in Hit as [Hit Hl]. apply andb_true_iff in Hit as [Htype _].
  assert (Hrest : plainc rest = true).
  { pose proof (SyntaxProofs.stmt_ok_alias T_now terminals_ok st n l Htype Hl) as Hok. cbn [pline_ok] in Hok.
    apply andb_true_iff in Hok as [_ Hok]. unfold r_alias in Hok. rewrite !plainc_app in Hok.
    apply andb_true_iff in Hok as [_ Hok]. apply andb_true_iff in Hok as [_ Hok]. apply andb_true_iff in Hok as [_ Hok].
    subst rest. rewrite plainc_app. exact Hok. }
  eexists. split.
  - apply (replaced_statement_rejected_if st ds j _ _ (lower_first (of_string n) ++ rest) eq_refl (cr_fact st) Hst Hwf Hn).
    + intros c0 H. discriminate.
    + apply (SyntaxProofs.pline_ok_bad_case T_now terminals_ok eq_refl n rest Htype Hrest).
    + intro ac. apply (SyntaxProofs.alias_bad_case T_now terminals_ok eq_refl ac n rest Htype).
  - cbn [e_line e_col]. split; [reflexivity|]. unfold len. rewrite !app_length. cbn [length]. lia.
Qed.
Print Assumptions corrupt_rejected_case_partial.

(* [core] unknown attribute: `@Q...` (no attribute name starts with a capital letter) in place of the first statement line of any
   top-level declaration or import *)
Theorem corrupt_rejected_attribute_partial : forall st ds j it r,
  wf_style st = true -> wf_doc ds = true -> nth_error ds j = Some it -> (forall c, it <> IComment c) -> plainc r = true ->
  exists pos, parse (replace_line st ds (site_line T_now st ds j) (64 :: 81 :: r)) = Error pos
    /\ e_line pos = 1 + Z.of_nat (site_line T_now st ds j) /\ e_col pos = 2.
Proof.
  intros st ds j it r Hst Hwf Hn Hnc Hr. eexists. split.
  - apply (replaced_statement_rejected_if st ds j it _ (81 :: r) eq_refl (cr_fact st) Hst Hwf Hn Hnc).
    + cbn [pline_ok ws_only forallb andb head_stmt plainc]. cbn [plainc forallb] in *. unfold plainc in Hr. rewrite Hr. reflexivity.
    + intro ac. apply (SyntaxProofs.attr_unknown T_now terminals_ok eq_refl ac r).
  - cbn [e_line e_col]. split; [reflexivity|]. unfold len. cbn [length]. lia.
Qed.
Print Assumptions corrupt_rejected_attribute_partial.

(* [core] a member outside any declaration: `zz = uint8` at column 0 in front of any top-level item (or after the last one) *)
Definition member_text : list Z := [122; 122; 32; 61; 32; 117; 105; 110; 116; 56].
Theorem corrupt_rejected_member_outside_partial : forall st ds j,
  wf_style st = true -> wf_doc ds = true -> (j <= length ds)%nat ->
  exists pos, parse (insert_line st ds (length (tlines T_now st (firstn j ds))) member_text) = Error pos
    /\ e_line pos = 1 + Z.of_nat (length (tlines T_now st (firstn j ds))) /\ e_col pos = 1.
Proof.
  intros st ds j Hst Hwf Hj. eexists. split.
  - apply (SyntaxProofs.inserted_member_rejected T_now terminals_ok eq_refl st ds j member_text member_text).
    + unfold cr_ok, style_cr. destruct (st_crlf st); [right; split; reflexivity|left; reflexivity].
    + exact Hst.
    + exact Hwf.
    + exact Hj.
    + vm_compute. reflexivity.
    + intros [|]; vm_compute; reflexivity.
  - cbn [e_line e_col]. split; [reflexivity|]. unfold len. lia.
Qed.
Print Assumptions corrupt_rejected_member_outside_partial.

(* non-vacuity *)
Example rejected_example :
  parse [117; 115; 105; 110; 103; 32; 70; 111; 111; 32; 61; 32; 117; 105; 110; 116; 50; 52; 10]
  = Error {| e_line := 1; e_col := 13; e_kind := EToken |}.
Proof. vm_compute. reflexivity. Qed.
