(* C11 -- ill-formed CATS text is rejected, never silently accepted.
   Only statements; each closed by `exact` / instantiation of a lemma of Cats/SyntaxProofs.v with T_now, the sets regenerated from
   /repo.  `parse` is the model of create_cats_lark_parser().parse (Cats/Syntax.v); its errors carry the position lark reports.

   Corrupted documents are written as `document st ds` (= render st ds) with one physical line edited:
     replace_line st ds k c'   the statement line k (0-based) gets the content c' (indentation and line end are kept)
     insert_line st ds k c'    a new line with content c' at column 0 is inserted in front of line k
   and sites are top-level items: site_line st ds j is the physical line of the first statement line of item j (after its comment).

   FULL STATEMENT (kept visible):
     for every operator k of the catalogue of harness/checks/c04.py, every wf_doc ds, style st and applicable site:
       exists pos, parse (corrupt_k site (render st ds)) = Error pos /\ e_line pos = expected_line k site.

   WHAT IS PROVED (all Qed, closed under the global context; every theorem is for every style: LF / CR LF, any indentation,
   decimal / hexadecimal numerals, blank lines):
   * parse_error_propagates, no_prefix_success, parse_one_verdict.
   * Two generic theorems from which the operator theorems are instances:
       statement_line_replaced_if   ANY statement line of the rendered document (top level, struct body, enum body; k = its
                                    0-based physical line) replaced by a content that the automaton rejects in every state in
                                    which the original line is accepted: rejected, error line k + 1.  (The automaton reaches
                                    the line in the same state as in the good run, which exists because the document parses.)
       replaced_statement_rejected_if  the first statement line of a top-level item replaced by a content the top-level parser
                                    rejects: rejected with that line AND the column of the offending token.
   * Operators, complete for all their sites:
       corrupt_rejected_attribute                unknown attribute `@Q...` in place of ANY statement line (hence of every
                                                 attribute line of declarations, members and enums)
       corrupt_rejected_type_name_lower_case     type name in lower case on ANY `using` / `enum` / `[modifier] struct` line
       corrupt_rejected_struct_without_members   the member lines (and the blank lines after them) of ANY struct deleted;
                                                 error line = the next statement / comment line, or the header line at the end
       corrupt_rejected_member_outside_partial   (unchanged) a member line at column 0 in front of any top-level item: complete
                                                 for the operator `member-outside-declaration` restricted to item boundaries
   * Operators with a named gap (`_partial`):
       corrupt_rejected_final_line_end_partial   the text with all trailing CR / LF removed (a function on texts:
                                                 delete_final_line_end = rstrip "\r\n"); GAP: documents whose last item is a free comment
       corrupt_rejected_width_partial            width 24 / 7 / 128 on alias lines (with the column)
       corrupt_rejected_width_member_partial     width 24 / 7 / 128 on ANY member line `name = [u]intW`;
                                                 GAP of the width operator: `enum Name : [u]intW` header lines and members named `__value__`
       corrupt_rejected_case_partial             (alias lines, with the column; superseded for the line by the complete theorem above)
       corrupt_rejected_attribute_partial        (first-statement sites, with the column)
       corrupt_rejected_type_name_suffix_partial a character outside [A-Za-z0-9] (not blank, not `=`) and more text appended to the
                                                 type name of an alias; GAP: `enum` / `struct` lines
   * Not proved (differential runs only): the remaining operators of the catalogue (member / constant name classes, too-short
     names, unknown keyword / function / transform / condition operator, deleted operand / parenthesis / comma,
     two statements on one line, attribute arity, trailing text, indented top-level lines, over-indented members). *)
From Coq Require Import Lia ZifyBool.
From Symv Require Import Base.Bytes Cats.Ast Cats.Syntax Cats.SyntaxLexProofs Cats.SyntaxProofs Cats.SyntaxRejectProofs.
Open Scope Z_scope.

Lemma terminals_ok : terms_ok T_now = true.
Proof. vm_compute. reflexivity. Qed.

Definition document (st : style) (ds : list item) : list Z := text_of (style_cr st) (tlines T_now st ds).
Definition replace_line (st : style) (ds : list item) (k : nat) (c' : list Z) : list Z :=
  text_of (style_cr st) (replace_stmt k c' (tlines T_now st ds)).
Definition insert_line (st : style) (ds : list item) (k : nat) (c' : list Z) : list Z :=
  text_of (style_cr st) (insert_stmt k c' (tlines T_now st ds)).

Theorem document_is_render : forall st ds, document st ds = render st ds.
Proof. intros st ds. symmetry. exact (SyntaxProofs.render_text_of T_now st ds). Qed.
Print Assumptions document_is_render.

(* [core] an error in any logical line is never dropped: once the automaton has stopped at a line, whatever follows is irrelevant *)
Theorem parse_error_propagates : forall st stack ac i l1 j d,
  mrun T_now st stack ac i l1 = MErr j d -> forall l2, machine T_now st stack ac i (l1 ++ l2) = MErr j d.
Proof. exact (SyntaxProofs.machine_error_propagates T_now). Qed.
Print Assumptions parse_error_propagates.

(* [core] parse is total and returns one verdict for the whole text; a successful run has gone through every logical line, so no
   prefix or remainder of a rejected text is ever returned as a successful parse *)
Theorem no_prefix_success : forall st stack ac i ls v,
  machine T_now st stack ac i ls = MOk v -> forall l1 l2, ls = l1 ++ l2 -> exists s, mrun T_now st stack ac i l1 = MOk s.
Proof. exact (SyntaxProofs.machine_success_ran_every_line T_now). Qed.
Print Assumptions no_prefix_success.

Theorem parse_one_verdict : forall text v e, parse text = Ok v -> parse text <> Error e.
Proof. intros text v e H1 H2. rewrite H1 in H2. discriminate. Qed.
Print Assumptions parse_one_verdict.

(* the generic rejection theorem with the two facts about the tree it needs as premises *)
Theorem replaced_statement_rejected_if : forall st ds j it c' s,
  comment_merged T_now = false -> (st_crlf st = true -> in_set (comment_strip T_now) 13 = true) ->
  wf_style st = true -> wf_doc ds = true -> nth_error ds j = Some it -> (forall c, it <> IComment c) ->
  pline_ok (PStmt [] c') = true -> (forall ac, parse_top_line T_now None ac c' = LErr s) ->
  parse (replace_line st ds (site_line T_now st ds j) c')
  = Error {| e_line := 1 + Z.of_nat (site_line T_now st ds j); e_col := 1 + len c' - len s; e_kind := EToken |}.
Proof.
  intros st ds j it c' s Hm Hcr. apply (SyntaxProofs.replaced_statement_rejected T_now terminals_ok Hm).
  unfold cr_ok, style_cr. destruct (st_crlf st); [right; split; [reflexivity|apply Hcr; reflexivity]|left; reflexivity].
Qed.
Print Assumptions replaced_statement_rejected_if.

Definition cr_fact (st : style) : st_crlf st = true -> in_set (comment_strip T_now) 13 = true := fun _ => eq_refl.

(* [core] unsupported integer width: `using Name = uint24` (also int7, uint128) at any alias declaration *)
Theorem corrupt_rejected_width_partial : forall st ds j n i c w,
  In w [[50; 52]; [55]; [49; 50; 56]] ->
  wf_style st = true -> wf_doc ds = true -> nth_error ds j = Some (IDecl (DAlias n (LInt i) c)) ->
  exists pos, parse (replace_line st ds (site_line T_now st ds j) (alias_head T_now n ++ int_prefix T_now i ++ w)) = Error pos
    /\ e_line pos = 1 + Z.of_nat (site_line T_now st ds j) /\ e_col pos = 1 + len (alias_head T_now n).
Proof.
  intros st ds j n i c w Hw Hst Hwf Hn.
  assert (Htype : wf_type T_now n = true).
  { destruct (SyntaxProofs.wf_doc_items T_now ds Hwf) as [Hitems _]. pose proof (SyntaxProofs.wf_nth T_now j ds _ Hitems Hn) as Hit.
    cbn [wf_item wf_decl] in Hit. apply andb_true_iff in Hit as [Hit _]. apply andb_true_iff in Hit as [Hit _]. exact Hit. }
  assert (Hwidth : forallb (fun x => negb (is_prefix x w)) (int_widths T_now) = true /\ plainc w = true).
  { cbn [In] in Hw. destruct Hw as [<-|[<-|[<-|[]]]]; split; vm_compute; reflexivity. }
  destruct Hwidth as [Hwd Hpl].
  eexists. split.
  - apply (replaced_statement_rejected_if st ds j _ _ (int_prefix T_now i ++ w) eq_refl (cr_fact st) Hst Hwf Hn).
    + intros c0 H. discriminate.
    + apply (SyntaxProofs.pline_ok_bad_width T_now terminals_ok n i w Htype Hpl).
    + intro ac. apply (SyntaxProofs.alias_bad_width T_now terminals_ok eq_refl ac n i w Htype Hwd).
  - cbn [e_line e_col]. split; [reflexivity|]. unfold len. rewrite !app_length. lia.
Qed.
Print Assumptions corrupt_rejected_width_partial.

(* [core] wrong case class: the type name of an alias declaration in lower case *)
Theorem corrupt_rejected_case_partial : forall st ds j n l c,
  wf_style st = true -> wf_doc ds = true -> nth_error ds j = Some (IDecl (DAlias n l c)) ->
  let rest := [32; 61; 32] ++ r_linked T_now st l in
  exists pos, parse (replace_line st ds (site_line T_now st ds j) (kw_using T_now ++ [32] ++ lower_first (of_string n) ++ rest)) = Error pos
    /\ e_line pos = 1 + Z.of_nat (site_line T_now st ds j) /\ e_col pos = 2 + len (kw_using T_now).
Proof.
  intros st ds j n l c Hst Hwf Hn rest.
  destruct (SyntaxProofs.wf_doc_items T_now ds Hwf) as [Hitems _]. pose proof (SyntaxProofs.wf_nth T_now j ds _ Hitems Hn) as Hit.
  cbn [wf_item wf_decl] in Hit. apply andb_true_iff in Hit as [Hit Hl]. apply andb_true_iff in Hit as [Htype _].
  assert (Hrest : plainc rest = true).
  { pose proof (SyntaxProofs.stmt_ok_alias T_now terminals_ok st n l Htype Hl) as Hok. cbn [pline_ok] in Hok.
    apply andb_true_iff in Hok as [_ Hok]. unfold r_alias in Hok. rewrite !plainc_app in Hok.
    apply andb_true_iff in Hok as [_ Hok]. apply andb_true_iff in Hok as [_ Hok]. apply andb_true_iff in Hok as [_ Hok].
    subst rest. rewrite plainc_app. exact Hok. }
  eexists. split.
  - apply (replaced_statement_rejected_if st ds j _ _ (lower_first (of_string n) ++ rest) eq_refl (cr_fact st) Hst Hwf Hn).
    + intros c0 H. discriminate.
    + apply (SyntaxProofs.pline_ok_bad_case T_now terminals_ok eq_refl n rest Htype Hrest).
    + intro ac. apply (SyntaxProofs.alias_bad_case T_now terminals_ok eq_refl ac n rest Htype).
  - cbn [e_line e_col]. split; [reflexivity|]. unfold len. rewrite !app_length. cbn [length]. lia.
Qed.
Print Assumptions corrupt_rejected_case_partial.

(* [core] unknown attribute: `@Q...` (no attribute name starts with a capital letter) in place of the first statement line of any
   top-level declaration or import *)
Theorem corrupt_rejected_attribute_partial : forall st ds j it r,
  wf_style st = true -> wf_doc ds = true -> nth_error ds j = Some it -> (forall c, it <> IComment c) -> plainc r = true ->
  exists pos, parse (replace_line st ds (site_line T_now st ds j) (64 :: 81 :: r)) = Error pos
    /\ e_line pos = 1 + Z.of_nat (site_line T_now st ds j) /\ e_col pos = 2.
Proof.
  intros st ds j it r Hst Hwf Hn Hnc Hr. eexists. split.
  - apply (replaced_statement_rejected_if st ds j it _ (81 :: r) eq_refl (cr_fact st) Hst Hwf Hn Hnc).
    + cbn [pline_ok ws_only forallb andb head_stmt plainc]. cbn [plainc forallb] in *. unfold plainc in Hr. rewrite Hr. reflexivity.
    + intro ac. apply (SyntaxProofs.attr_unknown T_now terminals_ok eq_refl ac r).
  - cbn [e_line e_col]. split; [reflexivity|]. unfold len. cbn [length]. lia.
Qed.
Print Assumptions corrupt_rejected_attribute_partial.

(* [core] a member outside any declaration: `zz = uint8` at column 0 in front of any top-level item (or after the last one) *)
Definition member_text : list Z := [122; 122; 32; 61; 32; 117; 105; 110; 116; 56].
Theorem corrupt_rejected_member_outside_partial : forall st ds j,
  wf_style st = true -> wf_doc ds = true -> (j <= length ds)%nat ->
  exists pos, parse (insert_line st ds (length (tlines T_now st (firstn j ds))) member_text) = Error pos
    /\ e_line pos = 1 + Z.of_nat (length (tlines T_now st (firstn j ds))) /\ e_col pos = 1.
Proof.
  intros st ds j Hst Hwf Hj. eexists. split.
  - apply (SyntaxProofs.inserted_member_rejected T_now terminals_ok eq_refl st ds j member_text member_text).
    + unfold cr_ok, style_cr. destruct (st_crlf st); [right; split; reflexivity|left; reflexivity].
    + exact Hst.
    + exact Hwf.
    + exact Hj.
    + vm_compute. reflexivity.
    + intros [|]; vm_compute; reflexivity.
  - cbn [e_line e_col]. split; [reflexivity|]. unfold len. lia.
Qed.
Print Assumptions corrupt_rejected_member_outside_partial.

(* ------------------------------------------------------------------------------------------------------------------ *)
(* any statement line *)

(* the generic theorem: statement line k (0-based physical line of the rendered document, anywhere: top level, struct body,
   enum body) replaced by a content that is rejected in every state of the automaton in which the original line is accepted *)
Theorem statement_line_replaced_if : forall st ds k ind c c',
  comment_merged T_now = false -> (st_crlf st = true -> in_set (comment_strip T_now) 13 = true) ->
  wf_style st = true -> wf_doc ds = true ->
  nth_error (tlines T_now st ds) k = Some (PStmt ind c) -> pline_ok (PStmt ind c') = true ->
  (forall S ac u, on_stmt T_now S ac c = SOk u -> exists n, on_stmt T_now S ac c' = SErr (DStmt n)) ->
  exists pos, parse (replace_line st ds k c') = Error pos /\ e_line pos = 1 + Z.of_nat k.
Proof. intros st ds k ind c c' Hm. exact (SyntaxRejectProofs.statement_line_replaced T_now terminals_ok Hm st ds k ind c c'). Qed.
Print Assumptions statement_line_replaced_if.

(* [core] unknown attribute, complete: `@Q...` in place of ANY statement line of the document *)
Theorem corrupt_rejected_attribute : forall st ds k ind c r,
  wf_style st = true -> wf_doc ds = true -> nth_error (tlines T_now st ds) k = Some (PStmt ind c) -> plainc r = true ->
  exists pos, parse (replace_line st ds k (64 :: 81 :: r)) = Error pos /\ e_line pos = 1 + Z.of_nat k.
Proof.
  intros st ds k ind c r Hst Hwf Hn Hr.
  assert (Hind : ws_only ind = true).
  { destruct (SyntaxProofs.wf_doc_items T_now ds Hwf) as [Hitems _]. pose proof (SyntaxProofs.tlines_ok T_now terminals_ok st ds Hst Hitems) as Hall.
    rewrite forallb_forall in Hall. specialize (Hall _ (nth_error_In _ _ Hn)). cbn [pline_ok] in Hall.
    apply andb_true_iff in Hall as [Hall _]. apply andb_true_iff in Hall as [Hall _]. exact Hall. }
  apply (statement_line_replaced_if st ds k ind c (64 :: 81 :: r) eq_refl (cr_fact st) Hst Hwf Hn).
  - cbn [pline_ok head_stmt]. rewrite Hind. cbn [plainc forallb] in *. unfold plainc in Hr. rewrite Hr. reflexivity.
  - intros S ac u _. apply (SyntaxRejectProofs.unknown_attribute_rejected_everywhere T_now terminals_ok eq_refl r).
Qed.
Print Assumptions corrupt_rejected_attribute.

(* [core] unsupported width on ANY member line `name = [u]intW` (struct bodies; any position) *)
Theorem corrupt_rejected_width_member_partial : forall st ds k ind n i w,
  In w [[50; 52]; [55]; [49; 50; 56]] ->
  wf_style st = true -> wf_doc ds = true -> wf_prop T_now n = true ->
  nth_error (tlines T_now st ds) k = Some (PStmt ind (of_string n ++ [32; 61; 32] ++ r_int T_now i)) ->
  exists pos, parse (replace_line st ds k (of_string n ++ [32; 61; 32] ++ int_prefix T_now i ++ w)) = Error pos
    /\ e_line pos = 1 + Z.of_nat k.
Proof.
  intros st ds k ind n i w Hw Hst Hwf Hn Hnth.
  assert (Hind : ws_only ind = true).
  { destruct (SyntaxProofs.wf_doc_items T_now ds Hwf) as [Hitems _]. pose proof (SyntaxProofs.tlines_ok T_now terminals_ok st ds Hst Hitems) as Hall.
    rewrite forallb_forall in Hall. specialize (Hall _ (nth_error_In _ _ Hnth)). cbn [pline_ok] in Hall.
    apply andb_true_iff in Hall as [Hall _]. apply andb_true_iff in Hall as [Hall _]. exact Hall. }
  assert (Hwidth : forallb (fun x => negb (is_prefix x w)) (int_widths T_now) = true /\ plainc w = true /\ no_up_quote w = true).
  { cbn [In] in Hw. destruct Hw as [<-|[<-|[<-|[]]]]; repeat split; vm_compute; reflexivity. }
  destruct Hwidth as [Hwd [Hpl Hnu]].
  apply (statement_line_replaced_if st ds k ind _ _ eq_refl (cr_fact st) Hst Hwf Hnth).
  - apply (SyntaxRejectProofs.pline_ok_width_member T_now terminals_ok w ind n i Hind Hn Hpl).
  - intros S ac u _. apply (SyntaxRejectProofs.width_member_rejected_everywhere T_now terminals_ok eq_refl w Hwd n i Hn Hnu).
Qed.
Print Assumptions corrupt_rejected_width_member_partial.

(* [core] wrong case class, complete for `type-name-lower-case`: the type name in lower case on ANY `using Name ...`,
   `enum Name ...` or `[inline |abstract ]struct Name` line of the document (`rest` = what follows the name on the line) *)
Theorem corrupt_rejected_type_name_lower_case : forall st ds k form n rest,
  wf_style st = true -> wf_doc ds = true -> wf_type T_now n = true -> plainc rest = true ->
  nth_error (tlines T_now st ds) k = Some (PStmt [] (type_line_head T_now form ++ [32] ++ of_string n ++ rest)) ->
  exists pos, parse (replace_line st ds k (type_line_head T_now form ++ [32] ++ lower_name n ++ rest)) = Error pos
    /\ e_line pos = 1 + Z.of_nat k.
Proof.
  intros st ds k form n rest Hst Hwf Hn Hr Hnth.
  apply (statement_line_replaced_if st ds k [] _ _ eq_refl (cr_fact st) Hst Hwf Hnth).
  - apply (SyntaxRejectProofs.pline_ok_lower_type T_now terminals_ok eq_refl form n rest Hn Hr).
  - intros S ac u _. apply (SyntaxRejectProofs.lower_type_name_rejected_everywhere T_now terminals_ok eq_refl form n rest Hn).
Qed.
Print Assumptions corrupt_rejected_type_name_lower_case.

(* ------------------------------------------------------------------------------------------------------------------ *)
(* the final line end *)

(* [core] the document with its final line end deleted (all trailing CR / LF characters removed) is rejected at the end of the
   text; the error line is that of the last statement line.  GAP: documents whose last item is a free comment. *)
Theorem corrupt_rejected_final_line_end_partial : forall st ds0 it,
  wf_style st = true -> wf_doc (ds0 ++ [it]) = true -> (forall c, it <> IComment c) ->
  exists tl0 ind c n, tlines T_now st (ds0 ++ [it]) = tl0 ++ PStmt ind c :: blanks n
    /\ parse (delete_final_line_end (render st (ds0 ++ [it])))
       = Error {| e_line := 1 + Z.of_nat (length tl0); e_col := 0; e_kind := EEnd |}.
Proof.
  intros st ds0 it Hst Hwf Hnc.
  exact (SyntaxRejectProofs.final_line_end_rejected T_now terminals_ok st ds0 it eq_refl (cr_fact st) Hst Hwf Hnc).
Qed.
Print Assumptions corrupt_rejected_final_line_end_partial.

(* ------------------------------------------------------------------------------------------------------------------ *)
(* a struct without members *)

(* the rendered document without the member lines of the struct at position |pre| (and without the blank lines after them) *)
Definition struct_body_deleted (st : style) (pre : list item) (s : struct) (post : list item) : list Z :=
  text_of (style_cr st)
    (delete_lines (length (tlines T_now st pre ++ struct_head_lines T_now st s) + 1) (length (struct_body_lines T_now st s))
       (tlines T_now st (pre ++ IDecl (DStruct s) :: post))).

(* [core] complete for `struct-without-members`: for ANY struct of the document the text without its member lines is rejected;
   the error line is the line that follows the header (the next statement or comment), or the header line when nothing follows *)
Theorem corrupt_rejected_struct_without_members : forall st pre s post,
  wf_style st = true -> wf_doc (pre ++ IDecl (DStruct s) :: post) = true ->
  exists pos, parse (struct_body_deleted st pre s post) = Error pos
    /\ e_line pos = 1 + Z.of_nat (length (tlines T_now st pre ++ struct_head_lines T_now st s)) + match post with [] => 0 | _ => 1 end.
Proof.
  intros st pre s post Hst Hwf. unfold struct_body_deleted.
  rewrite (SyntaxRejectProofs.tlines_struct T_now st pre s post), (SyntaxRejectProofs.delete_lines_at T_now terminals_ok eq_refl).
  assert (Hcr : cr_ok T_now (style_cr st)).
  { unfold cr_ok, style_cr. destruct (st_crlf st); [right; split; reflexivity|left; reflexivity]. }
  destruct (SyntaxRejectProofs.struct_without_members_rejected T_now terminals_ok eq_refl st Hst Hcr pre s post Hwf) as [pos [E HL]].
  exists pos. unfold struct_head_lines. split; [exact E|exact HL].
Qed.
Print Assumptions corrupt_rejected_struct_without_members.

(* ------------------------------------------------------------------------------------------------------------------ *)
(* a type name followed by a character outside its class *)

(* [core] `using Name<ch>... = ...` where ch is not a letter or digit (e.g. `_`, `^`, `[`, `-`, `.`), not a blank and not `=`:
   the name token ends before ch and `=` is expected there; error at the column of ch.  GAP: `enum` / `struct` lines. *)
Theorem corrupt_rejected_type_name_suffix_partial : forall st ds j n l c ch tail,
  wf_style st = true -> wf_doc ds = true -> nth_error ds j = Some (IDecl (DAlias n l c)) ->
  type_rest ch = false -> is_ws ch = false -> ch <> 61 -> plainc (ch :: tail) = true ->
  exists pos, parse (replace_line st ds (site_line T_now st ds j) (kw_using T_now ++ [32] ++ of_string n ++ ch :: tail)) = Error pos
    /\ e_line pos = 1 + Z.of_nat (site_line T_now st ds j) /\ e_col pos = 2 + len (kw_using T_now) + len (of_string n).
Proof.
  intros st ds j n l c ch tail Hst Hwf Hn Hch Hws H61 Hp.
  destruct (SyntaxProofs.wf_doc_items T_now ds Hwf) as [Hitems _]. pose proof (SyntaxProofs.wf_nth T_now j ds _ Hitems Hn) as Hit.
  cbn [wf_item wf_decl] in Hit. apply andb_true_iff in Hit as [Hit _]. apply andb_true_iff in Hit as [Htype _].
  eexists. split.
  - apply (replaced_statement_rejected_if st ds j _ _ (ch :: tail) eq_refl (cr_fact st) Hst Hwf Hn).
    + intros c0 H. discriminate.
    + apply (SyntaxRejectProofs.pline_ok_name_suffix T_now terminals_ok n ch tail Htype Hp).
    + intro ac. apply (SyntaxRejectProofs.alias_name_suffix T_now terminals_ok eq_refl ac n ch tail Htype Hch Hws H61).
  - cbn [e_line e_col]. split; [reflexivity|]. unfold len. rewrite !app_length. cbn [length]. lia.
Qed.
Print Assumptions corrupt_rejected_type_name_suffix_partial.

(* non-vacuity *)
Example rejected_example :
  parse [117; 115; 105; 110; 103; 32; 70; 111; 111; 32; 61; 32; 117; 105; 110; 116; 50; 52; 10]
  = Error {| e_line := 1; e_col := 13; e_kind := EToken |}.
Proof. vm_compute. reflexivity. Qed.

(* non-vacuity of the corruption theorems: a three-item document (alias of an integer, struct with two members, alias of a buffer) in
   the default style meets the premises of every theorem above at the sites named below, and the corrupted texts are rejected at the
   stated lines (by evaluation of the model parser) *)
Definition ex_u64 : intty := {| it_unsigned := true; it_size := 8; it_sizeref := None |}.
Definition ex_i32 : intty := {| it_unsigned := false; it_size := 4; it_sizeref := None |}.
Definition ex_pair : struct :=
  {| s_name := "Pair"%string; s_disp := SdNone;
     s_fields := [Field "size"%string (FInt ex_i32) VNone DispNone None None; Field "amount"%string (FName "Amount"%string) VNone DispNone None None];
     s_factory_type := None; s_attrs := None; s_comment := None; s_requires_unaligned := false |}.
Definition ex_doc : list item :=
  [IDecl (DAlias "Amount"%string (LInt ex_u64) None); IDecl (DStruct ex_pair); IDecl (DAlias "Hash256"%string (LBuffer 32) None)].
Definition ex_line_of (r : result (list item)) : Z := match r with Error pos => e_line pos | _ => 0 end.

Example premises_nonvacuous :
  let st := default_style in let tl := tlines T_now st ex_doc in
  wf_style st = true /\ wf_doc ex_doc = true
  (* alias sites: width / case / suffix at item 0, attribute at item 2, member-outside at any j <= 3 *)
  /\ (In [50; 52] [[50; 52]; [55]; [49; 50; 56]] /\ nth_error ex_doc 0 = Some (IDecl (DAlias "Amount"%string (LInt ex_u64) None))
      /\ type_rest 95 = false /\ is_ws 95 = false /\ 95 <> 61 /\ plainc (95 :: [120]) = true
      /\ nth_error ex_doc 2 = Some (IDecl (DAlias "Hash256"%string (LBuffer 32) None)) /\ plainc [120] = true /\ (3 <= length ex_doc)%nat)
  (* any statement line: physical line 3 is the member line `size = int32`, lines 6 and 2 carry type names *)
  /\ (nth_error tl 3 = Some (PStmt (st_indent st) (of_string "size"%string ++ [32; 61; 32] ++ r_int T_now ex_i32)) /\ wf_prop T_now "size"%string = true
      /\ nth_error tl 6 = Some (PStmt [] (type_line_head T_now TLUsing ++ [32] ++ of_string "Hash256"%string ++ of_string " = binary_fixed(32)"%string))
      /\ wf_type T_now "Hash256"%string = true /\ plainc (of_string " = binary_fixed(32)"%string) = true
      /\ nth_error tl 2 = Some (PStmt [] (type_line_head T_now (TLStruct SdNone) ++ [32] ++ of_string "Pair"%string ++ []))
      /\ wf_type T_now "Pair"%string = true)
  (* final line end / struct without members: the shapes ds0 ++ [it] and pre ++ struct :: post *)
  /\ (ex_doc = firstn 2 ex_doc ++ [IDecl (DAlias "Hash256"%string (LBuffer 32) None)]
      /\ ex_doc = firstn 1 ex_doc ++ IDecl (DStruct ex_pair) :: skipn 2 ex_doc)
  (* the rejections *)
  /\ ex_line_of (parse (replace_line st ex_doc (site_line T_now st ex_doc 0) (alias_head T_now "Amount"%string ++ int_prefix T_now ex_u64 ++ [50; 52]))) = 1
  /\ ex_line_of (parse (replace_line st ex_doc 3 (of_string "size"%string ++ [32; 61; 32] ++ int_prefix T_now ex_i32 ++ [55]))) = 4
  /\ ex_line_of (parse (replace_line st ex_doc 4 (64 :: 81 :: [120]))) = 5
  /\ ex_line_of (parse (replace_line st ex_doc 2 (type_line_head T_now (TLStruct SdNone) ++ [32] ++ lower_name "Pair"%string ++ []))) = 3
  /\ ex_line_of (parse (insert_line st ex_doc (length (tlines T_now st (firstn 1 ex_doc))) member_text)) = 3
  /\ ex_line_of (parse (delete_final_line_end (render st ex_doc))) = 7
  /\ ex_line_of (parse (struct_body_deleted st (firstn 1 ex_doc) ex_pair (skipn 2 ex_doc))) = 4.
Proof. vm_compute. repeat split; try reflexivity; try discriminate; auto. Qed.
Print Assumptions premises_nonvacuous.
