(* C06 -- the validator accepts every consistent schema and reports (rather than crashes on) every broken reference.
   Only statements; each closed by `exact` of a lemma proved in Cats/ValidateProofs.v.

   Left-hand side: `validate : mode -> list decl -> result (list error)` of Cats/Validate.v, the model of AstValidator.py (with
   seeded/_fixes/C06-fix.diff) in both modes, whose operators, literals, Mode constants and attribute-name tables are regenerated
   from /repo on every run (Gen/ValidateOps.v) and whose dict lookups are partial (outcome `Crash`).
   Right-hand side (Cats/ValidateSpec.v, fixed text, independent of the model): `consistent`, `carriers`, `confined`,
   `broken_site` / `broken_struct_attr` and the `break_*` functions.

   Schemas range over ALL values of the datatype Cats/Ast.v (unbounded; also values no CATS text parses to).  The second stage
   takes the expanded schema as its own argument (`sp`, `sp'`); that it is the expansion of the first is used only through
   `consistent After sp` and `confined (carriers s D) sp sp'` (C05: expand_frame). *)
From Symv Require Import Cats.Validate Cats.ValidateSpec Cats.ValidateProofs Cats.ValidateProofs2.
Open Scope string_scope.
Open Scope list_scope.

(* ---- no crash ---- *)
(* first stage: for every schema whatsoever *)
Theorem no_crash_pre : forall s, exists es, validate Pre s = Ok es.
Proof. exact ValidateProofs.no_crash_pre. Qed.
Print Assumptions no_crash_pre.

(* second stage: for every schema whose `initializes` attributes carry their two values (the grammar admits no other;
   ast.Struct.initializers indexes values[0], values[1]) *)
Theorem no_crash_post : forall s, initializes_complete s = true -> exists es, validate Post s = Ok es.
Proof. exact ValidateProofs.no_crash_post. Qed.
Print Assumptions no_crash_post.

(* ---- soundness ---- *)
Theorem soundness : forall s sp,
  consistent Before s = true -> consistent After sp = true -> validate Pre s = Ok [] /\ validate Post sp = Ok [].
Proof. exact ValidateProofs.soundness_both. Qed.
Print Assumptions soundness.

(* ---- completeness ---- *)
(* what "reported" means: some error names the struct D (and the member), and every error names a carrier of D *)
Theorem reported_def : forall s D mname errors,
  reported s D mname errors <->
  (exists e, In e errors /\ e_type e = D /\ (forall n, mname = Some n -> In n (e_fields e)))
  /\ (forall e, In e errors -> In (e_type e) (carriers s D)).
Proof. intros. reflexivity. Qed.

(* the statement shared by the completeness theorems: s' is the broken schema; post' its expansion, if expansion succeeds *)
Theorem complete_for_def : forall s s' D mname sp post',
  complete_for s s' D mname sp post' <->
  ((forall sp', post' = Some sp' -> confined (carriers s D) sp sp' /\ initializes_complete sp' = true) ->
   exists es_pre es_post,
     validate Pre s' = Ok es_pre
     /\ match post' with Some sp' => validate Post sp' = Ok es_post | None => es_post = [] end
     /\ reported s D mname (es_pre ++ es_post)).
Proof. intros. reflexivity. Qed.

(* any broken site, wherever it comes from, is reported in either stage on its struct and member (no consistency premise) *)
Theorem broken_site_reported : forall t D mname m,
  nodupb (map decl_name t) = true -> (m = Post -> initializes_complete t = true) -> broken_site t D mname ->
  exists es, validate m t = Ok es /\ exists e, In e es /\ e_type e = D /\ (forall n, mname = Some n -> In n (e_fields e)).
Proof. exact ValidateProofs.broken_site_reported. Qed.
Print Assumptions broken_site_reported.

(* nothing is reported for declarations outside the set the change is confined to *)
Theorem nothing_outside_carriers : forall m C t t',
  validate m t = Ok [] -> confined C t t' -> (m = Post -> initializes_complete t = true /\ initializes_complete t' = true) ->
  exists es, validate m t' = Ok es /\ forall e, In e es -> In (e_type e) C.
Proof. exact ValidateProofs.nothing_outside. Qed.
Print Assumptions nothing_outside_carriers.

Section OneBrokenSite.
Variables (s sp s' : list decl) (x : site) (bad : string) (post' : option (list decl)).
Hypothesis consistent_before : consistent Before s = true.
Hypothesis consistent_after : consistent After sp = true.

(* core kinds: break_k site s = s' -> consistent s -> reported *)
Theorem completeness_unknown_member_type :
  fresh_type s bad -> break_with break_member_type bad x s = Some s' -> complete_for s s' (fst x) (site_member s x) sp post'.
Proof. exact (complete_member_type s sp s' x bad post' consistent_before consistent_after). Qed.

Theorem completeness_unknown_element_type :
  fresh_type s bad -> break_with break_elem_type bad x s = Some s' -> complete_for s s' (fst x) (site_member s x) sp post'.
Proof. exact (complete_elem_type s sp s' x bad post' consistent_before consistent_after). Qed.

Theorem completeness_unknown_inlined_type :
  fresh_type s bad -> break_with break_inlined_type bad x s = Some s' -> complete_for s s' (fst x) None sp post'.
Proof. exact (complete_inlined_type s sp s' x bad post' consistent_before consistent_after). Qed.

Theorem completeness_unknown_size_member :
  no_member_named s (fst x) bad -> break_with break_size_member bad x s = Some s' -> complete_for s s' (fst x) (site_member s x) sp post'.
Proof. exact (complete_size_member s sp s' x bad post' consistent_before consistent_after). Qed.

Theorem completeness_unknown_sort_key :
  fresh_member s bad -> break_with break_sort_key bad x s = Some s' -> complete_for s s' (fst x) (site_member s x) sp post'.
Proof. exact (complete_sort_key s sp s' x bad post' consistent_before consistent_after). Qed.

Theorem completeness_unknown_sizeof_member :
  no_member_named s (fst x) bad -> break_with break_sizeof_member bad x s = Some s' -> complete_for s s' (fst x) (site_member s x) sp post'.
Proof. exact (complete_sizeof_member s sp s' x bad post' consistent_before consistent_after). Qed.

Theorem completeness_unknown_sizeref_member :
  no_member_named s (fst x) bad -> break_with break_sizeref bad x s = Some s' -> complete_for s s' (fst x) (site_member s x) sp post'.
Proof. exact (complete_sizeref_member s sp s' x bad post' consistent_before consistent_after). Qed.

Theorem completeness_unknown_condition_member :
  no_member_named s (fst x) bad -> break_with break_cond_member bad x s = Some s' -> complete_for s s' (fst x) (site_member s x) sp post'.
Proof. exact (complete_cond_member s sp s' x bad post' consistent_before consistent_after). Qed.

(* value not in the referenced enumeration / not numeric: a name that is the value of no enumeration *)
Theorem completeness_condition_value :
  fresh_const s bad -> break_with break_cond_value bad x s = Some s' -> complete_for s s' (fst x) (site_member s x) sp post'.
Proof. exact (complete_cond_value s sp s' x bad post' consistent_before consistent_after). Qed.

Theorem completeness_constant_value :
  fresh_const s bad -> break_with break_const_value bad x s = Some s' -> complete_for s s' (fst x) (site_member s x) sp post'.
Proof. exact (complete_const_value s sp s' x bad post' consistent_before consistent_after). Qed.

Theorem completeness_duplicate_member :
  break_duplicate_member x s = Some s' -> complete_for s s' (fst x) (site_member s x) sp post'.
Proof. exact (complete_duplicate_member s sp s' x post' consistent_before consistent_after). Qed.

Theorem completeness_duplicate_enum_value : forall E i,
  break_duplicate_enum_value E i s = Some s' -> exists n, complete_for s s' E (Some n) sp post'.
Proof. exact (complete_duplicate_enum_value s sp s' post' consistent_before consistent_after). Qed.

(* stretch kinds at member level -- sizeof of a fixed-size or not size-implicit type, named inline of a non-inline struct,
   attribute inapplicable to its member -- are constructors of `broken_field` (BrokenSizeofFixed, BrokenSizeofNotImplicit,
   BrokenNamedInline, BrokenAttribute); for ANY broken site, however the schema was changed: *)
Theorem completeness_any_member_site : forall D mname,
  confined [D] s s' -> broken_site s' D mname -> complete_for s s' D mname sp post'.
Proof. exact (fun D mname Hc Hb Hpost => completeness_generic s s' D mname sp post' consistent_before consistent_after Hc Hb Hpost). Qed.

(* stretch kinds at struct level -- @size naming no member or a non-integer member, unknown discriminator member, unknown comparer
   member, unknown initializer target -- are visible only after expansion (`broken_struct_attr`) *)
Theorem completeness_struct_attribute : forall D sp' st',
  confined [D] s s' -> confined (carriers s D) sp sp' -> initializes_complete sp' = true ->
  In (DStruct st') sp' -> s_name st' = D -> broken_struct_attr st' ->
  exists es_pre es_post, validate Pre s' = Ok es_pre /\ validate Post sp' = Ok es_post /\ reported s D None (es_pre ++ es_post).
Proof. exact (fun D sp' st' => completeness_struct_level s s' D sp sp' st' consistent_before consistent_after). Qed.

(* an initializer whose constant is unknown (in a concrete struct), or whose constant and target are members whose types PRINT
   differently (AstValidator compares str(field_type)): `broken_initializer` (Cats/ValidateProofs2.v, fixed text) has these two
   constructors, BrokenInitializerConstant and BrokenInitializerType.  Reported on D after expansion, nothing outside the carriers.
   (If the members of st' have a repeated name, the error that names D is the duplicate-member error.) *)
Theorem completeness_initializer_constant : forall D sp' st',
  confined [D] s s' -> confined (carriers s D) sp sp' -> initializes_complete sp' = true ->
  In (DStruct st') sp' -> s_name st' = D -> broken_initializer st' ->
  exists es_pre es_post, validate Pre s' = Ok es_pre /\ validate Post sp' = Ok es_post /\ reported s D None (es_pre ++ es_post).
Proof. exact (fun D sp' st' => completeness_initializer s s' D sp sp' st' consistent_before consistent_after). Qed.

(* The statement below (kept with its old name) is the frame half only.  The formulation that was announced here as the full one,
   with `same_type t1 t2 = false` (ValidateSpec) as the type-mismatch premise:
     forall D sp' st' attrs a target value rest,
       confined [D] s s' -> confined (carriers s D) sp sp' -> initializes_complete sp' = true -> In (DStruct st') sp' -> s_name st' = D ->
       s_attrs st' = Some attrs -> In a attrs -> at_name a = "initializes" -> at_values a = AvStr target :: AvStr value :: rest ->
       (   (concrete st' = true /\ ~ In value (map fst (members (s_fields st'))))
        \/ (exists t1 t2, In (target, t1) (members (s_fields st')) /\ In (value, t2) (members (s_fields st')) /\ same_type t1 t2 = false)) ->
       exists es_pre es_post, validate Pre s' = Ok es_pre /\ validate Post sp' = Ok es_post /\ reported s D None (es_pre ++ es_post).
   is FALSE of the model and of the code for values of the datatype that no CATS text parses to (a named type whose name is the text
   of an integer type, integers of a size other than 1/2/4/8): initializer_same_type_refuted below.  It holds with the printed-form
   premise (completeness_initializer_constant) and, through plain_types_differ_in_text, with same_type = false for standard integers
   and named types whose name is not the text of an integer type (what the parser produces for constants and their targets). *)
Theorem completeness_initializer_constant_partial : forall D sp',
  confined [D] s s' -> confined (carriers s D) sp sp' -> initializes_complete sp' = true ->
  exists es_pre es_post,
    validate Pre s' = Ok es_pre /\ validate Post sp' = Ok es_post /\ forall e, In e (es_pre ++ es_post) -> In (e_type e) (carriers s D).
Proof. exact (fun D sp' => completeness_frame_only s s' D sp sp' consistent_before consistent_after). Qed.
End OneBrokenSite.
Print Assumptions completeness_unknown_member_type.
Print Assumptions completeness_unknown_element_type.
Print Assumptions completeness_unknown_inlined_type.
Print Assumptions completeness_unknown_size_member.
Print Assumptions completeness_unknown_sort_key.
Print Assumptions completeness_unknown_sizeof_member.
Print Assumptions completeness_unknown_sizeref_member.
Print Assumptions completeness_unknown_condition_member.
Print Assumptions completeness_condition_value.
Print Assumptions completeness_constant_value.
Print Assumptions completeness_duplicate_member.
Print Assumptions completeness_duplicate_enum_value.
Print Assumptions completeness_any_member_site.
Print Assumptions completeness_struct_attribute.
Print Assumptions completeness_initializer_constant.
Print Assumptions completeness_initializer_constant_partial.

(* different types print differently, for standard integers and named types whose name is not the text of an integer type *)
Theorem plain_types_differ_in_text : forall t1 t2,
  plain_type t1 = true -> plain_type t2 = true -> same_type t1 t2 = false -> str_ftype t1 <> str_ftype t2.
Proof. exact ValidateProofs2.plain_types_differ_in_text. Qed.
Print Assumptions plain_types_differ_in_text.

(* hence the type-mismatch case in the terms of ValidateSpec.same_type *)
Theorem broken_initializer_of_same_type : forall st attrs a target value rest t1 t2,
  s_attrs st = Some attrs -> In a attrs -> at_name a = "initializes" -> at_values a = AvStr target :: AvStr value :: rest ->
  In (target, t1) (members (s_fields st)) -> In (value, t2) (members (s_fields st)) ->
  plain_type t1 = true -> plain_type t2 = true -> same_type t1 t2 = false -> broken_initializer st.
Proof.
  exact (fun st attrs a target value rest t1 t2 Ha Hin Hn Hv H1 H2 P1 P2 Hs =>
    BrokenInitializerType st attrs a target value rest t1 t2 Ha Hin Hn Hv H1 H2 (ValidateProofs2.plain_types_differ_in_text t1 t2 P1 P2 Hs)).
Qed.
Print Assumptions broken_initializer_of_same_type.

(* ... and an array-typed target never passes for an integer or (plainly) named constant *)
Theorem broken_initializer_of_array_target : forall st attrs a target value rest x t2,
  s_attrs st = Some attrs -> In a attrs -> at_name a = "initializes" -> at_values a = AvStr target :: AvStr value :: rest ->
  In (target, FArray x) (members (s_fields st)) -> In (value, t2) (members (s_fields st)) -> not_array_text t2 = true -> broken_initializer st.
Proof.
  exact (fun st attrs a target value rest x t2 Ha Hin Hn Hv H1 H2 P =>
    BrokenInitializerType st attrs a target value rest (FArray x) t2 Ha Hin Hn Hv H1 H2 (ValidateProofs2.array_differs_in_text x t2 P)).
Qed.
Print Assumptions broken_initializer_of_array_target.

(* REFUTED for arbitrary values of the datatype: target `a : uint8`, constant `b : <named type "uint8">` (an alias named like the
   integer type; the grammar has no such name).  same_type says the types differ, both print as "uint8", and neither stage reports
   anything -- in the model and in AstValidator alike (hand-built ast objects; cross-checked). *)
Definition init_witness (attrs : option (list attribute)) : list decl := [
  DAlias "uint8" (LInt {| it_unsigned := true; it_size := 1; it_sizeref := None |}) None;
  DStruct {| s_name := "S"; s_disp := SdNone;
             s_fields := [Field "a" (FInt {| it_unsigned := true; it_size := 1; it_sizeref := None |}) VNone DispNone None None;
                          Field "b" (FName "uint8") (VNum 0) DispConst None None];
             s_factory_type := None; s_attrs := attrs; s_comment := None; s_requires_unaligned := false |}].
(* the negation of the announced statement, literally: all its premises, and nothing is reported *)
Theorem initializer_same_type_refuted :
  exists s sp s' D sp' st' attrs a target value rest t1 t2,
    consistent Before s = true /\ consistent After sp = true
    /\ confined [D] s s' /\ confined (carriers s D) sp sp' /\ initializes_complete sp' = true /\ In (DStruct st') sp' /\ s_name st' = D
    /\ s_attrs st' = Some attrs /\ In a attrs /\ at_name a = "initializes" /\ at_values a = AvStr target :: AvStr value :: rest
    /\ In (target, t1) (members (s_fields st')) /\ In (value, t2) (members (s_fields st')) /\ same_type t1 t2 = false
    /\ validate Pre s' = Ok [] /\ validate Post sp' = Ok []
    /\ ~ (exists es_pre es_post, validate Pre s' = Ok es_pre /\ validate Post sp' = Ok es_post /\ reported s D None (es_pre ++ es_post)).
Proof.
  exists (init_witness None), (init_witness None), (init_witness None), "S",
         (init_witness (Some [{| at_name := "initializes"; at_values := [AvStr "a"; AvStr "b"] |}])).
  eexists. eexists. eexists. exists "a", "b", []. eexists. eexists.
  split; [vm_compute; reflexivity|]. split; [vm_compute; reflexivity|].
  split; [unfold confined, init_witness; repeat (apply Forall2_cons; [left; reflexivity|]); apply Forall2_nil|].
  split.
  { unfold confined, init_witness. apply Forall2_cons; [left; reflexivity|]. apply Forall2_cons; [|apply Forall2_nil].
    right. split; [vm_compute; auto|]. cbn [same_interface]. repeat split; try reflexivity. intros x H; exact H. }
  split; [vm_compute; reflexivity|]. split; [right; left; reflexivity|]. split; [reflexivity|]. split; [reflexivity|].
  split; [left; reflexivity|]. split; [reflexivity|]. split; [reflexivity|].
  split; [left; reflexivity|]. split; [right; left; reflexivity|]. split; [reflexivity|].
  split; [vm_compute; reflexivity|]. split; [vm_compute; reflexivity|].
  intros (es_pre & es_post & H1 & H2 & (e & He & _) & _).
  vm_compute in H1. vm_compute in H2. injection H1 as <-. injection H2 as <-. destruct He.
Qed.
Print Assumptions initializer_same_type_refuted.

(* the declaring struct is one of its carriers *)
Theorem declaring_struct_is_a_carrier : forall s D, In D (carriers s D).
Proof. exact carriers_self. Qed.
Print Assumptions declaring_struct_is_a_carrier.

(* the command line exits with the status of __main__._validate (2) as soon as a stage reports an error *)
Theorem cli_status_two_on_errors : forall pre post, pre <> [] \/ post <> [] -> cli_status pre post = 2%Z.
Proof. exact ValidateProofs.cli_status_errors. Qed.
Print Assumptions cli_status_two_on_errors.

(* ---- non-vacuity: a concrete consistent schema and one broken variant per kind, by computation ---- *)
Definition u8 : intty := {| it_unsigned := true; it_size := 1; it_sizeref := None |}.
Definition u16 : intty := {| it_unsigned := true; it_size := 2; it_sizeref := None |}.
Definition fld (n : string) (ty : ftype) : field := Field n ty VNone DispNone None None.
Definition arr (e : elemty) (sz : asize) (sk : option string) : ftype :=
  FArray {| a_elem := e; a_size := sz; a_sort_key := sk; a_byte_constrained := false; a_alignment := None; a_last_padded := None |}.
Definition mkstruct (n : string) (d : sdisp) (fs : list field) (attrs : option (list attribute)) : struct :=
  {| s_name := n; s_disp := d; s_fields := fs; s_factory_type := None; s_attrs := attrs; s_comment := None; s_requires_unaligned := false |}.
Definition ev (n : string) (v : Z) : enum_value := {| ev_name := n; ev_value := v; ev_comment := None |}.
Definition att (n : string) (vs : list avalue) : attribute := {| at_name := n; at_values := vs |}.

Definition foo_fields (expanded : bool) : list field :=
  (if expanded then [fld "ver" (FInt u8)] else [InlinePlaceholder "Ba" None]) ++ [
  fld "cnt" (FInt u8);
  fld "arr" (arr (ElName "El") (SzName "cnt") (Some "kk"));
  fld "al" (FName "Al");
  fld "en" (FName "En");
  Field "cc" (FInt u8) (VCond {| c_value := CvName "V0"; c_op := "equals"; c_link := "en" |}) DispNone None None;
  fld "tg" (FName "Tg");
  Field "tg_size" (FInt u8) (VName "tg") DispSizeof None None;
  Field "sr" (FInt {| it_unsigned := true; it_size := 1; it_sizeref := Some ("al", Some 1%Z) |}) VNone DispNone
        (Some [att "sizeref" [AvStr "al"; AvNum 1]]) None;
  Field "KK" (FName "En") (VName "V1") DispConst None None]
  ++ (if expanded then [fld "nn_tt" (FInt u8)] else [Field "nn" (FName "Tp") VNone DispInline None None]).
Definition foo_attrs : option (list attribute) :=
  Some [att "size" [AvStr "cnt"]; att "discriminator" [AvStr "ver"; AvStr "en"];
        att "comparer" [AvStr "cnt"; AvNone; AvStr "al"; AvStr "ripemd_keccak_256"]; att "initializes" [AvStr "en"; AvStr "KK"]].
Definition example (expanded : bool) : list decl := [
  DAlias "Al" (LInt u16) None;
  DEnum "En" u8 [ev "V0" 0; ev "V1" 1] None None;
  DStruct (mkstruct "El" SdNone [fld "kk" (FInt u8)] None);
  DStruct (mkstruct "Tg" SdNone [fld "bz" (FInt u8)] (Some [att "is_size_implicit" []]));
  DStruct (mkstruct "Tp" SdInline [fld "tt" (FInt u8)] None);
  DStruct (mkstruct "Ba" SdAbstract [fld "ver" (FInt u8)] None);
  DStruct (mkstruct "Foo" SdNone (foo_fields expanded) foo_attrs)].
Definition ex := example false.
Definition ex_post := example true.
Definition err (k : mkind) (args : list string) (t : string) (fs : list string) : error :=
  {| e_kind := k; e_args := args; e_type := t; e_fields := fs |}.
Definition pre_errors (o : option (list decl)) : option (result (list error)) := option_map (validate Pre) o.

Example example_is_consistent :
  consistent Before ex = true /\ consistent After ex_post = true /\ validate Pre ex = Ok [] /\ validate Post ex_post = Ok []
  /\ carriers ex "Ba" = ["Ba"; "Foo"] /\ carriers ex "Tp" = ["Tp"; "Foo"] /\ carriers ex "Foo" = ["Foo"].
Proof. vm_compute. repeat split; reflexivity. Qed.

Example example_broken_core_kinds :
  pre_errors (break_with break_member_type "Zz" ("Foo", 3%nat) ex) = Some (Ok [err MUnknownType ["Zz"] "Foo" ["al"]])
  /\ pre_errors (break_with break_elem_type "Zz" ("Foo", 2%nat) ex)
     = Some (Ok [err MUnknownElem ["Zz"] "Foo" ["arr"]; err MUnknownSortKey ["kk"] "Foo" ["arr"]])
  /\ pre_errors (break_with break_inlined_type "Zz" ("Foo", 0%nat) ex) = Some (Ok [err MUnknownInlined ["Zz"] "Foo" []])
  /\ pre_errors (break_with break_size_member "zz" ("Foo", 2%nat) ex) = Some (Ok [err MUnknownSize ["zz"] "Foo" ["arr"]])
  /\ pre_errors (break_with break_sort_key "zz" ("Foo", 2%nat) ex) = Some (Ok [err MUnknownSortKey ["zz"] "Foo" ["arr"]])
  /\ pre_errors (break_with break_sizeof_member "zz" ("Foo", 7%nat) ex) = Some (Ok [err MUnknownSizeof ["zz"] "Foo" ["tg_size"]])
  /\ pre_errors (break_with break_sizeref "zz" ("Foo", 8%nat) ex) = Some (Ok [err MUnknownSizeref ["zz"] "Foo" ["sr"]])
  /\ pre_errors (break_with break_cond_member "zz" ("Foo", 5%nat) ex) = Some (Ok [err MUnknownCond ["zz"] "Foo" ["cc"]])
  /\ pre_errors (break_with break_cond_value "ZZ" ("Foo", 5%nat) ex) = Some (Ok [err MNotEnum ["ZZ"] "Foo" ["cc"]])
  /\ pre_errors (break_with break_const_value "ZZ" ("Foo", 9%nat) ex) = Some (Ok [err MNotEnum ["ZZ"] "Foo" ["KK"]])
  /\ pre_errors (break_with break_const_value "ZZ" ("Foo", 1%nat) ex) = None
  /\ pre_errors (break_duplicate_member ("Foo", 1%nat) ex) = Some (Ok [err MDupField [] "Foo" ["cnt"]])
  /\ pre_errors (break_duplicate_enum_value "En" 1%nat ex) = Some (Ok [err MDupEnum [] "En" ["V1"]]).
Proof. vm_compute. repeat split; reflexivity. Qed.

(* stretch kinds on the same schema: the sizeof target of unknown / fixed-size / not size-implicit type (the pinned code raised KeyError
   on the first), named inline of a non-inline struct and of an alias (AttributeError in the pinned code), @sort_key on an integer and
   on an alias array (KeyError / AttributeError in the pinned code), inapplicable attribute; struct attributes after expansion *)
Definition with_foo (expanded : bool) (i : nat) (f : field) (attrs : option (list attribute)) : list decl :=
  firstn 6 (example expanded) ++ [DStruct (mkstruct "Foo" SdNone (replace_nth i f (foo_fields expanded)) attrs)].
Example example_broken_stretch_kinds :
  validate Pre (with_foo false 6 (fld "tg" (FName "Zz")) foo_attrs)
    = Ok [err MUnknownType ["Zz"] "Foo" ["tg"]; err MSizeofUnknownType ["Zz"] "Foo" ["tg_size"]]
  /\ validate Pre (with_foo false 7 (Field "tg_size" (FInt u8) (VName "cnt") DispSizeof None None) foo_attrs)
    = Ok [err MSizeofFixed ["uint8"] "Foo" ["tg_size"]]
  /\ validate Pre (with_foo false 6 (fld "tg" (FName "El")) foo_attrs) = Ok [err MSizeofNotImplicit ["El"] "Foo" ["tg_size"]]
  /\ validate Pre (with_foo false 10 (Field "nn" (FName "El") VNone DispInline None None) foo_attrs) = Ok [err MNonInline ["El"] "Foo" ["nn"]]
  /\ validate Pre (with_foo false 10 (Field "nn" (FName "Al") VNone DispInline None None) foo_attrs) = Ok [err MNonInline ["Al"] "Foo" ["nn"]]
  /\ validate Post (with_foo true 2 (fld "arr" (arr (ElInt u16) (SzName "cnt") (Some "kk"))) foo_attrs) = Ok [err MUnknownSortKey ["kk"] "Foo" ["arr"]]
  /\ validate Post (with_foo true 2 (fld "arr" (arr (ElName "Al") (SzName "cnt") (Some "kk"))) foo_attrs) = Ok [err MUnknownSortKey ["kk"] "Foo" ["arr"]]
  /\ validate Pre (with_foo false 1 (Field "cnt" (FInt u8) VNone DispNone (Some [att "sort_key" [AvStr "kk"]]) None) foo_attrs)
    = Ok [err MInapplicable ["sort_key"] "Foo" ["cnt"]]
  /\ validate Post (with_foo true 1 (fld "cnt" (FInt u8)) (Some [att "size" [AvStr "zz"]])) = Ok [err MUnknownProp ["size"; "zz"] "Foo" []]
  /\ validate Post (with_foo true 1 (fld "cnt" (FInt u8)) (Some [att "size" [AvStr "al"]])) = Ok [err MSizeType ["al"] "Foo" []]
  /\ validate Post (with_foo true 1 (fld "cnt" (FInt u8)) (Some [att "discriminator" [AvStr "ver"; AvStr "zz"]]))
    = Ok [err MUnknownProp ["discriminator"; "zz"] "Foo" []]
  /\ validate Post (with_foo true 1 (fld "cnt" (FInt u8)) (Some [att "comparer" [AvStr "zz"; AvNone]])) = Ok [err MUnknownComparer ["zz"] "Foo" []]
  /\ validate Post (with_foo true 1 (fld "cnt" (FInt u8)) (Some [att "initializes" [AvStr "zz"; AvStr "KK"]])) = Ok [err MUnknownInit ["zz"] "Foo" []]
  /\ validate Post (with_foo true 1 (fld "cnt" (FInt u8)) (Some [att "initializes" [AvStr "cnt"; AvStr "KK"]])) = Ok [err MInitType ["cnt"; "KK"] "Foo" []]
  /\ validate Post (with_foo true 1 (fld "cnt" (FInt u8)) (Some [att "initializes" [AvStr "cnt"]])) = Crash "IndexError".
Proof. vm_compute. repeat split; reflexivity. Qed.

(* the regenerated operators and literals are the ones the proofs were written for *)
Example regenerated_constants :
  (vo_mode_pre, vo_mode_post, vo_mode_guard, vo_exit_status) = (1%Z, 2%Z, Ne, 2%Z)
  /\ (vo_known_type_mem, vo_sizeref_mem, vo_size_mem, vo_sizeof_mem, vo_cond_mem, vo_known_field_mem, vo_comparer_mem, vo_transform_mem,
      vo_init_mem, vo_concrete_mem, vo_dup_mem) = (true, false, false, false, false, false, false, false, false, false, false)
  /\ (vo_inline_eq, vo_inline_ne, vo_sizeof_eq, vo_sortkey_eq, vo_enum_eq, vo_init_type_ne) = (Eq, Ne, Eq, Eq, Eq, Ne)
  /\ (vo_inline_lit_a, vo_inline_lit_b, vo_inline_lit_c, vo_sizeof_lit, vo_abstract_lit, vo_transform_lit)
     = ("inline", "inline", "inline", "sizeof", "abstract", "ripemd_keccak_256").
Proof. vm_compute. repeat split; reflexivity. Qed.

(* KNOWN FINDING (post-false-error:sort-key-in-named-inline-template), kept visible: the expansion of the consistent schema
     struct El { kk = uint8 }   inline struct Tpl { @sort_key(kk) arr = array(El, 4) }   struct Foo { bar = inline Tpl }
   as produced by AstPostProcessor (Array.copy prefixes the sort key, as the pinned tests require) is NOT consistent, and the
   validator -- model and code alike -- reports it: soundness across expansion is refuted for this family of schemas. *)
Definition sort_key_template_expanded : list decl := [
  DStruct (mkstruct "El" SdNone [fld "kk" (FInt u8)] None);
  DStruct (mkstruct "Tpl" SdInline [Field "arr" (arr (ElName "El") (SzNum 4) (Some "kk")) VNone DispNone (Some [att "sort_key" [AvStr "kk"]]) None] None);
  DStruct (mkstruct "Foo" SdNone [Field "bar_arr" (arr (ElName "El") (SzNum 4) (Some "bar_kk")) VNone DispNone (Some [att "sort_key" [AvStr "kk"]]) None] None)].
Example sort_key_in_template_refuted :
  consistent After sort_key_template_expanded = false
  /\ validate Post sort_key_template_expanded = Ok [err MUnknownSortKey ["bar_kk"] "Foo" ["bar_arr"]].
Proof. vm_compute. split; reflexivity. Qed.

(* ---- non-vacuity of the completeness premises, ALL TOGETHER on the example schema: the two Section hypotheses, the freshness premises of
        the core kinds, the premise inside complete_for for the actual expansion of a broken schema (unknown member type Zz at Foo.al),
        the premises of completeness_any_member_site / broken_site_reported / nothing_outside_carriers (confined, broken_site), those of
        completeness_struct_attribute (a @size attribute naming no member), and the conclusion obtained from
        completeness_unknown_member_type with post' = that expansion ---- *)
Definition ex_broken : list decl := with_foo false 3 (fld "al" (FName "Zz")) foo_attrs.        (* = break_member_type "Zz" at (Foo, 3) *)
Definition ex_broken_post : list decl := with_foo true 3 (fld "al" (FName "Zz")) foo_attrs.    (* its expansion *)
Definition ex_bad_size_attr : list decl := with_foo true 1 (fld "cnt" (FInt u8)) (Some [att "size" [AvStr "zz"]]).

Ltac each_struct H := vm_compute in H; repeat (destruct H as [H|H]; [try discriminate H; try (injection H; intros; subst)|]); try contradiction.

Example completeness_premises_nonvacuous :
  (* Section hypotheses *)
  consistent Before ex = true /\ consistent After ex_post = true
  (* premises of the core kinds *)
  /\ fresh_type ex "Zz" /\ break_with break_member_type "Zz" ("Foo", 3%nat) ex = Some ex_broken
  /\ no_member_named ex "Foo" "zz" /\ fresh_member ex "zz" /\ fresh_const ex "ZZ"
  (* the premise inside complete_for, for the expansion of the broken schema *)
  /\ (confined (carriers ex "Foo") ex_post ex_broken_post /\ initializes_complete ex_broken_post = true)
  (* completeness_any_member_site / broken_site_reported / nothing_outside_carriers *)
  /\ confined ["Foo"] ex ex_broken /\ broken_site ex_broken "Foo" (Some "al") /\ nodupb (map decl_name ex_broken) = true
  (* completeness_struct_attribute *)
  /\ (confined (carriers ex "Foo") ex_post ex_bad_size_attr /\ initializes_complete ex_bad_size_attr = true
      /\ exists st', In (DStruct st') ex_bad_size_attr /\ s_name st' = "Foo" /\ broken_struct_attr st')
  (* hence, by completeness_unknown_member_type with post' = the expansion: *)
  /\ (exists es_pre es_post, validate Pre ex_broken = Ok es_pre /\ validate Post ex_broken_post = Ok es_post
                             /\ reported ex "Foo" (Some "al") (es_pre ++ es_post)).
Proof.
  assert (Hcb : consistent Before ex = true) by (vm_compute; reflexivity).
  assert (Hca : consistent After ex_post = true) by (vm_compute; reflexivity).
  assert (Hfresh : fresh_type ex "Zz") by (vm_compute; reflexivity).
  assert (Hbreak : break_with break_member_type "Zz" ("Foo", 3%nat) ex = Some ex_broken) by (vm_compute; reflexivity).
  assert (Hpost : confined (carriers ex "Foo") ex_post ex_broken_post /\ initializes_complete ex_broken_post = true).
  { split; [|vm_compute; reflexivity].
    unfold confined, ex_post, ex_broken_post, with_foo, example. cbn [firstn app].
    repeat (apply Forall2_cons; [left; reflexivity|]).
    apply Forall2_cons; [|apply Forall2_nil]. right. split; [vm_compute; auto|].
    cbn [same_interface]. repeat split; try reflexivity. vm_compute. intros a H; exact H. }
  split; [exact Hcb|]. split; [exact Hca|]. split; [exact Hfresh|]. split; [exact Hbreak|].
  split; [intros st Hin Hn; each_struct Hin; try (vm_compute in Hn; discriminate Hn); vm_compute; intros HH; repeat (destruct HH as [HH|HH]; [discriminate HH|]); exact HH|].
  split; [split; [discriminate|intros st Hin; each_struct Hin; vm_compute; intros HH; repeat (destruct HH as [HH|HH]; [discriminate HH|]); exact HH]|].
  split; [intros n b vs a c Hin; each_struct Hin; vm_compute; intros HH; repeat (destruct HH as [HH|HH]; [discriminate HH|]); exact HH|].
  split; [exact Hpost|].
  split.
  { unfold confined, ex, ex_broken, with_foo, example. cbn [firstn app].
    repeat (apply Forall2_cons; [left; reflexivity|]).
    apply Forall2_cons; [|apply Forall2_nil]. right. split; [vm_compute; auto|].
    cbn [same_interface]. repeat split; try reflexivity. vm_compute. intros a H; exact H. }
  split.
  { apply (SiteField ex_broken (mkstruct "Foo" SdNone (replace_nth 3 (fld "al" (FName "Zz")) (foo_fields false)) foo_attrs) (fld "al" (FName "Zz")) "al").
    - vm_compute. auto 10.
    - vm_compute. auto 10.
    - reflexivity.
    - apply BrokenMemberType. vm_compute. reflexivity. }
  split; [vm_compute; reflexivity|].
  split.
  { split; [|split; [vm_compute; reflexivity|]].
    - unfold confined, ex_post, ex_bad_size_attr, with_foo, example. cbn [firstn app].
      repeat (apply Forall2_cons; [left; reflexivity|]).
      apply Forall2_cons; [|apply Forall2_nil]. right. split; [vm_compute; auto|].
      cbn [same_interface]. repeat split; try reflexivity. vm_compute. intros a H; exact H.
    - eexists. split; [unfold ex_bad_size_attr, with_foo; apply in_or_app; right; left; reflexivity|]. split; [reflexivity|].
      apply (BrokenSizeAttr _ (att "size" [AvStr "zz"]) "zz"); [reflexivity|reflexivity|discriminate|].
      intros i H. vm_compute in H. intuition discriminate. }
  pose proof (completeness_unknown_member_type ex ex_post ex_broken ("Foo", 3%nat) "Zz" (Some ex_broken_post) Hcb Hca Hfresh Hbreak) as H.
  unfold complete_for in H. apply H. intros sp' E. injection E as <-. exact Hpost.
Qed.
Print Assumptions completeness_premises_nonvacuous.

(* ---- non-vacuity of completeness_initializer_constant / broken_initializer_of_same_type on the example schema: Foo (concrete) with
        @initializes(en, ZZ) -- ZZ is no member -- and with @initializes(cnt, KK) -- cnt is uint8, KK is of the enumeration En; all
        premises hold together and both are reported on Foo ---- *)
Definition ex_bad_init_const : list decl := with_foo true 1 (fld "cnt" (FInt u8)) (Some [att "initializes" [AvStr "en"; AvStr "ZZ"]]).
Definition ex_bad_init_type : list decl := with_foo true 1 (fld "cnt" (FInt u8)) (Some [att "initializes" [AvStr "cnt"; AvStr "KK"]]).

Example completeness_initializer_nonvacuous :
  consistent Before ex = true /\ consistent After ex_post = true /\ confined ["Foo"] ex ex
  /\ (confined (carriers ex "Foo") ex_post ex_bad_init_const /\ initializes_complete ex_bad_init_const = true
      /\ exists st', In (DStruct st') ex_bad_init_const /\ s_name st' = "Foo" /\ broken_initializer st')
  /\ (confined (carriers ex "Foo") ex_post ex_bad_init_type /\ initializes_complete ex_bad_init_type = true
      /\ exists st', In (DStruct st') ex_bad_init_type /\ s_name st' = "Foo" /\ broken_initializer st')
  /\ (plain_type (FInt u8) = true /\ plain_type (FName "En") = true /\ same_type (FInt u8) (FName "En") = false)
  /\ validate Post ex_bad_init_const = Ok [err MUnknownInit ["ZZ"] "Foo" []]
  /\ validate Post ex_bad_init_type = Ok [err MInitType ["cnt"; "KK"] "Foo" []].
Proof.
  split; [vm_compute; reflexivity|]. split; [vm_compute; reflexivity|].
  split; [unfold confined, ex, example; repeat (apply Forall2_cons; [left; reflexivity|]); apply Forall2_nil|].
  assert (Hconf : forall attrs, find_attr attrs "is_size_implicit" = None ->
            confined (carriers ex "Foo") ex_post (with_foo true 1 (fld "cnt" (FInt u8)) attrs)).
  { intros attrs Hattrs. unfold confined, ex_post, with_foo, example. cbn [firstn app].
    repeat (apply Forall2_cons; [left; reflexivity|]).
    apply Forall2_cons; [|apply Forall2_nil]. right. split; [vm_compute; auto|].
    cbn [same_interface]. split; [reflexivity|]. split; [reflexivity|]. split; [unfold mkstruct; cbn [s_attrs]; rewrite Hattrs; reflexivity|].
    vm_compute. intros a H; exact H. }
  split.
  { split; [apply Hconf; reflexivity|]. split; [vm_compute; reflexivity|].
    eexists. split; [unfold ex_bad_init_const, with_foo; apply in_or_app; right; left; reflexivity|]. split; [reflexivity|].
    apply (BrokenInitializerConstant _ [att "initializes" [AvStr "en"; AvStr "ZZ"]] (att "initializes" [AvStr "en"; AvStr "ZZ"]) "en" "ZZ" []);
      [reflexivity|left; reflexivity|reflexivity|reflexivity|reflexivity|].
    vm_compute. intuition discriminate. }
  split.
  { split; [apply Hconf; reflexivity|]. split; [vm_compute; reflexivity|].
    eexists. split; [unfold ex_bad_init_type, with_foo; apply in_or_app; right; left; reflexivity|]. split; [reflexivity|].
    apply (broken_initializer_of_same_type _ [att "initializes" [AvStr "cnt"; AvStr "KK"]] (att "initializes" [AvStr "cnt"; AvStr "KK"]) "cnt" "KK" [] (FInt u8) (FName "En"));
      try reflexivity; [left; reflexivity|vm_compute; auto 20|vm_compute; auto 20]. }
  vm_compute. repeat split; reflexivity.
Qed.
Print Assumptions completeness_initializer_nonvacuous.
