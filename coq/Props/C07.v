(* C07 -- signatures verify exactly for the signed payload and are reference-exact.
   Only statements; each closed by `exact` of a lemma proved in Sym/PayloadProofs.v, Sym/EdAbstractProofs.v, Sym/EdZProofs.v.
   Left-hand sides are the models of the code instantiated with the constants regenerated from /repo (Gen/PayloadOps.v,
   Gen/KeyPairOps.v); right-hand sides are fixed text.

   Theorems named *_partial carry the premise [EdZ_group_premise]: that the integer formulas of Sym/EdZ.v implement a lawful group
   (the edwards25519 group law).  That premise is NOT proved anywhere; it is supported by sampling only.  The full statements the
   partial ones stand for are the same statements without that premise. *)
From Symv Require Import Base.Bytes Base.PyOps Sym.Keccak Sym.Sha2 Sym.EdAbstract Sym.EdAbstractProofs Sym.EdZ Sym.EdZProofs
  Sym.Payload Sym.PayloadProofs.
Open Scope Z_scope.

(* ================= signing payload (Symbol) ================= *)
(* seed followed by the body after the 108-byte size/reserved/signature/signer/reserved header; only the 52-byte head for the
   aggregate types 0x4141 / 0x4241 (little-endian at body offset 2) *)
Theorem signing_payload_def : forall seed b, (112 <= length b)%nat ->
  sym_signing_payload seed b = Ok (seed ++ spec_covered (skipn 108 b)).
Proof. exact payload_def. Qed.
Print Assumptions signing_payload_def.

Theorem signing_payload_needs_type_bytes : forall seed b, (length b < 112)%nat -> (108 <= length b)%nat ->
  sym_signing_payload seed b = Crash "IndexError".
Proof. exact payload_short. Qed.
Print Assumptions signing_payload_needs_type_bytes.

Theorem payload_ignores : forall seed hdr hdr' body, length hdr = 108%nat -> length hdr' = 108%nat ->
  sym_signing_payload seed (hdr ++ body) = sym_signing_payload seed (hdr' ++ body).
Proof. exact payload_ignores_header. Qed.
Print Assumptions payload_ignores.

Theorem payload_ignores_aggregate_tail : forall seed hdr hdr' head tail tail',
  length hdr = 108%nat -> length hdr' = 108%nat -> length head = 52%nat -> spec_is_aggregate head = true ->
  sym_signing_payload seed (hdr ++ head ++ tail) = Ok (seed ++ head)
  /\ sym_signing_payload seed (hdr' ++ head ++ tail') = Ok (seed ++ head).
Proof. exact PayloadProofs.payload_ignores_aggregate_tail. Qed.
Print Assumptions payload_ignores_aggregate_tail.

Theorem payload_covers : forall seed hdr hdr' body body',
  length hdr = 108%nat -> length hdr' = 108%nat -> (4 <= length body)%nat -> (4 <= length body')%nat ->
  sym_signing_payload seed (hdr ++ body) = sym_signing_payload seed (hdr' ++ body') ->
  spec_covered body = spec_covered body'.
Proof. exact PayloadProofs.payload_covers. Qed.
Print Assumptions payload_covers.

(* ================= signing payload (NEM): the non-verifiable serialization ================= *)
Theorem nem_signing_payload_def : forall head sigblock rest, length head = 48%nat -> length sigblock = 68%nat ->
  nem_signing_payload (head ++ sigblock ++ rest) = head ++ spec_nem_body head rest.
Proof. exact nem_payload_def. Qed.
Print Assumptions nem_signing_payload_def.

Theorem nem_payload_ignores : forall head sigblock sigblock' rest,
  length head = 48%nat -> length sigblock = 68%nat -> length sigblock' = 68%nat ->
  nem_signing_payload (head ++ sigblock ++ rest) = nem_signing_payload (head ++ sigblock' ++ rest).
Proof. exact PayloadProofs.nem_payload_ignores. Qed.
Print Assumptions nem_payload_ignores.

Theorem nem_payload_covers : forall head head' sigblock sigblock' rest rest',
  length head = 48%nat -> length head' = 48%nat -> length sigblock = 68%nat -> length sigblock' = 68%nat ->
  nem_signing_payload (head ++ sigblock ++ rest) = nem_signing_payload (head' ++ sigblock' ++ rest') ->
  head = head' /\ spec_nem_body head rest = spec_nem_body head' rest'.
Proof. exact PayloadProofs.nem_payload_covers. Qed.
Print Assumptions nem_payload_covers.

(* ================= per-run obligations on the regenerated constants ================= *)
Theorem curve_constants_are_rfc8032 :
  ed_q = 2 ^ 255 - 19 /\ ed_l = 2 ^ 252 + 27742317777372353535851937790883648493 /\ ed_b = 256
  /\ (ed_d * 121666 + 121665) mod ed_q = 0
  /\ to_hex (encodepoint ed_B) = "5866666666666666666666666666666666666666666666666666666666666666"%string
  /\ isoncurve ed_B = true /\ (ed_I * ed_I + 1) mod ed_q = 0.
Proof. exact curve_constants_rfc8032. Qed.
Print Assumptions curve_constants_are_rfc8032.

(* hash, key preparation, scalar extraction (the NEM byte masks equal the RFC 8032 clamp equal the arithmetic clamp of
   external/ed25519.py), signature split, zero-key and S tests of each network satisfy the laws the scheme theorems need *)
Theorem symbol_flavour_ok : flavour_ok sym_flavour ed_l false.
Proof. exact sym_flavour_ok. Qed.
Print Assumptions symbol_flavour_ok.

Theorem nem_flavour_is_ok : flavour_ok nem_flavour ed_l true.
Proof. exact nem_flavour_ok. Qed.
Print Assumptions nem_flavour_is_ok.

(* ================= the scheme over ANY lawful group (Section hypotheses made explicit) ================= *)
Theorem verify_sign : forall (G : Type) (o : ed_ops G) fl zero_refused,
  ed_laws o -> flavour_ok fl (g_L o) zero_refused -> forall k m,
  (zero_refused = true -> sig_S_value o fl k m <> 0) ->
  verify o fl (public_key o fl k) m (sign o fl k m) = Ok true.
Proof. exact @EdAbstractProofs.verify_sign. Qed.
Print Assumptions verify_sign.

(* determinism: R is the base-point multiple by the hash-derived nonce, S = r + h a mod L (RFC 8032 5.1.6 with the flavour's hash) *)
Theorem sign_deterministic : forall (G : Type) (o : ed_ops G) fl k m,
  sign o fl k m =
  let d := fl_hash fl (fl_prep fl k) in
  let a := fl_scalar_sign fl d in
  let r := from_le (fl_hash fl (fl_prefix fl d ++ m)) mod g_L o in
  let R := g_enc o (g_smul o r (g_B o)) in
  let A := g_enc o (g_smul o (fl_scalar_pub fl d) (g_B o)) in
  R ++ to_le 32 ((r + (from_le (fl_hash fl (R ++ A ++ m)) mod g_L o) * a) mod g_L o).
Proof. exact @EdAbstractProofs.sign_deterministic. Qed.
Print Assumptions sign_deterministic.

(* a signature valid for m under a key of order L verifies for m' iff the challenge hashes agree mod L *)
Theorem verify_modified_iff_collision : forall (G : Type) (o : ed_ops G) fl zero_refused,
  ed_laws o -> flavour_ok fl (g_L o) zero_refused -> forall pub m m' sig A,
  g_dec o pub = Some A -> (forall x, g_smul o x A = g_zero o -> x mod g_L o = 0) ->
  verify o fl pub m sig = Ok true ->
  (verify o fl pub m' sig = Ok true <-> challenge o fl (fl_sig_R fl sig) pub m' = challenge o fl (fl_sig_R fl sig) pub m).
Proof. exact @EdAbstractProofs.verify_modified_iff_collision. Qed.
Print Assumptions verify_modified_iff_collision.

Theorem verify_S_unique : forall (G : Type) (o : ed_ops G) fl zero_refused,
  ed_laws o -> flavour_ok fl (g_L o) zero_refused -> forall pub m sig1 sig2,
  fl_sig_R fl sig1 = fl_sig_R fl sig2 -> wf_bytes (fl_sig_S fl sig1) = true -> wf_bytes (fl_sig_S fl sig2) = true ->
  verify o fl pub m sig1 = Ok true -> verify o fl pub m sig2 = Ok true ->
  from_le (fl_sig_S fl sig1) = from_le (fl_sig_S fl sig2).
Proof. exact @EdAbstractProofs.verify_S_unique. Qed.
Print Assumptions verify_S_unique.

(* the NEM verifier accepts only canonical keys that are not of small order and lie in the main subgroup *)
Theorem strict_verifier_key_checks : forall (G : Type) (o : ed_ops G) fl zero_refused,
  ed_laws o -> flavour_ok fl (g_L o) zero_refused -> forall pub m sig A,
  fl_strict_key fl = true -> g_dec o pub = Some A -> verify o fl pub m sig = Ok true ->
  g_canonical o pub = true /\ g_smul o 8 A <> g_zero o /\ g_smul o (g_L o) A = g_zero o.
Proof. exact @EdAbstractProofs.strict_verifier_key_checks. Qed.
Print Assumptions strict_verifier_key_checks.

(* ================= the concrete functions (what the SDK computes, as modelled by Sym/EdZ.v) ================= *)
(* refusals need no premise *)
Theorem verify_rejects_unreduced_S :
  (forall pub m sig, ed_l <= from_le (skipn 32 sig) -> sym_verify pub m sig <> Ok true)
  /\ (forall pub m sig, ed_l <= from_le (skipn 32 sig) -> nem_verify pub m sig <> Ok true).
Proof.
  exact (conj (fun pub m sig => edz_rejects_unreduced_S sym_flavour false pub m sig sym_flavour_ok)
              (fun pub m sig => edz_rejects_unreduced_S nem_flavour true pub m sig nem_flavour_ok)).
Qed.
Print Assumptions verify_rejects_unreduced_S.

Theorem nem_verify_rejects_zero_S : forall pub m sig, from_le (skipn 32 sig) = 0 -> nem_verify pub m sig <> Ok true.
Proof. exact (fun pub m sig => edz_rejects_zero_S nem_flavour pub m sig nem_flavour_ok). Qed.
Print Assumptions nem_verify_rejects_zero_S.

Theorem verifier_rejects_zero_key :
  (forall m sig, sym_verify (zeros 32) m sig = Reject) /\ (forall m sig, nem_verify (zeros 32) m sig = Reject).
Proof.
  exact (conj (fun m sig => edz_rejects_zero_key sym_flavour false m sig sym_flavour_ok)
              (fun m sig => edz_rejects_zero_key nem_flavour true m sig nem_flavour_ok)).
Qed.
Print Assumptions verifier_rejects_zero_key.

(* full statement: forall k m, sym_verify (sym_public_key k) m (sym_sign k m) = Ok true *)
Theorem sym_verify_sign_partial : EdZ_group_premise -> forall k m, sym_verify (sym_public_key k) m (sym_sign k m) = Ok true.
Proof.
  exact (fun premise k m => edz_verify_sign premise sym_flavour false k m sym_flavour_ok (fun H => False_ind _ (Bool.diff_false_true H))).
Qed.
Print Assumptions sym_verify_sign_partial.

(* full statement: the same without the premise; S = 0 (probability 2^-252) is refused by the NEM verifier even when honest *)
Theorem nem_verify_sign_partial : EdZ_group_premise -> forall k m,
  from_le (skipn 32 (nem_sign k m)) <> 0 -> nem_verify (nem_public_key k) m (nem_sign k m) = Ok true.
Proof. exact (fun premise k m H => edz_verify_sign premise nem_flavour true k m nem_flavour_ok (fun _ => H)). Qed.
Print Assumptions nem_verify_sign_partial.

(* every change of the S half of a valid signature is refused *)
Theorem sym_verify_S_unique_partial : EdZ_group_premise -> forall pub m sig1 sig2,
  firstn 32 sig1 = firstn 32 sig2 -> wf_bytes (skipn 32 sig1) = true -> wf_bytes (skipn 32 sig2) = true ->
  sym_verify pub m sig1 = Ok true -> sym_verify pub m sig2 = Ok true -> from_le (skipn 32 sig1) = from_le (skipn 32 sig2).
Proof. exact (fun premise pub m s1 s2 => edz_verify_S_unique premise sym_flavour false pub m s1 s2 sym_flavour_ok). Qed.
Print Assumptions sym_verify_S_unique_partial.

Theorem nem_verify_S_unique_partial : EdZ_group_premise -> forall pub m sig1 sig2,
  firstn 32 sig1 = firstn 32 sig2 -> wf_bytes (skipn 32 sig1) = true -> wf_bytes (skipn 32 sig2) = true ->
  nem_verify pub m sig1 = Ok true -> nem_verify pub m sig2 = Ok true -> from_le (skipn 32 sig1) = from_le (skipn 32 sig2).
Proof. exact (fun premise pub m s1 s2 => edz_verify_S_unique premise nem_flavour true pub m s1 s2 nem_flavour_ok). Qed.
Print Assumptions nem_verify_S_unique_partial.

(* ================= cosignatures and voting key trees ================= *)
Theorem cosignature_def : forall sign pub h detached,
  cosignature_bytes (cosign_transaction_hash sign pub h detached) = to_le 8 0 ++ pub ++ sign h ++ (if detached then h else []).
Proof. exact PayloadProofs.cosignature_def. Qed.
Print Assumptions cosignature_def.

(* the same laws hold for a cosignature: it is the signer's signature over the 32 hash bytes *)
Theorem cosignature_verifies_partial : EdZ_group_premise -> forall k h detached,
  let c := cosign_transaction_hash (sym_sign k) (sym_public_key k) h detached in
  cosig_version c = 0 /\ sym_verify (cosig_signer c) h (cosig_signature c) = Ok true.
Proof. exact (fun premise k h detached => conj eq_refl (sym_verify_sign_partial premise k h)). Qed.
Print Assumptions cosignature_verifies_partial.

Theorem voting_tree_layout : forall root_sign root_pub pk s e keys,
  voting_keys_generate root_sign root_pub pk s e keys =
  (to_le 8 s ++ to_le 8 e ++ to_le 8 (2 ^ 64 - 1) ++ to_le 8 (2 ^ 64 - 1) ++ root_pub ++ to_le 8 s ++ to_le 8 e)
  ++ vk_entries root_sign pk (rev (map (fun i => s + Z.of_nat i) (seq 0 (Z.to_nat (e + 1 - s))))) keys.
Proof. exact (fun root_sign root_pub pk s e keys => eq_refl). Qed.
Print Assumptions voting_tree_layout.

Theorem voting_epochs_descending : forall s e i, s <= e -> (i < Z.to_nat (e + 1 - s))%nat ->
  nth i (vk_identifiers s e) 0 = e - Z.of_nat i /\ length (vk_identifiers s e) = Z.to_nat (e + 1 - s).
Proof. exact voting_identifiers_descending. Qed.
Print Assumptions voting_epochs_descending.

(* each entry: 32-byte child private key, then a 64-byte certificate that verifies under the root key over
   child public key || LE64(epoch) -- for any signature scheme in which honest signatures verify *)
Theorem voting_certificates_verify : forall root_sign root_pub pk (verify : bytes -> bytes -> bytes -> bool),
  (forall m, verify root_pub m (root_sign m) = true) -> forall ids keys,
  Forall (fun key => length key = 32%nat) keys -> (forall m, length (root_sign m) = 64%nat) ->
  vk_entries_certified root_pub pk verify ids keys (vk_entries root_sign pk ids keys).
Proof. exact voting_entries_certified. Qed.
Print Assumptions voting_certificates_verify.

(* non-vacuity: the premises of the payload theorems are inhabited, and an aggregate head is recognised *)
Example payload_example :
  sym_signing_payload [7] (repeat 0 108 ++ [1; 2; 65; 65] ++ repeat 9 60) = Ok ([7] ++ [1; 2; 65; 65] ++ repeat 9 48)
  /\ sym_signing_payload [7] (repeat 0 108 ++ [1; 2; 84; 65; 5]) = Ok ([7; 1; 2; 84; 65; 5])
  /\ nem_signing_payload (repeat 1 48 ++ repeat 2 68 ++ [3; 4]) = repeat 1 48 ++ [3; 4].
Proof. vm_compute. repeat split; reflexivity. Qed.

(* ================= non-vacuity of the premises ================= *)
From Symv Require Import Props.Examples.
From Coq Require Import Lia.

(* the premises `ed_laws o` and `flavour_ok fl (g_L o) zero_refused` of the generic scheme theorems (verify_sign,
   verify_modified_iff_collision, verify_S_unique, strict_verifier_key_checks) are jointly satisfiable: the toy group of
   Props/Examples.v (integers modulo the regenerated order ed_l, base point 1) is lawful, both shipped flavours are ok for its order,
   its base point has the order premise of verify_modified_iff_collision, and verify_sign applies to it.  This shows that the record
   of laws is not contradictory; it says nothing about edwards25519. *)
Example generic_scheme_premises_nonvacuous :
  ed_laws toy_ops /\ flavour_ok sym_flavour (g_L toy_ops) false /\ flavour_ok nem_flavour (g_L toy_ops) true
  /\ (forall x, g_smul toy_ops x (g_B toy_ops) = g_zero toy_ops -> x mod g_L toy_ops = 0)
  /\ (forall k m, verify toy_ops sym_flavour (public_key toy_ops sym_flavour k) m (sign toy_ops sym_flavour k m) = Ok true).
Proof.
  exact (conj toy_group_is_lawful (conj sym_flavour_ok (conj nem_flavour_ok (conj toy_base_point_order
    (fun k m => @EdAbstractProofs.verify_sign toy_point toy_ops sym_flavour false toy_group_is_lawful sym_flavour_ok k m
                  (fun H => False_ind _ (Bool.diff_false_true H))))))).
Qed.
Print Assumptions generic_scheme_premises_nonvacuous.

(* [EdZ_group_premise] (premise of every *_partial theorem above) CANNOT be proved here and is not proved anywhere.  What this Example
   shows is only that it is NOT REFUTED by a few kernel-evaluated samples of the laws it bundles, on the integer formulas of Sym/EdZ.v
   themselves (points compared projectively by same_point of Props/Examples.v: x1 z2 = x2 z1, y1 z2 = y2 z1 mod q): associativity, commutativity, neutral element,
   inverse, 0 P = O, (x + y) P = x P + y P, (x y) P = x (y P), the order range and gcd, is_neutral, a 32-byte canonical non-zero
   encoding.  Whole sign / verify / shared-key samples (one scalar multiplication costs ~17 s under vm_compute) are executed by the
   harness through the extracted model against OpenSSL and the RFC 8032 reference instead (harness/checks/c07.py, c14.py). *)
Example group_premise_not_refuted_on_samples :
  let B2 := scalarmult 2 ed_B in let B3 := scalarmult 3 ed_B in let K := scalarmult 1000003 ed_B in let E3 := encodepoint B3 in
  same_point (edwards_add ed_B (edwards_add B2 K)) (edwards_add (edwards_add ed_B B2) K) = true
  /\ same_point (edwards_add B2 K) (edwards_add K B2) = true
  /\ same_point (edwards_add ed_ident K) K = true
  /\ same_point (edwards_add K (edwards_neg K)) ed_ident = true
  /\ same_point (scalarmult 0 K) ed_ident = true
  /\ same_point (scalarmult (2 + 3) K) (edwards_add (scalarmult 2 K) (scalarmult 3 K)) = true
  /\ same_point (scalarmult (2 * 3) K) (scalarmult 2 (scalarmult 3 K)) = true
  /\ same_point B2 B3 = false
  /\ (2 ^ 252 < ed_l < 2 ^ 253 /\ Z.gcd 64 ed_l = 1)
  /\ isoncurve K = true /\ is_neutral ed_ident = true /\ is_neutral K = false
  /\ length E3 = 32%nat /\ iscanonical E3 = true /\ E3 <> zeros 32.
Proof. vm_compute. repeat split; try reflexivity. discriminate. Qed.
Print Assumptions group_premise_not_refuted_on_samples.

(* the remaining premises: a 52-byte aggregate head (payload_ignores_aggregate_tail), an epoch range and index
   (voting_epochs_descending), and a toy signature scheme in which honest signatures verify, with 32-byte keys and 64-byte
   signatures (voting_certificates_verify) *)
Example premises_nonvacuous :
  let head := [1; 2; 65; 66] ++ repeat 9 48 in
  (length head = 52%nat /\ spec_is_aggregate head = true
   /\ sym_signing_payload [7] (repeat 0 108 ++ head ++ [1; 2; 3]) = Ok ([7] ++ head))
  /\ (3 <= 5 /\ (2 < Z.to_nat (5 + 1 - 3))%nat /\ nth 2 (vk_identifiers 3 5) 0 = 5 - Z.of_nat 2)
  /\ (let root_sign := fun m : bytes => firstn 64 (m ++ repeat 0 64) in
      let verify := fun (pub m s : bytes) => beqb s (root_sign m) in
      (forall m, verify [1] m (root_sign m) = true) /\ Forall (fun key => length key = 32%nat) [repeat 3 32; repeat 4 32]
      /\ (forall m, length (root_sign m) = 64%nat)).
Proof.
  split; [vm_compute; repeat split; reflexivity|]. split; [vm_compute; repeat split; try reflexivity; try discriminate; repeat constructor|].
  cbv zeta. split; [intro m; apply beqb_refl|]. split; [repeat constructor|].
  intro m. rewrite firstn_length, app_length, repeat_length. lia.
Qed.
Print Assumptions premises_nonvacuous.
