(* C07 -- signatures verify exactly for the signed payload and are reference-exact.
   Only statements; each closed by `exact` of a lemma proved in Sym/PayloadProofs.v, Sym/EdAbstractProofs.v, Sym/EdZProofs.v.
   Left-hand sides are the models of the code instantiated with the constants regenerated from /repo (Gen/PayloadOps.v,
   Gen/KeyPairOps.v); right-hand sides are fixed text.

   Theorems named *_partial carry the premise [EdZ_group_premise]: that the integer formulas of Sym/EdZ.v implement a lawful group
   (the edwards25519 group law).  That premise is NOT proved anywhere; it is supported by sampling only.  The full statements the
   partial ones stand for are the same statements without that premise. *)
From Symv Require Import Base.Bytes Base.PyOps Sym.Keccak Sym.Sha2 Sym.EdAbstract Sym.EdAbstractProofs Sym.EdZ Sym.EdZProofs
  Sym.Payload Sym.PayloadProofs.
Open Scope Z_scope.

(* ================= signing payload (Symbol) ================= *)
(* seed followed by the body after the 108-byte size/reserved/signature/signer/reserved header; only the 52-byte head for the
   aggregate types 0x4141 / 0x4241 (little-endian at body offset 2) *)
Theorem signing_payload_def : forall seed b, (112 <= length b)%nat ->
  sym_signing_payload seed b = Ok (seed ++ spec_covered (skipn 108 b)).
Proof. exact payload_def. Qed.
Print Assumptions signing_payload_def.

Theorem signing_payload_needs_type_bytes : forall seed b, (length b < 112)%nat -> (108 <= length b)%nat ->
  sym_signing_payload seed b = Crash "IndexError".
Proof. exact payload_short. Qed.
Print Assumptions signing_payload_needs_type_bytes.

Theorem payload_ignores : forall seed hdr hdr' body, length hdr = 108%nat -> length hdr' = 108%nat ->
  sym_signing_payload seed (hdr ++ body) = sym_signing_payload seed (hdr' ++ body).
Proof. exact payload_ignores_header. Qed.
Print Assumptions payload_ignores.

Theorem payload_ignores_aggregate_tail : forall seed hdr hdr' head tail tail',
  length hdr = 108%nat -> length hdr' = 108%nat -> length head = 52%nat -> spec_is_aggregate head = true ->
  sym_signing_payload seed (hdr ++ head ++ tail) = Ok (seed ++ head)
  /\ sym_signing_payload seed (hdr' ++ head ++ tail') = Ok (seed ++ head).
Proof. exact PayloadProofs.payload_ignores_aggregate_tail. Qed.
Print Assumptions payload_ignores_aggregate_tail.

Theorem payload_covers : forall seed hdr hdr' body body',
  length hdr = 108%nat -> length hdr' = 108%nat -> (4 <= length body)%nat -> (4 <= length body')%nat ->
  sym_signing_payload seed (hdr ++ body) = sym_signing_payload seed (hdr' ++ body') ->
  spec_covered body = spec_covered body'.
Proof. exact PayloadProofs.payload_covers. Qed.
Print Assumptions payload_covers.

(* ================= signing payload (NEM): the non-verifiable serialization ================= *)
Theorem nem_signing_payload_def : forall head sigblock rest, length head = 48%nat -> length sigblock = 68%nat ->
  nem_signing_payload (head ++ sigblock ++ rest) = head ++ spec_nem_body head rest.
Proof. exact nem_payload_def. Qed.
Print Assumptions nem_signing_payload_def.

Theorem nem_payload_ignores : forall head sigblock sigblock' rest,
  length head = 48%nat -> length sigblock = 68%nat -> length sigblock' = 68%nat ->
  nem_signing_payload (head ++ sigblock ++ rest) = nem_signing_payload (head ++ sigblock' ++ rest).
Proof. exact PayloadProofs.nem_payload_ignores. Qed.
Print Assumptions nem_payload_ignores.

Theorem nem_payload_covers : forall head head' sigblock sigblock' rest rest',
  length head = 48%nat -> length head' = 48%nat -> length sigblock = 68%nat -> length sigblock' = 68%nat ->
  nem_signing_payload (head ++ sigblock ++ rest) = nem_signing_payload (head' ++ sigblock' ++ rest') ->
  head = head' /\ spec_nem_body head rest = spec_nem_body head' rest'.
Proof. exact PayloadProofs.nem_payload_covers. Qed.
Print Assumptions nem_payload_covers.

(* ================= per-run obligations on the regenerated constants ================= *)
Theorem curve_constants_are_rfc8032 :
  ed_q = 2 ^ 255 - 19 /\ ed_l = 2 ^ 252 + 27742317777372353535851937790883648493 /\ ed_b = 256
  /\ (ed_d * 121666 + 121665) mod ed_q = 0
  /\ to_hex (encodepoint ed_B) = "5866666666666666666666666666666666666666666666666666666666666666"%string
  /\ isoncurve ed_B = true /\ (ed_I * ed_I + 1) mod ed_q = 0.
Proof. exact curve_constants_rfc8032. Qed.
Print Assumptions curve_constants_are_rfc8032.

(* hash, key preparation, scalar extraction (the NEM byte masks equal the RFC 8032 clamp equal the arithmetic clamp of
   external/ed25519.py), signature split, zero-key and S tests of each network satisfy the laws the scheme theorems need *)
Theorem symbol_flavour_ok : flavour_ok sym_flavour ed_l false.
Proof. exact sym_flavour_ok. Qed.
Print Assumptions symbol_flavour_ok.

Theorem nem_flavour_is_ok : flavour_ok nem_flavour ed_l true.
Proof. exact nem_flavour_ok. Qed.
Print Assumptions nem_flavour_is_ok.

(* ================= the scheme over ANY lawful group (Section hypotheses made explicit) ================= *)
Theorem verify_sign : forall (G : Type) (o : ed_ops G) fl zero_refused,
  ed_laws o -> flavour_ok fl (g_L o) zero_refused -> forall k m,
  (zero_refused = true -> sig_S_value o fl k m <> 0) ->
  verify o fl (public_key o fl k) m (sign o fl k m) = Ok true.
Proof. exact @EdAbstractProofs.verify_sign. Qed.
Print Assumptions verify_sign.

(* determinism: R is the base-point multiple by the hash-derived nonce, S = r + h a mod L (RFC 8032 5.1.6 with the flavour's hash) *)
Theorem sign_deterministic : forall (G : Type) (o : ed_ops G) fl k m,
  sign o fl k m =
  let d := fl_hash fl (fl_prep fl k) in
  let a := fl_scalar_sign fl d in
  let r := from_le (fl_hash fl (fl_prefix fl d ++ m)) mod g_L o in
  let R := g_enc o (g_smul o r (g_B o)) in
  let A := g_enc o (g_smul o (fl_scalar_pub fl d) (g_B o)) in
  R ++ to_le 32 ((r + (from_le (fl_hash fl (R ++ A ++ m)) mod g_L o) * a) mod g_L o).
Proof. exact @EdAbstractProofs.sign_deterministic. Qed.
Print Assumptions sign_deterministic.

(* a signature valid for m under a key of order L verifies for m' iff the challenge hashes agree mod L *)
Theorem verify_modified_iff_collision : forall (G : Type) (o : ed_ops G) fl zero_refused,
  ed_laws o -> flavour_ok fl (g_L o) zero_refused -> forall pub m m' sig A,
  g_dec o pub = Some A -> (forall x, g_smul o x A = g_zero o -> x mod g_L o = 0) ->
  verify o fl pub m sig = Ok true ->
  (verify o fl pub m' sig = Ok true <-> challenge o fl (fl_sig_R fl sig) pub m' = challenge o fl (fl_sig_R fl sig) pub m).
Proof. exact @EdAbstractProofs.verify_modified_iff_collision. Qed.
Print Assumptions verify_modified_iff_collision.

Theorem verify_S_unique : forall (G : Type) (o : ed_ops G) fl zero_refused,
  ed_laws o -> flavour_ok fl (g_L o) zero_refused -> forall pub m sig1 sig2,
  fl_sig_R fl sig1 = fl_sig_R fl sig2 -> wf_bytes (fl_sig_S fl sig1) = true -> wf_bytes (fl_sig_S fl sig2) = true ->
  verify o fl pub m sig1 = Ok true -> verify o fl pub m sig2 = Ok true ->
  from_le (fl_sig_S fl sig1) = from_le (fl_sig_S fl sig2).
Proof. exact @EdAbstractProofs.verify_S_unique. Qed.
Print Assumptions verify_S_unique.

(* the NEM verifier accepts only canonical keys that are not of small order and lie in the main subgroup *)
Theorem strict_verifier_key_checks : forall (G : Type) (o : ed_ops G) fl zero_refused,
  ed_laws o -> flavour_ok fl (g_L o) zero_refused -> forall pub m sig A,
  fl_strict_key fl = true -> g_dec o pub = Some A -> verify o fl pub m sig = Ok true ->
  g_canonical o pub = true /\ g_smul o 8 A <> g_zero o /\ g_smul o (g_L o) A = g_zero o.
Proof. exact @EdAbstractProofs.strict_verifier_key_checks. Qed.
Print Assumptions strict_verifier_key_checks.

(* ================= the concrete functions (what the SDK computes, as modelled by Sym/EdZ.v) ================= *)
(* refusals need no premise *)
Theorem verify_rejects_unreduced_S :
  (forall pub m sig, ed_l <= from_le (skipn 32 sig) -> sym_verify pub m sig <> Ok true)
  /\ (forall pub m sig, ed_l <= from_le (skipn 32 sig) -> nem_verify pub m sig <> Ok true).
Proof.
  exact (conj (fun pub m sig => edz_rejects_unreduced_S sym_flavour false pub m sig sym_flavour_ok)
              (fun pub m sig => edz_rejects_unreduced_S nem_flavour true pub m sig nem_flavour_ok)).
Qed.
Print Assumptions verify_rejects_unreduced_S.

Theorem nem_verify_rejects_zero_S : forall pub m sig, from_le (skipn 32 sig) = 0 -> nem_verify pub m sig <> Ok true.
Proof. exact (fun pub m sig => edz_rejects_zero_S nem_flavour pub m sig nem_flavour_ok). Qed.
Print Assumptions nem_verify_rejects_zero_S.

Theorem verifier_rejects_zero_key :
  (forall m sig, sym_verify (zeros 32) m sig = Reject) /\ (forall m sig, nem_verify (zeros 32) m sig = Reject).
Proof.
  exact (conj (fun m sig => edz_rejects_zero_key sym_flavour false m sig sym_flavour_ok)
              (fun m sig => edz_rejects_zero_key nem_flavour true m sig nem_flavour_ok)).
Qed.
Print Assumptions verifier_rejects_zero_key.

(* full statement: forall k m, sym_verify (sym_public_key k) m (sym_sign k m) = Ok true *)
Theorem sym_verify_sign_partial : EdZ_group_premise -> forall k m, sym_verify (sym_public_key k) m (sym_sign k m) = Ok true.
Proof.
  exact (fun premise k m => edz_verify_sign premise sym_flavour false k m sym_flavour_ok (fun H => False_ind _ (Bool.diff_false_true H))).
Qed.
Print Assumptions sym_verify_sign_partial.

(* full statement: the same without the premise; S = 0 (probability 2^-252) is refused by the NEM verifier even when honest *)
Theorem nem_verify_sign_partial : EdZ_group_premise -> forall k m,
  from_le (skipn 32 (nem_sign k m)) <> 0 -> nem_verify (nem_public_key k) m (nem_sign k m) = Ok true.
Proof. exact (fun premise k m H => edz_verify_sign premise nem_flavour true k m nem_flavour_ok (fun _ => H)). Qed.
Print Assumptions nem_verify_sign_partial.

(* every change of the S half of a valid signature is refused *)
Theorem sym_verify_S_unique_partial : EdZ_group_premise -> forall pub m sig1 sig2,
  firstn 32 sig1 = firstn 32 sig2 -> wf_bytes (skipn 32 sig1) = true -> wf_bytes (skipn 32 sig2) = true ->
  sym_verify pub m sig1 = Ok true -> sym_verify pub m sig2 = Ok true -> from_le (skipn 32 sig1) = from_le (skipn 32 sig2).
Proof. exact (fun premise pub m s1 s2 => edz_verify_S_unique premise sym_flavour false pub m s1 s2 sym_flavour_ok). Qed.
Print Assumptions sym_verify_S_unique_partial.

Theorem nem_verify_S_unique_partial : EdZ_group_premise -> forall pub m sig1 sig2,
  firstn 32 sig1 = firstn 32 sig2 -> wf_bytes (skipn 32 sig1) = true -> wf_bytes (skipn 32 sig2) = true ->
  nem_verify pub m sig1 = Ok true -> nem_verify pub m sig2 = Ok true -> from_le (skipn 32 sig1) = from_le (skipn 32 sig2).
Proof. exact (fun premise pub m s1 s2 => edz_verify_S_unique premise nem_flavour true pub m s1 s2 nem_flavour_ok). Qed.
Print Assumptions nem_verify_S_unique_partial.

(* ================= cosignatures and voting key trees ================= *)
Theorem cosignature_def : forall sign pub h detached,
  cosignature_bytes (cosign_transaction_hash sign pub h detached) = to_le 8 0 ++ pub ++ sign h ++ (if detached then h else []).
Proof. exact PayloadProofs.cosignature_def. Qed.
Print Assumptions cosignature_def.

(* the same laws hold for a cosignature: it is the signer's signature over the 32 hash bytes *)
Theorem cosignature_verifies_partial : EdZ_group_premise -> forall k h detached,
  let c := cosign_transaction_hash (sym_sign k) (sym_public_key k) h detached in
  cosig_version c = 0 /\ sym_verify (cosig_signer c) h (cosig_signature c) = Ok true.
Proof. exact (fun premise k h detached => conj eq_refl (sym_verify_sign_partial premise k h)). Qed.
Print Assumptions cosignature_verifies_partial.

Theorem voting_tree_layout : forall root_sign root_pub pk s e keys,
  voting_keys_generate root_sign root_pub pk s e keys =
  (to_le 8 s ++ to_le 8 e ++ to_le 8 (2 ^ 64 - 1) ++ to_le 8 (2 ^ 64 - 1) ++ root_pub ++ to_le 8 s ++ to_le 8 e)
  ++ vk_entries root_sign pk (rev (map (fun i => s + Z.of_nat i) (seq 0 (Z.to_nat (e + 1 - s))))) keys.
Proof. exact (fun root_sign root_pub pk s e keys => eq_refl). Qed.
Print Assumptions voting_tree_layout.

Theorem voting_epochs_descending : forall s e i, s <= e -> (i < Z.to_nat (e + 1 - s))%nat ->
  nth i (vk_identifiers s e) 0 = e - Z.of_nat i /\ length (vk_identifiers s e) = Z.to_nat (e + 1 - s).
Proof. exact voting_identifiers_descending. Qed.
Print Assumptions voting_epochs_descending.

(* each entry: 32-byte child private key, then a 64-byte certificate that verifies under the root key over
   child public key || LE64(epoch) -- for any signature scheme in which honest signatures verify *)
Theorem voting_certificates_verify : forall root_sign root_pub pk (verify : bytes -> bytes -> bytes -> bool),
  (forall m, verify root_pub m (root_sign m) = true) -> forall ids keys,
  Forall (fun key => length key = 32%nat) keys -> (forall m, length (root_sign m) = 64%nat) ->
  vk_entries_certified root_pub pk verify ids keys (vk_entries root_sign pk ids keys).
Proof. exact voting_entries_certified. Qed.
Print Assumptions voting_certificates_verify.

(* non-vacuity: the premises of the payload theorems are inhabited, and an aggregate head is recognised *)
Example payload_example :
  sym_signing_payload [7] (repeat 0 108 ++ [1; 2; 65; 65] ++ repeat 9 60) = Ok ([7] ++ [1; 2; 65; 65] ++ repeat 9 48)
  /\ sym_signing_payload [7] (repeat 0 108 ++ [1; 2; 84; 65; 5]) = Ok ([7; 1; 2; 84; 65; 5])
  /\ nem_signing_payload (repeat 1 48 ++ repeat 2 68 ++ [3; 4]) = repeat 1 48 ++ [3; 4].
Proof. vm_compute. repeat split; reflexivity. Qed.
